import XalanModel.C08.Options
import XalanModel.Generated.C08_HtmlTable
/-
C08 — FormatterToHTML at token level over the regenerated element table
(`Generated.C08.htmlTable`, from XalanHTMLElementsProperties.cpp).

Mirrors FormatterToHTML.cpp: startDocument 205-253, endDocument 258-270, startElement 275-385 (no-namespace branch),
endElement 390-486, characters 491-540, processingInstruction 640-690, and the FormatterToXML.cpp members it
inherits (writeParentTagEnd 1737, indent 1819, comment 1645, charactersRaw 1314, endDocument 1094, shouldIndent).
Lexical rendering is modelled only for plain content (printable ASCII text, attribute values without special
characters); `serializeHtml` answers `none` outside that class and the check then relies on the HTML-reader
predicate evaluated on the real output.
-/
namespace XalanModel.C08.Html
open XalanModel.C08
open XalanModel.Generated.C08

structure HtmlCfg where
  encoding : Str := []
  doctypeSystem : Str := []
  doctypePublic : Str := []
  doIndent : Bool := false
  indent : Nat := 0
  escapeURLs : Bool := true
  omitMeta : Bool := false
  /-- prefixes the installed `PrefixResolver` maps to a non-empty namespace (`doPushHasNamespace`) -/
  nsPrefixes : List Str := []
  /-- source fact (call-point translator): does `FormatterToXML::charactersRaw` set `m_isprevtext` -/
  rawSetsPrevText : Bool := false
deriving Repr, Inhabited

/-- `m_spaceBeforeClose` of the FormatterToXML base -/
def HtmlCfg.spaceBeforeClose (c : HtmlCfg) : Bool :=
  !c.doctypePublic.isEmpty && xhtmlDocType.isPrefixOf c.doctypePublic

/-- `doPushHasNamespace`: the element name's prefix (empty when there is no colon) resolves to a non-empty
namespace.  The unprefixed case (default namespace) is not generated and answers `false`. -/
def hasNamespace (c : HtmlCfg) (name : Str) : Bool :=
  name.contains 58 && c.nsPrefixes.contains (name.takeWhile (· != 58))

/-- `compareIgnoreCaseASCII` order of the table: shorter names first, then by upper-cased characters -/
def nameLt (a b : List Nat) : Bool :=
  a.length < b.length || (a.length == b.length && decide (upper a < upper b))

def tableSorted : List (List Nat × Nat × List (List Nat × Nat)) → Bool
  | a :: b :: r => nameLt a.1 b.1 && tableSorted (b :: r)
  | _ => true

/-- `XalanHTMLElementsProperties::find`: flags of the element (dummy entry for unknown names) -/
def findFlags (name : Str) : Nat :=
  match htmlTable.find? (fun e => upper e.1 == upper name) with
  | some e => e.2.1
  | none => htmlDummyFlags

def findAttrFlags (ename aname : Str) : Nat :=
  match htmlTable.find? (fun e => upper e.1 == upper ename) with
  | some e => (match e.2.2.find? (fun a => upper a.1 == upper aname) with
    | some a => a.2
    | none => 0)
  | none => 0

def has (fl flag : Nat) : Bool := fl &&& flag != 0

/-- the elements HTML 4.01 declares EMPTY (upper case, as in the table) -/
def html4Void : List Str :=
  ["AREA", "BASE", "BASEFONT", "BR", "COL", "FRAME", "HR", "IMG", "INPUT", "ISINDEX", "LINK", "META", "PARAM"].map
    fun x => x.toList.map Char.toNat

inductive HTok where
  | t (x : Tok)
  | xmlOpen (name : Str) (attrs : List (Str × Str))   -- start tag written by the inherited FormatterToXML::startElement
  | metaTag (encoding : Str)
  | doctypeHtml (pub sys : Str)
deriving Repr, DecidableEq, Inhabited

structure HSt where
  elemStack : List Bool := []
  currentIndent : Nat := 0
  startNewLine : Bool := false
  ispreserve : Bool := false
  isprevtext : Bool := false
  preserves : List Bool := []
  inBlockElem : Bool := false
  isRawStack : List Bool := []
  inScriptElemStack : List Bool := [false]
  isFirstElement : Bool := true
  elementLevel : Nat := 0
  propsStack : List Nat := []
  hasNamespaceStack : List Bool := []
  /-- `m_nextIsRaw` of the FormatterToXML base -/
  nextIsRaw : Bool := false
deriving Repr, Inhabited

/-- `FormatterToXML::indent(n)` -/
def indentToks (cfg : HtmlCfg) (st : HSt) : List HTok :=
  (if st.startNewLine then [HTok.t .nl] else []) ++ (if cfg.doIndent then [HTok.t (.ws st.currentIndent)] else [])

def shouldIndent (cfg : HtmlCfg) (st : HSt) : Bool := cfg.doIndent && (!st.ispreserve && !st.isprevtext)

/-- `FormatterToXML::writeParentTagEnd` -/
def writeParentTagEnd (st : HSt) : HSt × List HTok :=
  match st.elemStack with
  | false :: rest =>
    ({ st with elemStack := true :: rest, isprevtext := false, preserves := st.ispreserve :: st.preserves }, [HTok.t .gt])
  | _ => (st, [])

def startDocument (cfg : HtmlCfg) : HSt × List HTok :=
  let st : HSt := {}
  if !cfg.doctypeSystem.isEmpty || !cfg.doctypePublic.isEmpty then
    (st, [HTok.doctypeHtml cfg.doctypePublic cfg.doctypeSystem, HTok.t .hnl])
  else (st, [])

/-- the indentation decision of `FormatterToHTML::startElement` (lines 318-329) -/
def startIndentBlock (cfg : HtmlCfg) (st : HSt) (isBlock : Bool) : HSt × List HTok :=
  if st.ispreserve then ({ st with ispreserve := false }, [])
  else if cfg.doIndent && st.elementLevel > 0 && !st.isFirstElement && (!st.inBlockElem || isBlock) then
    let st := { st with startNewLine := true }
    (st, indentToks cfg st)
  else (st, [])

/-- the HEAD element gets its `>` at once and, unless omitted, the META tag (lines 353-370) -/
def metaBlock (cfg : HtmlCfg) (st : HSt) (fl : Nat) : HSt × List HTok :=
  if has fl flagHEADELEM then
    let (st, p) := writeParentTagEnd st
    if !cfg.omitMeta then
      (st, p ++ (if cfg.doIndent then indentToks cfg st else []) ++ [HTok.metaTag cfg.encoding])
    else (st, p)
  else (st, [])

def htmlStartElement (cfg : HtmlCfg) (st : HSt) (name : Str) (attrs : List (Str × Str)) : HSt × List HTok :=
  let (st, o1) := writeParentTagEnd st
  let fl := findFlags name
  let st := { st with propsStack := fl :: st.propsStack }
  let isBlock := has fl flagBLOCK
  -- SCRIPTELEM pushes true, everything else repeats the enclosing value
  let st := { st with inScriptElemStack :=
                (if has fl flagSCRIPTELEM then true else st.inScriptElemStack.headD false) :: st.inScriptElemStack }
  let st := { st with elementLevel := st.elementLevel + 1 }
  let (st, o2) := startIndentBlock cfg st isBlock
  let st := { st with inBlockElem := !isBlock, isRawStack := has fl flagRAW :: st.isRawStack }
  let o3 := [HTok.t (.open name attrs)]
  let st := { st with elemStack := false :: st.elemStack, currentIndent := st.currentIndent + cfg.indent, isprevtext := false }
  let (st, o4) := metaBlock cfg st fl
  ({ st with isFirstElement := false }, o1 ++ o2 ++ o3 ++ o4)

/-- the indentation decision of `FormatterToHTML::endElement` (lines 418-429) -/
def endIndentBlock (cfg : HtmlCfg) (st : HSt) (isBlock : Bool) : HSt × Bool :=
  if st.ispreserve then ({ st with ispreserve := false }, false)
  else if cfg.doIndent && (!st.inBlockElem || isBlock) then ({ st with startNewLine := true }, true)
  else (st, false)

def htmlEndElement (cfg : HtmlCfg) (st : HSt) (name : Str) : HSt × List HTok :=
  let st := { st with currentIndent := st.currentIndent - cfg.indent }
  let (hasChildNodes, stack) := match st.elemStack with
    | [] => (false, [])
    | b :: r => (b, r)
  let st := { st with elemStack := stack, isRawStack := st.isRawStack.tail, inScriptElemStack := st.inScriptElemStack.tail }
  let fl := st.propsStack.headD htmlDummyFlags
  let st := { st with propsStack := st.propsStack.tail }
  let isBlock := has fl flagBLOCK
  let (st, doInd) := endIndentBlock cfg st isBlock
  let st := { st with inBlockElem := !isBlock }
  let isEmpty := has fl flagEMPTY
  let o :=
    if hasChildNodes then
      (if doInd then indentToks cfg st else []) ++ (if !isEmpty then [HTok.t (.close name)] else [])
    else
      if !isEmpty then [HTok.t .gt, HTok.t (.close name)] else [HTok.t .gt]
  let st := if has fl flagWHITESPACESENSITIVE then { st with ispreserve := true } else st
  let st := if hasChildNodes then { st with preserves := st.preserves.tail } else st
  ({ st with isprevtext := false, elementLevel := st.elementLevel - 1 }, o)

/-- inherited `FormatterToXML::startElement` (namespaced element; the DOCTYPE was already handled by
`FormatterToHTML::startDocument`, which clears `m_needToOutputDocTypeDecl`) -/
def xmlStartElement (cfg : HtmlCfg) (st : HSt) (name : Str) (attrs : List (Str × Str)) : HSt × List HTok :=
  let (st, o1) := writeParentTagEnd st
  let st := { st with ispreserve := false }
  let o2 := if shouldIndent cfg st && st.startNewLine then indentToks cfg st else []
  let st := { st with startNewLine := true }
  let o3 := [HTok.xmlOpen name attrs]
  ({ st with elemStack := false :: st.elemStack, currentIndent := st.currentIndent + cfg.indent, isprevtext := false },
   o1 ++ o2 ++ o3)

/-- inherited `FormatterToXML::endElement` -/
def xmlEndElement (cfg : HtmlCfg) (st : HSt) (name : Str) : HSt × List HTok :=
  let st := { st with currentIndent := st.currentIndent - cfg.indent }
  let (hasChildNodes, stack) := match st.elemStack with
    | [] => (false, [])
    | b :: r => (b, r)
  let st := { st with elemStack := stack }
  if hasChildNodes then
    let o := (if shouldIndent cfg st then indentToks cfg st else []) ++ [HTok.t (.close name)]
    let st := match st.preserves with
      | [] => { st with ispreserve := false }
      | b :: r => { st with ispreserve := b, preserves := r }
    ({ st with isprevtext := false }, o)
  else
    ({ st with isprevtext := false }, [HTok.t (.emptyEnd cfg.spaceBeforeClose)])

/-- `FormatterToHTML::startElement`: `pushHasNamespace` decides between the inherited XML path and the HTML path -/
def startElement (cfg : HtmlCfg) (st : HSt) (name : Str) (attrs : List (Str × Str)) : HSt × List HTok :=
  let ns := hasNamespace cfg name
  let st := { st with hasNamespaceStack := ns :: st.hasNamespaceStack }
  if ns then xmlStartElement cfg st name attrs else htmlStartElement cfg st name attrs

/-- `FormatterToHTML::endElement`: `popHasNamespace` -/
def endElement (cfg : HtmlCfg) (st : HSt) (name : Str) : HSt × List HTok :=
  let ns := st.hasNamespaceStack.headD false
  let st := { st with hasNamespaceStack := st.hasNamespaceStack.tail }
  if ns then xmlEndElement cfg st name else htmlEndElement cfg st name

def characters (cfg : HtmlCfg) (st : HSt) (str : Str) : HSt × List HTok :=
  let (st, o) :=
    if str.isEmpty then (st, [])
    else if st.inScriptElemStack.headD false then
      let (st, p) := writeParentTagEnd st
      ({ st with ispreserve := true }, p ++ [HTok.t (.raw str)])
    else if st.isRawStack.headD false then
      let (st, p) := writeParentTagEnd st
      let st := { st with ispreserve := true }
      (st, p ++ (if shouldIndent cfg st then indentToks cfg st else []) ++ [HTok.t (.raw str)])
    else
      let (st, p) := writeParentTagEnd st
      ({ st with ispreserve := true }, p ++ [HTok.t (.text str)])
  ({ st with isprevtext := true }, o)

/-- `FormatterToXML::charactersRaw` (disable-output-escaping) -/
def charactersRaw (cfg : HtmlCfg) (st : HSt) (str : Str) : HSt × List HTok :=
  let (st, p) := writeParentTagEnd st
  let st := { st with ispreserve := true }
  let st := if cfg.rawSetsPrevText then { st with isprevtext := true } else st
  (st, p ++ [HTok.t (.raw str)])

def comment (cfg : HtmlCfg) (st : HSt) (data : Str) : HSt × List HTok :=
  let (st, p) := writeParentTagEnd st
  let o := if shouldIndent cfg st then indentToks cfg st else []
  ({ st with startNewLine := true }, p ++ o ++ [HTok.t (.comment data)])

def procInstr (cfg : HtmlCfg) (st : HSt) (target data : Str) : HSt × List HTok :=
  let (st, p) := writeParentTagEnd st
  let o := if shouldIndent cfg st then indentToks cfg st else []
  ({ st with startNewLine := true },
   p ++ o ++ [HTok.t (.pi target data)] ++ (if st.elementLevel == 0 then [HTok.t .hnl] else []))

def endDocument (cfg : HtmlCfg) (st : HSt) : List HTok :=
  if cfg.doIndent && !st.isprevtext then [HTok.t .nl] else []

/-- the handlers below the `m_nextIsRaw` test -/
def stepCore (cfg : HtmlCfg) (st : HSt) : Ev → HSt × List HTok
  | .startElement n a => startElement cfg st n a
  | .endElement n => endElement cfg st n
  | .characters t => characters cfg st t
  | .cdata t => characters cfg st t        -- not generated for HTML (cdata-section-elements is ignored)
  | .raw t => charactersRaw cfg st t
  | .comment t => comment cfg st t
  | .pi t d => procInstr cfg st t d

/-- `FormatterToHTML::processingInstruction` 640-650 (the marker PI sets `m_nextIsRaw`) and `FormatterToHTML::characters`
491-503: a non-empty text with the flag set resets it and goes to `charactersRaw`; `m_isprevtext` is set at the end of
`characters` in every case -/
def step (cfg : HtmlCfg) (st : HSt) : Ev → HSt × List HTok
  | .pi t d => if isRawMarker t d then ({ st with nextIsRaw := true }, []) else stepCore cfg st (.pi t d)
  | .characters t =>
    if !t.isEmpty && st.nextIsRaw then
      let r := stepCore cfg { st with nextIsRaw := false } (.raw t)
      ({ r.1 with isprevtext := true }, r.2)
    else stepCore cfg st (.characters t)
  | .cdata t =>
    if !t.isEmpty && st.nextIsRaw then
      let r := stepCore cfg { st with nextIsRaw := false } (.raw t)
      ({ r.1 with isprevtext := true }, r.2)
    else stepCore cfg st (.cdata t)
  | e => stepCore cfg st e

def runFrom (cfg : HtmlCfg) : HSt → List Ev → HSt × List HTok
  | st, [] => (st, [])
  | st, e :: es =>
    let (s1, o1) := step cfg st e
    let (s2, o2) := runFrom cfg s1 es
    (s2, o1 ++ o2)

def serializeToks (cfg : HtmlCfg) (evs : List Ev) : List HTok :=
  let (s0, h) := startDocument cfg
  let (s1, o) := runFrom cfg s0 evs
  h ++ o ++ endDocument cfg s1

/-! ### lexical rendering

`writeCharacters` 670-760, `writeAttrString` 765-850, `processAttribute` 886-920, `writeAttrURI` 924-1080,
`accumDefaultEntity` 541-580 over the regenerated entity table, `initCharsMap`/`initAttrCharsMap` 150-203 (with
the FormatterToXML base maps).  Characters outside the BMP (surrogate units) are not rendered (`none`): the check
then relies on the read-back predicates. -/

/-- `XalanTranscodingServices::getMaximumCharacterValue(encoding)` as FormatterToXML's constructor stores it -/
def htmlMaxChar (enc : Str) : Nat :=
  let e := upper (if enc.isEmpty then utf8 else enc)
  if e = s "UTF-8" || e = s "UTF-16" || e = s "UTF-16LE" || e = s "UTF-16BE" then 0xFFFF
  else if e = s "ISO-8859-1" then 0xFF else 0x7F

def isSurrogateUnit (c : Nat) : Bool := 0xD800 ≤ c && c ≤ 0xDFFF

/-- `accumContent(ch)`: for a non-UTF encoding `accumContentAsChar` turns a character above `m_maxCharacter` into a
numeric reference (for the UTF encodings `mx` = 0xFFFF and every BMP character is written as it is) -/
def lit (mx c : Nat) : Str := if c > mx then charRef c else [c]

/-- the entity table is ordered by character, as the binary search of `accumDefaultEntity` needs -/
def entitiesSorted : List (Nat × List Nat) → Bool
  | a :: b :: r => decide (a.1 < b.1) && entitiesSorted (b :: r)
  | _ => true

def entityName (c : Nat) : Option Str := (htmlEntities.find? fun e => e.1 == c).map (·.2)

/-- `m_charsMap[c] == 'S'` (HTML `initCharsMap`).  `memset(m_charsMap, 'S', 10)` writes 10 *bytes* of the 16-bit array,
i.e. the value 0x5353 into elements 0-4, which is not `'S'`: the characters below 10 are not special. -/
def textSpecial (mx c : Nat) : Bool :=
  c = 10 || c = 13 || c = 60 || c = 62 || c = 38 || (160 ≤ c && c < 256) || (mx ≤ c && c < 256)

/-- one character of `FormatterToHTML::writeCharacters` -/
def htmlTextChar (mx c : Nat) : Option Str :=
  if isSurrogateUnit c then none
  else if c < 256 && !textSpecial mx c then some (lit mx c)
  else if c = 10 then some [10]
  else if c = 60 then some (s "&lt;") else if c = 62 then some (s "&gt;") else if c = 38 then some (s "&amp;")
  else if c = 34 then some (s "&quot;") else if c = 39 then some (s "&apos;")
  else match entityName c with
    | some nm => some (s "&" ++ nm ++ s ";")
    | none => if 0x7F ≤ c && c ≤ mx then some (lit mx c) else some (charRef c)

def htmlText (mx : Nat) (t : Str) : Option Str := (t.mapM (htmlTextChar mx)).map List.flatten

/-- `m_attrCharsMap[c] == 'S'` (FormatterToXML `initAttrCharsMap`, then the HTML changes) -/
def attrMapSpecial (c : Nat) : Bool :=
  if c = 9 || c = 60 || c = 62 then false
  else c = 38 || c = 34 || c = 13 || c = 10 || (1 ≤ c && c < 0x20) || (0x7F ≤ c && c < 0x9F) || (160 ≤ c && c < 256)

/-- `FormatterToHTML::writeAttrString`; `&{` is left alone -/
def htmlAttrValue (mx : Nat) : Str → Option Str
  | [] => some []
  | c :: rest =>
    if isSurrogateUnit c then none
    else
      let one : Str :=
        if c < 256 && !attrMapSpecial c then lit mx c
        else if c = 38 && rest.head? = some 123 then [c]
        else if c = 60 then s "&lt;" else if c = 62 then s "&gt;" else if c = 38 then s "&amp;"
        else if c = 34 then s "&quot;" else if c = 39 then s "&apos;"
        else match entityName c with
          | some nm => s "&" ++ nm ++ s ";"
          | none => charRef c
      (htmlAttrValue mx rest).map (one ++ ·)

def hexDigitU (n : Nat) : Nat := if n < 10 then 48 + n else 55 + n

/-- `accumHexNumber`: `%XX`, upper-case, at least two digits -/
def pctByte (b : Nat) : Str := [37, hexDigitU (b / 16 % 16), hexDigitU (b % 16)]

/-- one character of `writeAttrURI` (BMP only) -/
def uriChar (escapeURLs : Bool) (mx c : Nat) : Option Str :=
  if isSurrogateUnit c then none
  else if c < 33 || c > 126 then
    if escapeURLs then
      if c = 32 then some [c]
      else if c ≤ 0x7F then some (pctByte c)
      else if c ≤ 0x7FF then some (pctByte (c / 64 ||| 0xC0) ++ pctByte (c % 64 ||| 0x80))
      else some (pctByte (c / 4096 ||| 0xE0) ++ pctByte (c / 64 % 64 ||| 0x80) ++ pctByte (c % 64 ||| 0x80))
    else if c < mx then some (lit mx c) else some (charRef c)
  else if c = 34 then (if escapeURLs then some (s "%22") else some (s "&quot;"))
  else if c = 38 then some (s "&amp;")
  else some [c]

/-- `FormatterToHTML::processAttribute` -/
def renderAttr (cfg : HtmlCfg) (ename : Str) (a : Str × Str) : Option Str :=
  let fl := findAttrFlags ename a.1
  if (a.2.isEmpty || upper a.1 == upper a.2) && has fl flagATTREMPTY then some (s " " ++ a.1)
  else
    let v := if has fl flagATTRURL then (a.2.mapM (uriChar cfg.escapeURLs (htmlMaxChar cfg.encoding))).map List.flatten
             else htmlAttrValue (htmlMaxChar cfg.encoding) a.2
    v.map fun v => s " " ++ a.1 ++ s "=\"" ++ v ++ s "\""

/-- `FormatterToXML::processAttribute` (namespaced elements): the virtual `writeAttrString` is the HTML one -/
def renderXmlAttr (cfg : HtmlCfg) (a : Str × Str) : Option Str :=
  (htmlAttrValue (htmlMaxChar cfg.encoding) a.2).map fun v => s " " ++ a.1 ++ s "=\"" ++ v ++ s "\""

/-- raw text (script content, style content, disable-output-escaping): literal as long as the encoding represents it -/
def renderRaw (mx : Nat) (t : Str) : Option Str :=
  if t.all (fun c => !isSurrogateUnit c && c != 13) then some (t.flatMap (lit mx)) else none

def renderTok (cfg : HtmlCfg) : HTok → Option Str
  | .doctypeHtml pub sys =>
    some (s "<!DOCTYPE HTML" ++ (if pub.isEmpty then [] else s " PUBLIC \"" ++ pub ++ s "\"")
      ++ (if sys.isEmpty then [] else (if pub.isEmpty then s " SYSTEM" else []) ++ s " \"" ++ sys ++ s "\"") ++ s ">")
  | .metaTag enc => some (s "<META http-equiv=\"Content-Type\" content=\"text/html; charset=" ++ (if enc.isEmpty then utf8 else enc) ++ s "\">")
  | .t (.open name attrs) => (attrs.mapM (renderAttr cfg name)).map fun l => s "<" ++ name ++ l.flatten
  | .xmlOpen name attrs => (attrs.mapM (renderXmlAttr cfg)).map fun l => s "<" ++ name ++ l.flatten
  | .t (.emptyEnd sp) => some ((if sp then s " " else []) ++ s "/>")
  | .t .hnl => some [10]
  | .t .gt => some (s ">")
  | .t (.close name) => some (s "</" ++ name ++ s ">")
  | .t (.text t) => htmlText (htmlMaxChar cfg.encoding) t
  | .t (.raw t) => renderRaw (htmlMaxChar cfg.encoding) t
  | .t (.comment t) => if t.all (fun c => 32 ≤ c && c ≤ 126) then some (s "<!--" ++ t ++ s "-->") else none
  | .t (.pi t d) => (htmlText (htmlMaxChar cfg.encoding) d).map fun dd =>
      s "<?" ++ t ++ (match d with
        | [] => []
        | c :: _ => if isXMLWhitespace c then [] else s " ") ++ dd ++ s ">"
  | .t .nl => some [10]
  | .t (.ws n) => some (List.replicate n 32)
  | .t _ => none

def serializeHtml (cfg : HtmlCfg) (evs : List Ev) : Option Str :=
  ((serializeToks cfg evs).mapM (renderTok cfg)).map List.flatten

end XalanModel.C08.Html
