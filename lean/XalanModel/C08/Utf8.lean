import XalanModel.C08.Indent
/-
C08 — XalanUTF8Writer's encoder (XalanUTF8Writer.hpp): `write(XalanUnicodeChar)` 398-455, the bulk
`write(const XalanDOMChar*, size_type)` 262-291 (names, disable-output-escaping text, doctype strings, PI targets),
`writeSafe` 338-372 and the positional `write(chars, start, length)` 293-320 that text, CDATA, comments and attribute
values go through one position at a time.  Buffering is C04's subject; here the output is the byte sequence.
-/
namespace XalanModel.C08.Utf8

abbrev Units := List Nat      -- UTF-16 code units
abbrev Bytes := List Nat

def isHigh (c : Nat) : Bool := 0xD800 ≤ c && c ≤ 0xDBFF
def isLow (c : Nat) : Bool := 0xDC00 ≤ c && c ≤ 0xDFFF

/-- `write(XalanUnicodeChar)`; a value above 0x10FFFF throws (`none`).  A surrogate value is encoded as three
bytes (the asserts are compiled out), which is what happens to a low surrogate that follows no high surrogate. -/
def encodeScalar (c : Nat) : Option Bytes :=
  if c ≤ 0x7F then some [c]
  else if c ≤ 0x7FF then some [0xC0 ||| (c >>> 6), 0x80 ||| (c &&& 0x3F)]
  else if c ≤ 0xFFFF then some [0xE0 ||| (c >>> 12), 0x80 ||| ((c >>> 6) &&& 0x3F), 0x80 ||| (c &&& 0x3F)]
  else if c ≤ 0x10FFFF then
    some [0xF0 ||| (c >>> 18), 0x80 ||| ((c >>> 12) &&& 0x3F), 0x80 ||| ((c >>> 6) &&& 0x3F), 0x80 ||| (c &&& 0x3F)]
  else none

/-- `decodeUTF16SurrogatePair`: throws unless the second unit is a low surrogate -/
def decodePair (hi lo : Nat) : Option Nat :=
  if isLow lo then some (((hi - 0xD800) <<< 10) + lo - 0xDC00 + 0x10000) else none

/-- the bulk loop.  `advances` is the regenerated source fact "`++i` follows the write of a decoded pair"; without it
the low surrogate is visited again and written a second time as a three-byte sequence. -/
def bulkWrite (advances : Bool) : Units → Option Bytes
  | [] => some []
  | c :: rest =>
    if !isHigh c then do
      let b ← encodeScalar c
      let r ← bulkWrite advances rest
      some (b ++ r)
    else match rest with
      | [] => none                                        -- `i + 1 >= theLength`: invalid surrogate exception
      | lo :: rest' => do
        let v ← decodePair c lo
        let b ← encodeScalar v
        let r ← if advances then bulkWrite advances rest' else bulkWrite advances (lo :: rest')
        some (b ++ r)
termination_by us => us.length
decreasing_by all_goals (simp_wf; try omega)

/-- one call of the positional `write(chars, start, length)` at the head of the remaining run: the bytes written and
the units left after the caller's `++i` -/
def positional : Units → Option (Bytes × Units)
  | [] => none
  | c :: rest =>
    if !isHigh c then (encodeScalar c).map fun b => (b, rest)
    else match rest with
      | [] => none
      | lo :: rest' => do
        let v ← decodePair c lo
        let b ← encodeScalar v
        some (b, rest')

/-- the run written one position at a time (`for (i = 0; i < n; ++i) i = write(chars, i, n)`); `fuel` bounds the
number of positions -/
def unitwiseFuel : Nat → Units → Option Bytes
  | _, [] => some []
  | 0, _ :: _ => none
  | f + 1, c :: rest =>
    match positional (c :: rest) with
    | none => none
    | some (b, left) => (unitwiseFuel f left).map (b ++ ·)

def unitwiseWrite (us : Units) : Option Bytes := unitwiseFuel us.length us

theorem bulk_eq_unitwiseFuel : ∀ (f : Nat) (us : Units), us.length ≤ f → unitwiseFuel f us = bulkWrite true us := by
  intro f
  induction f with
  | zero =>
    intro us h
    cases us with
    | nil => simp [unitwiseFuel, bulkWrite]
    | cons c r => simp at h
  | succ f ih =>
    intro us h
    cases us with
    | nil => simp [unitwiseFuel, bulkWrite]
    | cons c rest =>
      simp only [List.length_cons] at h
      rw [bulkWrite.eq_def]
      simp only [unitwiseFuel, positional]
      by_cases hh : isHigh c = true
      · simp only [hh, Bool.not_true, Bool.false_eq_true, if_false]
        cases rest with
        | nil => rfl
        | cons lo rest' =>
          simp only [List.length_cons] at h
          cases hd : decodePair c lo with
          | none => simp [hd]
          | some v =>
            cases he : encodeScalar v with
            | none => simp [hd, he]
            | some b =>
              have := ih rest' (by omega)
              cases hb : bulkWrite true rest' <;> simp [hd, he, this, hb]
      · have hh' : isHigh c = false := by simpa using hh
        simp only [hh', Bool.not_false, if_true]
        cases he : encodeScalar c with
        | none => simp [he]
        | some b =>
          have := ih rest (by omega)
          cases hb : bulkWrite true rest <;> simp [he, this, hb]

/-- **bulk write of a run = unit-by-unit write of the same run** (in particular a surrogate pair is consumed exactly
once by either), errors included -/
theorem bulk_eq_unitwise (us : Units) : bulkWrite true us = unitwiseWrite us :=
  (bulk_eq_unitwiseFuel us.length us (Nat.le_refl _)).symm

end XalanModel.C08.Utf8
