import XalanModel.C08.Render
/-
C08 — option selection (`StylesheetRoot::processOutputSpec` 481-650, `setupFormatterListener` 305-478,
`XalanXMLSerializerFactory::create/setEncoding`, the on-the-fly HTML switch of `XSLTEngineImpl::flushPending`
1415-1476) and the event stream `XSLTEngineImpl` derives from a result tree (cdata stack 1493-1496,
1597-1602, `characters` 1621-1650, `charactersRaw`).
-/
namespace XalanModel.C08

/-- result tree (what the stylesheet constructs) -/
inductive Node where
  | elem (name : Str) (attrs : List (Str × Str)) (kids : List Node)
  | text (t : Str)
  | rawText (t : Str)          -- xsl:text disable-output-escaping="yes"
  | rtfRawText (t : Str)       -- the same, replayed from a result tree fragment (xsl:copy-of of a variable)
  | comment (t : Str)
  | pi (target data : Str)
deriving Repr, Inhabited

inductive Method where | none | xml | html | text
deriving Repr, DecidableEq, Inhabited

inductive IndentResult where | noImplicit | noExplicit | yesExplicit | yesImplicit
deriving Repr, DecidableEq, Inhabited

/-- `StylesheetRoot` members written by `processOutputSpec` (constructor defaults 80-108) -/
structure OutputSpec where
  method : Method := .none
  version : Str := []
  indentResult : IndentResult := .noImplicit
  encoding : Str := []
  doctypeSystem : Str := []
  doctypePublic : Str := []
  omitXmlDecl : Bool := false
  standalone : Str := []
  cdataElems : List Str := []
  escapeURLs : Bool := true
  indentAmount : Int := -1
  omitMETATag : Bool := false
deriving Repr, Inhabited

/-- one attribute of xsl:output, already classified by name (values the generator uses are valid) -/
inductive OutAttr where
  | method (m : Method)
  | version (v : Str)
  | indent (yes : Bool)
  | encoding (e : Str)
  | doctypeSystem (v : Str)
  | doctypePublic (v : Str)
  | omitXmlDecl (yes : Bool)
  | standalone (v : Str)
  | cdataElems (names : List Str)
  | escapeURLs (yes : Bool)       -- xalan:escape-urls
  | indentAmount (n : Int)        -- xalan:indent-amount
  | omitMeta (yes : Bool)         -- xalan:omit-meta-tag
deriving Repr, Inhabited

/-- the attribute loop of `processOutputSpec`: attributes are processed in document order, and
`cdata-section-elements` is only recorded while the method seen so far is none or xml -/
def processAttr (o : OutputSpec) : OutAttr → OutputSpec
  | .method m => { o with method := m }
  | .version v => { o with version := v }
  | .indent y => { o with indentResult := if y then .yesExplicit else .noExplicit }
  | .encoding e => { o with encoding := e }
  | .doctypeSystem v => { o with doctypeSystem := v }
  | .doctypePublic v => { o with doctypePublic := v }
  | .omitXmlDecl y => { o with omitXmlDecl := y }
  | .standalone v => { o with standalone := v }
  | .cdataElems ns =>
    if o.method = .none || o.method = .xml then { o with cdataElems := o.cdataElems ++ ns } else o
  | .escapeURLs y => { o with escapeURLs := y }
  | .indentAmount n => { o with indentAmount := if n < 0 then 0 else n }
  | .omitMeta y => { o with omitMETATag := y }

def processOutputSpec (o : OutputSpec) (attrs : List OutAttr) : OutputSpec :=
  let o := attrs.foldl processAttr o
  let o := if o.method = .html && o.indentResult = .noImplicit then { o with indentResult := .yesImplicit } else o
  -- StylesheetRoot::postConstruction 183-198: the list is dropped unless the final method is xml or none
  if o.method = .xml || o.method = .none then o else { o with cdataElems := [] }

def OutputSpec.getOutputIndent (o : OutputSpec) : Bool :=
  !(o.indentResult = .noImplicit || o.indentResult = .noExplicit)

def OutputSpec.getHTMLOutputIndent (o : OutputSpec) : Bool := !(o.indentResult = .noExplicit)

/-- `XalanTransformer` overrides: setIndent, setOutputEncoding, setOmitMETATag, setEscapeURLs (0 = default,
1 = no, 2 = yes) -/
structure Api where
  indent : Int := -1
  encoding : Str := []
  omitMeta : Nat := 0
  escapeURLs : Nat := 0
deriving Repr, Inhabited

def utf8 : Str := s "UTF-8"

/-- ASCII upper-casing, for the case-insensitive encoding / element name comparisons -/
def upper (x : Str) : Str := x.map fun c => if 97 ≤ c && c ≤ 122 then c - 32 else c

/-- largest code point of the encodings the generator uses (everything else: all of Unicode) -/
def maxCharOf (enc : Str) : Nat :=
  let e := upper enc
  if e = s "ISO-8859-1" then 0xFF else if e = s "US-ASCII" then 0x7F else 0x10FFFF

inductive Formatter where
  | xml (c : SerCfg) (k : HKind) (r : RenderCfg)
  | html (encoding dsys dpub : Str) (doIndent : Bool) (amount : Nat) (escapeURLs omitMeta : Bool)
  | text (encoding : Str)
deriving Repr, Inhabited

def tri (api : Nat) (dflt : Bool) : Bool := if api = 1 then false else if api = 2 then true else dflt

/-- `setupFormatterListener` for a stream target -/
def setupFormatterListener (o : OutputSpec) (api : Api) : Formatter :=
  let indentAmount : Int := if api.indent < 0 then o.indentAmount else api.indent
  let doIndent := if indentAmount > -1 then true else o.getOutputIndent
  let enc0 := if !api.encoding.isEmpty then api.encoding else o.encoding
  match o.method with
  | .html =>
    let amount := if doIndent && indentAmount < 0 then 0 else indentAmount
    .html enc0 o.doctypeSystem o.doctypePublic doIndent amount.toNat
      (tri api.escapeURLs o.escapeURLs) (tri api.omitMeta o.omitMETATag)
  | .text => .text enc0
  | _ =>
    let amount := if doIndent && indentAmount < 0 then 0 else indentAmount
    -- XalanXMLSerializerFactory::create
    let v11 := o.version = s "1.1"
    let enc := if enc0.isEmpty then utf8 else enc0           -- setEncoding (supported encodings only)
    .xml { version := if v11 then s "1.1" else s "1.0", encoding := enc,
           doctypeSystem := o.doctypeSystem, doctypePublic := o.doctypePublic,
           xmlDecl := !o.omitXmlDecl, standalone := o.standalone }
         (if doIndent then .real amount.toNat else .dummy)
         { v11 := v11, maxChar := maxCharOf enc }

/-- `flushPending`: no xsl:output method, first element is `html` (any case) → HTML formatter, indent unless
explicitly `no`, amount `getIndent() > 0 ? … : 0` where `FormatterListener::getIndent()` is 0 -/
def switchToHTML (o : OutputSpec) (f : Formatter) (firstElem : Option Str) : Formatter :=
  match o.method, f, firstElem with
  | .none, .xml c _ _, some n =>
    if upper n = s "HTML" then .html c.encoding c.doctypeSystem c.doctypePublic o.getHTMLOutputIndent 0 true false
    else f
  | _, _, _ => f

/-- `XSLTEngineImpl::characters / charactersRaw / cdata (ch, start, length)`: the characters handed to the listener.
`usesStart` is the regenerated source fact "the call passes `ch + start`" (it did not for `charactersRaw` and `cdata`). -/
def engineSlice (usesStart : Bool) (buf : Str) (start length : Nat) : Str :=
  if usesStart then (buf.drop start).take length else buf.take length

mutual
/-- events for one node; `inCD` = `m_cdataStack.back()` (false when the stylesheet has no
cdata-section-elements) -/
def nodeEvents (cd : List Str) : Bool → Node → List Ev
  | _, .elem n a kids => Ev.startElement n a :: (kidsEvents cd (cd.contains n) kids ++ [Ev.endElement n])
  | inCD, .text t => [if inCD then Ev.cdata t else Ev.characters t]
  | _, .rawText t => [Ev.raw t]
  -- FormatterToSourceTree::charactersRaw stored `<?Xalan raw?>` + the text node; the copy delivers the marker
  -- PI and then the text through `characters` or — under cdata-section-elements — `cdata`
  | inCD, .rtfRawText t => [Ev.pi rawMarkerTarget rawMarkerData, if inCD then Ev.cdata t else Ev.characters t]
  | _, .comment t => [Ev.comment t]
  | _, .pi t d => [Ev.pi t d]
def kidsEvents (cd : List Str) : Bool → List Node → List Ev
  | _, [] => []
  | inCD, k :: ks => nodeEvents cd inCD k ++ kidsEvents cd inCD ks
end

/-- name of the first element of the result, if any -/
def firstElem : List Node → Option Str
  | [] => none
  | .elem n _ _ :: _ => some n
  | _ :: r => firstElem r

mutual
/-- string-value of a node (XPath 1.0 §5): concatenation of the text descendants -/
def Node.stringValue : Node → Str
  | .elem _ _ kids => stringValueL kids
  | .text t => t
  | .rawText t => t
  | .rtfRawText t => t
  | .comment _ => []
  | .pi _ _ => []
def stringValueL : List Node → Str
  | [] => []
  | k :: ks => k.stringValue ++ stringValueL ks
end

end XalanModel.C08
