import XalanModel.C08.Html
/-! helper lemma for the HTML property theorem -/
namespace XalanModel.C08.Html
open XalanModel.C08 XalanModel.Generated.C08

theorem close_not_in_indentToks (cfg : HtmlCfg) (st : HSt) (name : Str) : HTok.t (Tok.close name) ∉ indentToks cfg st := by
  unfold indentToks
  cases st.startNewLine <;> cases cfg.doIndent <;> simp

theorem close_not_in_ite_indentToks (cfg : HtmlCfg) (b : Bool) (st : HSt) (name : Str) :
    HTok.t (Tok.close name) ∉ (if b = true then indentToks cfg st else []) := by
  cases b <;> simp [close_not_in_indentToks]

theorem endElement_close_iff (cfg : HtmlCfg) (st : HSt) (name : Str) (fl : Nat) (rest : List Nat)
    (h : st.propsStack = fl :: rest) :
    (HTok.t (Tok.close name) ∈ (htmlEndElement cfg st name).2) ↔ (fl &&& flagEMPTY = 0) := by
  have hc := close_not_in_indentToks cfg
  unfold htmlEndElement
  simp only [h, List.headD_cons, has]
  by_cases he : fl &&& flagEMPTY = 0
  · simp only [he, iff_true]
    rcases st.elemStack with _ | ⟨_ | _, r⟩ <;> simp
  · simp only [he, iff_false]
    rcases st.elemStack with _ | ⟨_ | _, r⟩ <;> simp [he]
    all_goals (intro hm; exact close_not_in_ite_indentToks cfg _ _ _ hm)

end XalanModel.C08.Html

namespace XalanModel.C08.Html
open XalanModel.C08 XalanModel.Generated.C08

/-! ### erasure for FormatterToHTML (HTML path and inherited XML path for namespaced elements) -/

/-- written only because indentation is on -/
def HTok.isIns : HTok → Bool
  | .t x => x.isIns
  | _ => false

def eraseH (l : List HTok) : List HTok := l.filter fun t => !t.isIns

@[simp] theorem eraseH_nil : eraseH [] = [] := rfl
@[simp] theorem eraseH_append (a b : List HTok) : eraseH (a ++ b) = eraseH a ++ eraseH b := by
  simp [eraseH, List.filter_append]
theorem eraseH_cons (t : HTok) (l : List HTok) : eraseH (t :: l) = if t.isIns then eraseH l else t :: eraseH l := by
  simp only [eraseH, List.filter_cons]; cases t.isIns <;> simp

@[simp] theorem eraseH_indentToks (cfg : HtmlCfg) (st : HSt) : eraseH (indentToks cfg st) = [] := by
  unfold indentToks
  cases st.startNewLine <;> cases cfg.doIndent <;> simp [eraseH_cons, HTok.isIns, Tok.isIns]

/-- the configuration with indentation switched off -/
def noIndent (cfg : HtmlCfg) : HtmlCfg := { cfg with doIndent := false }

@[simp] theorem shouldIndent_noIndent (cfg : HtmlCfg) (st : HSt) : shouldIndent (noIndent cfg) st = false := by
  simp [shouldIndent, noIndent]

/-- the part of the formatter state the non-inserted tokens depend on -/
def HSt.core (s : HSt) : List Bool × List Bool × List Bool × Nat × List Nat × List Bool :=
  (s.elemStack, s.isRawStack, s.inScriptElemStack, s.elementLevel, s.propsStack, s.hasNamespaceStack)

theorem wpte_eraseH (s t : HSt) (h : s.core = t.core) :
    (writeParentTagEnd s).1.core = (writeParentTagEnd t).1.core ∧
    eraseH (writeParentTagEnd s).2 = (writeParentTagEnd t).2 := by
  obtain ⟨s1, s2, s3, s4, s5, s6, s7, s8, s9, s10, s11, s12, s13, s14⟩ := s
  obtain ⟨t1, t2, t3, t4, t5, t6, t7, t8, t9, t10, t11, t12, t13, t14⟩ := t
  simp only [HSt.core, Prod.mk.injEq] at h
  obtain ⟨rfl, rfl, rfl, rfl, rfl, rfl⟩ := h
  unfold writeParentTagEnd
  rcases s1 with _ | ⟨_ | _, r⟩ <;> simp [HSt.core, eraseH_cons, HTok.isIns, Tok.isIns]

/-! projections of the building blocks: none of them touches the token-relevant part of the state except through
the element stack -/

def markTop : List Bool → List Bool
  | false :: r => true :: r
  | l => l

def gtOut : List Bool → List HTok
  | false :: _ => [HTok.t .gt]
  | _ => []

theorem markTop_other (l : List Bool) (h : ∀ r, l = false :: r → False) : markTop l = l := by
  rcases l with _ | ⟨_ | _, r⟩ <;> simp [markTop]
  exact h r rfl
theorem gtOut_other (l : List Bool) (h : ∀ r, l = false :: r → False) : gtOut l = [] := by
  rcases l with _ | ⟨_ | _, r⟩ <;> simp [gtOut]
  exact h r rfl

section wpte
variable (s : HSt)
@[simp] theorem wpte_elemStack : (writeParentTagEnd s).1.elemStack = markTop s.elemStack := by
  unfold writeParentTagEnd
  split
  · rename_i rest heq; simp [markTop, heq]
  · rename_i hne; rw [markTop_other _ hne]
@[simp] theorem wpte_out : (writeParentTagEnd s).2 = gtOut s.elemStack := by
  unfold writeParentTagEnd
  split
  · rename_i rest heq; simp [gtOut, heq]
  · rename_i hne; rw [gtOut_other _ hne]
@[simp] theorem wpte_isRawStack : (writeParentTagEnd s).1.isRawStack = s.isRawStack := by
  unfold writeParentTagEnd; split <;> rfl
@[simp] theorem wpte_inScript : (writeParentTagEnd s).1.inScriptElemStack = s.inScriptElemStack := by
  unfold writeParentTagEnd; split <;> rfl
@[simp] theorem wpte_level : (writeParentTagEnd s).1.elementLevel = s.elementLevel := by
  unfold writeParentTagEnd; split <;> rfl
@[simp] theorem wpte_props : (writeParentTagEnd s).1.propsStack = s.propsStack := by
  unfold writeParentTagEnd; split <;> rfl
@[simp] theorem wpte_hasNs : (writeParentTagEnd s).1.hasNamespaceStack = s.hasNamespaceStack := by
  unfold writeParentTagEnd; split <;> rfl
end wpte

@[simp] theorem eraseH_gtOut (l : List Bool) : eraseH (gtOut l) = gtOut l := by
  rcases l with _ | ⟨_ | _, r⟩ <;> simp [gtOut, eraseH_cons, HTok.isIns, Tok.isIns]

section sib
variable (cfg : HtmlCfg) (s : HSt) (b : Bool)
@[simp] theorem sib_out : eraseH (startIndentBlock cfg s b).2 = [] := by
  unfold startIndentBlock; split <;> (try split) <;> simp
@[simp] theorem sib_elemStack : (startIndentBlock cfg s b).1.elemStack = s.elemStack := by
  unfold startIndentBlock; split <;> (try split) <;> rfl
@[simp] theorem sib_isRawStack : (startIndentBlock cfg s b).1.isRawStack = s.isRawStack := by
  unfold startIndentBlock; split <;> (try split) <;> rfl
@[simp] theorem sib_inScript : (startIndentBlock cfg s b).1.inScriptElemStack = s.inScriptElemStack := by
  unfold startIndentBlock; split <;> (try split) <;> rfl
@[simp] theorem sib_level : (startIndentBlock cfg s b).1.elementLevel = s.elementLevel := by
  unfold startIndentBlock; split <;> (try split) <;> rfl
@[simp] theorem sib_props : (startIndentBlock cfg s b).1.propsStack = s.propsStack := by
  unfold startIndentBlock; split <;> (try split) <;> rfl
@[simp] theorem sib_hasNs : (startIndentBlock cfg s b).1.hasNamespaceStack = s.hasNamespaceStack := by
  unfold startIndentBlock; split <;> (try split) <;> rfl
@[simp] theorem eib_elemStack : (endIndentBlock cfg s b).1.elemStack = s.elemStack := by
  unfold endIndentBlock; split <;> (try split) <;> rfl
@[simp] theorem eib_isRawStack : (endIndentBlock cfg s b).1.isRawStack = s.isRawStack := by
  unfold endIndentBlock; split <;> (try split) <;> rfl
@[simp] theorem eib_inScript : (endIndentBlock cfg s b).1.inScriptElemStack = s.inScriptElemStack := by
  unfold endIndentBlock; split <;> (try split) <;> rfl
@[simp] theorem eib_level : (endIndentBlock cfg s b).1.elementLevel = s.elementLevel := by
  unfold endIndentBlock; split <;> (try split) <;> rfl
@[simp] theorem eib_props : (endIndentBlock cfg s b).1.propsStack = s.propsStack := by
  unfold endIndentBlock; split <;> (try split) <;> rfl
@[simp] theorem eib_hasNs : (endIndentBlock cfg s b).1.hasNamespaceStack = s.hasNamespaceStack := by
  unfold endIndentBlock; split <;> (try split) <;> rfl
end sib

@[simp] theorem eraseH_ite_indentToks (cfg : HtmlCfg) (c : Prop) [Decidable c] (st : HSt) :
    eraseH (if c then indentToks cfg st else []) = [] := by
  split <;> simp

section mb
variable (cfg : HtmlCfg) (s : HSt) (fl : Nat)
@[simp] theorem mb_out : eraseH (metaBlock cfg s fl).2 =
    if has fl flagHEADELEM then gtOut s.elemStack ++ (if cfg.omitMeta then [] else [HTok.metaTag cfg.encoding]) else [] := by
  unfold metaBlock
  cases has fl flagHEADELEM <;> cases cfg.omitMeta <;> simp [eraseH_cons, HTok.isIns]
@[simp] theorem mb_elemStack : (metaBlock cfg s fl).1.elemStack = if has fl flagHEADELEM then markTop s.elemStack else s.elemStack := by
  unfold metaBlock; cases has fl flagHEADELEM <;> cases cfg.omitMeta <;> simp
@[simp] theorem mb_isRawStack : (metaBlock cfg s fl).1.isRawStack = s.isRawStack := by
  unfold metaBlock; cases has fl flagHEADELEM <;> cases cfg.omitMeta <;> simp
@[simp] theorem mb_inScript : (metaBlock cfg s fl).1.inScriptElemStack = s.inScriptElemStack := by
  unfold metaBlock; cases has fl flagHEADELEM <;> cases cfg.omitMeta <;> simp
@[simp] theorem mb_level : (metaBlock cfg s fl).1.elementLevel = s.elementLevel := by
  unfold metaBlock; cases has fl flagHEADELEM <;> cases cfg.omitMeta <;> simp
@[simp] theorem mb_props : (metaBlock cfg s fl).1.propsStack = s.propsStack := by
  unfold metaBlock; cases has fl flagHEADELEM <;> cases cfg.omitMeta <;> simp
@[simp] theorem mb_hasNs : (metaBlock cfg s fl).1.hasNamespaceStack = s.hasNamespaceStack := by
  unfold metaBlock; cases has fl flagHEADELEM <;> cases cfg.omitMeta <;> simp
end mb

/-- two configurations that differ at most in `doIndent` and `indent` -/
def SameButIndent (c1 c2 : HtmlCfg) : Prop :=
  c2 = { c1 with doIndent := c2.doIndent, indent := c2.indent }

theorem stepCore_eraseH (c1 c2 : HtmlCfg) (hc : SameButIndent c1 c2) (s t : HSt) (e : Ev) (h : s.core = t.core) :
    (stepCore c1 s e).1.core = (stepCore c2 t e).1.core ∧ eraseH (stepCore c1 s e).2 = eraseH (stepCore c2 t e).2 := by
  simp only [HSt.core, Prod.mk.injEq] at h
  obtain ⟨h1, h2, h3, h4, h5, h6⟩ := h
  have e1 : c2.encoding = c1.encoding := by rw [hc]
  have e2 : c2.omitMeta = c1.omitMeta := by rw [hc]
  have e3 : c2.nsPrefixes = c1.nsPrefixes := by rw [hc]
  have e4 : c2.doctypePublic = c1.doctypePublic := by rw [hc]
  have e5 : c2.rawSetsPrevText = c1.rawSetsPrevText := by rw [hc]
  have ens : ∀ n, hasNamespace c2 n = hasNamespace c1 n := by intro n; simp [hasNamespace, e3]
  have esp : c2.spaceBeforeClose = c1.spaceBeforeClose := by simp [HtmlCfg.spaceBeforeClose, e4]
  cases e with
  | startElement n a =>
    simp only [stepCore, startElement, ens]
    cases hasNamespace c1 n
    · simp [htmlStartElement, HSt.core, h1, h2, h3, h4, h5, h6, e1, e2, eraseH_cons, HTok.isIns, Tok.isIns]
    · simp [xmlStartElement, HSt.core, h1, h2, h3, h4, h5, h6, eraseH_cons, HTok.isIns, Tok.isIns]
  | endElement n =>
    simp only [stepCore, endElement, h6]
    cases t.hasNamespaceStack.headD false
    · simp only [Bool.false_eq_true, if_false, htmlEndElement, h1, h5]
      rcases t.elemStack with _ | ⟨_ | _, r⟩ <;>
        simp [HSt.core, h2, h3, h4, h5, h6, eraseH_cons, HTok.isIns, Tok.isIns] <;>
        (try split) <;> simp [eraseH_cons, HTok.isIns, Tok.isIns]
    · simp only [if_true, xmlEndElement, h1]
      rcases t.elemStack with _ | ⟨_ | _, r⟩ <;>
        simp [HSt.core, h2, h3, h4, h5, h6, esp, eraseH_cons, HTok.isIns, Tok.isIns] <;>
        (try (constructor <;> (split <;> split <;> simp)))
  | characters str =>
    simp only [stepCore, characters, h2, h3]
    cases str.isEmpty <;> cases t.inScriptElemStack.headD false <;> cases t.isRawStack.headD false <;>
      simp [HSt.core, h1, h2, h3, h4, h5, h6, eraseH_cons, HTok.isIns, Tok.isIns]
  | cdata str =>
    simp only [stepCore, characters, h2, h3]
    cases str.isEmpty <;> cases t.inScriptElemStack.headD false <;> cases t.isRawStack.headD false <;>
      simp [HSt.core, h1, h2, h3, h4, h5, h6, eraseH_cons, HTok.isIns, Tok.isIns]
  | raw str =>
    simp only [stepCore, charactersRaw, e5]
    cases c1.rawSetsPrevText <;>
      simp [HSt.core, h1, h2, h3, h4, h5, h6, eraseH_cons, HTok.isIns, Tok.isIns]
  | comment str =>
    simp [stepCore, comment, HSt.core, h1, h2, h3, h4, h5, h6, eraseH_cons, HTok.isIns, Tok.isIns]
  | pi tg d =>
    simp only [stepCore, procInstr]
    cases hl : (t.elementLevel == 0) <;>
      simp [HSt.core, h1, h2, h3, h4, h5, h6, hl, eraseH_cons, HTok.isIns, Tok.isIns]

/-- the handlers below the test never touch `m_nextIsRaw` -/
theorem stepCore_nextIsRaw (cfg : HtmlCfg) (st : HSt) (e : Ev) : (stepCore cfg st e).1.nextIsRaw = st.nextIsRaw := by
  have wp : ∀ s : HSt, (writeParentTagEnd s).1.nextIsRaw = s.nextIsRaw := by
    intro s; unfold writeParentTagEnd; split <;> rfl
  have sib : ∀ (s : HSt) (b : Bool), (startIndentBlock cfg s b).1.nextIsRaw = s.nextIsRaw := by
    intro s b; unfold startIndentBlock; split <;> (try split) <;> rfl
  have eib : ∀ (s : HSt) (b : Bool), (endIndentBlock cfg s b).1.nextIsRaw = s.nextIsRaw := by
    intro s b; unfold endIndentBlock; split <;> (try split) <;> rfl
  have mb : ∀ (s : HSt) (fl : Nat), (metaBlock cfg s fl).1.nextIsRaw = s.nextIsRaw := by
    intro s fl; unfold metaBlock; cases has fl flagHEADELEM <;> cases cfg.omitMeta <;> simp [wp]
  cases e with
  | startElement n a =>
    simp only [stepCore, startElement]
    cases hasNamespace cfg n
    · simp [htmlStartElement, wp, sib, mb]
    · simp [xmlStartElement, wp]
  | endElement n =>
    simp only [stepCore, endElement]
    cases st.hasNamespaceStack.headD false
    · simp only [Bool.false_eq_true, if_false, htmlEndElement]
      rcases st.elemStack with _ | ⟨_ | _, r⟩ <;> simp [eib] <;> (repeat' split) <;> simp [eib]
    · simp only [if_true, xmlEndElement]
      rcases st.elemStack with _ | ⟨_ | _, r⟩ <;> simp <;> (repeat' split) <;> simp
  | characters str =>
    simp only [stepCore, characters]
    (repeat' split) <;> simp [wp]
  | cdata str =>
    simp only [stepCore, characters]
    (repeat' split) <;> simp [wp]
  | raw str => simp only [stepCore, charactersRaw]; split <;> simp [wp]
  | comment str => simp [stepCore, comment, wp]
  | pi tg d => simp [stepCore, procInstr, wp]

theorem step_eraseH (c1 c2 : HtmlCfg) (hc : SameButIndent c1 c2) (s t : HSt) (e : Ev) (h : s.core = t.core)
    (hf : s.nextIsRaw = t.nextIsRaw) :
    (step c1 s e).1.core = (step c2 t e).1.core ∧ (step c1 s e).1.nextIsRaw = (step c2 t e).1.nextIsRaw ∧
    eraseH (step c1 s e).2 = eraseH (step c2 t e).2 := by
  have core := fun (s t : HSt) (e : Ev) (h : s.core = t.core) (hf : s.nextIsRaw = t.nextIsRaw) =>
    (show (stepCore c1 s e).1.core = (stepCore c2 t e).1.core ∧
        (stepCore c1 s e).1.nextIsRaw = (stepCore c2 t e).1.nextIsRaw ∧
        eraseH (stepCore c1 s e).2 = eraseH (stepCore c2 t e).2 from
      ⟨(stepCore_eraseH c1 c2 hc s t e h).1, by rw [stepCore_nextIsRaw, stepCore_nextIsRaw, hf],
       (stepCore_eraseH c1 c2 hc s t e h).2⟩)
  have rawcase : ∀ str : Str,
      ({ (stepCore c1 { s with nextIsRaw := false } (.raw str)).1 with isprevtext := true } : HSt).core =
        ({ (stepCore c2 { t with nextIsRaw := false } (.raw str)).1 with isprevtext := true } : HSt).core ∧
      ({ (stepCore c1 { s with nextIsRaw := false } (.raw str)).1 with isprevtext := true } : HSt).nextIsRaw =
        ({ (stepCore c2 { t with nextIsRaw := false } (.raw str)).1 with isprevtext := true } : HSt).nextIsRaw ∧
      eraseH (stepCore c1 { s with nextIsRaw := false } (.raw str)).2 =
        eraseH (stepCore c2 { t with nextIsRaw := false } (.raw str)).2 := by
    intro str
    obtain ⟨a1, a2, a3⟩ := core { s with nextIsRaw := false } { t with nextIsRaw := false } (.raw str) h rfl
    exact ⟨a1, a2, a3⟩
  cases e with
  | pi tg d =>
    simp only [step]
    split
    · exact ⟨h, rfl, rfl⟩
    · exact core s t _ h hf
  | characters str =>
    simp only [step, hf]
    split
    · exact rawcase str
    · exact core s t _ h hf
  | cdata str =>
    simp only [step, hf]
    split
    · exact rawcase str
    · exact core s t _ h hf
  | startElement n a => exact core s t _ h hf
  | endElement n => exact core s t _ h hf
  | raw str => exact core s t _ h hf
  | comment str => exact core s t _ h hf

theorem runFrom_eraseH (c1 c2 : HtmlCfg) (hc : SameButIndent c1 c2) (evs : List Ev) (s t : HSt) (h : s.core = t.core)
    (hf : s.nextIsRaw = t.nextIsRaw) :
    (runFrom c1 s evs).1.core = (runFrom c2 t evs).1.core ∧ eraseH (runFrom c1 s evs).2 = eraseH (runFrom c2 t evs).2 := by
  induction evs generalizing s t with
  | nil => exact ⟨h, rfl⟩
  | cons e es ih =>
    simp only [runFrom]
    obtain ⟨a1, af, a2⟩ := step_eraseH c1 c2 hc s t e h hf
    obtain ⟨b1, b2⟩ := ih _ _ a1 af
    exact ⟨b1, by simp [a2, b2]⟩

theorem startDocument_nextIsRaw (c : HtmlCfg) : (startDocument c).1.nextIsRaw = false := by
  unfold startDocument; split <;> rfl

theorem serializeToks_eraseH (c1 c2 : HtmlCfg) (hc : SameButIndent c1 c2) (evs : List Ev) :
    eraseH (serializeToks c1 evs) = eraseH (serializeToks c2 evs) := by
  have e4 : c2.doctypePublic = c1.doctypePublic := by rw [hc]
  have e6 : c2.doctypeSystem = c1.doctypeSystem := by rw [hc]
  have hs : (startDocument c1).1.core = (startDocument c2).1.core ∧
      eraseH (startDocument c1).2 = eraseH (startDocument c2).2 := by
    unfold startDocument
    simp only [e4, e6]
    exact ⟨trivial, trivial⟩
  obtain ⟨h1, h2⟩ := hs
  obtain ⟨_, r2⟩ := runFrom_eraseH c1 c2 hc evs _ _ h1 (by rw [startDocument_nextIsRaw, startDocument_nextIsRaw])
  have he : ∀ (c : HtmlCfg) (st : HSt), eraseH (endDocument c st) = [] := by
    intro c st; unfold endDocument; split <;> simp [eraseH_cons, HTok.isIns, Tok.isIns]
  simp only [serializeToks, eraseH_append, h2, r2, he]

set_option linter.unusedSimpArgs false in
/-- with indentation off nothing is inserted -/
theorem stepCore_noIns (c : HtmlCfg) (hd : c.doIndent = false) (s : HSt) (e : Ev) : eraseH (stepCore c s e).2 = (stepCore c s e).2 := by
  have hi : ∀ st, shouldIndent c st = false := by intro st; simp [shouldIndent, hd]
  cases e with
  | startElement n a =>
    simp only [stepCore, startElement]
    cases hasNamespace c n
    · simp [htmlStartElement, startIndentBlock, metaBlock, hd, eraseH_cons, HTok.isIns, Tok.isIns]
      split <;> (try split) <;> (try split) <;> simp [eraseH_cons, HTok.isIns, Tok.isIns]
    · simp [xmlStartElement, hi, eraseH_cons, HTok.isIns, Tok.isIns]
  | endElement n =>
    simp only [stepCore, endElement]
    cases s.hasNamespaceStack.headD false
    · simp only [Bool.false_eq_true, if_false, htmlEndElement, endIndentBlock, hd]
      rcases s.elemStack with _ | ⟨_ | _, r⟩ <;> simp [eraseH_cons, HTok.isIns, Tok.isIns] <;>
        (try split) <;> (try split) <;> simp [eraseH_cons, HTok.isIns, Tok.isIns]
    · simp only [if_true, xmlEndElement, hi]
      rcases s.elemStack with _ | ⟨_ | _, r⟩ <;> simp [eraseH_cons, HTok.isIns, Tok.isIns]
  | characters str =>
    simp only [stepCore, characters, hi]
    cases str.isEmpty <;> cases s.inScriptElemStack.headD false <;> cases s.isRawStack.headD false <;>
      simp [eraseH_cons, HTok.isIns, Tok.isIns]
  | cdata str =>
    simp only [stepCore, characters, hi]
    cases str.isEmpty <;> cases s.inScriptElemStack.headD false <;> cases s.isRawStack.headD false <;>
      simp [eraseH_cons, HTok.isIns, Tok.isIns]
  | raw str => simp [stepCore, charactersRaw, eraseH_cons, HTok.isIns, Tok.isIns]
  | comment str => simp [stepCore, comment, hi, eraseH_cons, HTok.isIns, Tok.isIns]
  | pi tg d =>
    simp only [stepCore, procInstr, hi]
    cases hl : (s.elementLevel == 0) <;> simp [hl, eraseH_cons, HTok.isIns, Tok.isIns]

theorem step_noIns (c : HtmlCfg) (hd : c.doIndent = false) (s : HSt) (e : Ev) : eraseH (step c s e).2 = (step c s e).2 := by
  cases e with
  | pi tg d => simp only [step]; split; rfl; exact stepCore_noIns c hd s _
  | characters str => simp only [step]; split; exact stepCore_noIns c hd _ _; exact stepCore_noIns c hd s _
  | cdata str => simp only [step]; split; exact stepCore_noIns c hd _ _; exact stepCore_noIns c hd s _
  | startElement n a => exact stepCore_noIns c hd s _
  | endElement n => exact stepCore_noIns c hd s _
  | raw str => exact stepCore_noIns c hd s _
  | comment str => exact stepCore_noIns c hd s _

theorem serializeToks_noIns (c : HtmlCfg) (hd : c.doIndent = false) (evs : List Ev) :
    eraseH (serializeToks c evs) = serializeToks c evs := by
  have hr : ∀ (evs : List Ev) (s : HSt), eraseH (runFrom c s evs).2 = (runFrom c s evs).2 := by
    intro evs
    induction evs with
    | nil => intro s; rfl
    | cons e es ih => intro s; simp only [runFrom, eraseH_append, step_noIns c hd, ih]
  have hs : eraseH (startDocument c).2 = (startDocument c).2 := by
    unfold startDocument; split <;> simp [eraseH_cons, HTok.isIns, Tok.isIns]
  have he : ∀ st, endDocument c st = [] := by intro st; simp [endDocument, hd]
  simp only [serializeToks, eraseH_append, hs, hr, he, eraseH_nil]

/-- no token inserted for indentation is adjacent to a token carrying character data (HTML token stream) -/
def hNoAdjFrom : Option Bool → List HTok → Bool
  | _, [] => true
  | p, t :: r =>
    let c := match t with
      | .t x => x.cls
      | _ => none
    clsOk p c && hNoAdjFrom c r

def hNoAdj (l : List HTok) : Bool := hNoAdjFrom none l

/-! ### inserted tokens are never adjacent to character data (HTML stream) -/

def hcls : HTok → Option Bool
  | .t x => x.cls
  | _ => none

def hLastFrom : Option Bool → List HTok → Option Bool
  | p, [] => p
  | _, t :: r => hLastFrom (hcls t) r

theorem hNoAdjFrom_cons (p : Option Bool) (t : HTok) (r : List HTok) :
    hNoAdjFrom p (t :: r) = (clsOk p (hcls t) && hNoAdjFrom (hcls t) r) := by
  cases t <;> rfl

theorem hNoAdjFrom_append (p : Option Bool) (a b : List HTok) :
    hNoAdjFrom p (a ++ b) = (hNoAdjFrom p a && hNoAdjFrom (hLastFrom p a) b) := by
  induction a generalizing p with
  | nil => simp [hNoAdjFrom, hLastFrom]
  | cons t r ih => simp [hNoAdjFrom_cons, hLastFrom, ih, Bool.and_assoc]

theorem hLastFrom_append (p : Option Bool) (a b : List HTok) : hLastFrom p (a ++ b) = hLastFrom (hLastFrom p a) b := by
  induction a generalizing p with
  | nil => rfl
  | cons t r ih => simp [hLastFrom, ih]

/-- what the state guarantees when the last written token carries character data -/
def HInv (st : HSt) (p : Option Bool) : Prop :=
  p = some true → st.ispreserve = true ∧ st.isprevtext = true ∧ st.elemStack.head? ≠ some false

/-- the event does not close a void (EMPTY) HTML element that was given children -/
def okAt (st : HSt) : Ev → Bool
  | .endElement _ =>
    !(!(st.hasNamespaceStack.headD false) && st.elemStack.head? == some true &&
      has (st.propsStack.headD htmlDummyFlags) flagEMPTY)
  | _ => true

set_option linter.unusedSimpArgs false in
set_option maxHeartbeats 1000000 in
theorem stepCore_hNoAdj_simple (cfg : HtmlCfg) (hraw : cfg.rawSetsPrevText = true) (st : HSt) (e : Ev) (p : Option Bool)
    (he : match e with | .startElement _ _ => False | .endElement _ => False | _ => True)
    (h : HInv st p) (hp : p ≠ some false) :
    hNoAdjFrom p (stepCore cfg st e).2 = true ∧ HInv (stepCore cfg st e).1 (hLastFrom p (stepCore cfg st e).2) ∧
    hLastFrom p (stepCore cfg st e).2 ≠ some false := by
  obtain ⟨stack, ci, snl, pres, prev, pstack, inb, raws, scripts, first, level, props, nss, nr⟩ := st
  unfold HInv at h ⊢
  rcases p with _ | _ | _
  · cases e <;> simp at he <;> rcases stack with _ | ⟨_ | _, rest⟩ <;> cases snl <;> cases pres <;> cases prev <;>
      cases hd : cfg.doIndent <;>
      simp_all [stepCore, characters, charactersRaw, comment, procInstr, writeParentTagEnd, shouldIndent, indentToks,
        hNoAdjFrom_cons, hNoAdjFrom, hLastFrom, hcls, clsOk, Tok.cls, Tok.isTextual, Tok.isIns] <;>
      (repeat' split) <;>
      simp_all [hNoAdjFrom_cons, hNoAdjFrom, hLastFrom, hcls, clsOk, Tok.cls, Tok.isTextual, Tok.isIns]
  · exact absurd rfl hp
  · obtain ⟨h1, h2, h3⟩ := h rfl
    simp only at h1 h2 h3
    subst h1; subst h2
    rcases stack with _ | ⟨_ | _, rest⟩
    · cases e <;> simp at he <;> cases snl <;> cases hd : cfg.doIndent <;>
        simp_all [stepCore, characters, charactersRaw, comment, procInstr, writeParentTagEnd, shouldIndent, indentToks,
          hNoAdjFrom_cons, hNoAdjFrom, hLastFrom, hcls, clsOk, Tok.cls, Tok.isTextual, Tok.isIns] <;>
        (repeat' split) <;>
        simp_all [hNoAdjFrom_cons, hNoAdjFrom, hLastFrom, hcls, clsOk, Tok.cls, Tok.isTextual, Tok.isIns]
    · exact absurd rfl h3
    · cases e <;> simp at he <;> cases snl <;> cases hd : cfg.doIndent <;>
        simp_all [stepCore, characters, charactersRaw, comment, procInstr, writeParentTagEnd, shouldIndent, indentToks,
          hNoAdjFrom_cons, hNoAdjFrom, hLastFrom, hcls, clsOk, Tok.cls, Tok.isTextual, Tok.isIns] <;>
        (repeat' split) <;>
        simp_all [hNoAdjFrom_cons, hNoAdjFrom, hLastFrom, hcls, clsOk, Tok.cls, Tok.isTextual, Tok.isIns]

set_option linter.unusedSimpArgs false in
set_option maxHeartbeats 1000000 in
theorem xml_hNoAdj (cfg : HtmlCfg) (st : HSt) (n : Str) (a : List (Str × Str)) (p : Option Bool)
    (h : HInv st p) (hp : p ≠ some false) :
    (hNoAdjFrom p (xmlStartElement cfg st n a).2 = true ∧ HInv (xmlStartElement cfg st n a).1 (hLastFrom p (xmlStartElement cfg st n a).2) ∧
      hLastFrom p (xmlStartElement cfg st n a).2 ≠ some false) ∧
    (hNoAdjFrom p (xmlEndElement cfg st n).2 = true ∧ HInv (xmlEndElement cfg st n).1 (hLastFrom p (xmlEndElement cfg st n).2) ∧
      hLastFrom p (xmlEndElement cfg st n).2 ≠ some false) := by
  obtain ⟨stack, ci, snl, pres, prev, pstack, inb, raws, scripts, first, level, props, nss, nr⟩ := st
  unfold HInv at h ⊢
  rcases p with _ | _ | _
  · constructor <;> rcases stack with _ | ⟨_ | _, rest⟩ <;> cases snl <;> cases pres <;> cases prev <;>
      cases hd : cfg.doIndent <;>
      simp_all [xmlStartElement, xmlEndElement, writeParentTagEnd, shouldIndent, indentToks,
        hNoAdjFrom_cons, hNoAdjFrom, hLastFrom, hcls, clsOk, Tok.cls, Tok.isTextual, Tok.isIns] <;>
      (repeat' split) <;>
      simp_all [hNoAdjFrom_cons, hNoAdjFrom, hLastFrom, hcls, clsOk, Tok.cls, Tok.isTextual, Tok.isIns]
  · exact absurd rfl hp
  · obtain ⟨h1, h2, h3⟩ := h rfl
    simp only at h1 h2 h3
    subst h1; subst h2
    rcases stack with _ | ⟨_ | _, rest⟩
    · constructor <;> cases snl <;> cases hd : cfg.doIndent <;>
        simp_all [xmlStartElement, xmlEndElement, writeParentTagEnd, shouldIndent, indentToks,
          hNoAdjFrom_cons, hNoAdjFrom, hLastFrom, hcls, clsOk, Tok.cls, Tok.isTextual, Tok.isIns]
    · exact absurd rfl h3
    · constructor <;> cases snl <;> cases hd : cfg.doIndent <;>
        simp_all [xmlStartElement, xmlEndElement, writeParentTagEnd, shouldIndent, indentToks,
          hNoAdjFrom_cons, hNoAdjFrom, hLastFrom, hcls, clsOk, Tok.cls, Tok.isTextual, Tok.isIns] <;>
        (repeat' split) <;>
        simp_all [hNoAdjFrom_cons, hNoAdjFrom, hLastFrom, hcls, clsOk, Tok.cls, Tok.isTextual, Tok.isIns]

/-! ### raw-ness is scoped to the script/style element's own content -/

/-- outside a script element and outside a RAW (style) element, with no pending marker, a text — whether it arrives as
`characters` or as `cdata` — is written as an (escaped) text token, never raw -/
theorem text_outside_script_is_text (cfg : HtmlCfg) (st : HSt) (t : Str) (ht : t.isEmpty = false)
    (h1 : st.nextIsRaw = false) (h2 : st.inScriptElemStack.headD false = false) (h3 : st.isRawStack.headD false = false) :
    (step cfg st (.characters t)).2 = gtOut st.elemStack ++ [HTok.t (.text t)] ∧
    (step cfg st (.cdata t)).2 = gtOut st.elemStack ++ [HTok.t (.text t)] := by
  have h2' : st.inScriptElemStack.head?.getD false = false := by simpa using h2
  have h3' : st.isRawStack.head?.getD false = false := by simpa using h3
  simp [step, stepCore, characters, ht, h1, h2', h3']

/-- the two stacks that make text raw are pushed by the start tag and popped by the end tag: whatever the element is
(script, style or any other), after its end tag they are what they were before its start tag -/
theorem raw_stacks_restored (cfg : HtmlCfg) (st : HSt) (n : Str) (a : List (Str × Str)) (st' : HSt)
    (hs : st'.inScriptElemStack = (htmlStartElement cfg st n a).1.inScriptElemStack)
    (hr : st'.isRawStack = (htmlStartElement cfg st n a).1.isRawStack) :
    (htmlEndElement cfg st' n).1.inScriptElemStack = st.inScriptElemStack ∧
    (htmlEndElement cfg st' n).1.isRawStack = st.isRawStack := by
  have e1 : (htmlStartElement cfg st n a).1.inScriptElemStack.tail = st.inScriptElemStack := by
    simp [htmlStartElement]
  have e2 : (htmlStartElement cfg st n a).1.isRawStack.tail = st.isRawStack := by
    simp [htmlStartElement]
  unfold htmlEndElement
  rcases st'.elemStack with _ | ⟨_ | _, r⟩ <;> simp [hs, hr, e1, e2] <;> (repeat' split) <;> simp [hs, hr, e1, e2]

end XalanModel.C08.Html
