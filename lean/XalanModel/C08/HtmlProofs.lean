import XalanModel.C08.Html
/-! helper lemma for the HTML property theorem -/
namespace XalanModel.C08.Html
open XalanModel.C08 XalanModel.Generated.C08

theorem close_not_in_indentToks (cfg : HtmlCfg) (st : HSt) (name : Str) : HTok.t (Tok.close name) ∉ indentToks cfg st := by
  unfold indentToks
  cases st.startNewLine <;> cases cfg.doIndent <;> simp

theorem endElement_close_iff (cfg : HtmlCfg) (st : HSt) (name : Str) (fl : Nat) (rest : List Nat)
    (h : st.propsStack = fl :: rest) :
    (HTok.t (Tok.close name) ∈ (endElement cfg st name).2) ↔ (fl &&& flagEMPTY = 0) := by
  have hc := close_not_in_indentToks cfg
  unfold endElement
  simp only [h, List.headD_cons, has]
  by_cases he : fl &&& flagEMPTY = 0
  · simp only [he, iff_true]
    rcases st.elemStack with _ | ⟨_ | _, r⟩ <;> simp
  · simp only [he, iff_false]
    rcases st.elemStack with _ | ⟨_ | _, r⟩ <;> simp [he] <;> (split <;> simp [hc]) 

end XalanModel.C08.Html
