import XalanModel.C08.Indent
/-!
Helper lemmas for the C08 property theorems about the XML indent state machine.
-/
namespace XalanModel.C08

/-! ### erasure -/

@[simp] theorem eraseIns_nil : eraseIns [] = [] := rfl

@[simp] theorem eraseIns_append (a b : List Tok) : eraseIns (a ++ b) = eraseIns a ++ eraseIns b := by
  simp [eraseIns, List.filter_append]

theorem eraseIns_cons (t : Tok) (l : List Tok) :
    eraseIns (t :: l) = if t.isIns then eraseIns l else t :: eraseIns l := by
  simp only [eraseIns, List.filter_cons]
  cases t.isIns <;> simp

@[simp] theorem eraseIns_indent (k : HKind) (i : ISt) : eraseIns (i.indent k) = [] := by
  unfold ISt.indent
  cases k with
  | dummy => rfl
  | real n =>
    simp only
    split
    · cases i.startNewLine <;> simp [eraseIns, Tok.isIns]
    · rfl

@[simp] theorem indent_dummy (i : ISt) : i.indent .dummy = [] := rfl

@[simp] theorem eraseIns_lineSep (k : HKind) : eraseIns k.lineSep = [] := by
  cases k <;> simp [HKind.lineSep, eraseIns, Tok.isIns]

@[simp] theorem lineSep_dummy : HKind.lineSep .dummy = [] := rfl

/-- the part of the serializer state that does not belong to the indent handler -/
def SSt.core (s : SSt) : List Bool × Bool := (s.elemStack, s.needDoctype)

theorem writeParentTagEnd_erase (k : HKind) (s t : SSt) (h : s.core = t.core) :
    (writeParentTagEnd k s).1.core = (writeParentTagEnd .dummy t).1.core ∧
    eraseIns (writeParentTagEnd k s).2 = (writeParentTagEnd .dummy t).2 := by
  simp only [SSt.core, Prod.mk.injEq] at h
  obtain ⟨h1, h2⟩ := h
  unfold writeParentTagEnd
  rw [h1]
  generalize t.elemStack = st
  match st with
  | [] => simp [SSt.core, h2, h1]
  | true :: r => simp [SSt.core, h2, h1]
  | false :: r => simp [SSt.core, h2, eraseIns_cons, Tok.isIns]

theorem stepCore_erase (cc : CodeCfg) (c : SerCfg) (k : HKind) (s t : SSt) (e : Ev) (h : s.core = t.core) :
    (stepCore cc c k s e).1.core = (stepCore cc c .dummy t e).1.core ∧
    eraseIns (stepCore cc c k s e).2 = (stepCore cc c .dummy t e).2 := by
  cases e with
  | startElement n a =>
    simp only [stepCore, startElement]
    have hn : s.needDoctype = t.needDoctype := by simp only [SSt.core, Prod.mk.injEq] at h; exact h.2
    rw [hn]
    cases hd : t.needDoctype
    · simp only [Bool.false_eq_true, if_false]
      have := writeParentTagEnd_erase k s t h
      simp only [SSt.core, Prod.mk.injEq] at this ⊢
      obtain ⟨⟨a1, a2⟩, a3⟩ := this
      simp [a1, a2, a3, eraseIns_cons, Tok.isIns]
    · simp only [if_true]
      have h' : ({ s with needDoctype := false } : SSt).core = ({ t with needDoctype := false } : SSt).core := by
        simp only [SSt.core, Prod.mk.injEq] at h ⊢; simp [h.1]
      have := writeParentTagEnd_erase k _ _ h'
      simp only [SSt.core, Prod.mk.injEq] at this ⊢
      obtain ⟨⟨a1, a2⟩, a3⟩ := this
      simp [a1, a2, a3, eraseIns_cons, Tok.isIns]
  | endElement n =>
    simp only [stepCore, endElement]
    have hs : s.elemStack = t.elemStack := by simp only [SSt.core, Prod.mk.injEq] at h; exact h.1
    have hn : s.needDoctype = t.needDoctype := by simp only [SSt.core, Prod.mk.injEq] at h; exact h.2
    rw [hs]
    generalize t.elemStack = st
    match st with
    | [] => simp [SSt.core, hn, eraseIns_cons, Tok.isIns]
    | true :: r => simp [SSt.core, hn, eraseIns_cons, Tok.isIns]
    | false :: r => simp [SSt.core, hn, eraseIns_cons, Tok.isIns]
  | characters str =>
    simp only [stepCore, characters]
    split
    · exact ⟨h, rfl⟩
    · have := writeParentTagEnd_erase k s t h
      simp only [SSt.core, Prod.mk.injEq] at this ⊢
      obtain ⟨⟨a1, a2⟩, a3⟩ := this
      simp [a1, a2, a3, eraseIns_cons, Tok.isIns]
  | cdata str =>
    simp only [stepCore, cdata]
    split
    · exact ⟨h, rfl⟩
    · have := writeParentTagEnd_erase k s t h
      simp only [SSt.core, Prod.mk.injEq] at this ⊢
      obtain ⟨⟨a1, a2⟩, a3⟩ := this
      simp [a1, a2, a3, eraseIns_cons, Tok.isIns]
  | raw str =>
    simp only [stepCore, charactersRaw]
    have := writeParentTagEnd_erase k s t h
    simp only [SSt.core, Prod.mk.injEq] at this ⊢
    obtain ⟨⟨a1, a2⟩, a3⟩ := this
    simp [a1, a2, a3, eraseIns_cons, Tok.isIns]
  | comment str =>
    simp only [stepCore, comment]
    have := writeParentTagEnd_erase k s t h
    simp only [SSt.core, Prod.mk.injEq] at this ⊢
    obtain ⟨⟨a1, a2⟩, a3⟩ := this
    simp [a1, a2, a3, eraseIns_cons, Tok.isIns]
  | pi tg d =>
    simp only [stepCore, procInstr]
    have := writeParentTagEnd_erase k s t h
    simp only [SSt.core, Prod.mk.injEq] at this ⊢
    obtain ⟨⟨a1, a2⟩, a3⟩ := this
    simp [a1, a2, a3, eraseIns_cons, Tok.isIns]

/-- the FormatterToXMLUnicode level never touches `m_nextIsRaw` -/
theorem stepCore_setFlag (cc : CodeCfg) (c : SerCfg) (k : HKind) (s : SSt) (e : Ev) (b : Bool) :
    stepCore cc c k { s with nextIsRaw := b } e =
      ({ (stepCore cc c k s e).1 with nextIsRaw := b }, (stepCore cc c k s e).2) := by
  cases e <;>
    simp only [stepCore, startElement, endElement, characters, cdata, charactersRaw, comment, procInstr, writeParentTagEnd] <;>
    (repeat' split) <;> simp_all

theorem stepCore_nextIsRaw (cc : CodeCfg) (c : SerCfg) (k : HKind) (s : SSt) (e : Ev) :
    (stepCore cc c k s e).1.nextIsRaw = s.nextIsRaw := by
  have h := stepCore_setFlag cc c k s e s.nextIsRaw
  have hs : ({ s with nextIsRaw := s.nextIsRaw } : SSt) = s := rfl
  rw [hs] at h
  have := congrArg (fun x => x.1.nextIsRaw) h
  simpa using this

theorem step_erase (cc : CodeCfg) (c : SerCfg) (k : HKind) (s t : SSt) (e : Ev) (h : s.core = t.core)
    (hf : s.nextIsRaw = t.nextIsRaw) :
    (step cc c k s e).1.core = (step cc c .dummy t e).1.core ∧
    (step cc c k s e).1.nextIsRaw = (step cc c .dummy t e).1.nextIsRaw ∧
    eraseIns (step cc c k s e).2 = (step cc c .dummy t e).2 := by
  have core := fun (s t : SSt) (e : Ev) (h : s.core = t.core) (hf : s.nextIsRaw = t.nextIsRaw) =>
    (show (stepCore cc c k s e).1.core = (stepCore cc c .dummy t e).1.core ∧
        (stepCore cc c k s e).1.nextIsRaw = (stepCore cc c .dummy t e).1.nextIsRaw ∧
        eraseIns (stepCore cc c k s e).2 = (stepCore cc c .dummy t e).2 from
      ⟨(stepCore_erase cc c k s t e h).1, by rw [stepCore_nextIsRaw, stepCore_nextIsRaw, hf],
       (stepCore_erase cc c k s t e h).2⟩)
  cases e with
  | pi tg d =>
    simp only [step]
    split
    · exact ⟨h, rfl, rfl⟩
    · exact core s t _ h hf
  | characters str =>
    simp only [step, hf]
    split
    · exact ⟨h, hf, rfl⟩
    · split
      · exact core _ _ _ h rfl
      · exact core s t _ h hf
  | cdata str =>
    simp only [step, hf]
    split
    · exact ⟨h, hf, rfl⟩
    · split
      · exact core _ _ _ h rfl
      · exact core s t _ h hf
  | startElement n a => exact core s t _ h hf
  | endElement n => exact core s t _ h hf
  | raw str => exact core s t _ h hf
  | comment str => exact core s t _ h hf

theorem runFrom_erase (cc : CodeCfg) (c : SerCfg) (k : HKind) (evs : List Ev) (s t : SSt) (h : s.core = t.core)
    (hf : s.nextIsRaw = t.nextIsRaw) :
    (runFrom cc c k s evs).1.core = (runFrom cc c .dummy t evs).1.core ∧
    eraseIns (runFrom cc c k s evs).2 = (runFrom cc c .dummy t evs).2 := by
  induction evs generalizing s t with
  | nil => exact ⟨h, rfl⟩
  | cons e es ih =>
    simp only [runFrom]
    obtain ⟨h1, hf1, h2⟩ := step_erase cc c k s t e h hf
    obtain ⟨h3, h4⟩ := ih _ _ h1 hf1
    exact ⟨h3, by simp [h2, h4]⟩

theorem body_erase (cc : CodeCfg) (c : SerCfg) (k : HKind) (evs : List Ev) (s t : SSt) (h : s.core = t.core)
    (hf : s.nextIsRaw = t.nextIsRaw) :
    eraseIns (body cc c k s evs) = body cc c .dummy t evs := by
  simp only [body]
  obtain ⟨_, h2⟩ := runFrom_erase cc c k evs s t h hf
  simp [h2, endDocument]

theorem startDocument_erase (c : SerCfg) (k : HKind) :
    (startDocument c k).1.core = (startDocument c .dummy).1.core ∧
    (startDocument c k).1.nextIsRaw = (startDocument c .dummy).1.nextIsRaw ∧
    eraseIns (startDocument c k).2 = (startDocument c .dummy).2 := by
  unfold startDocument
  cases c.shouldWriteXMLHeader <;> cases hd : c.doctypeSystem.isEmpty <;>
    simp [SSt.core, eraseIns_cons, Tok.isIns]

end XalanModel.C08

namespace XalanModel.C08

/-! ### inserted tokens are never adjacent to character data -/

theorem noAdjFrom_append (p : Option Bool) (a b : List Tok) :
    noAdjFrom p (a ++ b) = (noAdjFrom p a && noAdjFrom (lastClsFrom p a) b) := by
  induction a generalizing p with
  | nil => simp [noAdjFrom, lastClsFrom]
  | cons t r ih => simp [noAdjFrom, lastClsFrom, ih, Bool.and_assoc]

theorem lastClsFrom_append (p : Option Bool) (a b : List Tok) :
    lastClsFrom p (a ++ b) = lastClsFrom (lastClsFrom p a) b := by
  induction a generalizing p with
  | nil => rfl
  | cons t r ih => simp [lastClsFrom, ih]

def Ev.isText : Ev → Bool
  | .characters _ => true
  | .cdata _ => true
  | .raw _ => true
  | .pi t d => isRawMarker t d      -- the marker announces the text that follows
  | _ => false

/-- the event is handled by a function that tells the indent handler when it wrote character data -/
def Ev.trackedCore (cc : CodeCfg) : Ev → Bool
  | .cdata _ => cc.cdataSetsPrevText
  | .raw _ => cc.rawSetsPrevText
  | _ => true

/-- what the state must guarantee when the last written token carries character data -/
def Inv (s : SSt) (p : Option Bool) : Prop :=
  p = some true → s.i.isprevtext = true ∧ s.elemStack.head? ≠ some false

set_option linter.unusedSimpArgs false in
theorem stepCore_noAdj (cc : CodeCfg) (c : SerCfg) (n : Nat) (s : SSt) (e : Ev) (p : Option Bool)
    (htr : e.trackedCore cc = true) (h : Inv s p) (hp : p = some false → e.isText = false) :
    noAdjFrom p (stepCore cc c (.real n) s e).2 = true ∧
    Inv (stepCore cc c (.real n) s e).1 (lastClsFrom p (stepCore cc c (.real n) s e).2) ∧
    lastClsFrom p (stepCore cc c (.real n) s e).2 ≠ some false := by
  obtain ⟨stack, nd, ⟨ci, snl, pres, prev, pstack⟩, nr⟩ := s
  unfold Inv at h ⊢
  simp only at h
  -- the last token class: nothing/other, character data, or inserted
  rcases p with _ | _ | _
  · -- p = none
    cases e <;> rcases stack with _ | ⟨_ | _, rest⟩ <;> cases nd <;> cases snl <;> cases pres <;> cases prev <;>
      simp_all [stepCore, startElement, endElement, characters, cdata, charactersRaw, comment, procInstr,
        writeParentTagEnd, ISt.upd, ISt.indent, ISt.popPreserve, ISt.pushPreserve, noAdjFrom, lastClsFrom, clsOk,
        Tok.cls, Tok.isTextual, Tok.isIns, Ev.trackedCore, Ev.isText] <;>
      (try split) <;>
      simp_all [noAdjFrom, lastClsFrom, clsOk, Tok.cls, Tok.isTextual, Tok.isIns, ISt.popPreserve] <;>
      (try (cases pstack <;> simp_all [ISt.popPreserve])) <;>
      (try split) <;> simp_all [noAdjFrom, lastClsFrom, clsOk, Tok.cls, Tok.isTextual, Tok.isIns]
  · -- p = some false: an inserted token was written last (only after the XML declaration)
    cases e <;> rcases stack with _ | ⟨_ | _, rest⟩ <;> cases nd <;> cases snl <;> cases pres <;> cases prev <;>
      simp_all [stepCore, startElement, endElement, characters, cdata, charactersRaw, comment, procInstr,
        writeParentTagEnd, ISt.upd, ISt.indent, ISt.popPreserve, ISt.pushPreserve, noAdjFrom, lastClsFrom, clsOk,
        Tok.cls, Tok.isTextual, Tok.isIns, Ev.trackedCore, Ev.isText] <;>
      (try (cases pstack <;> simp_all [ISt.popPreserve]))
  · -- p = some true
    have h1 : prev = true := (h rfl).1
    have h2 := (h rfl).2
    subst h1
    clear h hp
    rcases stack with _ | ⟨_ | _, rest⟩
    · clear h2
      cases e <;> cases nd <;> cases snl <;> cases pres <;>
        simp_all [stepCore, startElement, endElement, characters, cdata, charactersRaw, comment, procInstr,
          writeParentTagEnd, ISt.upd, ISt.indent, ISt.popPreserve, ISt.pushPreserve, noAdjFrom, lastClsFrom, clsOk,
          Tok.cls, Tok.isTextual, Tok.isIns, Ev.trackedCore, Ev.isText] <;>
        (try split) <;>
        simp_all [noAdjFrom, lastClsFrom, clsOk, Tok.cls, Tok.isTextual, Tok.isIns]
    · exact absurd rfl h2
    · clear h2
      cases e <;> cases nd <;> cases snl <;> cases pres <;>
        simp_all [stepCore, startElement, endElement, characters, cdata, charactersRaw, comment, procInstr,
          writeParentTagEnd, ISt.upd, ISt.indent, ISt.popPreserve, ISt.pushPreserve, noAdjFrom, lastClsFrom, clsOk,
          Tok.cls, Tok.isTextual, Tok.isIns, Ev.trackedCore, Ev.isText] <;>
        (try split) <;>
        simp_all [noAdjFrom, lastClsFrom, clsOk, Tok.cls, Tok.isTextual, Tok.isIns, ISt.popPreserve] <;>
        (try (cases pstack <;> simp_all [ISt.popPreserve])) <;>
        (try split) <;> simp_all [noAdjFrom, lastClsFrom, clsOk, Tok.cls, Tok.isTextual, Tok.isIns]

/-- the event is handled by a function that tells the indent handler when it wrote character data; the raw marker
counts as tracked when `charactersRaw` (which will write the text it announces) is -/
def Ev.tracked (cc : CodeCfg) : Ev → Bool
  | .pi t d => if isRawMarker t d then cc.rawSetsPrevText else true
  | e => e.trackedCore cc

theorem Inv_setFlag (s : SSt) (p : Option Bool) (b : Bool) : Inv { s with nextIsRaw := b } p ↔ Inv s p := Iff.rfl

theorem step_noAdj (cc : CodeCfg) (c : SerCfg) (n : Nat) (s : SSt) (e : Ev) (p : Option Bool)
    (htr : e.tracked cc = true) (h : Inv s p) (hp : p = some false → e.isText = false)
    (hf : s.nextIsRaw = true → cc.rawSetsPrevText = true) :
    noAdjFrom p (step cc c (.real n) s e).2 = true ∧
    Inv (step cc c (.real n) s e).1 (lastClsFrom p (step cc c (.real n) s e).2) ∧
    lastClsFrom p (step cc c (.real n) s e).2 ≠ some false ∧
    ((step cc c (.real n) s e).1.nextIsRaw = true → cc.rawSetsPrevText = true) := by
  have core := fun (s : SSt) (e : Ev) (htr : e.trackedCore cc = true) (h : Inv s p)
      (hp : p = some false → e.isText = false) (hf : s.nextIsRaw = true → cc.rawSetsPrevText = true) =>
    (show noAdjFrom p (stepCore cc c (.real n) s e).2 = true ∧
        Inv (stepCore cc c (.real n) s e).1 (lastClsFrom p (stepCore cc c (.real n) s e).2) ∧
        lastClsFrom p (stepCore cc c (.real n) s e).2 ≠ some false ∧
        ((stepCore cc c (.real n) s e).1.nextIsRaw = true → cc.rawSetsPrevText = true) from
      ⟨(stepCore_noAdj cc c n s e p htr h hp).1, (stepCore_noAdj cc c n s e p htr h hp).2.1,
       (stepCore_noAdj cc c n s e p htr h hp).2.2, by rw [stepCore_nextIsRaw]; exact hf⟩)
  cases e with
  | pi tg d =>
    simp only [step]
    simp only [Ev.tracked] at htr
    split
    · rename_i hm
      simp only [hm, if_true] at htr
      refine ⟨rfl, h, ?_, fun _ => htr⟩
      simp only [lastClsFrom]
      intro hh
      have := hp hh
      simp [Ev.isText, hm] at this
    · rename_i hm
      have hm' : isRawMarker tg d = false := by simpa using hm
      simp only [hm', Bool.false_eq_true, if_false] at htr
      exact core s _ (by simp [Ev.trackedCore]) h hp hf
  | characters str =>
    simp only [step]
    split
    · refine ⟨rfl, h, ?_, hf⟩
      simp only [lastClsFrom]
      intro hh; have := hp hh; simp [Ev.isText] at this
    · split
      · rename_i _ hr
        exact core _ (.raw str) (by simpa [Ev.trackedCore] using hf hr) h (by intro hh; have := hp hh; simp [Ev.isText] at this)
          (by intro hh; cases hh)
      · exact core s _ (by simpa [Ev.tracked] using htr) h hp hf
  | cdata str =>
    simp only [step]
    split
    · refine ⟨rfl, h, ?_, hf⟩
      simp only [lastClsFrom]
      intro hh; have := hp hh; simp [Ev.isText] at this
    · split
      · rename_i _ hr
        exact core _ (.raw str) (by simpa [Ev.trackedCore] using hf hr) h (by intro hh; have := hp hh; simp [Ev.isText] at this)
          (by intro hh; cases hh)
      · exact core s _ (by simpa [Ev.tracked] using htr) h hp hf
  | startElement nm a => exact core s _ (by simpa [Ev.tracked] using htr) h hp hf
  | endElement nm => exact core s _ (by simpa [Ev.tracked] using htr) h hp hf
  | raw str => exact core s _ (by simpa [Ev.tracked] using htr) h hp hf
  | comment str => exact core s _ (by simpa [Ev.tracked] using htr) h hp hf

theorem runFrom_noAdj (cc : CodeCfg) (c : SerCfg) (n : Nat) (evs : List Ev) (s : SSt) (p : Option Bool)
    (htr : ∀ e ∈ evs, e.tracked cc = true) (h : Inv s p) (hp : p ≠ some false)
    (hf : s.nextIsRaw = true → cc.rawSetsPrevText = true) :
    noAdjFrom p (runFrom cc c (.real n) s evs).2 = true ∧
    Inv (runFrom cc c (.real n) s evs).1 (lastClsFrom p (runFrom cc c (.real n) s evs).2) ∧
    lastClsFrom p (runFrom cc c (.real n) s evs).2 ≠ some false := by
  induction evs generalizing s p with
  | nil => exact ⟨rfl, h, hp⟩
  | cons e es ih =>
    simp only [runFrom]
    obtain ⟨a1, a2, a3, a4⟩ := step_noAdj cc c n s e p (htr e (by simp)) h (fun hh => absurd hh hp) hf
    obtain ⟨b1, b2, b3⟩ := ih _ _ (fun e' he' => htr e' (by simp [he'])) a2 a3 a4
    refine ⟨?_, ?_, ?_⟩
    · rw [noAdjFrom_append, a1, b1]; rfl
    · rw [lastClsFrom_append]; exact b2
    · rw [lastClsFrom_append]; exact b3

theorem endDocument_noAdj (n : Nat) (s : SSt) (p : Option Bool) (h : Inv s p) :
    noAdjFrom p (endDocument (.real n) s) = true := by
  obtain ⟨stack, nd, ⟨ci, snl, pres, prev, pstack⟩, nr⟩ := s
  unfold Inv at h
  rcases p with _ | _ | _
  · cases pres <;> cases prev <;>
      simp [endDocument, ISt.upd, ISt.indent, noAdjFrom, clsOk, Tok.cls, Tok.isTextual, Tok.isIns]
  · cases pres <;> cases prev <;>
      simp [endDocument, ISt.upd, ISt.indent, noAdjFrom, clsOk, Tok.cls, Tok.isTextual, Tok.isIns]
  · have h1 : prev = true := (h rfl).1
    subst h1
    cases pres <;> simp [endDocument, ISt.upd, ISt.indent, noAdjFrom]

/-- body from a state whose last written token is not an inserted one -/
theorem body_noAdj (cc : CodeCfg) (c : SerCfg) (n : Nat) (evs : List Ev) (s : SSt) (p : Option Bool)
    (htr : ∀ e ∈ evs, e.tracked cc = true) (h : Inv s p) (hp : p ≠ some false)
    (hf : s.nextIsRaw = true → cc.rawSetsPrevText = true) :
    noAdjFrom p (body cc c (.real n) s evs) = true := by
  simp only [body]
  obtain ⟨a1, a2, _⟩ := runFrom_noAdj cc c n evs s p htr h hp hf
  rw [noAdjFrom_append, a1, endDocument_noAdj n _ _ a2]; rfl

/-- body right after the XML declaration's line separator: the first event must not be a text event -/
theorem body_noAdj_afterIns (cc : CodeCfg) (c : SerCfg) (n : Nat) (evs : List Ev) (s : SSt)
    (htr : ∀ e ∈ evs, e.tracked cc = true) (hfirst : ∀ e, evs.head? = some e → e.isText = false)
    (hf : s.nextIsRaw = true → cc.rawSetsPrevText = true) :
    noAdjFrom (some false) (body cc c (.real n) s evs) = true := by
  cases evs with
  | nil =>
    obtain ⟨stack, nd, ⟨ci, snl, pres, prev, pstack⟩, nr⟩ := s
    cases pres <;> cases prev <;>
      simp [body, runFrom, endDocument, ISt.upd, ISt.indent, noAdjFrom, clsOk, Tok.cls, Tok.isTextual, Tok.isIns]
  | cons e es =>
    have he : e.isText = false := hfirst e rfl
    obtain ⟨a1, a2, a3, a4⟩ := step_noAdj cc c n s e (some false) (htr e (by simp)) (fun hh => by cases hh) (fun _ => he) hf
    have hb := body_noAdj cc c n es _ _ (fun e' he' => htr e' (by simp [he'])) a2 a3 a4
    simp only [body, runFrom] at hb ⊢
    rw [List.append_assoc, noAdjFrom_append, a1, hb]; rfl

/-- nothing is inserted by the dummy handler -/
theorem noAdj_of_no_ins (l : List Tok) (h : ∀ t ∈ l, t.isIns = false) (p : Option Bool) (hp : p ≠ some false) :
    noAdjFrom p l = true := by
  induction l generalizing p with
  | nil => rfl
  | cons t r ih =>
    have ht : t.isIns = false := h t (by simp)
    have hc : t.cls ≠ some false := by
      unfold Tok.cls; split <;> simp [ht]
    simp only [noAdjFrom, Bool.and_eq_true]
    refine ⟨?_, ih (fun t' ht' => h t' (by simp [ht'])) _ hc⟩
    rcases p with _ | _ | _ <;> rcases hcl : t.cls with _ | _ | _ <;> simp_all [clsOk]

end XalanModel.C08
