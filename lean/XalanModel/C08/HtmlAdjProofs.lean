import XalanModel.C08.HtmlProofs
/-! no-adjacency for the HTML-path start/end tags and the whole HTML stream -/
namespace XalanModel.C08.Html
open XalanModel.C08 XalanModel.Generated.C08

/-! HTML-path start/end tags write no character data: it suffices that their output starts with a
non-inserted token when text precedes, and does not end with an inserted one -/

theorem noText_hNoAdj (p : Option Bool) (o : List HTok) (h1 : ∀ t ∈ o, hcls t ≠ some true)
    (h2 : p = some true → ∀ t, o.head? = some t → hcls t ≠ some false) : hNoAdjFrom p o = true := by
  induction o generalizing p with
  | nil => rfl
  | cons t r ih =>
    rw [hNoAdjFrom_cons, Bool.and_eq_true]
    have ht : hcls t ≠ some true := h1 t (by simp)
    refine ⟨?_, ih _ (fun t' ht' => h1 t' (by simp [ht'])) (fun hh => absurd hh ht)⟩
    rcases p with _ | _ | _ <;> rcases hc : hcls t with _ | _ | _ <;> simp_all [clsOk]

theorem hLastFrom_snoc (p : Option Bool) (a : List HTok) (t : HTok) : hLastFrom p (a ++ [t]) = hcls t := by
  rw [hLastFrom_append]; rfl

theorem mem_gtOut {l : List Bool} {t : HTok} (h : t ∈ gtOut l) : t = HTok.t .gt := by
  rcases l with _ | ⟨_ | _, r⟩ <;> simp [gtOut] at h; exact h

theorem gtOut_eq_nil {l : List Bool} (h : l.head? ≠ some false) : gtOut l = [] := by
  rcases l with _ | ⟨_ | _, r⟩ <;> simp [gtOut] at h ⊢

theorem mem_indentToks {cfg : HtmlCfg} {st : HSt} {t : HTok} (h : t ∈ indentToks cfg st) : hcls t = some false := by
  unfold indentToks at h
  simp only [List.mem_append] at h
  rcases h with h | h
  · split at h
    · simp only [List.mem_singleton] at h; subst h; rfl
    · simp at h
  · split at h
    · simp only [List.mem_singleton] at h; subst h; rfl
    · simp at h

theorem sib_mem {cfg : HtmlCfg} {st : HSt} {b : Bool} {t : HTok} (h : t ∈ (startIndentBlock cfg st b).2) :
    hcls t = some false ∧ st.ispreserve = false := by
  unfold startIndentBlock at h
  cases hp : st.ispreserve
  · simp only [hp, Bool.false_eq_true, if_false] at h
    split at h
    · exact ⟨mem_indentToks h, rfl⟩
    · simp at h
  · simp [hp] at h

theorem gt_cls : hcls (HTok.t .gt) = none := rfl

theorem mb_mem {cfg : HtmlCfg} {st : HSt} {fl : Nat} {t : HTok} (h : t ∈ (metaBlock cfg st fl).2) : hcls t ≠ some true := by
  unfold metaBlock at h
  cases hh : has fl flagHEADELEM <;> cases ho : cfg.omitMeta <;> simp [hh, ho] at h
  · rcases h with h | h | h
    · rw [mem_gtOut h]; simp [gt_cls]
    · rw [mem_indentToks h.2]; simp
    · subst h; simp [hcls]
  · rw [mem_gtOut h]; simp [gt_cls]

/-- the META block either writes nothing or ends with `>` / the META tag -/
theorem mb_last (cfg : HtmlCfg) (st : HSt) (fl : Nat) (hs : st.elemStack.head? = some false) (q : Option Bool) :
    hLastFrom q (metaBlock cfg st fl).2 = q ∨ hLastFrom q (metaBlock cfg st fl).2 = none := by
  have hg : gtOut st.elemStack = [HTok.t .gt] := by
    rcases hst : st.elemStack with _ | ⟨_ | _, r⟩ <;> simp [hst] at hs <;> simp [gtOut]
  unfold metaBlock
  cases hh : has fl flagHEADELEM <;> cases ho : cfg.omitMeta
  · left; simp [hLastFrom]
  · left; simp [hLastFrom]
  · right
    simp only [Bool.not_false, if_true, wpte_out, hg]
    rw [hLastFrom_snoc]; rfl
  · right
    simp [hg, hLastFrom, gt_cls]

theorem wpte_ispreserve (s : HSt) : (writeParentTagEnd s).1.ispreserve = s.ispreserve := by
  unfold writeParentTagEnd; split <;> rfl

theorem htmlStart_out (cfg : HtmlCfg) (st : HSt) (n : Str) (a : List (Str × Str)) :
    ∃ st2 st4 : HSt,
      (htmlStartElement cfg st n a).2 = gtOut st.elemStack ++ (startIndentBlock cfg st2 (has (findFlags n) flagBLOCK)).2
          ++ [HTok.t (.open n a)] ++ (metaBlock cfg st4 (findFlags n)).2 ∧
      st2.ispreserve = st.ispreserve ∧ st4.elemStack.head? = some false := by
  unfold htmlStartElement
  simp only [wpte_out]
  refine ⟨_, _, rfl, ?_, ?_⟩
  · simp [wpte_ispreserve]
  · simp

theorem hLastFrom_open_append (p : Option Bool) (a : List HTok) (n : Str) (at_ : List (Str × Str)) (b : List HTok) :
    hLastFrom p (a ++ [HTok.t (.open n at_)] ++ b) = hLastFrom none b := by
  rw [hLastFrom_append, hLastFrom_snoc]; rfl

theorem htmlStart_hNoAdj (cfg : HtmlCfg) (st : HSt) (n : Str) (a : List (Str × Str)) (p : Option Bool)
    (h : HInv st p) :
    hNoAdjFrom p (htmlStartElement cfg st n a).2 = true ∧
    hLastFrom p (htmlStartElement cfg st n a).2 = none := by
  obtain ⟨st2, st4, ho, h2, h4⟩ := htmlStart_out cfg st n a
  rw [ho]
  constructor
  · apply noText_hNoAdj
    · intro t ht
      simp only [List.mem_append, List.mem_singleton] at ht
      rcases ht with ((ht | ht) | ht) | ht
      · rw [mem_gtOut ht]; simp [gt_cls]
      · rw [(sib_mem ht).1]; simp
      · subst ht; simp [hcls, Tok.cls, Tok.isTextual, Tok.isIns]
      · exact mb_mem ht
    · intro hp t hhead
      obtain ⟨hp1, _, hp3⟩ := h hp
      have e1 : gtOut st.elemStack = [] := gtOut_eq_nil hp3
      have e2 : (startIndentBlock cfg st2 (has (findFlags n) flagBLOCK)).2 = [] := by
        cases hb : (startIndentBlock cfg st2 (has (findFlags n) flagBLOCK)).2 with
        | nil => rfl
        | cons x r =>
          have := (sib_mem (t := x) (by rw [hb]; simp)).2
          rw [h2, hp1] at this; cases this
      rw [e1, e2] at hhead
      simp at hhead
      subst hhead
      simp [hcls, Tok.cls, Tok.isTextual, Tok.isIns]
  · rw [hLastFrom_open_append]
    rcases mb_last cfg st4 (findFlags n) h4 none with hm | hm <;> exact hm

theorem eib_snd_false (cfg : HtmlCfg) (st : HSt) (b : Bool) (h : st.ispreserve = true) : (endIndentBlock cfg st b).2 = false := by
  unfold endIndentBlock; simp [h]

theorem htmlEnd_hNoAdj (cfg : HtmlCfg) (st : HSt) (n : Str) (p : Option Bool) (h : HInv st p)
    (hok : !(st.elemStack.head? == some true && has (st.propsStack.headD htmlDummyFlags) flagEMPTY) = true) :
    hNoAdjFrom p (htmlEndElement cfg st n).2 = true ∧
    hLastFrom p (htmlEndElement cfg st n).2 = none := by
  unfold htmlEndElement
  simp only []
  generalize hfl : has (st.propsStack.headD htmlDummyFlags) flagEMPTY = isE at hok
  rcases hst : st.elemStack with _ | ⟨_ | _, r⟩
  · -- empty stack: no children recorded
    cases isE <;> simp [hNoAdjFrom_cons, hNoAdjFrom, hLastFrom, hcls, gt_cls, Tok.cls, Tok.isTextual, Tok.isIns] <;>
      (rcases p with _ | _ | _ <;> simp [clsOk])
  · cases isE <;> simp [hNoAdjFrom_cons, hNoAdjFrom, hLastFrom, hcls, gt_cls, Tok.cls, Tok.isTextual, Tok.isIns] <;>
      (rcases p with _ | _ | _ <;> simp [clsOk]) <;>
      (intro hp; have := (h (by rw [hp])).2.2; simp [hst] at this)
  · -- children were added
    have hE : isE = false := by simpa [hst] using hok
    subst hE
    simp only [Bool.not_false, if_true]
    constructor
    · apply noText_hNoAdj
      · intro t ht
        simp only [List.mem_append, List.mem_singleton] at ht
        rcases ht with ht | ht
        · split at ht
          · rw [mem_indentToks ht]; simp
          · simp at ht
        · subst ht; simp [hcls, Tok.cls, Tok.isTextual, Tok.isIns]
      · intro hp t hhead
        obtain ⟨hp1, _, _⟩ := h hp
        rw [eib_snd_false _ _ _ (by simpa using hp1)] at hhead
        simp at hhead
        subst hhead
        simp [hcls, Tok.cls, Tok.isTextual, Tok.isIns]
    · rw [hLastFrom_snoc]; rfl

/-- run-time check that no void (EMPTY) HTML element is given children -/
def voidOk (cfg : HtmlCfg) : HSt → List Ev → Bool
  | _, [] => true
  | st, e :: es => okAt st e && voidOk cfg (step cfg st e).1 es

theorem HInv_none (st : HSt) : HInv st none := by intro h; cases h

theorem stepCore_hNoAdj (cfg : HtmlCfg) (hraw : cfg.rawSetsPrevText = true) (st : HSt) (e : Ev) (p : Option Bool)
    (h : HInv st p) (hp : p ≠ some false) (hok : okAt st e = true) :
    hNoAdjFrom p (stepCore cfg st e).2 = true ∧ HInv (stepCore cfg st e).1 (hLastFrom p (stepCore cfg st e).2) ∧
    hLastFrom p (stepCore cfg st e).2 ≠ some false := by
  cases e with
  | startElement n a =>
    simp only [stepCore, startElement]
    have key : ∀ b : Bool, HInv { st with hasNamespaceStack := b :: st.hasNamespaceStack } p := fun _ => h
    cases hasNamespace cfg n
    · obtain ⟨a1, a2⟩ := htmlStart_hNoAdj cfg _ n a p (key false)
      simp only [Bool.false_eq_true, if_false]
      exact ⟨a1, by rw [a2]; exact HInv_none _, by rw [a2]; simp⟩
    · simp only [if_true]
      exact (xml_hNoAdj cfg _ n a p (key true) hp).1
  | endElement n =>
    simp only [stepCore, endElement]
    have h' : HInv { st with hasNamespaceStack := st.hasNamespaceStack.tail } p := h
    cases hns : st.hasNamespaceStack.headD false
    · simp only [Bool.false_eq_true, if_false]
      have hok' : !(st.elemStack.head? == some true && has (st.propsStack.headD htmlDummyFlags) flagEMPTY) = true := by
        unfold okAt at hok
        rw [hns] at hok
        simpa using hok
      obtain ⟨a1, a2⟩ := htmlEnd_hNoAdj cfg _ n p h' hok'
      exact ⟨a1, by rw [a2]; exact HInv_none _, by rw [a2]; simp⟩
    · simp only [if_true]
      exact (xml_hNoAdj cfg _ n [] p h' hp).2
  | characters t => exact stepCore_hNoAdj_simple cfg hraw st _ p trivial h hp
  | cdata t => exact stepCore_hNoAdj_simple cfg hraw st _ p trivial h hp
  | raw t => exact stepCore_hNoAdj_simple cfg hraw st _ p trivial h hp
  | comment t => exact stepCore_hNoAdj_simple cfg hraw st _ p trivial h hp
  | pi t d => exact stepCore_hNoAdj_simple cfg hraw st _ p trivial h hp

theorem HInv_prevtext (st : HSt) (p : Option Bool) (h : HInv st p) : HInv { st with isprevtext := true } p := by
  intro hp
  obtain ⟨h1, _, h3⟩ := h hp
  exact ⟨h1, rfl, h3⟩

/-- the `m_nextIsRaw` level on top: a marker writes nothing, a flagged text event is `charactersRaw` -/
theorem step_hNoAdj (cfg : HtmlCfg) (hraw : cfg.rawSetsPrevText = true) (st : HSt) (e : Ev) (p : Option Bool)
    (h : HInv st p) (hp : p ≠ some false) (hok : okAt st e = true) :
    hNoAdjFrom p (step cfg st e).2 = true ∧ HInv (step cfg st e).1 (hLastFrom p (step cfg st e).2) ∧
    hLastFrom p (step cfg st e).2 ≠ some false := by
  have rawcase : ∀ t : Str,
      hNoAdjFrom p (stepCore cfg { st with nextIsRaw := false } (.raw t)).2 = true ∧
      HInv { (stepCore cfg { st with nextIsRaw := false } (.raw t)).1 with isprevtext := true }
        (hLastFrom p (stepCore cfg { st with nextIsRaw := false } (.raw t)).2) ∧
      hLastFrom p (stepCore cfg { st with nextIsRaw := false } (.raw t)).2 ≠ some false := by
    intro t
    obtain ⟨a1, a2, a3⟩ := stepCore_hNoAdj cfg hraw { st with nextIsRaw := false } (.raw t) p h hp rfl
    exact ⟨a1, HInv_prevtext _ _ a2, a3⟩
  cases e with
  | pi t d =>
    simp only [step]
    split
    · exact ⟨rfl, h, hp⟩
    · exact stepCore_hNoAdj cfg hraw st _ p h hp hok
  | characters t =>
    simp only [step]
    split
    · exact rawcase t
    · exact stepCore_hNoAdj cfg hraw st _ p h hp hok
  | cdata t =>
    simp only [step]
    split
    · exact rawcase t
    · exact stepCore_hNoAdj cfg hraw st _ p h hp hok
  | startElement n a => exact stepCore_hNoAdj cfg hraw st _ p h hp hok
  | endElement n => exact stepCore_hNoAdj cfg hraw st _ p h hp hok
  | raw t => exact stepCore_hNoAdj cfg hraw st _ p h hp hok
  | comment t => exact stepCore_hNoAdj cfg hraw st _ p h hp hok

theorem runFrom_hNoAdj (cfg : HtmlCfg) (hraw : cfg.rawSetsPrevText = true) (evs : List Ev) (st : HSt) (p : Option Bool)
    (h : HInv st p) (hp : p ≠ some false) (hok : voidOk cfg st evs = true) :
    hNoAdjFrom p (runFrom cfg st evs).2 = true ∧ HInv (runFrom cfg st evs).1 (hLastFrom p (runFrom cfg st evs).2) ∧
    hLastFrom p (runFrom cfg st evs).2 ≠ some false := by
  induction evs generalizing st p with
  | nil => exact ⟨rfl, h, hp⟩
  | cons e es ih =>
    simp only [voidOk, Bool.and_eq_true] at hok
    simp only [runFrom]
    obtain ⟨a1, a2, a3⟩ := step_hNoAdj cfg hraw st e p h hp hok.1
    obtain ⟨b1, b2, b3⟩ := ih _ _ a2 a3 hok.2
    refine ⟨?_, ?_, ?_⟩
    · rw [hNoAdjFrom_append, a1, b1]; rfl
    · rw [hLastFrom_append]; exact b2
    · rw [hLastFrom_append]; exact b3

set_option linter.unusedSimpArgs false in
theorem serializeToks_hNoAdj (cfg : HtmlCfg) (hraw : cfg.rawSetsPrevText = true) (evs : List Ev)
    (hok : voidOk cfg (startDocument cfg).1 evs = true) : hNoAdj (serializeToks cfg evs) = true := by
  have hs : hNoAdjFrom none (startDocument cfg).2 = true ∧ hLastFrom none (startDocument cfg).2 = none := by
    unfold startDocument; split <;> simp [hNoAdjFrom_cons, hNoAdjFrom, hLastFrom, hcls, clsOk, Tok.cls, Tok.isTextual, Tok.isIns]
  obtain ⟨a1, a2, a3⟩ := runFrom_hNoAdj cfg hraw evs (startDocument cfg).1 none (HInv_none _) (by simp) hok
  have he : ∀ (st : HSt) (q : Option Bool), HInv st q → hNoAdjFrom q (endDocument cfg st) = true := by
    intro st q hq
    unfold endDocument
    rcases q with _ | _ | _
    · split <;> simp [hNoAdjFrom_cons, hNoAdjFrom, hcls, clsOk, Tok.cls, Tok.isTextual, Tok.isIns]
    · split <;> simp [hNoAdjFrom_cons, hNoAdjFrom, hcls, clsOk, Tok.cls, Tok.isTextual, Tok.isIns]
    · have := (hq rfl).2.1
      simp [this, hNoAdjFrom]
  simp only [serializeToks, hNoAdj, hNoAdjFrom_append, hs.1, hs.2, a1, hLastFrom_append, he _ _ a2, Bool.and_self]

end XalanModel.C08.Html
