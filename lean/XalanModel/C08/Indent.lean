/-
C08 — model of the XML serializer's *token level*: `FormatterToXMLUnicode.hpp` event handlers with the
indent handler (`XalanIndentWriter.hpp` / `XalanDummyIndentWriter.hpp`) as written.

Mirrors (file:line of /repo at the time of writing):
* XalanIndentWriter.hpp: indent() 82-94, increaseIndent/decreaseIndent 97-108, setStartNewLine, setPrevText,
  setPreserve, pop_preserve 139-151, push_preserve 154-157, shouldIndent 161-165
* XalanDummyIndentWriter.hpp: every member is empty
* FormatterToXMLUnicode.hpp: endDocument 155, startElement 167, endElement 201, charactersRaw 237, comment 264,
  writeXMLHeader 299, writeDoctypeDecl 345, writeProcessingInstruction 385, writeCharacters 413, writeCDATA 463,
  writeParentTagEnd 619
* XalanXMLSerializerBase.{hpp,cpp}: startDocument, characters, cdata, markParentForChildren,
  openElementForChildren, childNodesWereAdded, generateDoctypeDecl, constructor (m_shouldWriteXMLHeader,
  m_spaceBeforeClose)

Core Lean only (imported by the driver).  Strings are lists of code points.
-/
namespace XalanModel.C08

abbrev Str := List Nat

/-- SAX events as delivered by `XSLTEngineImpl` to the `FormatterListener`. `raw` is a
`charactersRaw` call (disable-output-escaping). -/
inductive Ev where
  | startElement (name : Str) (attrs : List (Str × Str))
  | endElement (name : Str)
  | characters (s : Str)
  | cdata (s : Str)
  | raw (s : Str)
  | comment (s : Str)
  | pi (target data : Str)
deriving Repr, DecidableEq, Inhabited

/-- Output tokens.  `nl`/`ws` are exactly the writes that go through the indent handler
(`m_newLineWriter()`, `m_whiteSpaceWriter(n)`); `hnl` is `outputNewline()` of the serializer itself
(prolog only). -/
inductive Tok where
  | xmlDecl (version encoding standalone : Str)
  | doctype (name pub sys : Str)
  | hnl
  | open (name : Str) (attrs : List (Str × Str))
  | gt
  | emptyEnd (space : Bool)
  | close (name : Str)
  | text (s : Str)
  | cdata (s : Str)
  | raw (s : Str)
  | comment (s : Str)
  | pi (target data : Str)
  | nl
  | ws (n : Nat)
deriving Repr, DecidableEq, Inhabited

/-- written by the indent handler -/
def Tok.isIns : Tok → Bool
  | .nl => true
  | .ws _ => true
  | _ => false

/-- carries character data of the result tree -/
def Tok.isTextual : Tok → Bool
  | .text _ => true
  | .cdata _ => true
  | .raw _ => true
  | _ => false

/-- Which indent handler the factory instantiated (`XalanXMLSerializerFactory::create`, `doIndent`). -/
inductive HKind where
  | real (amount : Nat)   -- XalanIndentWriter, m_indent = amount
  | dummy                 -- XalanDummyIndentWriter
deriving Repr, DecidableEq, Inhabited

/-- Facts about the current source that the call-point translator extracts
(`translate/c08_callpoints.py` → `Generated/C08_CallPoints.lean`): does `writeCDATA` / `charactersRaw`
end with `m_indentHandler.setPrevText(true)` (it does not in the unrepaired tree). -/
structure CodeCfg where
  cdataSetsPrevText : Bool
  rawSetsPrevText : Bool
deriving Repr, DecidableEq, Inhabited

/-- `XalanIndentWriter` data members (m_indent lives in `HKind.real`). -/
structure ISt where
  currentIndent : Nat := 0
  startNewLine : Bool := false
  ispreserve : Bool := false
  isprevtext : Bool := false
  preserves : List Bool := []      -- head = back()
deriving Repr, DecidableEq, Inhabited

/-- apply a mutator of the real handler; the dummy handler's members are empty -/
def ISt.upd (k : HKind) (f : ISt → ISt) (i : ISt) : ISt :=
  match k with
  | .real _ => f i
  | .dummy => i

/-- `XalanIndentWriter::indent()` -/
def ISt.indent (k : HKind) (i : ISt) : List Tok :=
  match k with
  | .dummy => []
  | .real _ =>
    if !i.ispreserve && !i.isprevtext then
      (if i.startNewLine then [Tok.nl] else []) ++ [Tok.ws i.currentIndent]
    else []

/-- `outputLineSep()` -/
def HKind.lineSep : HKind → List Tok
  | .real _ => [Tok.nl]
  | .dummy => []

def HKind.amount : HKind → Nat
  | .real n => n
  | .dummy => 0

def ISt.popPreserve (i : ISt) : ISt :=
  match i.preserves with
  | [] => { i with ispreserve := false }
  | b :: r => { i with ispreserve := b, preserves := r }

def ISt.pushPreserve (i : ISt) : ISt := { i with preserves := i.ispreserve :: i.preserves }

/-- Constructor arguments of the serializer (`XalanXMLSerializerBase` members that do not change). -/
structure SerCfg where
  version : Str := [49, 46, 48]            -- "1.0"
  encoding : Str := [85, 84, 70, 45, 56]   -- "UTF-8"
  doctypeSystem : Str := []
  doctypePublic : Str := []
  xmlDecl : Bool := true
  standalone : Str := []
deriving Repr, DecidableEq, Inhabited

def xhtmlDocType : Str := "-//W3C//DTD XHTML".toList.map Char.toNat

/-- `m_spaceBeforeClose`: doctype-public starts with the XHTML public-id prefix (`s_xhtmlDocTypeString`) -/
def SerCfg.spaceBeforeClose (c : SerCfg) : Bool :=
  !c.doctypePublic.isEmpty && xhtmlDocType.isPrefixOf c.doctypePublic

/-- `m_shouldWriteXMLHeader(xmlDecl == true ? true : theStandalone.length() != 0)` -/
def SerCfg.shouldWriteXMLHeader (c : SerCfg) : Bool :=
  if c.xmlDecl then true else !c.standalone.isEmpty

structure SSt where
  elemStack : List Bool := []        -- head = back(); true = children were added
  needDoctype : Bool := false
  i : ISt := {}
  /-- `m_nextIsRaw`: set by the marker PI a result tree fragment stores in front of disable-output-escaping text -/
  nextIsRaw : Bool := false
deriving Repr, DecidableEq, Inhabited

/-- `writeParentTagEnd()` with `markParentForChildren()` -/
def writeParentTagEnd (k : HKind) (s : SSt) : SSt × List Tok :=
  match s.elemStack with
  | false :: rest =>
    ({ s with elemStack := true :: rest,
              i := s.i.upd k fun i => ({ i with isprevtext := false } : ISt).pushPreserve },
     [Tok.gt])
  | _ => (s, [])

/-- `XalanXMLSerializerBase::startDocument()` + `writeXMLHeader()` -/
def startDocument (c : SerCfg) (k : HKind) : SSt × List Tok :=
  let need := !c.doctypeSystem.isEmpty
  let s : SSt := { needDoctype := need }
  if c.shouldWriteXMLHeader then
    (s, [Tok.xmlDecl c.version c.encoding c.standalone]
        ++ (if need = false then k.lineSep else [])
        ++ (if need then [Tok.hnl] else []))
  else (s, [])

def startElement (c : SerCfg) (k : HKind) (s : SSt) (name : Str) (attrs : List (Str × Str)) : SSt × List Tok :=
  -- generateDoctypeDecl(name)
  let (s, o0) := if s.needDoctype then
      ({ s with needDoctype := false }, [Tok.doctype name c.doctypePublic c.doctypeSystem, Tok.hnl])
    else (s, [])
  let (s, o1) := writeParentTagEnd k s
  let i := s.i.upd k fun i => { i with ispreserve := false }
  let o2 := i.indent k
  let i := i.upd k fun i => { i with startNewLine := true }
  let o3 := [Tok.open name attrs]
  let stack := false :: s.elemStack                  -- openElementForChildren()
  let i := i.upd k fun i => { i with currentIndent := i.currentIndent + k.amount }
  let i := i.upd k fun i => { i with isprevtext := false }
  ({ s with elemStack := stack, i := i }, o0 ++ o1 ++ o2 ++ o3)

def endElement (c : SerCfg) (k : HKind) (s : SSt) (name : Str) : SSt × List Tok :=
  let i := s.i.upd k fun i => { i with currentIndent := i.currentIndent - k.amount }
  -- childNodesWereAdded()
  let (hasChildNodes, stack) := match s.elemStack with
    | [] => (false, [])
    | b :: r => (b, r)
  if hasChildNodes then
    let o := i.indent k ++ [Tok.close name]
    let i := i.upd k ISt.popPreserve
    let i := i.upd k fun i => { i with isprevtext := false }
    ({ s with elemStack := stack, i := i }, o)
  else
    let i := i.upd k fun i => { i with isprevtext := false }
    ({ s with elemStack := stack, i := i }, [Tok.emptyEnd c.spaceBeforeClose])

/-- `characters` → `writeCharacters` (length ≠ 0) -/
def characters (k : HKind) (s : SSt) (str : Str) : SSt × List Tok :=
  if str.isEmpty then (s, []) else
  let (s, o1) := writeParentTagEnd k s
  let i := s.i.upd k fun i => { i with ispreserve := true }
  let i := i.upd k fun i => { i with isprevtext := true }
  ({ s with i := i }, o1 ++ [Tok.text str])

/-- `cdata` → `writeCDATA` (length ≠ 0) -/
def cdata (cc : CodeCfg) (k : HKind) (s : SSt) (str : Str) : SSt × List Tok :=
  if str.isEmpty then (s, []) else
  let (s, o1) := writeParentTagEnd k s
  let i := s.i.upd k fun i => { i with ispreserve := true }
  let o2 := i.indent k
  let i := if cc.cdataSetsPrevText then i.upd k fun i => { i with isprevtext := true } else i
  ({ s with i := i }, o1 ++ o2 ++ [Tok.cdata str])

/-- `charactersRaw` -/
def charactersRaw (cc : CodeCfg) (k : HKind) (s : SSt) (str : Str) : SSt × List Tok :=
  let (s, o1) := writeParentTagEnd k s
  let i := s.i.upd k fun i => { i with ispreserve := true }
  let i := if cc.rawSetsPrevText then i.upd k fun i => { i with isprevtext := true } else i
  ({ s with i := i }, o1 ++ [Tok.raw str])

def comment (k : HKind) (s : SSt) (data : Str) : SSt × List Tok :=
  let (s, o1) := writeParentTagEnd k s
  let o2 := s.i.indent k
  let i := s.i.upd k fun i => { i with startNewLine := true }
  ({ s with i := i }, o1 ++ o2 ++ [Tok.comment data])

/-- `writeProcessingInstruction` -/
def procInstr (k : HKind) (s : SSt) (target data : Str) : SSt × List Tok :=
  let (s, o1) := writeParentTagEnd k s
  let o2 := s.i.indent k
  (s, o1 ++ o2 ++ [Tok.pi target data])

/-- `endDocument()` -/
def endDocument (k : HKind) (s : SSt) : List Tok :=
  let i := s.i.upd k fun i => { i with startNewLine := true }
  i.indent k

/-- the FormatterToXMLUnicode level: `writeCharacters`, `writeCDATA`, `charactersRaw`,
`writeProcessingInstruction`, … — none of them reads or writes `m_nextIsRaw` -/
def stepCore (cc : CodeCfg) (c : SerCfg) (k : HKind) (s : SSt) : Ev → SSt × List Tok
  | .startElement n a => startElement c k s n a
  | .endElement n => endElement c k s n
  | .characters t => characters k s t
  | .cdata t => cdata cc k s t
  | .raw t => charactersRaw cc k s t
  | .comment t => comment k s t
  | .pi t d => procInstr k s t d

/-- `FormatterListener::s_piTarget` / `s_piData`: the processing instruction `<?Xalan raw?>` a result tree fragment
stores in front of a disable-output-escaping text node (`FormatterToSourceTree::charactersRaw`) -/
def rawMarkerTarget : Str := [88, 97, 108, 97, 110]
def rawMarkerData : Str := [114, 97, 119]

def isRawMarker (target data : Str) : Bool := target == rawMarkerTarget && data == rawMarkerData

/-- the XalanXMLSerializerBase level (XalanXMLSerializerBase.cpp `characters` 262-282, `cdata` 286-306,
`processingInstruction` 310-325): the marker PI sets `m_nextIsRaw`; the next non-empty `characters` **or** `cdata`
call resets it and goes to `charactersRaw`; every other event leaves the flag alone -/
def step (cc : CodeCfg) (c : SerCfg) (k : HKind) (s : SSt) : Ev → SSt × List Tok
  | .pi t d => if isRawMarker t d then ({ s with nextIsRaw := true }, []) else stepCore cc c k s (.pi t d)
  | .characters t =>
    if t.isEmpty then (s, [])
    else if s.nextIsRaw then stepCore cc c k { s with nextIsRaw := false } (.raw t)
    else stepCore cc c k s (.characters t)
  | .cdata t =>
    if t.isEmpty then (s, [])
    else if s.nextIsRaw then stepCore cc c k { s with nextIsRaw := false } (.raw t)
    else stepCore cc c k s (.cdata t)
  | e => stepCore cc c k s e

/-- run the event handlers from a state, accumulating output -/
def runFrom (cc : CodeCfg) (c : SerCfg) (k : HKind) : SSt → List Ev → SSt × List Tok
  | s, [] => (s, [])
  | s, e :: es =>
    let (s1, o1) := step cc c k s e
    let (s2, o2) := runFrom cc c k s1 es
    (s2, o1 ++ o2)

/-- the body: every event, then `endDocument` -/
def body (cc : CodeCfg) (c : SerCfg) (k : HKind) (s : SSt) (evs : List Ev) : List Tok :=
  let (s1, o) := runFrom cc c k s evs
  o ++ endDocument k s1

/-- whole document: `startDocument`, the events, `endDocument` -/
def serialize (cc : CodeCfg) (c : SerCfg) (k : HKind) (evs : List Ev) : List Tok :=
  let (s0, h) := startDocument c k
  h ++ body cc c k s0 evs

/-- erase what the indent handler wrote -/
def eraseIns (l : List Tok) : List Tok := l.filter fun t => !t.isIns

/-- `noAdjFrom p l`: in `l`, preceded by a token of class `p` (`none` = nothing / other), no inserted
token is adjacent to a textual one.  Classes: `some true` = textual, `some false` = inserted. -/
def Tok.cls (t : Tok) : Option Bool :=
  if t.isTextual then some true else if t.isIns then some false else none

def clsOk : Option Bool → Option Bool → Bool
  | some true, some false => false
  | some false, some true => false
  | _, _ => true

def noAdjFrom : Option Bool → List Tok → Bool
  | _, [] => true
  | p, t :: r => clsOk p t.cls && noAdjFrom t.cls r

/-- no token written by the indent handler is adjacent to a token carrying character data -/
def noAdj (l : List Tok) : Bool := noAdjFrom none l

def lastClsFrom : Option Bool → List Tok → Option Bool
  | p, [] => p
  | _, t :: r => lastClsFrom t.cls r

end XalanModel.C08
