import XalanModel.C08.Indent
/-
C08 — lexical rendering of the token stream (what the `m_writer.write…` calls of
FormatterToXMLUnicode.hpp put on the stream), as code points; the check decodes the real bytes with the
declared encoding and compares.  Only the character classes the generator emits are modelled
(TAB, LF, CR, printable ASCII, U+0085, Latin-1, BMP incl. U+2028); forbidden characters raise an exception in
the real code and belong to C04/C03.

Mirrors: writeXMLHeader 299-341, writeDoctypeDecl 345-381, writeProcessingInstruction 385-410,
writeCharacters 413-459, writeCDATA/writeCDATAChars 463-489/710-783, writeDefaultEscape 504,
writeDefaultAttributeEscape 535, writeAttrString 793, processAttribute 843, writeNormalizedData 861.
-/
namespace XalanModel.C08

def s (x : String) : Str := x.toList.map Char.toNat

def digits (n : Nat) : Str := (toString n).toList.map Char.toNat

def charRef (n : Nat) : Str := s "&#" ++ digits n ++ s ";"

structure RenderCfg where
  v11 : Bool := false      -- XML_VERSION_1_1 instantiation
  maxChar : Nat := 0x10FFFF -- largest code point the output encoding represents (UTF-8/16: all)
  /-- source fact (call-point translator): `writeCDATAChars` re-opens (not closes) a section before a `]]>` that
  follows an unrepresentable character and leaves a text that ends outside a section alone (repaired source) -/
  cdataRepaired : Bool := true
deriving Repr, Inhabited

/-- `writeDefaultEntity` -/
def defaultEntity (c : Nat) : Option Str :=
  if c = 60 then some (s "&lt;") else if c = 62 then some (s "&gt;") else if c = 38 then some (s "&amp;") else none

/-- is the character "special in content" (`m_charPredicate.content`), for the modelled classes -/
def contentSpecial (r : RenderCfg) (c : Nat) : Bool :=
  if r.v11 then (1 ≤ c && c ≤ 31) || c = 38 || c = 60 || c = 62 || (127 ≤ c && c ≤ 159)
  else c = 10 || c = 13 || c = 38 || c = 60 || c = 62

def attrSpecial (r : RenderCfg) (c : Nat) : Bool :=
  contentSpecial r c || c = 34 || c = 9

def inRange (r : RenderCfg) (c : Nat) : Bool := if r.v11 then c > 0x9F else c > 0x7F

/-- `writeNormalizedCharBig` + the writer's handling of an unrepresentable character -/
def bigChar (r : RenderCfg) (c : Nat) : Str :=
  if r.v11 && c = 0x2028 then charRef c
  else if c > r.maxChar then charRef c else [c]

/-- one character of `writeCharacters` -/
def contentChar (r : RenderCfg) (c : Nat) : Str :=
  if inRange r c then bigChar r c
  else if !contentSpecial r c then [c]
  else match defaultEntity c with
    | some e => e
    | none => if c = 10 then [10] else charRef c

/-- one character of `writeAttrString` -/
def attrChar (r : RenderCfg) (c : Nat) : Str :=
  if inRange r c then bigChar r c
  else if !attrSpecial r c then [c]
  else match defaultEntity c with
    | some e => e
    | none => if c = 34 then s "&quot;" else charRef c

/-- `writeCDATAChars` (FormatterToXMLUnicode.hpp 710-783) with the writer's `writeCDATAChar`
(XalanOtherEncodingWriter.hpp 126-199; the UTF-8/16 writers represent everything), as written; `outside` is
`outsideCDATA`.  A `]]>` is split over two sections; a character the encoding cannot represent closes the section
and is written as a numeric reference outside it, the next representable character re-opens a section.
With `fixed = false` this is the unrepaired source: after an unrepresentable character a following `]]>` writes
the *close* string, and a text that ends outside a section writes the *open* string and no close. -/
def cdataCharsEnc (fixed : Bool) (maxc : Nat) : Str → Bool → Str
  | 93 :: 93 :: 62 :: rest, outside =>
    (if outside then (if fixed then s "<![CDATA[" else s "]]>") else []) ++ s "]]]]><![CDATA[>"
      ++ cdataCharsEnc fixed maxc rest false
  | c :: rest, outside =>
    if c = 10 then 10 :: cdataCharsEnc fixed maxc rest outside
    else if c ≤ maxc then (if outside then s "<![CDATA[" else []) ++ c :: cdataCharsEnc fixed maxc rest false
    else (if outside then [] else s "]]>") ++ charRef c ++ cdataCharsEnc fixed maxc rest true
  | [], outside => if outside then (if fixed then [] else s "<![CDATA[") else s "]]>"

def isXMLWhitespace (c : Nat) : Bool := c = 32 || c = 9 || c = 10 || c = 13

def renderAttrs (r : RenderCfg) : List (Str × Str) → Str
  | [] => []
  | (n, v) :: rest => s " " ++ n ++ s "=\"" ++ v.flatMap (attrChar r) ++ s "\"" ++ renderAttrs r rest

def Tok.render (r : RenderCfg) : Tok → Str
  | .xmlDecl v e sa =>
    s "<?xml version=\"" ++ v ++ s "\" encoding=\"" ++ e ++ s "\""
      ++ (if sa.isEmpty then [] else s " standalone=\"" ++ sa ++ s "\"") ++ s "?>"
  | .doctype name pub sys =>
    s "<!DOCTYPE " ++ name
      ++ (if pub.isEmpty then s " SYSTEM \"" else s " PUBLIC \"" ++ pub ++ s "\" \"")
      ++ sys ++ s "\">"
  | .hnl => [10]
  | .open name attrs => s "<" ++ name ++ renderAttrs r attrs
  | .gt => s ">"
  | .emptyEnd sp => (if sp then s " " else []) ++ s "/>"
  | .close name => s "</" ++ name ++ s ">"
  | .text t => t.flatMap (contentChar r)
  | .cdata t => s "<![CDATA[" ++ cdataCharsEnc r.cdataRepaired r.maxChar t false
  | .raw t => t
  | .comment t => s "<!--" ++ t ++ s "-->"
  | .pi t d =>
    s "<?" ++ t ++ (match d with
      | [] => []
      | c :: _ => if isXMLWhitespace c then [] else s " ") ++ d ++ s "?>"
  | .nl => [10]
  | .ws n => List.replicate n 32

def renderAll (r : RenderCfg) (l : List Tok) : Str := l.flatMap (Tok.render r)

/-- FormatterToText: every `characters`/`cdata`/`charactersRaw` call writes its characters, nothing else is
written (non-CRLF platform). -/
def textMethod : List Ev → Str
  | [] => []
  | .characters t :: r => t ++ textMethod r
  | .cdata t :: r => t ++ textMethod r
  | .raw t :: r => t ++ textMethod r
  | _ :: r => textMethod r

end XalanModel.C08
