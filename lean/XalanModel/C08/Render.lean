import XalanModel.C08.Indent
import XalanModel.Generated.C08_CallPoints
/-
C08 — lexical rendering of the token stream (what the `m_writer.write…` calls of
FormatterToXMLUnicode.hpp put on the stream), as code points; the check decodes the real bytes with the
declared encoding and compares.  Only the character classes the generator emits are modelled
(TAB, LF, CR, printable ASCII, U+0085, Latin-1, BMP incl. U+2028); forbidden characters raise an exception in
the real code and belong to C04/C03.

Mirrors: writeXMLHeader 299-341, writeDoctypeDecl 345-381, writeProcessingInstruction 385-410,
writeCharacters 413-459, writeCDATA/writeCDATAChars 463-489/710-783, writeDefaultEscape 504,
writeDefaultAttributeEscape 535, writeAttrString 793, processAttribute 843, writeNormalizedData 861.
-/
namespace XalanModel.C08

def s (x : String) : Str := x.toList.map Char.toNat

def digits (n : Nat) : Str := (toString n).toList.map Char.toNat

def charRef (n : Nat) : Str := s "&#" ++ digits n ++ s ";"

structure RenderCfg where
  v11 : Bool := false      -- XML_VERSION_1_1 instantiation
  maxChar : Nat := 0x10FFFF -- largest code point the output encoding represents (UTF-8/16: all)
  /-- source fact (call-point translator): `writeCDATAChars` re-opens (not closes) a section before a `]]>` that
  follows an unrepresentable character and leaves a text that ends outside a section alone (repaired source) -/
  cdataRepaired : Bool := XalanModel.Generated.C08.cdataCharsRepaired
  /-- source fact: `writeCDATAChars` leaves the section to write CR (1.1: also NEL, LSEP, restricted characters) as a
  numeric reference -/
  cdataRefs : Bool := XalanModel.Generated.C08.cdataRefsLineEnds
  /-- source fact: the bulk `write(chars, n)` of XalanOtherEncodingWriter (disable-output-escaping text, doctype strings)
  consumes a surrogate pair as one character (it wrote one numeric reference per code unit) -/
  otherBulkPairs : Bool := XalanModel.Generated.C08.otherBulkPairs
deriving Repr, Inhabited

/-- `writeDefaultEntity` -/
def defaultEntity (c : Nat) : Option Str :=
  if c = 60 then some (s "&lt;") else if c = 62 then some (s "&gt;") else if c = 38 then some (s "&amp;") else none

/-- class of a character in the regenerated `CharFunctor1_0/1_1::s_specialChars` (0 beyond `s_lastSpecial`):
eNone 0, eAttr 1, eBoth 2, eForb 4, eCRFb 5 -/
def charClass (r : RenderCfg) (c : Nat) : Nat :=
  (if r.v11 then XalanModel.Generated.C08.charTable11 else XalanModel.Generated.C08.charTable10).getD c 0

/-- `m_charPredicate.content` -/
def contentSpecial (r : RenderCfg) (c : Nat) : Bool := charClass r c > 1

/-- `m_charPredicate.attribute` -/
def attrSpecial (r : RenderCfg) (c : Nat) : Bool := charClass r c > 0

/-- `m_charPredicate.range`: beyond `s_lastSpecial` -/
def inRange (r : RenderCfg) (c : Nat) : Bool :=
  c ≥ (if r.v11 then XalanModel.Generated.C08.charTable11 else XalanModel.Generated.C08.charTable10).length

/-- `m_charPredicate.isCharRefForbidden` (1.0: eForb, 1.1: eCRFb) -/
def charRefForbidden (r : RenderCfg) (c : Nat) : Bool := charClass r c = (if r.v11 then 5 else 4)

/-- `writeNormalizedCharBig` + the writer's handling of an unrepresentable character -/
def bigChar (r : RenderCfg) (c : Nat) : Str :=
  if r.v11 && c = 0x2028 then charRef c
  else if c > r.maxChar then charRef c else [c]

/-- one character of `writeCharacters` -/
def contentChar (r : RenderCfg) (c : Nat) : Str :=
  if inRange r c then bigChar r c
  else if !contentSpecial r c then [c]
  else match defaultEntity c with
    | some e => e
    | none => if c = 10 then [10] else charRef c

/-- one character of `writeAttrString` -/
def attrChar (r : RenderCfg) (c : Nat) : Str :=
  if inRange r c then bigChar r c
  else if !attrSpecial r c then [c]
  else match defaultEntity c with
    | some e => e
    | none => if c = 34 then s "&quot;" else charRef c

/-- `writeCDATAChars` (FormatterToXMLUnicode.hpp 710-783) with the writer's `writeCDATAChar`
(XalanOtherEncodingWriter.hpp 126-199; the UTF-8/16 writers represent everything), as written; `outside` is
`outsideCDATA`.  A `]]>` is split over two sections; a character the encoding cannot represent closes the section
and is written as a numeric reference outside it, the next representable character re-opens a section.
With `cdataRepaired = false` this is the unrepaired source: after an unrepresentable character a following `]]>` writes
the *close* string, and a text that ends outside a section writes the *open* string and no close. -/
def cdataCharsEnc (r : RenderCfg) : Str → Bool → Str
  | 93 :: 93 :: 62 :: rest, outside =>
    (if outside then (if r.cdataRepaired then s "<![CDATA[" else s "]]>") else []) ++ s "]]]]><![CDATA[>"
      ++ cdataCharsEnc r rest false
  | c :: rest, outside =>
    if c = 10 then 10 :: cdataCharsEnc r rest outside
    else if r.cdataRefs && (c = 13 || (r.v11 && (charRefForbidden r c || c = 0x85 || c = 0x2028))) then
      -- leave the section for a reference; `outsideCDATA` is not changed
      (if outside then [] else s "]]>") ++ charRef c ++ (if outside then [] else s "<![CDATA[") ++ cdataCharsEnc r rest outside
    else if c ≤ r.maxChar then (if outside then s "<![CDATA[" else []) ++ c :: cdataCharsEnc r rest false
    else (if outside then [] else s "]]>") ++ charRef c ++ cdataCharsEnc r rest true
  | [], outside => if outside then (if r.cdataRepaired then [] else s "<![CDATA[") else s "]]>"

/-- the bulk `write(chars, n)` of the writers as `charactersRaw` uses it: the UTF-8/UTF-16 writers represent every
character (units stay units here, the check decodes the bytes); XalanOtherEncodingWriter writes a numeric reference
for a character the encoding cannot represent — for the scalar value of a surrogate pair when `pairs`, else (the
unrepaired source) one reference per code unit -/
def rawChars (pairs : Bool) (maxc : Nat) : Str → Str
  | [] => []
  | c :: rest =>
    if c ≤ maxc || maxc ≥ 0x10FFFF then c :: rawChars pairs maxc rest
    else
      match rest with
      | d :: rest' =>
        if pairs && 0xD800 ≤ c && c ≤ 0xDBFF && 0xDC00 ≤ d && d ≤ 0xDFFF then
          charRef (((c - 0xD800) <<< 10) + d - 0xDC00 + 0x10000) ++ rawChars pairs maxc rest'
        else charRef c ++ rawChars pairs maxc (d :: rest')
      | [] => charRef c
termination_by us => us.length
decreasing_by all_goals (simp_wf; try omega)

def isXMLWhitespace (c : Nat) : Bool := c = 32 || c = 9 || c = 10 || c = 13

def renderAttrs (r : RenderCfg) : List (Str × Str) → Str
  | [] => []
  | (n, v) :: rest => s " " ++ n ++ s "=\"" ++ v.flatMap (attrChar r) ++ s "\"" ++ renderAttrs r rest

def Tok.render (r : RenderCfg) : Tok → Str
  | .xmlDecl v e sa =>
    s "<?xml version=\"" ++ v ++ s "\" encoding=\"" ++ e ++ s "\""
      ++ (if sa.isEmpty then [] else s " standalone=\"" ++ sa ++ s "\"") ++ s "?>"
  | .doctype name pub sys =>
    s "<!DOCTYPE " ++ name
      ++ (if pub.isEmpty then s " SYSTEM \"" else s " PUBLIC \"" ++ pub ++ s "\" \"")
      ++ sys ++ s "\">"
  | .hnl => [10]
  | .open name attrs => s "<" ++ name ++ renderAttrs r attrs
  | .gt => s ">"
  | .emptyEnd sp => (if sp then s " " else []) ++ s "/>"
  | .close name => s "</" ++ name ++ s ">"
  | .text t => t.flatMap (contentChar r)
  | .cdata t => s "<![CDATA[" ++ cdataCharsEnc r t false
  | .raw t => rawChars r.otherBulkPairs r.maxChar t
  | .comment t => s "<!--" ++ t ++ s "-->"
  | .pi t d =>
    s "<?" ++ t ++ (match d with
      | [] => []
      | c :: _ => if isXMLWhitespace c then [] else s " ") ++ d ++ s "?>"
  | .nl => [10]
  | .ws n => List.replicate n 32

/-- `throwIfNotACharacter` and the writers' surrogate handling: a string of UTF-16 code units the XML serializer
accepts — surrogates only in well-formed pairs, no U+FFFE, U+FFFF, NUL -/
def validUnits : Str → Bool
  | [] => true
  | c :: rest =>
    if 0xD800 ≤ c && c ≤ 0xDBFF then
      match rest with
      | d :: rest' => 0xDC00 ≤ d && d ≤ 0xDFFF && validUnits rest'
      | [] => false
    else if 0xDC00 ≤ c && c ≤ 0xDFFF then false
    else if c = 0xFFFE || c = 0xFFFF || c = 0 then false
    else validUnits rest

/-- every character string of the event is acceptable -/
def Ev.valid : Ev → Bool
  | .startElement _ attrs => attrs.all fun a => validUnits a.2
  | .endElement _ => true
  | .characters t => validUnits t
  | .cdata t => validUnits t
  | .raw _ => true
  | .comment t => validUnits t
  | .pi _ d => validUnits d

/-- strings written through the bulk path or as names: element and attribute names, PI targets, disable-output-escaping
text must be XML characters too -/
def Ev.bulkValid : Ev → Bool
  | .startElement n attrs => validUnits n && attrs.all fun a => validUnits a.1
  | .endElement n => validUnits n
  | .raw t => validUnits t
  | .pi t _ => validUnits t
  | _ => true

/-- the largest scalar value of a well-formed unit string is representable (names, PI targets and data, comments have
no escape: an unrepresentable character is an error) -/
def representable (maxc : Nat) : Str → Bool
  | [] => true
  | c :: rest =>
    if 0xD800 ≤ c && c ≤ 0xDBFF then
      match rest with
      | _ :: rest' => maxc ≥ 0x10FFFF && representable maxc rest'
      | [] => maxc ≥ 0x10FFFF
    else c ≤ maxc && representable maxc rest
termination_by us => us.length
decreasing_by all_goals (simp_wf; try omega)

def Ev.representable (maxc : Nat) : Ev → Bool
  | .startElement n attrs => C08.representable maxc n && attrs.all fun a => C08.representable maxc a.1
  | .endElement n => C08.representable maxc n
  | .comment t => C08.representable maxc t
  | .pi t d => C08.representable maxc t && C08.representable maxc d
  | _ => true

def renderAll (r : RenderCfg) (l : List Tok) : Str := l.flatMap (Tok.render r)

/-- FormatterToText: every `characters`/`cdata`/`charactersRaw` call writes its characters, nothing else is
written (non-CRLF platform). -/
def textMethod : List Ev → Str
  | [] => []
  | .characters t :: r => t ++ textMethod r
  | .cdata t :: r => t ++ textMethod r
  | .raw t :: r => t ++ textMethod r
  | _ :: r => textMethod r

/-- FormatterToText on a stream with output encoding of largest code point `maxc`: with `reports` (repaired source:
`characters` asks `XalanOutputStream::canTranscodeTo` and raises `UnrepresentableCharacterException`) an
unrepresentable character is an error (`none`); without, the transcoder silently substitutes U+001A. -/
def textMethodEnc (reports : Bool) (maxc : Nat) (evs : List Ev) : Option Str :=
  let t := textMethod evs
  if t.all (· ≤ maxc) then some t
  else if reports then none
  else some (t.map fun c => if c ≤ maxc then c else 0x1A)

end XalanModel.C08
