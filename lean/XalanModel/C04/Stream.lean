import XalanModel.Generated.C04_Tables
/-!
# C04 — `XalanOutputStream::write(const XalanDOMChar*, n)` / `flushBuffer(bool)` with the hold-back of half a pair

The stream's buffer takes the runs its client writes (the writers' chunks; for the legacy `FormatterToXML` chunks that
may end between the two halves of a surrogate pair).  When the buffer is flushed because the next run does not fit and
it ends with a leading surrogate, that one unit is *held back* (`fHoldBack`) so that the pair reaches the transcoder in
one call; the buffer may therefore hold `cap + 1` units.  `hb` is the hold-back condition (generated: `streamHoldBack`),
`guard` says that a long run is written directly only when the buffer is empty (generated: `bulkFlushStream`).
Core Lean only.
-/
namespace XalanModel.C04
open XalanModel.Generated.C04

abbrev HoldFn := Bool → Bool → Nat → Nat → Nat → Bool     -- hold asUTF16 last bufLen cap

/-- the condition as intended: hold back whenever asked to, not writing UTF-16 through, last unit a leading surrogate -/
def holdIntended : HoldFn := fun hold asUTF16 last _ _ => hold && !asUTF16 && isLeadUnit last

structure StreamCfg where
  cap : Nat
  asUTF16 : Bool        -- `m_writeAsUTF16`: units go out as they are, no transcoder
  guard : Bool
  hb : HoldFn

structure StreamSt where
  chunks : List (List Nat)     -- `doWrite` calls (= transcoder calls), oldest first
  buf : List Nat
  deriving Repr, DecidableEq

/-- `flushBuffer(fHoldBackSurrogate)` -/
def StreamSt.flush (k : StreamCfg) (hold : Bool) (s : StreamSt) : StreamSt :=
  match s.buf.getLast? with
  | none => s
  | some last =>
    if k.hb hold k.asUTF16 last s.buf.length k.cap then
      { chunks := if s.buf.length - 1 ≠ 0 then s.chunks ++ [s.buf.dropLast] else s.chunks, buf := [last] }
    else { chunks := s.chunks ++ [s.buf], buf := [] }

/-- `write`, first statement: `if (theBufferLength + m_buffer.size() > m_bufferSize) flushBuffer(true);` -/
def StreamSt.pre (k : StreamCfg) (s : StreamSt) (us : List Nat) : StreamSt :=
  if us.length + s.buf.length > k.cap then s.flush k true else s

/-- `write`, the rest: direct `doWrite` of a long run, or insert (and flush again when the run was long) -/
def StreamSt.core (k : StreamCfg) (s1 : StreamSt) (us : List Nat) : StreamSt :=
  if us.length > k.cap ∧ (k.guard = true → s1.buf = []) ∧
      (k.asUTF16 = true ∨ (us.getLast?.map isLeadUnit).getD false = false) then
    { s1 with chunks := s1.chunks ++ [us] }
  else if us.length > k.cap then StreamSt.flush k true { s1 with buf := s1.buf ++ us }
  else { s1 with buf := s1.buf ++ us }

/-- `write(theBuffer, theBufferLength)` -/
def StreamSt.write (k : StreamCfg) (s : StreamSt) (us : List Nat) : StreamSt := (s.pre k us).core k us

def StreamSt.writes (k : StreamCfg) : StreamSt → List (List Nat) → StreamSt
  | s, [] => s
  | s, us :: rest => StreamSt.writes k (s.write k us) rest

/-- all writes, then `flush()` (end of the document): the transcoder calls -/
def streamRun (k : StreamCfg) (ws : List (List Nat)) : List (List Nat) :=
  ((StreamSt.writes k ⟨[], []⟩ ws).flush k false).chunks

def StreamCfg.generated (asUTF16 : Bool) : StreamCfg := ⟨streamBufferSize, asUTF16, bulkFlushStream, streamHoldBack⟩
def StreamCfg.intended (cap : Nat) (asUTF16 : Bool) : StreamCfg := ⟨cap, asUTF16, true, holdIntended⟩

end XalanModel.C04
