import XalanModel.C04.Indent
import XalanModel.C04.TreeProofs
import XalanModel.C04.EscapeProofs
namespace XalanModel.C04

theorem indentItems_off (e : Enc) (s : IndSt) (h : s.on = false) : indentItems e s = .ok [] := by
  unfold indentItems; simp [h, pure, Except.pure]

theorem pteI_eq (e : Enc) (st : List Bool) (s : IndSt) :
    (parentTagEndI e st s).1 = (parentTagEnd e st).1 ∧ (parentTagEndI e st s).2.1 = (parentTagEnd e st).2 ∧
      (parentTagEndI e st s).2.2.on = s.on := by
  cases st with
  | nil => exact ⟨rfl, rfl, rfl⟩
  | cons b t => cases b <;> exact ⟨rfl, rfl, rfl⟩

/-- results agree: same items and element stack, indent state still off; or the same error -/
def AgreeOff (x : Except Err (List Item × List Bool × IndSt)) (y : Except Err (List Item × List Bool)) : Prop :=
  match x, y with
  | .ok (a, st, s), .ok (a', st') => a = a' ∧ st = st' ∧ s.on = false
  | .error e, .error e' => e = e'
  | _, _ => False

theorem stepEventI_off (c : Cfg) (st : List Bool) (s : IndSt) (h : s.on = false) (ev : Event) :
    AgreeOff (stepEventI c st s ev) (stepEvent c st ev) := by
  obtain ⟨p1, p2, p3⟩ := pteI_eq c.enc st s
  have hp : (parentTagEndI c.enc st s).2.2.on = false := by rw [p3]; exact h
  cases ev with
  | startElement name attrs =>
    simp only [stepEventI, stepEvent, indentItems_off c.enc _ (show ({ (parentTagEndI c.enc st s).2.2 with ispreserve := false } : IndSt).on = false from hp),
      bind, Except.bind, pure, Except.pure]
    cases wName c.enc name with
    | error e => simp [AgreeOff]
    | ok n =>
      cases writeAttrs c attrs with
      | error e => simp [AgreeOff]
      | ok a => simp [AgreeOff, p1, p2, hp]
  | endElement name =>
    cases st with
    | nil => simp [stepEventI, stepEvent, AgreeOff, pure, Except.pure, h]
    | cons b t =>
      cases b with
      | false => simp [stepEventI, stepEvent, AgreeOff, pure, Except.pure, h]
      | true =>
        simp only [stepEventI, stepEvent, indentItems_off c.enc _ (show ({ s with cur := s.cur - s.amount } : IndSt).on = false from h),
          bind, Except.bind, pure, Except.pure]
        cases wName c.enc name with
        | error e => simp [AgreeOff]
        | ok n =>
          simp only [AgreeOff, List.nil_append, true_and]
          unfold popPreserve
          cases s.preserves <;> simp [h]
  | characters buf length =>
    by_cases hl : length = 0
    · simp [stepEventI, stepEvent, hl, AgreeOff, pure, Except.pure, h]
    · simp only [stepEventI, stepEvent, hl, ↓reduceIte, bind, Except.bind, pure, Except.pure]
      cases writeCharacters c.ver c.enc (buf.take length) with
      | error e => simp [AgreeOff]
      | ok t => simp [AgreeOff, p1, p2, hp]
  | cdata buf length =>
    by_cases hl : length = 0
    · simp [stepEventI, stepEvent, hl, AgreeOff, pure, Except.pure, h]
    · simp only [stepEventI, stepEvent, hl, ↓reduceIte,
        indentItems_off c.enc _ (show ({ (parentTagEndI c.enc st s).2.2 with ispreserve := true } : IndSt).on = false from hp),
        bind, Except.bind, pure, Except.pure]
      cases writeCDATA c.cdata c.ver c.enc buf length with
      | error e => simp [AgreeOff]
      | ok t => simp [AgreeOff, p1, p2, hp]
  | charactersRaw str =>
    simp only [stepEventI, stepEvent, bind, Except.bind, pure, Except.pure]
    cases wRaw c.enc str with
    | error e => simp [AgreeOff]
    | ok t => simp [AgreeOff, p1, p2, hp]
  | comment data =>
    simp only [stepEventI, stepEvent, indentItems_off c.enc _ hp, bind, Except.bind, pure, Except.pure]
    cases writeNormalizedData c.ver c.enc data with
    | error e => simp [AgreeOff]
    | ok d => simp [AgreeOff, p1, p2, hp]
  | pi target data =>
    simp only [stepEventI, stepEvent, indentItems_off c.enc _ hp, bind, Except.bind, pure, Except.pure]
    cases wName c.enc target with
    | error e => simp [AgreeOff]
    | ok t =>
      cases writeNormalizedData c.ver c.enc data with
      | error e => simp [AgreeOff]
      | ok d => cases data <;> simp [AgreeOff, p1, p2, hp]

theorem runEventsI_off (c : Cfg) (evs : List Event) (st : List Bool) (s : IndSt) (h : s.on = false) :
    runEventsI c evs st s = runEvents c evs st := by
  induction evs generalizing st s with
  | nil => simp [runEventsI, runEvents, indentItems_off c.enc _ (show ({ s with startNewLine := true } : IndSt).on = false from h)]
  | cons ev rest ih =>
    have ha := stepEventI_off c st s h ev
    simp only [runEventsI, runEvents, bind, Except.bind]
    cases hx : stepEventI c st s ev with
    | error e =>
      cases hy : stepEvent c st ev with
      | error e' => rw [hx, hy] at ha; simp [AgreeOff] at ha; simp [ha]
      | ok r => rw [hx, hy] at ha; simp [AgreeOff] at ha
    | ok r =>
      obtain ⟨a, st1, s1⟩ := r
      cases hy : stepEvent c st ev with
      | error e' => rw [hx, hy] at ha; simp [AgreeOff] at ha
      | ok r' =>
        obtain ⟨a', st1'⟩ := r'
        rw [hx, hy] at ha
        simp only [AgreeOff] at ha
        obtain ⟨e1, e2, e3⟩ := ha
        subst e1; subst e2
        simp only [ih st1 s1 e3]


theorem runEventsDI_off (c : Cfg) (evs : List Event) (s : IndSt) (h : s.on = false) :
    runEventsDI c evs s = runEventsD c evs := by
  induction evs generalizing s with
  | nil => simp [runEventsDI, runEventsD, indentItems_off c.enc _ (show ({ s with startNewLine := true } : IndSt).on = false from h)]
  | cons ev rest ih =>
    have key : ∀ (hns : ∀ n a, ev ≠ .startElement n a),
        runEventsDI c (ev :: rest) s = (stepEventI c [] s ev).bind fun r => (runEventsDI c rest r.2.2).bind fun b => pure (r.1 ++ b) := by
      intro hns
      cases ev with
      | startElement n a => exact absurd rfl (hns n a)
      | _ => simp only [runEventsDI, bind, Except.bind]
    have key2 : ∀ (hns : ∀ n a, ev ≠ .startElement n a),
        runEventsD c (ev :: rest) = (stepEvent c [] ev).bind fun r => (runEventsD c rest).bind fun b => pure (r.1 ++ b) := by
      intro hns
      cases ev with
      | startElement n a => exact absurd rfl (hns n a)
      | _ => simp only [runEventsD, bind, Except.bind]
    by_cases hs : ∃ n a, ev = .startElement n a
    · obtain ⟨n, a, rfl⟩ := hs
      simp only [runEventsDI, runEventsD, runEventsI_off c _ [] s h]
    · have hns : ∀ n a, ev ≠ .startElement n a := fun n a e => hs ⟨n, a, e⟩
      rw [key hns, key2 hns]
      have ha := stepEventI_off c [] s h ev
      cases hx : stepEventI c [] s ev with
      | error e =>
        cases hy : stepEvent c [] ev with
        | error e' => rw [hx, hy] at ha; simp [AgreeOff] at ha; simp [Except.bind, ha]
        | ok r => rw [hx, hy] at ha; simp [AgreeOff] at ha
      | ok r =>
        obtain ⟨a, st1, s1⟩ := r
        cases hy : stepEvent c [] ev with
        | error e' => rw [hx, hy] at ha; simp [AgreeOff] at ha
        | ok r' =>
          obtain ⟨a', st1'⟩ := r'
          rw [hx, hy] at ha
          simp only [AgreeOff] at ha
          obtain ⟨e1, _, e3⟩ := ha
          subst e1
          simp only [Except.bind, ih s1 e3]

theorem serializeItemsI_off (c : Cfg) (amount : Nat) (evs : List Event) :
    serializeItemsI c false amount evs = serializeItems c evs := by
  unfold serializeItemsI serializeItems headerI
  simp only [Bool.false_eq_true, false_and, ↓reduceIte, bind, Except.bind, pure, Except.pure]
  rw [runEventsDI_off c evs _ rfl]
  cases writeXMLHeader c with
  | error e => rfl
  | ok h => simp

/-- what `indent()` writes is made of line feeds and spaces, and nothing at all after character data
(`m_isprevtext`) or inside an element that already has character data (`m_ispreserve`) -/
theorem indentItems_ws (e : Enc) (ha : ∀ c, c < 128 → e.canEnc c = true) (s : IndSt) :
    ∃ it, indentItems e s = .ok it ∧ (∀ u ∈ unitsOf it, u = 10 ∨ u = 32) ∧
      ((s.isprevtext = true ∨ s.ispreserve = true ∨ s.on = false) → it = []) := by
  unfold indentItems
  by_cases h : s.on = true ∧ s.ispreserve = false ∧ s.isprevtext = false
  · rw [if_pos h]
    obtain ⟨nl, hnl, hnlu⟩ := wNewline_units e ha
    have hsp : ∀ n : Nat, unitsOf ((List.replicate n 32).flatMap (wChar e)) = List.replicate n 32 :=
      fun n => flatMap_wChar_ascii e ha _ (by intro u hu; simp at hu; omega)
    cases hsn : s.startNewLine with
    | true =>
      simp only [↓reduceIte, hnl, bind, Except.bind, pure, Except.pure]
      refine ⟨_, rfl, ?_, ?_⟩
      · intro u hu; rw [unitsOf_append, hnlu, hsp] at hu; simp at hu; rcases hu with hu | hu; exact Or.inl hu; exact Or.inr hu.2
      · intro hc; rcases hc with hc | hc | hc <;> simp_all
    | false =>
      simp only [Bool.false_eq_true, ↓reduceIte, bind, Except.bind, pure, Except.pure, List.nil_append]
      refine ⟨_, rfl, ?_, ?_⟩
      · intro u hu; rw [hsp] at hu; simp at hu; exact Or.inr hu.2
      · intro hc; rcases hc with hc | hc | hc <;> simp_all
  · rw [if_neg h]
    exact ⟨[], rfl, by intro u hu; simp [unitsOf] at hu, fun _ => rfl⟩

end XalanModel.C04
