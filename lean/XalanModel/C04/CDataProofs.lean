import XalanModel.C04.CDataReaderProofs
import XalanModel.C04.CommentProofs
import XalanModel.C04.ForbiddenProofs
namespace XalanModel.C04
open Spec XalanModel.Generated.C04

theorem cdata_strings (e : Enc) : cdataOpen e = OPEN ∧ cdataClose e = CLOSE := by
  unfold cdataOpen cdataClose
  cases e.kind <;> decide

section eqs
variable (cfg : CDataCfg) (ver : Ver) (e : Enc) (length : Nat)

theorem cdataLoop_skip (c : Nat) (rest : List Nat) (i k : Nat) (o : Bool) :
    cdataLoop cfg ver e length (c :: rest) i (k + 1) o = cdataLoop cfg ver e length rest (i + 1) k o := rfl

theorem cdataLoop_end (c : Nat) (rest : List Nat) (i : Nat) (o : Bool) (h : ¬ i < length) :
    cdataLoop cfg ver e length (c :: rest) i 0 o = .ok ([], o) := by
  unfold cdataLoop; rw [if_neg h]

theorem cdataLoop_triple (c : Nat) (rest : List Nat) (i : Nat) (o o' : Bool) (b : List Item) (hi : i < length)
    (hct : closeTest cfg length c rest i = .ok true)
    (hb : cdataLoop cfg ver e length rest (i + 1) 2 false = .ok (b, o')) :
    cdataLoop cfg ver e length (c :: rest) i 0 o =
      .ok ((if o then wConst e (if cfg.bracketOutsideWritesOpen then cdataOpen e else cdataClose e) else [])
        ++ wChar e 93 ++ wChar e 93 ++ wConst e (cdataClose e) ++ wConst e (cdataOpen e) ++ wChar e 62 ++ b, o') := by
  unfold cdataLoop
  simp only [hi, ↓reduceIte, hct, hb, bind, Except.bind, pure, Except.pure]

theorem cdataLoop_lf (rest : List Nat) (i : Nat) (o o' : Bool) (a b : List Item) (hi : i < length)
    (hct : closeTest cfg length 10 rest i = .ok false) (ha : wNewline e = .ok a)
    (hb : cdataLoop cfg ver e length rest (i + 1) 0 o = .ok (b, o')) :
    cdataLoop cfg ver e length (10 :: rest) i 0 o = .ok (a ++ b, o') := by
  unfold cdataLoop
  simp only [hi, ↓reduceIte, hct, ha, hb, bind, Except.bind, pure, Except.pure, Bool.false_eq_true]

theorem cdataLoop_ref (c : Nat) (rest : List Nat) (i : Nat) (o o' : Bool) (ncr b : List Item) (hi : i < length)
    (hct : closeTest cfg length c rest i = .ok false) (h10 : c ≠ 10)
    (href : e.fx.cdataRef = true ∧ (c = 13 ∨ (ver = .v11 ∧ (pCharRefForbidden ver c = true ∨ c = 0x85 ∨ c = 0x2028))))
    (hn : fNCR e c = .ok ncr)
    (hb : cdataLoop cfg ver e length rest (i + 1) 0 o = .ok (b, o')) :
    cdataLoop cfg ver e length (c :: rest) i 0 o =
      .ok ((if o then [] else wConst e (cdataClose e)) ++ ncr ++ (if o then [] else wConst e (cdataOpen e)) ++ b, o') := by
  unfold cdataLoop
  simp only [hi, ↓reduceIte, hct, h10, href, hn, hb, bind, Except.bind, pure, Except.pure, Bool.false_eq_true, and_self]

theorem cdataLoop_char (c : Nat) (rest : List Nat) (i : Nat) (o o1 o' two : Bool) (it b : List Item) (hi : i < length)
    (hct : closeTest cfg length c rest i = .ok false) (h10 : c ≠ 10)
    (href : ¬ (e.fx.cdataRef = true ∧ (c = 13 ∨ (ver = .v11 ∧ (pCharRefForbidden ver c = true ∨ c = 0x85 ∨ c = 0x2028)))))
    (hf : pCharRefForbidden ver c = false) (hok : notCharCheck e c = .ok ())
    (hw : wCDATAChar e c (rest.take (length - (i + 1))) o = .ok (it, two, o1))
    (hb : cdataLoop cfg ver e length rest (i + 1) (if two then 1 else 0) o1 = .ok (b, o')) :
    cdataLoop cfg ver e length (c :: rest) i 0 o = .ok (it ++ b, o') := by
  unfold cdataLoop
  simp only [hi, ↓reduceIte, hct, h10, bind, Except.bind, pure, Except.pure, Bool.false_eq_true]
  rw [if_neg href]
  simp only [hf, hok, hw, hb, Bool.false_eq_true, ↓reduceIte]

end eqs


theorem enc_head (d : Nat) (hs : IsScalar d) :
    ∃ u t, utf16EncodeOne d = u :: t ∧ (∀ k, k < 0xD800 → (u = k ↔ d = k)) := by
  obtain ⟨h1, h2⟩ := hs
  unfold utf16EncodeOne
  by_cases hb : d < 0x10000
  · rw [if_pos hb]; exact ⟨d, [], rfl, fun k _ => Iff.rfl⟩
  · rw [if_neg hb]
    exact ⟨_, _, rfl, fun k hk => ⟨fun e => by omega, fun e => by omega⟩⟩

/-- the "]]>" test of the code, on the UTF-16 form of a character string followed by its terminator -/
theorem closeTest_eval (cfg : CDataCfg) (length c i : Nat) (rs : List Nat)
    (hg : ∀ i n, i < n → n < 18446744073709551616 → cfg.guard i n = decide (n - i > 2))
    (hlen : length < 18446744073709551616) (hL : length = i + 1 + (utf16Encode rs).length)
    (hrs : ∀ d ∈ rs, IsScalar d) :
    closeTest cfg length c (utf16Encode rs ++ [0]) i = .ok (decide (c = 93 ∧ rs.take 2 = [93, 62])) := by
  unfold closeTest
  by_cases hc : c = 93
  · have hgi := hg i length (by omega) hlen
    cases rs with
    | nil =>
      have : cfg.guard i length = false := by rw [hgi]; simp [utf16Encode] at hL; simp; omega
      simp [hc, this, pure, Except.pure]
    | cons d rs' =>
      obtain ⟨u, t, hu, huk⟩ := enc_head d (hrs d (by simp))
      have hE : utf16Encode (d :: rs') = u :: (t ++ utf16Encode rs') := by simp [utf16Encode, hu]
      rw [hE] at hL ⊢
      simp only [List.cons_append, List.length_cons, List.length_append] at hL
      by_cases hgd : cfg.guard i length = true
      · simp only [hc, hgd, and_self, ↓reduceIte, peek, List.getElem?_cons_zero, bind, Except.bind]
        by_cases hu93 : u = 93
        · have hd93 : d = 93 := (huk 93 (by omega)).mp hu93
          have ht : t = [] := by
            subst hd93; unfold utf16EncodeOne at hu; simp at hu; exact hu.2
          subst ht
          simp only [hu93, ↓reduceIte, List.nil_append, List.getElem?_cons_succ]
          cases rs' with
          | nil =>
            rw [hgi] at hgd; simp [utf16Encode] at hL hgd; omega
          | cons d2 r =>
            obtain ⟨u2, t2, hu2, hu2k⟩ := enc_head d2 (hrs d2 (by simp))
            have hE2 : utf16Encode (d2 :: r) = u2 :: (t2 ++ utf16Encode r) := by simp [utf16Encode, hu2]
            rw [hE2]
            simp only [List.cons_append, List.getElem?_cons_zero, pure, Except.pure, hd93, List.take_succ_cons,
              List.take_zero]
            have := hu2k 62 (by omega)
            by_cases h62 : u2 = 62
            · simp [h62, this.mp h62]
            · have : d2 ≠ 62 := fun e => h62 (this.mpr e)
              simp [h62, this]
        · have hd93 : d ≠ 93 := fun e => hu93 ((huk 93 (by omega)).mpr e)
          simp [hu93, hd93, pure, Except.pure]
      · have hgf : cfg.guard i length = false := by
          cases h : cfg.guard i length with
          | false => rfl
          | true => exact absurd h hgd
        have hrs' : rs' = [] ∧ t = [] := by
          rw [hgi] at hgf; simp at hgf
          constructor
          · cases rs' with
            | nil => rfl
            | cons d2 r =>
              obtain ⟨u2, t2, hu2, _⟩ := enc_head d2 (hrs d2 (by simp))
              simp [utf16Encode, hu2] at hL; omega
          · cases t with
            | nil => rfl
            | cons a b => simp at hL; omega
        simp [hc, hgf, pure, Except.pure, hrs'.1]
  · simp [hc, pure, Except.pure]


theorem closeTest_ne (cfg : CDataCfg) (length c i : Nat) (rest : List Nat) (h : c ≠ 93) :
    closeTest cfg length c rest i = .ok false := by
  unfold closeTest; simp [h, pure, Except.pure]

theorem pCRF_v10 (c : Nat) : pCharRefForbidden .v10 c = pForbidden .v10 c := by
  simp [pCharRefForbidden, pForbidden, isCharRefForbiddenTestV10, isForbiddenTestV10]

/-- a legal character that is not written as a reference is not "forbidden" for the CDATA writer -/
theorem pCRF_false_of (ver : Ver) (c : Nat) (hl : legalChar ver c = true)
    (href : ¬ (c = 13 ∨ (ver = .v11 ∧ (pCharRefForbidden ver c = true ∨ c = 0x85 ∨ c = 0x2028)))) :
    pCharRefForbidden ver c = false := by
  cases hx : pCharRefForbidden ver c with
  | false => rfl
  | true =>
    cases ver with
    | v11 => exact absurd (Or.inr ⟨rfl, Or.inl hx⟩) href
    | v10 =>
      rw [pCRF_v10] at hx
      have hle := forbidden_small .v10 c hx
      have := table_forbidden .v10 (by simp) c (by have := lastSpecial_lt .v10; simp; omega) hle hx
      rw [hl] at this; cases this

/-! equations of the character-level writer -/

theorem absCD_triple (ver : Ver) (ce : Nat → Bool) (rest : List Nat) (o o' : Bool) (b : List Nat)
    (ht : rest.take 2 = [93, 62]) (hb : absCD ver ce rest 2 false = .ok (b, o')) :
    absCD ver ce (93 :: rest) 0 o = .ok ((if o then OPEN else []) ++ [93, 93] ++ CLOSE ++ OPEN ++ [62] ++ b, o') := by
  unfold absCD
  simp only [ht, and_self, ↓reduceIte, hb, bind, Except.bind, pure, Except.pure]

theorem absCD_lf (ver : Ver) (ce : Nat → Bool) (rest : List Nat) (o o' : Bool) (b : List Nat)
    (hb : absCD ver ce rest 0 o = .ok (b, o')) :
    absCD ver ce (10 :: rest) 0 o = .ok (10 :: b, o') := by
  unfold absCD
  simp only [hb, bind, Except.bind, pure, Except.pure]
  simp

theorem absCD_ref (ver : Ver) (ce : Nat → Bool) (c : Nat) (rest : List Nat) (o o' : Bool) (b : List Nat)
    (ht : ¬ (c = 93 ∧ rest.take 2 = [93, 62])) (h10 : c ≠ 10)
    (href : c = 13 ∨ (ver = .v11 ∧ (pCharRefForbidden ver c = true ∨ c = 0x85 ∨ c = 0x2028)))
    (hb : absCD ver ce rest 0 o = .ok (b, o')) :
    absCD ver ce (c :: rest) 0 o = .ok ((if o then ncrText c else CLOSE ++ ncrText c ++ OPEN) ++ b, o') := by
  unfold absCD
  rw [if_neg ht, if_neg h10, if_pos href]
  simp only [hb, bind, Except.bind, pure, Except.pure]

theorem absCD_char (ver : Ver) (ce : Nat → Bool) (c : Nat) (rest : List Nat) (o o' : Bool) (b : List Nat)
    (ht : ¬ (c = 93 ∧ rest.take 2 = [93, 62])) (h10 : c ≠ 10)
    (href : ¬ (c = 13 ∨ (ver = .v11 ∧ (pCharRefForbidden ver c = true ∨ c = 0x85 ∨ c = 0x2028))))
    (hf : pCharRefForbidden ver c = false)
    (hb : absCD ver ce rest 0 (!ce c) = .ok (b, o')) :
    absCD ver ce (c :: rest) 0 o =
      .ok ((if ce c then (if o then OPEN else []) ++ [c] else (if o then [] else CLOSE) ++ ncrText c) ++ b, o') := by
  unfold absCD
  rw [if_neg ht, if_neg h10, if_neg href]
  simp only [hf, Bool.false_eq_true, ↓reduceIte]
  cases hce : ce c with
  | true => simp only [hce, Bool.not_true] at hb; simp only [↓reduceIte, hb, bind, Except.bind, pure, Except.pure]
  | false => simp only [hce, Bool.not_false] at hb; simp only [Bool.false_eq_true, ↓reduceIte, hb, bind, Except.bind, pure, Except.pure]

theorem otherScalar_units (v : Nat) (hs : IsScalar v) : unitsOf (otherScalar v) = utf16EncodeOne v := by
  obtain ⟨h1, h2⟩ := hs
  unfold otherScalar utf16EncodeOne
  by_cases hb : v < 0x10000
  · have : ¬ (v > 0xFFFF) := by omega
    simp [this, hb, unitsOf, Item.units]
  · have : v > 0xFFFF := by omega
    have e1 : v / 1024 + 0xD7C0 = 0xD800 + (v - 0x10000) / 1024 := by omega
    have e2 : v % 1024 + 0xDC00 = 0xDC00 + (v - 0x10000) % 1024 := by omega
    simp only [this, ↓reduceIte, hb, unitsOf, List.flatMap_cons, List.flatMap_nil, Item.units, List.append_nil, e1, e2]

theorem wCDATAChar_other (e : Enc) (ha : AsciiOk e) (hk : e.kind = .other) (u : Nat) (R : List Nat) (v : Nat)
    (two o : Bool) (hd : decodeHead u R = .ok (v, two)) (hs : IsScalar v) :
    ∃ it, wCDATAChar e u R o = .ok (it, two, !e.canEnc v) ∧
      unitsOf it = encodeOut .other
        (if e.canEnc v then (if o then OPEN else []) ++ [v] else (if o then [] else CLOSE) ++ ncrText v) := by
  obtain ⟨hO, hC⟩ := cdata_strings e
  have hOa : Ascii OPEN := by intro u hu; simp [OPEN] at hu; omega
  have hCa : Ascii CLOSE := by intro u hu; simp [CLOSE] at hu; omega
  have hsc := otherScalar_units v hs
  have hfo := flatMap_otherChar_ascii e ha OPEN hOa
  have hfc := flatMap_otherChar_ascii e ha CLOSE hCa
  have hncr : unitsOf (otherNCR v) = ncrText v := by simp [otherNCR, unitsOf, Item.units, ncrText]
  have hsingle : encodeOut .other [v] = utf16EncodeOne v := by rw [encodeOut_single]
  unfold wCDATAChar
  simp only [hk, hd, bind, Except.bind, pure, Except.pure, hO, hC]
  cases hce : e.canEnc v with
  | true =>
    cases o with
    | false =>
      refine ⟨otherScalar v, by simp, ?_⟩
      simp only [↓reduceIte, Bool.false_eq_true, List.nil_append, hsc, hsingle]
    | true =>
      refine ⟨OPEN.flatMap (otherChar e) ++ otherScalar v, by simp, ?_⟩
      simp only [↓reduceIte, unitsOf_append, hfo, hsc, encodeOut_append, encodeOut_ascii _ _ hOa, hsingle]
  | false =>
    cases o with
    | false =>
      refine ⟨CLOSE.flatMap (otherChar e) ++ otherNCR v, by simp, ?_⟩
      simp only [Bool.false_eq_true, ↓reduceIte, unitsOf_append, hfc, hncr, encodeOut_append, encodeOut_ascii _ _ hCa,
        encodeOut_ascii _ _ (ncrText_ascii v)]
    | true =>
      refine ⟨otherNCR v, by simp, ?_⟩
      simp only [Bool.false_eq_true, ↓reduceIte, List.nil_append, hncr, encodeOut_ascii _ _ (ncrText_ascii v)]

/-- what `writeCDATAChar` writes for one character, for every writer -/
theorem wCDATAChar_spec (e : Enc) (ha : AsciiOk e) (hp : e.fx.utf16Pairs = true) (c : Nat) (hs : IsScalar c)
    (R : List Nat) (o : Bool) (hko : e.kind ≠ .other → o = false) :
    ∃ hd tl it, utf16EncodeOne c = hd :: tl ∧
      wCDATAChar e hd (tl ++ R) o = .ok (it, decide (tl ≠ []), !canEncOf e c) ∧
      unitsOf it = encodeOut e.kind
        (if canEncOf e c then (if o then OPEN else []) ++ [c] else (if o then [] else CLOSE) ++ ncrText c) := by
  by_cases hb : c < 0x10000
  · have h16 : utf16EncodeOne c = [c] := ((decodeHead_utf16Encode c R hs).1 hb).1
    have hd := ((decodeHead_utf16Encode c R hs).1 hb).2
    refine ⟨c, [], ?_⟩
    simp only [List.nil_append, ne_eq, not_true_eq_false, decide_false]
    by_cases hk : e.kind = .other
    · have hcc : canEncOf e c = e.canEnc c := by simp [canEncOf, hk]
      obtain ⟨it, h1, h2⟩ := wCDATAChar_other e ha hk c R c false o hd hs
      exact ⟨it, h16, by rw [hcc]; exact h1, by rw [hcc, hk]; exact h2⟩
    · have ho := hko hk; subst ho
      have hce : canEncOf e c = true := by unfold canEncOf; cases hkk : e.kind <;> simp_all
      obtain ⟨it, hit, hu⟩ := wCP_enc_bmp e false c R hs hb hce
      refine ⟨it, h16, ?_, ?_⟩
      · unfold wCDATAChar
        cases hkk : e.kind with
        | other => exact absurd hkk hk
        | utf8 => simp only [hit, bind, Except.bind, pure, Except.pure, hce, Bool.not_true]
        | utf16 => simp only [hit, bind, Except.bind, pure, Except.pure, hce, Bool.not_true]
      · simp only [hce, ↓reduceIte, Bool.false_eq_true, List.nil_append]; exact hu
  · have hge : 0x10000 ≤ c := by omega
    have h16 := ((decodeHead_utf16Encode c R hs).2 hge).1
    have hd := ((decodeHead_utf16Encode c R hs).2 hge).2
    refine ⟨0xD800 + (c - 0x10000) / 1024, [0xDC00 + (c - 0x10000) % 1024], ?_⟩
    by_cases hk : e.kind = .other
    · have hcc : canEncOf e c = e.canEnc c := by simp [canEncOf, hk]
      obtain ⟨it, h1, h2⟩ := wCDATAChar_other e ha hk _ _ c true o hd hs
      refine ⟨it, h16, ?_, by rw [hcc, hk]; exact h2⟩
      rw [hcc]; simp only [List.cons_append, List.nil_append, ne_eq, reduceCtorEq, not_false_eq_true, decide_true]
      exact h1
    · have ho := hko hk; subst ho
      have hce : canEncOf e c = true := by unfold canEncOf; cases hkk : e.kind <;> simp_all
      obtain ⟨hs1, hs2⟩ := hs
      obtain ⟨it, hit, hu⟩ := wCP_enc_two e false (Or.inr hp) c _ _ R ⟨hs1, hs2⟩ (by omega) hd h16 (by omega) (by omega) hce
      refine ⟨it, h16, ?_, ?_⟩
      · simp only [List.cons_append, List.nil_append, ne_eq, reduceCtorEq, not_false_eq_true, decide_true]
        unfold wCDATAChar
        cases hkk : e.kind with
        | other => exact absurd hkk hk
        | utf8 => simp only [hit, bind, Except.bind, pure, Except.pure, hce, Bool.not_true]
        | utf16 => simp only [hit, bind, Except.bind, pure, Except.pure, hce, Bool.not_true]
      · simp only [hce, ↓reduceIte, Bool.false_eq_true, List.nil_append]; exact hu


def SkipOk (skip : Nat) (l : List Nat) : Prop :=
  skip = 0 ∨ (skip = 1 ∧ ∃ r, l = 62 :: r) ∨ (skip = 2 ∧ ∃ r, l = 93 :: 62 :: r)

/-- what the theorems below need to know about the CDATA code of the working tree -/
structure CDHyp (cfg : CDataCfg) (e : Enc) : Prop where
  hg : ∀ i n, i < n → n < 18446744073709551616 → cfg.guard i n = decide (n - i > 2)
  hopen : cfg.bracketOutsideWritesOpen = true
  hnoreopen : cfg.reopenAtEnd = false
  hclose : cfg.closeOnlyIfInside = true
  hr : e.fx.cdataRef = true
  hp : e.fx.utf16Pairs = true
  ha : AsciiOk e

theorem enc_cons (c : Nat) (l : List Nat) : utf16Encode (c :: l) = utf16EncodeOne c ++ utf16Encode l := by
  simp [utf16Encode]

theorem cdataLoop_refines (cfg : CDataCfg) (ver : Ver) (e : Enc) (H : CDHyp cfg e) (length : Nat)
    (hlen : length < 18446744073709551616) :
    ∀ (l : List Nat) (skip i : Nat) (o : Bool),
      (∀ c ∈ l, legalChar ver c = true) → SkipOk skip l → length = i + (utf16Encode l).length →
      (e.kind ≠ .other → o = false) →
      ∃ items out o', cdataLoop cfg ver e length (utf16Encode l ++ [0]) i skip o = .ok (items, o') ∧
        absCD ver (canEncOf e) l skip o = .ok (out, o') ∧ unitsOf items = encodeOut e.kind out := by
  obtain ⟨hO, hC⟩ := cdata_strings e
  have hOa : Ascii OPEN := by intro u hu; simp [OPEN] at hu; omega
  have hCa : Ascii CLOSE := by intro u hu; simp [CLOSE] at hu; omega
  have ha := H.ha
  intro l
  induction l with
  | nil =>
    intro skip i o _ _ hL _
    simp only [utf16Encode, List.flatMap_nil, List.length_nil, Nat.add_zero, List.nil_append] at hL ⊢
    refine ⟨[], [], o, ?_, by cases skip <;> rfl, by cases e.kind <;> rfl⟩
    cases skip with
    | succ k => rfl
    | zero => exact cdataLoop_end cfg ver e length 0 [] i o (by omega)
  | cons c rest ih =>
    intro skip i o hleg hsk hL hko
    have hlegr : ∀ x ∈ rest, legalChar ver x = true := fun x hx => hleg x (by simp [hx])
    have hlc := hleg c (by simp)
    have hs := legal_scalar ver c hlc
    have hsr : ∀ d ∈ rest, IsScalar d := fun d hd => legal_scalar ver d (hlegr d hd)
    rw [enc_cons] at hL ⊢
    cases skip with
    | succ k =>
      -- a character already consumed by the "]]>" split: it is `]` or `>`
      have hc : c = 93 ∨ c = 62 := by
        rcases hsk with h | ⟨h, r, hr⟩ | ⟨h, r, hr⟩
        · cases h
        · injection hr with h1 _; exact Or.inr h1
        · injection hr with h1 _; exact Or.inl h1
      have h16 : utf16EncodeOne c = [c] := by
        unfold utf16EncodeOne; rw [if_pos (by rcases hc with h | h <;> omega)]
      have hsk' : SkipOk k rest := by
        rcases hsk with h | ⟨h, r, hr⟩ | ⟨h, r, hr⟩
        · cases h
        · left; omega
        · right; left; injection hr with _ h2; exact ⟨by omega, _, h2⟩
      rw [h16] at hL ⊢
      simp only [List.cons_append, List.nil_append, List.length_cons, List.length_nil] at hL ⊢
      obtain ⟨items, out, o', h1, h2, h3⟩ := ih k (i + 1) o hlegr hsk' (by omega) hko
      exact ⟨items, out, o', by rw [cdataLoop_skip]; exact h1, by simp only [absCD]; exact h2, h3⟩
    | zero =>
      obtain ⟨hd, tl, it, hE, hw, hwu⟩ := wCDATAChar_spec e ha H.hp c hs (utf16Encode rest) o hko
      rw [hE] at hL ⊢
      simp only [List.cons_append, List.length_cons, List.length_append] at hL ⊢
      have hi : i < length := by omega
      by_cases hb : c < 0x10000
      · -- a character of the BMP: one code unit
        have h16 : utf16EncodeOne c = [c] := ((decodeHead_utf16Encode c [] hs).1 hb).1
        rw [h16] at hE; injection hE with e1 e2; subst e1; subst e2
        simp only [List.nil_append, List.length_nil, Nat.zero_add] at hL hw ⊢
        have hct := closeTest_eval cfg length c i rest H.hg hlen (by omega) hsr
        by_cases ht : c = 93 ∧ rest.take 2 = [93, 62]
        · -- "]]>"
          obtain ⟨hc93, htk⟩ := ht
          subst hc93
          have hrest : ∃ r, rest = 93 :: 62 :: r := by
            match rest, htk with
            | a :: b2 :: r, h2 => simp at h2; obtain ⟨rfl, rfl⟩ := h2; exact ⟨r, rfl⟩
          obtain ⟨items, out, o', h1, h2, h3⟩ := ih 2 (i + 1) false hlegr (Or.inr (Or.inr ⟨rfl, hrest⟩)) (by omega) (fun _ => rfl)
          have hct' : closeTest cfg length 93 (utf16Encode rest ++ [0]) i = .ok true := by rw [hct]; simp [htk]
          refine ⟨_, _, o', cdataLoop_triple cfg ver e length 93 _ i o o' items hi hct' h1,
            absCD_triple ver _ rest o o' out htk h2, ?_⟩
          simp only [H.hopen, ↓reduceIte, hO, hC, unitsOf_append, wChar_ascii e ha 93 (by omega), wChar_ascii e ha 62 (by omega),
            wConst_ascii e ha _ hOa, wConst_ascii e ha _ hCa, h3]
          have e1 : unitsOf (if o = true then wConst e OPEN else []) = (if o = true then OPEN else []) := by
            cases o <;> simp [wConst_ascii e ha _ hOa]
          have hA : Ascii ((if o = true then OPEN else []) ++ [93, 93] ++ CLOSE ++ OPEN ++ [62]) := by
            cases o <;> (intro u hu; simp [OPEN, CLOSE] at hu; omega)
          rw [e1, encodeOut_append, encodeOut_ascii _ _ hA]
          simp
        · have hct' : closeTest cfg length c (utf16Encode rest ++ [0]) i = .ok false := by rw [hct]; simp [ht]
          by_cases h10 : c = 10
          · subst h10
            obtain ⟨items, out, o', h1, h2, h3⟩ := ih 0 (i + 1) o hlegr (Or.inl rfl) (by omega) hko
            obtain ⟨a, haa, hau⟩ := wNewline_units e ha
            refine ⟨_, _, o', cdataLoop_lf cfg ver e length _ i o o' a items hi hct' haa h1, absCD_lf ver _ rest o o' out h2, ?_⟩
            rw [unitsOf_append, hau, h3]
            have : (10 :: out) = [10] ++ out := rfl
            rw [this, encodeOut_append, encodeOut_ascii _ [10] (by intro u hu; simp at hu; omega)]
          · by_cases href : c = 13 ∨ (ver = .v11 ∧ (pCharRefForbidden ver c = true ∨ c = 0x85 ∨ c = 0x2028))
            · obtain ⟨items, out, o', h1, h2, h3⟩ := ih 0 (i + 1) o hlegr (Or.inl rfl) (by omega) hko
              obtain ⟨ncr, hn, hnu⟩ := fNCR_units e ha c
              refine ⟨_, _, o', cdataLoop_ref cfg ver e length c _ i o o' ncr items hi hct' h10 ⟨H.hr, href⟩ hn h1,
                absCD_ref ver _ c rest o o' out ht h10 href h2, ?_⟩
              have hA : Ascii (if o = true then ncrText c else CLOSE ++ ncrText c ++ OPEN) := by
                cases o
                · intro u hu
                  simp only [Bool.false_eq_true, ↓reduceIte, List.mem_append] at hu
                  rcases hu with (hu | hu) | hu
                  · exact hCa u hu
                  · exact ncrText_ascii c u hu
                  · exact hOa u hu
                · simpa using ncrText_ascii c
              rw [encodeOut_append, encodeOut_ascii _ _ hA, ← h3]
              cases o <;> simp [unitsOf_append, hnu, hO, hC, wConst_ascii e ha _ hOa, wConst_ascii e ha _ hCa]
            · have hf := pCRF_false_of ver c hlc href
              have hokc : notCharCheck e c = .ok () := by
                obtain ⟨q1, q2⟩ := hs
                refine notCharCheck_ok e c (by simp [isLow]; omega) ?_ ?_
                · intro e0; subst e0; cases ver <;> simp [legalChar] at hlc
                · cases ver <;> simp [legalChar] at hlc <;> omega
              have hko' : e.kind ≠ .other → (!canEncOf e c) = false := by
                intro hk; unfold canEncOf; cases hkk : e.kind <;> simp_all
              obtain ⟨items, out, o', h1, h2, h3⟩ := ih 0 (i + 1) (!canEncOf e c) hlegr (Or.inl rfl) (by omega) hko'
              have htake : (utf16Encode rest ++ [0]).take (length - (i + 1)) = utf16Encode rest := by
                have : length - (i + 1) = (utf16Encode rest).length := by omega
                rw [this]; simp
              have hw' : wCDATAChar e c ((utf16Encode rest ++ [0]).take (length - (i + 1))) o
                  = .ok (it, false, !canEncOf e c) := by rw [htake]; simpa using hw
              refine ⟨_, _, o', cdataLoop_char cfg ver e length c _ i o _ o' false it items hi hct' h10
                  (fun h => href h.2) hf hokc hw' (by simpa using h1),
                absCD_char ver _ c rest o o' out ht h10 href hf h2, ?_⟩
              rw [unitsOf_append, hwu, h3, encodeOut_append]
      · -- a supplementary character: a surrogate pair
        have hge : 0x10000 ≤ c := by omega
        have h16 := ((decodeHead_utf16Encode c [] hs).2 hge).1
        rw [h16] at hE; injection hE with e1 e2; subst e1; subst e2
        obtain ⟨hs1, hs2⟩ := hs
        have h160 := lastSpecial_lt ver
        simp only [List.cons_append, List.nil_append, List.length_cons, List.length_nil] at hL hw ⊢
        have hct' := closeTest_ne cfg length (0xD800 + (c - 0x10000) / 1024) i
          ((0xDC00 + (c - 0x10000) % 1024) :: (utf16Encode rest ++ [0])) (by omega)
        have hfhi : pCharRefForbidden ver (0xD800 + (c - 0x10000) / 1024) = false := by
          unfold pCharRefForbidden; rw [if_pos (by omega)]
        have hfc : pCharRefForbidden ver c = false := by
          unfold pCharRefForbidden; rw [if_pos (by omega)]
        have hrefhi : ¬ (e.fx.cdataRef = true ∧ ((0xD800 + (c - 0x10000) / 1024) = 13 ∨ (ver = .v11 ∧
            (pCharRefForbidden ver (0xD800 + (c - 0x10000) / 1024) = true ∨ (0xD800 + (c - 0x10000) / 1024) = 0x85 ∨
              (0xD800 + (c - 0x10000) / 1024) = 0x2028)))) := by
          rw [hfhi]; intro ⟨_, h⟩; rcases h with h | ⟨_, h | h | h⟩ <;> first | omega | cases h
        have hrefc : ¬ (c = 13 ∨ (ver = .v11 ∧ (pCharRefForbidden ver c = true ∨ c = 0x85 ∨ c = 0x2028))) := by
          rw [hfc]; intro h; rcases h with h | ⟨_, h | h | h⟩ <;> first | omega | cases h
        have hokhi : notCharCheck e (0xD800 + (c - 0x10000) / 1024) = .ok () :=
          notCharCheck_ok e _ (by simp [isLow]; omega) (by omega) (by omega)
        have hko' : e.kind ≠ .other → (!canEncOf e c) = false := by
          intro hk; unfold canEncOf; cases hkk : e.kind <;> simp_all
        obtain ⟨items, out, o', h1, h2, h3⟩ := ih 0 (i + 2) (!canEncOf e c) hlegr (Or.inl rfl) (by omega) hko'
        have htake : ((0xDC00 + (c - 0x10000) % 1024) :: (utf16Encode rest ++ [0])).take (length - (i + 1))
            = (0xDC00 + (c - 0x10000) % 1024) :: utf16Encode rest := by
          have : length - (i + 1) = (utf16Encode rest).length + 1 := by omega
          rw [this]; simp
        have hw' : wCDATAChar e (0xD800 + (c - 0x10000) / 1024)
            (((0xDC00 + (c - 0x10000) % 1024) :: (utf16Encode rest ++ [0])).take (length - (i + 1))) o
            = .ok (it, true, !canEncOf e c) := by rw [htake]; simpa using hw
        have hb2 : cdataLoop cfg ver e length ((0xDC00 + (c - 0x10000) % 1024) :: (utf16Encode rest ++ [0])) (i + 1)
            (if true = true then 1 else 0) (!canEncOf e c) = .ok (items, o') := by
          simp only [↓reduceIte]; rw [cdataLoop_skip]; exact h1
        refine ⟨_, _, o', cdataLoop_char cfg ver e length _ _ i o _ o' true it items hi hct' (by omega) hrefhi hfhi hokhi hw' hb2,
          absCD_char ver _ c rest o o' out (fun h => by omega) (by omega) hrefc hfc h2, ?_⟩
        rw [unitsOf_append, hwu, h3, encodeOut_append]

end XalanModel.C04
