import XalanModel.C04.EscapeProofs
namespace XalanModel.C04
open Spec XalanModel.Generated.C04

theorem table_forbidden_special : ∀ ver ∈ [Ver.v10, Ver.v11], ∀ c ∈ List.range 160,
    pForbidden ver c = true → pContent ver c = true ∧ pAttribute ver c = true ∧
      c ≠ 60 ∧ c ≠ 62 ∧ c ≠ 38 ∧ c ≠ 34 ∧ c ≠ 10 := by
  decide +kernel

theorem forbidden_small (ver : Ver) (c : Nat) (h : pForbidden ver c = true) : c ≤ lastSpecial ver := by
  unfold pForbidden at h
  by_cases hc : c > lastSpecial ver
  · rw [if_pos hc] at h; cases h
  · omega

theorem decodeHead_two (c : Nat) (rest : List Nat) (v : Nat) (h : decodeHead c rest = .ok (v, true)) :
    ∃ l r, rest = l :: r ∧ isLow l = true := by
  unfold decodeHead at h
  by_cases hh : isHigh c = false
  · rw [if_pos hh] at h; injection h with h; injection h with _ h2; cases h2
  · rw [if_neg hh] at h
    cases rest with
    | nil => cases h
    | cons l r =>
      simp only at h
      by_cases hl : isLow l = false
      · rw [if_pos hl] at h; cases h
      · exact ⟨l, r, rfl, by cases hx : isLow l <;> simp_all⟩

theorem wCP_two (e : Enc) (thr : Bool) (c : Nat) (rest : List Nat) (it : List Item)
    (h : wCP e thr c rest = .ok (it, true)) : ∃ l r, rest = l :: r ∧ isLow l = true := by
  unfold wCP at h
  cases hk : e.kind with
  | utf16 =>
    rw [hk] at h
    simp only at h
    cases hf : e.fx.utf16Pairs with
    | false => rw [hf] at h; simp only [Bool.false_eq_true, ↓reduceIte] at h; injection h with h; injection h with _ h2; cases h2
    | true =>
      rw [hf] at h
      simp only [↓reduceIte, bind, Except.bind] at h
      cases hd : decodeHead c rest with
      | error er => rw [hd] at h; cases h
      | ok p =>
        obtain ⟨v, two⟩ := p
        rw [hd] at h
        simp only at h
        cases two with
        | true => exact decodeHead_two c rest v hd
        | false => simp only [pure, Except.pure] at h; injection h with h; injection h with _ h2; cases h2
  | utf8 =>
    rw [hk] at h
    simp only [bind, Except.bind] at h
    cases hd : decodeHead c rest with
    | error er => rw [hd] at h; cases h
    | ok p =>
      obtain ⟨v, two⟩ := p
      rw [hd] at h
      simp only at h
      cases hs : utf8Scalar v with
      | error er => rw [hs] at h; cases h
      | ok a =>
        rw [hs] at h
        simp only [pure, Except.pure] at h
        injection h with h; injection h with _ h2
        subst h2
        exact decodeHead_two c rest v hd
  | other =>
    rw [hk] at h
    simp only [bind, Except.bind] at h
    cases hd : decodeHead c rest with
    | error er => rw [hd] at h; cases h
    | ok p =>
      obtain ⟨v, two⟩ := p
      rw [hd] at h
      simp only at h
      have : two = true := by
        by_cases hc : e.canEnc v = true
        · rw [if_pos hc] at h; simp only [pure, Except.pure] at h; injection h with h; injection h with _ h2
        · rw [if_neg hc] at h
          by_cases ht : thr = true
          · rw [if_pos ht] at h; cases h
          · rw [if_neg ht] at h; simp only [pure, Except.pure] at h; injection h with h; injection h with _ h2
      subst this
      exact decodeHead_two c rest v hd

theorem wNCB_two (ver : Ver) (e : Enc) (c : Nat) (rest : List Nat) (it : List Item)
    (h : writeNormalizedCharBig ver e c rest = .ok (it, true)) : ∃ l r, rest = l :: r ∧ isLow l = true := by
  unfold writeNormalizedCharBig at h
  simp only [bind, Except.bind] at h
  cases hn : notCharCheck e c with
  | error er => rw [hn] at h; cases h
  | ok u =>
    rw [hn] at h
    simp only at h
    by_cases h28 : ver = .v11 ∧ c = 0x2028
    · rw [if_pos h28] at h
      cases hf : fNCR e c with
      | error er => rw [hf] at h; cases h
      | ok a => rw [hf] at h; simp only [pure, Except.pure] at h; injection h with h; injection h with _ h2; cases h2
    · rw [if_neg h28] at h; exact wCP_two e false c rest it h

theorem escLoop_forbidden (ver : Ver) (e : Enc) (sp : Nat → Bool) (esc : Nat → Out)
    (hspF : ∀ c, pForbidden ver c = true → sp c = true)
    (hescF : ∀ c, pForbidden ver c = true → ∃ er, esc c = .error er)
    (s : List Nat) (sk : Bool) (pend : List Nat)
    (hsk : sk = true → ∀ c rest, s = c :: rest → isLow c = true)
    (hf : ∃ c ∈ s, pForbidden ver c = true) :
    ∃ er, escLoop ver e sp esc s sk pend = .error er := by
  have hlowNF : ∀ c, isLow c = true → pForbidden ver c = false := by
    intro c hl
    cases hfb : pForbidden ver c with
    | false => rfl
    | true =>
      have h1 := forbidden_small ver c hfb
      have h2 := lastSpecial_lt ver
      simp [isLow] at hl; omega
  induction s generalizing sk pend with
  | nil => obtain ⟨c, hc, _⟩ := hf; simp at hc
  | cons c rest ih =>
    obtain ⟨x, hx, hxf⟩ := hf
    cases sk with
    | true =>
      rw [escLoop_skip]
      have hcl := hsk rfl c rest rfl
      have hcnf := hlowNF c hcl
      have hxr : x ∈ rest := by
        rcases List.mem_cons.mp hx with h | h
        · subst h; rw [hxf] at hcnf; cases hcnf
        · exact h
      exact ih false pend (fun h => by cases h) ⟨x, hxr, hxf⟩
    | false =>
      by_cases hr : pRange ver c = true
      · have hcnf : pForbidden ver c = false := by
          cases hfb : pForbidden ver c with
          | false => rfl
          | true => have := forbidden_small ver c hfb; simp [pRange] at hr; omega
        have hxr : x ∈ rest := by
          rcases List.mem_cons.mp hx with h | h
          · subst h; rw [hxf] at hcnf; cases hcnf
          · exact h
        unfold escLoop
        simp only [hr, ↓reduceIte, bind, Except.bind]
        cases hw : writeNormalizedCharBig ver e c rest with
        | error er => exact ⟨er, rfl⟩
        | ok p =>
          obtain ⟨it, two⟩ := p
          simp only
          have hsk' : two = true → ∀ c' r', rest = c' :: r' → isLow c' = true := by
            intro ht c' r' hr'
            subst ht
            obtain ⟨l, r, h1, h2⟩ := wNCB_two ver e c rest it hw
            rw [h1] at hr'; injection hr' with e1 _; subst e1; exact h2
          obtain ⟨er, her⟩ := ih two [] hsk' ⟨x, hxr, hxf⟩
          exact ⟨er, by rw [her]⟩
      · have hr' : pRange ver c = false := by cases h : pRange ver c <;> simp_all
        by_cases hspc : sp c = false
        · have hcnf : pForbidden ver c = false := by
            cases hfb : pForbidden ver c with
            | false => rfl
            | true => have := hspF c hfb; rw [hspc] at this; cases this
          have hxr : x ∈ rest := by
            rcases List.mem_cons.mp hx with h | h
            · subst h; rw [hxf] at hcnf; cases hcnf
            · exact h
          rw [escLoop_plain ver e sp esc c rest pend hr' hspc]
          exact ih false (pend ++ [c]) (fun h => by cases h) ⟨x, hxr, hxf⟩
        · have hspt : sp c = true := by
            cases h : sp c with
            | false => exact absurd h hspc
            | true => rfl
          unfold escLoop
          simp only [hr', hspt, ↓reduceIte, Bool.false_eq_true, Bool.true_eq_false, bind, Except.bind]
          cases he : esc c with
          | error er => exact ⟨er, rfl⟩
          | ok it =>
            simp only
            have hcnf : pForbidden ver c = false := by
              cases hfb : pForbidden ver c with
              | false => rfl
              | true => obtain ⟨er, her⟩ := hescF c hfb; rw [he] at her; cases her
            have hxr : x ∈ rest := by
              rcases List.mem_cons.mp hx with h | h
              · subst h; rw [hxf] at hcnf; cases hcnf
              · exact h
            obtain ⟨er, her⟩ := ih false [] (fun h => by cases h) ⟨x, hxr, hxf⟩
            exact ⟨er, by rw [her]⟩

theorem escape_content_forbidden (ver : Ver) (e : Enc) (c : Nat) (h : pForbidden ver c = true) :
    ∃ er, writeDefaultEscape ver e c = .error er := by
  have hver : ver ∈ [Ver.v10, Ver.v11] := by cases ver <;> simp
  have hle := forbidden_small ver c h
  have hc160 : c ∈ List.range 160 := by have := lastSpecial_lt ver; simp; omega
  obtain ⟨_, _, h60, h62, h38, _, h10⟩ := table_forbidden_special ver hver c hc160 h
  unfold writeDefaultEscape defaultEntity
  simp only [h60, h62, h38, h10, ↓reduceIte, h]
  exact ⟨_, rfl⟩

theorem escape_attr_forbidden (ver : Ver) (e : Enc) (c : Nat) (h : pForbidden ver c = true) :
    ∃ er, writeDefaultAttributeEscape ver e c = .error er := by
  have hver : ver ∈ [Ver.v10, Ver.v11] := by cases ver <;> simp
  have hle := forbidden_small ver c h
  have hc160 : c ∈ List.range 160 := by have := lastSpecial_lt ver; simp; omega
  obtain ⟨_, _, h60, h62, h38, h34, _⟩ := table_forbidden_special ver hver c hc160 h
  unfold writeDefaultAttributeEscape defaultAttrEntity defaultEntity
  simp only [h60, h62, h38, h34, ↓reduceIte, h]
  exact ⟨_, rfl⟩

theorem forbidden_content_special (ver : Ver) (c : Nat) (h : pForbidden ver c = true) :
    pContent ver c = true ∧ pAttribute ver c = true := by
  have hver : ver ∈ [Ver.v10, Ver.v11] := by cases ver <;> simp
  have hle := forbidden_small ver c h
  have hc160 : c ∈ List.range 160 := by have := lastSpecial_lt ver; simp; omega
  obtain ⟨a, b, _⟩ := table_forbidden_special ver hver c hc160 h
  exact ⟨a, b⟩

end XalanModel.C04
