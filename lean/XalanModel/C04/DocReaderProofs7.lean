import XalanModel.C04.DocReaderProofs6
namespace XalanModel.C04
open Spec XalanModel.Generated.C04

theorem all_silent_nil (ver : Ver) (kids : List XNode) (hok : RKidsOk ver kids) (h : kids.all silent = true) : kids = [] := by
  cases kids with
  | nil => rfl
  | cons k ks =>
    simp only [List.all_cons, Bool.and_eq_true] at h
    simp only [RKidsOk] at hok
    have hk := hok.1
    cases k with
    | text s => simp only [RTreeOk] at hk; simp only [silent] at h; cases s <;> simp_all
    | cdata s => simp only [RTreeOk] at hk; simp only [silent] at h; cases s <;> simp_all
    | elem n a kk => simp [silent] at h
    | comment s => simp [silent] at h
    | pi t d => simp [silent] at h

/-- an element, positioned after its `<` -/
theorem readElem_abs (ver : Ver) (ce : Nat → Bool) (xhtml : Bool) (n : List Nat) (a : List (List Nat × List Nat))
    (kids : List XNode) (hks : KidsRd ver ce xhtml kids) (hok : RTreeOk ver (.elem n a kids)) (out : List Nat)
    (h : absNode ver ce xhtml (.elem n a kids) = .ok out) (rest : List Nat) (f : Nat) (hf : out.length ≤ f) :
    ∃ out', out = 60 :: out' ∧ readElem ver f (out' ++ rest) = some (norm (.elem n a kids), rest) := by
  simp only [RTreeOk] at hok
  obtain ⟨hn, hattrs, hkids⟩ := hok
  obtain ⟨c0, t0, hE, hc0, h47, h33, h63⟩ := name_head ver n hn
  have hnE : n.isEmpty = false := by rw [hE]; rfl
  simp only [absNode, bind, Except.bind] at h
  cases ha : absAttrs ver ce a with
  | error e => rw [ha] at h; cases h
  | ok aa =>
    rw [ha] at h
    cases hk : absKids ver ce xhtml kids with
    | error e => rw [hk] at h; cases h
    | ok kk =>
      rw [hk] at h
      simp only at h
      by_cases hall : kids.all silent = true
      · have hkn := all_silent_nil ver kids hkids hall
        subst hkn
        rw [if_pos hall] at h; simp only [pure, Except.pure] at h; injection h with h; subst h
        refine ⟨n ++ aa ++ (if xhtml = true then [32] else []) ++ [47, 62], by simp, ?_⟩
        simp only [List.length_append, List.length_cons, List.length_nil] at hf
        obtain ⟨d, rfl⟩ := Nat.exists_eq_add_of_le (show 1 ≤ f by omega)
        have e1 : 1 + d = d + 1 := by omega
        rw [e1]
        cases hx : xhtml with
        | false =>
          have hL : n ++ aa ++ (if false = true then [32] else []) ++ [47, 62] ++ rest = n ++ (aa ++ (47 :: 62 :: rest)) := by simp
          rw [hL]
          have hfirst : nameCh ver ((aa ++ (47 :: 62 :: rest)).head!) = false ∧ (aa ++ 47 :: 62 :: rest) ≠ [] := by
            cases a with
            | nil => simp only [absAttrs] at ha; injection ha with ha; subst ha; exact ⟨nameCh_delim ver 47 (by simp), by simp⟩
            | cons p a' =>
              obtain ⟨pn, pv⟩ := p
              obtain ⟨vv, r, _, _, rfl⟩ := absAttrs_inv ver ce pn pv a' aa ha
              exact ⟨nameCh_delim ver 32 (by simp), by simp⟩
          obtain ⟨x0, xs, hx0⟩ : ∃ x0 xs, aa ++ 47 :: 62 :: rest = x0 :: xs := by
            cases hq : aa ++ 47 :: 62 :: rest with
            | nil => exact absurd hq hfirst.2
            | cons x0 xs => exact ⟨x0, xs, rfl⟩
          have hx0d : nameCh ver x0 = false := by have := hfirst.1; rw [hx0] at this; exact this
          rw [hx0]
          have hsp := span_name ver n x0 xs hn.2 hx0d
          rw [readElem]
          simp only [hsp.1, hsp.2, hnE, Bool.false_eq_true, ↓reduceIte]
          rw [← hx0, readAttrs_abs ver ce a hattrs aa ha (47 :: 62 :: rest) (Or.inl (by simp)) d (by rw [hx] at hf; simp at hf; omega)]
          simp [norm, normL]
        | true =>
          have hL : n ++ aa ++ (if true = true then [32] else []) ++ [47, 62] ++ rest = n ++ (aa ++ (32 :: 47 :: 62 :: rest)) := by simp
          rw [hL]
          have hfirst : nameCh ver ((aa ++ (32 :: 47 :: 62 :: rest)).head!) = false ∧ (aa ++ 32 :: 47 :: 62 :: rest) ≠ [] := by
            cases a with
            | nil => simp only [absAttrs] at ha; injection ha with ha; subst ha; exact ⟨nameCh_delim ver 32 (by simp), by simp⟩
            | cons p a' =>
              obtain ⟨pn, pv⟩ := p
              obtain ⟨vv, r, _, _, rfl⟩ := absAttrs_inv ver ce pn pv a' aa ha
              exact ⟨nameCh_delim ver 32 (by simp), by simp⟩
          obtain ⟨x0, xs, hx0⟩ : ∃ x0 xs, aa ++ 32 :: 47 :: 62 :: rest = x0 :: xs := by
            cases hq : aa ++ 32 :: 47 :: 62 :: rest with
            | nil => exact absurd hq hfirst.2
            | cons x0 xs => exact ⟨x0, xs, rfl⟩
          have hx0d : nameCh ver x0 = false := by have := hfirst.1; rw [hx0] at this; exact this
          rw [hx0]
          have hsp := span_name ver n x0 xs hn.2 hx0d
          rw [readElem]
          simp only [hsp.1, hsp.2, hnE, Bool.false_eq_true, ↓reduceIte]
          rw [← hx0, readAttrs_abs ver ce a hattrs aa ha (32 :: 47 :: 62 :: rest) (Or.inr (by simp)) d (by rw [hx] at hf; simp at hf; omega)]
          simp [norm, normL]
      · rw [if_neg hall] at h; simp only [pure, Except.pure] at h; injection h with h; subst h
        have hkne : kids ≠ [] := by intro e; subst e; simp at hall
        refine ⟨n ++ aa ++ [62] ++ kk ++ [60, 47] ++ n ++ [62], by simp, ?_⟩
        simp only [List.length_append, List.length_cons, List.length_nil] at hf
        obtain ⟨d, rfl⟩ := Nat.exists_eq_add_of_le (show 1 ≤ f by omega)
        have e1 : 1 + d = d + 1 := by omega
        rw [e1]
        have hL : n ++ aa ++ [62] ++ kk ++ [60, 47] ++ n ++ [62] ++ rest
            = n ++ (aa ++ (62 :: (kk ++ 60 :: 47 :: (n ++ 62 :: rest)))) := by simp
        rw [hL]
        have hfirst : nameCh ver ((aa ++ (62 :: (kk ++ 60 :: 47 :: (n ++ 62 :: rest)))).head!) = false ∧
            (aa ++ (62 :: (kk ++ 60 :: 47 :: (n ++ 62 :: rest)))) ≠ [] := by
          cases a with
          | nil => simp only [absAttrs] at ha; injection ha with ha; subst ha; exact ⟨nameCh_delim ver 62 (by simp), by simp⟩
          | cons p a' =>
            obtain ⟨pn, pv⟩ := p
            obtain ⟨vv, r, _, _, rfl⟩ := absAttrs_inv ver ce pn pv a' aa ha
            exact ⟨nameCh_delim ver 32 (by simp), by simp⟩
        obtain ⟨x0, xs, hx0⟩ : ∃ x0 xs, aa ++ (62 :: (kk ++ 60 :: 47 :: (n ++ 62 :: rest))) = x0 :: xs := by
          cases hq : aa ++ (62 :: (kk ++ 60 :: 47 :: (n ++ 62 :: rest))) with
          | nil => exact absurd hq hfirst.2
          | cons x0 xs => exact ⟨x0, xs, rfl⟩
        have hx0d : nameCh ver x0 = false := by have := hfirst.1; rw [hx0] at this; exact this
        rw [hx0]
        have hsp := span_name ver n x0 xs hn.2 hx0d
        rw [readElem]
        simp only [hsp.1, hsp.2, hnE, Bool.false_eq_true, ↓reduceIte]
        rw [← hx0, readAttrs_abs ver ce a hattrs aa ha (62 :: (kk ++ 60 :: 47 :: (n ++ 62 :: rest))) (Or.inl (by simp)) d (by omega)]
        have hkr := hks hkids kk hk (n ++ 62 :: rest) d (by omega)
        have hsp2 := span_name ver n 62 rest hn.2 (nameCh_delim ver 62 (by simp))
        have hnl : (normL kids).isEmpty = false := by
          cases kids with
          | nil => exact absurd rfl hkne
          | cons k ks => simp [normL]
        have t1 : ((62 :: (kk ++ 60 :: 47 :: (n ++ 62 :: rest))).take 2 = [47, 62]) = False := by
          cases kk <;> simp
        have t2 : ((62 :: (kk ++ 60 :: 47 :: (n ++ 62 :: rest))).take 3 = [32, 47, 62]) = False := by
          cases kk with
          | nil => simp
          | cons k1 k2 => cases k2 <;> simp
        simp only [t1, t2, ↓reduceIte, List.head?_cons, List.tail_cons, hkr, hsp2.1, hsp2.2, hnl, Bool.not_false, and_self, norm]

end XalanModel.C04
