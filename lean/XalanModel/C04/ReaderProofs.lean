import XalanModel.C04.Model
import XalanModel.C04.Spec
namespace XalanModel.C04
open Spec XalanModel.Generated.C04

/-! ## decimal references -/

def decVal (ds : List Nat) (acc : Nat) : Nat := ds.foldl (fun a d => a * 10 + (d - 48)) acc

theorem decVal_append (a : List Nat) (d acc : Nat) : decVal (a ++ [d]) acc = decVal a acc * 10 + (d - 48) := by
  simp [decVal, List.foldl_append]

def allDigits (ds : List Nat) : Prop := ∀ d ∈ ds, 48 ≤ d ∧ d ≤ 57

theorem readDec_digits (ds : List Nat) (rest : List Nat) (acc : Nat) (seen : Bool) (hd : allDigits ds)
    (hs : seen = true ∨ ds ≠ []) :
    readDec (ds ++ 59 :: rest) acc seen = some (decVal ds acc, rest) := by
  induction ds generalizing acc seen with
  | nil =>
    cases hs with
    | inl h => subst h; simp [readDec, decVal]
    | inr h => exact absurd rfl h
  | cons d t ih =>
    have hdd := hd d (by simp)
    simp only [List.cons_append, readDec]
    rw [if_neg (by omega), if_pos hdd]
    rw [ih _ true (fun x hx => hd x (by simp [hx])) (Or.inl rfl)]
    simp [decVal]

theorem decDigitsF_spec (f v : Nat) (h : v ≤ f) :
    allDigits (decDigitsF f v) ∧ decDigitsF f v ≠ [] ∧ decVal (decDigitsF f v) 0 = v := by
  induction f generalizing v with
  | zero =>
    have : v = 0 := by omega
    subst this
    refine ⟨?_, by simp [decDigitsF], by simp [decDigitsF, decVal]⟩
    intro d hd; simp [decDigitsF] at hd; omega
  | succ f ih =>
    unfold decDigitsF
    by_cases h10 : v < 10
    · rw [if_pos h10]
      refine ⟨?_, by simp, by simp [decVal]⟩
      intro d hd; simp at hd; omega
    · rw [if_neg h10]
      obtain ⟨a1, a2, a3⟩ := ih (v / 10) (by omega)
      refine ⟨?_, by simp, ?_⟩
      · intro d hd
        rcases List.mem_append.mp hd with h | h
        · exact a1 d h
        · simp at h; omega
      · rw [decVal_append, a3]; omega

theorem readRef_ncr (c : Nat) (rest : List Nat) :
    readRef (35 :: (decDigits c ++ 59 :: rest)) = some (c, rest) := by
  obtain ⟨a1, a2, a3⟩ := decDigitsF_spec c c (Nat.le_refl _)
  simp only [readRef]
  rw [decDigits, readDec_digits _ _ _ _ a1 (Or.inr a2), a3]

theorem readOne_ncr (ver : Ver) (attr : Bool) (c : Nat) (rest : List Nat) (hl : legalChar ver c = true) :
    readOne ver attr (ncrText c ++ rest) = some (c, rest) := by
  have : ncrText c ++ rest = 38 :: 35 :: (decDigits c ++ 59 :: rest) := by simp [ncrText]
  rw [this]
  simp only [readOne, ↓reduceIte, readRef_ncr, hl]

/-! ## table facts (complete finite checks over the generated tables) -/

theorem table_raw : ∀ ver ∈ [Ver.v10, Ver.v11], ∀ attr ∈ [true, false], ∀ c ∈ List.range 160,
    c ≤ lastSpecial ver → (if attr then pAttribute ver c else pContent ver c) = false →
    legalChar ver c = true → rawSelf ver attr c = true := by
  decide +kernel

theorem table_forbidden : ∀ ver ∈ [Ver.v10, Ver.v11], ∀ c ∈ List.range 160,
    c ≤ lastSpecial ver → pForbidden ver c = true → legalChar ver c = false := by
  decide +kernel

theorem lastSpecial_lt (ver : Ver) : lastSpecial ver < 160 := by
  cases ver <;> decide

theorem lastSpecial_ge (ver : Ver) : 127 ≤ lastSpecial ver := by
  cases ver <;> decide

theorem lastSpecial_v11 : lastSpecial .v11 = 159 := by decide

/-! ## the reader inverts the escaping, character by character -/

theorem readOne_absEsc (ver : Ver) (canEnc : Nat → Bool) (attr : Bool) (c : Nat) (hl : legalChar ver c = true) :
    ∃ out, absEsc ver canEnc attr c = .ok out ∧ 1 ≤ out.length ∧
      ∀ rest, readOne ver attr (out ++ rest) = some (c, rest) := by
  have hver : ver ∈ [Ver.v10, Ver.v11] := by cases ver <;> simp
  have hattr : attr ∈ [true, false] := by cases attr <;> simp
  unfold absEsc
  by_cases hr : c > lastSpecial ver
  · rw [if_pos hr]
    have hraw : ¬ (ver = .v11 ∧ c = 0x2028) → rawSelf ver attr c = true := by
      intro hn
      have h127 := lastSpecial_ge ver
      cases ver with
      | v10 =>
        simp only [rawSelf, hl, Bool.true_and]
        have : (decide (Ver.v10 = Ver.v11)) = false := by decide
        simp [this]; omega
      | v11 =>
        have h159 : 159 < c := by rw [lastSpecial_v11] at hr; exact hr
        have hne : c ≠ 0x2028 := fun e => hn ⟨rfl, e⟩
        simp only [rawSelf, hl, Bool.true_and, restricted11]
        simp; omega
    by_cases h28 : ver = .v11 ∧ c = 0x2028
    · rw [if_pos h28]
      exact ⟨_, rfl, by simp [ncrText], fun rest => readOne_ncr ver attr c rest hl⟩
    · rw [if_neg h28]
      by_cases hc : canEnc c = true
      · rw [if_pos hc]
        refine ⟨_, rfl, by simp, fun rest => ?_⟩
        have hne : c ≠ 38 := by have := lastSpecial_ge ver; omega
        simp only [List.cons_append, List.nil_append, readOne]
        rw [if_neg hne, if_pos (hraw h28)]
      · rw [if_neg hc]
        exact ⟨_, rfl, by simp [ncrText], fun rest => readOne_ncr ver attr c rest hl⟩
  · rw [if_neg hr]
    have hle : c ≤ lastSpecial ver := by omega
    have hc160 : c ∈ List.range 160 := by have := lastSpecial_lt ver; simp; omega
    by_cases hsp : (if attr then pAttribute ver c else pContent ver c) = false
    · rw [if_pos hsp]
      have hraw := table_raw ver hver attr hattr c hc160 hle hsp hl
      refine ⟨_, rfl, by simp, fun rest => ?_⟩
      have hne : c ≠ 38 := by
        intro e; subst e
        cases ver <;> cases attr <;> simp [rawSelf] at hraw
      simp only [List.cons_append, List.nil_append, readOne]
      rw [if_neg hne, if_pos hraw]
    · rw [if_neg hsp]
      by_cases h60 : c = 60
      · subst h60
        refine ⟨_, by rw [if_pos rfl], by simp, fun rest => ?_⟩
        cases ver <;> simp [readOne, readRef, legalChar]
      · rw [if_neg h60]
        by_cases h62 : c = 62
        · subst h62
          refine ⟨_, by rw [if_pos rfl], by simp, fun rest => ?_⟩
          cases ver <;> simp [readOne, readRef, legalChar]
        · rw [if_neg h62]
          by_cases h38 : c = 38
          · subst h38
            refine ⟨_, by rw [if_pos rfl], by simp, fun rest => ?_⟩
            cases ver <;> simp [readOne, readRef, legalChar]
          · rw [if_neg h38]
            by_cases h34 : attr = true ∧ c = 34
            · obtain ⟨ha, hc34⟩ := h34
              subst hc34
              refine ⟨_, by rw [if_pos ⟨ha, rfl⟩], by simp, fun rest => ?_⟩
              cases ver <;> simp [readOne, readRef, legalChar]
            · rw [if_neg h34]
              by_cases h10 : attr = false ∧ c = 10
              · obtain ⟨ha, hc10⟩ := h10
                subst hc10; subst ha
                refine ⟨_, by rw [if_pos ⟨rfl, rfl⟩], by simp, fun rest => ?_⟩
                cases ver <;> simp [readOne, rawSelf, legalChar, restricted11]
              · rw [if_neg h10]
                by_cases hf : pForbidden ver c = true
                · have := table_forbidden ver hver c hc160 hle hf
                  rw [hl] at this; cases this
                · rw [if_neg hf]
                  exact ⟨_, rfl, by simp [ncrText], fun rest => readOne_ncr ver attr c rest hl⟩

theorem readAllF_cons (ver : Ver) (attr : Bool) (c : Nat) (p rest : List Nat) (f : Nat) (h1 : 1 ≤ p.length)
    (hd : readOne ver attr (p ++ rest) = some (c, rest)) :
    readAllF ver attr (f + 1) (p ++ rest) = (readAllF ver attr f rest).map (c :: ·) := by
  cases p with
  | nil => simp at h1
  | cons b t =>
    simp only [List.cons_append] at hd ⊢
    simp only [readAllF, hd]

/-- the reader inverts the character-level escaping of a whole string -/
theorem readAll_absEscAll (ver : Ver) (canEnc : Nat → Bool) (attr : Bool) (cs : List Nat)
    (hl : ∀ c ∈ cs, legalChar ver c = true) :
    ∃ out, absEscAll ver canEnc attr cs = .ok out ∧ readAll ver attr out = some cs := by
  suffices H : ∃ out, absEscAll ver canEnc attr cs = .ok out ∧
      ∀ f, out.length ≤ f → readAllF ver attr f out = some cs by
    obtain ⟨out, h1, h2⟩ := H
    exact ⟨out, h1, h2 _ (Nat.le_refl _)⟩
  induction cs with
  | nil => exact ⟨[], rfl, fun f _ => by cases f <;> rfl⟩
  | cons c cs ih =>
    obtain ⟨b, hb, hdec⟩ := ih (fun x hx => hl x (by simp [hx]))
    obtain ⟨a, ha, hlen, hone⟩ := readOne_absEsc ver canEnc attr c (hl c (by simp))
    refine ⟨a ++ b, by simp [absEscAll, ha, hb]; rfl, ?_⟩
    intro f hf
    rw [List.length_append] at hf
    cases f with
    | zero => omega
    | succ f =>
      rw [readAllF_cons ver attr c a b f hlen (hone b), hdec f (by omega)]
      rfl

end XalanModel.C04
