import XalanModel.C04.DocReaderProofs5
namespace XalanModel.C04
open Spec XalanModel.Generated.C04

def KidsRd (ver : Ver) (ce : Nat → Bool) (xhtml : Bool) (ks : List XNode) : Prop :=
  RKidsOk ver ks → ∀ out, absKids ver ce xhtml ks = .ok out → ∀ rest f, out.length + 1 ≤ f →
    readKids ver f (out ++ 60 :: 47 :: rest) = some (normL ks, rest)

theorem absKids_inv (ver : Ver) (ce : Nat → Bool) (xhtml : Bool) (k : XNode) (ks : List XNode) (out : List Nat)
    (h : absKids ver ce xhtml (k :: ks) = .ok out) :
    ∃ a b, absNode ver ce xhtml k = .ok a ∧ absKids ver ce xhtml ks = .ok b ∧ out = a ++ b := by
  simp only [absKids, bind, Except.bind] at h
  cases ha : absNode ver ce xhtml k with
  | error e => rw [ha] at h; cases h
  | ok a =>
    rw [ha] at h
    cases hb : absKids ver ce xhtml ks with
    | error e => rw [hb] at h; cases h
    | ok b => rw [hb] at h; simp only [pure, Except.pure] at h; injection h with h; exact ⟨a, b, rfl, rfl, h.symm⟩

/-- what a non-character-data node is written as starts with markup that is not a CDATA section;
every node writes at least one character -/
theorem absNode_start (ver : Ver) (ce : Nat → Bool) (xhtml : Bool) (k : XNode) (hok : RTreeOk ver k) (out : List Nat)
    (h : absNode ver ce xhtml k = .ok out) :
    out ≠ [] ∧ (textLike k = false → ∀ more, StopTail (out ++ more)) := by
  cases k with
  | text s =>
    simp only [RTreeOk] at hok
    obtain ⟨c, cs, rfl⟩ : ∃ c cs, s = c :: cs := by
      cases s with
      | nil => exact absurd rfl hok.1
      | cons a b => exact ⟨a, b, rfl⟩
    simp only [absNode, List.isEmpty_cons, Bool.false_eq_true, ↓reduceIte] at h
    obtain ⟨a, b, ha, _, rfl⟩ := absEscAll_inv ver ce false c cs out h
    obtain ⟨hd, t, hE, _, _⟩ := absEsc_head ver ce false c a ha
    subst hE
    exact ⟨by simp, fun hh => by simp [textLike] at hh⟩
  | cdata s =>
    simp only [RTreeOk] at hok
    obtain ⟨c, cs, rfl⟩ : ∃ c cs, s = c :: cs := by
      cases s with
      | nil => exact absurd rfl hok.1
      | cons a b => exact ⟨a, b, rfl⟩
    simp only [absNode, List.isEmpty_cons, Bool.false_eq_true, ↓reduceIte, absCDATA, bind, Except.bind] at h
    cases hb : absCD ver ce (c :: cs) 0 false with
    | error e => rw [hb] at h; cases h
    | ok p =>
      rw [hb] at h; simp only [pure, Except.pure] at h; injection h with h; subst h
      exact ⟨by simp [OPEN], fun hh => by simp [textLike] at hh⟩
  | comment s =>
    simp only [absNode, pure, Except.pure] at h; injection h with h; subst h
    refine ⟨by simp, fun _ more => Or.inr ⟨by simp, by simp [OPEN]⟩⟩
  | pi t d =>
    simp only [absNode, pure, Except.pure] at h; injection h with h; subst h
    refine ⟨by simp, fun _ more => Or.inr ⟨by simp, by simp [OPEN]⟩⟩
  | elem n a kids =>
    simp only [RTreeOk] at hok
    obtain ⟨c0, t0, hE, _, _, h33, _⟩ := name_head ver n hok.1
    simp only [absNode, bind, Except.bind] at h
    cases ha : absAttrs ver ce a with
    | error e => rw [ha] at h; cases h
    | ok aa =>
      rw [ha] at h
      cases hk : absKids ver ce xhtml kids with
      | error e => rw [hk] at h; cases h
      | ok kk =>
        rw [hk] at h
        simp only at h
        subst hE
        by_cases hall : kids.all silent = true
        · rw [if_pos hall] at h; simp only [pure, Except.pure] at h; injection h with h; subst h
          refine ⟨by simp, fun _ more => Or.inr ⟨by simp, ?_⟩⟩
          simp [OPEN]; intro e; exact absurd e h33
        · rw [if_neg hall] at h; simp only [pure, Except.pure] at h; injection h with h; subst h
          refine ⟨by simp, fun _ more => Or.inr ⟨by simp, ?_⟩⟩
          simp [OPEN]; intro e; exact absurd e h33

theorem kids_nil_rd (ver : Ver) (ce : Nat → Bool) (xhtml : Bool) : KidsRd ver ce xhtml [] := by
  intro _ out h rest f hf
  simp only [absKids, pure, Except.pure] at h; injection h with h; subst h
  obtain ⟨d, rfl⟩ := Nat.exists_eq_add_of_le (show 1 ≤ f by omega)
  have e1 : 1 + d = d + 1 := by omega
  rw [e1, List.nil_append, readKids]
  simp [normL]

theorem kids_cons_rd (ver : Ver) (ce : Nat → Bool) (xhtml : Bool) (k : XNode) (ks : List XNode)
    (hk : NodeRd ver ce xhtml k) (hks : KidsRd ver ce xhtml ks) : KidsRd ver ce xhtml (k :: ks) := by
  intro hok out h rest f hf
  simp only [RKidsOk] at hok
  obtain ⟨hk1, hk2, hsep⟩ := hok
  obtain ⟨a, b, ha, hb, rfl⟩ := absKids_inv ver ce xhtml k ks out h
  obtain ⟨hane, _⟩ := absNode_start ver ce xhtml k hk1 a ha
  have hal : 1 ≤ a.length := by cases a with
    | nil => exact absurd rfl hane
    | cons _ _ => simp
  rw [List.length_append] at hf
  obtain ⟨d, rfl⟩ := Nat.exists_eq_add_of_le (show 1 ≤ f by omega)
  have e1 : 1 + d = d + 1 := by omega
  rw [e1, List.append_assoc]
  have hstop : textLike k = true → StopTail (b ++ 60 :: 47 :: rest) := by
    intro htl
    cases ks with
    | nil =>
      simp only [absKids, pure, Except.pure] at hb; injection hb with hb; subst hb
      exact Or.inr ⟨by simp, by simp [OPEN]⟩
    | cons k2 ks2 =>
      have hk2t : textLike k2 = false := by
        have := hsep htl
        cases hx : textLike k2 with
        | false => rfl
        | true => simp [hx] at this
      obtain ⟨a2, b2, ha2, _, rfl⟩ := absKids_inv ver ce xhtml k2 ks2 b hb
      simp only [RKidsOk] at hk2
      have := (absNode_start ver ce xhtml k2 hk2.1 a2 ha2).2 hk2t (b2 ++ 60 :: 47 :: rest)
      simpa [List.append_assoc] using this
  rw [hk hk1 a ha (b ++ 60 :: 47 :: rest) d hstop (by omega)]
  rw [hks hk2 b hb rest d (by omega)]
  simp [normL]

end XalanModel.C04
