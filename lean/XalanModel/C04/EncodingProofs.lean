import XalanModel.C04.Model
import XalanModel.C04.Spec
import XalanModel.C04.BufferProofs
namespace XalanModel.C04
open Spec

theorem utf8Scalar_ok (c : Nat) (h : IsScalar c) :
    ∃ it, utf8Scalar c = .ok it ∧ 1 ≤ (unitsOf it).length ∧
      ∀ rest, utf8DecodeOne (unitsOf it ++ rest) = some (c, rest) := by
  obtain ⟨h1, h2⟩ := h
  unfold utf8Scalar
  by_cases a : c ≤ 0x7F
  · refine ⟨_, by rw [if_pos a], by simp [unitsOf, Item.units], ?_⟩
    intro rest
    simp only [unitsOf, Item.units, List.flatMap_cons, List.flatMap_nil, List.append_nil, List.cons_append,
      List.nil_append, utf8DecodeOne]
    rw [if_pos (by omega)]
  · by_cases b : c ≤ 0x7FF
    · refine ⟨_, by rw [if_neg a, if_pos b], by simp [unitsOf, Item.units], ?_⟩
      intro rest
      simp only [unitsOf, Item.units, List.flatMap_cons, List.flatMap_nil, List.append_nil, List.cons_append,
        List.nil_append, utf8DecodeOne]
      have e1 : ¬ (0xC0 + c / 64 % 32 < 0x80) := by omega
      have e2 : ¬ (0xC0 + c / 64 % 32 < 0xC2) := by omega
      have e3 : 0xC0 + c / 64 % 32 < 0xE0 := by omega
      rw [if_neg e1, if_neg e2, if_pos e3]
      have hc : isCont (0x80 + c % 64) = true := by simp [isCont]; omega
      have hv : (0xC0 + c / 64 % 32 - 0xC0) * 64 + (0x80 + c % 64 - 0x80) = c := by omega
      rw [if_pos hc, hv]
    · by_cases d : c ≤ 0xFFFF
      · refine ⟨_, by rw [if_neg a, if_neg b, if_pos d], by simp [unitsOf, Item.units], ?_⟩
        intro rest
        simp only [unitsOf, Item.units, List.flatMap_cons, List.flatMap_nil, List.append_nil, List.cons_append,
          List.nil_append, utf8DecodeOne]
        rw [if_neg (by omega), if_neg (by omega), if_neg (by omega), if_pos (by omega)]
        have hc1 : isCont (0x80 + c / 64 % 64) = true := by simp [isCont]; omega
        have hc2 : isCont (0x80 + c % 64) = true := by simp [isCont]; omega
        have hv : (0xE0 + c / 4096 % 16 - 0xE0) * 4096 + (0x80 + c / 64 % 64 - 0x80) * 64 + (0x80 + c % 64 - 0x80) = c := by omega
        rw [hv, if_pos ⟨hc1, hc2, by omega, by omega⟩]
      · refine ⟨_, by rw [if_neg a, if_neg b, if_neg d, if_pos h1], by simp [unitsOf, Item.units], ?_⟩
        intro rest
        simp only [unitsOf, Item.units, List.flatMap_cons, List.flatMap_nil, List.append_nil, List.cons_append,
          List.nil_append, utf8DecodeOne]
        rw [if_neg (by omega), if_neg (by omega), if_neg (by omega), if_neg (by omega), if_pos (by omega)]
        have hc1 : isCont (0x80 + c / 4096 % 64) = true := by simp [isCont]; omega
        have hc2 : isCont (0x80 + c / 64 % 64) = true := by simp [isCont]; omega
        have hc3 : isCont (0x80 + c % 64) = true := by simp [isCont]; omega
        have hv : (0xF0 + c / 262144 % 8 - 0xF0) * 262144 + (0x80 + c / 4096 % 64 - 0x80) * 4096
            + (0x80 + c / 64 % 64 - 0x80) * 64 + (0x80 + c % 64 - 0x80) = c := by omega
        rw [hv, if_pos ⟨hc1, hc2, hc3, by omega, by omega⟩]

theorem decodeHead_utf16Encode (c : Nat) (rest : List Nat) (h : IsScalar c) :
    (c < 0x10000 → utf16EncodeOne c = [c] ∧ decodeHead c rest = .ok (c, false)) ∧
    (0x10000 ≤ c → utf16EncodeOne c = [0xD800 + (c - 0x10000) / 1024, 0xDC00 + (c - 0x10000) % 1024] ∧
      decodeHead (0xD800 + (c - 0x10000) / 1024) ((0xDC00 + (c - 0x10000) % 1024) :: rest) = .ok (c, true)) := by
  obtain ⟨h1, h2⟩ := h
  constructor
  · intro a
    have : isHigh c = false := by simp [isHigh]; omega
    exact ⟨by simp [utf16EncodeOne, a], by simp only [decodeHead]; rw [if_pos this]⟩
  · intro a
    have hh : isHigh (0xD800 + (c - 0x10000) / 1024) = true := by simp [isHigh]; omega
    have hl : isLow (0xDC00 + (c - 0x10000) % 1024) = true := by simp [isLow]; omega
    have hd : decodePair (0xD800 + (c - 0x10000) / 1024) (0xDC00 + (c - 0x10000) % 1024) = c := by
      simp only [decodePair]; omega
    refine ⟨by simp [utf16EncodeOne]; omega, ?_⟩
    simp only [decodeHead]
    rw [if_neg (by simp [hh]), if_neg (by simp [hl]), hd]

theorem utf8Units_step (c : Nat) (h : IsScalar c) (us : List Nat) (b : List Item) (hb : utf8Units us = .ok b) :
    ∃ it, utf8Scalar c = .ok it ∧ utf8Units (utf16EncodeOne c ++ us) = .ok (it ++ b) := by
  obtain ⟨it, hit, _, _⟩ := utf8Scalar_ok c h
  refine ⟨it, hit, ?_⟩
  obtain ⟨h1, h2⟩ := h
  unfold utf16EncodeOne
  by_cases a : c < 0x10000
  · simp only [a, ↓reduceIte, List.cons_append, List.nil_append]
    unfold utf8Units
    have : isHigh c = false := by simp [isHigh]; omega
    simp only [this, ↓reduceIte, hit, hb]; rfl
  · simp only [a, ↓reduceIte, List.cons_append, List.nil_append]
    unfold utf8Units
    have hh : isHigh (0xD800 + (c - 0x10000) / 1024) = true := by simp [isHigh]; omega
    have hl : isLow (0xDC00 + (c - 0x10000) % 1024) = true := by simp [isLow]; omega
    have hd : decodePair (0xD800 + (c - 0x10000) / 1024) (0xDC00 + (c - 0x10000) % 1024) = c := by
      simp only [decodePair]; omega
    simp only [hh, hl, Bool.true_eq_false, ↓reduceIte, hd, hit, hb]; rfl

theorem utf8DecodeF_cons (c : Nat) (bs rest : List Nat) (f : Nat) (h1 : 1 ≤ bs.length)
    (hd : utf8DecodeOne (bs ++ rest) = some (c, rest)) :
    utf8DecodeF (f + 1) (bs ++ rest) = (utf8DecodeF f rest).map (c :: ·) := by
  cases bs with
  | nil => simp at h1
  | cons b t =>
    simp only [List.cons_append] at hd ⊢
    simp only [utf8DecodeF, hd]

theorem utf8Units_roundtrip (cs : List Nat) (h : ∀ c ∈ cs, IsScalar c) :
    ∃ items, utf8Units (utf16Encode cs) = .ok items ∧ utf8Decode (unitsOf items) = some cs := by
  suffices H : ∃ items, utf8Units (utf16Encode cs) = .ok items ∧
      ∀ f, (unitsOf items).length ≤ f → utf8DecodeF f (unitsOf items) = some cs by
    obtain ⟨items, h1, h2⟩ := H
    exact ⟨items, h1, h2 _ (Nat.le_refl _)⟩
  induction cs with
  | nil => exact ⟨[], rfl, fun f _ => by cases f <;> rfl⟩
  | cons c cs ih =>
    obtain ⟨b, hb, hdec⟩ := ih (fun x hx => h x (by simp [hx]))
    have hc := h c (by simp)
    obtain ⟨it, hit, hstep⟩ := utf8Units_step c hc (utf16Encode cs) b hb
    obtain ⟨it', hit', hlen, hone⟩ := utf8Scalar_ok c hc
    have : it' = it := by rw [hit] at hit'; injection hit' with e; exact e.symm
    subst this
    refine ⟨it' ++ b, by simpa [utf16Encode] using hstep, ?_⟩
    intro f hf
    rw [unitsOf_append] at hf ⊢
    cases f with
    | zero => rw [List.length_append] at hf; omega
    | succ f =>
      rw [utf8DecodeF_cons c _ _ f hlen (hone _), hdec f (by rw [List.length_append] at hf; omega)]
      rfl

end XalanModel.C04
