import XalanModel.C04.ReaderProofs
import XalanModel.C04.EscapeProofs
namespace XalanModel.C04
open Spec XalanModel.Generated.C04

theorem bind_ok_inv {α β : Type} (x : Except Err α) (f : α → Except Err β) (y : β)
    (h : x.bind f = .ok y) : ∃ p, x = .ok p ∧ f p = .ok y := by
  cases x with
  | error e => cases h
  | ok p => exact ⟨p, rfl, h⟩

/-! reader steps -/

theorem rd_open (ver : Ver) (f : Nat) (r : List Nat) :
    readCDF ver (f + 1) none (OPEN ++ r) = readCDF ver f (some 0) r := by
  simp [OPEN, readCDF]

theorem rd_br (ver : Ver) (f nb : Nat) (r : List Nat) :
    readCDF ver (f + 1) (some nb) (93 :: r) = readCDF ver f (some (nb + 1)) r := by
  simp [readCDF]

theorem rd_close (ver : Ver) (f nb : Nat) (r : List Nat) :
    readCDF ver (f + 3) (some nb) (CLOSE ++ r) = (readCDF ver f none r).map (List.replicate nb 93 ++ ·) := by
  simp [CLOSE, readCDF]

theorem rd_char (ver : Ver) (f nb c : Nat) (r : List Nat) (h1 : c ≠ 93) (h2 : ¬ (c = 62 ∧ 2 ≤ nb))
    (h3 : insideOk ver c = true) :
    readCDF ver (f + 1) (some nb) (c :: r) = (readCDF ver f (some 0) r).map (List.replicate nb 93 ++ [c] ++ ·) := by
  simp [readCDF, h1, h2, h3]

theorem rd_ncr (ver : Ver) (f c : Nat) (r : List Nat) (hl : legalChar ver c = true) :
    readCDF ver (f + 1) none (ncrText c ++ r) = (readCDF ver f none r).map (c :: ·) := by
  have h1 : ncrText c ++ r = 38 :: (35 :: (decDigits c ++ 59 :: r)) := by simp [ncrText]
  have h2 := readOne_ncr ver false c r hl
  rw [h1] at h2 ⊢
  have h3 : ((38 :: (35 :: (decDigits c ++ 59 :: r))).take 9 = OPEN) = False := by
    simp [OPEN]
  simp only [readCDF, h3, ↓reduceIte, h2]

theorem rd_lf (ver : Ver) (f : Nat) (r : List Nat) :
    readCDF ver (f + 1) none (10 :: r) = (readCDF ver f none r).map (10 :: ·) := by
  have h3 : ((10 :: r).take 9 = OPEN) = False := by simp [OPEN]
  have h2 : readOne ver false (10 :: r) = some (10, r) := by
    cases ver <;> simp [readOne, rawSelf, legalChar, restricted11]
  simp only [readCDF, h3, ↓reduceIte, h2]


def modeOf (o : Bool) (nb : Nat) : Option Nat := if o then none else some nb
def pendOf (o : Bool) (nb : Nat) : List Nat := if o then [] else List.replicate nb 93
def finOf (o : Bool) : List Nat := if o then [] else CLOSE
def InvR (nb : Nat) (rest : List Nat) : Prop :=
  (2 ≤ nb → rest.head? ≠ some 62) ∧ (1 ≤ nb → rest.take 2 ≠ [93, 62])

theorem table_restricted : ∀ c ∈ List.range 160, restricted11 c = true → pCharRefForbidden .v11 c = true := by
  decide +kernel

theorem insideOk_of (ver : Ver) (c : Nat) (hl : legalChar ver c = true) (h13 : c ≠ 13)
    (h11 : ¬ (ver = .v11 ∧ (pCharRefForbidden ver c = true ∨ c = 0x85 ∨ c = 0x2028))) : insideOk ver c = true := by
  cases ver with
  | v10 => simp [insideOk, hl, h13]
  | v11 =>
    have hr : restricted11 c = false := by
      cases hx : restricted11 c with
      | false => rfl
      | true =>
        by_cases hc : c < 160
        · exact absurd ⟨rfl, Or.inl (table_restricted c (by simp; exact hc) hx)⟩ h11
        · simp [restricted11] at hx; omega
    have h85 : c ≠ 0x85 := fun e => h11 ⟨rfl, Or.inr (Or.inl e)⟩
    have h28 : c ≠ 0x2028 := fun e => h11 ⟨rfl, Or.inr (Or.inr e)⟩
    simp [insideOk, hl, h13, hr, h85, h28]

theorem replicate_snoc (n : Nat) : List.replicate n 93 ++ [93] = List.replicate (n + 1) 93 := by
  rw [List.replicate_succ']

theorem rep2 (n : Nat) (l : List Nat) : List.replicate (n + 1 + 1) 93 ++ l = List.replicate n 93 ++ 93 :: 93 :: l := by
  rw [List.replicate_succ', List.replicate_succ']; simp

theorem rep1 (n : Nat) (l : List Nat) : List.replicate (n + 1) 93 ++ l = List.replicate n 93 ++ 93 :: l := by
  rw [List.replicate_succ']; simp

/-- the reader inverts the character-level CDATA writer -/
theorem readCDF_absCD (ver : Ver) (ce : Nat → Bool) :
    ∀ (l : List Nat) (skip : Nat) (o : Bool) (nb : Nat) (out : List Nat) (o' : Bool),
      absCD ver ce l skip o = .ok (out, o') → (∀ c ∈ l, legalChar ver c = true) →
      (o = false → InvR nb (l.drop skip)) →
      ∀ f, (out ++ finOf o').length ≤ f →
        readCDF ver f (modeOf o nb) (out ++ finOf o') = some (pendOf o nb ++ l.drop skip) := by
  intro l
  induction l with
  | nil =>
    intro skip o nb out o' h _ _ f hf
    simp only [absCD] at h
    injection h with h; injection h with h1 h2; subst h1; subst h2
    cases o with
    | true => simp [finOf, modeOf, pendOf, readCDF]
    | false =>
      simp only [finOf, modeOf, pendOf, Bool.false_eq_true, ↓reduceIte, List.nil_append, List.drop_nil, List.append_nil] at hf ⊢
      obtain ⟨d, rfl⟩ := Nat.exists_eq_add_of_le hf
      have : CLOSE.length + d = d + 3 := by simp [CLOSE]; omega
      rw [this]
      have := rd_close ver d nb []
      simp only [List.append_nil] at this
      rw [this]
      cases d <;> simp [readCDF]
  | cons c rest ih =>
    intro skip o nb out o' h hleg hinv f hf
    have hlegr : ∀ x ∈ rest, legalChar ver x = true := fun x hx => hleg x (by simp [hx])
    have hlc := hleg c (by simp)
    cases skip with
    | succ k =>
      simp only [absCD] at h
      simp only [List.drop_succ_cons] at hinv ⊢
      exact ih k o nb out o' h hlegr hinv f hf
    | zero =>
      simp only [List.drop_zero] at hinv ⊢
      unfold absCD at h
      by_cases ht : c = 93 ∧ rest.take 2 = [93, 62]
      · -- "]]>" split
        rw [if_pos ht] at h
        obtain ⟨⟨b, o2⟩, hb, hy⟩ := bind_ok_inv _ _ _ h
        simp only [pure, Except.pure] at hy
        injection hy with hy; injection hy with hy1 hy2; subst hy1; subst hy2
        obtain ⟨hc, htk⟩ := ht
        subst hc
        have hrest : rest = 93 :: 62 :: rest.drop 2 := by
          match rest, htk with
          | a :: b2 :: r, h2 => simp at h2; obtain ⟨rfl, rfl⟩ := h2; rfl
        have hrec := ih 2 false 0 b o2 hb hlegr (fun _ => ⟨fun h => by omega, fun h => by omega⟩)
        have e62 : insideOk ver 62 = true := by cases ver <;> decide
        cases o with
        | true =>
          simp only [↓reduceIte, modeOf, pendOf, List.nil_append, List.append_assoc] at hf ⊢
          simp only [List.length_append] at hf
          have hO : OPEN.length = 9 := rfl
          have hC : CLOSE.length = 3 := rfl
          obtain ⟨d, rfl⟩ := Nat.exists_eq_add_of_le (show 8 ≤ f by simp [hO, hC] at hf; omega)
          have e1 : 8 + d = (d + 7) + 1 := by omega
          rw [e1, rd_open]
          have e2 : d + 7 = (d + 6) + 1 := by omega
          rw [e2]; simp only [List.cons_append, List.nil_append]
          rw [rd_br]
          have e3 : d + 6 = (d + 5) + 1 := by omega
          rw [e3, rd_br]
          have e4 : d + 5 = (d + 2) + 3 := by omega
          rw [e4, rd_close]
          have e5 : d + 2 = (d + 1) + 1 := by omega
          rw [e5, rd_open]
          have e6 : d + 1 = d + 1 := rfl
          rw [rd_char ver d 0 62 _ (by decide) (by omega) e62]
          have := hrec d (by simp [hO, hC, List.length_append] at hf ⊢; omega)
          simp only [modeOf, pendOf, Bool.false_eq_true, ↓reduceIte, List.replicate_zero, List.nil_append] at this
          rw [this]
          conv => rhs; rw [hrest]
          simp
        | false =>
          simp only [Bool.false_eq_true, ↓reduceIte, modeOf, pendOf, List.nil_append, List.append_assoc] at hf ⊢
          simp only [List.length_append] at hf
          have hO : OPEN.length = 9 := rfl
          have hC : CLOSE.length = 3 := rfl
          obtain ⟨d, rfl⟩ := Nat.exists_eq_add_of_le (show 8 ≤ f by simp [hO, hC] at hf; omega)
          have e2 : 8 + d = (d + 7) + 1 := by omega
          rw [e2]; simp only [List.cons_append, List.nil_append]
          rw [rd_br]
          have e3 : d + 7 = (d + 6) + 1 := by omega
          rw [e3, rd_br]
          have e4 : d + 6 = (d + 3) + 3 := by omega
          rw [e4, rd_close]
          have e5 : d + 3 = (d + 2) + 1 := by omega
          rw [e5, rd_open]
          have e6 : d + 2 = (d + 1) + 1 := by omega
          rw [e6, rd_char ver (d + 1) 0 62 _ (by decide) (by omega) e62]
          have := hrec (d + 1) (by simp [hO, hC, List.length_append] at hf ⊢; omega)
          simp only [modeOf, pendOf, Bool.false_eq_true, ↓reduceIte, List.replicate_zero, List.nil_append] at this
          rw [this]
          conv => rhs; rw [hrest]
          simp
          exact rep2 _ _
      · rw [if_neg ht] at h
        have hO : OPEN.length = 9 := rfl
        have hC : CLOSE.length = 3 := rfl
        by_cases h10 : c = 10
        · -- line feed
          rw [if_pos h10] at h
          obtain ⟨⟨b, o2⟩, hb, hy⟩ := bind_ok_inv _ _ _ h
          simp only [pure, Except.pure] at hy
          injection hy with hy; injection hy with hy1 hy2; subst hy1; subst hy2; subst h10
          have e10 : insideOk ver 10 = true := by cases ver <;> decide
          cases o with
          | true =>
            have hrec := ih 0 true 0 b o2 hb hlegr (fun h => by cases h)
            simp only [modeOf, pendOf, ↓reduceIte, List.nil_append, List.cons_append, List.length_cons, List.drop_zero] at hf hrec ⊢
            obtain ⟨d, rfl⟩ := Nat.exists_eq_add_of_le (show 1 ≤ f by omega)
            have e1 : 1 + d = d + 1 := by omega
            rw [e1, rd_lf, hrec d (by omega)]; rfl
          | false =>
            have hrec := ih 0 false 0 b o2 hb hlegr (fun _ => ⟨fun h => by omega, fun h => by omega⟩)
            simp only [modeOf, pendOf, Bool.false_eq_true, ↓reduceIte, List.replicate_zero, List.nil_append, List.cons_append,
              List.length_cons, List.drop_zero] at hf hrec ⊢
            obtain ⟨d, rfl⟩ := Nat.exists_eq_add_of_le (show 1 ≤ f by omega)
            have e1 : 1 + d = d + 1 := by omega
            rw [e1, rd_char ver d nb 10 _ (by decide) (by omega) e10, hrec d (by omega)]
            simp
        · rw [if_neg h10] at h
          by_cases href : c = 13 ∨ (ver = .v11 ∧ (pCharRefForbidden ver c = true ∨ c = 0x85 ∨ c = 0x2028))
          · -- character reference outside the section
            rw [if_pos href] at h
            obtain ⟨⟨b, o2⟩, hb, hy⟩ := bind_ok_inv _ _ _ h
            simp only [pure, Except.pure] at hy
            injection hy with hy; injection hy with hy1 hy2; subst hy1; subst hy2
            have hn4 : 1 ≤ (ncrText c).length := by unfold ncrText; simp
            cases o with
            | true =>
              have hrec := ih 0 true 0 b o2 hb hlegr (fun h => by cases h)
              simp only [modeOf, pendOf, ↓reduceIte, List.nil_append, List.append_assoc, List.length_append, List.drop_zero] at hf hrec ⊢
              obtain ⟨d, rfl⟩ := Nat.exists_eq_add_of_le (show 1 ≤ f by omega)
              have e1 : 1 + d = d + 1 := by omega
              rw [e1, rd_ncr ver d c _ hlc, hrec d (by omega)]; rfl
            | false =>
              have hrec := ih 0 false 0 b o2 hb hlegr (fun _ => ⟨fun h => by omega, fun h => by omega⟩)
              simp only [modeOf, pendOf, Bool.false_eq_true, ↓reduceIte, List.replicate_zero, List.nil_append, List.append_assoc,
                List.length_append, List.drop_zero] at hf hrec ⊢
              obtain ⟨d, rfl⟩ := Nat.exists_eq_add_of_le (show 5 ≤ f by simp [hC] at hf; omega)
              have e1 : 5 + d = (d + 2) + 3 := by omega
              rw [e1, rd_close]
              have e2 : d + 2 = (d + 1) + 1 := by omega
              rw [e2, rd_ncr ver (d + 1) c _ hlc]
              have e3 : d + 1 = d + 1 := rfl
              rw [rd_open, hrec d (by simp [hO, hC] at hf; omega)]
              simp
          · rw [if_neg href] at h
            by_cases hforb : pCharRefForbidden ver c = true
            · rw [if_pos hforb] at h; cases h
            · rw [if_neg hforb] at h
              have h13 : c ≠ 13 := fun e => href (Or.inl e)
              have h11 : ¬ (ver = .v11 ∧ (pCharRefForbidden ver c = true ∨ c = 0x85 ∨ c = 0x2028)) := fun e => href (Or.inr e)
              have hin := insideOk_of ver c hlc h13 h11
              by_cases hce : ce c = true
              · -- literal character inside a section
                rw [if_pos hce] at h
                obtain ⟨⟨b, o2⟩, hb, hy⟩ := bind_ok_inv _ _ _ h
                simp only [pure, Except.pure] at hy
                injection hy with hy; injection hy with hy1 hy2; subst hy1; subst hy2
                -- the invariant for the rest, with nb' brackets pending after this character
                have key : ∀ nb0 : Nat, InvR nb0 (c :: rest) →
                    ∀ f, ([c] ++ b ++ finOf o2).length ≤ f →
                      readCDF ver f (some nb0) ([c] ++ b ++ finOf o2) = some (List.replicate nb0 93 ++ c :: rest) := by
                  intro nb0 hi0 f hf0
                  simp only [List.cons_append, List.nil_append, List.length_cons] at hf0 ⊢
                  obtain ⟨d, rfl⟩ := Nat.exists_eq_add_of_le (show 1 ≤ f by omega)
                  have e1 : 1 + d = d + 1 := by omega
                  rw [e1]
                  by_cases h93 : c = 93
                  · subst h93
                    have hnt : rest.take 2 ≠ [93, 62] := fun e => ht ⟨rfl, e⟩
                    have hinv' : InvR (nb0 + 1) rest := by
                      refine ⟨fun h2 => ?_, fun _ => hnt⟩
                      intro e62
                      have := hi0.2 (by omega)
                      apply this
                      cases rest with
                      | nil => simp at e62
                      | cons x xs => simp at e62; subst e62; simp
                    have hrec := ih 0 false (nb0 + 1) b o2 hb hlegr (fun _ => hinv')
                    simp only [modeOf, pendOf, Bool.false_eq_true, ↓reduceIte, List.drop_zero] at hrec
                    rw [rd_br, hrec d (by omega)]
                    rw [rep1]
                  · have h62 : ¬ (c = 62 ∧ 2 ≤ nb0) := by
                      intro ⟨e, h2⟩
                      exact hi0.1 h2 (by simp [e])
                    have hrec := ih 0 false 0 b o2 hb hlegr (fun _ => ⟨fun h => by omega, fun h => by omega⟩)
                    simp only [modeOf, pendOf, Bool.false_eq_true, ↓reduceIte, List.replicate_zero, List.nil_append, List.drop_zero] at hrec
                    rw [rd_char ver d nb0 c _ h93 h62 hin, hrec d (by omega)]
                    simp
                cases o with
                | true =>
                  simp only [modeOf, pendOf, ↓reduceIte, List.nil_append, List.append_assoc, List.length_append] at hf ⊢
                  obtain ⟨d, rfl⟩ := Nat.exists_eq_add_of_le (show 1 ≤ f by simp [hO] at hf; omega)
                  have e1 : 1 + d = d + 1 := by omega
                  rw [e1, rd_open]
                  have := key 0 ⟨fun h => by omega, fun h => by omega⟩ d (by simp [hO, List.length_append] at hf ⊢; omega)
                  simp only [List.append_assoc, List.replicate_zero, List.nil_append] at this
                  exact this
                | false =>
                  simp only [modeOf, pendOf, Bool.false_eq_true, ↓reduceIte, List.nil_append] at hf ⊢
                  exact key nb (hinv rfl) f hf
              · -- character the encoding cannot represent: reference outside the section
                rw [if_neg hce] at h
                obtain ⟨⟨b, o2⟩, hb, hy⟩ := bind_ok_inv _ _ _ h
                simp only [pure, Except.pure] at hy
                injection hy with hy; injection hy with hy1 hy2; subst hy1; subst hy2
                have hn4 : 1 ≤ (ncrText c).length := by unfold ncrText; simp
                have hrec := ih 0 true 0 b o2 hb hlegr (fun h => by cases h)
                cases o with
                | true =>
                  simp only [modeOf, pendOf, ↓reduceIte, List.nil_append, List.append_assoc, List.length_append, List.drop_zero] at hf hrec ⊢
                  obtain ⟨d, rfl⟩ := Nat.exists_eq_add_of_le (show 1 ≤ f by omega)
                  have e1 : 1 + d = d + 1 := by omega
                  rw [e1, rd_ncr ver d c _ hlc, hrec d (by omega)]; rfl
                | false =>
                  simp only [modeOf, pendOf, Bool.false_eq_true, ↓reduceIte, List.nil_append, List.append_assoc,
                    List.length_append, List.drop_zero] at hf hrec ⊢
                  obtain ⟨d, rfl⟩ := Nat.exists_eq_add_of_le (show 4 ≤ f by simp [hC] at hf; omega)
                  have e1 : 4 + d = (d + 1) + 3 := by omega
                  rw [e1, rd_close, rd_ncr ver d c _ hlc, hrec d (by simp [hC] at hf; omega)]
                  simp

end XalanModel.C04
