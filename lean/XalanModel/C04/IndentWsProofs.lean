import XalanModel.C04.IndentProofs
namespace XalanModel.C04

/-- `a` is `b` with line feeds and spaces inserted (nothing else changed, nothing reordered) -/
inductive InsertsWs : List Nat → List Nat → Prop
  | nil : InsertsWs [] []
  | keep (x : Nat) {a b : List Nat} : InsertsWs a b → InsertsWs (x :: a) (x :: b)
  | ins (w : Nat) {a b : List Nat} : (w = 10 ∨ w = 32) → InsertsWs a b → InsertsWs (w :: a) b

theorem InsertsWs.refl (l : List Nat) : InsertsWs l l := by
  induction l with
  | nil => exact .nil
  | cons x t ih => exact .keep x ih

theorem InsertsWs.prepend (p : List Nat) {a b : List Nat} (h : InsertsWs a b) : InsertsWs (p ++ a) (p ++ b) := by
  induction p with
  | nil => exact h
  | cons x t ih => exact .keep x ih

theorem InsertsWs.block (w : List Nat) (hw : ∀ u ∈ w, u = 10 ∨ u = 32) {a b : List Nat} (h : InsertsWs a b) :
    InsertsWs (w ++ a) b := by
  induction w with
  | nil => exact h
  | cons x t ih => exact .ins x (hw x (by simp)) (ih (fun u hu => hw u (by simp [hu])))

theorem InsertsWs.append {a b a' b' : List Nat} (h1 : InsertsWs a b) (h2 : InsertsWs a' b') :
    InsertsWs (a ++ a') (b ++ b') := by
  induction h1 with
  | nil => exact h2
  | keep x _ ih => exact .keep x ih
  | ins w hw _ ih => exact .ins w hw ih

/-- p ++ ws ++ body against p ++ body -/
theorem InsertsWs.mid (p w b : List Nat) (hw : ∀ u ∈ w, u = 10 ∨ u = 32) : InsertsWs (p ++ w ++ b) (p ++ b) := by
  rw [List.append_assoc]
  exact InsertsWs.prepend p (InsertsWs.block w hw (InsertsWs.refl b))


def AgreeWs (x : Except Err (List Item × List Bool × IndSt)) (y : Except Err (List Item × List Bool)) : Prop :=
  match x, y with
  | .ok (a, st, _), .ok (a', st') => st = st' ∧ InsertsWs (unitsOf a) (unitsOf a')
  | .error e, .error e' => e = e'
  | _, _ => False

theorem stepEventI_ws (c : Cfg) (ha : AsciiOk c.enc) (st : List Bool) (s : IndSt) (ev : Event) :
    AgreeWs (stepEventI c st s ev) (stepEvent c st ev) := by
  obtain ⟨p1, p2, _⟩ := pteI_eq c.enc st s
  cases ev with
  | startElement name attrs =>
    obtain ⟨ind, hind, hws, _⟩ := indentItems_ws c.enc ha { (parentTagEndI c.enc st s).2.2 with ispreserve := false }
    simp only [stepEventI, stepEvent, hind, bind, Except.bind, pure, Except.pure]
    cases wName c.enc name with
    | error e => simp [AgreeWs]
    | ok n =>
      cases writeAttrs c attrs with
      | error e => simp [AgreeWs]
      | ok a =>
        simp only [AgreeWs, p2, true_and, unitsOf_append, p1]
        have := InsertsWs.mid (unitsOf (parentTagEnd c.enc st).1) (unitsOf ind) (unitsOf (wChar c.enc 60) ++ unitsOf n ++ unitsOf a) hws
        simpa [List.append_assoc] using this
  | endElement name =>
    cases st with
    | nil => simp [stepEventI, stepEvent, AgreeWs, pure, Except.pure, InsertsWs.refl]
    | cons b t =>
      cases b with
      | false => simp [stepEventI, stepEvent, AgreeWs, pure, Except.pure, InsertsWs.refl]
      | true =>
        obtain ⟨ind, hind, hws, _⟩ := indentItems_ws c.enc ha { s with cur := s.cur - s.amount }
        simp only [stepEventI, stepEvent, hind, bind, Except.bind, pure, Except.pure]
        cases wName c.enc name with
        | error e => simp [AgreeWs]
        | ok n =>
          simp only [AgreeWs, true_and, unitsOf_append]
          have := InsertsWs.mid [] (unitsOf ind) (unitsOf (wChar c.enc 60) ++ unitsOf (wChar c.enc 47) ++ unitsOf n ++ unitsOf (wChar c.enc 62)) hws
          simpa [List.append_assoc] using this
  | characters buf length =>
    by_cases hl : length = 0
    · simp [stepEventI, stepEvent, hl, AgreeWs, pure, Except.pure, InsertsWs.refl]
    · simp only [stepEventI, stepEvent, hl, ↓reduceIte, bind, Except.bind, pure, Except.pure]
      cases writeCharacters c.ver c.enc (buf.take length) with
      | error e => simp [AgreeWs]
      | ok t => simp [AgreeWs, p1, p2, InsertsWs.refl]
  | cdata buf length =>
    by_cases hl : length = 0
    · simp [stepEventI, stepEvent, hl, AgreeWs, pure, Except.pure, InsertsWs.refl]
    · obtain ⟨ind, hind, hws, _⟩ := indentItems_ws c.enc ha { (parentTagEndI c.enc st s).2.2 with ispreserve := true }
      simp only [stepEventI, stepEvent, hl, ↓reduceIte, hind, bind, Except.bind, pure, Except.pure]
      cases writeCDATA c.cdata c.ver c.enc buf length with
      | error e => simp [AgreeWs]
      | ok t =>
        simp only [AgreeWs, p2, true_and, unitsOf_append, p1]
        exact InsertsWs.mid _ _ _ hws
  | charactersRaw str =>
    simp only [stepEventI, stepEvent, bind, Except.bind, pure, Except.pure]
    cases wRaw c.enc str with
    | error e => simp [AgreeWs]
    | ok t => simp [AgreeWs, p1, p2, InsertsWs.refl]
  | comment data =>
    obtain ⟨ind, hind, hws, _⟩ := indentItems_ws c.enc ha (parentTagEndI c.enc st s).2.2
    simp only [stepEventI, stepEvent, hind, bind, Except.bind, pure, Except.pure]
    cases writeNormalizedData c.ver c.enc data with
    | error e => simp [AgreeWs]
    | ok d =>
      simp only [AgreeWs, p2, true_and, unitsOf_append, p1]
      have := InsertsWs.mid (unitsOf (parentTagEnd c.enc st).1) (unitsOf ind)
        (unitsOf (wChar c.enc 60) ++ unitsOf (wChar c.enc 33) ++ unitsOf (wChar c.enc 45) ++ unitsOf (wChar c.enc 45) ++ unitsOf d
          ++ unitsOf (wChar c.enc 45) ++ unitsOf (wChar c.enc 45) ++ unitsOf (wChar c.enc 62)) hws
      simpa [List.append_assoc] using this
  | pi target data =>
    obtain ⟨ind, hind, hws, _⟩ := indentItems_ws c.enc ha (parentTagEndI c.enc st s).2.2
    simp only [stepEventI, stepEvent, hind, bind, Except.bind, pure, Except.pure]
    cases wName c.enc target with
    | error e => simp [AgreeWs]
    | ok t =>
      cases writeNormalizedData c.ver c.enc data with
      | error e => simp [AgreeWs]
      | ok d =>
        cases data with
        | nil =>
          simp only [AgreeWs, p2, true_and, unitsOf_append, p1]
          have := InsertsWs.mid (unitsOf (parentTagEnd c.enc st).1) (unitsOf ind)
            (unitsOf (wChar c.enc 60) ++ unitsOf (wChar c.enc 63) ++ unitsOf t ++ unitsOf ([] : List Item) ++ unitsOf d
              ++ unitsOf (wChar c.enc 63) ++ unitsOf (wChar c.enc 62)) hws
          simpa [List.append_assoc] using this
        | cons d0 ds =>
          simp only [AgreeWs, p2, true_and, unitsOf_append, p1]
          have := InsertsWs.mid (unitsOf (parentTagEnd c.enc st).1) (unitsOf ind)
            (unitsOf (wChar c.enc 60) ++ unitsOf (wChar c.enc 63) ++ unitsOf t ++ unitsOf (if isXMLWhitespace d0 = true then [] else wChar c.enc 32) ++ unitsOf d
              ++ unitsOf (wChar c.enc 63) ++ unitsOf (wChar c.enc 62)) hws
          simpa [List.append_assoc] using this


def AgreeOut (x y : Out) : Prop :=
  match x, y with
  | .ok a, .ok a' => InsertsWs (unitsOf a) (unitsOf a')
  | .error e, .error e' => e = e'
  | _, _ => False

theorem end_ws (c : Cfg) (ha : AsciiOk c.enc) (s : IndSt) :
    AgreeOut (indentItems c.enc { s with startNewLine := true }) (.ok []) := by
  obtain ⟨ind, hind, hws, _⟩ := indentItems_ws c.enc ha { s with startNewLine := true }
  rw [hind]
  simp only [AgreeOut]
  have := InsertsWs.block (unitsOf ind) hws InsertsWs.nil
  simpa [unitsOf] using this

theorem runEventsI_ws (c : Cfg) (ha : AsciiOk c.enc) (evs : List Event) (st : List Bool) (s : IndSt) :
    AgreeOut (runEventsI c evs st s) (runEvents c evs st) := by
  induction evs generalizing st s with
  | nil => simpa [runEventsI, runEvents] using end_ws c ha s
  | cons ev rest ih =>
    have h1 := stepEventI_ws c ha st s ev
    simp only [runEventsI, runEvents, bind, Except.bind]
    cases hx : stepEventI c st s ev with
    | error e =>
      cases hy : stepEvent c st ev with
      | error e' => rw [hx, hy] at h1; simpa [AgreeWs, AgreeOut] using h1
      | ok r => rw [hx, hy] at h1; simp [AgreeWs] at h1
    | ok r =>
      obtain ⟨a, st1, s1⟩ := r
      cases hy : stepEvent c st ev with
      | error e' => rw [hx, hy] at h1; simp [AgreeWs] at h1
      | ok r' =>
        obtain ⟨a', st1'⟩ := r'
        rw [hx, hy] at h1
        simp only [AgreeWs] at h1
        obtain ⟨e2, hw⟩ := h1
        subst e2
        have h2 := ih st1 s1
        simp only
        cases hb : runEventsI c rest st1 s1 with
        | error e =>
          cases hb' : runEvents c rest st1 with
          | error e' => rw [hb, hb'] at h2; simpa [AgreeOut] using h2
          | ok b' => rw [hb, hb'] at h2; simp [AgreeOut] at h2
        | ok b =>
          cases hb' : runEvents c rest st1 with
          | error e' => rw [hb, hb'] at h2; simp [AgreeOut] at h2
          | ok b' =>
            rw [hb, hb'] at h2
            simp only [AgreeOut, pure, Except.pure, unitsOf_append] at h2 ⊢
            exact InsertsWs.append hw h2


theorem AgreeOut.same (x : Out) : AgreeOut x x := by
  cases x with
  | error e => simp [AgreeOut]
  | ok a => simp [AgreeOut, InsertsWs.refl]

theorem AgreeOut.seq {x y x' y' : Out} (h1 : AgreeOut x y) (h2 : AgreeOut x' y') :
    AgreeOut (x.bind fun a => x'.bind fun b => pure (a ++ b)) (y.bind fun a => y'.bind fun b => pure (a ++ b)) := by
  cases x with
  | error e =>
    cases y with
    | error e' => simpa [AgreeOut, Except.bind] using h1
    | ok a' => simp [AgreeOut] at h1
  | ok a =>
    cases y with
    | error e' => simp [AgreeOut] at h1
    | ok a' =>
      cases x' with
      | error e =>
        cases y' with
        | error e' => simpa [AgreeOut, Except.bind] using h2
        | ok b' => simp [AgreeOut] at h2
      | ok b =>
        cases y' with
        | error e' => simp [AgreeOut] at h2
        | ok b' =>
          simp only [AgreeOut, Except.bind, pure, Except.pure, unitsOf_append] at h1 h2 ⊢
          exact InsertsWs.append h1 h2

theorem runEventsDI_ws (c : Cfg) (ha : AsciiOk c.enc) (evs : List Event) (s : IndSt) :
    AgreeOut (runEventsDI c evs s) (runEventsD c evs) := by
  induction evs generalizing s with
  | nil => simpa [runEventsDI, runEventsD] using end_ws c ha s
  | cons ev rest ih =>
    by_cases hs : ∃ n a, ev = .startElement n a
    · obtain ⟨n, a, rfl⟩ := hs
      simp only [runEventsDI, runEventsD, bind]
      exact AgreeOut.seq (AgreeOut.same _) (runEventsI_ws c ha _ [] s)
    · have hns : ∀ n a, ev ≠ .startElement n a := fun n a e => hs ⟨n, a, e⟩
      have key : runEventsDI c (ev :: rest) s
          = (stepEventI c [] s ev).bind fun r => (runEventsDI c rest r.2.2).bind fun b => pure (r.1 ++ b) := by
        cases ev with
        | startElement n a => exact absurd rfl (hns n a)
        | _ => simp only [runEventsDI, bind, Except.bind]
      have key2 : runEventsD c (ev :: rest)
          = (stepEvent c [] ev).bind fun r => (runEventsD c rest).bind fun b => pure (r.1 ++ b) := by
        cases ev with
        | startElement n a => exact absurd rfl (hns n a)
        | _ => simp only [runEventsD, bind, Except.bind]
      rw [key, key2]
      have h1 := stepEventI_ws c ha [] s ev
      cases hx : stepEventI c [] s ev with
      | error e =>
        cases hy : stepEvent c [] ev with
        | error e' => rw [hx, hy] at h1; simpa [AgreeWs, AgreeOut, Except.bind] using h1
        | ok r => rw [hx, hy] at h1; simp [AgreeWs] at h1
      | ok r =>
        obtain ⟨a, st1, s1⟩ := r
        cases hy : stepEvent c [] ev with
        | error e' => rw [hx, hy] at h1; simp [AgreeWs] at h1
        | ok r' =>
          obtain ⟨a', st1'⟩ := r'
          rw [hx, hy] at h1
          simp only [AgreeWs] at h1
          have h2 := ih s1
          have := AgreeOut.seq (x := .ok a) (y := .ok a') (by simpa [AgreeOut] using h1.2) h2
          simpa [Except.bind] using this

/-- indent="yes": the output is the output without indentation plus inserted line feeds and spaces -/
theorem serializeItemsI_ws (c : Cfg) (ha : AsciiOk c.enc) (on : Bool) (amount : Nat) (evs : List Event) :
    AgreeOut (serializeItemsI c on amount evs) (serializeItems c evs) := by
  have hh : AgreeOut (headerI c on) (writeXMLHeader c) := by
    unfold headerI
    cases hw : writeXMLHeader c with
    | error e => simp [AgreeOut, bind, Except.bind]
    | ok h =>
      obtain ⟨nl, hnl, hnlu⟩ := wNewline_units c.enc ha
      by_cases hc : on = true ∧ shouldWriteHeader c = true ∧ c.doctypeSystem.isEmpty = true
      · simp only [bind, Except.bind, hc, and_self, ↓reduceIte, hnl, pure, Except.pure, AgreeOut, unitsOf_append, hnlu]
        have := InsertsWs.mid (unitsOf h) [10] [] (by intro u hu; simp at hu; exact Or.inl hu)
        simpa using this
      · simp only [bind, Except.bind, hc, ↓reduceIte, pure, Except.pure, AgreeOut, List.append_nil]
        exact InsertsWs.refl _
  have := AgreeOut.seq hh (runEventsDI_ws c ha evs { on := on, amount := amount })
  simpa [serializeItemsI, serializeItems, bind] using this

end XalanModel.C04
