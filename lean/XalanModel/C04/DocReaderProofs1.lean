import XalanModel.C04.DocReader
import XalanModel.C04.CDataTopProofs
namespace XalanModel.C04
open Spec XalanModel.Generated.C04

theorem readDec_append (ds : List Nat) (acc : Nat) (seen : Bool) (v : Nat) (r' tail : List Nat)
    (h : readDec ds acc seen = some (v, r')) : readDec (ds ++ tail) acc seen = some (v, r' ++ tail) := by
  induction ds generalizing acc seen with
  | nil => simp [readDec] at h
  | cons d t ih =>
    simp only [readDec, List.cons_append] at h ⊢
    by_cases h59 : d = 59
    · simp only [h59, ↓reduceIte] at h ⊢
      cases seen with
      | true => simp at h ⊢; obtain ⟨rfl, rfl⟩ := h; exact ⟨rfl, rfl⟩
      | false => simp at h
    · simp only [h59, ↓reduceIte] at h ⊢
      by_cases hd : 48 ≤ d ∧ d ≤ 57
      · rw [if_pos hd] at h ⊢; exact ih _ _ h
      · rw [if_neg hd] at h; cases h

theorem readRef_append (r : List Nat) (v : Nat) (r' tail : List Nat) (h : readRef r = some (v, r')) :
    readRef (r ++ tail) = some (v, r' ++ tail) := by
  unfold readRef at h
  split at h
  · injection h with h; injection h with h1 h2; subst h1; subst h2; simp [readRef]
  · injection h with h; injection h with h1 h2; subst h1; subst h2; simp [readRef]
  · injection h with h; injection h with h1 h2; subst h1; subst h2; simp [readRef]
  · injection h with h; injection h with h1 h2; subst h1; subst h2; simp [readRef]
  · injection h with h; injection h with h1 h2; subst h1; subst h2; simp [readRef]
  · rename_i r0
    have := readDec_append r0 0 false v r' tail h
    simp [readRef, this]
  · cases h

/-- reading one character of content does not depend on what follows the text, unless a line feed follows a CR -/
theorem readOne_append (ver : Ver) (l : List Nat) (v : Nat) (r' tail : List Nat)
    (h : readOne ver false l = some (v, r')) (ht : tail.head? ≠ some 10) :
    readOne ver false (l ++ tail) = some (v, r' ++ tail) := by
  cases l with
  | nil => simp [readOne] at h
  | cons c r =>
    simp only [readOne, List.cons_append] at h ⊢
    by_cases h38 : c = 38
    · simp only [h38, ↓reduceIte] at h ⊢
      cases hr : readRef r with
      | none => rw [hr] at h; cases h
      | some p =>
        obtain ⟨x, rr⟩ := p
        rw [hr] at h
        simp only at h
        rw [readRef_append r x rr tail hr]
        simp only
        by_cases hl : legalChar ver x = true
        · rw [if_pos hl] at h ⊢; injection h with h; injection h with h1 h2; subst h1; subst h2; rfl
        · rw [if_neg hl] at h; cases h
    · simp only [h38, ↓reduceIte] at h ⊢
      by_cases hraw : rawSelf ver false c = true
      · rw [if_pos hraw] at h ⊢; injection h with h; injection h with h1 h2; subst h1; subst h2; rfl
      · rw [if_neg hraw] at h ⊢
        by_cases h13 : c = 13
        · simp only [h13, ↓reduceIte, Bool.false_eq_true] at h ⊢
          cases r with
          | nil =>
            simp only at h; injection h with h; injection h with h1 h2; subst h1; subst h2
            cases tail with
            | nil => rfl
            | cons t0 ts =>
              have : t0 ≠ 10 := fun e => ht (by simp [e])
              simp only [List.nil_append]
              split
              · rename_i heq; injection heq with e1 _; exact absurd e1 this
              · rfl
          | cons x xs =>
            by_cases hx : x = 10
            · subst hx; simp only at h ⊢; injection h with h; injection h with h1 h2; subst h1; subst h2; rfl
            · split at h
              · rename_i heq; injection heq with e _; exact absurd e hx
              · injection h with h; injection h with h1 h2; subst h1; subst h2
                simp only [List.cons_append]
                split
                · rename_i heq; injection heq with e _; exact absurd e hx
                · rfl
        · simp only [h13, ↓reduceIte, Bool.false_eq_true, false_and] at h ⊢
          by_cases h11 : ver = .v11 ∧ (c = 0x85 ∨ c = 0x2028)
          · rw [if_pos h11] at h ⊢; injection h with h; injection h with h1 h2; subst h1; subst h2; rfl
          · rw [if_neg h11] at h; cases h


/-- what may follow a text run: nothing, or markup that is not a CDATA section -/
def StopTail (tail : List Nat) : Prop := tail = [] ∨ (tail.head? = some 60 ∧ tail.take 9 ≠ OPEN)

theorem stop_head (tail : List Nat) (h : StopTail tail) : tail.head? ≠ some 10 := by
  rcases h with h | ⟨h, _⟩
  · subst h; simp
  · rw [h]; simp

theorem take9_append (l tail : List Nat) (h : l.take 9 = OPEN) : (l ++ tail).take 9 = OPEN := by
  have hl : 9 ≤ l.length := by
    have := congrArg List.length h
    simp [OPEN] at this; omega
  rw [List.take_append_of_le_length hl]; exact h

theorem readOne_lt (ver : Ver) (r : List Nat) : readOne ver false (60 :: r) = none := by
  cases ver <;> simp [readOne, rawSelf]

/-- a text run read to the end of the input is read the same way in front of markup -/
theorem readRunF_of_readCDF (ver : Ver) (tail : List Nat) (ht : StopTail tail) :
    ∀ (f : Nat) (m : Option Nat) (X v : List Nat), readCDF ver f m X = some v →
      readRunF ver f m (X ++ tail) = some (v, tail) := by
  intro f
  induction f with
  | zero =>
    intro m X v h
    cases X with
    | nil =>
      cases m with
      | some nb => simp [readCDF] at h
      | none =>
        simp only [readCDF] at h; injection h with h; subst h
        simp only [List.nil_append]
        rcases ht with ht | ⟨h1, h2⟩
        · subst ht; rfl
        · cases tail with
          | nil => simp at h1
          | cons t0 ts =>
            simp at h1; subst h1
            have h2' : ¬ (60 :: List.take 8 ts = OPEN) := by simpa using h2
            simp [readRunF, h2']
    | cons c r => cases m <;> simp [readCDF] at h
  | succ f ih =>
    intro m X v h
    cases X with
    | nil =>
      cases m with
      | some nb => simp [readCDF] at h
      | none =>
        simp only [readCDF] at h; injection h with h; subst h
        simp only [List.nil_append]
        rcases ht with ht | ⟨h1, h2⟩
        · subst ht; rfl
        · cases tail with
          | nil => simp at h1
          | cons t0 ts =>
            simp at h1; subst h1
            have h2' : ¬ (60 :: List.take 8 ts = OPEN) := by simpa using h2
            simp [readRunF, h2']
    | cons c r =>
      cases m with
      | none =>
        simp only [readCDF] at h
        simp only [List.cons_append]
        by_cases hO : (c :: r).take 9 = OPEN
        · rw [if_pos hO] at h
          have hO' : (c :: (r ++ tail)).take 9 = OPEN := take9_append (c :: r) tail hO
          have hl : 8 ≤ r.length := by
            have := congrArg List.length hO
            simp [OPEN] at this; omega
          have hd : (r ++ tail).drop 8 = r.drop 8 ++ tail := by rw [List.drop_append_of_le_length hl]
          simp only [readRunF, hO', ne_eq, not_true_eq_false, and_false, ↓reduceIte, hd]
          exact ih (some 0) (r.drop 8) v h
        · rw [if_neg hO] at h
          have hc : c ≠ 60 := by
            intro e; subst e; rw [readOne_lt] at h; cases h
          have hO' : (c :: (r ++ tail)).take 9 ≠ OPEN := by
            intro e
            have : c = 60 := by simp [OPEN] at e; exact e.1
            exact hc this
          cases hr : readOne ver false (c :: r) with
          | none => rw [hr] at h; cases h
          | some p =>
            obtain ⟨x, rr⟩ := p
            rw [hr] at h
            simp only at h
            cases hv : readCDF ver f none rr with
            | none => rw [hv] at h; cases h
            | some v' =>
              rw [hv] at h; simp only [Option.map_some, Option.some.injEq] at h; subst h
              have hro := readOne_append ver (c :: r) x rr tail hr (stop_head tail ht)
              simp only [List.cons_append] at hro
              simp only [readRunF, hc, false_and, ↓reduceIte, hO', hro, ih none rr v' hv, Option.map_some]
      | some nb =>
        simp only [readCDF] at h
        simp only [List.cons_append, readRunF]
        by_cases h93 : c = 93
        · rw [if_pos h93] at h ⊢; exact ih _ r v h
        · rw [if_neg h93] at h ⊢
          by_cases h62 : c = 62 ∧ 2 ≤ nb
          · rw [if_pos h62] at h ⊢
            cases hv : readCDF ver f none r with
            | none => rw [hv] at h; cases h
            | some v' =>
              rw [hv] at h; simp only [Option.map_some, Option.some.injEq] at h; subst h
              simp only [ih none r v' hv, Option.map_some]
          · rw [if_neg h62] at h ⊢
            by_cases hin : insideOk ver c = true
            · rw [if_pos hin] at h ⊢
              cases hv : readCDF ver f (some 0) r with
              | none => rw [hv] at h; cases h
              | some v' =>
                rw [hv] at h; simp only [Option.map_some, Option.some.injEq] at h; subst h
                simp only [ih (some 0) r v' hv, Option.map_some]
            · rw [if_neg hin] at h; cases h

end XalanModel.C04
