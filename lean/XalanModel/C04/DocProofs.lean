import XalanModel.C04.DocChars
import XalanModel.C04.CDataTopProofs
import XalanModel.C04.TreeProofs
namespace XalanModel.C04
open Spec XalanModel.Generated.C04

theorem encodeOut_cons (k : WK) (c : Nat) (l : List Nat) : encodeOut k (c :: l) = encodeOut k [c] ++ encodeOut k l := by
  rw [← encodeOut_append]; rfl

theorem otherNameLoop_enc (ver : Ver) (e : Enc) (hko : e.kind = .other) (n : List Nat) (hn : NameOk ver e n) :
    ∃ it, otherNameLoop e (utf16Encode n) false = .ok it ∧ unitsOf it = encodeOut e.kind n := by
  induction n with
  | nil => exact ⟨[], rfl, by cases e.kind <;> rfl⟩
  | cons c cs ih =>
    obtain ⟨b, hb, hbu⟩ := ih (fun x hx => hn x (by simp [hx]))
    obtain ⟨hlc, hce⟩ := hn c (by simp)
    have hs := legal_scalar ver c hlc
    rw [enc_cons, encodeOut_cons]
    by_cases hb16 : c < 0x10000
    · have h16 : utf16EncodeOne c = [c] := ((decodeHead_utf16Encode c [] hs).1 hb16).1
      obtain ⟨it, hit, hitu⟩ := wCP_enc_bmp e true c (utf16Encode cs) hs hb16 hce
      refine ⟨it ++ b, ?_, by rw [unitsOf_append, hitu, hbu]⟩
      rw [h16]; simp only [List.cons_append, List.nil_append, otherNameLoop, hit, hb, bind, Except.bind, pure, Except.pure]
    · have hge : 0x10000 ≤ c := by omega
      have h16 := ((decodeHead_utf16Encode c (utf16Encode cs) hs).2 hge).1
      have hdh := ((decodeHead_utf16Encode c (utf16Encode cs) hs).2 hge).2
      obtain ⟨hs1, hs2⟩ := hs
      obtain ⟨it, hit, hitu⟩ := wCP_enc_two e true (Or.inl (by rw [hko]; simp)) c _ _ (utf16Encode cs) ⟨hs1, hs2⟩ (by omega) hdh h16
        (by omega) (by omega) hce
      refine ⟨it ++ b, ?_, by rw [unitsOf_append, hitu, hbu]⟩
      rw [h16]
      simp only [List.cons_append, List.nil_append, otherNameLoop, hit, hb, bind, Except.bind, pure, Except.pure]


theorem utf8Units_enc (n : List Nat) (hn : ∀ c ∈ n, IsScalar c) :
    ∃ it, utf8Units (utf16Encode n) = .ok it ∧ unitsOf it = n.flatMap utf8EncodeOne := by
  induction n with
  | nil => exact ⟨[], rfl, rfl⟩
  | cons c cs ih =>
    obtain ⟨b, hb, hbu⟩ := ih (fun x hx => hn x (by simp [hx]))
    obtain ⟨it, hit, hstep⟩ := utf8Units_step c (hn c (by simp)) (utf16Encode cs) b hb
    obtain ⟨it', hit', hu⟩ := utf8Scalar_units c (hn c (by simp))
    have : it' = it := by rw [hit] at hit'; injection hit' with e; exact e.symm
    subst this
    exact ⟨it' ++ b, by rw [enc_cons]; exact hstep, by rw [unitsOf_append, hu, hbu]; simp⟩

/-- the check in front of the bulk writes accepts the UTF-16 form of every sequence of XML characters -/
theorem checkLoop_legal (ver : Ver) (n : List Nat) (hn : ∀ c ∈ n, legalChar ver c = true) :
    checkLoop (utf16Encode n) false = .ok () := by
  induction n with
  | nil => rfl
  | cons c cs ih =>
    have ihh := ih (fun x hx => hn x (by simp [hx]))
    have hl := hn c (by simp)
    have hs := legal_scalar ver c hl
    rw [enc_cons]
    by_cases hb16 : c < 0x10000
    · have h16 : utf16EncodeOne c = [c] := ((decodeHead_utf16Encode c [] hs).1 hb16).1
      obtain ⟨hs1, hs2⟩ := hs
      have h1 : isHigh c = false := by simp [isHigh]; omega
      have h2 : isLow c = false := by simp [isLow]; omega
      have h3 : ¬ (c = 0 ∨ c ≥ 0xFFFE) := by
        cases ver <;> simp only [legalChar, Bool.or_eq_true, Bool.and_eq_true, decide_eq_true_eq, beq_iff_eq] at hl <;> omega
      rw [h16]
      simp only [List.cons_append, List.nil_append, checkLoop, h1, h2, h3, Bool.false_eq_true, ↓reduceIte, ihh]
    · have hge : 0x10000 ≤ c := by omega
      have h16 := ((decodeHead_utf16Encode c (utf16Encode cs) hs).2 hge).1
      obtain ⟨hs1, hs2⟩ := hs
      have h1 : isHigh (0xD800 + (c - 0x10000) / 1024) = true := by simp [isHigh]; omega
      have h2 : isLow (0xDC00 + (c - 0x10000) % 1024) = true := by simp [isLow]; omega
      rw [h16]
      simp only [List.cons_append, List.nil_append, checkLoop, h1, h2, ↓reduceIte, ihh]

theorem checkBulk_legal (ver : Ver) (e : Enc) (n : List Nat) (hn : ∀ c ∈ n, legalChar ver c = true) :
    checkBulk e (utf16Encode n) = .ok () := by
  unfold checkBulk
  cases e.fx.bulkCheck
  · rfl
  · simp only [↓reduceIte]; exact checkLoop_legal ver n hn

/-- a name is written as itself in every encoding -/
theorem wName_enc (ver : Ver) (e : Enc) (n : List Nat) (hn : NameOk ver e n) :
    ∃ it, wName e (utf16Encode n) = .ok it ∧ unitsOf it = encodeOut e.kind n := by
  unfold wName
  rw [checkBulk_legal ver e n (fun c hc => (hn c hc).1)]
  simp only [bind, Except.bind]
  unfold wNameRaw
  cases hk : e.kind with
  | utf8 =>
    obtain ⟨it, h1, h2⟩ := utf8Units_enc n (fun c hc => legal_scalar ver c (hn c hc).1)
    exact ⟨it, h1, by simpa [encodeOut] using h2⟩
  | utf16 => exact ⟨_, rfl, by simp [unitsOf, Item.units, encodeOut, utf16Encode]⟩
  | other =>
    obtain ⟨it, h1, h2⟩ := otherNameLoop_enc ver e hk n hn
    exact ⟨it, h1, by rw [hk] at h2; exact h2⟩

/-- the same for `m_writer.write(const XalanDOMChar*)` (the name inside the DOCTYPE declaration): any ASCII string -/
theorem wChars (e : Enc) (ha : AsciiOk e) (l : List Nat) (h : Ascii l) (k : WK) :
    unitsOf (l.flatMap (wChar e)) = encodeOut k l := by
  rw [flatMap_wChar_ascii e ha l h, encodeOut_ascii k l h]


structure DocHyp (c : Cfg) : Prop where
  ha : AsciiOk c.enc
  hcons : c.enc.fx.rejectNonChar = true → c.enc.fx.utf16Pairs = true
  hcd : CDHyp c.cdata c.enc

theorem wChar_units (e : Enc) (ha : AsciiOk e) (u : Nat) (h : u < 128) (k : WK) : unitsOf (wChar e u) = encodeOut k [u] := by
  rw [wChar_ascii e ha u h, encodeOut_ascii k [u] (by intro x hx; simp at hx; omega)]

theorem writeAttrs_enc (c : Cfg) (H : DocHyp c) (a : List (List Nat × List Nat)) (hok : AttrsOk c.ver c.enc a) :
    ∃ it out, writeAttrs c (encAttrs a) = .ok it ∧ absAttrs c.ver (canEncOf c.enc) a = .ok out ∧
      unitsOf it = encodeOut c.enc.kind out := by
  induction a with
  | nil => exact ⟨[], [], rfl, rfl, by cases c.enc.kind <;> rfl⟩
  | cons p rest ih =>
    obtain ⟨n, v⟩ := p
    obtain ⟨r, rout, hr, hro, hru⟩ := ih (fun q hq => hok q (by simp [hq]))
    obtain ⟨hn, hv⟩ := hok (n, v) (by simp)
    obtain ⟨nn, hnn, hnu⟩ := wName_enc c.ver c.enc n hn
    obtain ⟨vv, vout, hvv, hvo, hvu⟩ := escLoop_refines c.ver c.enc H.ha true (pAttribute c.ver) (writeDefaultAttributeEscape c.ver c.enc)
      (fun _ => by simp) (fun x hle hs hlc => escape_attr c.ver c.enc H.ha x hle hs hlc) H.hcons v hv [] (by intro u hu; simp at hu)
    have hvv' : writeAttrString c.ver c.enc (utf16Encode v) = .ok vv := hvv
    refine ⟨wChar c.enc 32 ++ nn ++ wChar c.enc 61 ++ wChar c.enc 34 ++ vv ++ wChar c.enc 34 ++ r,
      [32] ++ n ++ [61, 34] ++ vout ++ [34] ++ rout, ?_, ?_, ?_⟩
    · simp only [encAttrs, List.map_cons, writeAttrs, hnn, hvv', bind, Except.bind, pure, Except.pure]
      have : writeAttrs c (List.map (fun p => (utf16Encode p.1, utf16Encode p.2)) rest) = .ok r := hr
      rw [this]
    · simp only [absAttrs, hvo, hro, bind, Except.bind, pure, Except.pure]
    · simp only [unitsOf_append, encodeOut_append, wChar_units c.enc H.ha 32 (by omega) c.enc.kind,
        wChar_units c.enc H.ha 61 (by omega) c.enc.kind, wChar_units c.enc H.ha 34 (by omega) c.enc.kind, hnu, hvu, hru,
        List.nil_append]
      have : encodeOut c.enc.kind [61, 34] = encodeOut c.enc.kind [61] ++ encodeOut c.enc.kind [34] := by
        rw [← encodeOut_append]; rfl
      rw [this]; simp [List.append_assoc]

theorem writeCDATA_refines (cfg : CDataCfg) (ver : Ver) (e : Enc) (H : CDHyp cfg e) (cs : List Nat)
    (hl : ∀ c ∈ cs, legalChar ver c = true) (hlen : (utf16Encode cs).length < 18446744073709551616) :
    ∃ items out, writeCDATA cfg ver e (utf16Encode cs ++ [0]) (utf16Encode cs).length = .ok items ∧
      absCDATA ver (canEncOf e) cs = .ok out ∧ unitsOf items = encodeOut e.kind out := by
  obtain ⟨hO, hC⟩ := cdata_strings e
  have hOa : Ascii OPEN := by intro u hu; simp [OPEN] at hu; omega
  have hCa : Ascii CLOSE := by intro u hu; simp [CLOSE] at hu; omega
  obtain ⟨items, outb, o', h1, h2, h3⟩ :=
    cdataLoop_refines cfg ver e H _ hlen cs 0 0 false hl (Or.inl rfl) (by simp) (fun _ => rfl)
  have hfin : Ascii (if o' = true then [] else CLOSE) := by cases o' <;> simp [Ascii]; exact hCa
  refine ⟨wConst e (cdataOpen e) ++ items ++ [] ++ (if o' = false then wConst e (cdataClose e) else []),
    OPEN ++ outb ++ (if o' = true then [] else CLOSE), ?_, ?_, ?_⟩
  · unfold writeCDATA
    simp only [h1, bind, Except.bind, pure, Except.pure, H.hnoreopen, H.hclose, Bool.false_eq_true, false_and, ↓reduceIte,
      Bool.true_eq_false, false_or]
  · simp only [absCDATA, h2, bind, Except.bind, pure, Except.pure]
  · rw [encodeOut_append, encodeOut_append, encodeOut_ascii _ _ hOa, encodeOut_ascii _ _ hfin]
    cases o' <;> simp [unitsOf_append, hO, hC, wConst_ascii e H.ha _ hOa, wConst_ascii e H.ha _ hCa, h3]


theorem utf16Encode_isEmpty (s : List Nat) : (utf16Encode s).isEmpty = s.isEmpty := by
  cases s with
  | nil => rfl
  | cons c cs =>
    rw [enc_cons]
    have : utf16EncodeOne c ≠ [] := by unfold utf16EncodeOne; split <;> simp
    cases h : utf16EncodeOne c with
    | nil => exact absurd h this
    | cons a b => rfl

theorem silent_toUnits (k : XNode) : silent (toUnits k) = silent k := by
  cases k <;> simp [toUnits, silent, utf16Encode_isEmpty]

theorem all_silent_toUnitsL (ks : List XNode) : (toUnitsL ks).all silent = ks.all silent := by
  induction ks with
  | nil => rfl
  | cons k ks ih => simp [toUnitsL, List.all_cons, silent_toUnits, ih]

def NodeEnc (c : Cfg) (t : XNode) : Prop :=
  TreeOk c.ver c.enc t → ∃ items out, serNode c (toUnits t) = .ok items ∧
    absNode c.ver (canEncOf c.enc) (spaceBeforeClose c) t = .ok out ∧ unitsOf items = encodeOut c.enc.kind out

def KidsEnc (c : Cfg) (ks : List XNode) : Prop :=
  KidsOkT c.ver c.enc ks → ∃ items out, serKids c (toUnitsL ks) = .ok items ∧
    absKids c.ver (canEncOf c.enc) (spaceBeforeClose c) ks = .ok out ∧ unitsOf items = encodeOut c.enc.kind out

theorem text_enc (c : Cfg) (H : DocHyp c) (s : List Nat) : NodeEnc c (.text s) := by
  intro hok
  simp only [TreeOk] at hok
  simp only [toUnits, serNode, absNode, utf16Encode_isEmpty]
  cases hs : s.isEmpty with
  | true => exact ⟨[], [], rfl, rfl, by cases c.enc.kind <;> rfl⟩
  | false =>
    obtain ⟨items, out, h1, h2, h3⟩ := escLoop_refines c.ver c.enc H.ha false (pContent c.ver) (writeDefaultEscape c.ver c.enc)
      (fun _ => by simp) (fun x hle hsp hlc => escape_content c.ver c.enc H.ha x hle hsp hlc) H.hcons s hok [] (by intro u hu; simp at hu)
    simp only [Bool.false_eq_true, ↓reduceIte]
    exact ⟨items, out, h1, h2, by simpa using h3⟩

theorem cdata_enc (c : Cfg) (H : DocHyp c) (s : List Nat) : NodeEnc c (.cdata s) := by
  intro hok
  simp only [TreeOk] at hok
  simp only [toUnits, serNode, absNode, utf16Encode_isEmpty]
  cases hs : s.isEmpty with
  | true => exact ⟨[], [], rfl, rfl, by cases c.enc.kind <;> rfl⟩
  | false =>
    obtain ⟨items, out, h1, h2, h3⟩ := writeCDATA_refines c.cdata c.ver c.enc H.hcd s hok.1 hok.2
    simp only [Bool.false_eq_true, ↓reduceIte]
    exact ⟨items, out, h1, h2, h3⟩

theorem enc5 (k : WK) (a : List Nat) (ha : Ascii a) (m : List Nat) (b : List Nat) (hb : Ascii b) :
    a ++ encodeOut k m ++ b = encodeOut k (a ++ m ++ b) := by
  rw [encodeOut_append, encodeOut_append, encodeOut_ascii k a ha, encodeOut_ascii k b hb]

theorem comment_enc (c : Cfg) (H : DocHyp c) (s : List Nat) : NodeEnc c (.comment s) := by
  intro hok
  simp only [TreeOk] at hok
  obtain ⟨d, hd, hdu⟩ := normLoop_identity c.ver c.enc H.ha H.hcons s hok
  have hd' : writeNormalizedData c.ver c.enc (utf16Encode s) = .ok d := hd
  refine ⟨wChar c.enc 60 ++ wChar c.enc 33 ++ wChar c.enc 45 ++ wChar c.enc 45 ++ d
          ++ wChar c.enc 45 ++ wChar c.enc 45 ++ wChar c.enc 62, _, ?_, rfl, ?_⟩
  · simp only [toUnits, serNode, commentItems, hd', bind, Except.bind, pure, Except.pure]
  · simp only [unitsOf_append, wChar_ascii c.enc H.ha 60 (by omega), wChar_ascii c.enc H.ha 33 (by omega),
      wChar_ascii c.enc H.ha 45 (by omega), wChar_ascii c.enc H.ha 62 (by omega), hdu]
    have := enc5 c.enc.kind [60, 33, 45, 45] (by intro u hu; simp at hu; omega) s [45, 45, 62] (by intro u hu; simp at hu; omega)
    simpa [List.append_assoc] using this

theorem ws_head (d0 : Nat) (ds : List Nat) (hs : IsScalar d0) :
    ∃ u t, utf16Encode (d0 :: ds) = u :: t ∧ isXMLWhitespace u = isXMLWhitespace d0 := by
  obtain ⟨u, t, hu, huk⟩ := enc_head d0 hs
  refine ⟨u, t ++ utf16Encode ds, by rw [enc_cons, hu]; rfl, ?_⟩
  have e32 := huk 32 (by omega); have e9 := huk 9 (by omega); have e13 := huk 13 (by omega); have e10 := huk 10 (by omega)
  simp only [isXMLWhitespace]
  by_cases h1 : d0 = 32
  · simp [h1, e32.mpr h1]
  · by_cases h2 : d0 = 9
    · simp [h2, e9.mpr h2]
    · by_cases h3 : d0 = 13
      · simp [h3, e13.mpr h3]
      · by_cases h4 : d0 = 10
        · simp [h4, e10.mpr h4]
        · have g1 : u ≠ 32 := fun e => h1 (e32.mp e)
          have g2 : u ≠ 9 := fun e => h2 (e9.mp e)
          have g3 : u ≠ 13 := fun e => h3 (e13.mp e)
          have g4 : u ≠ 10 := fun e => h4 (e10.mp e)
          simp [h1, h2, h3, h4, g1, g2, g3, g4]

theorem pi_enc (c : Cfg) (H : DocHyp c) (t d : List Nat) : NodeEnc c (.pi t d) := by
  intro hok
  simp only [TreeOk] at hok
  obtain ⟨hnt, hdok⟩ := hok
  obtain ⟨nn, hnn, hnu⟩ := wName_enc c.ver c.enc t hnt
  obtain ⟨dd, hd, hdu⟩ := normLoop_identity c.ver c.enc H.ha H.hcons d hdok
  have hd' : writeNormalizedData c.ver c.enc (utf16Encode d) = .ok dd := hd
  have h60 := wChar_ascii c.enc H.ha 60 (by omega)
  have h63 := wChar_ascii c.enc H.ha 63 (by omega)
  have h62 := wChar_ascii c.enc H.ha 62 (by omega)
  have h32 := wChar_ascii c.enc H.ha 32 (by omega)
  have e32 : encodeOut c.enc.kind [32] = [32] := encodeOut_ascii _ _ (by intro u hu; simp at hu; omega)
  have eA : encodeOut c.enc.kind [60, 63] = [60, 63] := encodeOut_ascii _ _ (by intro u hu; simp at hu; omega)
  have eB : encodeOut c.enc.kind [63, 62] = [63, 62] := encodeOut_ascii _ _ (by intro u hu; simp at hu; omega)
  have eN : encodeOut c.enc.kind [] = [] := by cases c.enc.kind <;> rfl
  cases d with
  | nil =>
    have hd2 : writeNormalizedData c.ver c.enc [] = .ok dd := hd'
    refine ⟨wChar c.enc 60 ++ wChar c.enc 63 ++ nn ++ [] ++ dd ++ wChar c.enc 63 ++ wChar c.enc 62, _, ?_, rfl, ?_⟩
    · have : toUnits (.pi t []) = .pi (utf16Encode t) [] := rfl
      rw [this]
      simp only [serNode, piItems, hnn, hd2, bind, Except.bind, pure, Except.pure]
    · simp only [unitsOf_append, h60, h63, h62, hnu, hdu, unitsOf_nil, encodeOut_append, eA, eB, List.append_nil]
      simp [eN]
  | cons d0 ds =>
    obtain ⟨u, tl, hE, hws⟩ := ws_head d0 ds (legal_scalar c.ver d0 (hdok d0 (by simp)).1)
    have hd2 : writeNormalizedData c.ver c.enc (u :: tl) = .ok dd := by rw [← hE]; exact hd'
    have hU : toUnits (.pi t (d0 :: ds)) = .pi (utf16Encode t) (u :: tl) := by simp only [toUnits, hE]
    cases hw : isXMLWhitespace d0 with
    | true =>
      have hwu : isXMLWhitespace u = true := by rw [hws]; exact hw
      refine ⟨wChar c.enc 60 ++ wChar c.enc 63 ++ nn ++ [] ++ dd ++ wChar c.enc 63 ++ wChar c.enc 62, _, ?_, rfl, ?_⟩
      · rw [hU]; simp only [serNode, piItems, hnn, hd2, hwu, ↓reduceIte, bind, Except.bind, pure, Except.pure]
      · simp only [↓reduceIte, unitsOf_append, h60, h63, h62, hnu, hdu, unitsOf_nil, encodeOut_append, eA, eB, List.append_nil,
          encodeOut_ascii c.enc.kind [] (by intro u hu; simp at hu)]
        simp [eN, hw]
    | false =>
      have hwu : isXMLWhitespace u = false := by rw [hws]; exact hw
      refine ⟨wChar c.enc 60 ++ wChar c.enc 63 ++ nn ++ wChar c.enc 32 ++ dd ++ wChar c.enc 63 ++ wChar c.enc 62, _, ?_, rfl, ?_⟩
      · rw [hU]; simp only [serNode, piItems, hnn, hd2, hwu, Bool.false_eq_true, ↓reduceIte, bind, Except.bind, pure, Except.pure]
      · simp only [Bool.false_eq_true, ↓reduceIte, unitsOf_append, h60, h63, h62, h32, hnu, hdu, encodeOut_append, eA, eB, e32]
        simp [eN, hw, e32]


theorem kids_nil_enc (c : Cfg) : KidsEnc c [] := by
  intro _
  exact ⟨[], [], rfl, rfl, by cases c.enc.kind <;> rfl⟩

theorem kids_cons_enc (c : Cfg) (k : XNode) (ks : List XNode) (hk : NodeEnc c k) (hks : KidsEnc c ks) :
    KidsEnc c (k :: ks) := by
  intro hok
  simp only [KidsOkT] at hok
  obtain ⟨a, ao, h1, h2, h3⟩ := hk hok.1
  obtain ⟨b, bo, g1, g2, g3⟩ := hks hok.2
  refine ⟨a ++ b, ao ++ bo, ?_, ?_, by rw [unitsOf_append, h3, g3, encodeOut_append]⟩
  · simp only [toUnitsL, serKids, h1, g1, bind, Except.bind, pure, Except.pure]
  · simp only [absKids, h2, g2, bind, Except.bind, pure, Except.pure]

theorem elem_enc (c : Cfg) (H : DocHyp c) (n : List Nat) (a : List (List Nat × List Nat)) (kids : List XNode)
    (hks : KidsEnc c kids) : NodeEnc c (.elem n a kids) := by
  intro hok
  simp only [TreeOk] at hok
  obtain ⟨hn, hattrs, hkids⟩ := hok
  obtain ⟨nn, hnn, hnu⟩ := wName_enc c.ver c.enc n hn
  obtain ⟨aa, aout, ha1, ha2, ha3⟩ := writeAttrs_enc c H a hattrs
  obtain ⟨kk, kout, hk1, hk2, hk3⟩ := hks hkids
  have h60 := wChar_ascii c.enc H.ha 60 (by omega)
  have h62 := wChar_ascii c.enc H.ha 62 (by omega)
  have h47 := wChar_ascii c.enc H.ha 47 (by omega)
  have h32 := wChar_ascii c.enc H.ha 32 (by omega)
  have eN : encodeOut c.enc.kind [] = [] := by cases c.enc.kind <;> rfl
  have e1 : ∀ x, x < 128 → encodeOut c.enc.kind [x] = [x] := fun x hx => encodeOut_ascii _ _ (by intro u hu; simp at hu; omega)
  have e2 : ∀ x y, x < 128 → y < 128 → encodeOut c.enc.kind [x, y] = [x, y] :=
    fun x y hx hy => encodeOut_ascii _ _ (by intro u hu; simp at hu; omega)
  have hU : toUnits (.elem n a kids) = .elem (utf16Encode n) (encAttrs a) (toUnitsL kids) := by simp only [toUnits]
  rw [hU]
  cases hall : kids.all silent with
  | true =>
    have hall' : (toUnitsL kids).all silent = true := by rw [all_silent_toUnitsL]; exact hall
    cases hx : spaceBeforeClose c with
    | true =>
      rw [hx] at hk2
      refine ⟨wChar c.enc 60 ++ nn ++ aa ++ wChar c.enc 32 ++ wChar c.enc 47 ++ wChar c.enc 62,
        [60] ++ n ++ aout ++ [32] ++ [47, 62], ?_, ?_, ?_⟩
      · simp only [serNode, hnn, ha1, hk1, hall', hx, ↓reduceIte, bind, Except.bind, pure, Except.pure]
      · simp only [absNode, ha2, hk2, hall, ↓reduceIte, bind, Except.bind, pure, Except.pure]
      · simp only [unitsOf_append, h60, h62, h47, h32, hnu, ha3, encodeOut_append, e1 60 (by omega), e1 32 (by omega), e2 47 62 (by omega) (by omega)]
        simp
    | false =>
      rw [hx] at hk2
      refine ⟨wChar c.enc 60 ++ nn ++ aa ++ [] ++ wChar c.enc 47 ++ wChar c.enc 62,
        [60] ++ n ++ aout ++ [] ++ [47, 62], ?_, ?_, ?_⟩
      · simp only [serNode, hnn, ha1, hk1, hall', hx, Bool.false_eq_true, ↓reduceIte, bind, Except.bind, pure, Except.pure]
      · simp only [absNode, ha2, hk2, hall, Bool.false_eq_true, ↓reduceIte, bind, Except.bind, pure, Except.pure]
      · simp only [unitsOf_append, unitsOf_nil, h60, h62, h47, hnu, ha3, encodeOut_append, e1 60 (by omega), e2 47 62 (by omega) (by omega), eN]
        simp
  | false =>
    have hall' : (toUnitsL kids).all silent = false := by rw [all_silent_toUnitsL]; exact hall
    refine ⟨wChar c.enc 60 ++ nn ++ aa ++ wChar c.enc 62 ++ kk ++ wChar c.enc 60 ++ wChar c.enc 47 ++ nn ++ wChar c.enc 62,
      [60] ++ n ++ aout ++ [62] ++ kout ++ [60, 47] ++ n ++ [62], ?_, ?_, ?_⟩
    · simp only [serNode, hnn, ha1, hk1, hall', Bool.false_eq_true, ↓reduceIte, bind, Except.bind, pure, Except.pure]
    · simp only [absNode, ha2, hk2, hall, Bool.false_eq_true, ↓reduceIte, bind, Except.bind, pure, Except.pure]
    · simp only [unitsOf_append, h60, h62, h47, hnu, ha3, hk3, encodeOut_append, e1 60 (by omega), e1 62 (by omega), e2 60 47 (by omega) (by omega)]
      simp

/-- every tree: the items the serializer writes are the encoding of the character-level document -/
theorem node_enc (c : Cfg) (H : DocHyp c) (t : XNode) : NodeEnc c t := by
  refine XNode.rec (motive_1 := fun t => NodeEnc c t) (motive_2 := fun ks => KidsEnc c ks)
    (fun n a kids ih => elem_enc c H n a kids ih) (fun s => text_enc c H s) (fun s => cdata_enc c H s)
    (fun s => comment_enc c H s) (fun t d => pi_enc c H t d) (kids_nil_enc c) (fun k ks ihk ihks => kids_cons_enc c k ks ihk ihks) t

end XalanModel.C04
