/-!
# C04 — the output transcoder as a state machine

`XalanOutputStream` hands the document to its transcoder chunk by chunk (`transcode`, one call per flush of its
buffer), and between two chunks `XalanOtherEncodingWriter` asks `canTranscodeTo(c)` for every character it buffers.
For a *stateful* encoding (ISO-2022-JP, ISO-2022-KR, UTF-7, SCSU) the converter carries a shift state from one call
to the next.  This file is the minimal abstraction of that: a converter is a step function on a shift state; a probe
is a function on the shift state (what `canTranscodeTo` leaves behind); the stream is a sequence of chunks with probes
in between.  Core Lean only.
-/
namespace XalanModel.C04

/-- a converter from UTF-16 units to bytes with a shift state `σ` -/
structure Transcoder (σ : Type) where
  init : σ
  /-- one unit: the new shift state and the bytes written -/
  step : σ → Nat → σ × List Nat
  /-- the shift state after `canTranscodeTo(c)` was answered by *this* converter object -/
  probe : σ → Nat → σ

/-- `transcode(units)`: one call -/
def Transcoder.run {σ : Type} (t : Transcoder σ) : σ → List Nat → σ × List Nat
  | s, [] => (s, [])
  | s, u :: us =>
    let r := t.step s u
    let r2 := t.run r.1 us
    (r2.1, r.2 ++ r2.2)

/-- what happens to the converter of the output stream, in call order -/
inductive TOp
  | chunk (units : List Nat)     -- `XalanOutputStream::doWrite` → `transcode`
  | probe (c : Nat)              -- `XalanOutputStream::canTranscodeTo`

/-- `own = true`: the probe is answered by a second converter object (the stream's converter is not touched);
`own = false`: by the converter that writes the document -/
def Transcoder.runOps {σ : Type} (t : Transcoder σ) (own : Bool) : σ → List TOp → σ × List Nat
  | s, [] => (s, [])
  | s, .chunk us :: ops =>
    let r := t.run s us
    let r2 := t.runOps own r.1 ops
    (r2.1, r.2 ++ r2.2)
  | s, .probe c :: ops => t.runOps own (if own then s else t.probe s c) ops

/-- the units of all chunks, in order -/
def TOp.units : List TOp → List Nat
  | [] => []
  | .chunk us :: ops => us ++ TOp.units ops
  | .probe _ :: ops => TOp.units ops

theorem Transcoder.run_append {σ : Type} (t : Transcoder σ) (a b : List Nat) (s : σ) :
    t.run s (a ++ b) = ((t.run (t.run s a).1 b).1, (t.run s a).2 ++ (t.run (t.run s a).1 b).2) := by
  induction a generalizing s with
  | nil => simp [Transcoder.run]
  | cons u us ih => simp only [List.cons_append, Transcoder.run, ih, List.append_assoc]

/-- chunked transcoding with probes in between = one call on the whole document, provided the probes do not touch the
shift state: they go to another converter object (`own`), or the converter's probe is pure -/
theorem Transcoder.runOps_eq_run {σ : Type} (t : Transcoder σ) (own : Bool)
    (h : own = true ∨ ∀ s c, t.probe s c = s) (ops : List TOp) (s : σ) :
    t.runOps own s ops = t.run s (TOp.units ops) := by
  induction ops generalizing s with
  | nil => rfl
  | cons op ops ih =>
    cases op with
    | chunk us => simp only [Transcoder.runOps, TOp.units, ih, Transcoder.run_append]
    | probe c =>
      simp only [Transcoder.runOps, TOp.units]
      rcases h with h | h
      · subst h; simp only [↓reduceIte]; exact ih s
      · cases own
        · simp only [Bool.false_eq_true, ↓reduceIte, h]; exact ih s
        · simp only [↓reduceIte]; exact ih s

/-! ## a two-state converter in the manner of ISO-2022-JP, with the probe ICU / Xerces implement

ASCII is written as it is; any other unit `u` as two bytes in "kana" mode; `ESC $ B` enters the mode, `ESC ( B` leaves
it.  `canTranscodeTo` converts the character with `flush = true`, which leaves the converter reset: initial state. -/

inductive Shift | ascii | kana
  deriving DecidableEq, Repr

def iso2022 : Transcoder Shift where
  init := .ascii
  step := fun s u =>
    if u < 128 then (match s with | .ascii => (.ascii, [u]) | .kana => (.ascii, [27, 40, 66, u]))
    else (match s with | .ascii => (.kana, [27, 36, 66, u / 256 % 128, u % 128]) | .kana => (.kana, [u / 256 % 128, u % 128]))
  probe := fun _ _ => .ascii

end XalanModel.C04
