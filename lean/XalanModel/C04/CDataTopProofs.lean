import XalanModel.C04.CDataProofs
namespace XalanModel.C04
open Spec XalanModel.Generated.C04

theorem ascii_scalar (l : List Nat) (h : Ascii l) : ∀ y ∈ l, IsScalar y := by
  intro y hy; have := h y hy; unfold IsScalar; omega

theorem absCD_scalars (ver : Ver) (ce : Nat → Bool) :
    ∀ (l : List Nat) (skip : Nat) (o : Bool) (out : List Nat) (o' : Bool),
      absCD ver ce l skip o = .ok (out, o') → (∀ c ∈ l, IsScalar c) → ∀ y ∈ out, IsScalar y := by
  have hOa : Ascii OPEN := by intro u hu; simp [OPEN] at hu; omega
  have hCa : Ascii CLOSE := by intro u hu; simp [CLOSE] at hu; omega
  intro l
  induction l with
  | nil =>
    intro skip o out o' h _
    simp only [absCD] at h
    injection h with h; injection h with h1 _; subst h1
    intro y hy; simp at hy
  | cons c rest ih =>
    intro skip o out o' h hs
    have hsr : ∀ x ∈ rest, IsScalar x := fun x hx => hs x (by simp [hx])
    have hsc := hs c (by simp)
    cases skip with
    | succ k => simp only [absCD] at h; exact ih k o out o' h hsr
    | zero =>
      unfold absCD at h
      have hpiece : ∀ (pre b : List Nat) (o1 o2 : Bool), absCD ver ce rest (if pre = [] then 0 else 0) o1 = .ok (b, o2) → True := fun _ _ _ _ _ => trivial
      by_cases ht : c = 93 ∧ rest.take 2 = [93, 62]
      · rw [if_pos ht] at h
        obtain ⟨⟨b, o2⟩, hb, hy⟩ := bind_ok_inv _ _ _ h
        simp only [pure, Except.pure] at hy
        injection hy with hy; injection hy with hy1 hy2; subst hy1
        intro y hy
        rcases List.mem_append.mp hy with hy | hy
        · have hA : Ascii ((if o = true then OPEN else []) ++ [93, 93] ++ CLOSE ++ OPEN ++ [62]) := by
            cases o <;> (intro u hu; simp [OPEN, CLOSE] at hu; omega)
          exact ascii_scalar _ hA y hy
        · exact ih 2 false b o2 hb hsr y hy
      · rw [if_neg ht] at h
        by_cases h10 : c = 10
        · rw [if_pos h10] at h
          obtain ⟨⟨b, o2⟩, hb, hy⟩ := bind_ok_inv _ _ _ h
          simp only [pure, Except.pure] at hy
          injection hy with hy; injection hy with hy1 hy2; subst hy1
          intro y hy
          rcases List.mem_cons.mp hy with hy | hy
          · subst hy; unfold IsScalar; omega
          · exact ih 0 o b o2 hb hsr y hy
        · rw [if_neg h10] at h
          by_cases href : c = 13 ∨ (ver = .v11 ∧ (pCharRefForbidden ver c = true ∨ c = 0x85 ∨ c = 0x2028))
          · rw [if_pos href] at h
            obtain ⟨⟨b, o2⟩, hb, hy⟩ := bind_ok_inv _ _ _ h
            simp only [pure, Except.pure] at hy
            injection hy with hy; injection hy with hy1 hy2; subst hy1
            intro y hy
            rcases List.mem_append.mp hy with hy | hy
            · have hA : Ascii (if o = true then ncrText c else CLOSE ++ ncrText c ++ OPEN) := by
                cases o
                · intro u hu
                  simp only [Bool.false_eq_true, ↓reduceIte, List.mem_append] at hu
                  rcases hu with (hu | hu) | hu
                  · exact hCa u hu
                  · exact ncrText_ascii c u hu
                  · exact hOa u hu
                · simpa using ncrText_ascii c
              exact ascii_scalar _ hA y hy
            · exact ih 0 o b o2 hb hsr y hy
          · rw [if_neg href] at h
            by_cases hforb : pCharRefForbidden ver c = true
            · rw [if_pos hforb] at h; cases h
            · rw [if_neg hforb] at h
              by_cases hce : ce c = true
              · rw [if_pos hce] at h
                obtain ⟨⟨b, o2⟩, hb, hy⟩ := bind_ok_inv _ _ _ h
                simp only [pure, Except.pure] at hy
                injection hy with hy; injection hy with hy1 hy2; subst hy1
                intro y hy
                rcases List.mem_append.mp hy with hy | hy
                · rcases List.mem_append.mp hy with hy | hy
                  · have : Ascii (if o = true then OPEN else []) := by cases o <;> simp [Ascii]; exact hOa
                    exact ascii_scalar _ this y hy
                  · simp at hy; subst hy; exact hsc
                · exact ih 0 false b o2 hb hsr y hy
              · rw [if_neg hce] at h
                obtain ⟨⟨b, o2⟩, hb, hy⟩ := bind_ok_inv _ _ _ h
                simp only [pure, Except.pure] at hy
                injection hy with hy; injection hy with hy1 hy2; subst hy1
                intro y hy
                rcases List.mem_append.mp hy with hy | hy
                · rcases List.mem_append.mp hy with hy | hy
                  · have : Ascii (if o = true then [] else CLOSE) := by cases o <;> simp [Ascii]; exact hCa
                    exact ascii_scalar _ this y hy
                  · exact ascii_scalar _ (ncrText_ascii c) y hy
                · exact ih 0 true b o2 hb hsr y hy

/-- `writeCDATA` of the working tree: written, decoded and read back -/
theorem writeCDATA_roundtrip (cfg : CDataCfg) (ver : Ver) (e : Enc) (H : CDHyp cfg e) (cs : List Nat)
    (hl : ∀ c ∈ cs, legalChar ver c = true) (hlen : (utf16Encode cs).length < 18446744073709551616) :
    ∃ items out, writeCDATA cfg ver e (utf16Encode cs ++ [0]) (utf16Encode cs).length = .ok items ∧
      decodeOut e.kind (unitsOf items) = some out ∧ readCD ver out = some cs := by
  obtain ⟨hO, hC⟩ := cdata_strings e
  have hOa : Ascii OPEN := by intro u hu; simp [OPEN] at hu; omega
  have hCa : Ascii CLOSE := by intro u hu; simp [CLOSE] at hu; omega
  obtain ⟨items, outb, o', h1, h2, h3⟩ :=
    cdataLoop_refines cfg ver e H _ hlen cs 0 0 false hl (Or.inl rfl) (by simp) (fun _ => rfl)
  have hfin : Ascii (finOf o') := by cases o' <;> simp [finOf, Ascii]; exact hCa
  refine ⟨wConst e (cdataOpen e) ++ items ++ [] ++ (if o' = false then wConst e (cdataClose e) else []),
    OPEN ++ outb ++ finOf o', ?_, ?_, ?_⟩
  · unfold writeCDATA
    simp only [h1, bind, Except.bind, pure, Except.pure, H.hnoreopen, H.hclose, Bool.false_eq_true, false_and, ↓reduceIte,
      Bool.true_eq_false, false_or]
  · have hu : unitsOf (wConst e (cdataOpen e) ++ items ++ [] ++ (if o' = false then wConst e (cdataClose e) else []))
        = encodeOut e.kind (OPEN ++ outb ++ finOf o') := by
      rw [encodeOut_append, encodeOut_append, encodeOut_ascii _ _ hOa, encodeOut_ascii _ _ hfin]
      cases o' <;> simp [unitsOf_append, hO, hC, wConst_ascii e H.ha _ hOa, wConst_ascii e H.ha _ hCa, h3, finOf]
    rw [hu]
    apply decodeOut_encodeOut
    intro y hy
    rcases List.mem_append.mp hy with hy | hy
    · rcases List.mem_append.mp hy with hy | hy
      · exact ascii_scalar _ hOa y hy
      · exact absCD_scalars ver _ cs 0 false outb o' h2 (fun c hc => legal_scalar ver c (hl c hc)) y hy
    · exact ascii_scalar _ hfin y hy
  · unfold readCD
    have hlen9 : (OPEN ++ outb ++ finOf o').length = ((outb ++ finOf o').length + 8) + 1 := by
      simp [OPEN, List.length_append]
    rw [hlen9, List.append_assoc, rd_open]
    have := readCDF_absCD ver (canEncOf e) cs 0 false 0 outb o' h2 hl
      (fun _ => ⟨fun h => by omega, fun h => by omega⟩) ((outb ++ finOf o').length + 8) (by omega)
    simpa [modeOf, pendOf] using this

end XalanModel.C04
