import XalanModel.C04.DocChars
import XalanModel.C04.CommentPI
/-!
# C04 — a reader for the documents the serializer writes (characters → tree)

Specification side: element tags with attributes, empty-element tags (also ` />`), end tags, comments, processing
instructions, and *text runs* (literal characters, the predefined entities, decimal character references, CDATA
sections) — XML 1.0/1.1 §2.4–2.7, §3.1, §4.1, restricted to what it accepts (no DOCTYPE, no entity declarations,
no hexadecimal references, names are runs of non-delimiter characters).  A text run is one text node, as for a
parser; CDATA sections are not distinguished from text.
-/
namespace XalanModel.C04.Spec
open XalanModel.C04

/-- characters that may occur in a name as far as this reader is concerned: legal and not a delimiter -/
def nameCh (ver : Ver) (c : Nat) : Bool :=
  legalChar ver c && !([9, 10, 13, 32, 33, 34, 38, 39, 47, 60, 61, 62, 63].contains c)

/-- a text run with continuation: like `readCDF`, but outside a CDATA section it stops in front of a `<` that does
not open a section (markup follows) -/
def readRunF (ver : Ver) : Nat → Option Nat → List Nat → Option (List Nat × List Nat)
  | _, none, [] => some ([], [])
  | _, some _, [] => none
  | f, none, c :: r =>
    if c = 60 ∧ (c :: r).take 9 ≠ OPEN then some ([], c :: r)
    else match f with
      | 0 => none
      | f + 1 =>
        if (c :: r).take 9 = OPEN then readRunF ver f (some 0) (r.drop 8)
        else match readOne ver false (c :: r) with
          | some (v, r') => (readRunF ver f none r').map fun p => (v :: p.1, p.2)
          | none => none
  | 0, some _, _ :: _ => none
  | f + 1, some nb, c :: r =>
    if c = 93 then readRunF ver f (some (nb + 1)) r
    else if c = 62 ∧ 2 ≤ nb then (readRunF ver f none r).map fun p => (List.replicate (nb - 2) 93 ++ p.1, p.2)
    else if insideOk ver c then (readRunF ver f (some 0) r).map fun p => (List.replicate nb 93 ++ [c] ++ p.1, p.2)
    else none

/-- split at the first `--` -/
def splitDD : List Nat → Option (List Nat × List Nat)
  | [] => none
  | a :: rest =>
    match rest with
    | [] => none
    | b :: r => if a = 45 ∧ b = 45 then some ([], r) else (splitDD rest).map fun p => (a :: p.1, p.2)

/-- split at the first `?>` -/
def splitPIEnd : List Nat → Option (List Nat × List Nat)
  | [] => none
  | a :: rest =>
    match rest with
    | [] => none
    | b :: r => if a = 63 ∧ b = 62 then some ([], r) else (splitPIEnd rest).map fun p => (a :: p.1, p.2)

/-- an attribute value after its opening quote, up to the closing quote -/
def readAttrVal (ver : Ver) : Nat → List Nat → Option (List Nat × List Nat)
  | 0, _ => none
  | _ + 1, [] => none
  | f + 1, c :: r =>
    if c = 34 then some ([], r)
    else match readOne ver true (c :: r) with
      | some (v, r') => (readAttrVal ver f r').map fun p => (v :: p.1, p.2)
      | none => none

/-- attributes after the element name: ` name="value"` repeated; stops in front of `>`, `/>` or ` />` -/
def readAttrs (ver : Ver) : Nat → List Nat → Option (List (List Nat × List Nat) × List Nat)
  | 0, _ => none
  | f + 1, l =>
    if l.head? = some 32 ∧ l.tail.head? ≠ some 47 then
      let n := (l.tail.takeWhile (nameCh ver))
      let r1 := (l.tail.dropWhile (nameCh ver))
      if n.isEmpty then none
      else if r1.take 2 = [61, 34] then
        match readAttrVal ver f (r1.drop 2) with
        | some (v, r2) => (readAttrs ver f r2).map fun p => ((n, v) :: p.1, p.2)
        | none => none
      else none
    else some ([], l)

mutual
/-- an element, positioned after its `<` -/
def readElem (ver : Ver) : Nat → List Nat → Option (XNode × List Nat)
  | 0, _ => none
  | f + 1, l =>
    let n := (l.takeWhile (nameCh ver))
    let r1 := (l.dropWhile (nameCh ver))
    if n.isEmpty then none
    else match readAttrs ver f r1 with
      | none => none
      | some (attrs, r2) =>
        if r2.take 2 = [47, 62] then some (.elem n attrs [], r2.drop 2)
        else if r2.take 3 = [32, 47, 62] then some (.elem n attrs [], r2.drop 3)
        else if r2.head? = some 62 then
          match readKids ver f r2.tail with
          | some (kids, r4) =>
            let n2 := (r4.takeWhile (nameCh ver))
            let r5 := (r4.dropWhile (nameCh ver))
            if n2 = n ∧ r5.head? = some 62 ∧ !kids.isEmpty then some (.elem n attrs kids, r5.tail) else none
          | none => none
        else none
/-- children up to and including the `</` of the parent's end tag -/
def readKids (ver : Ver) : Nat → List Nat → Option (List XNode × List Nat)
  | 0, _ => none
  | f + 1, l =>
    if l.take 2 = [60, 47] then some ([], l.drop 2)
    else if l.take 4 = [60, 33, 45, 45] then
      match splitDD (l.drop 4) with
      | some (d, r) =>
        if r.head? = some 62 ∧ d.all (insideOk ver) ∧ !endsHyphen d then
          (readKids ver f r.tail).map fun p => (.comment d :: p.1, p.2)
        else none
      | none => none
    else if l.take 2 = [60, 63] then
      let t := ((l.drop 2).takeWhile (nameCh ver))
      let r1 := ((l.drop 2).dropWhile (nameCh ver))
      if t.isEmpty then none
      else match splitPIEnd (r1.dropWhile isXMLWhitespace) with
        | some (d, r) =>
          if (r1.take 2 = [63, 62] ∨ (r1.head?.map isXMLWhitespace = some true)) ∧ d.all (insideOk ver) then
            (readKids ver f r).map fun p => (.pi t d :: p.1, p.2)
          else none
        | none => none
    else if l.head? = some 60 ∧ l.take 9 ≠ OPEN then
      match readElem ver f l.tail with
      | some (e, r) => (readKids ver f r).map fun p => (e :: p.1, p.2)
      | none => none
    else
      match readRunF ver f none l with
      | some (v, r) => if v.isEmpty then none else (readKids ver f r).map fun p => (.text v :: p.1, p.2)
      | none => none
end

/-- a whole document: the root element (the output of `absNode` for an element) -/
def readDoc (ver : Ver) (l : List Nat) : Option XNode :=
  match l with
  | 60 :: r =>
    match readElem ver l.length r with
    | some (e, []) => some e
    | _ => none
  | _ => none

/-! ## the prolog: XML declaration and document type declaration (skipped, as a non-validating parser reports neither) -/

def dropLF : List Nat → List Nat
  | 10 :: r => r
  | l => l

/-- `<?xml … ?>` at the very beginning -/
def stripXmlDecl (l : List Nat) : List Nat :=
  if l.take 6 = [60, 63, 120, 109, 108, 32] then
    match splitPIEnd (l.drop 2) with
    | some (_, r) => r
    | none => l
  else l

def dropThroughGt : List Nat → List Nat
  | [] => []
  | c :: r => if c = 62 then r else dropThroughGt r

/-- `<!DOCTYPE … >` without an internal subset -/
def stripDoctype (l : List Nat) : List Nat :=
  if l.take 9 = [60, 33, 68, 79, 67, 84, 89, 80, 69] then dropLF (dropThroughGt l) else l

/-- a whole document entity: optional XML declaration, optional DOCTYPE, root element -/
def readDocument (ver : Ver) (l : List Nat) : Option XNode :=
  readDoc ver (stripDoctype (dropLF (stripXmlDecl l)))

mutual
/-- what a parser reports for a tree: CDATA sections are text -/
def norm : XNode → XNode
  | .elem n a kids => .elem n a (normL kids)
  | .text s => .text s
  | .cdata s => .text s
  | .comment s => .comment s
  | .pi t d => .pi t d
def normL : List XNode → List XNode
  | [] => []
  | k :: ks => norm k :: normL ks
end

end XalanModel.C04.Spec
