import XalanModel.C04.ForbiddenProofs
namespace XalanModel.C04
open Spec XalanModel.Generated.C04

/-- well-formed UTF-16: every high surrogate is followed by a low one, no other low surrogate -/
def wf16 : List Nat → Bool
  | [] => true
  | c :: rest =>
    if isHigh c then
      match rest with
      | l :: r => isLow l && wf16 r
      | [] => false
    else if isLow c then false
    else wf16 rest

theorem notCharCheck_inv (e : Enc) (hf : e.fx.rejectNonChar = true) (c : Nat) (u : Unit)
    (h : notCharCheck e c = .ok u) : isLow c = false ∧ c ≠ 0 ∧ c < 0xFFFE := by
  unfold notCharCheck at h
  rw [hf] at h
  simp only [↓reduceIte] at h
  cases hl : isLow c with
  | true => rw [hl] at h; simp at h
  | false =>
    rw [hl] at h
    simp only [Bool.false_eq_true, ↓reduceIte] at h
    by_cases hc : c = 0 ∨ c ≥ 0xFFFE
    · rw [if_pos hc] at h; cases h
    · exact ⟨rfl, by omega, by omega⟩

theorem decodeHead_inv (c : Nat) (rest : List Nat) (v : Nat) (two : Bool) (h : decodeHead c rest = .ok (v, two)) :
    (isHigh c = false ∧ two = false) ∨ (isHigh c = true ∧ two = true ∧ ∃ l r, rest = l :: r ∧ isLow l = true) := by
  unfold decodeHead at h
  by_cases hh : isHigh c = false
  · rw [if_pos hh] at h; injection h with h; injection h with _ h2; exact Or.inl ⟨hh, h2.symm⟩
  · rw [if_neg hh] at h
    have hh' : isHigh c = true := by cases hx : isHigh c <;> simp_all
    cases rest with
    | nil => cases h
    | cons l r =>
      simp only at h
      by_cases hl : isLow l = false
      · rw [if_pos hl] at h; cases h
      · rw [if_neg hl] at h; injection h with h; injection h with _ h2
        exact Or.inr ⟨hh', h2.symm, l, r, rfl, by cases hx : isLow l <;> simp_all⟩

/-- with the pair-consuming UTF-16 writer every writer decodes the head before writing it -/
theorem wCP_inv (e : Enc) (hp : e.fx.utf16Pairs = true) (thr : Bool) (c : Nat) (rest : List Nat) (it : List Item) (two : Bool)
    (h : wCP e thr c rest = .ok (it, two)) :
    (isHigh c = false ∧ two = false) ∨ (isHigh c = true ∧ two = true ∧ ∃ l r, rest = l :: r ∧ isLow l = true) := by
  unfold wCP at h
  cases hk : e.kind with
  | utf16 =>
    rw [hk] at h
    simp only [hp, ↓reduceIte, bind, Except.bind] at h
    cases hd : decodeHead c rest with
    | error er => rw [hd] at h; cases h
    | ok p =>
      obtain ⟨v, t2⟩ := p
      rw [hd] at h
      simp only at h
      rcases decodeHead_inv c rest v t2 hd with ⟨h1, h2⟩ | ⟨h1, h2, l, r, hr, hl⟩
      · subst h2
        simp only [pure, Except.pure] at h
        injection h with h; injection h with _ h3
        exact Or.inl ⟨h1, h3.symm⟩
      · subst h2; subst hr
        simp only [pure, Except.pure] at h
        injection h with h; injection h with _ h3
        exact Or.inr ⟨h1, h3.symm, l, r, rfl, hl⟩
  | utf8 =>
    rw [hk] at h
    simp only [bind, Except.bind] at h
    cases hd : decodeHead c rest with
    | error er => rw [hd] at h; cases h
    | ok p =>
      obtain ⟨v, t2⟩ := p
      rw [hd] at h
      simp only at h
      cases hs : utf8Scalar v with
      | error er => rw [hs] at h; cases h
      | ok a =>
        rw [hs] at h
        simp only [pure, Except.pure] at h
        injection h with h; injection h with _ h3
        subst h3
        exact decodeHead_inv c rest v t2 hd
  | other =>
    rw [hk] at h
    simp only [bind, Except.bind] at h
    cases hd : decodeHead c rest with
    | error er => rw [hd] at h; cases h
    | ok p =>
      obtain ⟨v, t2⟩ := p
      rw [hd] at h
      simp only at h
      have : two = t2 := by
        by_cases hc : e.canEnc v = true
        · rw [if_pos hc] at h; simp only [pure, Except.pure] at h; injection h with h; injection h with _ h3; exact h3.symm
        · rw [if_neg hc] at h
          by_cases ht : thr = true
          · rw [if_pos ht] at h; cases h
          · rw [if_neg ht] at h; simp only [pure, Except.pure] at h; injection h with h; injection h with _ h3; exact h3.symm
      subst this
      exact decodeHead_inv c rest v two hd

theorem wNCB_inv (ver : Ver) (e : Enc) (hf : e.fx.rejectNonChar = true) (hp : e.fx.utf16Pairs = true)
    (c : Nat) (rest : List Nat) (it : List Item) (two : Bool)
    (h : writeNormalizedCharBig ver e c rest = .ok (it, two)) :
    isLow c = false ∧ c < 0xFFFE ∧
    ((isHigh c = false ∧ two = false) ∨ (isHigh c = true ∧ two = true ∧ ∃ l r, rest = l :: r ∧ isLow l = true)) := by
  unfold writeNormalizedCharBig at h
  simp only [bind, Except.bind] at h
  cases hn : notCharCheck e c with
  | error er => rw [hn] at h; cases h
  | ok u =>
    rw [hn] at h
    simp only at h
    obtain ⟨n1, _, n3⟩ := notCharCheck_inv e hf c u hn
    refine ⟨n1, n3, ?_⟩
    by_cases h28 : ver = .v11 ∧ c = 0x2028
    · rw [if_pos h28] at h
      cases hfn : fNCR e c with
      | error er => rw [hfn] at h; cases h
      | ok a =>
        rw [hfn] at h; simp only [pure, Except.pure] at h; injection h with h; injection h with _ h2
        exact Or.inl ⟨by rw [h28.2]; decide, h2.symm⟩
    · rw [if_neg h28] at h; exact wCP_inv e hp false c rest it two h

theorem escLoop_wf (ver : Ver) (e : Enc) (hf : e.fx.rejectNonChar = true) (hp : e.fx.utf16Pairs = true)
    (sp : Nat → Bool) (esc : Nat → Out) (s : List Nat) (sk : Bool) (pend : List Nat) (items : List Item)
    (h : escLoop ver e sp esc s sk pend = .ok items) :
    (sk = false → wf16 s = true ∧ ∀ c ∈ s, c < 0xFFFE) ∧
    (sk = true → ∀ c rest, s = c :: rest → wf16 rest = true ∧ ∀ x ∈ rest, x < 0xFFFE) := by
  have h160 := lastSpecial_lt ver
  induction s generalizing sk pend items with
  | nil =>
    refine ⟨fun _ => ⟨rfl, ?_⟩, ?_⟩
    · intro c hc; simp at hc
    · intro _ c rest hcr; cases hcr
  | cons c rest ih =>
    cases sk with
    | true =>
      rw [escLoop_skip] at h
      refine ⟨fun hh => (by cases hh), fun _ c' rest' hcr => ?_⟩
      injection hcr with e1 e2; subst e2
      exact (ih false pend items h).1 rfl
    | false =>
      refine ⟨fun _ => ?_, fun hh => by cases hh⟩
      by_cases hr : pRange ver c = true
      · unfold escLoop at h
        simp only [hr, ↓reduceIte, bind, Except.bind] at h
        cases hw : writeNormalizedCharBig ver e c rest with
        | error er => rw [hw] at h; cases h
        | ok p =>
          obtain ⟨it, two⟩ := p
          rw [hw] at h
          simp only at h
          cases hb : escLoop ver e sp esc rest two [] with
          | error er => rw [hb] at h; cases h
          | ok b =>
            obtain ⟨n1, n3, hcase⟩ := wNCB_inv ver e hf hp c rest it two hw
            have hrec := ih two [] b hb
            rcases hcase with ⟨hh, ht⟩ | ⟨hh, ht, l, r, hrr, hl⟩
            · subst ht
              obtain ⟨w1, w2⟩ := hrec.1 rfl
              refine ⟨by unfold wf16; simp only [hh, n1, Bool.false_eq_true, ↓reduceIte]; exact w1, ?_⟩
              intro x hx; rcases List.mem_cons.mp hx with hx | hx
              · subst hx; exact n3
              · exact w2 x hx
            · subst ht; subst hrr
              obtain ⟨w1, w2⟩ := hrec.2 rfl l r rfl
              refine ⟨by unfold wf16; simp only [hh, ↓reduceIte, hl, Bool.true_and]; exact w1, ?_⟩
              intro x hx
              rcases List.mem_cons.mp hx with hx | hx
              · subst hx; exact n3
              · rcases List.mem_cons.mp hx with hx | hx
                · subst hx; simp [isLow] at hl; omega
                · exact w2 x hx
      · have hr' : pRange ver c = false := by cases hx : pRange ver c <;> simp_all
        have hc160 : c < 160 := by simp [pRange] at hr'; omega
        have hnh : isHigh c = false := by simp [isHigh]; omega
        have hnl : isLow c = false := by simp [isLow]; omega
        have hrest : ∃ pend' b, escLoop ver e sp esc rest false pend' = .ok b := by
          by_cases hspc : sp c = false
          · rw [escLoop_plain ver e sp esc c rest pend hr' hspc] at h; exact ⟨_, _, h⟩
          · have hspt : sp c = true := by cases hx : sp c <;> simp_all
            unfold escLoop at h
            simp only [hr', hspt, ↓reduceIte, Bool.false_eq_true, Bool.true_eq_false, bind, Except.bind] at h
            cases he : esc c with
            | error er => rw [he] at h; cases h
            | ok it =>
              rw [he] at h
              simp only at h
              cases hb : escLoop ver e sp esc rest false [] with
              | error er => rw [hb] at h; cases h
              | ok b => exact ⟨_, b, hb⟩
        obtain ⟨pend', b, hb⟩ := hrest
        obtain ⟨w1, w2⟩ := (ih false pend' b hb).1 rfl
        refine ⟨by unfold wf16; simp only [hnh, hnl, Bool.false_eq_true, ↓reduceIte]; exact w1, ?_⟩
        intro x hx; rcases List.mem_cons.mp hx with hx | hx
        · subst hx; omega
        · exact w2 x hx

end XalanModel.C04
