import XalanModel.C04.IndentTextProofs
import XalanModel.C04.DocReaderProofs9
namespace XalanModel.C04
open Spec

/-- after character data: `m_isprevtext` is set and the parent's start tag is closed -/
def Q (st : List Bool) (s : IndSt) : Prop := s.isprevtext = true ∧ st.head? ≠ some false

theorem pteS_Q (st : List Bool) (s : IndSt) (h : Q st s) : pteS st s = (st, s) := by
  obtain ⟨_, h2⟩ := h
  cases st with
  | nil => rfl
  | cons b t => cases b
                · simp at h2
                · rfl

theorem wsOf_prevtext (s : IndSt) (h : s.isprevtext = true) : wsOf s = [] := by
  simp [wsOf, h]

theorem wsBefore_Q (st : List Bool) (s : IndSt) (h : Q st s) (ev : Event) : wsBefore st s ev = [] := by
  have hp := pteS_Q st s h
  cases ev with
  | startElement n a => simp only [wsBefore, hp]; exact wsOf_prevtext _ h.1
  | endElement n =>
    cases st with
    | nil => rfl
    | cons b t => cases b
                  · rfl
                  · simp only [wsBefore]; exact wsOf_prevtext _ h.1
  | comment d => simp only [wsBefore, hp]; exact wsOf_prevtext _ h.1
  | pi t d => simp only [wsBefore, hp]; exact wsOf_prevtext _ h.1
  | characters b l => rfl
  | cdata b l => rfl
  | charactersRaw b => rfl

theorem pteS_head (st : List Bool) (s : IndSt) : (pteS st s).1.head? ≠ some false := by
  cases st with
  | nil => simp [pteS]
  | cons b t => cases b <;> simp [pteS]

/-- does the list, continued after a sibling that is (`p`) or is not character data, end in character data? -/
def endsTL : Bool → List XNode → Bool
  | p, [] => p
  | _, k :: ks => endsTL (textLike k) ks

def StartsTL (l : List XNode) : Prop := l.head?.map textLike = some true

theorem endsTL_append (p : Bool) (a b : List XNode) : endsTL p (a ++ b) = endsTL (endsTL p a) b := by
  induction a generalizing p with
  | nil => rfl
  | cons k ks ih => simp [endsTL, ih]

theorem RKidsOk_append (ver : Ver) (a b : List XNode) (ha : RKidsOk ver a) (hb : RKidsOk ver b)
    (hj : endsTL false a = true → ¬ StartsTL b) : RKidsOk ver (a ++ b) := by
  induction a with
  | nil => exact hb
  | cons k ks ih =>
    simp only [RKidsOk] at ha
    obtain ⟨h1, h2, h3⟩ := ha
    simp only [List.cons_append, RKidsOk]
    cases ks with
    | nil =>
      refine ⟨h1, hb, ?_⟩
      intro htl
      simp only [List.nil_append]
      exact hj (by simp [endsTL, htl])
    | cons k2 ks2 =>
      refine ⟨h1, ih h2 (by simpa [endsTL] using hj), ?_⟩
      simpa using h3

theorem wsText_ok (ver : Ver) (s : IndSt) : RKidsOk ver (wsText (wsOf s)) := by
  unfold wsText
  cases h : (wsOf s).isEmpty
  · simp only [Bool.false_eq_true, ↓reduceIte, RKidsOk, RTreeOk]
    refine ⟨⟨(by intro e; rw [e] at h; cases h), ?_⟩, trivial, (by intro _; simp)⟩
    intro x hx; rcases wsOf_ws s x hx with hh | hh <;> subst hh <;> cases ver <;> rfl
  · simp [RKidsOk]

theorem wsBefore_ok (ver : Ver) (st : List Bool) (s : IndSt) (ev : Event) : RKidsOk ver (wsText (wsBefore st s ev)) := by
  cases ev with
  | endElement n =>
    cases st with
    | nil => simp [wsBefore, wsText, RKidsOk]
    | cons b t => cases b
                  · simp [wsBefore, wsText, RKidsOk]
                  · exact wsText_ok ver _
  | startElement n a => exact wsText_ok ver _
  | comment d => exact wsText_ok ver _
  | pi t d => exact wsText_ok ver _
  | characters b l => simp [wsBefore, wsText, RKidsOk]
  | cdata b l => simp [wsBefore, wsText, RKidsOk]
  | charactersRaw b => simp [wsBefore, wsText, RKidsOk]

theorem endsTL_decorNode (p : Bool) (st : List Bool) (s : IndSt) (t : XNode) : endsTL p (decorNode st s t).1 = textLike t := by
  cases t <;> simp [decorNode, endsTL_append, endsTL, textLike]

theorem startsTL_append (a b : List XNode) (h : a ≠ []) : StartsTL (a ++ b) ↔ StartsTL a := by
  cases a with
  | nil => exact absurd rfl h
  | cons k ks => simp [StartsTL]

theorem decorNode_ne (st : List Bool) (s : IndSt) (t : XNode) : (decorNode st s t).1 ≠ [] := by
  cases t <;> simp [decorNode]

theorem not_starts_nil : ¬ StartsTL [] := by simp [StartsTL]

def NodeInv (ver : Ver) (t : XNode) : Prop :=
  ∀ (st : List Bool) (s : IndSt) (prev : Bool), (prev = true → Q st s) → RTreeOk ver t → (prev = true → textLike t = false) →
    RKidsOk ver (decorNode st s t).1 ∧ (prev = true → ¬ StartsTL (decorNode st s t).1) ∧
      (endsTL prev (decorNode st s t).1 = true → Q (decorNode st s t).2.1 (decorNode st s t).2.2)

def KidsInv (ver : Ver) (ks : List XNode) : Prop :=
  ∀ (st : List Bool) (s : IndSt) (prev : Bool), (prev = true → Q st s) → RKidsOk ver ks → (prev = true → ¬ StartsTL ks) →
    RKidsOk ver (decorKids st s ks).1 ∧ (prev = true → ¬ StartsTL (decorKids st s ks).1) ∧
      (endsTL prev (decorKids st s ks).1 = true → Q (decorKids st s ks).2.1 (decorKids st s ks).2.2)

theorem single_ok (ver : Ver) (k : XNode) (h : RTreeOk ver k) : RKidsOk ver [k] := by
  simp only [RKidsOk]; exact ⟨h, trivial, by intro _; simp⟩

theorem ws_then (ver : Ver) (st : List Bool) (s : IndSt) (ev : Event) (k : XNode) (hk : RTreeOk ver k) (htl : textLike k = false)
    (prev : Bool) (hq : prev = true → Q st s) :
    RKidsOk ver (wsText (wsBefore st s ev) ++ [k]) ∧ (prev = true → ¬ StartsTL (wsText (wsBefore st s ev) ++ [k])) := by
  have hns : ¬ StartsTL [k] := by simp [StartsTL, htl]
  refine ⟨RKidsOk_append ver _ _ (wsBefore_ok ver st s ev) (single_ok ver k hk) (fun _ => hns), ?_⟩
  intro hp
  rw [wsBefore_Q st s (hq hp) ev]
  simpa [wsText] using hns

theorem text_inv (ver : Ver) (t : List Nat) : NodeInv ver (.text t) := by
  intro st s prev hq hok hp
  refine ⟨single_ok ver _ hok, fun h => by simp [textLike] at hp; exact absurd h (by simp [hp]), ?_⟩
  intro _
  simp only [RTreeOk] at hok
  have hl : t.length ≠ 0 := by intro e; exact hok.1 (List.eq_nil_of_length_eq_zero e)
  simp only [decorNode, nextSt, hl, ↓reduceIte]
  exact ⟨rfl, pteS_head st s⟩

theorem cdata_inv (ver : Ver) (t : List Nat) : NodeInv ver (.cdata t) := by
  intro st s prev hq hok hp
  refine ⟨single_ok ver _ hok, fun h => by simp [textLike] at hp; exact absurd h (by simp [hp]), ?_⟩
  intro _
  simp only [RTreeOk] at hok
  have hl : t.length ≠ 0 := by intro e; exact hok.1 (List.eq_nil_of_length_eq_zero e)
  simp only [decorNode, nextSt, hl, ↓reduceIte]
  exact ⟨rfl, pteS_head st s⟩

theorem comment_inv (ver : Ver) (d : List Nat) : NodeInv ver (.comment d) := by
  intro st s prev hq hok _
  obtain ⟨h1, h2⟩ := ws_then ver st s (.comment d) (.comment d) hok rfl prev hq
  refine ⟨h1, h2, ?_⟩
  rw [endsTL_decorNode]; intro h; cases h

theorem pi_inv (ver : Ver) (t d : List Nat) : NodeInv ver (.pi t d) := by
  intro st s prev hq hok _
  obtain ⟨h1, h2⟩ := ws_then ver st s (.pi t d) (.pi t d) hok rfl prev hq
  refine ⟨h1, h2, ?_⟩
  rw [endsTL_decorNode]; intro h; cases h

theorem elem_inv (ver : Ver) (n : List Nat) (a : List (List Nat × List Nat)) (kids : List XNode) (ih : KidsInv ver kids) :
    NodeInv ver (.elem n a kids) := by
  intro st s prev hq hok _
  simp only [RTreeOk] at hok
  obtain ⟨hn, ha, hk⟩ := hok
  obtain ⟨c1, _, c3⟩ := ih (nextSt st s (.startElement n a)).1 (nextSt st s (.startElement n a)).2 false
    (by intro h; cases h) hk (by intro h; cases h)
  have hkids : RKidsOk ver ((decorKids (nextSt st s (.startElement n a)).1 (nextSt st s (.startElement n a)).2 kids).1 ++
      wsText (wsBefore (decorKids (nextSt st s (.startElement n a)).1 (nextSt st s (.startElement n a)).2 kids).2.1
        (decorKids (nextSt st s (.startElement n a)).1 (nextSt st s (.startElement n a)).2 kids).2.2 (.endElement n))) := by
    refine RKidsOk_append ver _ _ c1 (wsBefore_ok ver _ _ _) ?_
    intro he
    rw [wsBefore_Q _ _ (c3 he)]
    simpa [wsText] using not_starts_nil
  have hel : RTreeOk ver (.elem n a ((decorKids (nextSt st s (.startElement n a)).1 (nextSt st s (.startElement n a)).2 kids).1 ++
      wsText (wsBefore (decorKids (nextSt st s (.startElement n a)).1 (nextSt st s (.startElement n a)).2 kids).2.1
        (decorKids (nextSt st s (.startElement n a)).1 (nextSt st s (.startElement n a)).2 kids).2.2 (.endElement n)))) := by
    simp only [RTreeOk]; exact ⟨hn, ha, hkids⟩
  obtain ⟨h1, h2⟩ := ws_then ver st s (.startElement n a) _ hel rfl prev hq
  refine ⟨by simpa [decorNode] using h1, by simpa [decorNode] using h2, ?_⟩
  rw [endsTL_decorNode]; intro h; cases h

theorem kids_nil_inv (ver : Ver) : KidsInv ver [] := by
  intro st s prev hq _ _
  exact ⟨by simp [decorKids, RKidsOk], fun _ => by simpa [decorKids] using not_starts_nil, by simpa [decorKids, endsTL] using hq⟩

theorem kids_cons_inv (ver : Ver) (k : XNode) (ks : List XNode) (ihk : NodeInv ver k) (ihks : KidsInv ver ks) :
    KidsInv ver (k :: ks) := by
  intro st s prev hq hok hp
  simp only [RKidsOk] at hok
  obtain ⟨h1, h2, h3⟩ := hok
  obtain ⟨a1, a2, a3⟩ := ihk st s prev hq h1 (by
    intro h; have := hp h; simp [StartsTL] at this; cases hh : textLike k <;> simp_all)
  rw [endsTL_decorNode] at a3
  obtain ⟨b1, b2, b3⟩ := ihks (decorNode st s k).2.1 (decorNode st s k).2.2 (textLike k) a3 h2 (by
    intro h; have := h3 h; simpa [StartsTL] using this)
  simp only [decorKids]
  refine ⟨RKidsOk_append ver _ _ a1 b1 (by rw [endsTL_decorNode]; exact b2), ?_, ?_⟩
  · intro h; rw [startsTL_append _ _ (decorNode_ne st s k)]; exact a2 h
  · rw [endsTL_append, endsTL_decorNode]; exact b3

theorem node_inv (ver : Ver) (t : XNode) : NodeInv ver t := by
  refine XNode.rec (motive_1 := fun t => NodeInv ver t) (motive_2 := fun ks => KidsInv ver ks)
    (fun n a kids ih => elem_inv ver n a kids ih) (fun s => text_inv ver s) (fun s => cdata_inv ver s)
    (fun s => comment_inv ver s) (fun t d => pi_inv ver t d) (kids_nil_inv ver) (fun k ks ihk ihks => kids_cons_inv ver k ks ihk ihks) t

theorem KidsOkT_append (ver : Ver) (e : Enc) (a b : List XNode) (ha : KidsOkT ver e a) (hb : KidsOkT ver e b) :
    KidsOkT ver e (a ++ b) := by
  induction a with
  | nil => exact hb
  | cons k ks ih => simp only [KidsOkT] at ha; simp only [List.cons_append, KidsOkT]; exact ⟨ha.1, ih ha.2⟩

theorem ws_legal (ver : Ver) (w : List Nat) (hw : ∀ u ∈ w, u = 10 ∨ u = 32) : ∀ c ∈ w, legalChar ver c = true := by
  intro x hx; rcases hw x hx with hh | hh <;> subst hh <;> cases ver <;> rfl

theorem wsBefore_ws (st : List Bool) (s : IndSt) (ev : Event) : ∀ u ∈ wsBefore st s ev, u = 10 ∨ u = 32 := by
  cases ev with
  | endElement n =>
    cases st with
    | nil => simp [wsBefore]
    | cons b t => cases b
                  · simp [wsBefore]
                  · exact wsOf_ws _
  | startElement n a => exact wsOf_ws _
  | comment d => exact wsOf_ws _
  | pi t d => exact wsOf_ws _
  | characters b l => simp [wsBefore]
  | cdata b l => simp [wsBefore]
  | charactersRaw b => simp [wsBefore]

theorem wsText_okT (ver : Ver) (e : Enc) (w : List Nat) (hw : ∀ u ∈ w, u = 10 ∨ u = 32) : KidsOkT ver e (wsText w) := by
  unfold wsText
  cases w.isEmpty
  · simp only [Bool.false_eq_true, ↓reduceIte, KidsOkT, TreeOk]; exact ⟨ws_legal ver w hw, trivial⟩
  · simp [KidsOkT]

/-- the decorated tree is still one the serializer accepts -/
theorem decor_treeOk (ver : Ver) (e : Enc) (t : XNode) :
    ∀ (st : List Bool) (s : IndSt), TreeOk ver e t → KidsOkT ver e (decorNode st s t).1 := by
  refine XNode.rec
    (motive_1 := fun t => ∀ (st : List Bool) (s : IndSt), TreeOk ver e t → KidsOkT ver e (decorNode st s t).1)
    (motive_2 := fun ks => ∀ (st : List Bool) (s : IndSt), KidsOkT ver e ks → KidsOkT ver e (decorKids st s ks).1)
    ?_ ?_ ?_ ?_ ?_ ?_ ?_ t
  · intro n a kids ih st s hok
    simp only [TreeOk] at hok
    simp only [decorNode]
    refine KidsOkT_append ver e _ _ (wsText_okT ver e _ (wsBefore_ws _ _ _)) ?_
    simp only [KidsOkT, TreeOk]
    exact ⟨⟨hok.1, hok.2.1, KidsOkT_append ver e _ _ (ih _ _ hok.2.2) (wsText_okT ver e _ (wsBefore_ws _ _ _))⟩, trivial⟩
  · intro t st s hok; simp only [decorNode, KidsOkT]; exact ⟨hok, trivial⟩
  · intro t st s hok; simp only [decorNode, KidsOkT]; exact ⟨hok, trivial⟩
  · intro d st s hok
    simp only [decorNode]
    exact KidsOkT_append ver e _ _ (wsText_okT ver e _ (wsBefore_ws _ _ _)) (by simp only [KidsOkT]; exact ⟨hok, trivial⟩)
  · intro t d st s hok
    simp only [decorNode]
    exact KidsOkT_append ver e _ _ (wsText_okT ver e _ (wsBefore_ws _ _ _)) (by simp only [KidsOkT]; exact ⟨hok, trivial⟩)
  · intro st s _; simp [decorKids, KidsOkT]
  · intro k ks ihk ihks st s hok
    simp only [KidsOkT] at hok
    simp only [decorKids]
    exact KidsOkT_append ver e _ _ (ihk st s hok.1) (ihks _ _ hok.2)

/-! ### decoration commutes with the UTF-16 form of the tree -/

theorem toUnitsL_append (a b : List XNode) : toUnitsL (a ++ b) = toUnitsL a ++ toUnitsL b := by
  induction a with
  | nil => rfl
  | cons k ks ih => simp [toUnitsL, ih]

theorem utf16Encode_ws (w : List Nat) (hw : ∀ u ∈ w, u = 10 ∨ u = 32) : utf16Encode w = w := by
  induction w with
  | nil => rfl
  | cons u t ih =>
    have hu := hw u (by simp)
    have := ih (fun x hx => hw x (by simp [hx]))
    simp only [utf16Encode, List.flatMap_cons] at this ⊢
    rw [this]
    have h1 : u < 0x10000 := by rcases hu with h | h <;> omega
    simp [utf16EncodeOne, h1]

theorem toUnitsL_wsText (w : List Nat) (hw : ∀ u ∈ w, u = 10 ∨ u = 32) : toUnitsL (wsText w) = wsText w := by
  unfold wsText
  cases w.isEmpty
  · simp [toUnitsL, toUnits, utf16Encode_ws w hw]
  · simp [toUnitsL]

theorem utf16Encode_len0 (t : List Nat) : (utf16Encode t).length = 0 ↔ t.length = 0 := by
  have := utf16Encode_isEmpty t
  cases t with
  | nil => simp [utf16Encode]
  | cons a b =>
    simp only [List.isEmpty_cons] at this
    constructor
    · intro h; have := List.eq_nil_of_length_eq_zero h; simp [this] at *
    · intro h; simp at h

theorem decor_toUnits (t : XNode) : ∀ (st : List Bool) (s : IndSt),
    decorNode st s (toUnits t) = (toUnitsL (decorNode st s t).1, (decorNode st s t).2) := by
  refine XNode.rec
    (motive_1 := fun t => ∀ (st : List Bool) (s : IndSt),
      decorNode st s (toUnits t) = (toUnitsL (decorNode st s t).1, (decorNode st s t).2))
    (motive_2 := fun ks => ∀ (st : List Bool) (s : IndSt),
      decorKids st s (toUnitsL ks) = (toUnitsL (decorKids st s ks).1, (decorKids st s ks).2))
    ?_ ?_ ?_ ?_ ?_ ?_ ?_ t
  · intro n a kids ih st s
    simp only [toUnits, decorNode]
    have e1 : ∀ (n' : List Nat) (a' : List (List Nat × List Nat)), nextSt st s (.startElement n' a') = nextSt st s (.startElement n a) := fun _ _ => rfl
    have e2 : ∀ (n' : List Nat) (a' : List (List Nat × List Nat)), wsBefore st s (.startElement n' a') = wsBefore st s (.startElement n a) := fun _ _ => rfl
    rw [e1, e2, ih]
    simp only [toUnitsL_append, toUnitsL_wsText _ (wsBefore_ws _ _ _), toUnitsL, toUnits]
    rfl
  · intro t st s
    simp only [toUnits, decorNode, toUnitsL]
    have : nextSt st s (.characters (utf16Encode t ++ [0]) (utf16Encode t).length) = nextSt st s (.characters (t ++ [0]) t.length) := by
      simp only [nextSt, utf16Encode_len0]
    rw [this]
  · intro t st s
    simp only [toUnits, decorNode, toUnitsL]
    have : nextSt st s (.cdata (utf16Encode t ++ [0]) (utf16Encode t).length) = nextSt st s (.cdata (t ++ [0]) t.length) := by
      simp only [nextSt, utf16Encode_len0]
    rw [this]
  · intro d st s
    simp only [toUnits, decorNode, toUnitsL_append, toUnitsL, toUnits]
    rw [show wsBefore st s (.comment (utf16Encode d)) = wsBefore st s (.comment d) from rfl,
      toUnitsL_wsText _ (wsBefore_ws _ _ _)]
    rfl
  · intro t d st s
    simp only [toUnits, decorNode, toUnitsL_append, toUnitsL, toUnits]
    rw [show wsBefore st s (.pi (utf16Encode t) (utf16Encode d)) = wsBefore st s (.pi t d) from rfl,
      toUnitsL_wsText _ (wsBefore_ws _ _ _)]
    rfl
  · intro st s; simp [toUnitsL, decorKids]
  · intro k ks ihk ihks st s
    simp only [toUnitsL, decorKids, ihk, ihks, toUnitsL_append]

theorem endWs_ws (evs : List Event) : ∀ (st : List Bool) (s : IndSt), ∀ u ∈ endWs evs st s, u = 10 ∨ u = 32 := by
  induction evs with
  | nil => intro st s; exact wsOf_ws _
  | cons ev rest ih => intro st s; exact ih _ _

theorem runEvents_tree (c : Cfg) (t : XNode) (items : List Item) (h : serNode c t = .ok items) :
    runEvents c (events t) [] = .ok items := by
  have hn := node_ok c t [] []
  simp only [List.append_nil] at hn
  rw [hn, h]
  cases hq : silent t <;> simp [pteOf, hq, parentTagEnd, runEvents, Except.bind, pure, Except.pure]

/-- Tree-level indent erasure.  For a document element `t` as in `document_roundtrip` and `indent="yes"` with any indent
amount: the indenting serializer succeeds; what it writes decodes to `out ++ trail`, `trail` being the line break
`endDocument` adds after the root element; and the document reader reads `out` back as exactly the decorated tree `t'`,
which is `t` with whitespace-only text children added (`dropWs t' = dropWs t`) — and since `t'` satisfies the reader's
hypothesis (`RTreeOk`: no two adjacent character-data children), none of the added children touches character data of
`t`. -/
theorem indent_tree_roundtrip (c : Cfg) (H : DocHyp c) (amount : Nat) (n : List Nat) (a : List (List Nat × List Nat))
    (kids : List XNode) (hok1 : TreeOk c.ver c.enc (.elem n a kids)) (hok2 : RTreeOk c.ver (.elem n a kids)) :
    ∃ items kids' out,
      runEventsI c (events (toUnits (.elem n a kids))) [] { on := true, amount := amount } = .ok items ∧
      (decorNode [] { on := true, amount := amount } (.elem n a kids)).1 = [.elem n a kids'] ∧
      dropWs (.elem n a kids') = dropWs (.elem n a kids) ∧
      RTreeOk c.ver (.elem n a kids') ∧
      decodeOut c.enc.kind (unitsOf items) =
        some (out ++ endWs (events (toUnits (.elem n a kids))) [] { on := true, amount := amount }) ∧
      readDoc c.ver out = some (norm (.elem n a kids')) := by
  let s0 : IndSt := { on := true, amount := amount }
  let r := decorKids (nextSt [] s0 (.startElement n a)).1 (nextSt [] s0 (.startElement n a)).2 kids
  let kids' := r.1 ++ wsText (wsBefore r.2.1 r.2.2 (.endElement n))
  have hd : (decorNode [] s0 (.elem n a kids)).1 = [.elem n a kids'] := by
    simp only [decorNode]
    have : wsBefore [] s0 (.startElement n a) = [] := by simp [wsBefore, pteS, wsOf, s0]
    rw [this]; rfl
  -- the decorated tree is acceptable to serializer and reader
  have hT : TreeOk c.ver c.enc (.elem n a kids') := by
    have := decor_treeOk c.ver c.enc (.elem n a kids) [] s0 hok1
    rw [hd] at this; simp only [KidsOkT] at this; exact this.1
  have hR : RTreeOk c.ver (.elem n a kids') := by
    have := (node_inv c.ver (.elem n a kids) [] s0 false (by intro h; cases h) hok2 (by intro h; cases h)).1
    rw [hd] at this; simp only [RKidsOk] at this; exact this.1
  have hD : dropWs (.elem n a kids') = dropWs (.elem n a kids) := by
    have := decor_dropWs (.elem n a kids) [] s0
    rw [hd] at this
    simpa [dropWsL, isWsText] using this
  -- plain serializer on the decorated tree
  obtain ⟨items', out, h1, h2, h3⟩ := node_enc c H (.elem n a kids') hT
  have hrun' := runEvents_tree c _ items' h1
  -- the filtered events are the events of the decorated tree
  have hev : decorEvents (events (toUnits (.elem n a kids))) [] s0 = events (toUnits (.elem n a kids')) := by
    have := decor_events (toUnits (.elem n a kids)) [] s0 []
    simp only [List.append_nil, decorEvents] at this
    rw [this, decor_toUnits, hd]
    simp [toUnitsL, eventsL]
  -- the indenting serializer succeeds
  obtain ⟨itemsP, outP, p1, _, _⟩ := node_enc c H (.elem n a kids) hok1
  have hplain := runEvents_tree c _ itemsP p1
  have hag := runEventsI_ws c H.ha (events (toUnits (.elem n a kids))) [] s0
  rw [hplain] at hag
  cases hI : runEventsI c (events (toUnits (.elem n a kids))) [] s0 with
  | error e => rw [hI] at hag; simp [AgreeOut] at hag
  | ok items =>
    obtain ⟨items2, hf, hu⟩ := runEventsI_filter c H _ [] s0 items hI
    rw [hev, hrun'] at hf
    have : items2 = items' := by injection hf with hf; exact hf.symm
    subst this
    refine ⟨items, kids', out, rfl, hd, hD, hR, ?_, readDoc_absNode c.ver (canEncOf c.enc) (spaceBeforeClose c) n a kids' hR out h2⟩
    have hws := endWs_ws (events (toUnits (.elem n a kids))) [] s0
    have hA : Ascii (endWs (events (toUnits (.elem n a kids))) [] s0) := by
      intro u hu; rcases hws u hu with h | h <;> omega
    have hE : unitsOf items = encodeOut c.enc.kind (out ++ endWs (events (toUnits (.elem n a kids))) [] s0) := by
      rw [hu, h3, encodeOut_append, encodeOut_ascii c.enc.kind _ hA]
    rw [hE]
    apply decodeOut_encodeOut
    intro x hx
    rcases List.mem_append.mp hx with hx | hx
    · exact node_sc c.ver c.enc (spaceBeforeClose c) _ hT out h2 x hx
    · exact ascii_scalar _ hA x hx

end XalanModel.C04
