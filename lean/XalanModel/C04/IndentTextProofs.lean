import XalanModel.C04.IndentWsProofs
import XalanModel.C04.DocProofs
namespace XalanModel.C04
open Spec

/-- the characters `indent()` writes in state `s` -/
def wsOf (s : IndSt) : List Nat :=
  if s.on ∧ s.ispreserve = false ∧ s.isprevtext = false then
    (if s.startNewLine then [10] else []) ++ List.replicate s.cur 32
  else []

theorem wsOf_ws (s : IndSt) : ∀ u ∈ wsOf s, u = 10 ∨ u = 32 := by
  intro u hu
  unfold wsOf at hu
  split at hu
  · rcases List.mem_append.mp hu with h | h
    · cases hs : s.startNewLine <;> simp [hs] at h; exact Or.inl h
    · simp at h; exact Or.inr h.2
  · simp at hu

theorem indentItems_units (e : Enc) (ha : AsciiOk e) (s : IndSt) :
    ∃ it, indentItems e s = .ok it ∧ unitsOf it = wsOf s := by
  unfold indentItems wsOf
  by_cases h : s.on = true ∧ s.ispreserve = false ∧ s.isprevtext = false
  · rw [if_pos h, if_pos h]
    obtain ⟨nl, hnl, hnlu⟩ := wNewline_units e ha
    have hsp : ∀ n : Nat, unitsOf ((List.replicate n 32).flatMap (wChar e)) = List.replicate n 32 :=
      fun n => flatMap_wChar_ascii e ha _ (by intro u hu; simp at hu; omega)
    cases hsn : s.startNewLine with
    | true =>
      simp only [↓reduceIte, hnl, bind, Except.bind, pure, Except.pure]
      exact ⟨_, rfl, by rw [unitsOf_append, hnlu, hsp]⟩
    | false =>
      simp only [Bool.false_eq_true, ↓reduceIte, bind, Except.bind, pure, Except.pure, List.nil_append]
      exact ⟨_, rfl, hsp _⟩
  · rw [if_neg h, if_neg h]
    exact ⟨[], rfl, rfl⟩

theorem absEscAll_ws (ver : Ver) (ce : Nat → Bool) (w : List Nat) (hw : ∀ u ∈ w, u = 10 ∨ u = 32) :
    absEscAll ver ce false w = .ok w := by
  induction w with
  | nil => rfl
  | cons u t ih =>
    have hu := hw u (by simp)
    have := ih (fun x hx => hw x (by simp [hx]))
    have h1 : absEsc ver ce false u = .ok [u] := by
      rcases hu with hu | hu <;> subst hu <;> cases ver <;> rfl
    simp [absEscAll, h1, this, bind, Except.bind, pure, Except.pure]

/-- whitespace written as character data comes out as itself -/
theorem writeCharacters_ws (c : Cfg) (H : DocHyp c) (w : List Nat) (hw : ∀ u ∈ w, u = 10 ∨ u = 32) (hne : w ≠ []) :
    ∃ t, writeCharacters c.ver c.enc w = .ok t ∧ unitsOf t = w := by
  have hA : Ascii w := by intro u hu; rcases hw u hu with h | h <;> omega
  have hok : TreeOk c.ver c.enc (.text w) := by
    simp only [TreeOk]; intro x hx; rcases hw x hx with h | h <;> subst h <;> cases c.ver <;> rfl
  obtain ⟨items, out, h1, h2, h3⟩ := text_enc c H w hok
  have he : w.isEmpty = false := by cases w with | nil => exact absurd rfl hne | cons _ _ => rfl
  simp only [toUnits, serNode, utf16Encode_isEmpty, he, Bool.false_eq_true, ↓reduceIte] at h1
  simp only [absNode, he, Bool.false_eq_true, ↓reduceIte, absEscAll_ws c.ver _ w hw, Except.ok.injEq] at h2
  have hu : utf16Encode w = w := by
    clear h1 h2 h3 hok he hne hw
    induction w with
    | nil => rfl
    | cons u t ih =>
      have hu := hA u (by simp)
      have := ih (fun x hx => hA x (by simp [hx]))
      simp only [utf16Encode, List.flatMap_cons] at this ⊢
      rw [this]
      have h1 : u < 0x10000 := by omega
      simp [utf16EncodeOne, h1]
  rw [hu] at h1
  exact ⟨items, h1, by rw [h3, ← h2, encodeOut_ascii _ _ hA]⟩

/-! ### indentation as a SAX filter: the whitespace becomes explicit `characters` events -/

def pteS : List Bool → IndSt → List Bool × IndSt
  | false :: st1, s => (true :: st1, { s with isprevtext := false, preserves := s.ispreserve :: s.preserves })
  | st, s => (st, s)

theorem pteS_eq (e : Enc) (st : List Bool) (s : IndSt) :
    (parentTagEndI e st s).2.1 = (pteS st s).1 ∧ (parentTagEndI e st s).2.2 = (pteS st s).2 ∧
    (pteS st s).1 = (parentTagEnd e st).2 := by
  cases st with
  | nil => exact ⟨rfl, rfl, rfl⟩
  | cons b t => cases b <;> exact ⟨rfl, rfl, rfl⟩

theorem pte_idem (e : Enc) (st : List Bool) : parentTagEnd e (parentTagEnd e st).2 = ([], (parentTagEnd e st).2) := by
  cases st with
  | nil => rfl
  | cons b t => cases b <;> rfl

/-- the whitespace `indent()` writes in front of an event -/
def wsBefore (st : List Bool) (s : IndSt) : Event → List Nat
  | .startElement _ _ => wsOf { (pteS st s).2 with ispreserve := false }
  | .endElement _ => match st with
    | true :: _ => wsOf { s with cur := s.cur - s.amount }
    | _ => []
  | .comment _ => wsOf (pteS st s).2
  | .pi _ _ => wsOf (pteS st s).2
  | _ => []

/-- element stack and `XalanIndentWriter` state after an event (no output, no errors: a pure function of the events) -/
def nextSt (st : List Bool) (s : IndSt) : Event → List Bool × IndSt
  | .startElement _ _ =>
    let s3 : IndSt := { { (pteS st s).2 with ispreserve := false } with startNewLine := true }
    (false :: (pteS st s).1, { s3 with cur := s3.cur + s3.amount, isprevtext := false })
  | .endElement _ =>
    let s1 : IndSt := { s with cur := s.cur - s.amount }
    match st with
    | true :: st1 => (st1, { popPreserve s1 with isprevtext := false })
    | false :: st1 => (st1, { s1 with isprevtext := false })
    | [] => ([], { s1 with isprevtext := false })
  | .characters _ length =>
    if length = 0 then (st, s) else ((pteS st s).1, { (pteS st s).2 with ispreserve := true, isprevtext := true })
  | .cdata _ length =>
    if length = 0 then (st, s)
    else ((pteS st s).1, { ({ (pteS st s).2 with ispreserve := true } : IndSt) with isprevtext := true })
  | .charactersRaw _ => ((pteS st s).1, { (pteS st s).2 with ispreserve := true, isprevtext := true })
  | .comment _ => ((pteS st s).1, { (pteS st s).2 with startNewLine := true })
  | .pi _ _ => pteS st s

def wsEv (w : List Nat) : List Event := if w.isEmpty then [] else [.characters (w ++ [0]) w.length]

/-- the indenting serializer as a filter in front of the plain one -/
def decorEvents : List Event → List Bool → IndSt → List Event
  | [], _, _ => []
  | ev :: rest, st, s => wsEv (wsBefore st s ev) ++ ev :: decorEvents rest (nextSt st s ev).1 (nextSt st s ev).2

/-- what `endDocument` (`setStartNewLine(true); indent()`) writes after the last event: after the root element, so
not part of any text node -/
def endWs : List Event → List Bool → IndSt → List Nat
  | [], _, s => wsOf { s with startNewLine := true }
  | ev :: rest, st, s => endWs rest (nextSt st s ev).1 (nextSt st s ev).2

/-- a whitespace event in front of `evs`: the parent's `>` (if still owed), the whitespace, then `evs` with nothing owed -/
theorem wsEv_run (c : Cfg) (H : DocHyp c) (w : List Nat) (hw : ∀ u ∈ w, u = 10 ∨ u = 32) (evs : List Event) (st : List Bool) :
    ∃ t, unitsOf t = w ∧
      runEvents c (wsEv w ++ evs) st =
        if w.isEmpty then runEvents c evs st
        else (runEvents c evs (parentTagEnd c.enc st).2).bind fun b => pure ((parentTagEnd c.enc st).1 ++ t ++ b) := by
  cases hwe : w.isEmpty with
  | true =>
    have : w = [] := by cases w with | nil => rfl | cons _ _ => cases hwe
    subst this
    exact ⟨[], rfl, by simp [wsEv]⟩
  | false =>
    have hne : w ≠ [] := by intro e; subst e; cases hwe
    obtain ⟨t, ht, htu⟩ := writeCharacters_ws c H w hw hne
    refine ⟨t, htu, ?_⟩
    have hl : w.length ≠ 0 := by intro e; exact hne (List.eq_nil_of_length_eq_zero e)
    simp only [wsEv, hwe, Bool.false_eq_true, ↓reduceIte, List.cons_append, List.nil_append, runEvents, stepEvent, hl,
      List.take_left', ht, bind, Except.bind, pure, Except.pure]

theorem gen_step (c : Cfg) (H : DocHyp c) (w : List Nat) (hw : ∀ u ∈ w, u = 10 ∨ u = 32) (st : List Bool) (ev : Event)
    (rest : List Event) (x : List Item) (st1 : List Bool)
    (h0 : stepEvent c st ev = .ok ((parentTagEnd c.enc st).1 ++ x, st1))
    (h1 : stepEvent c (parentTagEnd c.enc st).2 ev = .ok (x, st1)) :
    ∃ a', unitsOf a' = unitsOf (parentTagEnd c.enc st).1 ++ w ++ unitsOf x ∧
      runEvents c (wsEv w ++ ev :: rest) st = (runEvents c rest st1).bind fun b => pure (a' ++ b) := by
  obtain ⟨t, htu, hrun⟩ := wsEv_run c H w hw (ev :: rest) st
  rw [hrun]
  cases hwe : w.isEmpty with
  | true =>
    have : w = [] := by cases w with | nil => rfl | cons _ _ => cases hwe
    subst this
    refine ⟨(parentTagEnd c.enc st).1 ++ x, by simp [unitsOf_append], ?_⟩
    simp only [↓reduceIte, runEvents, h0, bind, Except.bind]
  | false =>
    refine ⟨(parentTagEnd c.enc st).1 ++ t ++ x, by simp [unitsOf_append, htu], ?_⟩
    simp only [Bool.false_eq_true, ↓reduceIte, runEvents, h1, bind, Except.bind]
    cases runEvents c rest st1 <;> simp [pure, Except.pure, Except.bind, List.append_assoc]

/-- one event: the indenting serializer writes what the plain serializer writes for the filtered events -/
theorem step_sim (c : Cfg) (H : DocHyp c) (st : List Bool) (s : IndSt) (ev : Event) (a : List Item) (st1 : List Bool) (s1 : IndSt)
    (h : stepEventI c st s ev = .ok (a, st1, s1)) (rest : List Event) :
    (st1, s1) = nextSt st s ev ∧ ∃ a', unitsOf a' = unitsOf a ∧
      runEvents c (wsEv (wsBefore st s ev) ++ ev :: rest) st = (runEvents c rest st1).bind fun b => pure (a' ++ b) := by
  obtain ⟨q1, q2, q3⟩ := pteS_eq c.enc st s
  obtain ⟨p1, p2, _⟩ := pteI_eq c.enc st s
  have hid := pte_idem c.enc st
  cases ev with
  | startElement name attrs =>
    obtain ⟨ind, hind, hiu⟩ := indentItems_units c.enc H.ha { (parentTagEndI c.enc st s).2.2 with ispreserve := false }
    simp only [stepEventI, hind, bind, Except.bind, pure, Except.pure] at h
    cases hn : wName c.enc name with
    | error e => simp [hn] at h
    | ok n =>
      cases hat : writeAttrs c attrs with
      | error e => simp [hn, hat] at h
      | ok aa =>
        simp only [hn, hat, Except.ok.injEq, Prod.mk.injEq] at h
        obtain ⟨rfl, rfl, rfl⟩ := h
        refine ⟨by simp only [nextSt, q1, q2], ?_⟩
        obtain ⟨a', ha', hr⟩ := gen_step c H (wsBefore st s (.startElement name attrs)) (wsOf_ws _) st (.startElement name attrs) rest
          (wChar c.enc 60 ++ n ++ aa) (false :: (parentTagEnd c.enc st).2)
          (by simp [stepEvent, hn, hat, bind, Except.bind, pure, Except.pure, List.append_assoc])
          (by simp [stepEvent, hid, hn, hat, bind, Except.bind, pure, Except.pure])
        refine ⟨a', ?_, by rw [hr, p2]⟩
        rw [ha']
        simp only [wsBefore, ← q2, unitsOf_append, hiu, p1, List.append_assoc]
  | comment data =>
    obtain ⟨ind, hind, hiu⟩ := indentItems_units c.enc H.ha (parentTagEndI c.enc st s).2.2
    simp only [stepEventI, hind, bind, Except.bind, pure, Except.pure] at h
    cases hd : writeNormalizedData c.ver c.enc data with
    | error e => simp [hd] at h
    | ok d =>
      simp only [hd, Except.ok.injEq, Prod.mk.injEq] at h
      obtain ⟨rfl, rfl, rfl⟩ := h
      refine ⟨by simp only [nextSt, q1, q2], ?_⟩
      obtain ⟨a', ha', hr⟩ := gen_step c H (wsBefore st s (.comment data)) (wsOf_ws _) st (.comment data) rest
        (wChar c.enc 60 ++ wChar c.enc 33 ++ wChar c.enc 45 ++ wChar c.enc 45 ++ d ++ wChar c.enc 45 ++ wChar c.enc 45 ++ wChar c.enc 62)
        (parentTagEnd c.enc st).2
        (by simp [stepEvent, hd, bind, Except.bind, pure, Except.pure, List.append_assoc])
        (by simp [stepEvent, hid, hd, bind, Except.bind, pure, Except.pure])
      refine ⟨a', ?_, by rw [hr, p2]⟩
      rw [ha']
      simp only [wsBefore, ← q2, unitsOf_append, hiu, p1, List.append_assoc]
  | pi target data =>
    cases data with
    | nil =>
      obtain ⟨ind, hind, hiu⟩ := indentItems_units c.enc H.ha (parentTagEndI c.enc st s).2.2
      simp only [stepEventI, hind, bind, Except.bind, pure, Except.pure] at h
      cases ht : wName c.enc target with
      | error e => simp [ht] at h
      | ok t =>
        cases hd : writeNormalizedData c.ver c.enc [] with
        | error e => simp [ht, hd] at h
        | ok d =>
          simp only [ht, hd, Except.ok.injEq, Prod.mk.injEq] at h
          obtain ⟨rfl, rfl, rfl⟩ := h
          refine ⟨by simp only [nextSt, q1, q2], ?_⟩
          obtain ⟨a', ha', hr⟩ := gen_step c H (wsBefore st s (.pi target [])) (wsOf_ws _) st (.pi target []) rest
            (wChar c.enc 60 ++ wChar c.enc 63 ++ t ++ ([] : List Item) ++ d ++ wChar c.enc 63 ++ wChar c.enc 62)
            (parentTagEnd c.enc st).2
            (by simp [stepEvent, ht, hd, bind, Except.bind, pure, Except.pure, List.append_assoc])
            (by simp [stepEvent, hid, ht, hd, bind, Except.bind, pure, Except.pure])
          refine ⟨a', ?_, by rw [hr, p2]⟩
          rw [ha']
          simp only [wsBefore, ← q2, unitsOf_append, hiu, p1, List.append_assoc]
    | cons d0 ds =>
      obtain ⟨ind, hind, hiu⟩ := indentItems_units c.enc H.ha (parentTagEndI c.enc st s).2.2
      simp only [stepEventI, hind, bind, Except.bind, pure, Except.pure] at h
      cases ht : wName c.enc target with
      | error e => simp [ht] at h
      | ok t =>
        cases hd : writeNormalizedData c.ver c.enc (d0 :: ds) with
        | error e => simp [ht, hd] at h
        | ok d =>
          simp only [ht, hd, Except.ok.injEq, Prod.mk.injEq] at h
          obtain ⟨rfl, rfl, rfl⟩ := h
          refine ⟨by simp only [nextSt, q1, q2], ?_⟩
          obtain ⟨a', ha', hr⟩ := gen_step c H (wsBefore st s (.pi target (d0 :: ds))) (wsOf_ws _) st (.pi target (d0 :: ds)) rest
            (wChar c.enc 60 ++ wChar c.enc 63 ++ t ++ (if isXMLWhitespace d0 then [] else wChar c.enc 32) ++ d ++ wChar c.enc 63 ++ wChar c.enc 62)
            (parentTagEnd c.enc st).2
            (by simp [stepEvent, ht, hd, bind, Except.bind, pure, Except.pure, List.append_assoc])
            (by simp [stepEvent, hid, ht, hd, bind, Except.bind, pure, Except.pure])
          refine ⟨a', ?_, by rw [hr, p2]⟩
          rw [ha']
          simp only [wsBefore, ← q2, unitsOf_append, hiu, p1, List.append_assoc]
  | endElement name =>
    cases st with
    | nil =>
      simp only [stepEventI, pure, Except.pure, Except.ok.injEq, Prod.mk.injEq] at h
      obtain ⟨rfl, rfl, rfl⟩ := h
      exact ⟨rfl, _, rfl, by simp [wsBefore, wsEv, runEvents, stepEvent, bind, Except.bind, pure, Except.pure]⟩
    | cons b t =>
      cases b with
      | false =>
        simp only [stepEventI, pure, Except.pure, Except.ok.injEq, Prod.mk.injEq] at h
        obtain ⟨rfl, rfl, rfl⟩ := h
        exact ⟨rfl, _, rfl, by simp [wsBefore, wsEv, runEvents, stepEvent, bind, Except.bind, pure, Except.pure]⟩
      | true =>
        obtain ⟨ind, hind, hiu⟩ := indentItems_units c.enc H.ha { s with cur := s.cur - s.amount }
        simp only [stepEventI, hind, bind, Except.bind, pure, Except.pure] at h
        cases hn : wName c.enc name with
        | error e => simp [hn] at h
        | ok n =>
          simp only [hn, Except.ok.injEq, Prod.mk.injEq] at h
          obtain ⟨rfl, rfl, rfl⟩ := h
          refine ⟨rfl, ?_⟩
          obtain ⟨a', ha', hr⟩ := gen_step c H (wsBefore (true :: t) s (.endElement name)) (wsOf_ws _) (true :: t) (.endElement name) rest
            (wChar c.enc 60 ++ wChar c.enc 47 ++ n ++ wChar c.enc 62) t
            (by simp [stepEvent, parentTagEnd, hn, bind, Except.bind, pure, Except.pure])
            (by simp [stepEvent, parentTagEnd, hn, bind, Except.bind, pure, Except.pure])
          refine ⟨a', ?_, hr⟩
          rw [ha']
          simp only [wsBefore, parentTagEnd, unitsOf_append, hiu, List.append_assoc]
          rfl
  | characters buf length =>
    by_cases hl : length = 0
    · simp only [stepEventI, hl, ↓reduceIte, pure, Except.pure, Except.ok.injEq, Prod.mk.injEq] at h
      obtain ⟨rfl, rfl, rfl⟩ := h
      refine ⟨by simp [nextSt, hl], [], rfl, ?_⟩
      simp only [wsBefore, wsEv, List.isEmpty_nil, ↓reduceIte, List.nil_append, runEvents, stepEvent, hl, bind, Except.bind, pure, Except.pure]
    · simp only [stepEventI, hl, ↓reduceIte, bind, Except.bind, pure, Except.pure] at h
      cases ht : writeCharacters c.ver c.enc (buf.take length) with
      | error e => simp [ht] at h
      | ok t =>
        simp only [ht, Except.ok.injEq, Prod.mk.injEq] at h
        obtain ⟨rfl, rfl, rfl⟩ := h
        refine ⟨by simp only [nextSt, hl, ↓reduceIte, q1, q2], (parentTagEnd c.enc st).1 ++ t, by rw [p1], ?_⟩
        simp only [wsBefore, wsEv, List.isEmpty_nil, ↓reduceIte, List.nil_append, runEvents, stepEvent, hl, ht, bind, Except.bind, pure, Except.pure, p2]
  | charactersRaw str =>
    simp only [stepEventI, bind, Except.bind, pure, Except.pure] at h
    cases ht : wRaw c.enc str with
    | error e => simp [ht] at h
    | ok t =>
      simp only [ht, Except.ok.injEq, Prod.mk.injEq] at h
      obtain ⟨rfl, rfl, rfl⟩ := h
      refine ⟨by simp only [nextSt, q1, q2], (parentTagEnd c.enc st).1 ++ t, by rw [p1], ?_⟩
      simp only [wsBefore, wsEv, List.isEmpty_nil, ↓reduceIte, List.nil_append, runEvents, stepEvent, ht, bind, Except.bind, pure, Except.pure, p2]
  | cdata buf length =>
    by_cases hl : length = 0
    · simp only [stepEventI, hl, ↓reduceIte, pure, Except.pure, Except.ok.injEq, Prod.mk.injEq] at h
      obtain ⟨rfl, rfl, rfl⟩ := h
      refine ⟨by simp [nextSt, hl], [], rfl, ?_⟩
      simp only [wsBefore, wsEv, List.isEmpty_nil, ↓reduceIte, List.nil_append, runEvents, stepEvent, hl, bind, Except.bind, pure, Except.pure]
    · obtain ⟨ind, hind, hiu⟩ := indentItems_units c.enc H.ha { (parentTagEndI c.enc st s).2.2 with ispreserve := true }
      have hw0 : wsOf { (parentTagEndI c.enc st s).2.2 with ispreserve := true } = [] := by simp [wsOf]
      rw [hw0] at hiu
      simp only [stepEventI, hl, ↓reduceIte, hind, bind, Except.bind, pure, Except.pure] at h
      cases ht : writeCDATA c.cdata c.ver c.enc buf length with
      | error e => simp [ht] at h
      | ok t =>
        simp only [ht, Except.ok.injEq, Prod.mk.injEq] at h
        obtain ⟨rfl, rfl, rfl⟩ := h
        refine ⟨by simp only [nextSt, hl, ↓reduceIte, q1, q2], (parentTagEnd c.enc st).1 ++ t, by simp [unitsOf_append, hiu, p1], ?_⟩
        simp only [wsBefore, wsEv, List.isEmpty_nil, ↓reduceIte, List.nil_append, runEvents, stepEvent, hl, ht, bind, Except.bind, pure, Except.pure, p2]

/-- the indenting serializer = the plain serializer behind the filter, unit for unit, plus the final line break -/
theorem runEventsI_filter (c : Cfg) (H : DocHyp c) (evs : List Event) :
    ∀ (st : List Bool) (s : IndSt) (items : List Item), runEventsI c evs st s = .ok items →
      ∃ items', runEvents c (decorEvents evs st s) st = .ok items' ∧
        unitsOf items = unitsOf items' ++ endWs evs st s := by
  induction evs with
  | nil =>
    intro st s items h
    obtain ⟨it, hit, hiu⟩ := indentItems_units c.enc H.ha { s with startNewLine := true }
    simp only [runEventsI, hit, Except.ok.injEq] at h
    subst h
    refine ⟨[], rfl, ?_⟩
    rw [hiu]; rfl
  | cons ev rest ih =>
    intro st s items h
    simp only [runEventsI, bind, Except.bind] at h
    cases hs : stepEventI c st s ev with
    | error e => simp [hs] at h
    | ok r =>
      obtain ⟨a, st1, s1⟩ := r
      simp only [hs] at h
      cases hr : runEventsI c rest st1 s1 with
      | error e => simp [hr] at h
      | ok b =>
        simp only [hr, pure, Except.pure, Except.ok.injEq] at h
        subst h
        obtain ⟨b', hb', hbu⟩ := ih st1 s1 b hr
        obtain ⟨hn, a', ha', hrun⟩ := step_sim c H st s ev a st1 s1 hs (decorEvents rest st1 s1)
        have e1 : (nextSt st s ev).1 = st1 := by rw [← hn]
        have e2 : (nextSt st s ev).2 = s1 := by rw [← hn]
        refine ⟨a' ++ b', ?_, ?_⟩
        · simp only [decorEvents, e1, e2, hrun, hb', bind, Except.bind, pure, Except.pure]
        · simp only [endWs, e1, e2, unitsOf_append, ha', hbu, List.append_assoc]

/-! ### the filter on trees: whitespace-only text children -/

def wsText (w : List Nat) : List XNode := if w.isEmpty then [] else [.text w]

mutual
/-- the tree the filtered events describe: the node, possibly preceded by a whitespace text node; an element possibly
gets one more whitespace text node as its last child (the indentation of its end tag) -/
def decorNode (st : List Bool) (s : IndSt) : XNode → List XNode × List Bool × IndSt
  | .elem n a kids =>
    let r := decorKids (nextSt st s (.startElement n a)).1 (nextSt st s (.startElement n a)).2 kids
    (wsText (wsBefore st s (.startElement n a)) ++ [.elem n a (r.1 ++ wsText (wsBefore r.2.1 r.2.2 (.endElement n)))],
      nextSt r.2.1 r.2.2 (.endElement n))
  | .text t => ([.text t], nextSt st s (.characters (t ++ [0]) t.length))
  | .cdata t => ([.cdata t], nextSt st s (.cdata (t ++ [0]) t.length))
  | .comment d => (wsText (wsBefore st s (.comment d)) ++ [.comment d], nextSt st s (.comment d))
  | .pi t d => (wsText (wsBefore st s (.pi t d)) ++ [.pi t d], nextSt st s (.pi t d))
def decorKids (st : List Bool) (s : IndSt) : List XNode → List XNode × List Bool × IndSt
  | [] => ([], st, s)
  | k :: ks =>
    let r := decorNode st s k
    let r2 := decorKids r.2.1 r.2.2 ks
    (r.1 ++ r2.1, r2.2)
end

theorem eventsL_append (a b : List XNode) : eventsL (a ++ b) = eventsL a ++ eventsL b := by
  induction a with
  | nil => rfl
  | cons k ks ih => simp [eventsL, ih, List.append_assoc]

theorem eventsL_wsText (w : List Nat) : eventsL (wsText w) = wsEv w := by
  unfold wsText wsEv
  cases w.isEmpty <;> simp [eventsL, events]

theorem decor_events (t : XNode) : ∀ (st : List Bool) (s : IndSt) (rest : List Event),
    decorEvents (events t ++ rest) st s =
      eventsL (decorNode st s t).1 ++ decorEvents rest (decorNode st s t).2.1 (decorNode st s t).2.2 := by
  refine XNode.rec
    (motive_1 := fun t => ∀ (st : List Bool) (s : IndSt) (rest : List Event), decorEvents (events t ++ rest) st s =
      eventsL (decorNode st s t).1 ++ decorEvents rest (decorNode st s t).2.1 (decorNode st s t).2.2)
    (motive_2 := fun ks => ∀ (st : List Bool) (s : IndSt) (rest : List Event), decorEvents (eventsL ks ++ rest) st s =
      eventsL (decorKids st s ks).1 ++ decorEvents rest (decorKids st s ks).2.1 (decorKids st s ks).2.2)
    ?_ ?_ ?_ ?_ ?_ ?_ ?_ t
  · intro n a kids ih st s rest
    have e : events (.elem n a kids) ++ rest = .startElement n a :: (eventsL kids ++ (.endElement n :: rest)) := by
      simp [events, List.append_assoc]
    rw [e]
    simp only [decorEvents, ih, decorNode, eventsL_append, eventsL_wsText, eventsL, events, List.append_assoc,
      List.cons_append, List.nil_append, List.append_nil]
  · intro t st s rest
    simp [events, decorEvents, decorNode, wsBefore, wsEv, eventsL]
  · intro t st s rest
    simp [events, decorEvents, decorNode, wsBefore, wsEv, eventsL]
  · intro d st s rest
    simp [events, decorEvents, decorNode, eventsL_append, eventsL_wsText, eventsL, List.append_assoc]
  · intro t d st s rest
    simp [events, decorEvents, decorNode, eventsL_append, eventsL_wsText, eventsL, List.append_assoc]
  · intro st s rest
    simp [eventsL, decorKids]
  · intro k ks ihk ihks st s rest
    simp only [eventsL, List.append_assoc, ihk, ihks, decorKids, eventsL_append]

/-! ### erasing whitespace-only text children -/

def isWsText : XNode → Bool
  | .text s => s.all fun u => u == 10 || u == 32
  | _ => false

mutual
def dropWs : XNode → XNode
  | .elem n a kids => .elem n a (dropWsL kids)
  | .text s => .text s
  | .cdata s => .cdata s
  | .comment s => .comment s
  | .pi t d => .pi t d
def dropWsL : List XNode → List XNode
  | [] => []
  | k :: ks => if isWsText k then dropWsL ks else dropWs k :: dropWsL ks
end

theorem dropWsL_append (a b : List XNode) : dropWsL (a ++ b) = dropWsL a ++ dropWsL b := by
  induction a with
  | nil => rfl
  | cons k ks ih => simp only [List.cons_append, dropWsL, ih]; cases isWsText k <;> simp

theorem dropWsL_wsText (s : IndSt) : dropWsL (wsText (wsOf s)) = [] := by
  unfold wsText
  cases h : (wsOf s).isEmpty
  · have : isWsText (.text (wsOf s)) = true := by
      simp only [isWsText, List.all_eq_true]
      intro u hu; rcases wsOf_ws s u hu with h | h <;> simp [h]
    simp [dropWsL, this]
  · simp [dropWsL]

theorem dropWsL_wsBefore (st : List Bool) (s : IndSt) (ev : Event) : dropWsL (wsText (wsBefore st s ev)) = [] := by
  cases ev with
  | endElement n =>
    cases st with
    | nil => simp [wsBefore, wsText, dropWsL]
    | cons b t => cases b
                  · simp [wsBefore, wsText, dropWsL]
                  · exact dropWsL_wsText _
  | startElement n a => exact dropWsL_wsText _
  | comment d => exact dropWsL_wsText _
  | pi t d => exact dropWsL_wsText _
  | characters b l => simp [wsBefore, wsText, dropWsL]
  | cdata b l => simp [wsBefore, wsText, dropWsL]
  | charactersRaw b => simp [wsBefore, wsText, dropWsL]

/-- the decorated tree is the tree, up to whitespace-only text children -/
theorem decor_dropWs (t : XNode) : ∀ (st : List Bool) (s : IndSt), dropWsL (decorNode st s t).1 = dropWsL [t] := by
  refine XNode.rec
    (motive_1 := fun t => ∀ (st : List Bool) (s : IndSt), dropWsL (decorNode st s t).1 = dropWsL [t])
    (motive_2 := fun ks => ∀ (st : List Bool) (s : IndSt), dropWsL (decorKids st s ks).1 = dropWsL ks)
    ?_ ?_ ?_ ?_ ?_ ?_ ?_ t
  · intro n a kids ih st s
    simp only [decorNode, dropWsL_append, dropWsL_wsBefore, List.nil_append, dropWsL, isWsText, Bool.false_eq_true, ↓reduceIte,
      dropWs, ih, List.append_nil]
  · intro t st s; simp [decorNode]
  · intro t st s; simp [decorNode]
  · intro d st s; simp only [decorNode, dropWsL_append, dropWsL_wsBefore, List.nil_append]
  · intro t d st s; simp only [decorNode, dropWsL_append, dropWsL_wsBefore, List.nil_append]
  · intro st s; simp [decorKids]
  · intro k ks ihk ihks st s
    simp only [decorKids, dropWsL_append, ihk, ihks]
    simp only [dropWsL]; cases isWsText k <;> simp

end XalanModel.C04
