import XalanModel.C04.Tree
namespace XalanModel.C04

def pteOf (e : Enc) (st : List Bool) (quiet : Bool) : List Item × List Bool :=
  if quiet then ([], st) else parentTagEnd e st

theorem parentTagEnd_idem (e : Enc) (st : List Bool) :
    parentTagEnd e (parentTagEnd e st).2 = ([], (parentTagEnd e st).2) := by
  cases st with
  | nil => rfl
  | cons b t => cases b <;> rfl

theorem runEvents_cons (c : Cfg) (ev : Event) (rest : List Event) (st : List Bool) :
    runEvents c (ev :: rest) st =
      (stepEvent c st ev).bind fun r => (runEvents c rest r.2).bind fun b => pure (r.1 ++ b) := by
  simp only [runEvents, bind, Except.bind]

theorem take_self_append (s t : List Nat) : (s ++ t).take s.length = s := by
  simp

def NodeOk (c : Cfg) (t : XNode) : Prop :=
  ∀ (st : List Bool) (rest : List Event),
    runEvents c (events t ++ rest) st =
      (serNode c t).bind fun a =>
        (runEvents c rest (pteOf c.enc st (silent t)).2).bind fun b =>
          pure ((pteOf c.enc st (silent t)).1 ++ a ++ b)

def KidsOk (c : Cfg) (ks : List XNode) : Prop :=
  ∀ (st : List Bool) (rest : List Event),
    runEvents c (eventsL ks ++ rest) st =
      (serKids c ks).bind fun a =>
        (runEvents c rest (pteOf c.enc st (ks.all silent)).2).bind fun b =>
          pure ((pteOf c.enc st (ks.all silent)).1 ++ a ++ b)

theorem text_ok (c : Cfg) (s : List Nat) : NodeOk c (.text s) := by
  intro st rest
  simp only [events, List.cons_append, List.nil_append, runEvents_cons, stepEvent, serNode, silent]
  cases s with
  | nil =>
    simp only [List.length_nil, ↓reduceIte, List.isEmpty_nil, pteOf, bind, Except.bind, pure, Except.pure,
      List.nil_append, List.append_nil]
  | cons x xs =>
    have hl : (x :: xs ++ [0]).take (xs.length + 1) = x :: xs := take_self_append (x :: xs) [0]
    simp only [List.length_cons, Nat.add_eq_zero_iff, and_false, reduceCtorEq, ↓reduceIte, List.isEmpty_cons,
      Bool.false_eq_true, pteOf, hl]
    cases writeCharacters c.ver c.enc (x :: xs) with
    | error e => rfl
    | ok a =>
      simp only [bind, Except.bind, pure, Except.pure]


theorem cdata_ok (c : Cfg) (s : List Nat) : NodeOk c (.cdata s) := by
  intro st rest
  simp only [events, List.cons_append, List.nil_append, runEvents_cons, stepEvent, serNode, silent]
  cases s with
  | nil =>
    simp only [List.length_nil, ↓reduceIte, List.isEmpty_nil, pteOf, bind, Except.bind, pure, Except.pure,
      List.nil_append, List.append_nil]
  | cons x xs =>
    simp only [List.length_cons, Nat.add_eq_zero_iff, and_false, reduceCtorEq, ↓reduceIte, List.isEmpty_cons,
      Bool.false_eq_true, pteOf]
    cases writeCDATA c.cdata c.ver c.enc (x :: xs ++ [0]) (xs.length + 1) with
    | error e => rfl
    | ok a =>
      simp only [bind, Except.bind, pure, Except.pure]

theorem comment_ok (c : Cfg) (s : List Nat) : NodeOk c (.comment s) := by
  intro st rest
  simp only [events, List.cons_append, List.nil_append, runEvents_cons, stepEvent, serNode, silent, commentItems,
    Bool.false_eq_true, ↓reduceIte, pteOf]
  cases writeNormalizedData c.ver c.enc s with
  | error e => rfl
  | ok a =>
    simp only [bind, Except.bind, pure, Except.pure, List.append_assoc]

theorem pi_ok (c : Cfg) (t d : List Nat) : NodeOk c (.pi t d) := by
  intro st rest
  simp only [events, List.cons_append, List.nil_append, runEvents_cons, stepEvent, serNode, silent, piItems,
    Bool.false_eq_true, ↓reduceIte, pteOf]
  cases wName c.enc t with
  | error e => rfl
  | ok a =>
    cases writeNormalizedData c.ver c.enc d with
    | error e => rfl
    | ok b =>
      cases d with
      | nil => simp only [bind, Except.bind, pure, Except.pure, List.append_assoc]
      | cons d0 ds => simp only [bind, Except.bind, pure, Except.pure, List.append_assoc]

theorem serNode_silent (c : Cfg) (k : XNode) (h : silent k = true) : serNode c k = .ok [] := by
  cases k with
  | text s => simp only [silent] at h; simp [serNode, h, pure, Except.pure]
  | cdata s => simp only [silent] at h; simp [serNode, h, pure, Except.pure]
  | elem n a ks => simp [silent] at h
  | comment s => simp [silent] at h
  | pi t d => simp [silent] at h

theorem kids_nil_ok (c : Cfg) : KidsOk c [] := by
  intro st rest
  simp only [eventsL, List.nil_append, serKids, List.all_nil, pteOf, ↓reduceIte, bind, Except.bind, pure, Except.pure]
  cases runEvents c rest st <;> rfl

theorem kids_cons_ok (c : Cfg) (k : XNode) (ks : List XNode) (hk : NodeOk c k) (hks : KidsOk c ks) :
    KidsOk c (k :: ks) := by
  intro st rest
  simp only [eventsL, List.append_assoc, serKids, List.all_cons]
  rw [hk st (eventsL ks ++ rest)]
  cases hsn : serNode c k with
  | error e => rfl
  | ok a =>
    simp only [Except.bind, bind]
    rw [hks]
    cases serKids c ks with
    | error e => rfl
    | ok b =>
      simp only [Except.bind, bind, pure, Except.pure]
      cases hq : silent k with
      | true =>
        have ha : a = [] := by
          rw [serNode_silent c k hq] at hsn; injection hsn with hsn; exact hsn.symm
        subst ha
        simp only [pteOf, ↓reduceIte, Bool.true_and, List.nil_append]
        cases runEvents c rest (if ks.all silent = true then ([], st) else parentTagEnd c.enc st).2 with
        | error e => rfl
        | ok r => simp only [List.append_assoc]
      | false =>
        simp only [pteOf, Bool.false_eq_true, ↓reduceIte, Bool.false_and]
        have hid := parentTagEnd_idem c.enc st
        cases hall : ks.all silent with
        | true =>
          simp only [↓reduceIte]
          cases runEvents c rest (parentTagEnd c.enc st).2 with
          | error e => rfl
          | ok r => simp only [List.nil_append, List.append_assoc]
        | false =>
          simp only [Bool.false_eq_true, ↓reduceIte, hid]
          cases runEvents c rest (parentTagEnd c.enc st).2 with
          | error e => rfl
          | ok r => simp only [List.nil_append, List.append_assoc]


theorem parentTagEnd_false (e : Enc) (st : List Bool) : parentTagEnd e (false :: st) = (wChar e 62, true :: st) := rfl

theorem serKids_silent (c : Cfg) (ks : List XNode) (h : ks.all silent = true) : serKids c ks = .ok [] := by
  induction ks with
  | nil => rfl
  | cons k ks ih =>
    simp only [List.all_cons, Bool.and_eq_true] at h
    simp only [serKids, serNode_silent c k h.1, ih h.2, bind, Except.bind, pure, Except.pure, List.append_nil]

theorem elem_ok (c : Cfg) (n : List Nat) (a : List (List Nat × List Nat)) (kids : List XNode)
    (hks : KidsOk c kids) : NodeOk c (.elem n a kids) := by
  intro st rest
  have hev : events (.elem n a kids) ++ rest = .startElement n a :: (eventsL kids ++ (.endElement n :: rest)) := by
    simp [events]
  rw [hev, runEvents_cons]
  simp only [stepEvent, serNode, silent, pteOf, Bool.false_eq_true, ↓reduceIte]
  cases hn : wName c.enc n with
  | error e => rfl
  | ok nn =>
    cases ha : writeAttrs c a with
    | error e => rfl
    | ok aa =>
      simp only [bind, Except.bind, pure, Except.pure]
      rw [hks]
      cases hall : kids.all silent with
      | true =>
        rw [serKids_silent c kids hall]
        simp only [Except.bind, pteOf, ↓reduceIte, runEvents_cons, stepEvent, pure, Except.pure]
        cases runEvents c rest (parentTagEnd c.enc st).2 with
        | error e => rfl
        | ok r => simp only [List.nil_append, List.append_nil, List.append_assoc]
      | false =>
        cases hk : serKids c kids with
        | error e => rfl
        | ok k =>
          simp only [Except.bind, pteOf, Bool.false_eq_true, ↓reduceIte, runEvents_cons, stepEvent, parentTagEnd_false, hn,
            bind, pure, Except.pure]
          cases runEvents c rest (parentTagEnd c.enc st).2 with
          | error e => rfl
          | ok r => simp only [List.nil_append, List.append_nil, List.append_assoc]

/-- every tree: the event-driven serializer (element stack, deferred `>` of the start tag, empty-element
minimisation) writes exactly what the recursive definition `serNode` says -/
theorem node_ok (c : Cfg) (t : XNode) : NodeOk c t := by
  refine XNode.rec (motive_1 := fun t => NodeOk c t) (motive_2 := fun ks => KidsOk c ks)
    (fun n a kids ih => elem_ok c n a kids ih) (fun s => text_ok c s) (fun s => cdata_ok c s)
    (fun s => comment_ok c s) (fun t d => pi_ok c t d) (kids_nil_ok c) (fun k ks ihk ihks => kids_cons_ok c k ks ihk ihks) t

end XalanModel.C04
