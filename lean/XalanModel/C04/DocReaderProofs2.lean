import XalanModel.C04.DocReaderProofs1
namespace XalanModel.C04
open Spec XalanModel.Generated.C04

theorem table_6034 : ∀ ver ∈ [Ver.v10, Ver.v11], pContent ver 60 = true ∧ pAttribute ver 34 = true ∧ pAttribute ver 60 = true ∧
    60 ≤ lastSpecial ver := by decide +kernel

/-- the first character written for a character of content is never `<`; of an attribute value never `"` or `<` -/
theorem absEsc_head (ver : Ver) (ce : Nat → Bool) (attr : Bool) (c : Nat) (a : List Nat)
    (h : absEsc ver ce attr c = .ok a) : ∃ hd t, a = hd :: t ∧ hd ≠ 60 ∧ (attr = true → hd ≠ 34) := by
  have hver : ver ∈ [Ver.v10, Ver.v11] := by cases ver <;> simp
  obtain ⟨t1, t2, t3, t4⟩ := table_6034 ver hver
  unfold absEsc at h
  by_cases hr : c > lastSpecial ver
  · rw [if_pos hr] at h
    by_cases h28 : ver = .v11 ∧ c = 0x2028
    · rw [if_pos h28] at h; injection h with h; subst h; exact ⟨38, 35 :: (decDigits c ++ [59]), by simp [ncrText], by omega, fun _ => by omega⟩
    · rw [if_neg h28] at h
      by_cases hc : ce c = true
      · rw [if_pos hc] at h; injection h with h; subst h; exact ⟨c, [], rfl, by omega, fun _ => by omega⟩
      · rw [if_neg hc] at h; injection h with h; subst h; exact ⟨38, 35 :: (decDigits c ++ [59]), by simp [ncrText], by omega, fun _ => by omega⟩
  · rw [if_neg hr] at h
    by_cases hsp : (if attr then pAttribute ver c else pContent ver c) = false
    · rw [if_pos hsp] at h; injection h with h; subst h
      refine ⟨c, [], rfl, ?_, ?_⟩
      · intro e; subst e; cases attr <;> simp_all
      · intro ha e; subst e; subst ha; simp_all
    · rw [if_neg hsp] at h
      by_cases h60 : c = 60
      · rw [if_pos h60] at h; injection h with h; subst h; exact ⟨38, _, rfl, by omega, fun _ => by omega⟩
      · rw [if_neg h60] at h
        by_cases h62 : c = 62
        · rw [if_pos h62] at h; injection h with h; subst h; exact ⟨38, _, rfl, by omega, fun _ => by omega⟩
        · rw [if_neg h62] at h
          by_cases h38 : c = 38
          · rw [if_pos h38] at h; injection h with h; subst h; exact ⟨38, _, rfl, by omega, fun _ => by omega⟩
          · rw [if_neg h38] at h
            by_cases h34 : attr = true ∧ c = 34
            · rw [if_pos h34] at h; injection h with h; subst h; exact ⟨38, _, rfl, by omega, fun _ => by omega⟩
            · rw [if_neg h34] at h
              by_cases h10 : attr = false ∧ c = 10
              · rw [if_pos h10] at h; injection h with h; subst h
                exact ⟨10, [], rfl, by omega, fun ha => by rw [h10.1] at ha; cases ha⟩
              · rw [if_neg h10] at h
                by_cases hf : pForbidden ver c = true
                · rw [if_pos hf] at h; cases h
                · rw [if_neg hf] at h; injection h with h; subst h
                  exact ⟨38, 35 :: (decDigits c ++ [59]), by simp [ncrText], by omega, fun _ => by omega⟩

theorem absEscAll_inv (ver : Ver) (ce : Nat → Bool) (attr : Bool) (c : Nat) (cs out : List Nat)
    (h : absEscAll ver ce attr (c :: cs) = .ok out) :
    ∃ a b, absEsc ver ce attr c = .ok a ∧ absEscAll ver ce attr cs = .ok b ∧ out = a ++ b := by
  simp only [absEscAll, bind, Except.bind] at h
  cases ha : absEsc ver ce attr c with
  | error e => rw [ha] at h; cases h
  | ok a =>
    rw [ha] at h
    cases hb : absEscAll ver ce attr cs with
    | error e => rw [hb] at h; cases h
    | ok b => rw [hb] at h; simp only [pure, Except.pure] at h; injection h with h; exact ⟨a, b, rfl, rfl, h.symm⟩

/-- escaped character content read by the text-run reader (to the end of the input) -/
theorem readCDF_absEscAll (ver : Ver) (ce : Nat → Bool) (cs : List Nat) (hl : ∀ c ∈ cs, legalChar ver c = true) :
    ∀ out, absEscAll ver ce false cs = .ok out → ∀ f, out.length ≤ f → readCDF ver f none out = some cs := by
  induction cs with
  | nil =>
    intro out h f _
    simp only [absEscAll] at h; injection h with h; subst h
    cases f <;> rfl
  | cons c cs ih =>
    intro out h f hf
    obtain ⟨a, b, ha, hb, rfl⟩ := absEscAll_inv ver ce false c cs out h
    obtain ⟨a', ha', hlen, hone⟩ := readOne_absEsc ver ce false c (hl c (by simp))
    rw [ha] at ha'; injection ha' with e; subst e
    obtain ⟨hd, t, hE, hne, _⟩ := absEsc_head ver ce false c a ha
    rw [List.length_append] at hf
    obtain ⟨d, rfl⟩ := Nat.exists_eq_add_of_le (show 1 ≤ f by omega)
    have e1 : 1 + d = d + 1 := by omega
    rw [e1]
    have hrd := hone b
    subst hE
    simp only [List.cons_append] at hrd ⊢
    have hO : ((hd :: (t ++ b)).take 9 = OPEN) = False := by
      simp [OPEN]; intro e; exact absurd e hne
    simp only [readCDF, hO, ↓reduceIte, hrd]
    rw [ih (fun x hx => hl x (by simp [hx])) b hb d (by simp at hf; omega)]
    rfl

/-- an attribute value up to its closing quote -/
theorem readAttrVal_absEscAll (ver : Ver) (ce : Nat → Bool) (cs : List Nat) (hl : ∀ c ∈ cs, legalChar ver c = true) :
    ∀ out, absEscAll ver ce true cs = .ok out → ∀ rest f, out.length + 1 ≤ f →
      readAttrVal ver f (out ++ 34 :: rest) = some (cs, rest) := by
  induction cs with
  | nil =>
    intro out h rest f hf
    simp only [absEscAll] at h; injection h with h; subst h
    obtain ⟨d, rfl⟩ := Nat.exists_eq_add_of_le (show 1 ≤ f by omega)
    have e1 : 1 + d = d + 1 := by omega
    rw [e1]; simp [readAttrVal]
  | cons c cs ih =>
    intro out h rest f hf
    obtain ⟨a, b, ha, hb, rfl⟩ := absEscAll_inv ver ce true c cs out h
    obtain ⟨a', ha', hlen, hone⟩ := readOne_absEsc ver ce true c (hl c (by simp))
    rw [ha] at ha'; injection ha' with e; subst e
    obtain ⟨hd, t, hE, _, hne⟩ := absEsc_head ver ce true c a ha
    rw [List.length_append] at hf
    obtain ⟨d, rfl⟩ := Nat.exists_eq_add_of_le (show 1 ≤ f by omega)
    have e1 : 1 + d = d + 1 := by omega
    rw [e1]
    have hrd := hone (b ++ 34 :: rest)
    subst hE
    simp only [List.cons_append, List.append_assoc] at hrd ⊢
    have h34 : hd ≠ 34 := hne rfl
    simp only [readAttrVal, h34, ↓reduceIte, hrd]
    rw [ih (fun x hx => hl x (by simp [hx])) b hb rest d (by simp at hf; omega)]
    rfl

end XalanModel.C04
