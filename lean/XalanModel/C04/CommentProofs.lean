import XalanModel.C04.EscapeProofs
/-! comments and processing instructions: `writeNormalizedData` writes the data itself, in the output encoding -/
namespace XalanModel.C04
open Spec XalanModel.Generated.C04

theorem normLoop_nil (ver : Ver) (e : Enc) (sk : Bool) : normLoop ver e [] sk = .ok [] := by
  cases sk <;> rfl

theorem normLoop_skip (ver : Ver) (e : Enc) (c : Nat) (rest : List Nat) :
    normLoop ver e (c :: rest) true = normLoop ver e rest false := rfl

theorem normLoop_lf (ver : Ver) (e : Enc) (rest : List Nat) (a b : List Item)
    (ha : wNewline e = .ok a) (hb : normLoop ver e rest false = .ok b) :
    normLoop ver e (10 :: rest) false = .ok (a ++ b) := by
  unfold normLoop
  simp only [↓reduceIte, ha, hb, bind, Except.bind, pure, Except.pure]

theorem normLoop_char (ver : Ver) (e : Enc) (c : Nat) (rest : List Nat) (it b : List Item) (two : Bool)
    (h10 : c ≠ 10) (hf : pCharRefForbidden ver c = false) (hok : notCharCheck e c = .ok ())
    (hw : wCP e e.fx.normLiteral c rest = .ok (it, two)) (hb : normLoop ver e rest two = .ok b) :
    normLoop ver e (c :: rest) false = .ok (it ++ b) := by
  unfold normLoop
  simp only [h10, ↓reduceIte, hf, Bool.false_eq_true, hok, hw, hb, bind, Except.bind, pure, Except.pure]

/-- a representable BMP character through `write(chars, start, length)` of any writer, either functor -/
theorem wCP_enc_bmp (e : Enc) (thr : Bool) (c : Nat) (rest : List Nat) (hs : IsScalar c) (hb : c < 0x10000)
    (hc : canEncOf e c = true) :
    ∃ it, wCP e thr c rest = .ok (it, false) ∧ unitsOf it = encodeOut e.kind [c] := by
  have hd := ((decodeHead_utf16Encode c rest hs).1 hb).2
  have h16 : utf16EncodeOne c = [c] := ((decodeHead_utf16Encode c rest hs).1 hb).1
  unfold wCP
  cases hk : e.kind with
  | utf16 =>
    cases hf : e.fx.utf16Pairs with
    | false =>
      simp only [↓reduceIte, Bool.false_eq_true]
      exact ⟨_, rfl, by rw [encodeOut_single]; simp [h16, unitsOf, Item.units]⟩
    | true =>
      simp only [↓reduceIte, hd, bind, Except.bind, pure, Except.pure]
      exact ⟨_, rfl, by rw [encodeOut_single]; simp [h16, unitsOf, Item.units]⟩
  | utf8 =>
    obtain ⟨it, hit, hu⟩ := utf8Scalar_units c hs
    simp only [hd, hit, bind, Except.bind, pure, Except.pure]
    exact ⟨it, rfl, by rw [encodeOut_single]; exact hu⟩
  | other =>
    have hc' : e.canEnc c = true := by simpa [canEncOf, hk] using hc
    simp only [hd, bind, Except.bind, pure, Except.pure, hc', ↓reduceIte]
    refine ⟨_, rfl, ?_⟩
    rw [encodeOut_single]
    have : ¬ (c > 0xFFFF) := by omega
    simp [otherScalar, this, h16, unitsOf, Item.units]

theorem wCP_enc_two (e : Enc) (thr : Bool) (hk : e.kind ≠ .utf16 ∨ e.fx.utf16Pairs = true) (c hi lo : Nat) (rest : List Nat)
    (hs : IsScalar c) (hgt : c > 0xFFFF)
    (hd : decodeHead hi (lo :: rest) = .ok (c, true))
    (h16 : utf16EncodeOne c = [hi, lo]) (e1 : c / 1024 + 0xD7C0 = hi) (e2 : c % 1024 + 0xDC00 = lo)
    (hc : canEncOf e c = true) :
    ∃ it, wCP e thr hi (lo :: rest) = .ok (it, true) ∧ unitsOf it = encodeOut e.kind [c] := by
  unfold wCP
  cases hkk : e.kind with
  | utf16 =>
    have hf : e.fx.utf16Pairs = true := by
      rcases hk with h | h
      · exact absurd hkk h
      · exact h
    simp only [hf, ↓reduceIte, hd, bind, Except.bind, pure, Except.pure]
    exact ⟨_, rfl, by rw [encodeOut_single]; simp [h16, unitsOf, Item.units]⟩
  | utf8 =>
    obtain ⟨it, hit, hu⟩ := utf8Scalar_units c hs
    simp only [hd, hit, bind, Except.bind, pure, Except.pure]
    exact ⟨it, rfl, by rw [encodeOut_single]; exact hu⟩
  | other =>
    have hc' : e.canEnc c = true := by simpa [canEncOf, hkk] using hc
    simp only [hd, bind, Except.bind, pure, Except.pure, hc', ↓reduceIte]
    refine ⟨_, rfl, ?_⟩
    rw [encodeOut_single]
    simp only [otherScalar, hgt, ↓reduceIte, unitsOf, List.flatMap_cons, List.flatMap_nil, Item.units,
      List.append_nil, h16, e1, e2]

/-- what a comment / PI may contain literally -/
def LiteralOk (ver : Ver) (e : Enc) (c : Nat) : Prop :=
  legalChar ver c = true ∧ c ≠ 13 ∧ (c = 10 ∨ pCharRefForbidden ver c = false) ∧
  (ver = .v11 → c ≠ 0x85 ∧ c ≠ 0x2028) ∧ canEncOf e c = true

theorem normLoop_identity (ver : Ver) (e : Enc) (ha : AsciiOk e)
    (hcons : e.fx.rejectNonChar = true → e.fx.utf16Pairs = true)
    (data : List Nat) (hl : ∀ c ∈ data, LiteralOk ver e c) :
    ∃ items, normLoop ver e (utf16Encode data) false = .ok items ∧ unitsOf items = encodeOut e.kind data := by
  induction data with
  | nil => exact ⟨[], normLoop_nil ver e false, by cases e.kind <;> rfl⟩
  | cons c cs ih =>
    obtain ⟨b, hb, hbu⟩ := ih (fun x hx => hl x (by simp [hx]))
    obtain ⟨hlc, h13, hcf, _, hce⟩ := hl c (by simp)
    have hs := legal_scalar ver c hlc
    have hU : utf16Encode (c :: cs) = utf16EncodeOne c ++ utf16Encode cs := by simp [utf16Encode]
    have hE : encodeOut e.kind (c :: cs) = encodeOut e.kind [c] ++ encodeOut e.kind cs := by
      rw [← encodeOut_append]; rfl
    rw [hU, hE]
    by_cases hb16 : c < 0x10000
    · have h16 : utf16EncodeOne c = [c] := ((decodeHead_utf16Encode c [] hs).1 hb16).1
      rw [h16]
      simp only [List.cons_append, List.nil_append]
      by_cases h10 : c = 10
      · subst h10
        obtain ⟨a, haa, hau⟩ := wNewline_units e ha
        refine ⟨a ++ b, normLoop_lf ver e _ a b haa hb, ?_⟩
        rw [unitsOf_append, hau, hbu, encodeOut_ascii _ [10] (by intro u hu; simp at hu; omega)]
      · have hcf' : pCharRefForbidden ver c = false := by
          rcases hcf with h | h
          · exact absurd h h10
          · exact h
        have hokc : notCharCheck e c = .ok () := by
          obtain ⟨q1, q2⟩ := hs
          refine notCharCheck_ok e c (by simp [isLow]; omega) ?_ ?_
          · intro e0; subst e0; cases ver <;> simp [legalChar] at hlc
          · cases ver <;> simp [legalChar] at hlc <;> omega
        obtain ⟨it, hit, hitu⟩ := wCP_enc_bmp e e.fx.normLiteral c (utf16Encode cs) hs hb16 hce
        refine ⟨it ++ b, normLoop_char ver e c _ it b false h10 hcf' hokc hit hb, ?_⟩
        rw [unitsOf_append, hitu, hbu]
    · have hge : 0x10000 ≤ c := by omega
      have h16 := ((decodeHead_utf16Encode c (utf16Encode cs) hs).2 hge).1
      have hdh := ((decodeHead_utf16Encode c (utf16Encode cs) hs).2 hge).2
      obtain ⟨hs1, hs2⟩ := hs
      rw [h16]
      simp only [List.cons_append, List.nil_append]
      have h160 := lastSpecial_lt ver
      have hfhi : pCharRefForbidden ver (0xD800 + (c - 0x10000) / 1024) = false := by
        unfold pCharRefForbidden; rw [if_pos (by omega)]
      have hflo : pCharRefForbidden ver (0xDC00 + (c - 0x10000) % 1024) = false := by
        unfold pCharRefForbidden; rw [if_pos (by omega)]
      have hokhi : notCharCheck e (0xD800 + (c - 0x10000) / 1024) = .ok () :=
        notCharCheck_ok e _ (by simp [isLow]; omega) (by omega) (by omega)
      by_cases hk : e.kind ≠ .utf16 ∨ e.fx.utf16Pairs = true
      · obtain ⟨it, hit, hitu⟩ := wCP_enc_two e e.fx.normLiteral hk c _ _ (utf16Encode cs) ⟨hs1, hs2⟩ (by omega) hdh h16
          (by omega) (by omega) hce
        have hsk : normLoop ver e ((0xDC00 + (c - 0x10000) % 1024) :: utf16Encode cs) true = .ok b := by
          rw [normLoop_skip]; exact hb
        refine ⟨it ++ b, normLoop_char ver e _ _ it b true (by omega) hfhi hokhi hit hsk, ?_⟩
        rw [unitsOf_append, hitu, hbu]
      · have hk16 : e.kind = .utf16 := by
          cases h : e.kind <;> simp_all
        have hf : e.fx.utf16Pairs = false := by
          cases h : e.fx.utf16Pairs <;> simp_all
        have hrn : e.fx.rejectNonChar = false := by
          cases h : e.fx.rejectNonChar with
          | false => rfl
          | true => have := hcons h; rw [hf] at this; cases this
        have hoklo : notCharCheck e (0xDC00 + (c - 0x10000) % 1024) = .ok () := by
          unfold notCharCheck; simp [hrn]
        have hw1 : wCP e e.fx.normLiteral (0xD800 + (c - 0x10000) / 1024) ((0xDC00 + (c - 0x10000) % 1024) :: utf16Encode cs)
            = .ok ([.one (0xD800 + (c - 0x10000) / 1024)], false) := by
          unfold wCP; simp only [hk16, hf, ↓reduceIte, Bool.false_eq_true]
        have hw2 : wCP e e.fx.normLiteral (0xDC00 + (c - 0x10000) % 1024) (utf16Encode cs)
            = .ok ([.one (0xDC00 + (c - 0x10000) % 1024)], false) := by
          unfold wCP; simp only [hk16, hf, ↓reduceIte, Bool.false_eq_true]
        have hstep2 := normLoop_char ver e _ _ _ b false (by omega) hflo hoklo hw2 hb
        refine ⟨_, normLoop_char ver e _ _ _ _ false (by omega) hfhi hokhi hw1 hstep2, ?_⟩
        simp only [unitsOf_append, hbu]
        simp [encodeOut, hk16, h16, unitsOf, Item.units]

end XalanModel.C04
