import XalanModel.C04.CommentPI
namespace XalanModel.C04

theorem repairComment_head (s : List Nat) : (repairComment s).head? = s.head? := by
  cases s with
  | nil => rfl
  | cons c rest =>
    unfold repairComment
    by_cases h : c = 45
    · rw [if_pos h]
      cases rest with
      | nil => simp [h]
      | cons n r => by_cases hn : n = 45 <;> simp [hn, h]
    · rw [if_neg h]; rfl

theorem hasDD_cons_ne (a : Nat) (l : List Nat) (h : a ≠ 45) : hasDD (a :: l) = hasDD l := by
  cases l with
  | nil => rfl
  | cons b r => simp [hasDD, h]

theorem hasDD_45_of_head (l : List Nat) (h : l.head? ≠ some 45) : hasDD (45 :: l) = hasDD l := by
  cases l with
  | nil => rfl
  | cons b r =>
    have : b ≠ 45 := by intro e; subst e; simp at h
    simp [hasDD, this]

theorem repairComment_noDD (s : List Nat) : hasDD (repairComment s) = false := by
  induction s with
  | nil => rfl
  | cons c rest ih =>
    unfold repairComment
    by_cases h : c = 45
    · rw [if_pos h]
      cases rest with
      | nil => rfl
      | cons n r =>
        by_cases hn : n = 45
        · simp only [hn, ↓reduceIte]
          have : hasDD (45 :: 32 :: repairComment (45 :: r)) = hasDD (repairComment (45 :: r)) := by
            rw [hasDD_45_of_head _ (by simp), hasDD_cons_ne _ _ (by decide)]
          rw [this, ← hn]; exact ih
        · simp only [hn, ↓reduceIte]
          rw [hasDD_45_of_head _ (by rw [repairComment_head]; simp [hn])]
          exact ih
    · rw [if_neg h, hasDD_cons_ne _ _ h]; exact ih

theorem endsHyphen_cons (a : Nat) (l : List Nat) (h : l ≠ []) : endsHyphen (a :: l) = endsHyphen l := by
  cases l with
  | nil => exact absurd rfl h
  | cons b r => rfl

theorem repairComment_ne_nil (c : Nat) (rest : List Nat) : repairComment (c :: rest) ≠ [] := by
  unfold repairComment
  by_cases h : c = 45
  · rw [if_pos h]
    cases rest with
    | nil => simp
    | cons n r => by_cases hn : n = 45 <;> simp [hn]
  · rw [if_neg h]; simp

theorem repairComment_noTrailingHyphen (s : List Nat) : endsHyphen (repairComment s) = false := by
  induction s with
  | nil => rfl
  | cons c rest ih =>
    cases rest with
    | nil =>
      unfold repairComment
      by_cases h : c = 45
      · rw [if_pos h]; rfl
      · rw [if_neg h]; simp [repairComment, endsHyphen, h]
    | cons n r =>
      have hne := repairComment_ne_nil n r
      unfold repairComment
      by_cases h : c = 45
      · rw [if_pos h]
        by_cases hn : n = 45
        · simp only [hn, ↓reduceIte]
          rw [endsHyphen_cons _ _ (by simp), endsHyphen_cons _ _ (by rw [← hn]; exact hne), ← hn]; exact ih
        · simp only [hn, ↓reduceIte]
          rw [endsHyphen_cons _ _ hne]; exact ih
      · rw [if_neg h, endsHyphen_cons _ _ hne]; exact ih

theorem repairComment_sublist (s : List Nat) : List.Sublist s (repairComment s) := by
  induction s with
  | nil => exact List.Sublist.slnil
  | cons c rest ih =>
    unfold repairComment
    by_cases h : c = 45
    · rw [if_pos h]
      cases rest with
      | nil => subst h; exact List.Sublist.cons₂ _ (List.nil_sublist _)
      | cons n r =>
        by_cases hn : n = 45
        · simp only [hn, ↓reduceIte]; subst h
          exact List.Sublist.cons₂ _ (List.Sublist.cons _ (by rw [← hn]; exact ih))
        · simp only [hn, ↓reduceIte]; subst h
          exact List.Sublist.cons₂ _ ih
    · rw [if_neg h]; exact List.Sublist.cons₂ _ ih

theorem repairComment_id (s : List Nat) (h1 : hasDD s = false) (h2 : endsHyphen s = false) : repairComment s = s := by
  induction s with
  | nil => rfl
  | cons c rest ih =>
    unfold repairComment
    by_cases h : c = 45
    · rw [if_pos h]
      cases rest with
      | nil => subst h; simp [endsHyphen] at h2
      | cons n r =>
        have hn : n ≠ 45 := by
          intro e; subst e; subst h; simp [hasDD] at h1
        simp only [hn, ↓reduceIte]
        have h1' : hasDD (n :: r) = false := by subst h; rw [hasDD_45_of_head _ (by simp [hn])] at h1; exact h1
        rw [ih h1' (by rw [endsHyphen_cons _ _ (by simp)] at h2; exact h2), h]
    · rw [if_neg h]
      have h1' : hasDD rest = false := by rw [hasDD_cons_ne _ _ h] at h1; exact h1
      cases rest with
      | nil => rfl
      | cons n r => rw [ih h1' (by rw [endsHyphen_cons _ _ (by simp)] at h2; exact h2)]

theorem hasPIEnd_cons_ne (a : Nat) (l : List Nat) (h : a ≠ 63) : hasPIEnd (a :: l) = hasPIEnd l := by
  cases l with
  | nil => rfl
  | cons b r => simp [hasPIEnd, h]

theorem hasPIEnd_63_of_head (l : List Nat) (h : l.head? ≠ some 62) : hasPIEnd (63 :: l) = hasPIEnd l := by
  cases l with
  | nil => rfl
  | cons b r =>
    have : b ≠ 62 := by intro e; subst e; simp at h
    simp [hasPIEnd, this]

theorem repairPI_head (s : List Nat) : (repairPI s).head? = s.head? := by
  match s with
  | [] => rfl
  | [c] => rfl
  | c :: n :: r =>
    unfold repairPI
    by_cases h : c = 63 ∧ n = 62
    · rw [if_pos h]; simp [h.1]
    · rw [if_neg h]; rfl

theorem repairPI_noEnd : ∀ (k : Nat) (s : List Nat), s.length ≤ k → hasPIEnd (repairPI s) = false := by
  intro k
  induction k with
  | zero => intro s hs; cases s with
    | nil => rfl
    | cons _ _ => simp at hs
  | succ k ih =>
    intro s hs
    match s with
    | [] => rfl
    | [c] => rfl
    | c :: n :: r =>
      simp only [List.length_cons] at hs
      unfold repairPI
      by_cases h : c = 63 ∧ n = 62
      · rw [if_pos h]
        rw [hasPIEnd_63_of_head _ (by simp), hasPIEnd_cons_ne _ _ (by decide), hasPIEnd_cons_ne _ _ (by decide)]
        exact ih r (by omega)
      · rw [if_neg h]
        have hrec := ih (n :: r) (by simp; omega)
        by_cases hc : c = 63
        · have hn : n ≠ 62 := fun e => h ⟨hc, e⟩
          subst hc
          rw [hasPIEnd_63_of_head _ (by rw [repairPI_head]; simp [hn])]; exact hrec
        · rw [hasPIEnd_cons_ne _ _ hc]; exact hrec

end XalanModel.C04
