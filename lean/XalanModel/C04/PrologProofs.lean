import XalanModel.C04.DocReaderProofs9
namespace XalanModel.C04
open Spec XalanModel.Generated.C04

/-- printable ASCII without the characters that end the constructs of the prolog -/
def Printable (l : List Nat) : Prop := ∀ c ∈ l, 32 ≤ c ∧ c < 127 ∧ c ≠ 34 ∧ c ≠ 62 ∧ c ≠ 63

theorem Printable.ascii {l : List Nat} (h : Printable l) : Ascii l := fun u hu => by have := h u hu; omega

theorem prolog_strings (e : Enc) :
    hdrStart e = UTF16_s_xmlHeaderStartString ∧ hdrEnc e = UTF16_s_xmlHeaderEncodingString ∧
    hdrEnd e = UTF16_s_xmlHeaderEndString ∧ hdrStandalone e = UTF16_s_xmlHeaderStandaloneString ∧
    dtStart e = UTF16_s_doctypeHeaderStartString ∧ dtPublic e = UTF16_s_doctypeHeaderPublicString ∧
    dtSystem e = UTF16_s_doctypeHeaderSystemString := by
  unfold hdrStart hdrEnc hdrEnd hdrStandalone dtStart dtPublic dtSystem
  cases e.kind <;> decide

theorem ascii_consts : Ascii UTF16_s_xmlHeaderStartString ∧ Ascii UTF16_s_xmlHeaderEncodingString ∧
    Ascii UTF16_s_xmlHeaderEndString ∧ Ascii UTF16_s_xmlHeaderStandaloneString ∧
    Ascii UTF16_s_doctypeHeaderStartString ∧ Ascii UTF16_s_doctypeHeaderPublicString ∧
    Ascii UTF16_s_doctypeHeaderSystemString := by
  refine ⟨?_, ?_, ?_, ?_, ?_, ?_, ?_⟩ <;> (intro u hu; revert u; decide)

theorem ascii_append {a b : List Nat} (ha : Ascii a) (hb : Ascii b) : Ascii (a ++ b) := by
  intro u hu; rcases List.mem_append.mp hu with h | h
  · exact ha u h
  · exact hb u h

theorem verString_ascii (v : Ver) : Ascii (verString v) := by cases v <;> (intro u hu; revert u; decide)

/-- `writeXMLHeader`, on characters -/
theorem header_enc (c : Cfg) (ha : AsciiOk c.enc) (hE : Printable c.encName) (hS : Printable c.standalone) :
    ∃ h, writeXMLHeader c = .ok h ∧ unitsOf h = encodeOut c.enc.kind (absHeader c) ∧ Ascii (absHeader c) := by
  obtain ⟨s1, s2, s3, s4, _, _, _⟩ := prolog_strings c.enc
  obtain ⟨a1, a2, a3, a4, _, _, _⟩ := ascii_consts
  unfold writeXMLHeader absHeader
  cases hw : shouldWriteHeader c with
  | false => exact ⟨[], by simp [pure, Except.pure], by cases c.enc.kind <;> rfl, by intro u hu; simp at hu⟩
  | true =>
    obtain ⟨v, hv, hvu⟩ := wStr_ascii c.enc ha (verString c.ver) (verString_ascii c.ver)
    obtain ⟨n, hn, hnu⟩ := wStr_ascii c.enc ha c.encName hE.ascii
    obtain ⟨sa, hsa, hsau⟩ := wStr_ascii c.enc ha c.standalone hS.ascii
    obtain ⟨nl, hnl, hnlu⟩ := wNewline_units c.enc ha
    have hA : Ascii (UTF16_s_xmlHeaderStartString ++ verString c.ver ++ UTF16_s_xmlHeaderEncodingString ++ c.encName ++
        (if c.standalone.isEmpty = true then [] else UTF16_s_xmlHeaderStandaloneString ++ c.standalone) ++
        UTF16_s_xmlHeaderEndString ++ (if c.doctypeSystem.isEmpty = true then [] else [10])) := by
      refine ascii_append (ascii_append (ascii_append (ascii_append (ascii_append (ascii_append a1 (verString_ascii _)) a2) hE.ascii) ?_) a3) ?_
      · cases c.standalone.isEmpty <;> simp [Ascii] <;> exact fun u hu => (ascii_append a4 hS.ascii) u (by simpa using hu)
      · cases c.doctypeSystem.isEmpty <;> simp [Ascii]
    simp only [↓reduceIte]
    refine ⟨wConst c.enc (hdrStart c.enc) ++ v ++ wConst c.enc (hdrEnc c.enc) ++ n ++
        (if c.standalone.isEmpty = true then [] else wConst c.enc (hdrStandalone c.enc) ++ sa) ++ wConst c.enc (hdrEnd c.enc) ++
        (if c.doctypeSystem.isEmpty = true then [] else nl), ?_, ?_, hA⟩
    · simp only [hv, hn, bind, Except.bind, pure, Except.pure]
      cases c.standalone.isEmpty <;> cases c.doctypeSystem.isEmpty <;> simp [hsa, hnl]
    · rw [encodeOut_ascii _ _ hA]
      simp only [unitsOf_append, s1, s2, s3, s4, wConst_ascii c.enc ha _ a1, wConst_ascii c.enc ha _ a2, wConst_ascii c.enc ha _ a3,
        hvu, hnu]
      cases c.standalone.isEmpty <;> cases c.doctypeSystem.isEmpty <;>
        simp [unitsOf_append, wConst_ascii c.enc ha _ a4, hsau, hnlu]

theorem utf16Encode_ascii (l : List Nat) (h : Ascii l) : utf16Encode l = l := by
  induction l with
  | nil => rfl
  | cons u t ih =>
    have hu := h u (by simp)
    have := ih (fun x hx => h x (by simp [hx]))
    simp only [utf16Encode, List.flatMap_cons] at this ⊢
    rw [this]
    have h1 : u < 0x10000 := by omega
    simp [utf16EncodeOne, h1]

theorem printable_nameOk (ver : Ver) (e : Enc) (ha : AsciiOk e) (l : List Nat) (h : Printable l) : NameOk ver e l := by
  intro c hc
  obtain ⟨h1, h2, _⟩ := h c hc
  refine ⟨?_, ?_⟩
  · cases ver <;> simp only [legalChar, Bool.or_eq_true, Bool.and_eq_true, decide_eq_true_eq, beq_iff_eq] <;> omega
  · unfold canEncOf; cases e.kind <;> simp; exact ha c (by omega)

theorem wName_printable (ver : Ver) (e : Enc) (ha : AsciiOk e) (l : List Nat) (h : Printable l) :
    ∃ it, wName e l = .ok it ∧ unitsOf it = l := by
  obtain ⟨it, h1, h2⟩ := wName_enc ver e l (printable_nameOk ver e ha l h)
  rw [utf16Encode_ascii l h.ascii] at h1
  exact ⟨it, h1, by rw [h2, encodeOut_ascii _ _ h.ascii]⟩

/-- the DOCTYPE written by the first start tag, on characters (the root name is ASCII: `m_writer.write(name)` of the
transcoding writer goes unit by unit) -/
theorem doctype_enc (c : Cfg) (ha : AsciiOk c.enc) (hP : Printable c.doctypePublic) (hY : Printable c.doctypeSystem)
    (n : List Nat) (hN : Ascii n) (hL : ∀ x ∈ n, legalChar c.ver x = true) :
    ∃ d, doctypeItems c (utf16Encode n) = .ok d ∧ unitsOf d = encodeOut c.enc.kind (absDoctype c n) ∧ Ascii (absDoctype c n) := by
  obtain ⟨_, _, _, _, s5, s6, s7⟩ := prolog_strings c.enc
  obtain ⟨_, _, _, _, a5, a6, a7⟩ := ascii_consts
  have hck : checkBulk c.enc n = .ok () := by
    have := checkBulk_legal c.ver c.enc n hL
    rwa [utf16Encode_ascii n hN] at this
  rw [utf16Encode_ascii n hN]
  unfold doctypeItems absDoctype
  cases hw : c.doctypeSystem.isEmpty with
  | true => exact ⟨[], by simp [pure, Except.pure], by cases c.enc.kind <;> rfl, by intro u hu; simp at hu⟩
  | false =>
    obtain ⟨nn, hnn, hnu⟩ := wStr_ascii c.enc ha n hN
    obtain ⟨p, hp, hpu⟩ := wName_printable c.ver c.enc ha _ hP
    obtain ⟨s, hs, hsu⟩ := wName_printable c.ver c.enc ha _ hY
    obtain ⟨nl, hnl, hnlu⟩ := wNewline_units c.enc ha
    have a3 : Ascii [34, 32, 34] := by intro u hu; revert u; decide
    have a4 : Ascii [34, 62, 10] := by intro u hu; revert u; decide
    have hA : Ascii (UTF16_s_doctypeHeaderStartString ++ n ++
        (if c.doctypePublic.isEmpty = true then UTF16_s_doctypeHeaderSystemString
         else UTF16_s_doctypeHeaderPublicString ++ c.doctypePublic ++ [34, 32, 34]) ++ c.doctypeSystem ++ [34, 62, 10]) := by
      refine ascii_append (ascii_append (ascii_append (ascii_append a5 hN) ?_) hY.ascii) a4
      cases c.doctypePublic.isEmpty
      · simpa using ascii_append (ascii_append a6 hP.ascii) a3
      · simpa using a7
    simp only [Bool.false_eq_true, ↓reduceIte]
    refine ⟨wConst c.enc (dtStart c.enc) ++ nn ++
        (if c.doctypePublic.isEmpty = true then wConst c.enc (dtSystem c.enc)
         else wConst c.enc (dtPublic c.enc) ++ p ++ wChar c.enc 34 ++ wChar c.enc 32 ++ wChar c.enc 34) ++ s ++
        wChar c.enc 34 ++ wChar c.enc 62 ++ nl, ?_, ?_, hA⟩
    · simp only [hck, hnn, bind, Except.bind]
      cases c.doctypePublic.isEmpty <;> simp [hp, hs, hnl, Except.bind, pure, Except.pure]
    · rw [encodeOut_ascii _ _ hA]
      simp only [unitsOf_append, s5, s6, s7, wConst_ascii c.enc ha _ a5, hnu, hsu, hnlu,
        wChar_ascii c.enc ha 34 (by omega), wChar_ascii c.enc ha 62 (by omega)]
      cases c.doctypePublic.isEmpty <;>
        simp [unitsOf_append, wConst_ascii c.enc ha _ a6, wConst_ascii c.enc ha _ a7, hpu,
          wChar_ascii c.enc ha 34 (by omega), wChar_ascii c.enc ha 32 (by omega)]

/-! ### the reader over the prolog -/

theorem hasPIEnd_no63 (l : List Nat) (h : 63 ∉ l) : hasPIEnd l = false := by
  induction l with
  | nil => rfl
  | cons a t ih =>
    have ha : a ≠ 63 := by intro e; subst e; simp at h
    have : hasPIEnd (a :: t) = hasPIEnd t := by
      cases t with
      | nil => rfl
      | cons b r => simp [hasPIEnd, ha]
    rw [this]
    exact ih (by intro hh; exact h (by simp [hh]))

theorem stripXmlDecl_hdr (X tail : List Nat) (hX : 63 ∉ X) :
    stripXmlDecl ([60, 63, 120, 109, 108, 32] ++ X ++ 63 :: 62 :: tail) = tail := by
  have h2 : ([60, 63, 120, 109, 108, 32] ++ X ++ 63 :: 62 :: tail).drop 2 = ([120, 109, 108, 32] ++ X) ++ 63 :: 62 :: tail := by
    simp
  have hh : hasPIEnd ([120, 109, 108, 32] ++ X) = false := hasPIEnd_no63 _ (by simp; exact hX)
  unfold stripXmlDecl
  rw [h2, splitPIEnd_data _ _ hh]
  simp

theorem stripXmlDecl_none (a b : Nat) (l : List Nat) (hb : b ≠ 63) : stripXmlDecl (a :: b :: l) = a :: b :: l := by
  unfold stripXmlDecl
  have : ¬ (a :: b :: l).take 6 = [60, 63, 120, 109, 108, 32] := by
    intro h; simp [List.take] at h; exact hb h.2.1
  simp only [this, ↓reduceIte]

theorem dropThroughGt_pre (P r : List Nat) (h : 62 ∉ P) : dropThroughGt (P ++ 62 :: r) = r := by
  induction P with
  | nil => simp [dropThroughGt]
  | cons a t ih =>
    have ha : a ≠ 62 := by intro e; subst e; simp at h
    simp only [List.cons_append, dropThroughGt, ha, ↓reduceIte]
    exact ih (by intro hh; exact h (by simp [hh]))

theorem stripDoctype_dt (Y body : List Nat) (hY : 62 ∉ Y) :
    stripDoctype ([60, 33, 68, 79, 67, 84, 89, 80, 69] ++ Y ++ 62 :: 10 :: body) = body := by
  unfold stripDoctype
  have : ([60, 33, 68, 79, 67, 84, 89, 80, 69] ++ Y ++ 62 :: 10 :: body).take 9 = [60, 33, 68, 79, 67, 84, 89, 80, 69] := by simp
  rw [if_pos this, dropThroughGt_pre _ _ (by simp; exact hY)]
  rfl

theorem stripDoctype_none (a b : Nat) (l : List Nat) (hb : b ≠ 33) : stripDoctype (a :: b :: l) = a :: b :: l := by
  unfold stripDoctype
  have : ¬ (a :: b :: l).take 9 = [60, 33, 68, 79, 67, 84, 89, 80, 69] := by
    intro h; simp [List.take] at h; exact hb h.2.1
  simp only [this, ↓reduceIte]

def hdrMid (c : Cfg) : List Nat :=
  [118, 101, 114, 115, 105, 111, 110, 61, 34] ++ verString c.ver ++ UTF16_s_xmlHeaderEncodingString ++ c.encName ++
    (if c.standalone.isEmpty then [] else UTF16_s_xmlHeaderStandaloneString ++ c.standalone) ++ [34]

def dtMid (c : Cfg) (n : List Nat) : List Nat :=
  [32] ++ n ++ (if c.doctypePublic.isEmpty then UTF16_s_doctypeHeaderSystemString
       else UTF16_s_doctypeHeaderPublicString ++ c.doctypePublic ++ [34, 32, 34]) ++ c.doctypeSystem ++ [34]

theorem absHeader_shape (c : Cfg) (hw : shouldWriteHeader c = true) :
    absHeader c = [60, 63, 120, 109, 108, 32] ++ hdrMid c ++ 63 :: 62 :: (if c.doctypeSystem.isEmpty then [] else [10]) := by
  unfold absHeader hdrMid
  simp [hw, UTF16_s_xmlHeaderStartString, UTF16_s_xmlHeaderEndString]

theorem absDoctype_shape (c : Cfg) (n : List Nat) (hw : c.doctypeSystem.isEmpty = false) :
    absDoctype c n = [60, 33, 68, 79, 67, 84, 89, 80, 69] ++ dtMid c n ++ 62 :: 10 :: [] := by
  unfold absDoctype dtMid
  simp [hw, UTF16_s_doctypeHeaderStartString]

theorem Printable.no (l : List Nat) (h : Printable l) : 63 ∉ l ∧ 62 ∉ l :=
  ⟨fun hh => (h 63 hh).2.2.2.2 rfl, fun hh => (h 62 hh).2.2.2.1 rfl⟩

theorem hdrMid_no63 (c : Cfg) (hE : Printable c.encName) (hS : Printable c.standalone) : 63 ∉ hdrMid c := by
  unfold hdrMid
  have hv : 63 ∉ verString c.ver := by cases c.ver <;> decide
  have h1 : 63 ∉ UTF16_s_xmlHeaderEncodingString := by decide
  have h2 : 63 ∉ UTF16_s_xmlHeaderStandaloneString := by decide
  have hs : 63 ∉ (if c.standalone.isEmpty = true then [] else UTF16_s_xmlHeaderStandaloneString ++ c.standalone) := by
    cases c.standalone.isEmpty <;> simp [h2, (Printable.no _ hS).1]
  simp only [List.mem_append, not_or]
  exact ⟨⟨⟨⟨⟨by decide, hv⟩, h1⟩, (Printable.no _ hE).1⟩, hs⟩, by decide⟩

theorem dtMid_no62 (c : Cfg) (n : List Nat) (hn : 62 ∉ n) (hP : Printable c.doctypePublic) (hY : Printable c.doctypeSystem) :
    62 ∉ dtMid c n := by
  unfold dtMid
  have h1 : 62 ∉ UTF16_s_doctypeHeaderSystemString := by decide
  have h2 : 62 ∉ UTF16_s_doctypeHeaderPublicString := by decide
  have hs : 62 ∉ (if c.doctypePublic.isEmpty = true then UTF16_s_doctypeHeaderSystemString
       else UTF16_s_doctypeHeaderPublicString ++ c.doctypePublic ++ [34, 32, 34]) := by
    cases c.doctypePublic.isEmpty <;> simp [h1, h2, (Printable.no _ hP).2]
  simp only [List.mem_append, not_or]
  exact ⟨⟨⟨⟨by decide, hn⟩, hs⟩, (Printable.no _ hY).2⟩, by decide⟩

/-- the reader's prolog steps remove exactly the declaration and the DOCTYPE the serializer wrote -/
theorem strip_prolog (c : Cfg) (hE : Printable c.encName) (hS : Printable c.standalone) (hP : Printable c.doctypePublic)
    (hY : Printable c.doctypeSystem) (n : List Nat) (hn : GoodName c.ver n) (rest : List Nat) :
    stripDoctype (dropLF (stripXmlDecl (absHeader c ++ absDoctype c n ++ (60 :: n ++ rest)))) = 60 :: n ++ rest := by
  obtain ⟨hne, hch⟩ := hn
  have h62 : 62 ∉ n := fun hh => by have := hch 62 hh; rw [nameCh_delim c.ver 62 (by decide)] at this; cases this
  cases n with
  | nil => exact absurd rfl hne
  | cons c0 n' =>
    have h0a : c0 ≠ 63 := by
      intro e; subst e; have := hch 63 (by simp); rw [nameCh_delim c.ver 63 (by decide)] at this; cases this
    have h0b : c0 ≠ 33 := by
      intro e; subst e; have := hch 33 (by simp); rw [nameCh_delim c.ver 33 (by decide)] at this; cases this
    cases hw : shouldWriteHeader c with
    | false =>
      have hh : absHeader c = [] := by simp [absHeader, hw]
      cases hd : c.doctypeSystem.isEmpty with
      | true =>
        have hdd : absDoctype c (c0 :: n') = [] := by simp [absDoctype, hd]
        rw [hh, hdd]
        simp only [List.nil_append, List.cons_append]
        rw [stripXmlDecl_none _ _ _ h0a]
        simp only [dropLF]
        exact stripDoctype_none _ _ _ h0b
      | false =>
        rw [hh, absDoctype_shape c _ hd]
        simp only [List.nil_append]
        have e : [60, 33, 68, 79, 67, 84, 89, 80, 69] ++ dtMid c (c0 :: n') ++ [62, 10] ++ (60 :: (c0 :: n') ++ rest) =
            60 :: 33 :: ([68, 79, 67, 84, 89, 80, 69] ++ dtMid c (c0 :: n') ++ [62, 10] ++ (60 :: (c0 :: n') ++ rest)) := by simp
        rw [e, stripXmlDecl_none _ _ _ (by decide)]
        simp only [dropLF]
        have e2 : 60 :: 33 :: ([68, 79, 67, 84, 89, 80, 69] ++ dtMid c (c0 :: n') ++ [62, 10] ++ (60 :: (c0 :: n') ++ rest)) =
            [60, 33, 68, 79, 67, 84, 89, 80, 69] ++ dtMid c (c0 :: n') ++ 62 :: 10 :: (60 :: (c0 :: n') ++ rest) := by simp
        rw [e2]
        exact stripDoctype_dt _ _ (dtMid_no62 c _ h62 hP hY)
    | true =>
      rw [absHeader_shape c hw]
      cases hd : c.doctypeSystem.isEmpty with
      | true =>
        have hdd : absDoctype c (c0 :: n') = [] := by simp [absDoctype, hd]
        rw [hdd]
        have e : [60, 63, 120, 109, 108, 32] ++ hdrMid c ++ 63 :: 62 :: (if true = true then [] else [10]) ++ [] ++ (60 :: (c0 :: n') ++ rest) =
            [60, 63, 120, 109, 108, 32] ++ hdrMid c ++ 63 :: 62 :: (60 :: (c0 :: n') ++ rest) := by simp
        rw [e, stripXmlDecl_hdr _ _ (hdrMid_no63 c hE hS)]
        simp only [List.cons_append, dropLF]
        exact stripDoctype_none _ _ _ h0b
      | false =>
        rw [absDoctype_shape c _ hd]
        have e : [60, 63, 120, 109, 108, 32] ++ hdrMid c ++ 63 :: 62 :: (if false = true then [] else [10]) ++
              ([60, 33, 68, 79, 67, 84, 89, 80, 69] ++ dtMid c (c0 :: n') ++ [62, 10]) ++ (60 :: (c0 :: n') ++ rest) =
            [60, 63, 120, 109, 108, 32] ++ hdrMid c ++ 63 :: 62 ::
              (10 :: ([60, 33, 68, 79, 67, 84, 89, 80, 69] ++ dtMid c (c0 :: n') ++ 62 :: 10 :: (60 :: (c0 :: n') ++ rest))) := by simp
        rw [e, stripXmlDecl_hdr _ _ (hdrMid_no63 c hE hS)]
        simp only [dropLF]
        exact stripDoctype_dt _ _ (dtMid_no62 c _ h62 hP hY)

theorem absNode_elem_shape (ver : Ver) (ce : Nat → Bool) (xhtml : Bool) (n : List Nat) (a : List (List Nat × List Nat))
    (kids : List XNode) (out : List Nat) (h : absNode ver ce xhtml (.elem n a kids) = .ok out) :
    ∃ rest, out = 60 :: n ++ rest := by
  simp only [absNode, bind, Except.bind] at h
  cases h1 : absAttrs ver ce a with
  | error e => simp [h1] at h
  | ok aa =>
    cases h2 : absKids ver ce xhtml kids with
    | error e => simp [h1, h2] at h
    | ok k =>
      simp only [h1, h2] at h
      cases hs : kids.all silent
      · simp only [hs, pure, Except.pure, Bool.false_eq_true, ↓reduceIte, Except.ok.injEq] at h
        exact ⟨aa ++ [62] ++ k ++ [60, 47] ++ n ++ [62], by rw [← h]; simp⟩
      · simp only [hs, pure, Except.pure, ↓reduceIte, Except.ok.injEq] at h
        exact ⟨aa ++ (if xhtml = true then [32] else []) ++ [47, 62], by rw [← h]; simp⟩

theorem doctype_enc' (c : Cfg) (ha : AsciiOk c.enc) (hP : Printable c.doctypePublic) (hY : Printable c.doctypeSystem)
    (n : List Nat) (hN : c.doctypeSystem.isEmpty = false → Ascii n) (hL : ∀ x ∈ n, legalChar c.ver x = true) :
    ∃ d, doctypeItems c (utf16Encode n) = .ok d ∧ unitsOf d = encodeOut c.enc.kind (absDoctype c n) ∧ Ascii (absDoctype c n) := by
  cases hw : c.doctypeSystem.isEmpty with
  | false => exact doctype_enc c ha hP hY n (hN hw) hL
  | true =>
    refine ⟨[], by simp [doctypeItems, hw, pure, Except.pure], ?_, ?_⟩
    · simp only [absDoctype, hw, ↓reduceIte]; cases c.enc.kind <;> rfl
    · simp only [absDoctype, hw, ↓reduceIte]; intro u hu; simp at hu

end XalanModel.C04
