import XalanModel.C04.DocReaderProofs8
import XalanModel.C04.DocProofs
namespace XalanModel.C04
open Spec XalanModel.Generated.C04

def AllScalar (l : List Nat) : Prop := ∀ y ∈ l, IsScalar y

theorem AllScalar.append {a b : List Nat} (ha : AllScalar a) (hb : AllScalar b) : AllScalar (a ++ b) := by
  intro y hy; rcases List.mem_append.mp hy with h | h
  · exact ha y h
  · exact hb y h

theorem AllScalar.ascii {l : List Nat} (h : Ascii l) : AllScalar l := ascii_scalar l h

theorem absAttrs_scalars (ver : Ver) (e : Enc) (a : List (List Nat × List Nat)) (hok : AttrsOk ver e a) (out : List Nat)
    (h : absAttrs ver (canEncOf e) a = .ok out) : AllScalar out := by
  induction a generalizing out with
  | nil => simp only [absAttrs] at h; injection h with h; subst h; intro y hy; simp at hy
  | cons p a ih =>
    obtain ⟨n, v⟩ := p
    obtain ⟨vv, r, hv, hr, rfl⟩ := absAttrs_inv ver (canEncOf e) n v a out h
    obtain ⟨hn, hvl⟩ := hok (n, v) (by simp)
    have h1 : AllScalar n := fun y hy => legal_scalar ver y (hn y hy).1
    have h2 : AllScalar vv := absEscAll_scalars ver (canEncOf e) true v vv (fun c hc => legal_scalar ver c (hvl c hc)) hv
    have h3 := ih (fun q hq => hok q (by simp [hq])) r hr
    have a1 : AllScalar [32] := AllScalar.ascii (by intro u hu; simp at hu; omega)
    have a2 : AllScalar [61, 34] := AllScalar.ascii (by intro u hu; simp at hu; omega)
    have a3 : AllScalar [34] := AllScalar.ascii (by intro u hu; simp at hu; omega)
    exact ((((a1.append h1).append a2).append h2).append a3).append h3

def NodeSc (ver : Ver) (e : Enc) (xhtml : Bool) (t : XNode) : Prop :=
  TreeOk ver e t → ∀ out, absNode ver (canEncOf e) xhtml t = .ok out → AllScalar out

def KidsSc (ver : Ver) (e : Enc) (xhtml : Bool) (ks : List XNode) : Prop :=
  KidsOkT ver e ks → ∀ out, absKids ver (canEncOf e) xhtml ks = .ok out → AllScalar out

theorem node_sc (ver : Ver) (e : Enc) (xhtml : Bool) (t : XNode) : NodeSc ver e xhtml t := by
  refine XNode.rec (motive_1 := fun t => NodeSc ver e xhtml t) (motive_2 := fun ks => KidsSc ver e xhtml ks)
    ?_ ?_ ?_ ?_ ?_ ?_ ?_ t
  · intro n a kids ih hok out h
    simp only [TreeOk] at hok
    obtain ⟨hn, ha, hk⟩ := hok
    have hns : AllScalar n := fun y hy => legal_scalar ver y (hn y hy).1
    simp only [absNode, bind, Except.bind] at h
    cases haa : absAttrs ver (canEncOf e) a with
    | error er => rw [haa] at h; cases h
    | ok aa =>
      rw [haa] at h
      cases hkk : absKids ver (canEncOf e) xhtml kids with
      | error er => rw [hkk] at h; cases h
      | ok kk =>
        rw [hkk] at h
        simp only at h
        have s1 := absAttrs_scalars ver e a ha aa haa
        have s2 := ih hk kk hkk
        have b1 : AllScalar [60] := AllScalar.ascii (by intro u hu; simp at hu; omega)
        have b2 : AllScalar [62] := AllScalar.ascii (by intro u hu; simp at hu; omega)
        have b3 : AllScalar [47, 62] := AllScalar.ascii (by intro u hu; simp at hu; omega)
        have b4 : AllScalar [60, 47] := AllScalar.ascii (by intro u hu; simp at hu; omega)
        have b5 : AllScalar (if xhtml = true then [32] else []) := AllScalar.ascii (by cases xhtml <;> (intro u hu; simp at hu) ; omega)
        by_cases hall : kids.all silent = true
        · rw [if_pos hall] at h; simp only [pure, Except.pure] at h; injection h with h; subst h
          exact (((b1.append hns).append s1).append b5).append b3
        · rw [if_neg hall] at h; simp only [pure, Except.pure] at h; injection h with h; subst h
          exact ((((((b1.append hns).append s1).append b2).append s2).append b4).append hns).append b2
  · intro s hok out h
    simp only [TreeOk] at hok
    simp only [absNode] at h
    cases hs : s.isEmpty with
    | true => rw [hs] at h; simp only [↓reduceIte, pure, Except.pure] at h; injection h with h; subst h; intro y hy; simp at hy
    | false =>
      rw [hs] at h; simp only [Bool.false_eq_true, ↓reduceIte] at h
      exact absEscAll_scalars ver (canEncOf e) false s out (fun c hc => legal_scalar ver c (hok c hc)) h
  · intro s hok out h
    simp only [TreeOk] at hok
    simp only [absNode] at h
    cases hs : s.isEmpty with
    | true => rw [hs] at h; simp only [↓reduceIte, pure, Except.pure] at h; injection h with h; subst h; intro y hy; simp at hy
    | false =>
      rw [hs] at h; simp only [Bool.false_eq_true, ↓reduceIte, absCDATA, bind, Except.bind] at h
      cases hb : absCD ver (canEncOf e) s 0 false with
      | error er => rw [hb] at h; cases h
      | ok p =>
        obtain ⟨b, o'⟩ := p
        rw [hb] at h; simp only [pure, Except.pure] at h; injection h with h; subst h
        have s1 := absCD_scalars ver (canEncOf e) s 0 false b o' hb (fun c hc => legal_scalar ver c (hok.1 c hc))
        have o1 : AllScalar OPEN := AllScalar.ascii (by intro u hu; simp [OPEN] at hu; omega)
        have o2 : AllScalar (if o' = true then [] else CLOSE) := AllScalar.ascii (by cases o' <;> (intro u hu; simp [CLOSE] at hu); omega)
        exact (o1.append s1).append o2
  · intro s hok out h
    simp only [TreeOk] at hok
    simp only [absNode, pure, Except.pure] at h; injection h with h; subst h
    have c1 : AllScalar [60, 33, 45, 45] := AllScalar.ascii (by intro u hu; simp at hu; omega)
    have c2 : AllScalar [45, 45, 62] := AllScalar.ascii (by intro u hu; simp at hu; omega)
    exact (c1.append (fun y hy => legal_scalar ver y (hok y hy).1)).append c2
  · intro t d hok out h
    simp only [TreeOk] at hok
    have c1 : AllScalar [60, 63] := AllScalar.ascii (by intro u hu; simp at hu; omega)
    have c2 : AllScalar [63, 62] := AllScalar.ascii (by intro u hu; simp at hu; omega)
    have c32 : AllScalar [32] := AllScalar.ascii (by intro u hu; simp at hu; omega)
    have cn : AllScalar ([] : List Nat) := by intro y hy; simp at hy
    have ht : AllScalar t := fun y hy => legal_scalar ver y (hok.1 y hy).1
    have hd : AllScalar d := fun y hy => legal_scalar ver y (hok.2 y hy).1
    cases d with
    | nil =>
      simp only [absNode, pure, Except.pure] at h; injection h with h; subst h
      exact (((c1.append ht).append cn).append cn).append c2
    | cons d0 ds =>
      cases hw : isXMLWhitespace d0 with
      | true =>
        simp only [absNode, hw, ↓reduceIte, pure, Except.pure] at h; injection h with h; subst h
        exact (((c1.append ht).append cn).append hd).append c2
      | false =>
        simp only [absNode, hw, Bool.false_eq_true, ↓reduceIte, pure, Except.pure] at h; injection h with h; subst h
        exact (((c1.append ht).append c32).append hd).append c2
  · intro _ out h
    simp only [absKids, pure, Except.pure] at h; injection h with h; subst h; intro y hy; simp at hy
  · intro k ks ihk ihks hok out h
    simp only [KidsOkT] at hok
    obtain ⟨a, b, ha, hb, rfl⟩ := absKids_inv ver (canEncOf e) xhtml k ks out h
    exact (ihk hok.1 a ha).append (ihks hok.2 b hb)

end XalanModel.C04
