import XalanModel.C04.DocReaderProofs4
namespace XalanModel.C04
open Spec XalanModel.Generated.C04

theorem name_head (ver : Ver) (n : List Nat) (hn : GoodName ver n) :
    ∃ c t, n = c :: t ∧ nameCh ver c = true ∧ c ≠ 47 ∧ c ≠ 33 ∧ c ≠ 63 := by
  obtain ⟨hne, hc⟩ := hn
  cases n with
  | nil => exact absurd rfl hne
  | cons c t =>
    have h := hc c (by simp)
    refine ⟨c, t, rfl, h, ?_, ?_, ?_⟩ <;>
      (intro e; subst e; rw [nameCh_delim ver _ (by simp)] at h; cases h)

theorem pi_rd (ver : Ver) (ce : Nat → Bool) (xhtml : Bool) (t d : List Nat) : NodeRd ver ce xhtml (.pi t d) := by
  intro hok out h rest f _ hf
  simp only [RTreeOk] at hok
  obtain ⟨hn, hpe, hin, hws⟩ := hok
  obtain ⟨c0, t0, hE, hc0, h47, h33, h63⟩ := name_head ver t hn
  simp only [absNode, pure, Except.pure] at h
  injection h with h; subst h
  have hnE : t.isEmpty = false := by rw [hE]; rfl
  cases d with
  | nil =>
    have hL : [60, 63] ++ t ++ [] ++ [] ++ [63, 62] ++ rest = 60 :: 63 :: (t ++ 63 :: 62 :: rest) := by simp
    simp only at hL ⊢
    rw [hL, readKids]
    have e1 : ((60 :: 63 :: (t ++ 63 :: 62 :: rest)).take 2 = [60, 47]) = False := by simp
    have e2 : ((60 :: 63 :: (t ++ 63 :: 62 :: rest)).take 4 = [60, 33, 45, 45]) = False := by simp
    have e3 : ((60 :: 63 :: (t ++ 63 :: 62 :: rest)).take 2 = [60, 63]) = True := by simp
    have e4 : (60 :: 63 :: (t ++ 63 :: 62 :: rest)).drop 2 = t ++ 63 :: 62 :: rest := rfl
    have hsp := span_name ver t 63 (62 :: rest) hn.2 (nameCh_delim ver 63 (by simp))
    have hdw : (63 :: 62 :: rest).dropWhile isXMLWhitespace = 63 :: 62 :: rest := by simp [isXMLWhitespace]
    have hspl : splitPIEnd (63 :: 62 :: rest) = some ([], rest) := by simp [splitPIEnd]
    have e5 : ((63 :: 62 :: rest).take 2 = [63, 62]) = True := by simp
    simp only [e1, e2, e3, e4, ↓reduceIte, hsp.1, hsp.2, hnE, Bool.false_eq_true, hdw, hspl, e5,
      true_or, List.all_nil, and_self, norm]
  | cons d0 ds =>
    have hw0 : isXMLWhitespace d0 = false := by
      cases hx : isXMLWhitespace d0 with
      | false => rfl
      | true => simp [hx] at hws
    have hL : [60, 63] ++ t ++ (if isXMLWhitespace d0 = true then [] else [32]) ++ (d0 :: ds) ++ [63, 62] ++ rest
        = 60 :: 63 :: (t ++ 32 :: (d0 :: ds ++ 63 :: 62 :: rest)) := by simp [hw0]
    simp only at hL ⊢
    rw [hL, readKids]
    have e1 : ((60 :: 63 :: (t ++ 32 :: (d0 :: ds ++ 63 :: 62 :: rest))).take 2 = [60, 47]) = False := by simp
    have e2 : ((60 :: 63 :: (t ++ 32 :: (d0 :: ds ++ 63 :: 62 :: rest))).take 4 = [60, 33, 45, 45]) = False := by simp
    have e3 : ((60 :: 63 :: (t ++ 32 :: (d0 :: ds ++ 63 :: 62 :: rest))).take 2 = [60, 63]) = True := by simp
    have e4 : (60 :: 63 :: (t ++ 32 :: (d0 :: ds ++ 63 :: 62 :: rest))).drop 2 = t ++ 32 :: (d0 :: ds ++ 63 :: 62 :: rest) := rfl
    have hsp := span_name ver t 32 (d0 :: ds ++ 63 :: 62 :: rest) hn.2 (nameCh_delim ver 32 (by simp))
    have hdw : (32 :: (d0 :: ds ++ 63 :: 62 :: rest)).dropWhile isXMLWhitespace = d0 :: ds ++ 63 :: 62 :: rest := by
      simp [List.dropWhile, isXMLWhitespace] at hw0 ⊢
      simp [List.dropWhile, isXMLWhitespace, hw0]
    have hspl := splitPIEnd_data (d0 :: ds) rest hpe
    have hws32 : isXMLWhitespace 32 = true := by decide
    simp only [e1, e2, e3, e4, ↓reduceIte, hsp.1, hsp.2, hnE, Bool.false_eq_true, hdw, hspl, List.head?_cons, Option.map_some,
      hws32, or_true, hin, and_self, norm]

end XalanModel.C04
