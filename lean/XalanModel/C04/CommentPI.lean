/-!
# C04 — comment / processing-instruction data repair before serialization
`ElemComment::endElement` / `ElemTemplateElement::childrenToResultComment` (insert a space after a `-` that is
followed by `-` or ends the data) and `ElemPI::endElement` / `childrenToResultPI` (insert a space between `?`
and `>`), transcribed as written: the iterator returned by `insert` points at the new space, `++theCurrent`
steps over it (for PIs a second `++` steps over the `>`).  Core Lean only.
-/
namespace XalanModel.C04

def repairComment : List Nat → List Nat
  | [] => []
  | c :: rest =>
    if c = 45 then
      match rest with
      | [] => [45, 32]                                   -- theNext == theEnd
      | n :: _ => if n = 45 then 45 :: 32 :: repairComment rest else 45 :: repairComment rest
    else c :: repairComment rest

def repairPI : List Nat → List Nat
  | [] => []
  | [c] => [c]
  | c :: n :: rest' =>
    if c = 63 ∧ n = 62 then 63 :: 32 :: 62 :: repairPI rest'      -- insert, ++ over the space, ++ over '>'
    else c :: repairPI (n :: rest')

/-- `--` occurs -/
def hasDD : List Nat → Bool
  | a :: b :: r => (a == 45 && b == 45) || hasDD (b :: r)
  | _ => false

/-- the data ends in `-` -/
def endsHyphen : List Nat → Bool
  | [] => false
  | [a] => a == 45
  | _ :: r => endsHyphen r

/-- `?>` occurs -/
def hasPIEnd : List Nat → Bool
  | a :: b :: r => (a == 63 && b == 62) || hasPIEnd (b :: r)
  | _ => false

/-- removing the spaces the repair inserted gives the original data back (the repair only adds spaces) -/
def Subseq : List Nat → List Nat → Prop := fun a b => List.Sublist a b

end XalanModel.C04
