import XalanModel.C04.DocReaderProofs3
namespace XalanModel.C04
open Spec XalanModel.Generated.C04

def textLike : XNode → Bool
  | .text _ => true
  | .cdata _ => true
  | _ => false

mutual
/-- trees the reader returns as they are (up to CDATA = text): good names, non-empty character data, no two
adjacent character-data children, comment / PI data without their terminators -/
def RTreeOk (ver : Ver) : XNode → Prop
  | .elem n a kids => GoodName ver n ∧ RAttrsOk ver a ∧ RKidsOk ver kids
  | .text s => s ≠ [] ∧ ∀ c ∈ s, legalChar ver c = true
  | .cdata s => s ≠ [] ∧ ∀ c ∈ s, legalChar ver c = true
  | .comment s => hasDD s = false ∧ endsHyphen s = false ∧ s.all (insideOk ver) = true
  | .pi t d => GoodName ver t ∧ hasPIEnd d = false ∧ d.all (insideOk ver) = true ∧ d.head?.map isXMLWhitespace ≠ some true
def RKidsOk (ver : Ver) : List XNode → Prop
  | [] => True
  | k :: ks => RTreeOk ver k ∧ RKidsOk ver ks ∧ (textLike k = true → ks.head?.map textLike ≠ some true)
end

/-- one child read by `readKids`, then the rest -/
def NodeRd (ver : Ver) (ce : Nat → Bool) (xhtml : Bool) (t : XNode) : Prop :=
  RTreeOk ver t → ∀ out, absNode ver ce xhtml t = .ok out → ∀ rest f,
    (textLike t = true → StopTail rest) → out.length ≤ f →
    readKids ver (f + 1) (out ++ rest) = (readKids ver f rest).map fun p => (norm t :: p.1, p.2)

theorem textrun_rd (ver : Ver) (s out rest : List Nat) (f : Nat) (hs : s ≠ [])
    (hrun : readCDF ver f none out = some s) (hstop : StopTail rest)
    (hhead : out.head? ≠ some 60 ∨ out.take 9 = OPEN) (hne : out ≠ []) :
    readKids ver (f + 1) (out ++ rest) = (readKids ver f rest).map fun p => (XNode.text s :: p.1, p.2) := by
  have hr := readRunF_of_readCDF ver rest hstop f none out s hrun
  obtain ⟨o0, ot, rfl⟩ : ∃ o0 ot, out = o0 :: ot := by
    cases out with
    | nil => exact absurd rfl hne
    | cons a b => exact ⟨a, b, rfl⟩
  have h1 : ((o0 :: ot) ++ rest).take 2 ≠ [60, 47] := by
    rcases hhead with h | h
    · intro e; simp at e h; exact h e.1
    · intro e
      have : (o0 :: ot).take 2 = [60, 33] := by
        have := congrArg (List.take 2) h; simpa [OPEN, List.take_take] using this
      cases ot with
      | nil => simp at this
      | cons o1 o2 => simp at this e; omega
  have h2 : ((o0 :: ot) ++ rest).take 4 ≠ [60, 33, 45, 45] := by
    rcases hhead with h | h
    · intro e; simp at e h; exact h e.1
    · intro e
      have h3 : (o0 :: ot).take 3 = [60, 33, 91] := by
        have := congrArg (List.take 3) h; simpa [OPEN, List.take_take] using this
      match ot, h3, e with
      | o1 :: o2 :: o3, h3, e => simp at h3 e; omega
  have h3 : ((o0 :: ot) ++ rest).take 2 ≠ [60, 63] := by
    rcases hhead with h | h
    · intro e; simp at e h; exact h e.1
    · intro e
      have : (o0 :: ot).take 2 = [60, 33] := by
        have := congrArg (List.take 2) h; simpa [OPEN, List.take_take] using this
      cases ot with
      | nil => simp at this
      | cons o1 o2 => simp at this e; omega
  have h4 : ¬ (((o0 :: ot) ++ rest).head? = some 60 ∧ ((o0 :: ot) ++ rest).take 9 ≠ OPEN) := by
    rcases hhead with h | h
    · intro ⟨e, _⟩; simp at e h; exact h e
    · intro ⟨_, e⟩; exact e (take9_append _ rest h)
  have hsE : s.isEmpty = false := by cases s with
    | nil => exact absurd rfl hs
    | cons _ _ => rfl
  rw [readKids]
  simp only [h1, h2, h3, h4, ↓reduceIte, hr, hsE, Bool.false_eq_true]

theorem text_rd (ver : Ver) (ce : Nat → Bool) (xhtml : Bool) (s : List Nat) : NodeRd ver ce xhtml (.text s) := by
  intro hok out h rest f hstop hf
  simp only [RTreeOk] at hok
  obtain ⟨hne, hl⟩ := hok
  have hsE : s.isEmpty = false := by cases s with
    | nil => exact absurd rfl hne
    | cons _ _ => rfl
  simp only [absNode, hsE, Bool.false_eq_true, ↓reduceIte] at h
  have hrun := readCDF_absEscAll ver ce s hl out h f (by omega)
  obtain ⟨c, cs, rfl⟩ : ∃ c cs, s = c :: cs := by
    cases s with
    | nil => exact absurd rfl hne
    | cons a b => exact ⟨a, b, rfl⟩
  obtain ⟨a, b, ha, hb, rfl⟩ := absEscAll_inv ver ce false c cs out h
  obtain ⟨hd, t, hE, hne60, _⟩ := absEsc_head ver ce false c a ha
  subst hE
  exact textrun_rd ver (c :: cs) _ rest f hne hrun (hstop rfl) (Or.inl (by simp; exact hne60)) (by simp)

theorem cdata_rd (ver : Ver) (ce : Nat → Bool) (xhtml : Bool) (s : List Nat) : NodeRd ver ce xhtml (.cdata s) := by
  intro hok out h rest f hstop hf
  simp only [RTreeOk] at hok
  obtain ⟨hne, hl⟩ := hok
  have hsE : s.isEmpty = false := by cases s with
    | nil => exact absurd rfl hne
    | cons _ _ => rfl
  simp only [absNode, hsE, Bool.false_eq_true, ↓reduceIte] at h
  -- out = OPEN ++ b ++ fin
  simp only [absCDATA, bind, Except.bind] at h
  cases hb : absCD ver ce s 0 false with
  | error e => rw [hb] at h; cases h
  | ok p =>
    obtain ⟨b, o'⟩ := p
    rw [hb] at h
    simp only [pure, Except.pure] at h
    injection h with h; subst h
    have hrun : readCDF ver f none (OPEN ++ b ++ (if o' = true then [] else CLOSE)) = some s := by
      have hlen : (OPEN ++ b ++ (if o' = true then [] else CLOSE)).length ≤ f := by omega
      obtain ⟨d, rfl⟩ := Nat.exists_eq_add_of_le (show 9 ≤ f by simp [OPEN, List.length_append] at hlen; omega)
      have e1 : 9 + d = (d + 8) + 1 := by omega
      rw [e1, List.append_assoc, rd_open]
      have := readCDF_absCD ver ce s 0 false 0 b o' hb hl (fun _ => ⟨fun h => by omega, fun h => by omega⟩) (d + 8)
        (by simp [OPEN, List.length_append, finOf] at hlen ⊢; omega)
      simpa [modeOf, pendOf, finOf] using this
    exact textrun_rd ver s _ rest f hne hrun (hstop rfl) (Or.inr (by simp [OPEN])) (by simp [OPEN])

theorem comment_rd (ver : Ver) (ce : Nat → Bool) (xhtml : Bool) (s : List Nat) : NodeRd ver ce xhtml (.comment s) := by
  intro hok out h rest f _ hf
  simp only [RTreeOk] at hok
  obtain ⟨h1, h2, h3⟩ := hok
  simp only [absNode, pure, Except.pure] at h
  injection h with h; subst h
  have hL : [60, 33, 45, 45] ++ s ++ [45, 45, 62] ++ rest = 60 :: 33 :: 45 :: 45 :: (s ++ 45 :: 45 :: 62 :: rest) := by simp
  rw [hL, readKids]
  have hsp := splitDD_data s (62 :: rest) h1 h2
  have e1 : ((60 :: 33 :: 45 :: 45 :: (s ++ 45 :: 45 :: 62 :: rest)).take 2 = [60, 47]) = False := by simp
  have e2 : ((60 :: 33 :: 45 :: 45 :: (s ++ 45 :: 45 :: 62 :: rest)).take 4 = [60, 33, 45, 45]) = True := by simp
  have e3 : (60 :: 33 :: 45 :: 45 :: (s ++ 45 :: 45 :: 62 :: rest)).drop 4 = s ++ 45 :: 45 :: 62 :: rest := rfl
  simp only [e1, e2, e3, ↓reduceIte, hsp, List.head?_cons, h3, h2, Bool.not_false, and_self, List.tail_cons, norm]

end XalanModel.C04
