import XalanModel.Generated.C04_Tables
/-!
# C04 — model of the XML serializer (`FormatterToXMLUnicode<Writer, Constants, CharPredicate, …>`)

Transcription, as written, of
* `XalanXMLSerializerBase::CharFunctor1_0/1_1` over the **generated** `s_specialChars` tables;
* the three writer families `XalanUTF8Writer`, `XalanUTF16Writer`, `XalanOtherEncodingWriter`;
* `FormatterToXMLUnicode::writeCharacters / writeAttrString / writeDefaultEscape /
  writeDefaultAttributeEscape / writeNormalizedChar(Big) / writeNormalizedData / writeCDATA /
  writeCDATAChars / startElement / endElement / comment / writeProcessingInstruction / writeXMLHeader`;
* the 512-entry staging buffer of each writer and `XalanOutputStream`'s second buffer (`Sink`).

Strings are lists of UTF-16 code units (`Nat`, intended `< 65536`).  A writer call produces *items*:
what is handed to the staging buffer in one piece (`Item`); the buffer layer (`Sink`) consumes items.
Loops over `chars[i]` are structural recursions over the remaining suffix; "returns the new index"
becomes "tells whether the next unit was consumed too".
Core Lean only (the driver `xm_c04` imports this file).
-/
namespace XalanModel.C04
open XalanModel.Generated.C04

inductive Ver | v10 | v11
  deriving DecidableEq, Repr

inductive Err
  | forbidden   -- throwInvalidXMLCharacterException
  | surrogate   -- throwInvalidUTF16SurrogateException
  | unrep       -- throwUnrepresentableCharacterException (names under a restricted encoding)
  | scalar      -- throwInvalidCharacterException
  | mem         -- a read or write outside an array (not an exception of the code: a memory error)
  deriving DecidableEq, Repr

/-! ## character predicates (CharFunctor1_0 / CharFunctor1_1) -/

def lastSpecial : Ver → Nat
  | .v10 => lastSpecialV10
  | .v11 => lastSpecialV11

def tableVal : Ver → Nat → Nat
  | .v10, c => specialCharsV10.getD c 0
  | .v11, c => specialCharsV11.getD c 0

def pRange (v : Ver) (c : Nat) : Bool := decide (c > lastSpecial v)

def pAttribute (v : Ver) (c : Nat) : Bool :=
  if c > lastSpecial v then false else
  match v with
  | .v10 => attributeTestV10 (tableVal v c)
  | .v11 => attributeTestV11 (tableVal v c)

def pContent (v : Ver) (c : Nat) : Bool :=
  if c > lastSpecial v then false else
  match v with
  | .v10 => contentTestV10 (tableVal v c)
  | .v11 => contentTestV11 (tableVal v c)

def pForbidden (v : Ver) (c : Nat) : Bool :=
  if c > lastSpecial v then false else
  match v with
  | .v10 => isForbiddenTestV10 (tableVal v c)
  | .v11 => isForbiddenTestV11 (tableVal v c)

def pCharRefForbidden (v : Ver) (c : Nat) : Bool :=
  if c > lastSpecial v then false else
  match v with
  | .v10 => isCharRefForbiddenTestV10 (tableVal v c)
  | .v11 => isCharRefForbiddenTestV11 (tableVal v c)

/-! ## surrogates -/

def isHigh (c : Nat) : Bool := decide (0xD800 ≤ c ∧ c ≤ 0xDBFF)
def isLow (c : Nat) : Bool := decide (0xDC00 ≤ c ∧ c ≤ 0xDFFF)
/-- `((hi - 0xD800) << 10) + lo - 0xDC00 + 0x10000` -/
def decodePair (hi lo : Nat) : Nat := (hi - 0xD800) * 1024 + lo - 0xDC00 + 0x10000

/-! ## items and the buffer layer -/

/-- what one primitive store operation of a writer hands to its staging buffer -/
inductive Item
  | one (u : Nat)            -- `if (remaining == 0) flush; *pos++ = u`
  | atom (us : List Nat)     -- `if (remaining < n) flush; copy n units` (no direct path)
  | bulk (us : List Nat)     -- `if (n > size) { [flush;] direct } else { if (remaining < n) flush; copy }` (the flush: `Sink.fbd`)
  | flushIfFull              -- `if (remaining == 0) flush` with nothing stored after it
  deriving DecidableEq, Repr

def Item.units : Item → List Nat
  | .one u => [u]
  | .atom us => us
  | .bulk us => us
  | .flushIfFull => []

def unitsOf (l : List Item) : List Nat := l.flatMap Item.units

/-- a staging buffer of `cap` entries delivering chunks downstream -/
structure Sink where
  cap : Nat
  chunks : List (List Nat)   -- delivered, oldest first (flushBuffer delivers even an empty buffer)
  buf : List Nat
  fbd : Bool                 -- the bulk write calls `flushBuffer()` before handing a long run directly downstream (generated)
  deriving Repr, DecidableEq

/-- the buffer of the code as intended: flush before a direct write -/
def Sink.empty (cap : Nat) : Sink := ⟨cap, [], [], true⟩
/-- the buffer as the working tree has it -/
def Sink.emptyF (cap : Nat) (fbd : Bool) : Sink := ⟨cap, [], [], fbd⟩
def Sink.remaining (s : Sink) : Nat := s.cap - s.buf.length
def Sink.flush (s : Sink) : Sink := { s with chunks := s.chunks ++ [s.buf], buf := [] }

/-- store `us` at the buffer position; `none` = the copy would run past the array (`MemErr`) -/
def Sink.store (s : Sink) (us : List Nat) : Option Sink :=
  if us.length ≤ s.remaining then some { s with buf := s.buf ++ us } else none

def Sink.step (s : Sink) : Item → Option Sink
  | .one u => (if s.remaining = 0 then s.flush else s).store [u]
  | .atom us => (if s.remaining < us.length then s.flush else s).store us
  | .bulk us =>
    if us.length > s.cap then
      some { (if s.fbd then s.flush else s) with chunks := (if s.fbd then s.flush else s).chunks ++ [us] }
    else (if s.remaining < us.length then s.flush else s).store us
  | .flushIfFull => some (if s.remaining = 0 then s.flush else s)

def Sink.run : List Item → Sink → Option Sink
  | [], s => some s
  | it :: rest, s => (s.step it).bind (Sink.run rest)

/-! `XalanOutputStream`'s own buffer (with the hold-back of half a surrogate pair) is modelled in `Stream.lean`. -/

/-! ## the three writers -/

inductive WK | utf8 | utf16 | other
  deriving DecidableEq, Repr

/-- repairs of the serializer that may or may not be present in the working tree (each is read from the
source by the translator: `Fixes.generated`); the model follows whichever variant is there -/
structure Fixes where
  normLiteral : Bool    -- writeNormalizedChar (comments, PIs) uses `m_writer.writeLiteral` (throws on an unrepresentable character)
  cdataRef : Bool       -- writeCDATAChars leaves the section to write CR / NEL / LSEP / XML 1.1 restricted characters as references
  rejectNonChar : Bool  -- `throwIfNotACharacter`: unpaired low surrogate, U+FFFE, U+FFFF, NUL are errors
  utf16Pairs : Bool     -- XalanUTF16Writer::write(chars, start, length) validates and consumes surrogate pairs
  bulkCheck : Bool      -- `throwIfNotCharacters`: names, PI targets, raw text, DOCTYPE name are checked before the bulk write
  deriving DecidableEq, Repr

def Fixes.asWritten : Fixes := ⟨false, false, false, false, false⟩
def Fixes.all : Fixes := ⟨true, true, true, true, true⟩
def Fixes.generated : Fixes := ⟨fixNormLiteral, fixCdataRef, fixRejectNonChar, fixUtf16Pairs, fixBulkCheck⟩

structure Enc where
  kind : WK
  canEnc : Nat → Bool      -- XalanOutputStream::canTranscodeTo, used by the `other` writer only
  fx : Fixes

abbrev Out := Except Err (List Item)

def decDigitsF : Nat → Nat → List Nat
  | 0, n => [48 + n % 10]
  | f + 1, n => if n < 10 then [48 + n] else decDigitsF f (n / 10) ++ [48 + n % 10]

/-- decimal digits of `n` (NumberToDOMString), structural on a fuel that is always sufficient -/
def decDigits (n : Nat) : List Nat := decDigitsF n n

/-- `.ok` units of a writer result, for decidable comparisons -/
def okUnits (o : Out) : Option (List Nat) :=
  match o with
  | .ok it => some (unitsOf it)
  | .error _ => none

def errOf (o : Out) : Option Err :=
  match o with
  | .ok _ => none
  | .error e => some e

/-- `XalanUTF8Writer::write(XalanUnicodeChar)` -/
def utf8Scalar (c : Nat) : Out :=
  if c ≤ 0x7F then .ok [.one c]
  else if c ≤ 0x7FF then .ok [.atom [0xC0 + c / 64 % 32, 0x80 + c % 64]]
  else if c ≤ 0xFFFF then .ok [.atom [0xE0 + c / 4096 % 16, 0x80 + c / 64 % 64, 0x80 + c % 64]]
  else if c ≤ 0x10FFFF then
    .ok [.atom [0xF0 + c / 262144 % 8, 0x80 + c / 4096 % 64, 0x80 + c / 64 % 64, 0x80 + c % 64]]
  else .error .scalar

/-- `XalanUTF8Writer::write(const XalanDOMChar*, size_type)` -/
def utf8Units : List Nat → Out
  | [] => .ok []
  | c :: rest =>
    if isHigh c = false then do
      let a ← utf8Scalar c
      let b ← utf8Units rest
      pure (a ++ b)
    else match rest with
      | [] => .error .surrogate
      | l :: rest' =>
        if isLow l = false then .error .surrogate else do
          let a ← utf8Scalar (decodePair c l)
          let b ← utf8Units rest'
          pure (a ++ b)

/-- `XalanOtherEncodingWriter::writeNumericCharacterReference` (formatNumericCharacterReference) -/
def otherNCR (v : Nat) : List Item := [.atom ([38, 35] ++ decDigits v ++ [59])]

/-- `XalanOtherEncodingWriter::write(XalanDOMChar)` -/
def otherChar (e : Enc) (u : Nat) : List Item :=
  if e.canEnc u then [.one u] else .flushIfFull :: otherNCR u

/-- `XalanOtherEncodingWriter::write(XalanUnicodeChar)` (private; re-encodes to UTF-16) -/
def otherScalar (v : Nat) : List Item :=
  if v > 0xFFFF then [.atom [v / 1024 + 0xD7C0, v % 1024 + 0xDC00]] else [.one v]

/-- `m_writer.write(value_type(ch))` -/
def wChar (e : Enc) (u : Nat) : List Item :=
  match e.kind with
  | .utf8 => [.one (u % 256)]
  | .utf16 => [.one u]
  | .other => otherChar e u

/-- `m_writer.write(m_constants.s_xxxString, s_xxxStringLength)` -/
def wConst (e : Enc) (us : List Nat) : List Item :=
  match e.kind with
  | .utf8 => [.bulk us]
  | .utf16 => [.bulk us]
  | .other => us.flatMap (otherChar e)

/-- result of writing one code point: the items and whether `chars[start+1]` was consumed too -/
abbrev CP := Except Err (List Item × Bool)

/-- decode the code point at the head; `rest` = the units after it that lie before `length` -/
def decodeHead (c : Nat) (rest : List Nat) : Except Err (Nat × Bool) :=
  if isHigh c = false then .ok (c, false)
  else match rest with
    | [] => .error .surrogate                      -- start + 1 >= length
    | l :: _ => if isLow l = false then .error .surrogate else .ok (decodePair c l, true)

/-- `m_writer.write(chars, start, length)`; for the other-encoding writer with the character-reference
functor (`throwing = false`) or the exception functor (`throwing = true`, used for names) -/
def wCP (e : Enc) (throwing : Bool) (c : Nat) (rest : List Nat) : CP :=
  match e.kind with
  | .utf16 =>
    if e.fx.utf16Pairs then do
      -- isUTF16HighSurrogate / start + 1 >= length / decodeUTF16SurrogatePair (for its check only)
      let (_, two) ← decodeHead c rest
      match two, rest with
      | true, l :: _ => pure ([.one c, .one l], true)      -- write(ch); write(chars[++start])
      | _, _ => pure ([.one c], false)
    else .ok ([.one c], false)
  | .utf8 => do
    let (v, two) ← decodeHead c rest
    let it ← utf8Scalar v
    pure (it, two)
  | .other => do
    let (v, two) ← decodeHead c rest
    if e.canEnc v then pure (otherScalar v, two)
    else if throwing then .error .unrep
    else pure (otherNCR v, two)

/-- `XalanOtherEncodingWriter::write(const XalanDOMChar*, n)` as repaired:
`for (i = 0; i < n; ++i) i = write(theChars, i, n, m_charRefFunctor)` — a surrogate pair is decoded first and is
representable or gets one character reference -/
def otherBulkLoop (e : Enc) : List Nat → Bool → Out
  | [], _ => .ok []
  | _ :: rest, true => otherBulkLoop e rest false        -- unit already consumed as a low surrogate
  | c :: rest, false => do
    let (it, two) ← wCP e false c rest
    let b ← otherBulkLoop e rest two
    pure (it ++ b)

/-- the same loop as written before the repair: `write(theChars[i])` for every UTF-16 unit by itself -/
def otherBulkUnits (e : Enc) (us : List Nat) : List Item := us.flatMap (otherChar e)

/-- `m_writer.write(const XalanDOMString&)` / `write(const XalanDOMChar*, size_type)`; for the transcoding writer the
variant the translator read from the source (`otherBulkPairAware`) -/
def wStr (e : Enc) (us : List Nat) : Out :=
  match e.kind with
  | .utf8 => utf8Units us
  | .utf16 => .ok [.bulk us]
  | .other => if otherBulkPairAware then otherBulkLoop e us false else .ok (otherBulkUnits e us)

/-- `outputNewline()`: `write(m_newlineString, m_newlineStringLength)` with the string "\n" -/
def wNewline (e : Enc) : Out := wStr e [10]

/-- `XalanOtherEncodingWriter::writeNameChar`: `for (i = 0; i < n; ++i) i = write(data, i, n, exception)` -/
def otherNameLoop (e : Enc) : List Nat → Bool → Out
  | [], _ => .ok []
  | _ :: rest, true => otherNameLoop e rest false        -- unit already consumed as a low surrogate
  | c :: rest, false => do
    let (it, two) ← wCP e true c rest
    let b ← otherNameLoop e rest two
    pure (it ++ b)

def otherName (e : Enc) (us : List Nat) : Out := otherNameLoop e us false

/-- `m_writer.writeNameChar(name, length(name))` -/
def wNameRaw (e : Enc) (us : List Nat) : Out :=
  match e.kind with
  | .utf8 => utf8Units us
  | .utf16 => .ok [.bulk us]
  | .other => otherName e us

/-- `throwIfNotCharacters(chars, n)`: a string handed to a bulk write must be well-formed UTF-16 without U+0000, U+FFFE,
U+FFFF — the same test, unit by unit, as `throwIfNotACharacter` + the writers' pair check on the positional path -/
def checkLoop : List Nat → Bool → Except Err Unit
  | [], _ => .ok ()
  | _ :: rest, true => checkLoop rest false               -- the low half of a pair just accepted
  | c :: rest, false =>
    if isHigh c then
      match rest with
      | l :: _ => if isLow l then checkLoop rest true else .error .surrogate
      | [] => .error .surrogate
    else if isLow c then .error .surrogate
    else if c = 0 ∨ c ≥ 0xFFFE then .error .forbidden
    else checkLoop rest false

def checkBulk (e : Enc) (us : List Nat) : Except Err Unit := if e.fx.bulkCheck then checkLoop us false else .ok ()

/-- `writeName(name)` of the formatter: the check (when present), then `m_writer.writeNameChar` -/
def wName (e : Enc) (us : List Nat) : Out := do
  checkBulk e us
  wNameRaw e us

/-- `charactersRaw`: the check (when present), then `m_writer.write(chars, length)` -/
def wRaw (e : Enc) (us : List Nat) : Out := do
  checkBulk e us
  wStr e us

/-! ## FormatterToXMLUnicode: escaping -/

/-- `FormatterToXMLUnicode::writeNumericCharacterReference` -/
def fNCR (e : Enc) (v : Nat) : Out := do
  let d ← wStr e (decDigits v)
  pure (wChar e 38 ++ wChar e 35 ++ d ++ wChar e 59)

def ltEnt (e : Enc) : List Nat := match e.kind with | .utf8 => UTF8_s_lessThanEntityString | _ => UTF16_s_lessThanEntityString
def gtEnt (e : Enc) : List Nat := match e.kind with | .utf8 => UTF8_s_greaterThanEntityString | _ => UTF16_s_greaterThanEntityString
def ampEnt (e : Enc) : List Nat := match e.kind with | .utf8 => UTF8_s_ampersandEntityString | _ => UTF16_s_ampersandEntityString
def quotEnt (e : Enc) : List Nat := match e.kind with | .utf8 => UTF8_s_quoteEntityString | _ => UTF16_s_quoteEntityString
def cdataOpen (e : Enc) : List Nat := match e.kind with | .utf8 => UTF8_s_cdataOpenString | _ => UTF16_s_cdataOpenString
def cdataClose (e : Enc) : List Nat := match e.kind with | .utf8 => UTF8_s_cdataCloseString | _ => UTF16_s_cdataCloseString

/-- `writeDefaultEntity`: `none` = not a default entity -/
def defaultEntity (e : Enc) (ch : Nat) : Option (List Item) :=
  if ch = 60 then some (wConst e (ltEnt e))
  else if ch = 62 then some (wConst e (gtEnt e))
  else if ch = 38 then some (wConst e (ampEnt e))
  else none

/-- `writeDefaultAttributeEntity` -/
def defaultAttrEntity (e : Enc) (ch : Nat) : Option (List Item) :=
  match defaultEntity e ch with
  | some it => some it
  | none => if ch = 34 then some (wConst e (quotEnt e)) else none

/-- `writeDefaultEscape` -/
def writeDefaultEscape (ver : Ver) (e : Enc) (ch : Nat) : Out :=
  match defaultEntity e ch with
  | some it => .ok it
  | none =>
    if ch = 10 then wNewline e
    else if pForbidden ver ch then .error .forbidden
    else fNCR e ch

/-- `writeDefaultAttributeEscape` -/
def writeDefaultAttributeEscape (ver : Ver) (e : Enc) (ch : Nat) : Out :=
  match defaultAttrEntity e ch with
  | some it => .ok it
  | none => if pForbidden ver ch then .error .forbidden else fNCR e ch

/-- `throwIfNotACharacter(ch)` (present when `fx.rejectNonChar`) -/
def notCharCheck (e : Enc) (c : Nat) : Except Err Unit :=
  if e.fx.rejectNonChar then
    if isLow c then .error .surrogate
    else if c = 0 ∨ c ≥ 0xFFFE then .error .forbidden
    else .ok ()
  else .ok ()

/-- `writeNormalizedCharBig(chars, start, length)` -/
def writeNormalizedCharBig (ver : Ver) (e : Enc) (c : Nat) (rest : List Nat) : CP := do
  notCharCheck e c
  if ver = .v11 ∧ c = 0x2028 then do
    let it ← fNCR e c
    pure (it, false)
  else wCP e false c rest

/-- `safeWriteContent(chars + firstIndex, i - firstIndex)` -/
def safeWrite (e : Enc) (run : List Nat) : List Item := run.flatMap (wChar e)

/-- the common loop of `writeCharacters` and `writeAttrString`; `special` is `content`/`attribute`,
`escape` is `writeDefaultEscape`/`writeDefaultAttributeEscape`; `pend` is `chars[firstIndex .. i)`;
the flag says that this unit was already consumed by the previous call (`i = write(chars, i, length); ++i`) -/
def escLoop (ver : Ver) (e : Enc) (special : Nat → Bool) (escape : Nat → Out) :
    List Nat → Bool → List Nat → Out
  | [], _, pend => .ok (safeWrite e pend)
  | _ :: rest, true, pend => escLoop ver e special escape rest false pend   -- consumed as a low surrogate
  | c :: rest, false, pend =>
    if pRange ver c then do
      let (it, two) ← writeNormalizedCharBig ver e c rest
      let b ← escLoop ver e special escape rest two []
      pure (safeWrite e pend ++ it ++ b)
    else if special c = false then
      escLoop ver e special escape rest false (pend ++ [c])
    else do
      let it ← escape c
      let b ← escLoop ver e special escape rest false []
      pure (safeWrite e pend ++ it ++ b)

/-- the character loop of `writeCharacters(chars, length)` (after `writeParentTagEnd`) -/
def writeCharacters (ver : Ver) (e : Enc) (s : List Nat) : Out :=
  escLoop ver e (pContent ver) (writeDefaultEscape ver e) s false []

/-- `writeAttrString(theString, theStringLength)` -/
def writeAttrString (ver : Ver) (e : Enc) (s : List Nat) : Out :=
  escLoop ver e (pAttribute ver) (writeDefaultAttributeEscape ver e) s false []

/-- `writeNormalizedData`: `for (i = 0; i < n; ++i) i = writeNormalizedChar(data[i], data, i, n)` -/
def normLoop (ver : Ver) (e : Enc) : List Nat → Bool → Out
  | [], _ => .ok []
  | _ :: rest, true => normLoop ver e rest false
  | c :: rest, false =>
    if c = 10 then do
      let a ← wNewline e
      let b ← normLoop ver e rest false
      pure (a ++ b)
    else if pCharRefForbidden ver c then .error .forbidden
    else do
      notCharCheck e c
      let (it, two) ← wCP e e.fx.normLiteral c rest      -- m_writer.write / m_writer.writeLiteral
      let b ← normLoop ver e rest two
      pure (it ++ b)

def writeNormalizedData (ver : Ver) (e : Enc) (s : List Nat) : Out := normLoop ver e s false

/-! ## CDATA -/

/-- the three places where `writeCDATAChars`/`writeCDATA` were found to be wrong, as parameters
(the values for the current source are generated: `Generated.C04.cdata*`) -/
structure CDataCfg where
  guard : Nat → Nat → Bool        -- the look-ahead guard of the "]]>" test, given `i` and `length`
  bracketOutsideWritesOpen : Bool -- "]]>" case with outsideCDATA: write s_cdataOpenString (else s_cdataCloseString)
  reopenAtEnd : Bool              -- after the loop: `if (outsideCDATA) write(s_cdataOpenString)`
  closeOnlyIfInside : Bool        -- writeCDATA: final "]]>" only `if (outsideCDATA == false)`

/-- the code as it is at the pinned commit -/
def CDataCfg.asWritten : CDataCfg :=
  ⟨fun i length => decide ((i + 18446744073709551616 - length) % 18446744073709551616 > 2), false, true, true⟩

/-- the code with `proposed/C04-cdata.diff` applied -/
def CDataCfg.fixed : CDataCfg :=
  ⟨fun i length => decide ((length + 18446744073709551616 - i) % 18446744073709551616 > 2), true, false, true⟩

/-- what the translator read from the working tree -/
def CDataCfg.generated : CDataCfg :=
  ⟨cdataGuard, cdataBracketOutsideWritesOpen, cdataReopenAtEnd, cdataCloseOnlyIfInside⟩

/-- `m_writer.writeCDATAChar(chars, i, length, outsideCDATA)`: items, next unit consumed, new flag -/
def wCDATAChar (e : Enc) (c : Nat) (rest : List Nat) (outside : Bool) : Except Err (List Item × Bool × Bool) :=
  match e.kind with
  | .utf16 => do
    let (it, two) ← wCP e false c rest
    pure (it, two, outside)
  | .utf8 => do
    let (it, two) ← wCP e false c rest
    pure (it, two, outside)
  | .other => do
    let (v, two) ← decodeHead c rest
    if e.canEnc v then
      if outside = false then pure (otherScalar v, two, false)
      else pure ((cdataOpen e).flatMap (otherChar e) ++ otherScalar v, two, false)
    else
      if outside = false then pure ((cdataClose e).flatMap (otherChar e) ++ otherNCR v, two, true)
      else pure (otherNCR v, two, true)

/-- `buf[k]` for the look-ahead; `none` = read outside the supplied array -/
def peek (l : List Nat) (k : Nat) : Except Err Nat :=
  match l[k]? with
  | some x => .ok x
  | none => .error .mem

/-- `theChar == ']' && guard && ']' == chars[i+1] && '>' == chars[i+2]` (short-circuit, as written) -/
def closeTest (cfg : CDataCfg) (length : Nat) (c : Nat) (rest : List Nat) (i : Nat) : Except Err Bool :=
  if c = 93 ∧ cfg.guard i length = true then do
    let c1 ← peek rest 0
    if c1 = 93 then do
      let c2 ← peek rest 1
      pure (decide (c2 = 62))
    else pure false
  else pure false

/-- the loop of `writeCDATAChars(chars, length, outsideCDATA)`.  `l` is the supplied array from index `i`
on (it may extend past `length`: the tail is what an unguarded look-ahead can see); `skip` units were
already consumed by the previous iteration (`i += 2` / the low surrogate). -/
def cdataLoop (cfg : CDataCfg) (ver : Ver) (e : Enc) (length : Nat) :
    List Nat → Nat → Nat → Bool → Except Err (List Item × Bool)
  | [], _, _, outside => .ok ([], outside)
  | _ :: rest, i, skip + 1, outside => cdataLoop cfg ver e length rest (i + 1) skip outside  -- already consumed
  | c :: rest, i, 0, outside =>
    if i < length then do
      -- theChar == ']' && guard && ']' == chars[i+1] && '>' == chars[i+2]   (short-circuit, as written)
      let isClose ← closeTest cfg length c rest i
      if isClose then do
        let pre := if outside then wConst e (if cfg.bracketOutsideWritesOpen then cdataOpen e else cdataClose e) else []
        let (b, o) ← cdataLoop cfg ver e length rest (i + 1) 2 false
        pure (pre ++ wChar e 93 ++ wChar e 93 ++ wConst e (cdataClose e) ++ wConst e (cdataOpen e) ++ wChar e 62 ++ b, o)
      else if c = 10 then do
        let a ← wNewline e
        let (b, o) ← cdataLoop cfg ver e length rest (i + 1) 0 outside
        pure (a ++ b, o)
      else if e.fx.cdataRef = true ∧ (c = 13 ∨ (ver = .v11 ∧ (pCharRefForbidden ver c = true ∨ c = 0x85 ∨ c = 0x2028))) then do
        -- leave the section for a character reference
        let ncr ← fNCR e c
        let pre := if outside then [] else wConst e (cdataClose e)
        let post := if outside then [] else wConst e (cdataOpen e)
        let (b, o) ← cdataLoop cfg ver e length rest (i + 1) 0 outside
        pure (pre ++ ncr ++ post ++ b, o)
      else if pCharRefForbidden ver c then .error .forbidden
      else do
        notCharCheck e c
        let (it, two, o1) ← wCDATAChar e c (rest.take (length - (i + 1))) outside
        let (b, o) ← cdataLoop cfg ver e length rest (i + 1) (if two then 1 else 0) o1
        pure (it ++ b, o)
    else .ok ([], outside)

/-- `writeCDATA(chars, length)` after `writeParentTagEnd` (buf = the supplied array, `length ≤ buf.length`) -/
def writeCDATA (cfg : CDataCfg) (ver : Ver) (e : Enc) (buf : List Nat) (length : Nat) : Out := do
  let (body, outside) ← cdataLoop cfg ver e length buf 0 0 false
  let reopen := if cfg.reopenAtEnd ∧ outside then wConst e (cdataOpen e) else []
  let close := if cfg.closeOnlyIfInside = false ∨ outside = false then wConst e (cdataClose e) else []
  pure (wConst e (cdataOpen e) ++ body ++ reopen ++ close)

/-! ## document level (indent off: `XalanDummyIndentWriter`) -/

inductive Event
  | startElement (name : List Nat) (attrs : List (List Nat × List Nat))
  | endElement (name : List Nat)
  | characters (buf : List Nat) (length : Nat)
  | cdata (buf : List Nat) (length : Nat)
  | charactersRaw (s : List Nat)
  | comment (data : List Nat)
  | pi (target data : List Nat)
  deriving Repr

structure Cfg where
  ver : Ver
  enc : Enc
  cdata : CDataCfg
  encName : List Nat          -- the encoding name written into the XML declaration
  xmlDecl : Bool              -- !omit-xml-declaration
  standalone : List Nat       -- the standalone string ("" = none)
  doctypeSystem : List Nat
  doctypePublic : List Nat

def verString : Ver → List Nat
  | .v10 => [49, 46, 48]
  | .v11 => [49, 46, 49]

def hdrStart (e : Enc) : List Nat := match e.kind with | .utf8 => UTF8_s_xmlHeaderStartString | _ => UTF16_s_xmlHeaderStartString
def hdrEnc (e : Enc) : List Nat := match e.kind with | .utf8 => UTF8_s_xmlHeaderEncodingString | _ => UTF16_s_xmlHeaderEncodingString
def hdrEnd (e : Enc) : List Nat := match e.kind with | .utf8 => UTF8_s_xmlHeaderEndString | _ => UTF16_s_xmlHeaderEndString

def hdrStandalone (e : Enc) : List Nat := match e.kind with | .utf8 => UTF8_s_xmlHeaderStandaloneString | _ => UTF16_s_xmlHeaderStandaloneString
def dtStart (e : Enc) : List Nat := match e.kind with | .utf8 => UTF8_s_doctypeHeaderStartString | _ => UTF16_s_doctypeHeaderStartString
def dtPublic (e : Enc) : List Nat := match e.kind with | .utf8 => UTF8_s_doctypeHeaderPublicString | _ => UTF16_s_doctypeHeaderPublicString
def dtSystem (e : Enc) : List Nat := match e.kind with | .utf8 => UTF8_s_doctypeHeaderSystemString | _ => UTF16_s_doctypeHeaderSystemString

/-- `m_shouldWriteXMLHeader`: the declaration is written when asked for, or when standalone is given -/
def shouldWriteHeader (c : Cfg) : Bool := c.xmlDecl || !c.standalone.isEmpty

/-- `m_spaceBeforeClose`: the public identifier starts with the W3C XHTML DTD prefix (`s_xhtmlDocTypeString`) -/
def spaceBeforeClose (c : Cfg) : Bool :=
  !c.doctypePublic.isEmpty && UTF16_s_xhtmlDocTypeString.isPrefixOf c.doctypePublic

/-- `startDocument`: `writeXMLHeader` when the declaration is wanted, then a line break when a DOCTYPE will follow -/
def writeXMLHeader (c : Cfg) : Out :=
  if shouldWriteHeader c then do
    let v ← wStr c.enc (verString c.ver)
    let n ← wStr c.enc c.encName
    let sa ← if c.standalone.isEmpty then pure [] else do
      let s ← wStr c.enc c.standalone
      pure (wConst c.enc (hdrStandalone c.enc) ++ s)
    let nl ← if c.doctypeSystem.isEmpty then pure [] else wNewline c.enc
    pure (wConst c.enc (hdrStart c.enc) ++ v ++ wConst c.enc (hdrEnc c.enc) ++ n ++ sa ++ wConst c.enc (hdrEnd c.enc) ++ nl)
  else pure []

/-- `generateDoctypeDecl(name)` / `writeDoctypeDecl(name)` at the first start tag (only with a system identifier) -/
def doctypeItems (c : Cfg) (name : List Nat) : Out :=
  if c.doctypeSystem.isEmpty then pure [] else do
    checkBulk c.enc name
    let n ← wStr c.enc name
    let pub ← if c.doctypePublic.isEmpty then pure (wConst c.enc (dtSystem c.enc)) else do
      let p ← wName c.enc c.doctypePublic
      pure (wConst c.enc (dtPublic c.enc) ++ p ++ wChar c.enc 34 ++ wChar c.enc 32 ++ wChar c.enc 34)
    let sys ← wName c.enc c.doctypeSystem
    let nl ← wNewline c.enc
    pure (wConst c.enc (dtStart c.enc) ++ n ++ pub ++ sys ++ wChar c.enc 34 ++ wChar c.enc 62 ++ nl)

/-- `writeParentTagEnd` / `markParentForChildren` on `m_elemStack` (top of stack = head) -/
def parentTagEnd (e : Enc) : List Bool → List Item × List Bool
  | false :: st => (wChar e 62, true :: st)
  | st => ([], st)

def isXMLWhitespace (c : Nat) : Bool := c = 32 || c = 9 || c = 13 || c = 10

/-- `processAttribute` for every attribute -/
def writeAttrs (c : Cfg) : List (List Nat × List Nat) → Out
  | [] => .ok []
  | (n, v) :: rest => do
    let nn ← wName c.enc n
    let vv ← writeAttrString c.ver c.enc v
    let r ← writeAttrs c rest
    pure (wChar c.enc 32 ++ nn ++ wChar c.enc 61 ++ wChar c.enc 34 ++ vv ++ wChar c.enc 34 ++ r)

def stepEvent (c : Cfg) (st : List Bool) : Event → Except Err (List Item × List Bool)
  | .startElement name attrs => do
    let (p, st1) := parentTagEnd c.enc st
    let n ← wName c.enc name
    let a ← writeAttrs c attrs
    pure (p ++ wChar c.enc 60 ++ n ++ a, false :: st1)
  | .endElement name =>
    match st with
    | true :: st1 => do
      let n ← wName c.enc name
      pure (wChar c.enc 60 ++ wChar c.enc 47 ++ n ++ wChar c.enc 62, st1)
    | false :: st1 => pure ((if spaceBeforeClose c then wChar c.enc 32 else []) ++ wChar c.enc 47 ++ wChar c.enc 62, st1)
    | [] => pure ((if spaceBeforeClose c then wChar c.enc 32 else []) ++ wChar c.enc 47 ++ wChar c.enc 62, [])
  | .characters buf length =>
    if length = 0 then pure ([], st) else do
      let (p, st1) := parentTagEnd c.enc st
      let t ← writeCharacters c.ver c.enc (buf.take length)
      pure (p ++ t, st1)
  | .cdata buf length =>
    if length = 0 then pure ([], st) else do
      let (p, st1) := parentTagEnd c.enc st
      let t ← writeCDATA c.cdata c.ver c.enc buf length
      pure (p ++ t, st1)
  | .charactersRaw s => do
    let (p, st1) := parentTagEnd c.enc st
    let t ← wRaw c.enc s
    pure (p ++ t, st1)
  | .comment data => do
    let (p, st1) := parentTagEnd c.enc st
    let d ← writeNormalizedData c.ver c.enc data
    pure (p ++ wChar c.enc 60 ++ wChar c.enc 33 ++ wChar c.enc 45 ++ wChar c.enc 45 ++ d
            ++ wChar c.enc 45 ++ wChar c.enc 45 ++ wChar c.enc 62, st1)
  | .pi target data => do
    let (p, st1) := parentTagEnd c.enc st
    let t ← wName c.enc target
    let sp := match data with
      | d0 :: _ => if isXMLWhitespace d0 then [] else wChar c.enc 32
      | [] => []
    let d ← writeNormalizedData c.ver c.enc data
    pure (p ++ wChar c.enc 60 ++ wChar c.enc 63 ++ t ++ sp ++ d ++ wChar c.enc 63 ++ wChar c.enc 62, st1)

def runEvents (c : Cfg) : List Event → List Bool → Out
  | [], _ => .ok []
  | ev :: rest, st => do
    let (a, st1) ← stepEvent c st ev
    let b ← runEvents c rest st1
    pure (a ++ b)

/-- the events up to the first `startElement` (top level: nothing is open, `writeParentTagEnd` does nothing), then
the DOCTYPE declaration that `startElement` generates before anything else, then the rest -/
def runEventsD (c : Cfg) : List Event → Out
  | [] => .ok []
  | .startElement name attrs :: rest => do
    let d ← doctypeItems c name
    let r ← runEvents c (.startElement name attrs :: rest) []
    pure (d ++ r)
  | ev :: rest => do
    let (a, _) ← stepEvent c [] ev
    let b ← runEventsD c rest
    pure (a ++ b)

/-- startDocument … events … endDocument: all items written -/
def serializeItems (c : Cfg) (evs : List Event) : Out := do
  let h ← writeXMLHeader c
  let b ← runEventsD c evs
  pure (h ++ b)

def bufferSize : WK → Nat
  | .utf8 => kBufferSizeUTF8
  | .utf16 => kBufferSizeUTF16
  | .other => kBufferSizeOther

/-- does the writer's bulk `write(chars, n)` flush before a direct write? (read from the source; the transcoding
writer has no bulk path, so no `.bulk` item ever reaches its buffer) -/
def bulkFlush : WK → Bool
  | .utf8 => bulkFlushUTF8
  | .utf16 => bulkFlushUTF16
  | .other => true

/-- chunks the writer hands to `Writer::write` (endDocument's `flushBuffer` included) -/
def writerChunks (k : WK) (items : List Item) : Except Err (List (List Nat)) :=
  match Sink.run items (Sink.emptyF (bufferSize k) (bulkFlush k)) with
  | some s => .ok s.flush.chunks
  | none => .error .mem

end XalanModel.C04
