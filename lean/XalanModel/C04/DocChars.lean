import XalanModel.C04.Tree
import XalanModel.C04.Spec
import XalanModel.C04.CommentProofs
namespace XalanModel.C04
open Spec XalanModel.Generated.C04

/-! a tree whose strings are character sequences; `toUnits` is what the serializer is given (UTF-16) -/

def encAttrs (a : List (List Nat × List Nat)) : List (List Nat × List Nat) :=
  a.map fun p => (utf16Encode p.1, utf16Encode p.2)

mutual
def toUnits : XNode → XNode
  | .elem n a kids => .elem (utf16Encode n) (encAttrs a) (toUnitsL kids)
  | .text s => .text (utf16Encode s)
  | .cdata s => .cdata (utf16Encode s)
  | .comment s => .comment (utf16Encode s)
  | .pi t d => .pi (utf16Encode t) (utf16Encode d)
def toUnitsL : List XNode → List XNode
  | [] => []
  | k :: ks => toUnits k :: toUnitsL ks
end

/-- the attributes of a start tag, as characters -/
def absAttrs (ver : Ver) (ce : Nat → Bool) : List (List Nat × List Nat) → Except Err (List Nat)
  | [] => .ok []
  | (n, v) :: rest => do
    let vv ← absEscAll ver ce true v
    let r ← absAttrs ver ce rest
    pure ([32] ++ n ++ [61, 34] ++ vv ++ [34] ++ r)

mutual
/-- the document as characters (no encodings, no buffers, no event stack): what a parser has to read -/
def absNode (ver : Ver) (ce : Nat → Bool) (xhtml : Bool) : XNode → Except Err (List Nat)
  | .elem n a kids => do
    let aa ← absAttrs ver ce a
    let k ← absKids ver ce xhtml kids
    if kids.all silent then pure ([60] ++ n ++ aa ++ (if xhtml then [32] else []) ++ [47, 62])
    else pure ([60] ++ n ++ aa ++ [62] ++ k ++ [60, 47] ++ n ++ [62])
  | .text s => if s.isEmpty then pure [] else absEscAll ver ce false s
  | .cdata s => if s.isEmpty then pure [] else absCDATA ver ce s
  | .comment s => pure ([60, 33, 45, 45] ++ s ++ [45, 45, 62])
  | .pi t d =>
    pure ([60, 63] ++ t ++ (match d with | d0 :: _ => if isXMLWhitespace d0 then [] else [32] | [] => []) ++ d ++ [63, 62])
def absKids (ver : Ver) (ce : Nat → Bool) (xhtml : Bool) : List XNode → Except Err (List Nat)
  | [] => pure []
  | k :: ks => do
    let a ← absNode ver ce xhtml k
    let b ← absKids ver ce xhtml ks
    pure (a ++ b)
end

/-- a name the writer can write literally -/
def NameOk (ver : Ver) (e : Enc) (n : List Nat) : Prop := ∀ c ∈ n, legalChar ver c = true ∧ canEncOf e c = true

def AttrsOk (ver : Ver) (e : Enc) (a : List (List Nat × List Nat)) : Prop :=
  ∀ p ∈ a, NameOk ver e p.1 ∧ ∀ c ∈ p.2, legalChar ver c = true

mutual
/-- every string of the tree is made of XML characters; names, comments and PI data of characters that can be
written literally in the encoding -/
def TreeOk (ver : Ver) (e : Enc) : XNode → Prop
  | .elem n a kids => NameOk ver e n ∧ AttrsOk ver e a ∧ KidsOkT ver e kids
  | .text s => (∀ c ∈ s, legalChar ver c = true)
  | .cdata s => (∀ c ∈ s, legalChar ver c = true) ∧ (utf16Encode s).length < 18446744073709551616
  | .comment s => (∀ c ∈ s, LiteralOk ver e c)
  | .pi t d => NameOk ver e t ∧ (∀ c ∈ d, LiteralOk ver e c)
def KidsOkT (ver : Ver) (e : Enc) : List XNode → Prop
  | [] => True
  | k :: ks => TreeOk ver e k ∧ KidsOkT ver e ks
end

end XalanModel.C04
