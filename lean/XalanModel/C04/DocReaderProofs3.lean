import XalanModel.C04.DocReaderProofs2
namespace XalanModel.C04
open Spec XalanModel.Generated.C04

def GoodName (ver : Ver) (n : List Nat) : Prop := n ≠ [] ∧ ∀ c ∈ n, nameCh ver c = true

theorem span_name (ver : Ver) (n : List Nat) (d : Nat) (rest : List Nat) (hn : ∀ c ∈ n, nameCh ver c = true)
    (hd : nameCh ver d = false) :
    (n ++ d :: rest).takeWhile (nameCh ver) = n ∧ (n ++ d :: rest).dropWhile (nameCh ver) = d :: rest := by
  rw [List.takeWhile_append_of_pos hn, List.dropWhile_append_of_pos hn]
  simp [hd]

theorem nameCh_delim (ver : Ver) (d : Nat) (h : d ∈ [9, 10, 13, 32, 33, 34, 38, 39, 47, 60, 61, 62, 63]) :
    nameCh ver d = false := by
  simp only [nameCh, Bool.and_eq_false_iff, Bool.not_eq_false']
  right; simpa using h

theorem splitDD_data (d rest : List Nat) (h1 : hasDD d = false) (h2 : endsHyphen d = false) :
    splitDD (d ++ 45 :: 45 :: rest) = some (d, rest) := by
  induction d with
  | nil => simp [splitDD]
  | cons a t ih =>
    cases t with
    | nil =>
      have ha : a ≠ 45 := by intro e; subst e; simp [endsHyphen] at h2
      simp only [List.cons_append, List.nil_append, splitDD]
      rw [if_neg (by intro ⟨e, _⟩; exact ha e)]
      simp [splitDD]
    | cons b t' =>
      have hnot : ¬ (a = 45 ∧ b = 45) := by
        intro ⟨e1, e2⟩; subst e1; subst e2; simp [hasDD] at h1
      have h1' : hasDD (b :: t') = false := by
        simp only [hasDD, Bool.or_eq_false_iff] at h1; exact h1.2
      have h2' : endsHyphen (b :: t') = false := by simpa [endsHyphen] using h2
      have := ih h1' h2'
      simp only [List.cons_append] at this ⊢
      rw [splitDD]
      simp only [hnot, ↓reduceIte, this, Option.map_some]

theorem splitPIEnd_data (d rest : List Nat) (h1 : hasPIEnd d = false) :
    splitPIEnd (d ++ 63 :: 62 :: rest) = some (d, rest) := by
  induction d with
  | nil => simp [splitPIEnd]
  | cons a t ih =>
    cases t with
    | nil =>
      simp only [List.cons_append, List.nil_append, splitPIEnd]
      rw [if_neg (by intro ⟨_, e⟩; cases e)]
      simp [splitPIEnd]
    | cons b t' =>
      have hnot : ¬ (a = 63 ∧ b = 62) := by
        intro ⟨e1, e2⟩; subst e1; subst e2; simp [hasPIEnd] at h1
      have h1' : hasPIEnd (b :: t') = false := by
        simp only [hasPIEnd, Bool.or_eq_false_iff] at h1; exact h1.2
      have := ih h1'
      simp only [List.cons_append] at this ⊢
      rw [splitPIEnd]
      simp only [hnot, ↓reduceIte, this, Option.map_some]

def RAttrsOk (ver : Ver) (a : List (List Nat × List Nat)) : Prop :=
  ∀ p ∈ a, GoodName ver p.1 ∧ ∀ c ∈ p.2, legalChar ver c = true

/-- what follows the attributes of a start tag -/
def AttrStop (rest : List Nat) : Prop := rest.head? ≠ some 32 ∨ rest.tail.head? = some 47

theorem absAttrs_inv (ver : Ver) (ce : Nat → Bool) (n v : List Nat) (a : List (List Nat × List Nat)) (out : List Nat)
    (h : absAttrs ver ce ((n, v) :: a) = .ok out) :
    ∃ vv r, absEscAll ver ce true v = .ok vv ∧ absAttrs ver ce a = .ok r ∧ out = [32] ++ n ++ [61, 34] ++ vv ++ [34] ++ r := by
  simp only [absAttrs, bind, Except.bind] at h
  cases hv : absEscAll ver ce true v with
  | error e => rw [hv] at h; cases h
  | ok vv =>
    rw [hv] at h
    cases hr : absAttrs ver ce a with
    | error e => rw [hr] at h; cases h
    | ok r => rw [hr] at h; simp only [pure, Except.pure] at h; injection h with h; exact ⟨vv, r, rfl, rfl, h.symm⟩

theorem readAttrs_abs (ver : Ver) (ce : Nat → Bool) (a : List (List Nat × List Nat)) (hok : RAttrsOk ver a) :
    ∀ out, absAttrs ver ce a = .ok out → ∀ rest, AttrStop rest → ∀ f, out.length + 1 ≤ f →
      readAttrs ver f (out ++ rest) = some (a, rest) := by
  induction a with
  | nil =>
    intro out h rest hstop f hf
    simp only [absAttrs] at h; injection h with h; subst h
    obtain ⟨d, rfl⟩ := Nat.exists_eq_add_of_le (show 1 ≤ f by omega)
    have e1 : 1 + d = d + 1 := by omega
    rw [e1]
    simp only [List.nil_append, readAttrs]
    rw [if_neg]
    intro ⟨h1, h2⟩
    rcases hstop with hs | hs
    · exact hs h1
    · exact h2 hs
  | cons p a ih =>
    obtain ⟨n, v⟩ := p
    intro out h rest hstop f hf
    obtain ⟨vv, r, hv, hr, rfl⟩ := absAttrs_inv ver ce n v a out h
    obtain ⟨⟨hne, hnc⟩, hvl⟩ := hok (n, v) (by simp)
    obtain ⟨d, rfl⟩ := Nat.exists_eq_add_of_le (show 1 ≤ f by omega)
    have e1 : 1 + d = d + 1 := by omega
    rw [e1]
    have hL : [32] ++ n ++ [61, 34] ++ vv ++ [34] ++ r ++ rest = 32 :: (n ++ 61 :: 34 :: (vv ++ 34 :: (r ++ rest))) := by simp
    rw [hL]
    have hspan := span_name ver n 61 (34 :: (vv ++ 34 :: (r ++ rest))) hnc (nameCh_delim ver 61 (by simp))
    have hhead : (n ++ 61 :: 34 :: (vv ++ 34 :: (r ++ rest))).head? ≠ some 47 := by
      cases n with
      | nil => exact absurd rfl hne
      | cons c t =>
        simp only [List.cons_append, List.head?_cons, ne_eq, Option.some.injEq]
        intro e; subst e
        have := hnc 47 (by simp); rw [nameCh_delim ver 47 (by simp)] at this; cases this
    have hnE : n.isEmpty = false := by cases n with
      | nil => exact absurd rfl hne
      | cons _ _ => rfl
    simp only [List.length_append, List.length_cons, List.length_nil] at hf
    simp only [readAttrs, List.head?_cons, List.tail_cons, hhead, not_false_eq_true, and_self, ↓reduceIte, hspan.1, hspan.2, hnE,
      Bool.false_eq_true, List.take_succ_cons, List.take_zero, List.drop_succ_cons, List.drop_zero]
    rw [readAttrVal_absEscAll ver ce v hvl vv hv (r ++ rest) d (by omega)]
    simp only
    rw [ih (fun q hq => hok q (by simp [hq])) r hr rest hstop d (by omega)]
    rw [if_pos ⟨trivial, hhead⟩]
    rfl

end XalanModel.C04
