import XalanModel.C04.DocReaderProofs7
namespace XalanModel.C04
open Spec XalanModel.Generated.C04

theorem elem_rd (ver : Ver) (ce : Nat → Bool) (xhtml : Bool) (n : List Nat) (a : List (List Nat × List Nat))
    (kids : List XNode) (hks : KidsRd ver ce xhtml kids) : NodeRd ver ce xhtml (.elem n a kids) := by
  intro hok out h rest f _ hf
  obtain ⟨out', rfl, hrd⟩ := readElem_abs ver ce xhtml n a kids hks hok out h rest f hf
  simp only [RTreeOk] at hok
  obtain ⟨c0, t0, hE, hc0, h47, h33, h63⟩ := name_head ver n hok.1
  -- out' starts with the first character of the name
  have hhead : ∃ r, out' = c0 :: r := by
    simp only [absNode, bind, Except.bind] at h
    cases ha : absAttrs ver ce a with
    | error e => rw [ha] at h; cases h
    | ok aa =>
      rw [ha] at h
      cases hk : absKids ver ce xhtml kids with
      | error e => rw [hk] at h; cases h
      | ok kk =>
        rw [hk] at h; simp only at h; subst hE
        by_cases hall : kids.all silent = true
        · rw [if_pos hall] at h; simp only [pure, Except.pure] at h; injection h with h
          simp at h; exact ⟨_, h.symm⟩
        · rw [if_neg hall] at h; simp only [pure, Except.pure] at h; injection h with h
          simp at h; exact ⟨_, h.symm⟩
  obtain ⟨r, rfl⟩ := hhead
  simp only [List.cons_append] at hrd ⊢
  rw [readKids]
  have e1 : ((60 :: c0 :: (r ++ rest)).take 2 = [60, 47]) = False := by simp; exact h47
  have e2 : ((60 :: c0 :: (r ++ rest)).take 4 = [60, 33, 45, 45]) = False := by simp; intro e; exact absurd e h33
  have e3 : ((60 :: c0 :: (r ++ rest)).take 2 = [60, 63]) = False := by simp; exact h63
  have e4 : ((60 :: c0 :: (r ++ rest)).head? = some 60 ∧ (60 :: c0 :: (r ++ rest)).take 9 ≠ OPEN) = True := by
    simp [OPEN]; intro e; exact absurd e h33
  simp only [e1, e2, e3, e4, ↓reduceIte, List.tail_cons, hrd]

/-- every tree the reader's class admits: its children are read back one after the other -/
theorem node_rd (ver : Ver) (ce : Nat → Bool) (xhtml : Bool) (t : XNode) : NodeRd ver ce xhtml t := by
  refine XNode.rec (motive_1 := fun t => NodeRd ver ce xhtml t) (motive_2 := fun ks => KidsRd ver ce xhtml ks)
    (fun n a kids ih => elem_rd ver ce xhtml n a kids ih) (fun s => text_rd ver ce xhtml s) (fun s => cdata_rd ver ce xhtml s)
    (fun s => comment_rd ver ce xhtml s) (fun t d => pi_rd ver ce xhtml t d) (kids_nil_rd ver ce xhtml)
    (fun k ks ihk ihks => kids_cons_rd ver ce xhtml k ks ihk ihks) t

theorem kids_rd (ver : Ver) (ce : Nat → Bool) (xhtml : Bool) (ks : List XNode) : KidsRd ver ce xhtml ks := by
  induction ks with
  | nil => exact kids_nil_rd ver ce xhtml
  | cons k ks ih => exact kids_cons_rd ver ce xhtml k ks (node_rd ver ce xhtml k) ih

/-- the character-level document of an element is read back as the tree (CDATA sections as text) -/
theorem readDoc_absNode (ver : Ver) (ce : Nat → Bool) (xhtml : Bool) (n : List Nat) (a : List (List Nat × List Nat))
    (kids : List XNode) (hok : RTreeOk ver (.elem n a kids)) (out : List Nat)
    (h : absNode ver ce xhtml (.elem n a kids) = .ok out) :
    readDoc ver out = some (norm (.elem n a kids)) := by
  obtain ⟨out', rfl, hrd⟩ := readElem_abs ver ce xhtml n a kids (kids_rd ver ce xhtml kids) hok out h [] (out.length) (Nat.le_refl _)
  simp only [List.append_nil] at hrd
  simp only [readDoc, hrd]

end XalanModel.C04
