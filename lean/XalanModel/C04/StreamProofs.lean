import XalanModel.C04.Stream
namespace XalanModel.C04
open XalanModel.Generated.C04

def StreamSt.all (s : StreamSt) : List Nat := s.chunks.flatten ++ s.buf

theorem buf_split (l : List Nat) (x : Nat) (h : l.getLast? = some x) : l = l.dropLast ++ [x] := by
  induction l with
  | nil => simp at h
  | cons a t ih =>
    cases t with
    | nil => simp at h; simp [h]
    | cons b r =>
      have : (b :: r).getLast? = some x := by simpa [List.getLast?_cons_cons] using h
      have := ih this
      simp only [List.dropLast_cons_cons, List.cons_append]
      rw [← this]

/-- a flush moves units from the buffer to the transcoder, nothing else -/
theorem StreamSt.flush_all (k : StreamCfg) (hold : Bool) (s : StreamSt) : (s.flush k hold).all = s.all := by
  unfold StreamSt.flush
  cases hl : s.buf.getLast? with
  | none => rfl
  | some last =>
    have hb := buf_split s.buf last hl
    simp only
    split
    · by_cases hz : s.buf.length - 1 ≠ 0
      · rw [if_pos hz]
        simp only [StreamSt.all, List.flatten_append, List.flatten_cons, List.flatten_nil, List.append_nil,
          List.append_assoc]
        rw [← hb]
      · have : s.buf.dropLast = [] := by
          have : s.buf.dropLast.length = 0 := by simp [List.length_dropLast]; omega
          exact List.eq_nil_of_length_eq_zero this
        rw [if_neg hz]
        simp only [StreamSt.all]
        rw [hb, this]; simp
    · simp [StreamSt.all]

theorem StreamSt.write_all (k : StreamCfg) (hg : k.guard = true) (s : StreamSt) (us : List Nat) :
    (s.write k us).all = s.all ++ us := by
  have h1 : (s.pre k us).all = s.all := by
    unfold StreamSt.pre
    split
    · exact StreamSt.flush_all k true s
    · rfl
  unfold StreamSt.write StreamSt.core
  generalize s.pre k us = s1 at h1 ⊢
  split
  · rename_i hc
    have he := hc.2.1 hg
    simp only [StreamSt.all, List.flatten_append, List.flatten_cons, List.flatten_nil, List.append_nil] at h1 ⊢
    rw [he] at h1 ⊢
    simp only [List.append_nil] at h1 ⊢
    rw [h1]
  · split
    · rw [StreamSt.flush_all]
      simp only [StreamSt.all] at h1 ⊢
      rw [← List.append_assoc, h1]
    · simp only [StreamSt.all] at h1 ⊢
      rw [← List.append_assoc, h1]

theorem StreamSt.writes_all (k : StreamCfg) (hg : k.guard = true) (ws : List (List Nat)) (s : StreamSt) :
    (StreamSt.writes k s ws).all = s.all ++ ws.flatten := by
  induction ws generalizing s with
  | nil => simp [StreamSt.writes]
  | cons us rest ih => simp only [StreamSt.writes, ih, StreamSt.write_all k hg, List.flatten_cons, List.append_assoc]

/-- a final `flush()` leaves nothing behind when the hold-back respects its flag -/
theorem StreamSt.flush_false_buf (k : StreamCfg) (hh : ∀ a l n c, k.hb false a l n c = false) (s : StreamSt) :
    (s.flush k false).buf = [] := by
  unfold StreamSt.flush
  cases hl : s.buf.getLast? with
  | none =>
    cases hb : s.buf with
    | nil => simp [hb]
    | cons a t => simp [hb] at hl
  | some last => simp [hh]

/-- transparency of the stream layer with hold-back: the transcoder calls concatenate to the runs written, in order -/
theorem streamRun_flatten (k : StreamCfg) (hg : k.guard = true) (hh : ∀ a l n c, k.hb false a l n c = false)
    (ws : List (List Nat)) : (streamRun k ws).flatten = ws.flatten := by
  unfold streamRun
  have h1 := StreamSt.flush_all k false (StreamSt.writes k ⟨[], []⟩ ws)
  rw [StreamSt.writes_all k hg] at h1
  simp only [StreamSt.all, StreamSt.flush_false_buf k hh, List.append_nil, List.flatten_nil, List.nil_append] at h1
  exact h1

/-! ### no transcoder call gets half a pair -/

def isTrailUnit (u : Nat) : Bool := decide (0xDC00 ≤ u) && decide (u ≤ 0xDFFF)

/-- the last unit is not a leading surrogate -/
def endOk (l : List Nat) : Bool := !((l.getLast?.map isLeadUnit).getD false)
/-- the first unit is not a trailing surrogate -/
def startOk (l : List Nat) : Bool := !((l.head?.map isTrailUnit).getD false)

/-- no leading surrogate directly followed by another one -/
def noAdj : List Nat → Bool
  | a :: b :: r => !(isLeadUnit a && isLeadUnit b) && noAdj (b :: r)
  | _ => true

/-- every trailing surrogate directly follows a leading one (`p`: the unit in front of the list is a leading one) -/
def okTrail : Bool → List Nat → Bool
  | _, [] => true
  | p, u :: r => (!isTrailUnit u || p) && okTrail (isLeadUnit u) r

theorem noAdj_append_left (a b : List Nat) (h : noAdj (a ++ b) = true) : noAdj a = true := by
  induction a with
  | nil => rfl
  | cons x t ih =>
    cases t with
    | nil => rfl
    | cons y r =>
      simp only [List.cons_append, noAdj, Bool.and_eq_true] at h ⊢
      exact ⟨h.1, ih h.2⟩

theorem noAdj_last_two (d : List Nat) (x y : Nat) (h : noAdj (d ++ [x, y]) = true) : (isLeadUnit x && isLeadUnit y) = false := by
  induction d with
  | nil => simp only [List.nil_append, noAdj, Bool.and_eq_true, Bool.not_eq_true'] at h; exact h.1
  | cons a t ih =>
    cases t with
    | nil => simp only [List.cons_append, List.nil_append, noAdj, Bool.and_eq_true] at h; exact ih (by simpa [noAdj] using h.2)
    | cons b r => simp only [List.cons_append, noAdj, Bool.and_eq_true] at h; exact ih h.2

theorem endOk_append_single (d : List Nat) (x : Nat) : endOk (d ++ [x]) = !isLeadUnit x := by
  simp [endOk]

/-- invariant: every chunk handed over so far is non-empty and does not end with a leading surrogate -/
def ChunksOk (cs : List (List Nat)) : Prop := ∀ c ∈ cs, c ≠ [] ∧ endOk c = true

theorem ChunksOk.snoc {cs : List (List Nat)} (h : ChunksOk cs) (c : List Nat) (h1 : c ≠ []) (h2 : endOk c = true) :
    ChunksOk (cs ++ [c]) := by
  intro x hx
  rcases List.mem_append.mp hx with hx | hx
  · exact h x hx
  · simp at hx; subst hx; exact ⟨h1, h2⟩

/-- a holding flush (intended condition, transcoder in use) keeps the invariant when no two leading surrogates are adjacent -/
theorem StreamSt.flush_true_ok (cap : Nat) (s : StreamSt) (hc : ChunksOk s.chunks) (hn : noAdj s.buf = true) :
    ChunksOk (s.flush (StreamCfg.intended cap false) true).chunks := by
  unfold StreamSt.flush
  cases hl : s.buf.getLast? with
  | none => exact hc
  | some last =>
    have hb := buf_split s.buf last hl
    simp only [StreamCfg.intended, holdIntended, Bool.true_and, Bool.not_false]
    cases hlead : isLeadUnit last with
    | false =>
      simp only [Bool.false_eq_true, ↓reduceIte]
      refine hc.snoc _ (by rw [hb]; simp) ?_
      rw [hb, endOk_append_single, hlead]; rfl
    | true =>
      simp only [↓reduceIte]
      by_cases hz : s.buf.length - 1 ≠ 0
      · rw [if_pos hz]
        have hne : s.buf.dropLast ≠ [] := by
          intro e; have := congrArg List.length e; simp [List.length_dropLast] at this; omega
        obtain ⟨x, hx⟩ : ∃ x, s.buf.dropLast.getLast? = some x := by
          cases hd : s.buf.dropLast.getLast? with
          | none => exact absurd (List.getLast?_eq_none_iff.mp hd) hne
          | some x => exact ⟨x, rfl⟩
        have hd := buf_split _ x hx
        refine hc.snoc _ hne ?_
        have h2 : noAdj (s.buf.dropLast.dropLast ++ [x, last]) = true := by
          have : s.buf = s.buf.dropLast.dropLast ++ [x, last] := by
            conv => lhs; rw [hb, hd]
            simp
          rw [← this]; exact hn
        have := noAdj_last_two _ _ _ h2
        rw [hlead, Bool.and_true] at this
        rw [hd, endOk_append_single, this]; rfl
      · rw [if_neg hz]; exact hc

theorem noAdj_append_right (a b : List Nat) (h : noAdj (a ++ b) = true) : noAdj b = true := by
  induction a with
  | nil => exact h
  | cons x t ih =>
    cases t with
    | nil =>
      cases b with
      | nil => rfl
      | cons y r => simp only [List.cons_append, List.nil_append, noAdj, Bool.and_eq_true] at h; exact h.2
    | cons y r => simp only [List.cons_append, noAdj, Bool.and_eq_true] at h; exact ih h.2

theorem StreamSt.flush_suffix (k : StreamCfg) (hold : Bool) (s : StreamSt) : ∃ d, s.buf = d ++ (s.flush k hold).buf := by
  unfold StreamSt.flush
  cases hl : s.buf.getLast? with
  | none => exact ⟨[], rfl⟩
  | some last =>
    simp only
    split
    · exact ⟨s.buf.dropLast, buf_split s.buf last hl⟩
    · exact ⟨s.buf, by simp⟩

theorem endOk_suffix (d b : List Nat) (h : b ≠ []) : endOk (d ++ b) = endOk b := by
  simp [endOk, List.getLast?_append, h]
  cases hb : b.getLast? with
  | none => exact absurd (List.getLast?_eq_none_iff.mp hb) h
  | some x => simp

theorem StreamSt.write_ok (cap : Nat) (s : StreamSt) (us : List Nat) (hc : ChunksOk s.chunks)
    (hn : noAdj (s.buf ++ us) = true) :
    ChunksOk (s.write (StreamCfg.intended cap false) us).chunks ∧
      ∃ d, s.buf ++ us = d ++ (s.write (StreamCfg.intended cap false) us).buf := by
  have hs1 : ChunksOk (s.pre (StreamCfg.intended cap false) us).chunks ∧
      ∃ d, s.buf = d ++ (s.pre (StreamCfg.intended cap false) us).buf := by
    unfold StreamSt.pre
    split
    · exact ⟨StreamSt.flush_true_ok cap s hc (noAdj_append_left _ _ hn), StreamSt.flush_suffix _ true s⟩
    · exact ⟨hc, [], rfl⟩
  unfold StreamSt.write StreamSt.core
  generalize s.pre (StreamCfg.intended cap false) us = s1 at hs1 ⊢
  obtain ⟨hc1, d1, hd1⟩ := hs1
  have hn1 : noAdj (s1.buf ++ us) = true := by
    rw [hd1, List.append_assoc] at hn; exact noAdj_append_right _ _ hn
  split
  · rename_i hcond
    have hemp := hcond.2.1 rfl
    have hend : endOk us = true := by
      rcases hcond.2.2 with h | h
      · cases h
      · simp [endOk, h]
    have hne : us ≠ [] := by intro e; subst e; simp at hcond
    refine ⟨hc1.snoc us hne hend, d1 ++ us, ?_⟩
    simp only [hd1, hemp, List.append_nil]
  · split
    · refine ⟨StreamSt.flush_true_ok cap ⟨s1.chunks, s1.buf ++ us⟩ hc1 hn1, ?_⟩
      obtain ⟨d2, hd2⟩ := StreamSt.flush_suffix (StreamCfg.intended cap false) true ⟨s1.chunks, s1.buf ++ us⟩
      simp only at hd2
      refine ⟨d1 ++ d2, ?_⟩
      calc s.buf ++ us = d1 ++ (s1.buf ++ us) := by rw [hd1, List.append_assoc]
        _ = d1 ++ d2 ++ _ := by rw [List.append_assoc]; exact congrArg (d1 ++ ·) hd2
    · exact ⟨hc1, d1, by rw [hd1, List.append_assoc]⟩

theorem StreamSt.writes_ok (cap : Nat) (ws : List (List Nat)) : ∀ (s : StreamSt), ChunksOk s.chunks →
    noAdj (s.buf ++ ws.flatten) = true →
    ChunksOk (StreamSt.writes (StreamCfg.intended cap false) s ws).chunks ∧
      ∃ d, s.buf ++ ws.flatten = d ++ (StreamSt.writes (StreamCfg.intended cap false) s ws).buf := by
  induction ws with
  | nil => intro s hc _; exact ⟨hc, [], by simp [StreamSt.writes]⟩
  | cons us rest ih =>
    intro s hc hn
    simp only [List.flatten_cons, ← List.append_assoc] at hn
    obtain ⟨hc1, d1, hd1⟩ := StreamSt.write_ok cap s us hc (noAdj_append_left _ _ hn)
    have hn2 : noAdj ((s.write (StreamCfg.intended cap false) us).buf ++ rest.flatten) = true := by
      rw [hd1, List.append_assoc] at hn; exact noAdj_append_right _ _ hn
    obtain ⟨hc2, d2, hd2⟩ := ih _ hc1 hn2
    refine ⟨hc2, d1 ++ d2, ?_⟩
    simp only [StreamSt.writes, List.flatten_cons]
    rw [← List.append_assoc, hd1, List.append_assoc, hd2, List.append_assoc]

/-- every transcoder call is non-empty and does not end with a leading surrogate -/
theorem streamRun_chunks_ok (cap : Nat) (ws : List (List Nat)) (hn : noAdj ws.flatten = true) (he : endOk ws.flatten = true) :
    ChunksOk (streamRun (StreamCfg.intended cap false) ws) := by
  unfold streamRun
  obtain ⟨hc, d, hd⟩ := StreamSt.writes_ok cap ws ⟨[], []⟩ (by intro c hc; simp at hc) (by simpa using hn)
  simp only [List.nil_append] at hd
  generalize StreamSt.writes (StreamCfg.intended cap false) ⟨[], []⟩ ws = s at hc hd ⊢
  unfold StreamSt.flush
  cases hl : s.buf.getLast? with
  | none => exact hc
  | some last =>
    simp only [StreamCfg.intended, holdIntended, Bool.false_and, Bool.false_eq_true, ↓reduceIte]
    have hne : s.buf ≠ [] := by intro e; rw [e] at hl; simp at hl
    refine hc.snoc _ hne ?_
    rw [hd, endOk_suffix _ _ hne] at he; exact he

/-- the lead-ness of the last unit of `a` (of the unit in front when `a` is empty) -/
def lastLead (p : Bool) (a : List Nat) : Bool :=
  match a.getLast? with
  | none => p
  | some x => isLeadUnit x

theorem okTrail_append (p : Bool) (a b : List Nat) :
    okTrail p (a ++ b) = (okTrail p a && okTrail (lastLead p a) b) := by
  induction a generalizing p with
  | nil => simp [okTrail, lastLead]
  | cons u t ih =>
    simp only [List.cons_append, okTrail, ih, Bool.and_assoc]
    congr 2
    cases t with
    | nil => simp [lastLead]
    | cons v r =>
      simp only [lastLead, List.getLast?_cons_cons]
      cases hg : (v :: r).getLast? with
      | none => simp at hg
      | some x => rfl

theorem chunks_start_ok (cs : List (List Nat)) (hc : ChunksOk cs) :
    ∀ p, okTrail p cs.flatten = true → p = false → ∀ c ∈ cs, startOk c = true := by
  induction cs with
  | nil => intro p _ _ c hc; simp at hc
  | cons c0 rest ih =>
    intro p hok hp c hmem
    obtain ⟨hne, hend⟩ := hc c0 (by simp)
    simp only [List.flatten_cons, okTrail_append, Bool.and_eq_true] at hok
    have hl : lastLead p c0 = false := by
      unfold lastLead
      cases hg : c0.getLast? with
      | none => exact absurd (List.getLast?_eq_none_iff.mp hg) hne
      | some x => simpa [endOk, hg] using hend
    rcases List.mem_cons.mp hmem with h | h
    · subst h
      cases c with
      | nil => rfl
      | cons u t =>
        have := hok.1
        simp only [okTrail, Bool.and_eq_true, Bool.or_eq_true, Bool.not_eq_true'] at this
        rcases this.1 with h1 | h1
        · simp [startOk, h1]
        · rw [hp] at h1; cases h1
    · exact ih (fun x hx => hc x (by simp [hx])) (lastLead p c0) hok.2 hl c h

end XalanModel.C04
