import XalanModel.C04.Model
/-!
# C04 — the raw-text marker (`m_nextIsRaw`)

`XalanXMLSerializerBase::processingInstruction` swallows the PI `FormatterListener::s_piTarget / s_piData` and sets
`m_nextIsRaw`; the next non-empty `characters()` or `cdata()` event is then handed to `charactersRaw` (written without
escaping) and the flag is cleared.  Everything else of the serializer is independent of the flag, so it is modelled as
a pass over the event sequence in front of `stepEvent`: `resolveRaw`.  Whether `characters()` / `cdata()` clear the flag
is read from the source (`RawCfg.generated`).  Core Lean only.
-/
namespace XalanModel.C04
open XalanModel.Generated.C04

def isRawMarker (t d : List Nat) : Bool := t == rawMarkerTarget && d == rawMarkerData

structure RawCfg where
  resetChars : Bool     -- `characters()`: `m_nextIsRaw = false` before `charactersRaw`
  resetCData : Bool     -- `cdata()`: the same
  deriving DecidableEq, Repr

def RawCfg.generated : RawCfg := ⟨rawResetCharacters, rawResetCData⟩
def RawCfg.intended : RawCfg := ⟨true, true⟩

def Event.isMarker : Event → Bool
  | .pi t d => isRawMarker t d
  | _ => false

/-- the events as the serializer acts on them; the flag is `m_nextIsRaw` -/
def resolveRaw (k : RawCfg) : Bool → List Event → List Event
  | _, [] => []
  | f, .pi t d :: rest =>
    if isRawMarker t d then resolveRaw k true rest else .pi t d :: resolveRaw k f rest
  | f, .characters buf len :: rest =>
    if len = 0 then .characters buf len :: resolveRaw k f rest
    else if f then .charactersRaw (buf.take len) :: resolveRaw k (!k.resetChars) rest
    else .characters buf len :: resolveRaw k false rest
  | f, .cdata buf len :: rest =>
    if len = 0 then .cdata buf len :: resolveRaw k f rest
    else if f then .charactersRaw (buf.take len) :: resolveRaw k (!k.resetCData) rest
    else .cdata buf len :: resolveRaw k false rest
  | f, .startElement n a :: rest => .startElement n a :: resolveRaw k f rest
  | f, .endElement n :: rest => .endElement n :: resolveRaw k f rest
  | f, .charactersRaw s :: rest => .charactersRaw s :: resolveRaw k f rest
  | f, .comment d :: rest => .comment d :: resolveRaw k f rest

/-- without a marker nothing is raw, whatever the flags -/
theorem resolveRaw_no_marker (k : RawCfg) (evs : List Event) (h : ∀ ev ∈ evs, ev.isMarker = false) :
    resolveRaw k false evs = evs := by
  induction evs with
  | nil => rfl
  | cons ev rest ih =>
    have hr := ih (fun e he => h e (by simp [he]))
    have h0 := h ev (by simp)
    cases ev with
    | pi t d => simp only [Event.isMarker] at h0; simp [resolveRaw, h0, hr]
    | characters buf len => by_cases hl : len = 0 <;> simp [resolveRaw, hl, hr]
    | cdata buf len => by_cases hl : len = 0 <;> simp [resolveRaw, hl, hr]
    | startElement n a => simp [resolveRaw, hr]
    | endElement n => simp [resolveRaw, hr]
    | charactersRaw s => simp [resolveRaw, hr]
    | comment d => simp [resolveRaw, hr]

/-- the flag is used once: with the resets in place, after any non-empty text event (raw or not) the flag is clear,
so every later text event that is not itself preceded by a marker is escaped as usual -/
theorem resolveRaw_text_clears (f : Bool) (buf : List Nat) (len : Nat) (hl : len ≠ 0) (rest : List Event)
    (h : ∀ ev ∈ rest, ev.isMarker = false) :
    resolveRaw RawCfg.intended f (.characters buf len :: rest) =
      (if f then .charactersRaw (buf.take len) else .characters buf len) :: rest ∧
    resolveRaw RawCfg.intended f (.cdata buf len :: rest) =
      (if f then .charactersRaw (buf.take len) else .cdata buf len) :: rest := by
  have hr : resolveRaw ⟨true, true⟩ false rest = rest := resolveRaw_no_marker _ rest h
  cases f <;> simp [resolveRaw, hl, RawCfg.intended, hr]

end XalanModel.C04
