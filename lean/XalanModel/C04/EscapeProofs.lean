import XalanModel.C04.Model
import XalanModel.C04.Spec
import XalanModel.C04.BufferProofs
import XalanModel.C04.EncodingProofs
import XalanModel.C04.ReaderProofs
namespace XalanModel.C04
open Spec XalanModel.Generated.C04

/-! ## equations of the escaping loop -/

section loop
variable (ver : Ver) (e : Enc) (sp : Nat → Bool) (esc : Nat → Out)

theorem escLoop_nil (sk : Bool) (pend : List Nat) :
    escLoop ver e sp esc [] sk pend = .ok (safeWrite e pend) := by
  cases sk <;> rfl

theorem escLoop_skip (c : Nat) (rest pend : List Nat) :
    escLoop ver e sp esc (c :: rest) true pend = escLoop ver e sp esc rest false pend := rfl

theorem escLoop_range (c : Nat) (rest pend : List Nat) (it b : List Item) (two : Bool)
    (h : pRange ver c = true) (hw : writeNormalizedCharBig ver e c rest = .ok (it, two))
    (hb : escLoop ver e sp esc rest two [] = .ok b) :
    escLoop ver e sp esc (c :: rest) false pend = .ok (safeWrite e pend ++ it ++ b) := by
  unfold escLoop
  simp only [h, ↓reduceIte, hw, bind, Except.bind, hb, pure, Except.pure]

theorem escLoop_plain (c : Nat) (rest pend : List Nat)
    (h : pRange ver c = false) (h2 : sp c = false) :
    escLoop ver e sp esc (c :: rest) false pend = escLoop ver e sp esc rest false (pend ++ [c]) := by
  conv => lhs; unfold escLoop
  simp only [h, h2, ↓reduceIte, Bool.false_eq_true]

theorem escLoop_special (c : Nat) (rest pend : List Nat) (it b : List Item)
    (h : pRange ver c = false) (h2 : sp c = true) (he : esc c = .ok it)
    (hb : escLoop ver e sp esc rest false [] = .ok b) :
    escLoop ver e sp esc (c :: rest) false pend = .ok (safeWrite e pend ++ it ++ b) := by
  unfold escLoop
  simp only [h, h2, ↓reduceIte, Bool.false_eq_true, Bool.true_eq_false, he, bind, Except.bind, hb, pure, Except.pure]

end loop


/-! ## decode ∘ encode on whole character sequences -/

theorem legal_scalar (ver : Ver) (c : Nat) (h : legalChar ver c = true) : IsScalar c := by
  cases ver <;> simp [legalChar] at h <;> unfold IsScalar <;> omega

theorem utf8Scalar_units (c : Nat) (h : IsScalar c) :
    ∃ it, utf8Scalar c = .ok it ∧ unitsOf it = utf8EncodeOne c := by
  obtain ⟨h1, _⟩ := h
  unfold utf8Scalar utf8EncodeOne
  by_cases a : c ≤ 0x7F
  · exact ⟨_, by rw [if_pos a], by rw [if_pos a]; rfl⟩
  · by_cases b : c ≤ 0x7FF
    · exact ⟨_, by rw [if_neg a, if_pos b], by rw [if_neg a, if_pos b]; rfl⟩
    · by_cases d : c ≤ 0xFFFF
      · exact ⟨_, by rw [if_neg a, if_neg b, if_pos d], by rw [if_neg a, if_neg b, if_pos d]; rfl⟩
      · exact ⟨_, by rw [if_neg a, if_neg b, if_neg d, if_pos h1], by rw [if_neg a, if_neg b, if_neg d]; rfl⟩

theorem utf8Decode_encode (out : List Nat) (h : ∀ c ∈ out, IsScalar c) :
    utf8Decode (out.flatMap utf8EncodeOne) = some out := by
  suffices H : ∀ f, (out.flatMap utf8EncodeOne).length ≤ f → utf8DecodeF f (out.flatMap utf8EncodeOne) = some out from
    H _ (Nat.le_refl _)
  induction out with
  | nil => intro f _; cases f <;> rfl
  | cons c cs ih =>
    intro f hf
    have hc := h c (by simp)
    obtain ⟨it, hit, hu⟩ := utf8Scalar_units c hc
    obtain ⟨it', hit', hlen, hone⟩ := utf8Scalar_ok c hc
    have : it' = it := by rw [hit] at hit'; injection hit' with e; exact e.symm
    subst this
    rw [hu] at hlen hone
    simp only [List.flatMap_cons] at hf ⊢
    rw [List.length_append] at hf
    cases f with
    | zero => omega
    | succ f =>
      rw [utf8DecodeF_cons c _ _ f hlen (hone _), ih (fun x hx => h x (by simp [hx])) f (by omega)]
      rfl

theorem utf16DecodeOne_encode (c : Nat) (rest : List Nat) (h : IsScalar c) :
    1 ≤ (utf16EncodeOne c).length ∧ utf16DecodeOne (utf16EncodeOne c ++ rest) = some (c, rest) := by
  obtain ⟨h1, h2⟩ := h
  unfold utf16EncodeOne
  by_cases a : c < 0x10000
  · rw [if_pos a]
    refine ⟨by simp, ?_⟩
    simp only [List.cons_append, List.nil_append, utf16DecodeOne]
    rw [if_pos (by omega), if_pos (by omega)]
  · rw [if_neg a]
    refine ⟨by simp, ?_⟩
    simp only [List.cons_append, List.nil_append, utf16DecodeOne]
    have e1 : ¬ (0xD800 + (c - 0x10000) / 1024 < 0xD800 ∨ 0xDFFF < 0xD800 + (c - 0x10000) / 1024) := by omega
    have e2 : 0xD800 + (c - 0x10000) / 1024 ≤ 0xDBFF := by omega
    have e3 : 0xDC00 ≤ 0xDC00 + (c - 0x10000) % 1024 ∧ 0xDC00 + (c - 0x10000) % 1024 ≤ 0xDFFF := by omega
    have e4 : 0x10000 + (0xD800 + (c - 0x10000) / 1024 - 0xD800) * 1024 + (0xDC00 + (c - 0x10000) % 1024 - 0xDC00) = c := by omega
    rw [if_neg e1, if_pos e2, if_pos e3, e4]

theorem utf16DecodeF_cons (c : Nat) (bs rest : List Nat) (f : Nat) (h1 : 1 ≤ bs.length)
    (hd : utf16DecodeOne (bs ++ rest) = some (c, rest)) :
    utf16DecodeF (f + 1) (bs ++ rest) = (utf16DecodeF f rest).map (c :: ·) := by
  cases bs with
  | nil => simp at h1
  | cons b t =>
    simp only [List.cons_append] at hd ⊢
    simp only [utf16DecodeF, hd]

theorem utf16Decode_encode (out : List Nat) (h : ∀ c ∈ out, IsScalar c) :
    utf16Decode (out.flatMap utf16EncodeOne) = some out := by
  suffices H : ∀ f, (out.flatMap utf16EncodeOne).length ≤ f → utf16DecodeF f (out.flatMap utf16EncodeOne) = some out from
    H _ (Nat.le_refl _)
  induction out with
  | nil => intro f _; cases f <;> rfl
  | cons c cs ih =>
    intro f hf
    obtain ⟨hlen, hone⟩ := utf16DecodeOne_encode c (cs.flatMap utf16EncodeOne) (h c (by simp))
    simp only [List.flatMap_cons] at hf ⊢
    rw [List.length_append] at hf
    cases f with
    | zero => omega
    | succ f =>
      rw [utf16DecodeF_cons c _ _ f hlen hone, ih (fun x hx => h x (by simp [hx])) f (by omega)]
      rfl

theorem decodeOut_encodeOut (k : WK) (out : List Nat) (h : ∀ c ∈ out, IsScalar c) :
    decodeOut k (encodeOut k out) = some out := by
  cases k
  · exact utf8Decode_encode out h
  · exact utf16Decode_encode out h
  · exact utf16Decode_encode out h


/-! ## the writers' primitives on ASCII -/

/-- every ASCII character is representable in the output encoding (true of every encoding ICU offers
that can hold an XML declaration; instantiated for ISO-8859-1 and US-ASCII in the driver) -/
def AsciiOk (e : Enc) : Prop := ∀ c, c < 128 → e.canEnc c = true

def Ascii (l : List Nat) : Prop := ∀ u ∈ l, u < 128

/-- the representability predicate that matters for a writer (UTF-8/UTF-16 represent everything) -/
def canEncOf (e : Enc) : Nat → Bool :=
  match e.kind with
  | .other => e.canEnc
  | _ => fun _ => true

theorem wChar_ascii (e : Enc) (ha : AsciiOk e) (u : Nat) (h : u < 128) : unitsOf (wChar e u) = [u] := by
  unfold wChar
  cases hk : e.kind with
  | utf8 => simp [unitsOf, Item.units]; omega
  | utf16 => simp [unitsOf, Item.units]
  | other => simp [otherChar, ha u h, unitsOf, Item.units]

theorem flatMap_wChar_ascii (e : Enc) (ha : AsciiOk e) (l : List Nat) (h : Ascii l) :
    unitsOf (l.flatMap (wChar e)) = l := by
  induction l with
  | nil => rfl
  | cons u t ih =>
    rw [List.flatMap_cons, unitsOf_append, wChar_ascii e ha u (h u (by simp)), ih (fun x hx => h x (by simp [hx]))]
    rfl

theorem safeWrite_ascii (e : Enc) (ha : AsciiOk e) (l : List Nat) (h : Ascii l) :
    unitsOf (safeWrite e l) = l := flatMap_wChar_ascii e ha l h

theorem flatMap_otherChar_ascii (e : Enc) (ha : AsciiOk e) (l : List Nat) (h : Ascii l) :
    unitsOf (l.flatMap (otherChar e)) = l := by
  induction l with
  | nil => rfl
  | cons u t ih =>
    rw [List.flatMap_cons, unitsOf_append, ih (fun x hx => h x (by simp [hx]))]
    simp [otherChar, ha u (h u (by simp)), unitsOf, Item.units]

theorem wConst_ascii (e : Enc) (ha : AsciiOk e) (l : List Nat) (h : Ascii l) : unitsOf (wConst e l) = l := by
  unfold wConst
  cases hk : e.kind with
  | utf8 => simp [unitsOf, Item.units]
  | utf16 => simp [unitsOf, Item.units]
  | other => exact flatMap_otherChar_ascii e ha l h

theorem utf8Units_ascii (l : List Nat) (h : Ascii l) : ∃ it, utf8Units l = .ok it ∧ unitsOf it = l := by
  induction l with
  | nil => exact ⟨[], rfl, rfl⟩
  | cons u t ih =>
    obtain ⟨b, hb, hbu⟩ := ih (fun x hx => h x (by simp [hx]))
    have hu := h u (by simp)
    have hh : isHigh u = false := by simp [isHigh]; omega
    have hs : utf8Scalar u = .ok [.one u] := by unfold utf8Scalar; rw [if_pos (by omega)]
    refine ⟨[.one u] ++ b, ?_, ?_⟩
    · unfold utf8Units
      simp only [hh, ↓reduceIte, hs, hb, bind, Except.bind, pure, Except.pure]
    · rw [unitsOf_append, hbu]; rfl

theorem otherBulkLoop_ascii (e : Enc) (hk : e.kind = .other) (ha : AsciiOk e) (l : List Nat) (h : Ascii l) :
    ∃ it, otherBulkLoop e l false = .ok it ∧ unitsOf it = l := by
  induction l with
  | nil => exact ⟨[], rfl, rfl⟩
  | cons u t ih =>
    have hu := h u (by simp)
    obtain ⟨b, hb, hbu⟩ := ih (fun x hx => h x (by simp [hx]))
    have hh : isHigh u = false := by simp [isHigh]; omega
    have hw : wCP e false u t = .ok ([.one u], false) := by
      unfold wCP
      simp only [hk, decodeHead, hh, ↓reduceIte, bind, Except.bind, ha u hu, pure, Except.pure, otherScalar]
      have : ¬ u > 0xFFFF := by omega
      simp [this]
    exact ⟨[.one u] ++ b, by simp only [otherBulkLoop, hw, hb, bind, Except.bind, pure, Except.pure], by
      rw [unitsOf_append, hbu]; simp [unitsOf, Item.units]⟩

theorem wStr_ascii (e : Enc) (ha : AsciiOk e) (l : List Nat) (h : Ascii l) :
    ∃ it, wStr e l = .ok it ∧ unitsOf it = l := by
  unfold wStr
  cases hk : e.kind with
  | utf8 => exact utf8Units_ascii l h
  | utf16 => exact ⟨_, rfl, by simp [unitsOf, Item.units]⟩
  | other =>
    cases otherBulkPairAware with
    | false => exact ⟨_, rfl, flatMap_otherChar_ascii e ha l h⟩
    | true => simp only [↓reduceIte]; exact otherBulkLoop_ascii e hk ha l h

theorem decDigits_ascii (v : Nat) : Ascii (decDigits v) := by
  intro u hu
  have := (decDigitsF_spec v v (Nat.le_refl _)).1 u hu
  omega

theorem ncrText_ascii (v : Nat) : Ascii (ncrText v) := by
  intro u hu
  simp only [ncrText, List.mem_append, List.mem_cons, List.mem_nil_iff, or_false] at hu
  rcases hu with (h | h) | h
  · rcases h with h | h <;> omega
  · exact decDigits_ascii v u h
  · omega

theorem fNCR_units (e : Enc) (ha : AsciiOk e) (v : Nat) : ∃ it, fNCR e v = .ok it ∧ unitsOf it = ncrText v := by
  obtain ⟨d, hd, hdu⟩ := wStr_ascii e ha (decDigits v) (decDigits_ascii v)
  refine ⟨wChar e 38 ++ wChar e 35 ++ d ++ wChar e 59, ?_, ?_⟩
  · unfold fNCR
    simp only [hd, bind, Except.bind, pure, Except.pure]
  · simp only [unitsOf_append, wChar_ascii e ha 38 (by omega), wChar_ascii e ha 35 (by omega),
      wChar_ascii e ha 59 (by omega), hdu, ncrText]
    simp

theorem wNewline_units (e : Enc) (ha : AsciiOk e) : ∃ it, wNewline e = .ok it ∧ unitsOf it = [10] :=
  wStr_ascii e ha [10] (by intro u hu; simp at hu; omega)

theorem encodeOut_append (k : WK) (a b : List Nat) : encodeOut k (a ++ b) = encodeOut k a ++ encodeOut k b := by
  cases k <;> simp [encodeOut, List.flatMap_append]

theorem encodeOut_ascii (k : WK) (l : List Nat) (h : Ascii l) : encodeOut k l = l := by
  induction l with
  | nil => cases k <;> rfl
  | cons u t ih =>
    have hu := h u (by simp)
    have := ih (fun x hx => h x (by simp [hx]))
    have h8 : utf8EncodeOne u = [u] := by unfold utf8EncodeOne; rw [if_pos (by omega)]
    have h16 : utf16EncodeOne u = [u] := by unfold utf16EncodeOne; rw [if_pos (by omega)]
    cases k
    · simp only [encodeOut, List.flatMap_cons] at this ⊢
      rw [this, h8]; rfl
    · simp only [encodeOut, List.flatMap_cons] at this ⊢
      rw [this, h16]; rfl
    · simp only [encodeOut, List.flatMap_cons] at this ⊢
      rw [this, h16]; rfl

/-! ## entity strings of the source = the predefined entities the reader knows -/

theorem entity_strings (e : Enc) :
    ltEnt e = [38, 108, 116, 59] ∧ gtEnt e = [38, 103, 116, 59] ∧ ampEnt e = [38, 97, 109, 112, 59] ∧
    quotEnt e = [38, 113, 117, 111, 116, 59] := by
  unfold ltEnt gtEnt ampEnt quotEnt
  cases e.kind <;> decide

/-! ## the special-character escapes agree with the character-level escaping -/

theorem table_plain_ascii : ∀ ver ∈ [Ver.v10, Ver.v11], ∀ attr ∈ [true, false], ∀ c ∈ List.range 160,
    c ≤ lastSpecial ver → (if attr then pAttribute ver c else pContent ver c) = false →
    legalChar ver c = true → decide (c < 128) = true := by
  decide +kernel

theorem ascii4 (a b c d : Nat) (h : a < 128 ∧ b < 128 ∧ c < 128 ∧ d < 128) : Ascii [a, b, c, d] := by
  intro u hu; simp at hu; omega
theorem ascii5 (a b c d f : Nat) (h : a < 128 ∧ b < 128 ∧ c < 128 ∧ d < 128 ∧ f < 128) : Ascii [a, b, c, d, f] := by
  intro u hu; simp at hu; omega
theorem ascii6 (a b c d f g : Nat) (h : a < 128 ∧ b < 128 ∧ c < 128 ∧ d < 128 ∧ f < 128 ∧ g < 128) :
    Ascii [a, b, c, d, f, g] := by
  intro u hu; simp at hu; omega

theorem escape_content (ver : Ver) (e : Enc) (ha : AsciiOk e) (c : Nat)
    (hle : c ≤ lastSpecial ver) (hsp : pContent ver c = true) (hl : legalChar ver c = true) :
    ∃ it x, writeDefaultEscape ver e c = .ok it ∧ absEsc ver (canEncOf e) false c = .ok x ∧
      unitsOf it = x ∧ Ascii x := by
  have hver : ver ∈ [Ver.v10, Ver.v11] := by cases ver <;> simp
  have hc160 : c ∈ List.range 160 := by have := lastSpecial_lt ver; simp; omega
  obtain ⟨e1, e2, e3, e4⟩ := entity_strings e
  have hnf : pForbidden ver c = false := by
    cases hf : pForbidden ver c with
    | false => rfl
    | true => have := table_forbidden ver hver c hc160 hle hf; rw [hl] at this; cases this
  have hgt : ¬ (c > lastSpecial ver) := by omega
  unfold writeDefaultEscape defaultEntity absEsc
  by_cases h60 : c = 60
  · subst h60
    simp only [hgt, hsp, ↓reduceIte, Bool.false_eq_true, Bool.true_eq_false]
    exact ⟨_, _, rfl, rfl, by rw [e1]; exact wConst_ascii e ha _ (ascii4 _ _ _ _ (by omega)), ascii4 _ _ _ _ (by omega)⟩
  · by_cases h62 : c = 62
    · subst h62
      simp only [hgt, hsp, ↓reduceIte, Bool.false_eq_true, Bool.true_eq_false, reduceCtorEq, Nat.reduceEqDiff]
      exact ⟨_, _, rfl, rfl, by rw [e2]; exact wConst_ascii e ha _ (ascii4 _ _ _ _ (by omega)), ascii4 _ _ _ _ (by omega)⟩
    · by_cases h38 : c = 38
      · subst h38
        simp only [hgt, hsp, ↓reduceIte, Bool.false_eq_true, Bool.true_eq_false, reduceCtorEq, Nat.reduceEqDiff]
        exact ⟨_, _, rfl, rfl, by rw [e3]; exact wConst_ascii e ha _ (ascii5 _ _ _ _ _ (by omega)), ascii5 _ _ _ _ _ (by omega)⟩
      · by_cases h10 : c = 10
        · subst h10
          obtain ⟨it, hit, hu⟩ := wNewline_units e ha
          simp only [hgt, hsp, ↓reduceIte, Bool.false_eq_true, Bool.true_eq_false, reduceCtorEq, Nat.reduceEqDiff,
            false_and, and_self, hit]
          exact ⟨it, _, rfl, rfl, hu, by intro u hu; simp at hu; omega⟩
        · obtain ⟨it, hit, hu⟩ := fNCR_units e ha c
          simp only [hgt, hsp, h60, h62, h38, h10, hnf, ↓reduceIte, Bool.false_eq_true, Bool.true_eq_false,
            false_and, and_false, hit]
          exact ⟨it, _, rfl, rfl, hu, ncrText_ascii c⟩

theorem escape_attr (ver : Ver) (e : Enc) (ha : AsciiOk e) (c : Nat)
    (hle : c ≤ lastSpecial ver) (hsp : pAttribute ver c = true) (hl : legalChar ver c = true) :
    ∃ it x, writeDefaultAttributeEscape ver e c = .ok it ∧ absEsc ver (canEncOf e) true c = .ok x ∧
      unitsOf it = x ∧ Ascii x := by
  have hver : ver ∈ [Ver.v10, Ver.v11] := by cases ver <;> simp
  have hc160 : c ∈ List.range 160 := by have := lastSpecial_lt ver; simp; omega
  obtain ⟨e1, e2, e3, e4⟩ := entity_strings e
  have hnf : pForbidden ver c = false := by
    cases hf : pForbidden ver c with
    | false => rfl
    | true => have := table_forbidden ver hver c hc160 hle hf; rw [hl] at this; cases this
  have hgt : ¬ (c > lastSpecial ver) := by omega
  unfold writeDefaultAttributeEscape defaultAttrEntity defaultEntity absEsc
  by_cases h60 : c = 60
  · subst h60
    simp only [hgt, hsp, ↓reduceIte, Bool.false_eq_true, Bool.true_eq_false]
    exact ⟨_, _, rfl, rfl, by rw [e1]; exact wConst_ascii e ha _ (ascii4 _ _ _ _ (by omega)), ascii4 _ _ _ _ (by omega)⟩
  · by_cases h62 : c = 62
    · subst h62
      simp only [hgt, hsp, ↓reduceIte, Bool.false_eq_true, Bool.true_eq_false, reduceCtorEq, Nat.reduceEqDiff]
      exact ⟨_, _, rfl, rfl, by rw [e2]; exact wConst_ascii e ha _ (ascii4 _ _ _ _ (by omega)), ascii4 _ _ _ _ (by omega)⟩
    · by_cases h38 : c = 38
      · subst h38
        simp only [hgt, hsp, ↓reduceIte, Bool.false_eq_true, Bool.true_eq_false, reduceCtorEq, Nat.reduceEqDiff]
        exact ⟨_, _, rfl, rfl, by rw [e3]; exact wConst_ascii e ha _ (ascii5 _ _ _ _ _ (by omega)), ascii5 _ _ _ _ _ (by omega)⟩
      · by_cases h34 : c = 34
        · subst h34
          simp only [hgt, hsp, ↓reduceIte, Bool.false_eq_true, Bool.true_eq_false, reduceCtorEq, Nat.reduceEqDiff,
            and_self]
          exact ⟨_, _, rfl, rfl, by rw [e4]; exact wConst_ascii e ha _ (ascii6 _ _ _ _ _ _ (by omega)), ascii6 _ _ _ _ _ _ (by omega)⟩
        · obtain ⟨it, hit, hu⟩ := fNCR_units e ha c
          simp only [hgt, hsp, h60, h62, h38, h34, hnf, ↓reduceIte, Bool.false_eq_true, Bool.true_eq_false,
            false_and, and_false, hit, reduceCtorEq]
          exact ⟨it, _, rfl, rfl, hu, ncrText_ascii c⟩


/-! ## code points through the three writers -/

theorem notCharCheck_ok (e : Enc) (c : Nat) (h1 : isLow c = false) (h2 : c ≠ 0) (h3 : c < 0xFFFE) :
    notCharCheck e c = .ok () := by
  unfold notCharCheck
  have h4 : ¬ (c = 0 ∨ c ≥ 0xFFFE) := by omega
  cases e.fx.rejectNonChar <;> simp [h1, h4]

theorem wNCB_ncr (ver : Ver) (e : Enc) (c : Nat) (rest : List Nat) (it : List Item)
    (hok : notCharCheck e c = .ok ())
    (h : ver = .v11 ∧ c = 0x2028) (hit : fNCR e c = .ok it) :
    writeNormalizedCharBig ver e c rest = .ok (it, false) := by
  unfold writeNormalizedCharBig
  simp only [hok, bind, Except.bind]
  rw [if_pos h]
  simp only [hit, pure, Except.pure]

theorem wNCB_cp (ver : Ver) (e : Enc) (c : Nat) (rest : List Nat) (hok : notCharCheck e c = .ok ())
    (h : ¬ (ver = .v11 ∧ c = 0x2028)) :
    writeNormalizedCharBig ver e c rest = wCP e false c rest := by
  unfold writeNormalizedCharBig
  simp only [hok, bind, Except.bind]
  rw [if_neg h]

theorem encodeOut_single (k : WK) (c : Nat) :
    encodeOut k [c] = (match k with | .utf8 => utf8EncodeOne c | _ => utf16EncodeOne c) := by
  cases k <;> simp [encodeOut]

theorem wCP_bmp (e : Enc) (ha : AsciiOk e) (c : Nat) (rest : List Nat) (hs : IsScalar c) (hb : c < 0x10000) :
    ∃ it, wCP e false c rest = .ok (it, false) ∧
      unitsOf it = encodeOut e.kind (if canEncOf e c = true then [c] else ncrText c) := by
  have hd := ((decodeHead_utf16Encode c rest hs).1 hb).2
  have h16 : utf16EncodeOne c = [c] := ((decodeHead_utf16Encode c rest hs).1 hb).1
  unfold wCP canEncOf
  cases hk : e.kind with
  | utf16 =>
    cases hf : e.fx.utf16Pairs with
    | false =>
      simp only [↓reduceIte, Bool.false_eq_true]
      exact ⟨_, rfl, by rw [encodeOut_single]; simp [h16, unitsOf, Item.units]⟩
    | true =>
      simp only [↓reduceIte, hd, bind, Except.bind, pure, Except.pure]
      exact ⟨_, rfl, by rw [encodeOut_single]; simp [h16, unitsOf, Item.units]⟩
  | utf8 =>
    obtain ⟨it, hit, hu⟩ := utf8Scalar_units c hs
    simp only [hd, hit, bind, Except.bind, pure, Except.pure, ↓reduceIte]
    exact ⟨it, rfl, by rw [encodeOut_single]; exact hu⟩
  | other =>
    simp only [hd, bind, Except.bind, pure, Except.pure]
    by_cases hc : e.canEnc c = true
    · simp only [hc, ↓reduceIte]
      refine ⟨_, rfl, ?_⟩
      rw [encodeOut_single]
      have : ¬ (c > 0xFFFF) := by omega
      simp [otherScalar, this, h16, unitsOf, Item.units]
    · simp only [hc, ↓reduceIte, Bool.false_eq_true]
      refine ⟨_, rfl, ?_⟩
      rw [encodeOut_ascii _ _ (ncrText_ascii c)]
      simp [otherNCR, unitsOf, Item.units, ncrText]

theorem wCP_two_utf8 (e : Enc) (hk : e.kind = .utf8) (c hi lo : Nat) (rest : List Nat) (hs : IsScalar c)
    (hd : decodeHead hi (lo :: rest) = .ok (c, true)) :
    ∃ it, wCP e false hi (lo :: rest) = .ok (it, true) ∧ unitsOf it = utf8EncodeOne c := by
  obtain ⟨it, hit, hu⟩ := utf8Scalar_units c hs
  unfold wCP
  simp only [hk, hd, hit, bind, Except.bind, pure, Except.pure]
  exact ⟨it, rfl, hu⟩

theorem wCP_two_utf16 (e : Enc) (hk : e.kind = .utf16) (hf : e.fx.utf16Pairs = true) (c hi lo : Nat) (rest : List Nat)
    (hd : decodeHead hi (lo :: rest) = .ok (c, true)) :
    wCP e false hi (lo :: rest) = .ok ([.one hi, .one lo], true) := by
  unfold wCP
  simp only [hk, hf, ↓reduceIte, hd, bind, Except.bind, pure, Except.pure]

theorem wCP_utf16_unchecked (e : Enc) (hk : e.kind = .utf16) (hf : e.fx.utf16Pairs = false) (c : Nat) (rest : List Nat) :
    wCP e false c rest = .ok ([.one c], false) := by
  unfold wCP
  simp only [hk, hf, ↓reduceIte, Bool.false_eq_true]

theorem wCP_two_other (e : Enc) (hk : e.kind = .other) (c hi lo : Nat) (rest : List Nat) (hgt : c > 0xFFFF)
    (hd : decodeHead hi (lo :: rest) = .ok (c, true))
    (h16 : utf16EncodeOne c = [hi, lo]) (e1 : c / 1024 + 0xD7C0 = hi) (e2 : c % 1024 + 0xDC00 = lo) :
    ∃ it, wCP e false hi (lo :: rest) = .ok (it, true) ∧
      unitsOf it = encodeOut .other (if e.canEnc c = true then [c] else ncrText c) := by
  unfold wCP
  simp only [hk, hd, bind, Except.bind, pure, Except.pure]
  by_cases hc : e.canEnc c = true
  · simp only [hc, ↓reduceIte]
    refine ⟨_, rfl, ?_⟩
    rw [encodeOut_single]
    simp only [otherScalar, hgt, ↓reduceIte, unitsOf, List.flatMap_cons, List.flatMap_nil, Item.units,
      List.append_nil, h16, e1, e2]
  · simp only [hc, ↓reduceIte, Bool.false_eq_true]
    refine ⟨_, rfl, ?_⟩
    rw [encodeOut_ascii _ _ (ncrText_ascii c)]
    simp [otherNCR, unitsOf, Item.units, ncrText]
/-! ## character-level escaping: unfolding lemmas -/

theorem absEsc_range (ver : Ver) (ce : Nat → Bool) (attr : Bool) (c : Nat)
    (h : c > lastSpecial ver) (h28 : ¬ (ver = .v11 ∧ c = 0x2028)) :
    absEsc ver ce attr c = .ok (if ce c = true then [c] else ncrText c) := by
  unfold absEsc
  rw [if_pos h, if_neg h28]
  by_cases hc : ce c = true <;> simp [hc]

theorem absEsc_lsep (ver : Ver) (ce : Nat → Bool) (attr : Bool) (c : Nat) (h28 : ver = .v11 ∧ c = 0x2028) :
    absEsc ver ce attr c = .ok (ncrText c) := by
  unfold absEsc
  obtain ⟨hv, hc⟩ := h28
  subst hv; subst hc
  have : 0x2028 > lastSpecial .v11 := by decide
  rw [if_pos this, if_pos ⟨rfl, rfl⟩]

theorem absEsc_plain (ver : Ver) (ce : Nat → Bool) (attr : Bool) (c : Nat)
    (h : ¬ (c > lastSpecial ver)) (hsp : (if attr then pAttribute ver c else pContent ver c) = false) :
    absEsc ver ce attr c = .ok [c] := by
  unfold absEsc
  rw [if_neg h, if_pos hsp]

theorem absEscAll_cons (ver : Ver) (ce : Nat → Bool) (attr : Bool) (c : Nat) (cs a b : List Nat)
    (ha : absEsc ver ce attr c = .ok a) (hb : absEscAll ver ce attr cs = .ok b) :
    absEscAll ver ce attr (c :: cs) = .ok (a ++ b) := by
  simp only [absEscAll, ha, hb, bind, Except.bind, pure, Except.pure]

/-! ## the escaping loop refines the character-level escaping, through the output encoding -/

theorem escLoop_refines (ver : Ver) (e : Enc) (ha : AsciiOk e) (attr : Bool) (sp : Nat → Bool) (esc : Nat → Out)
    (hsp : ∀ c, sp c = (if attr then pAttribute ver c else pContent ver c))
    (hesc : ∀ c, c ≤ lastSpecial ver → sp c = true → legalChar ver c = true →
      ∃ it x, esc c = .ok it ∧ absEsc ver (canEncOf e) attr c = .ok x ∧ unitsOf it = x ∧ Ascii x)
    (hcons : e.fx.rejectNonChar = true → e.fx.utf16Pairs = true)
    (cs : List Nat) (hl : ∀ c ∈ cs, legalChar ver c = true) (pend : List Nat) (hp : Ascii pend) :
    ∃ items out, escLoop ver e sp esc (utf16Encode cs) false pend = .ok items ∧
      absEscAll ver (canEncOf e) attr cs = .ok out ∧ unitsOf items = pend ++ encodeOut e.kind out := by
  have hver : ver ∈ [Ver.v10, Ver.v11] := by cases ver <;> simp
  have hattr : attr ∈ [true, false] := by cases attr <;> simp
  induction cs generalizing pend with
  | nil =>
    refine ⟨safeWrite e pend, [], ?_, rfl, ?_⟩
    · exact escLoop_nil ver e sp esc false pend
    · rw [safeWrite_ascii e ha pend hp]; cases e.kind <;> simp [encodeOut]
  | cons c cs ih =>
    have hlc := hl c (by simp)
    have hs := legal_scalar ver c hlc
    have hl' : ∀ x ∈ cs, legalChar ver x = true := fun x hx => hl x (by simp [hx])
    have hU : utf16Encode (c :: cs) = utf16EncodeOne c ++ utf16Encode cs := by simp [utf16Encode]
    have h160 := lastSpecial_lt ver
    rw [hU]
    by_cases hb : c < 0x10000
    · have h16 : utf16EncodeOne c = [c] := ((decodeHead_utf16Encode c [] hs).1 hb).1
      rw [h16]
      simp only [List.cons_append, List.nil_append]
      by_cases hr : c > lastSpecial ver
      · have hpr : pRange ver c = true := by simp [pRange, hr]
        have hokc : notCharCheck e c = .ok () := by
          have h127 := lastSpecial_ge ver
          obtain ⟨q1, q2⟩ := hs
          refine notCharCheck_ok e c (by simp [isLow]; omega) (by omega) ?_
          cases ver <;> simp [legalChar] at hlc <;> omega
        obtain ⟨items', out', hi', ho', hu'⟩ := ih hl' [] (by intro u hu; simp at hu)
        by_cases h28 : ver = .v11 ∧ c = 0x2028
        · obtain ⟨it, hit, hitu⟩ := fNCR_units e ha c
          have hw := wNCB_ncr ver e c (utf16Encode cs) it hokc h28 hit
          refine ⟨_, _, escLoop_range ver e sp esc c _ pend it items' false hpr hw hi',
            absEscAll_cons _ _ _ _ _ _ _ (absEsc_lsep ver _ attr c h28) ho', ?_⟩
          rw [unitsOf_append, unitsOf_append, safeWrite_ascii e ha pend hp, hitu, hu', encodeOut_append,
            encodeOut_ascii _ _ (ncrText_ascii c)]
          simp
        · obtain ⟨it, hit, hitu⟩ := wCP_bmp e ha c (utf16Encode cs) hs hb
          have hw : writeNormalizedCharBig ver e c (utf16Encode cs) = .ok (it, false) := by
            rw [wNCB_cp ver e c _ hokc h28]; exact hit
          refine ⟨_, _, escLoop_range ver e sp esc c _ pend it items' false hpr hw hi',
            absEscAll_cons _ _ _ _ _ _ _ (absEsc_range ver _ attr c hr h28) ho', ?_⟩
          rw [unitsOf_append, unitsOf_append, safeWrite_ascii e ha pend hp, hitu, hu', encodeOut_append]
          simp
      · have hpr : pRange ver c = false := by simp [pRange, hr]
        have hle : c ≤ lastSpecial ver := by omega
        have hc160 : c ∈ List.range 160 := by simp; omega
        by_cases hspc : sp c = false
        · have hsp' : (if attr then pAttribute ver c else pContent ver c) = false := by rw [← hsp]; exact hspc
          have hc128 : c < 128 := by
            have := table_plain_ascii ver hver attr hattr c hc160 hle hsp' hlc
            simpa using this
          have hp' : Ascii (pend ++ [c]) := by
            intro u hu
            rcases List.mem_append.mp hu with h | h
            · exact hp u h
            · simp at h; omega
          obtain ⟨items', out', hi', ho', hu'⟩ := ih hl' (pend ++ [c]) hp'
          refine ⟨items', [c] ++ out', ?_, absEscAll_cons _ _ _ _ _ _ _ (absEsc_plain ver _ attr c hr hsp') ho', ?_⟩
          · rw [escLoop_plain ver e sp esc c _ pend hpr hspc]; exact hi'
          · rw [hu', encodeOut_append, encodeOut_ascii _ [c] (by intro u hu; simp at hu; omega)]
            simp
        · have hspt : sp c = true := by
            cases h : sp c with
            | false => exact absurd h hspc
            | true => rfl
          obtain ⟨it, x, hit, hx, hitu, hxa⟩ := hesc c hle hspt hlc
          obtain ⟨items', out', hi', ho', hu'⟩ := ih hl' [] (by intro u hu; simp at hu)
          refine ⟨_, _, escLoop_special ver e sp esc c _ pend it items' hpr hspt hit hi',
            absEscAll_cons _ _ _ _ _ _ _ hx ho', ?_⟩
          rw [unitsOf_append, unitsOf_append, safeWrite_ascii e ha pend hp, hitu, hu', encodeOut_append,
            encodeOut_ascii _ _ hxa]
          simp
    · have hge : 0x10000 ≤ c := by omega
      have h16 := ((decodeHead_utf16Encode c (utf16Encode cs) hs).2 hge).1
      have hdh := ((decodeHead_utf16Encode c (utf16Encode cs) hs).2 hge).2
      obtain ⟨hs1, hs2⟩ := hs
      rw [h16]
      simp only [List.cons_append, List.nil_append]
      have hr : c > lastSpecial ver := by omega
      have h28 : ¬ (ver = .v11 ∧ c = 0x2028) := by omega
      have hhi : pRange ver (0xD800 + (c - 0x10000) / 1024) = true := by simp [pRange]; omega
      have hlo : pRange ver (0xDC00 + (c - 0x10000) % 1024) = true := by simp [pRange]; omega
      have h28hi : ¬ (ver = .v11 ∧ 0xD800 + (c - 0x10000) / 1024 = 0x2028) := by omega
      have h28lo : ¬ (ver = .v11 ∧ 0xDC00 + (c - 0x10000) % 1024 = 0x2028) := by omega
      have hokhi : notCharCheck e (0xD800 + (c - 0x10000) / 1024) = .ok () :=
        notCharCheck_ok e _ (by simp [isLow]; omega) (by omega) (by omega)
      obtain ⟨items', out', hi', ho', hu'⟩ := ih hl' [] (by intro u hu; simp at hu)
      have hx := absEsc_range ver (canEncOf e) attr c hr h28
      cases hk : e.kind with
      | utf8 =>
        obtain ⟨it, hit, hitu⟩ := wCP_two_utf8 e hk c _ _ (utf16Encode cs) ⟨hs1, hs2⟩ hdh
        have hw : writeNormalizedCharBig ver e (0xD800 + (c - 0x10000) / 1024)
            ((0xDC00 + (c - 0x10000) % 1024) :: utf16Encode cs) = .ok (it, true) := by
          rw [wNCB_cp ver e _ _ hokhi h28hi]; exact hit
        have hsk : escLoop ver e sp esc ((0xDC00 + (c - 0x10000) % 1024) :: utf16Encode cs) true [] = .ok items' := by
          rw [escLoop_skip]; exact hi'
        refine ⟨_, _, escLoop_range ver e sp esc _ _ pend it items' true hhi hw hsk,
          absEscAll_cons _ _ _ _ _ _ _ hx ho', ?_⟩
        have hce : canEncOf e c = true := by simp [canEncOf, hk]
        rw [unitsOf_append, unitsOf_append, safeWrite_ascii e ha pend hp, hitu, hu', hce]
        simp [encodeOut, hk]
      | other =>
        obtain ⟨it, hit, hitu⟩ := wCP_two_other e hk c _ _ (utf16Encode cs) (by omega) hdh h16 (by omega) (by omega)
        have hw : writeNormalizedCharBig ver e (0xD800 + (c - 0x10000) / 1024)
            ((0xDC00 + (c - 0x10000) % 1024) :: utf16Encode cs) = .ok (it, true) := by
          rw [wNCB_cp ver e _ _ hokhi h28hi]; exact hit
        have hsk : escLoop ver e sp esc ((0xDC00 + (c - 0x10000) % 1024) :: utf16Encode cs) true [] = .ok items' := by
          rw [escLoop_skip]; exact hi'
        refine ⟨_, _, escLoop_range ver e sp esc _ _ pend it items' true hhi hw hsk,
          absEscAll_cons _ _ _ _ _ _ _ hx ho', ?_⟩
        have hce : canEncOf e c = e.canEnc c := by simp [canEncOf, hk]
        rw [unitsOf_append, unitsOf_append, safeWrite_ascii e ha pend hp, hitu, hu', hce, encodeOut_append, hk]
        simp
      | utf16 =>
        have hce : canEncOf e c = true := by simp [canEncOf, hk]
        cases hf : e.fx.utf16Pairs with
        | true =>
          have hw : writeNormalizedCharBig ver e (0xD800 + (c - 0x10000) / 1024)
              ((0xDC00 + (c - 0x10000) % 1024) :: utf16Encode cs)
              = .ok ([.one (0xD800 + (c - 0x10000) / 1024), .one (0xDC00 + (c - 0x10000) % 1024)], true) := by
            rw [wNCB_cp ver e _ _ hokhi h28hi]; exact wCP_two_utf16 e hk hf c _ _ _ hdh
          have hsk : escLoop ver e sp esc ((0xDC00 + (c - 0x10000) % 1024) :: utf16Encode cs) true [] = .ok items' := by
            rw [escLoop_skip]; exact hi'
          refine ⟨_, _, escLoop_range ver e sp esc _ _ pend _ items' true hhi hw hsk,
            absEscAll_cons _ _ _ _ _ _ _ hx ho', ?_⟩
          simp only [unitsOf_append, safeWrite_ascii e ha pend hp, hu', hce, ↓reduceIte]
          simp [encodeOut, hk, h16, unitsOf, Item.units]
        | false =>
          have hrn : e.fx.rejectNonChar = false := by
            cases h : e.fx.rejectNonChar with
            | false => rfl
            | true => have := hcons h; rw [hf] at this; cases this
          have hoklo : notCharCheck e (0xDC00 + (c - 0x10000) % 1024) = .ok () := by
            unfold notCharCheck; simp [hrn]
          have hw1 : writeNormalizedCharBig ver e (0xD800 + (c - 0x10000) / 1024)
              ((0xDC00 + (c - 0x10000) % 1024) :: utf16Encode cs) = .ok ([.one (0xD800 + (c - 0x10000) / 1024)], false) := by
            rw [wNCB_cp ver e _ _ hokhi h28hi]; exact wCP_utf16_unchecked e hk hf _ _
          have hw2 : writeNormalizedCharBig ver e (0xDC00 + (c - 0x10000) % 1024) (utf16Encode cs)
              = .ok ([.one (0xDC00 + (c - 0x10000) % 1024)], false) := by
            rw [wNCB_cp ver e _ _ hoklo h28lo]; exact wCP_utf16_unchecked e hk hf _ _
          have hstep2 := escLoop_range ver e sp esc _ _ [] _ items' false hlo hw2 hi'
          refine ⟨_, _, escLoop_range ver e sp esc _ _ pend _ _ false hhi hw1 hstep2,
            absEscAll_cons _ _ _ _ _ _ _ hx ho', ?_⟩
          simp only [unitsOf_append, safeWrite_ascii e ha pend hp, hu', hce, ↓reduceIte]
          simp [encodeOut, hk, h16, unitsOf, Item.units, safeWrite]

/-! ## the characters written are scalar values -/

theorem absEsc_shape (ver : Ver) (ce : Nat → Bool) (attr : Bool) (c : Nat) (x : List Nat)
    (h : absEsc ver ce attr c = .ok x) : x = [c] ∨ Ascii x := by
  unfold absEsc at h
  by_cases hr : c > lastSpecial ver
  · rw [if_pos hr] at h
    by_cases h28 : ver = .v11 ∧ c = 0x2028
    · rw [if_pos h28] at h; injection h with h; subst h; exact Or.inr (ncrText_ascii c)
    · rw [if_neg h28] at h
      by_cases hc : ce c = true
      · rw [if_pos hc] at h; injection h with h; exact Or.inl h.symm
      · rw [if_neg hc] at h; injection h with h; subst h; exact Or.inr (ncrText_ascii c)
  · rw [if_neg hr] at h
    by_cases hsp : (if attr then pAttribute ver c else pContent ver c) = false
    · rw [if_pos hsp] at h; injection h with h; exact Or.inl h.symm
    · rw [if_neg hsp] at h
      by_cases h60 : c = 60
      · rw [if_pos h60] at h; injection h with h; subst h; exact Or.inr (ascii4 _ _ _ _ (by omega))
      · rw [if_neg h60] at h
        by_cases h62 : c = 62
        · rw [if_pos h62] at h; injection h with h; subst h; exact Or.inr (ascii4 _ _ _ _ (by omega))
        · rw [if_neg h62] at h
          by_cases h38 : c = 38
          · rw [if_pos h38] at h; injection h with h; subst h; exact Or.inr (ascii5 _ _ _ _ _ (by omega))
          · rw [if_neg h38] at h
            by_cases h34 : attr = true ∧ c = 34
            · rw [if_pos h34] at h; injection h with h; subst h; exact Or.inr (ascii6 _ _ _ _ _ _ (by omega))
            · rw [if_neg h34] at h
              by_cases h10 : attr = false ∧ c = 10
              · rw [if_pos h10] at h; injection h with h; subst h
                exact Or.inr (by intro u hu; simp at hu; omega)
              · rw [if_neg h10] at h
                by_cases hf : pForbidden ver c = true
                · rw [if_pos hf] at h; cases h
                · rw [if_neg hf] at h; injection h with h; subst h; exact Or.inr (ncrText_ascii c)

theorem absEscAll_scalars (ver : Ver) (ce : Nat → Bool) (attr : Bool) (cs out : List Nat)
    (hs : ∀ c ∈ cs, IsScalar c) (h : absEscAll ver ce attr cs = .ok out) : ∀ y ∈ out, IsScalar y := by
  induction cs generalizing out with
  | nil => simp [absEscAll] at h; cases h; intro y hy; simp at hy
  | cons c cs ih =>
    simp only [absEscAll, bind, Except.bind] at h
    cases ha : absEsc ver ce attr c with
    | error er => rw [ha] at h; cases h
    | ok a =>
      rw [ha] at h
      cases hb : absEscAll ver ce attr cs with
      | error er => rw [hb] at h; cases h
      | ok b =>
        rw [hb] at h
        simp only [pure, Except.pure] at h
        injection h with h; subst h
        intro y hy
        rcases List.mem_append.mp hy with hy | hy
        · rcases absEsc_shape ver ce attr c a ha with h1 | h1
          · subst h1; simp at hy; rw [hy]; exact hs c (by simp)
          · have := h1 y hy; unfold IsScalar; omega
        · exact ih b (fun x hx => hs x (by simp [hx])) hb y hy

/-- writer + reader, any of the three writers, content or attribute value -/
theorem esc_roundtrip (ver : Ver) (e : Enc) (ha : AsciiOk e) (attr : Bool) (sp : Nat → Bool) (esc : Nat → Out)
    (hsp : ∀ c, sp c = (if attr then pAttribute ver c else pContent ver c))
    (hesc : ∀ c, c ≤ lastSpecial ver → sp c = true → legalChar ver c = true →
      ∃ it x, esc c = .ok it ∧ absEsc ver (canEncOf e) attr c = .ok x ∧ unitsOf it = x ∧ Ascii x)
    (hcons : e.fx.rejectNonChar = true → e.fx.utf16Pairs = true)
    (cs : List Nat) (hl : ∀ c ∈ cs, legalChar ver c = true) :
    ∃ items out, escLoop ver e sp esc (utf16Encode cs) false [] = .ok items ∧
      decodeOut e.kind (unitsOf items) = some out ∧ readAll ver attr out = some cs := by
  obtain ⟨items, out, h1, h2, h3⟩ := escLoop_refines ver e ha attr sp esc hsp hesc hcons cs hl [] (by intro u hu; simp at hu)
  obtain ⟨out', h4, h5⟩ := readAll_absEscAll ver (canEncOf e) attr cs hl
  rw [h2] at h4; injection h4 with h4; subst h4
  refine ⟨items, out, h1, ?_, h5⟩
  rw [h3, List.nil_append]
  exact decodeOut_encodeOut e.kind out
    (absEscAll_scalars ver (canEncOf e) attr cs out (fun c hc => legal_scalar ver c (hl c hc)) h2)

end XalanModel.C04
