import XalanModel.C04.Model
/-!
# C04 — specification side: Unicode scalar values, UTF-16 encoding, a strict UTF-8 decoder
(RFC 3629 / Unicode D92: no overlong forms, no surrogates, nothing above U+10FFFF).
Independent of the serializer model.
-/
namespace XalanModel.C04.Spec
open XalanModel.C04

def IsScalar (c : Nat) : Prop := c ≤ 0x10FFFF ∧ ¬ (0xD800 ≤ c ∧ c ≤ 0xDFFF)

instance (c : Nat) : Decidable (IsScalar c) := by unfold IsScalar; infer_instance

def utf16EncodeOne (c : Nat) : List Nat :=
  if c < 0x10000 then [c] else [0xD800 + (c - 0x10000) / 1024, 0xDC00 + (c - 0x10000) % 1024]

def utf16Encode (cs : List Nat) : List Nat := cs.flatMap utf16EncodeOne

def isCont (b : Nat) : Bool := decide (0x80 ≤ b ∧ b < 0xC0)

def utf8DecodeOne : List Nat → Option (Nat × List Nat)
  | [] => none
  | b0 :: rest =>
    if b0 < 0x80 then some (b0, rest)
    else if b0 < 0xC2 then none
    else if b0 < 0xE0 then
      match rest with
      | b1 :: r => if isCont b1 then some ((b0 - 0xC0) * 64 + (b1 - 0x80), r) else none
      | _ => none
    else if b0 < 0xF0 then
      match rest with
      | b1 :: b2 :: r =>
        if isCont b1 ∧ isCont b2 ∧ 0x800 ≤ (b0 - 0xE0) * 4096 + (b1 - 0x80) * 64 + (b2 - 0x80) ∧
            ¬ (0xD800 ≤ (b0 - 0xE0) * 4096 + (b1 - 0x80) * 64 + (b2 - 0x80) ∧
               (b0 - 0xE0) * 4096 + (b1 - 0x80) * 64 + (b2 - 0x80) ≤ 0xDFFF)
        then some ((b0 - 0xE0) * 4096 + (b1 - 0x80) * 64 + (b2 - 0x80), r) else none
      | _ => none
    else if b0 < 0xF5 then
      match rest with
      | b1 :: b2 :: b3 :: r =>
        if isCont b1 ∧ isCont b2 ∧ isCont b3 ∧
            0x10000 ≤ (b0 - 0xF0) * 262144 + (b1 - 0x80) * 4096 + (b2 - 0x80) * 64 + (b3 - 0x80) ∧
            (b0 - 0xF0) * 262144 + (b1 - 0x80) * 4096 + (b2 - 0x80) * 64 + (b3 - 0x80) ≤ 0x10FFFF
        then some ((b0 - 0xF0) * 262144 + (b1 - 0x80) * 4096 + (b2 - 0x80) * 64 + (b3 - 0x80), r) else none
      | _ => none
    else none

def utf8DecodeF : Nat → List Nat → Option (List Nat)
  | _, [] => some []
  | 0, _ :: _ => none
  | f + 1, b :: l =>
    match utf8DecodeOne (b :: l) with
    | some (c, r) => (utf8DecodeF f r).map (c :: ·)
    | none => none

/-- strict UTF-8 decoding of a whole byte sequence -/
def utf8Decode (l : List Nat) : Option (List Nat) := utf8DecodeF l.length l

/-- strict UTF-16 decoding: one scalar value and the rest -/
def utf16DecodeOne : List Nat → Option (Nat × List Nat)
  | [] => none
  | u :: r =>
    if u < 0xD800 ∨ 0xDFFF < u then (if u ≤ 0xFFFF then some (u, r) else none)
    else if u ≤ 0xDBFF then
      match r with
      | l :: r' => if 0xDC00 ≤ l ∧ l ≤ 0xDFFF then some (0x10000 + (u - 0xD800) * 1024 + (l - 0xDC00), r') else none
      | [] => none
    else none

def utf16DecodeF : Nat → List Nat → Option (List Nat)
  | _, [] => some []
  | 0, _ :: _ => none
  | f + 1, b :: l =>
    match utf16DecodeOne (b :: l) with
    | some (c, r) => (utf16DecodeF f r).map (c :: ·)
    | none => none

def utf16Decode (l : List Nat) : Option (List Nat) := utf16DecodeF l.length l

/-- the bytes of one scalar value (the standard UTF-8 bit layout) -/
def utf8EncodeOne (c : Nat) : List Nat :=
  if c ≤ 0x7F then [c]
  else if c ≤ 0x7FF then [0xC0 + c / 64 % 32, 0x80 + c % 64]
  else if c ≤ 0xFFFF then [0xE0 + c / 4096 % 16, 0x80 + c / 64 % 64, 0x80 + c % 64]
  else [0xF0 + c / 262144 % 8, 0x80 + c / 4096 % 64, 0x80 + c / 64 % 64, 0x80 + c % 64]

/-- the code units a character sequence has in the output encoding family of a writer
(`other`: the UTF-16 units handed to the transcoder) -/
def encodeOut (k : WK) (out : List Nat) : List Nat :=
  match k with
  | .utf8 => out.flatMap utf8EncodeOne
  | _ => out.flatMap utf16EncodeOne

/-- strict decoding of the writer's code units back to characters -/
def decodeOut (k : WK) (units : List Nat) : Option (List Nat) :=
  match k with
  | .utf8 => utf8Decode units
  | _ => utf16Decode units

/-! ## a reader for character data and attribute values (XML 1.0/1.1 §2.2, §2.4, §2.11, §3.3.3, §4.1, §4.6)

The reader works on the *decoded* character sequence.  It is the restriction of the XML rules to what
it accepts: it rejects a raw `>` (the serializer always writes `&gt;`; rejecting it makes the `]]>`
rule of §2.4 trivially respected), and knows only the five predefined entities and decimal character
references.  Wherever it returns a value, a conforming parser returns the same value. -/

/-- production [2] `Char` of the given XML version -/
def legalChar (ver : Ver) (c : Nat) : Bool :=
  match ver with
  | .v10 => c == 9 || c == 10 || c == 13 || (decide (32 ≤ c) && decide (c ≤ 0xD7FF)) ||
            (decide (0xE000 ≤ c) && decide (c ≤ 0xFFFD)) || (decide (0x10000 ≤ c) && decide (c ≤ 0x10FFFF))
  | .v11 => (decide (1 ≤ c) && decide (c ≤ 0xD7FF)) ||
            (decide (0xE000 ≤ c) && decide (c ≤ 0xFFFD)) || (decide (0x10000 ≤ c) && decide (c ≤ 0x10FFFF))

/-- production [2a] `RestrictedChar` of XML 1.1 -/
def restricted11 (c : Nat) : Bool :=
  (decide (1 ≤ c) && decide (c ≤ 8)) || c == 11 || c == 12 || (decide (14 ≤ c) && decide (c ≤ 31)) ||
  (decide (127 ≤ c) && decide (c ≤ 132)) || (decide (134 ≤ c) && decide (c ≤ 159))

/-- a literal character that stands for itself (no markup, no line-end or attribute-value normalisation) -/
def rawSelf (ver : Ver) (attr : Bool) (c : Nat) : Bool :=
  legalChar ver c && !(c == 38 || c == 60 || c == 62 || c == 13) &&
  !(attr && (c == 34 || c == 9 || c == 10)) &&
  !(decide (ver = .v11) && (restricted11 c || c == 0x85 || c == 0x2028))

/-- digits of a decimal character reference up to `;` -/
def readDec : List Nat → Nat → Bool → Option (Nat × List Nat)
  | [], _, _ => none
  | d :: r, acc, seen =>
    if d = 59 then (if seen then some (acc, r) else none)
    else if 48 ≤ d ∧ d ≤ 57 then readDec r (acc * 10 + (d - 48)) true
    else none

/-- what follows `&` -/
def readRef : List Nat → Option (Nat × List Nat)
  | 108 :: 116 :: 59 :: r => some (60, r)
  | 103 :: 116 :: 59 :: r => some (62, r)
  | 97 :: 109 :: 112 :: 59 :: r => some (38, r)
  | 113 :: 117 :: 111 :: 116 :: 59 :: r => some (34, r)
  | 97 :: 112 :: 111 :: 115 :: 59 :: r => some (39, r)
  | 35 :: r => readDec r 0 false
  | _ => none

/-- one character of the value and the rest of the input -/
def readOne (ver : Ver) (attr : Bool) : List Nat → Option (Nat × List Nat)
  | [] => none
  | c :: r =>
    if c = 38 then
      match readRef r with
      | some (v, r') => if legalChar ver v then some (v, r') else none    -- WFC: Legal Character
      | none => none
    else if rawSelf ver attr c then some (c, r)
    else if c = 13 then
      if attr then some (32, r)
      else match r with
        | 10 :: r' => some (10, r')
        | _ => some (10, r)
    else if attr ∧ (c = 9 ∨ c = 10) then some (32, r)
    else if ver = .v11 ∧ (c = 0x85 ∨ c = 0x2028) then some (if attr then 32 else 10, r)
    else none

def readAllF (ver : Ver) (attr : Bool) : Nat → List Nat → Option (List Nat)
  | _, [] => some []
  | 0, _ :: _ => none
  | f + 1, b :: l =>
    match readOne ver attr (b :: l) with
    | some (c, r) => (readAllF ver attr f r).map (c :: ·)
    | none => none

/-- the value of character data (`attr = false`) or of an attribute value literal without its quotes -/
def readAll (ver : Ver) (attr : Bool) (l : List Nat) : Option (List Nat) := readAllF ver attr l.length l

/-! ## the serializer's escaping, stated on characters (no encodings, no buffers) -/

def ncrText (c : Nat) : List Nat := [38, 35] ++ decDigits c ++ [59]

/-- what `writeCharacters` (`attr = false`) / `writeAttrString` (`attr = true`) write for one character,
as a character sequence; `canEnc` = the encoding can represent the character -/
def absEsc (ver : Ver) (canEnc : Nat → Bool) (attr : Bool) (c : Nat) : Except Err (List Nat) :=
  if c > lastSpecial ver then
    if ver = .v11 ∧ c = 0x2028 then .ok (ncrText c)
    else if canEnc c then .ok [c] else .ok (ncrText c)
  else if (if attr then pAttribute ver c else pContent ver c) = false then .ok [c]
  else if c = 60 then .ok [38, 108, 116, 59]
  else if c = 62 then .ok [38, 103, 116, 59]
  else if c = 38 then .ok [38, 97, 109, 112, 59]
  else if attr = true ∧ c = 34 then .ok [38, 113, 117, 111, 116, 59]
  else if attr = false ∧ c = 10 then .ok [10]
  else if pForbidden ver c then .error .forbidden
  else .ok (ncrText c)

def absEscAll (ver : Ver) (canEnc : Nat → Bool) (attr : Bool) : List Nat → Except Err (List Nat)
  | [] => .ok []
  | c :: cs => do
    let a ← absEsc ver canEnc attr c
    let b ← absEscAll ver canEnc attr cs
    pure (a ++ b)


/-! ## CDATA sections -/

def OPEN : List Nat := [60, 33, 91, 67, 68, 65, 84, 65, 91]     -- <![CDATA[
def CLOSE : List Nat := [93, 93, 62]                            -- ]]>

/-- `writeCDATAChars` (with the `]]>` split, the references for CR / NEL / LSEP / XML 1.1 restricted characters and for
characters the encoding cannot represent), stated on characters: what is written after `<![CDATA[` and whether
the writer ends outside a section.  `skip` characters were already consumed by a `]]>` split. -/
def absCD (ver : Ver) (ce : Nat → Bool) : List Nat → Nat → Bool → Except Err (List Nat × Bool)
  | [], _, o => .ok ([], o)
  | _ :: rest, skip + 1, o => absCD ver ce rest skip o
  | c :: rest, 0, o =>
    if c = 93 ∧ rest.take 2 = [93, 62] then do
      let (b, o') ← absCD ver ce rest 2 false
      pure ((if o then OPEN else []) ++ [93, 93] ++ CLOSE ++ OPEN ++ [62] ++ b, o')
    else if c = 10 then do
      let (b, o') ← absCD ver ce rest 0 o
      pure (10 :: b, o')
    else if c = 13 ∨ (ver = .v11 ∧ (pCharRefForbidden ver c = true ∨ c = 0x85 ∨ c = 0x2028)) then do
      let (b, o') ← absCD ver ce rest 0 o
      pure ((if o then ncrText c else CLOSE ++ ncrText c ++ OPEN) ++ b, o')
    else if pCharRefForbidden ver c then .error .forbidden
    else if ce c then do
      let (b, o') ← absCD ver ce rest 0 false
      pure ((if o then OPEN else []) ++ [c] ++ b, o')
    else do
      let (b, o') ← absCD ver ce rest 0 true
      pure ((if o then [] else CLOSE) ++ ncrText c ++ b, o')

/-- `writeCDATA` on characters -/
def absCDATA (ver : Ver) (ce : Nat → Bool) (cs : List Nat) : Except Err (List Nat) := do
  let (b, o) ← absCD ver ce cs 0 false
  pure (OPEN ++ b ++ (if o then [] else CLOSE))

/-- a character that stands for itself inside a CDATA section (no line-end normalisation applies to it) -/
def insideOk (ver : Ver) (c : Nat) : Bool :=
  legalChar ver c && !(c == 13) && !(decide (ver = .v11) && (restricted11 c || c == 0x85 || c == 0x2028))

/-- reader for character data with CDATA sections (XML §2.7): outside a section references and literal characters
as in `readOne`; inside, everything up to the *first* `]]>` is literal — detected causally by counting the `]`
seen so far (`some nb` = inside with `nb` brackets pending).  Sections containing a character that line-end
normalisation would change are rejected (restriction of a conforming parser). -/
def readCDF (ver : Ver) : Nat → Option Nat → List Nat → Option (List Nat)
  | _, none, [] => some []
  | _, some _, [] => none
  | 0, _, _ :: _ => none
  | f + 1, none, c :: r =>
    if (c :: r).take 9 = OPEN then readCDF ver f (some 0) (r.drop 8)
    else match readOne ver false (c :: r) with
      | some (v, r') => (readCDF ver f none r').map (v :: ·)
      | none => none
  | f + 1, some nb, c :: r =>
    if c = 93 then readCDF ver f (some (nb + 1)) r
    else if c = 62 ∧ 2 ≤ nb then (readCDF ver f none r).map (List.replicate (nb - 2) 93 ++ ·)
    else if insideOk ver c then (readCDF ver f (some 0) r).map (List.replicate nb 93 ++ [c] ++ ·)
    else none

def readCD (ver : Ver) (l : List Nat) : Option (List Nat) := readCDF ver l.length none l

end XalanModel.C04.Spec
