import XalanModel.C04.WellFormedProofs
/-! `throwIfNotCharacters` (the check in front of the bulk writes): what it accepts is well-formed UTF-16 without
U+0000, U+FFFE, U+FFFF -/
namespace XalanModel.C04

def BulkOk (us : List Nat) : Prop := wf16 us = true ∧ ∀ c ∈ us, c ≠ 0 ∧ c < 0xFFFE

theorem checkLoop_inv : ∀ (n : Nat) (us : List Nat), us.length = n → checkLoop us false = .ok () → BulkOk us := by
  intro n
  induction n using Nat.strongRecOn with
  | _ n ih =>
    intro us hlen h
    cases us with
    | nil => exact ⟨rfl, by intro c hc; simp at hc⟩
    | cons c rest =>
      simp only [checkLoop] at h
      by_cases hh : isHigh c = true
      · simp only [hh, ↓reduceIte] at h
        cases rest with
        | nil => simp at h
        | cons l r =>
          simp only at h
          by_cases hl : isLow l = true
          · simp only [hl, ↓reduceIte, checkLoop] at h
            obtain ⟨w, hc⟩ := ih r.length (by simp at hlen; omega) r rfl h
            refine ⟨by unfold wf16; simp only [hh, hl, ↓reduceIte, Bool.true_and]; exact w, ?_⟩
            intro x hx
            simp only [List.mem_cons] at hx
            rcases hx with hx | hx | hx
            · subst hx; simp [isHigh] at hh; omega
            · subst hx; simp [isLow] at hl; omega
            · exact hc x hx
          · simp [hl] at h
      · have hh' : isHigh c = false := by simpa using hh
        simp only [hh', Bool.false_eq_true, ↓reduceIte] at h
        by_cases hl : isLow c = true
        · simp [hl] at h
        · have hl' : isLow c = false := by simpa using hl
          simp only [hl', Bool.false_eq_true, ↓reduceIte] at h
          by_cases hz : c = 0 ∨ c ≥ 0xFFFE
          · simp [hz] at h
          · simp only [hz, ↓reduceIte] at h
            obtain ⟨w, hc⟩ := ih rest.length (by simp at hlen; omega) rest rfl h
            refine ⟨by unfold wf16; simp only [hh', hl', Bool.false_eq_true, ↓reduceIte]; exact w, ?_⟩
            intro x hx
            simp only [List.mem_cons] at hx
            rcases hx with hx | hx
            · subst hx; omega
            · exact hc x hx

theorem bulk_output_wf (e : Enc) (hf : e.fx.bulkCheck = true) (us : List Nat) (items : List Item)
    (h : wName e us = .ok items ∨ wRaw e us = .ok items) : BulkOk us := by
  have hc : checkLoop us false = .ok () := by
    rcases h with h | h
    · unfold wName checkBulk at h
      simp only [hf, ↓reduceIte, bind, Except.bind] at h
      cases hq : checkLoop us false with
      | error x => simp [hq] at h
      | ok u => rfl
    · unfold wRaw checkBulk at h
      simp only [hf, ↓reduceIte, bind, Except.bind] at h
      cases hq : checkLoop us false with
      | error x => simp [hq] at h
      | ok u => rfl
  exact checkLoop_inv us.length us rfl hc

end XalanModel.C04
