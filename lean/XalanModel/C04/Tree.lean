import XalanModel.C04.Model
namespace XalanModel.C04

/-- a result tree fragment as the serializer sees it -/
inductive XNode
  | elem (name : List Nat) (attrs : List (List Nat × List Nat)) (kids : List XNode)
  | text (s : List Nat)
  | cdata (s : List Nat)
  | comment (s : List Nat)
  | pi (t d : List Nat)

mutual
def events : XNode → List Event
  | .elem n a kids => .startElement n a :: (eventsL kids ++ [.endElement n])
  | .text s => [.characters (s ++ [0]) s.length]
  | .cdata s => [.cdata (s ++ [0]) s.length]
  | .comment s => [.comment s]
  | .pi t d => [.pi t d]
def eventsL : List XNode → List Event
  | [] => []
  | k :: ks => events k ++ eventsL ks
end

/-- a node for which no serializer call writes anything (empty character data) -/
def silent : XNode → Bool
  | .text s => s.isEmpty
  | .cdata s => s.isEmpty
  | _ => false

def commentItems (c : Cfg) (data : List Nat) : Out := do
  let d ← writeNormalizedData c.ver c.enc data
  pure (wChar c.enc 60 ++ wChar c.enc 33 ++ wChar c.enc 45 ++ wChar c.enc 45 ++ d
          ++ wChar c.enc 45 ++ wChar c.enc 45 ++ wChar c.enc 62)

def piItems (c : Cfg) (target data : List Nat) : Out := do
  let t ← wName c.enc target
  let sp := match data with
    | d0 :: _ => if isXMLWhitespace d0 then [] else wChar c.enc 32
    | [] => []
  let d ← writeNormalizedData c.ver c.enc data
  pure (wChar c.enc 60 ++ wChar c.enc 63 ++ t ++ sp ++ d ++ wChar c.enc 63 ++ wChar c.enc 62)

mutual
/-- the document as a recursive function of the tree: `<n a/>` when no child writes anything,
`<n a>` children `</n>` otherwise -/
def serNode (c : Cfg) : XNode → Out
  | .elem n a kids => do
    let nn ← wName c.enc n
    let aa ← writeAttrs c a
    let k ← serKids c kids
    if kids.all silent then pure (wChar c.enc 60 ++ nn ++ aa ++ wChar c.enc 47 ++ wChar c.enc 62)
    else do
      let nn2 ← wName c.enc n
      pure (wChar c.enc 60 ++ nn ++ aa ++ wChar c.enc 62 ++ k ++ wChar c.enc 60 ++ wChar c.enc 47 ++ nn2 ++ wChar c.enc 62)
  | .text s => if s.isEmpty then pure [] else writeCharacters c.ver c.enc s
  | .cdata s => if s.isEmpty then pure [] else writeCDATA c.cdata c.ver c.enc (s ++ [0]) s.length
  | .comment s => commentItems c s
  | .pi t d => piItems c t d
def serKids (c : Cfg) : List XNode → Out
  | [] => pure []
  | k :: ks => do
    let a ← serNode c k
    let b ← serKids c ks
    pure (a ++ b)
end

end XalanModel.C04
