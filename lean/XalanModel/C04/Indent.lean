import XalanModel.C04.Model
/-!
# C04 — the indenting variants: `FormatterToXMLUnicode<…, XalanIndentWriter<…>, …>`

`XalanIndentWriter` state (`m_currentIndent`, `m_startNewLine`, `m_ispreserve`, `m_isprevtext`, `m_preserves`) and its
call sites in `startElement / endElement / characters / cdata / charactersRaw / comment / processingInstruction /
writeParentTagEnd / writeXMLHeader / endDocument`, transcribed as written.  `on = false` is `XalanDummyIndentWriter`
(every operation is empty), so one definition covers both template instances.  Core Lean only.
-/
namespace XalanModel.C04

structure IndSt where
  on : Bool
  amount : Nat
  cur : Nat := 0
  startNewLine : Bool := false
  ispreserve : Bool := false
  isprevtext : Bool := false
  preserves : List Bool := []        -- m_preserves, top of the stack = head
  deriving Repr

/-- `indent()`: `if (!m_ispreserve && !m_isprevtext) { if (m_startNewLine) newline; spaces(m_currentIndent) }` -/
def indentItems (e : Enc) (s : IndSt) : Out :=
  if s.on ∧ s.ispreserve = false ∧ s.isprevtext = false then do
    let nl ← if s.startNewLine then wNewline e else pure []
    pure (nl ++ (List.replicate s.cur 32).flatMap (wChar e))
  else pure []

def popPreserve (s : IndSt) : IndSt :=
  match s.preserves with
  | [] => { s with ispreserve := false }
  | b :: r => { s with ispreserve := b, preserves := r }

/-- `writeParentTagEnd`: `>` of the parent, `setPrevText(false)`, `push_preserve()` -/
def parentTagEndI (e : Enc) (st : List Bool) (s : IndSt) : List Item × List Bool × IndSt :=
  match st with
  | false :: st1 => (wChar e 62, true :: st1, { s with isprevtext := false, preserves := s.ispreserve :: s.preserves })
  | _ => ([], st, s)

def stepEventI (c : Cfg) (st : List Bool) (s : IndSt) : Event → Except Err (List Item × List Bool × IndSt)
  | .startElement name attrs => do
    let (p, st1, s1) := parentTagEndI c.enc st s
    let s2 := { s1 with ispreserve := false }
    let ind ← indentItems c.enc s2
    let s3 := { s2 with startNewLine := true }
    let n ← wName c.enc name
    let a ← writeAttrs c attrs
    pure (p ++ ind ++ wChar c.enc 60 ++ n ++ a, false :: st1, { s3 with cur := s3.cur + s3.amount, isprevtext := false })
  | .endElement name =>
    let s1 := { s with cur := s.cur - s.amount }
    match st with
    | true :: st1 => do
      let ind ← indentItems c.enc s1
      let n ← wName c.enc name
      pure (ind ++ wChar c.enc 60 ++ wChar c.enc 47 ++ n ++ wChar c.enc 62, st1, { popPreserve s1 with isprevtext := false })
    | false :: st1 =>
      pure ((if spaceBeforeClose c then wChar c.enc 32 else []) ++ wChar c.enc 47 ++ wChar c.enc 62, st1, { s1 with isprevtext := false })
    | [] => pure ((if spaceBeforeClose c then wChar c.enc 32 else []) ++ wChar c.enc 47 ++ wChar c.enc 62, [], { s1 with isprevtext := false })
  | .characters buf length =>
    if length = 0 then pure ([], st, s) else do
      let (p, st1, s1) := parentTagEndI c.enc st s
      let t ← writeCharacters c.ver c.enc (buf.take length)
      pure (p ++ t, st1, { s1 with ispreserve := true, isprevtext := true })
  | .cdata buf length =>
    if length = 0 then pure ([], st, s) else do
      let (p, st1, s1) := parentTagEndI c.enc st s
      let s2 := { s1 with ispreserve := true }
      let ind ← indentItems c.enc s2
      let t ← writeCDATA c.cdata c.ver c.enc buf length
      pure (p ++ ind ++ t, st1, { s2 with isprevtext := true })
  | .charactersRaw str => do
    let (p, st1, s1) := parentTagEndI c.enc st s
    let t ← wRaw c.enc str
    pure (p ++ t, st1, { s1 with ispreserve := true, isprevtext := true })
  | .comment data => do
    let (p, st1, s1) := parentTagEndI c.enc st s
    let ind ← indentItems c.enc s1
    let d ← writeNormalizedData c.ver c.enc data
    pure (p ++ ind ++ wChar c.enc 60 ++ wChar c.enc 33 ++ wChar c.enc 45 ++ wChar c.enc 45 ++ d
            ++ wChar c.enc 45 ++ wChar c.enc 45 ++ wChar c.enc 62, st1, { s1 with startNewLine := true })
  | .pi target data => do
    let (p, st1, s1) := parentTagEndI c.enc st s
    let ind ← indentItems c.enc s1
    let t ← wName c.enc target
    let sp := match data with
      | d0 :: _ => if isXMLWhitespace d0 then [] else wChar c.enc 32
      | [] => []
    let d ← writeNormalizedData c.ver c.enc data
    pure (p ++ ind ++ wChar c.enc 60 ++ wChar c.enc 63 ++ t ++ sp ++ d ++ wChar c.enc 63 ++ wChar c.enc 62, st1, s1)

/-- events, then `endDocument`: `setStartNewLine(true); indent()` -/
def runEventsI (c : Cfg) : List Event → List Bool → IndSt → Out
  | [], _, s => indentItems c.enc { s with startNewLine := true }
  | ev :: rest, st, s => do
    let (a, st1, s1) ← stepEventI c st s ev
    let b ← runEventsI c rest st1 s1
    pure (a ++ b)

/-- up to the first start tag (which generates the DOCTYPE declaration before anything else) -/
def runEventsDI (c : Cfg) : List Event → IndSt → Out
  | [], s => indentItems c.enc { s with startNewLine := true }
  | .startElement name attrs :: rest, s => do
    let d ← doctypeItems c name
    let r ← runEventsI c (.startElement name attrs :: rest) [] s
    pure (d ++ r)
  | ev :: rest, s => do
    let (a, _, s1) ← stepEventI c [] s ev
    let b ← runEventsDI c rest s1
    pure (a ++ b)

/-- `writeXMLHeader` ends with `m_indentHandler.outputLineSep()` when no DOCTYPE will follow -/
def headerI (c : Cfg) (on : Bool) : Out := do
  let h ← writeXMLHeader c
  let nl ← if on ∧ shouldWriteHeader c ∧ c.doctypeSystem.isEmpty then wNewline c.enc else pure []
  pure (h ++ nl)

/-- the whole document with `indent = yes` (`on`) and the given indent amount -/
def serializeItemsI (c : Cfg) (on : Bool) (amount : Nat) (evs : List Event) : Out := do
  let h ← headerI c on
  let b ← runEventsDI c evs { on := on, amount := amount }
  pure (h ++ b)

end XalanModel.C04
