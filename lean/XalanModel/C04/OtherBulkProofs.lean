import XalanModel.C04.DocProofs
/-! `XalanOtherEncodingWriter::write(const XalanDOMChar*, n)` going through the positional write (the repaired bulk path) -/
namespace XalanModel.C04
open Spec

/-- what the transcoding writer writes for raw text, on characters: the character, or one reference for it -/
def rawOther (e : Enc) (cs : List Nat) : List Nat := cs.flatMap fun c => if e.canEnc c = true then [c] else ncrText c

theorem rawOther_cons (e : Enc) (c : Nat) (cs : List Nat) :
    rawOther e (c :: cs) = (if e.canEnc c = true then [c] else ncrText c) ++ rawOther e cs := by
  simp [rawOther]

theorem otherBulkLoop_enc (e : Enc) (hk : e.kind = .other) (ha : AsciiOk e) (cs : List Nat) (hs : ∀ c ∈ cs, IsScalar c) :
    ∃ it, otherBulkLoop e (utf16Encode cs) false = .ok it ∧ unitsOf it = encodeOut .other (rawOther e cs) := by
  induction cs with
  | nil => exact ⟨[], rfl, rfl⟩
  | cons c cs ih =>
    obtain ⟨b, hb, hbu⟩ := ih (fun x hx => hs x (by simp [hx]))
    have hsc := hs c (by simp)
    rw [enc_cons, rawOther_cons, encodeOut_append]
    by_cases hb16 : c < 0x10000
    · have h16 : utf16EncodeOne c = [c] := ((decodeHead_utf16Encode c [] hsc).1 hb16).1
      obtain ⟨it, hit, hitu⟩ := wCP_bmp e ha c (utf16Encode cs) hsc hb16
      have hce : canEncOf e c = e.canEnc c := by simp [canEncOf, hk]
      rw [hce, hk] at hitu
      refine ⟨it ++ b, ?_, by rw [unitsOf_append, hitu, hbu]⟩
      rw [h16]; simp only [List.cons_append, List.nil_append, otherBulkLoop, hit, hb, bind, Except.bind, pure, Except.pure]
    · have hge : 0x10000 ≤ c := by omega
      have h16 := ((decodeHead_utf16Encode c (utf16Encode cs) hsc).2 hge).1
      have hdh := ((decodeHead_utf16Encode c (utf16Encode cs) hsc).2 hge).2
      obtain ⟨hs1, hs2⟩ := hsc
      obtain ⟨it, hit, hitu⟩ := wCP_two_other e hk c _ _ (utf16Encode cs) (by omega) hdh h16 (by omega) (by omega)
      refine ⟨it ++ b, ?_, by rw [unitsOf_append, hitu, hbu]⟩
      rw [h16]
      simp only [List.cons_append, List.nil_append, otherBulkLoop, hit, hb, bind, Except.bind, pure, Except.pure]

end XalanModel.C04
