import XalanModel.C04.Model
/-!
Helper proofs for the buffer layer: an instrumented sink that keeps *items* (not units) in its buffer
and chunks; the real sink is its erasure.  Transparency and "no chunk splits an item" follow.
-/
namespace XalanModel.C04

theorem unitsOf_append (a b : List Item) : unitsOf (a ++ b) = unitsOf a ++ unitsOf b := by
  simp [unitsOf, List.flatMap_append]

@[simp] theorem unitsOf_nil : unitsOf [] = [] := rfl
theorem unitsOf_single (it : Item) : unitsOf [it] = it.units := by simp [unitsOf]

theorem unitsOf_flatten (g : List (List Item)) : unitsOf g.flatten = (g.map unitsOf).flatten := by
  induction g with
  | nil => rfl
  | cons a t ih => simp [unitsOf_append, ih]

structure SinkI where
  cap : Nat
  chunks : List (List Item)
  buf : List Item
  fbd : Bool

def SinkI.erase (s : SinkI) : Sink := ⟨s.cap, s.chunks.map unitsOf, unitsOf s.buf, s.fbd⟩
def SinkI.remaining (s : SinkI) : Nat := s.cap - (unitsOf s.buf).length
def SinkI.flush (s : SinkI) : SinkI := { s with chunks := s.chunks ++ [s.buf], buf := [] }
def SinkI.store (s : SinkI) (it : Item) : Option SinkI :=
  if it.units.length ≤ s.remaining then some { s with buf := s.buf ++ [it] } else none

def SinkI.step (s : SinkI) (it : Item) : Option SinkI :=
  match it with
  | .one _ => (if s.remaining = 0 then s.flush else s).store it
  | .atom us => (if s.remaining < us.length then s.flush else s).store it
  | .bulk us =>
    if us.length > s.cap then
      some { (if s.fbd then s.flush else s) with chunks := (if s.fbd then s.flush else s).chunks ++ [[it]] }
    else (if s.remaining < us.length then s.flush else s).store it
  | .flushIfFull => some (if s.remaining = 0 then { s.flush with buf := [it] } else { s with buf := s.buf ++ [it] })

def SinkI.run : List Item → SinkI → Option SinkI
  | [], s => some s
  | it :: rest, s => (s.step it).bind (SinkI.run rest)

/-- all items seen so far, in order -/
def SinkI.all (s : SinkI) : List Item := s.chunks.flatten ++ s.buf

theorem SinkI.erase_remaining (s : SinkI) : s.erase.remaining = s.remaining := rfl

theorem SinkI.erase_flush (s : SinkI) : s.flush.erase = s.erase.flush := by
  simp [SinkI.flush, SinkI.erase, Sink.flush]

theorem SinkI.erase_store (s : SinkI) (it : Item) :
    (s.store it).map SinkI.erase = s.erase.store it.units := by
  unfold SinkI.store Sink.store
  rw [SinkI.erase_remaining]
  split <;> simp [SinkI.erase, unitsOf_append, unitsOf_single]

theorem SinkI.erase_step (s : SinkI) (it : Item) :
    (s.step it).map SinkI.erase = s.erase.step it := by
  have hc : s.erase.cap = s.cap := rfl
  cases it with
  | one u =>
    simp only [SinkI.step, Sink.step, SinkI.erase_remaining]
    by_cases h : s.remaining = 0
    · simp only [h, ↓reduceIte]; rw [SinkI.erase_store, SinkI.erase_flush]; rfl
    · simp only [h, ↓reduceIte]; rw [SinkI.erase_store]; rfl
  | atom us =>
    simp only [SinkI.step, Sink.step, SinkI.erase_remaining]
    by_cases h : s.remaining < us.length
    · simp only [h, ↓reduceIte]; rw [SinkI.erase_store, SinkI.erase_flush]; rfl
    · simp only [h, ↓reduceIte]; rw [SinkI.erase_store]; rfl
  | bulk us =>
    simp only [SinkI.step, Sink.step, SinkI.erase_remaining, hc]
    by_cases hb : us.length > s.cap
    · simp only [hb, ↓reduceIte]
      cases hf : s.fbd <;> simp [SinkI.erase, SinkI.flush, Sink.flush, unitsOf_single, Item.units, hf]
    · simp only [hb, ↓reduceIte]
      by_cases h : s.remaining < us.length
      · simp only [h, ↓reduceIte]; rw [SinkI.erase_store, SinkI.erase_flush]; rfl
      · simp only [h, ↓reduceIte]; rw [SinkI.erase_store]; rfl
  | flushIfFull =>
    simp only [SinkI.step, Sink.step, SinkI.erase_remaining]
    by_cases h : s.remaining = 0
    · simp only [h, ↓reduceIte]
      simp [SinkI.erase, SinkI.flush, Sink.flush, unitsOf_single, Item.units]
    · simp only [h, ↓reduceIte]
      simp [SinkI.erase, unitsOf_append, unitsOf_single, Item.units]

theorem SinkI.erase_run (items : List Item) (s : SinkI) :
    (SinkI.run items s).map SinkI.erase = Sink.run items s.erase := by
  induction items generalizing s with
  | nil => rfl
  | cons it rest ih =>
    simp only [SinkI.run, Sink.run]
    rw [← SinkI.erase_step]
    cases h : s.step it with
    | none => simp
    | some s1 => simp [ih]

theorem SinkI.step_all (s s' : SinkI) (it : Item) (hf : s.fbd = true) (h : s.step it = some s') :
    s'.all = s.all ++ [it] ∧ s'.cap = s.cap ∧ s'.fbd = true := by
  cases it with
  | one u =>
    simp only [SinkI.step, SinkI.store] at h
    split at h <;> split at h <;> simp at h <;> subst h <;> simp [SinkI.all, SinkI.flush, hf]
  | atom us =>
    simp only [SinkI.step, SinkI.store] at h
    split at h <;> split at h <;> simp at h <;> subst h <;> simp [SinkI.all, SinkI.flush, hf]
  | bulk us =>
    simp only [SinkI.step, SinkI.store, hf, ↓reduceIte] at h
    split at h
    · simp at h; subst h; simp [SinkI.all, SinkI.flush, hf]
    · split at h <;> split at h <;> simp at h <;> subst h <;> simp [SinkI.all, SinkI.flush, hf]
  | flushIfFull =>
    simp only [SinkI.step] at h
    split at h <;> simp at h <;> subst h <;> simp [SinkI.all, SinkI.flush, hf]

theorem SinkI.run_all (items : List Item) (s s' : SinkI) (hf : s.fbd = true) (h : SinkI.run items s = some s') :
    s'.all = s.all ++ items ∧ s'.cap = s.cap := by
  induction items generalizing s with
  | nil => simp [SinkI.run] at h; subst h; simp
  | cons it rest ih =>
    simp only [SinkI.run] at h
    cases h1 : s.step it with
    | none => simp [h1] at h
    | some s1 =>
      simp only [h1, Option.bind_some] at h
      obtain ⟨a1, c1, f1⟩ := SinkI.step_all s s1 it hf h1
      obtain ⟨a2, c2⟩ := ih s1 f1 h
      exact ⟨by rw [a2, a1]; simp, by rw [c2, c1]⟩

/-- invariant: the buffer never holds more than `cap` units -/
def SinkI.Inv (s : SinkI) : Prop := (unitsOf s.buf).length ≤ s.cap

theorem SinkI.store_flush_ok (s : SinkI) (it : Item) (h : it.units.length ≤ s.cap) :
    ∃ s', s.flush.store it = some s' ∧ s'.Inv := by
  have : it.units.length ≤ s.flush.remaining := by simp [SinkI.remaining, SinkI.flush]; exact h
  refine ⟨_, by unfold SinkI.store; rw [if_pos this], ?_⟩
  simp [SinkI.Inv, SinkI.flush, unitsOf_single]; exact h

theorem SinkI.store_ok (s : SinkI) (it : Item) (h : it.units.length ≤ s.remaining) (hi : s.Inv) :
    ∃ s', s.store it = some s' ∧ s'.Inv := by
  refine ⟨_, by unfold SinkI.store; rw [if_pos h], ?_⟩
  unfold SinkI.Inv SinkI.remaining at *
  simp [unitsOf_append, unitsOf_single]; omega

theorem SinkI.step_ok (s : SinkI) (it : Item) (hi : s.Inv) (hcap : 0 < s.cap)
    (hatom : ∀ us, it = .atom us → us.length ≤ s.cap) :
    ∃ s', s.step it = some s' ∧ s'.Inv := by
  cases it with
  | one u =>
    simp only [SinkI.step]
    by_cases h : s.remaining = 0
    · rw [if_pos h]; exact SinkI.store_flush_ok s _ (by simp [Item.units]; omega)
    · rw [if_neg h]; exact SinkI.store_ok s _ (by simp [Item.units]; omega) hi
  | atom us =>
    have hl := hatom us rfl
    simp only [SinkI.step]
    by_cases h : s.remaining < us.length
    · rw [if_pos h]; exact SinkI.store_flush_ok s _ (by simpa [Item.units] using hl)
    · rw [if_neg h]; exact SinkI.store_ok s _ (by simp [Item.units]; omega) hi
  | bulk us =>
    simp only [SinkI.step]
    by_cases hb : us.length > s.cap
    · rw [if_pos hb]
      refine ⟨_, rfl, ?_⟩
      cases hf : s.fbd
      · simpa [SinkI.Inv, hf] using hi
      · simp [SinkI.Inv, SinkI.flush, hf]
    · rw [if_neg hb]
      by_cases h : s.remaining < us.length
      · rw [if_pos h]; exact SinkI.store_flush_ok s _ (by simp [Item.units]; omega)
      · rw [if_neg h]; exact SinkI.store_ok s _ (by simp [Item.units]; omega) hi
  | flushIfFull =>
    simp only [SinkI.step]
    by_cases h : s.remaining = 0
    · rw [if_pos h]; exact ⟨_, rfl, by simp [SinkI.Inv, SinkI.flush, unitsOf_single, Item.units]⟩
    · rw [if_neg h]
      refine ⟨_, rfl, ?_⟩
      unfold SinkI.Inv at *
      simp [unitsOf_append, unitsOf_single, Item.units]; exact hi

theorem SinkI.step_cap (s s' : SinkI) (it : Item) (h : s.step it = some s') : s'.cap = s.cap := by
  cases it with
  | one u =>
    simp only [SinkI.step, SinkI.store] at h
    split at h <;> split at h <;> simp at h <;> subst h <;> simp [SinkI.flush]
  | atom us =>
    simp only [SinkI.step, SinkI.store] at h
    split at h <;> split at h <;> simp at h <;> subst h <;> simp [SinkI.flush]
  | bulk us =>
    simp only [SinkI.step, SinkI.store] at h
    split at h
    · simp at h; subst h; cases s.fbd <;> simp [SinkI.flush]
    · split at h <;> split at h <;> simp at h <;> subst h <;> simp [SinkI.flush]
  | flushIfFull =>
    simp only [SinkI.step] at h
    split at h <;> simp at h <;> subst h <;> simp [SinkI.flush]

theorem SinkI.run_ok (items : List Item) (s : SinkI) (hi : s.Inv) (hcap : 0 < s.cap)
    (hatom : ∀ us, Item.atom us ∈ items → us.length ≤ s.cap) :
    ∃ s', SinkI.run items s = some s' ∧ s'.Inv := by
  induction items generalizing s with
  | nil => exact ⟨s, rfl, hi⟩
  | cons it rest ih =>
    obtain ⟨s1, e1, i1⟩ := SinkI.step_ok s it hi hcap (fun us h => hatom us (by simp [h]))
    have c1 := SinkI.step_cap s s1 it e1
    obtain ⟨s2, e2, i2⟩ := ih s1 i1 (by rw [c1]; exact hcap) (fun us h => by rw [c1]; exact hatom us (by simp [h]))
    exact ⟨s2, by simp [SinkI.run, e1, e2], i2⟩

end XalanModel.C04
