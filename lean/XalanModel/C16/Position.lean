/-
C16 — the context-node-list stack and its one-entry position cache
(src/xalanc/XPath/XPathExecutionContextDefault.cpp: pushContextNodeList 248-254, popContextNodeList 258-264,
getContextNodeListPosition 288-309, getContextNodeListLength; struct ContextNodeListPositionCache in the .hpp).

`position()` is `getContextNodeListPosition(currentNode)`: the 1-based index of the node in the list on TOP of the
stack (0 when absent), answered from `m_cachedPosition` when that entry is for the same node.  The sorted body of
xsl:for-each / xsl:apply-templates runs with the SORTED list on top; every inner xsl:for-each, xsl:apply-templates,
location step and predicate pushes its own list and pops it again.  Core Lean only.
-/
namespace XalanModel.C16

/-- `indexOf(node) + 1`, or 0 when the node is not in the list -/
def indexOf1 {α : Type} [DecidableEq α] : List α → α → Nat
  | [], _ => 0
  | y :: ys, x => if y = x then 1 else (match indexOf1 ys x with | 0 => 0 | n + 1 => n + 2)

structure PosCtx (α : Type) where
  /-- `m_contextNodeListStack`, top first -/
  stack : List (List α)
  /-- `m_cachedPosition`: (m_node, m_index); `none` = cleared (m_node == 0) -/
  cache : Option (α × Nat)
deriving Repr

inductive PosOp (α : Type) where
  | push (l : List α)
  | pop
  /-- `getContextNodeListPosition(node)` -/
  | position (node : α)
  /-- `getContextNodeListLength()` -/
  | last
deriving Repr

variable {α : Type} [DecidableEq α]

def PosCtx.top (c : PosCtx α) : List α := c.stack.headD []

/-- one operation as written; the `Nat` is the value returned (0 for push/pop) -/
def posStep (c : PosCtx α) : PosOp α → PosCtx α × Nat
  | .push l => ({ stack := l :: c.stack, cache := none }, 0)              -- m_cachedPosition.clear(); push_back
  | .pop => ({ stack := c.stack.tail, cache := none }, 0)                 -- m_cachedPosition.clear(); pop_back
  | .position node =>
    match c.cache with
    | some (n, i) =>
      if n = node then (c, i)
      else
        let i' := indexOf1 c.top node
        ({ c with cache := some (node, i') }, i')
    | none =>
      let i' := indexOf1 c.top node
      ({ c with cache := some (node, i') }, i')
  | .last => (c, c.top.length)

/-- the same with `popContextNodeList` NOT clearing the cache (not the code; what the clear is for) -/
def posStepPopKeeps (c : PosCtx α) : PosOp α → PosCtx α × Nat
  | .pop => ({ stack := c.stack.tail, cache := c.cache }, 0)
  | op => posStep c op

/-- run a history, collecting the returned values -/
def posRun (step : PosCtx α → PosOp α → PosCtx α × Nat) : PosCtx α → List (PosOp α) → List Nat
  | _, [] => []
  | c, op :: rest => (step c op).2 :: posRun step (step c op).1 rest

/-- what the Recommendation says each operation returns, from the stack alone (no cache) -/
def posSpec : List (List α) → List (PosOp α) → List Nat
  | _, [] => []
  | st, .push l :: rest => 0 :: posSpec (l :: st) rest
  | st, .pop :: rest => 0 :: posSpec st.tail rest
  | st, .position node :: rest => indexOf1 (st.headD []) node :: posSpec st rest
  | st, .last :: rest => (st.headD []).length :: posSpec st rest

/-- the body of a sorted instruction for its `i`-th node `x`, with an inner construct first: push the inner list,
evaluate position() for each inner node (the last of which may be `x` itself), pop, then evaluate position() and last()
of the outer (sorted) list — nothing in between -/
def bodyOps (inner : List α) (x : α) : List (PosOp α) :=
  [PosOp.push inner] ++ inner.map PosOp.position ++ [PosOp.pop, PosOp.position x, PosOp.last]

end XalanModel.C16
