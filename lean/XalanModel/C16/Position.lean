/-
C16 — the context-node-list stack and its one-entry position cache
(src/xalanc/XPath/XPathExecutionContextDefault.cpp: pushContextNodeList 248-254, popContextNodeList 258-264,
getContextNodeListPosition 288-309, getContextNodeListLength; struct ContextNodeListPositionCache in the .hpp).

`position()` is `getContextNodeListPosition(currentNode)`: the 1-based index of the node in the list on TOP of the
stack (0 when absent), answered from `m_cachedPosition` when that entry is for the same node.  The sorted body of
xsl:for-each / xsl:apply-templates runs with the SORTED list on top; every inner xsl:for-each, xsl:apply-templates,
location step and predicate pushes its own list and pops it again.  Core Lean only.
-/
namespace XalanModel.C16

/-- `indexOf(node) + 1`, or 0 when the node is not in the list -/
def indexOf1 {α : Type} [DecidableEq α] : List α → α → Nat
  | [], _ => 0
  | y :: ys, x => if y = x then 1 else (match indexOf1 ys x with | 0 => 0 | n + 1 => n + 2)

structure PosCtx (α : Type) where
  /-- `m_contextNodeListStack`, top first -/
  stack : List (List α)
  /-- `m_cachedPosition`: (m_node, m_index); `none` = cleared (m_node == 0) -/
  cache : Option (α × Nat)
deriving Repr

inductive PosOp (α : Type) where
  | push (l : List α)
  | pop
  /-- `getContextNodeListPosition(node)` -/
  | position (node : α)
  /-- `getContextNodeListLength()` -/
  | last
deriving Repr

variable {α : Type} [DecidableEq α]

def PosCtx.top (c : PosCtx α) : List α := c.stack.headD []

/-- one operation as written; the `Nat` is the value returned (0 for push/pop) -/
def posStep (c : PosCtx α) : PosOp α → PosCtx α × Nat
  | .push l => ({ stack := l :: c.stack, cache := none }, 0)              -- m_cachedPosition.clear(); push_back
  | .pop => ({ stack := c.stack.tail, cache := none }, 0)                 -- m_cachedPosition.clear(); pop_back
  | .position node =>
    match c.cache with
    | some (n, i) =>
      if n = node then (c, i)
      else
        let i' := indexOf1 c.top node
        ({ c with cache := some (node, i') }, i')
    | none =>
      let i' := indexOf1 c.top node
      ({ c with cache := some (node, i') }, i')
  | .last => (c, c.top.length)

/-- the same with `popContextNodeList` NOT clearing the cache (not the code; what the clear is for) -/
def posStepPopKeeps (c : PosCtx α) : PosOp α → PosCtx α × Nat
  | .pop => ({ stack := c.stack.tail, cache := c.cache }, 0)
  | op => posStep c op

/-- run a history, collecting the returned values -/
def posRun (step : PosCtx α → PosOp α → PosCtx α × Nat) : PosCtx α → List (PosOp α) → List Nat
  | _, [] => []
  | c, op :: rest => (step c op).2 :: posRun step (step c op).1 rest

/-- what the Recommendation says each operation returns, from the stack alone (no cache) -/
def posSpec : List (List α) → List (PosOp α) → List Nat
  | _, [] => []
  | st, .push l :: rest => 0 :: posSpec (l :: st) rest
  | st, .pop :: rest => 0 :: posSpec st.tail rest
  | st, .position node :: rest => indexOf1 (st.headD []) node :: posSpec st rest
  | st, .last :: rest => (st.headD []).length :: posSpec st rest

/-- the body of a sorted instruction for its `i`-th node `x`, with an inner construct first: push the inner list,
evaluate position() for each inner node (the last of which may be `x` itself), pop, then evaluate position() and last()
of the outer (sorted) list — nothing in between -/
def bodyOps (inner : List α) (x : α) : List (PosOp α) :=
  [PosOp.push inner] ++ inner.map PosOp.position ++ [PosOp.pop, PosOp.position x, PosOp.last]

end XalanModel.C16

namespace XalanModel.C16
/-! ### the context a sort key is evaluated in
NodeSorter.cpp `getResult` (231-262, 375-400) evaluates key k for entry `(node, position)` by
`theXPath->execute(theNode, thePrefixResolver, theExecutionContext, theResult)` — the overload family
`execute(context, prefixResolver, executionContext, out)` with `out : double&` for data-type="number" and
`out : XalanDOMString&` for text.  That overload declares `CurrentNodePushAndPop(executionContext, context)`: the
node being sorted becomes the CURRENT node (what `current()` returns) as well as the context node.  Around the whole
sort, `sortChildren` has pushed the selected (unsorted) list as context node list (`ContextNodeListPushAndPop`), so
`position()` / `last()` inside a key are the node's place in, and the size of, the unsorted list (XSLT 1.0 §10). -/

/-- what an expression can observe of its dynamic context -/
structure KeyCtx (α : Type) where
  current : α
  context : α
  position : Nat
  size : Nat
deriving DecidableEq, Repr

/-- the relevant part of the XPath execution context: `m_currentNodeStack` (top first) and the context-list stack -/
structure XCtx (α : Type) where
  currentStack : List α
  lists : PosCtx α

variable {α : Type} [DecidableEq α]

/-- `XPath::execute(context = node, resolver, executionContext, out)` as written: push `node` as current node, evaluate
(the expression observes the returned `KeyCtx`; position() goes through the position cache), pop -/
def evalKeyAt (st : XCtx α) (node : α) : KeyCtx α × XCtx α :=
  let pushed := node :: st.currentStack                                  -- CurrentNodePushAndPop
  let r := posStep st.lists (PosOp.position node)
  (⟨pushed.headD node, node, r.2, st.lists.top.length⟩, { st with lists := r.1 })   -- … and popped again

/-- the same overload WITHOUT `CurrentNodePushAndPop` (not the code): `current()` is whatever the caller's current node is -/
def evalKeyAtNoPush (st : XCtx α) (node : α) : KeyCtx α × XCtx α :=
  let r := posStep st.lists (PosOp.position node)
  (⟨st.currentStack.headD node, node, r.2, st.lists.top.length⟩, { st with lists := r.1 })

/-- all key evaluations of one sort, in any order `order` the comparator happens to ask for them: the outer
instruction's current node is `outer`; `sortChildren` pushes the selected list -/
def keyContexts (eval : XCtx α → α → KeyCtx α × XCtx α) (outer : α) (selected : List α) : List α → XCtx α → List (KeyCtx α)
  | [], _ => []
  | x :: rest, st => (eval st x).1 :: keyContexts eval outer selected rest (eval st x).2

def sortStartCtx (outer : α) (below : List (List α)) (selected : List α) : XCtx α :=
  ⟨[outer], (posStep ⟨below, none⟩ (PosOp.push selected)).1⟩

end XalanModel.C16
