/-
C16 — a small, exact *order model* of IEEE-754 binary64 values.

A double is represented by its bit pattern split into the sign bit and the 63-bit magnitude
(exponent ‖ mantissa).  For IEEE-754 the magnitude field is monotone in |x|, so the three
predicates that `NodeSortKeyCompare::compare` uses can be stated exactly on the pattern:

  * NaN        ⇔  magnitude > 0x7FF0000000000000
  * x < y      ⇔  neither is NaN and  ord x < ord y   where  ord x = ±magnitude  (so −0 = +0)
  * x == y     ⇔  neither is NaN and  ord x = ord y

(src/xalanc/PlatformSupport/DoubleSupport.cpp:72-135: `equal`, `lessThan`, `greaterThan` test
`isNaN` on both arguments first and then use the built-in operator.)

Core Lean only (the driver imports this file).
-/
namespace XalanModel.C16

structure Dbl where
  neg : Bool
  mag : Nat
deriving DecidableEq, Repr, Inhabited

namespace Dbl

/-- magnitude field of ±Infinity -/
def infMag : Nat := 0x7FF0000000000000

def ofBits (b : Nat) : Dbl := ⟨b / 2 ^ 63 % 2 == 1, b % 2 ^ 63⟩
def toBits (x : Dbl) : Nat := (if x.neg then 2 ^ 63 else 0) + x.mag % 2 ^ 63

/-- `DoubleSupport::isNaN` (std::isnan) -/
def isNaN (x : Dbl) : Bool := decide (infMag < x.mag)

/-- position on the extended real line (only meaningful when `isNaN = false`) -/
def ord (x : Dbl) : Int := if x.neg then -(x.mag : Int) else (x.mag : Int)

/-- `DoubleSupport::equal` (DoubleSupport.cpp:72) -/
def equal (x y : Dbl) : Bool :=
  if x.isNaN == true || y.isNaN == true then false else decide (x.ord = y.ord)

/-- `DoubleSupport::lessThan` (DoubleSupport.cpp:89) -/
def lessThan (x y : Dbl) : Bool :=
  if x.isNaN == true || y.isNaN == true then false else decide (x.ord < y.ord)

/-- `DoubleSupport::greaterThan` (DoubleSupport.cpp:123) -/
def greaterThan (x y : Dbl) : Bool :=
  if x.isNaN == true || y.isNaN == true then false else decide (y.ord < x.ord)

def nan : Dbl := ⟨false, 0x7FF8000000000000⟩
def posInf : Dbl := ⟨false, infMag⟩
def negInf : Dbl := ⟨true, infMag⟩
def posZero : Dbl := ⟨false, 0⟩
def negZero : Dbl := ⟨true, 0⟩

end Dbl

/-- A string value: UTF-16 code units. -/
abbrev Str := List Nat

end XalanModel.C16
