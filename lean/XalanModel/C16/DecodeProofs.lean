import XalanModel.C16.Sort
/-
C16 helper lemmas, part 4: decoding of the xsl:sort attributes.
-/
namespace XalanModel.C16

theorem decodeSort_some (r : RawSort) (k : Key) (h : decodeSort r = some k) :
    (k.number = true ↔ r.dataType = some "number") ∧ (k.descending = true ↔ r.order = some "descending") := by
  unfold decodeSort at h
  simp only [] at h
  split at h
  · rename_i t d u ht hd hu
    simp only [Option.some.injEq] at h
    subst h
    constructor
    · cases hdt : r.dataType with
      | none => simp [hdt] at ht; simp [← ht]
      | some s =>
        simp only [hdt, Option.getD_some] at ht
        by_cases hs : s = "number"
        · subst hs; simp at ht; simp [← ht]
        · have : (s == "number") = false := by simp [hs]
          simp only [this] at ht
          constructor
          · intro htt; subst htt
            exfalso
            by_cases h1 : s.isEmpty <;> by_cases h2 : s = "text" <;> cases h3 : r.dataTypeHasNamespace <;>
              simp [h1, h2, h3] at ht
          · intro he; simp at he; exact absurd he hs
    · cases hdo : r.order with
      | none => simp [hdo] at hd; simp [← hd]
      | some s =>
        simp only [hdo, Option.getD_some] at hd
        by_cases hs : s = "descending"
        · subst hs; simp at hd; simp [← hd]
        · have : (s == "descending") = false := by simp [hs]
          simp only [this] at hd
          constructor
          · intro htt; subst htt
            exfalso
            by_cases h1 : s.isEmpty <;> by_cases h2 : s = "ascending" <;> simp [h1, h2] at hd
          · intro he; simp at he; exact absurd he hs
  · simp at h

end XalanModel.C16
