import XalanModel.C16.Dbl
import XalanModel.Generated.C16_NodeSorter
/-
C16 — model of `NodeSorter` (src/xalanc/XSLT/NodeSorter.cpp) and of the callers' handling of the
sorted list (src/xalanc/XSLT/ElemForEach.cpp).  Core Lean only.

Mirrored as written:
  * `NodeSortKeyCompare::compare`  (155-227)  → `compareFrom` (cache-free reading) and `compareM`
    (the same control flow threading the two result caches, left operand fetched before the right one);
    the numeric if-chain and the sentinel come from `Generated.C16_NodeSorter`.
  * `getNumberResult` (267-326), `getStringResult` (425-472) → `getNumberResult`, `getStringResult`
    on `Caches` (outer vector resized to the number of keys on first use, row allocated to
    `m_nodes.size()` on first use of the key, sentinel / empty string = "not evaluated").
  * `NodeSorter::sort(list)` (85-123): copy to `(node, position)` entries, `std::stable_sort`, copy back
    → `sortNodes`;  `stable_sort` is the parameter of the trusted base: a stable sort with the strict
    weak order `comp` produces the unique stable sorted permutation, modelled by `List.mergeSort` with
    `le a b := !comp b a`.  `sortNodesM` is an executable stand-in that really calls the cache-threading
    comparator (binary-insertion-free straight insertion sort); Props proves both give the same list.
  * `ElemForEach::createSelectedAndSortedNodeList` (314-325): sort only when there is at least one
    xsl:sort and more than one node → `selectAndSort`; the body sees position = index+1, last = length
    → `process`.
Externals as parameters (`Env`): the value of a sort key at a node as number / as string (XPath
evaluation, C02/C18) and the collation of two strings per key (ICU or the default functor).
-/
namespace XalanModel.C16

/-- what `sortChildren` decodes from one xsl:sort: data-type and order -/
structure Key where
  number : Bool
  descending : Bool
deriving DecidableEq, Repr, Inhabited

/-- externals: key evaluation and collation -/
structure Env (α : Type) where
  /-- `collationCompare(lhs, rhs, lang, caseOrder)` of key `k` (lang / case-order are fixed per key) -/
  scmp : Nat → Str → Str → Int
  /-- `getResult(xpath_k, node, …)` converted to a number -/
  num : Nat → α → Dbl
  /-- `getResult(xpath_k, node, …)` as a string -/
  str : Nat → α → Str

/-- `NodeSorter::VectorEntry` : (m_node, m_position) -/
abbrev Entry (α : Type) := α × Nat

section
variable {α : Type}

/-- tail of `compare` (213-224): non-zero → flip when descending; zero → next key if there is one -/
def finish (descending hasNext : Bool) (theResult : Int) (next : Int) : Int :=
  if theResult != 0 then
    (if descending == true then -theResult else theResult)
  else if hasNext then next
  else theResult

/-- `NodeSortKeyCompare::compare` read without the caches; `k` is `theKeyIndex`, the list is
`m_nodeSortKeys` from `k` on. -/
def compareFrom (env : Env α) : List Key → Nat → α → α → Int
  | [], _, _, _ => 0
  | key :: rest, k, l, r =>
    let theResult : Int :=
      if key.number == false then env.scmp k (env.str k l) (env.str k r)
      else Generated.numCompare (env.num k l) (env.num k r) 0
    finish key.descending (!rest.isEmpty) theResult (compareFrom env rest (k + 1) l r)

/-- `compare(theLHS, theRHS)` with the default `theKeyIndex = 0` -/
def compare (env : Env α) (keys : List Key) (l r : α) : Int := compareFrom env keys 0 l r

/-- `NodeSortKeyCompare::operator()` : `compare(...) < 0` -/
def less (env : Env α) (keys : List Key) (l r : α) : Bool := decide (compare env keys l r < 0)

/-! ### executable specification of the order (written from the property statement, not from the code;
nothing here refers to `Generated` or to `compareFrom`) -/

/-- numbers: NaN before every number, NaN ties with NaN, otherwise the order of the extended real line -/
def specNum (x y : Dbl) : Int :=
  if x.isNaN then (if y.isNaN then 0 else -1)
  else if y.isNaN then 1
  else if x.ord < y.ord then -1
  else if y.ord < x.ord then 1
  else 0

/-- one key: text by collation, numbers by `specNum`; descending reverses -/
def specKey (env : Env α) (key : Key) (k : Nat) (a b : α) : Int :=
  let r := if key.number then specNum (env.num k a) (env.num k b) else env.scmp k (env.str k a) (env.str k b)
  if key.descending then -r else r

/-- key list: the first key that does not tie decides -/
def specCompare (env : Env α) : List Key → Nat → α → α → Int
  | [], _, _, _ => 0
  | key :: rest, k, a, b =>
    if specKey env key k a b ≠ 0 then specKey env key k a b else specCompare env rest (k + 1) a b

/-! ### `sortChildren`: decoding of the evaluated AVTs of one xsl:sort (ElemForEach.cpp:377-492) -/

/-- the evaluated attribute value templates of one xsl:sort; `none` = attribute absent
(`ElemSort`'s constructor then supplies `data-type="text"` / `order="ascending"`; no case-order AVT) -/
structure RawSort where
  dataType : Option String
  /-- the data-type value is a QName whose prefix resolves to a non-empty namespace -/
  dataTypeHasNamespace : Bool
  order : Option String
  caseOrder : Option String
deriving Repr

/-- `none` = `error(...)` is raised (the transformation fails) -/
def decodeSort (r : RawSort) : Option Key :=
  let scratch := r.dataType.getD "text"
  -- treatAsNumbers
  let tn : Option Bool :=
    if scratch.isEmpty == false then
      if scratch == "number" then some true
      else if (scratch == "text") == false then
        (if r.dataTypeHasNamespace == false then none   -- SortDataTypeMustBe
         else some false)                               -- warn SortHasUnknownDataType, treated as text
      else some false
    else some false
  let scratch := r.order.getD "ascending"
  let desc : Option Bool :=
    if scratch.isEmpty == false then
      if scratch == "descending" then some true
      else if (scratch == "ascending") == false then none   -- SortMustBeAscendOrDescend
      else some false
    else some false
  let scratch := r.caseOrder.getD ""
  let co : Option Unit :=
    if scratch.isEmpty == false then
      if scratch == "upper-first" then some ()
      else if scratch == "lower-first" then some ()
      else none                                              -- SortCaseOrderMustBe
    else some ()
  match tn, desc, co with
  | some t, some d, some _ => some ⟨t, d⟩
  | _, _, _ => none

/-- the loop over the xsl:sort children: the first error aborts -/
def decodeSorts (rs : List RawSort) : Option (List Key) := rs.mapM decodeSort

/-! ### the caches -/

structure Caches where
  /-- `m_numberResultsCache` : per key a row, `[]` = row not allocated yet -/
  num : List (List Dbl) := []
  /-- `m_stringResultsCache` -/
  str : List (List Str) := []
  /-- ghost: log of numeric key evaluations (key index, original position), newest first -/
  numEvals : List (Nat × Nat) := []
  /-- ghost: log of string key evaluations -/
  strEvals : List (Nat × Nat) := []
deriving Repr

def Caches.empty : Caches := {}

/-- `getNumberResult`: `nkeys = m_nodeSortKeys.size()`, `n = m_nodes.size()` -/
def getNumberResult (env : Env α) (nkeys n : Nat) (c : Caches) (k : Nat) (e : Entry α) : Caches × Dbl :=
  -- if (theCache.empty()) theCache.resize(nkeys)
  let cache := if c.num.isEmpty then List.replicate nkeys [] else c.num
  let row := cache.getD k []
  if row.isEmpty == false then
    if Dbl.equal (row.getD e.2 Dbl.nan) Generated.dummyValue == true then
      let row' := row.set e.2 (env.num k e.1)
      ({ c with num := cache.set k row', numEvals := (k, e.2) :: c.numEvals }, row'.getD e.2 Dbl.nan)
    else
      ({ c with num := cache }, row.getD e.2 Dbl.nan)
  else
    -- resize(m_nodes.size(), 0); fill(dummy)
    let row0 := List.replicate n Generated.dummyValue
    let row' := row0.set e.2 (env.num k e.1)
    ({ c with num := cache.set k row', numEvals := (k, e.2) :: c.numEvals }, row'.getD e.2 Dbl.nan)

/-- `getStringResult` (string cache variant: `notCached(s) = s.empty()`) -/
def getStringResult (env : Env α) (nkeys n : Nat) (c : Caches) (k : Nat) (e : Entry α) : Caches × Str :=
  let cache := if c.str.isEmpty then List.replicate nkeys [] else c.str
  let row := cache.getD k []
  if row.isEmpty == false then
    if (row.getD e.2 []).isEmpty == true then
      let row' := row.set e.2 (env.str k e.1)
      ({ c with str := cache.set k row', strEvals := (k, e.2) :: c.strEvals }, row'.getD e.2 [])
    else
      ({ c with str := cache }, row.getD e.2 [])
  else
    let row0 : List Str := List.replicate n []
    let row' := row0.set e.2 (env.str k e.1)
    ({ c with str := cache.set k row', strEvals := (k, e.2) :: c.strEvals }, row'.getD e.2 [])

/-- `NodeSortKeyCompare::compare` with the caches threaded through, same order of effects:
left key value, right key value, then (only when the result is 0 and a next key exists) the recursion. -/
def compareFromM (env : Env α) (nkeys n : Nat) : List Key → Nat → Caches → Entry α → Entry α → Caches × Int
  | [], _, c, _, _ => (c, 0)
  | key :: rest, k, c, l, r =>
    let (c, theResult) :=
      if key.number == false then
        let (c, ls) := getStringResult env nkeys n c k l
        let (c, rs) := getStringResult env nkeys n c k r
        (c, env.scmp k ls rs)
      else
        let (c, n1) := getNumberResult env nkeys n c k l
        let (c, n2) := getNumberResult env nkeys n c k r
        (c, Generated.numCompare n1 n2 0)
    if theResult != 0 then
      (c, if key.descending == true then -theResult else theResult)
    else if !rest.isEmpty then compareFromM env nkeys n rest (k + 1) c l r
    else (c, theResult)

def compareM (env : Env α) (keys : List Key) (n : Nat) (c : Caches) (l r : Entry α) : Caches × Int :=
  compareFromM env keys.length n keys 0 c l r

/-! ### the sort -/

/-- the contract of `std::stable_sort(first, last, comp)` on a list -/
def stableSort {β : Type} (comp : β → β → Bool) (l : List β) : List β :=
  l.mergeSort (fun a b => !comp b a)

/-- the scratch vector: `push_back(value_type(theList.item(i), i))` for `i = 0 … n-1` -/
def scratch (nodes : List α) : List (Entry α) := nodes.zipIdx

/-- `NodeSorter::sort(executionContext, theList)` -/
def sortNodes (env : Env α) (keys : List Key) (nodes : List α) : List α :=
  if keys.isEmpty == false then
    ((stableSort (fun a b : Entry α => less env keys a.1 b.1) (scratch nodes)).map (·.1))
  else nodes

/-- insert `x` (which preceded every element of the list in the input) into the already sorted list:
behind every element that is strictly smaller, before the first that is not (stable), calling the
cache-threading comparator as `comp(y, x)` -/
def insertM (env : Env α) (keys : List Key) (n : Nat) (x : Entry α) : List (Entry α) → Caches → Caches × List (Entry α)
  | [], c => (c, [x])
  | y :: ys, c =>
    let (c, r) := compareM env keys n c y x
    if r < 0 then
      let (c, t) := insertM env keys n x ys c
      (c, y :: t)
    else (c, x :: y :: ys)

/-- straight insertion sort from the back (so that equal elements keep their order), threading the caches -/
def isortM (env : Env α) (keys : List Key) (n : Nat) : List (Entry α) → Caches → Caches × List (Entry α)
  | [], c => (c, [])
  | x :: xs, c =>
    let (c, s) := isortM env keys n xs c
    insertM env keys n x s c

/-- executable stand-in for `sort(list)` that goes through the caches (guards cleared the caches before,
so it starts from `Caches.empty`) -/
def sortNodesM (env : Env α) (keys : List Key) (nodes : List α) : Caches × List α :=
  if keys.isEmpty == false then
    let (c, s) := isortM env keys nodes.length (scratch nodes) Caches.empty
    (c, s.map (·.1))
  else (Caches.empty, nodes)

/-! ### the sorter as state that outlives one sort
`StylesheetExecutionContextDefault` owns ONE `NodeSorter` (`m_nodeSorter`, getNodeSorter()), `XalanTransformer` keeps that
execution context between transformations and `reset()` does not touch the sorter.  What survives from one sort to
the next is therefore exactly what the four `CollectionClearGuard` objects clear: the two result caches
(NodeSorter.cpp:64-65 in `sort()`), the scratch vector (NodeSorter.cpp:98 in `sort(list)`) and the key vector
(ElemForEach.cpp:361 in `sortChildren`).  A guard is a destructor: it runs when the scope is left normally AND when
an exception (a run-time error in a key expression or in an AVT of a later xsl:sort) propagates through it. -/

structure Sorter (α : Type) where
  caches : Caches := {}
  /-- `m_keys` -/
  keys : List Key := []
  /-- `m_scratchVector` -/
  scratch : List (Entry α) := []

def Sorter.Clean (s : Sorter α) : Prop := s.caches = Caches.empty ∧ s.keys = [] ∧ s.scratch = []

/-- how a sort can end early: an exception is thrown while the sorter holds these caches (any state the
comparator calls made so far left them in) -/
abbrev Abort := Option Caches

/-- what the destructors of the four guards do -/
def Sorter.guards (_ : Sorter α) : Sorter α := {}

/-- one `sortChildren` + `NodeSorter::sort` on the shared sorter.  The sort starts from whatever the sorter
holds (it does NOT clear anything at entry): `keys.push_back` appends to `m_keys`, the scratch vector is appended
to, the comparator reads the caches as they are.  `none` = the transformation fails with an error. -/
def sortOnce (env : Env α) (keys : List Key) (nodes : List α) (abort : Abort) (s : Sorter α) :
    Sorter α × Option (List α) :=
  let keys' := s.keys ++ keys
  let scratch' := s.scratch ++ scratch nodes
  match abort with
  | some c => (Sorter.guards { caches := c, keys := keys', scratch := scratch' }, none)
  | none =>
    if keys'.isEmpty == false then
      let r := isortM env keys' nodes.length scratch' s.caches
      (Sorter.guards { caches := r.1, keys := keys', scratch := r.2 }, some (r.2.map (·.1)))
    else (Sorter.guards { caches := s.caches, keys := keys', scratch := scratch' }, some nodes)

/-- the same with the caches cleared by plain `clear()` calls after `stable_sort` instead of guards
(not the code: used only to show what the guards are for) -/
def sortOnceNoCacheGuards (env : Env α) (keys : List Key) (nodes : List α) (abort : Abort) (s : Sorter α) :
    Sorter α × Option (List α) :=
  match abort with
  | some c => ({ caches := c, keys := [], scratch := [] }, none)      -- the clear() calls are skipped
  | none => sortOnce env keys nodes none s

/-- a transformer's life: successive sorts, some of which abort -/
structure SortReq (α : Type) where
  env : Env α
  keys : List Key
  nodes : List α
  abort : Abort

def sortMany : Sorter α → List (SortReq α) → List (Option (List α))
  | _, [] => []
  | s, q :: rest => (sortOnce q.env q.keys q.nodes q.abort s).2 :: sortMany (sortOnce q.env q.keys q.nodes q.abort s).1 rest

/-! ### re-entrant sorting
Evaluating a sort key (or an AVT of an xsl:sort) can run a whole other sort — the first reference to a top-level
variable or parameter is evaluated lazily, and its body may contain a sorted xsl:for-each / xsl:apply-templates.
The execution context has ONE `NodeSorter` (`getNodeSorter()` returns `&m_nodeSorter`).

* as it was: the inner `sortChildren` takes the same sorter while the outer sort holds it: `sortOnce` on the busy
  sorter (`sortOnceShared`) — the inner keys are appended BEHIND the outer keys (so the inner nodes are compared by
  the outer keys first; with a key that references the variable being evaluated this is the spurious "circular
  variable definition"), and at exit the guards empty the key vector, the scratch vector and the caches of the outer
  sort, which then continues on emptied vectors.
* as fixed (proposed/C16-reentrant-sorter.diff): `sortChildren` uses the shared sorter only when it is idle (its key
  vector is empty) and a private `NodeSorter` otherwise. -/

/-- the inner sort as it was: on the shared sorter, whatever it holds -/
def innerSortShared (shared : Sorter α) (q : SortReq α) : Sorter α × Option (List α) :=
  sortOnce q.env q.keys q.nodes q.abort shared

/-- the inner sort as fixed: a private sorter when the shared one is in use -/
def innerSortFixed (shared : Sorter α) (q : SortReq α) : Sorter α × Option (List α) :=
  if shared.keys.isEmpty == false then
    (shared, (sortOnce q.env q.keys q.nodes q.abort ({} : Sorter α)).2)     -- NodeSorter theLocalSorter(...)
  else sortOnce q.env q.keys q.nodes q.abort shared

/-- what happens while an outer sort is active: a comparator call of the outer sort, or a complete inner sort
triggered by a key evaluation -/
inductive SortEvent (α : Type) where
  | compare (l r : Entry α)
  | inner (q : SortReq α)

/-- results: of a comparison, or of an inner sort -/
inductive EventResult (α : Type) where
  | cmp (v : Int)
  | sorted (l : Option (List α))
deriving DecidableEq, Repr

/-- the outer sort (keys and scratch already in the sorter `s`, `n` nodes) processing events; `inner` says how an
inner sort obtains its sorter -/
def runEvents (inner : Sorter α → SortReq α → Sorter α × Option (List α)) (env : Env α) (n : Nat) :
    Sorter α → List (SortEvent α) → List (EventResult α)
  | _, [] => []
  | s, .compare l r :: rest =>
    let c := compareFromM env s.keys.length n s.keys 0 s.caches l r
    .cmp c.2 :: runEvents inner env n { s with caches := c.1 } rest
  | s, .inner q :: rest =>
    let r := inner s q
    .sorted r.2 :: runEvents inner env n r.1 rest

/-- do two of the nodes tie on all of these keys?  (A key expression placed after them is evaluated by a sort
exactly when this holds: a comparison reaches key `j` only for two nodes that tie on keys `0 … j-1`.) -/
def existsTie (env : Env α) (keys : List Key) : List α → Bool
  | [] => false
  | a :: rest => rest.any (fun b => specCompare env keys 0 a b == 0) || existsTie env keys rest

/-- `createSelectedAndSortedNodeList`: sorting happens only with ≥ 1 xsl:sort and > 1 selected node -/
def selectAndSort (env : Env α) (keys : List Key) (nodes : List α) : List α :=
  if keys.length > 0 && nodes.length > 1 then sortNodes env keys nodes else nodes

/-- what the body observes: (node, position(), last()) in processing order -/
def process (l : List α) : List (α × Nat × Nat) :=
  l.zipIdx.map fun (x, i) => (x, i + 1, l.length)

/-! ### executable specification predicate (independent of the sort algorithm) -/

/-- pure straight insertion sort (structurally recursive, so it also evaluates inside the kernel) -/
def insertP {β : Type} (comp : β → β → Bool) (x : β) : List β → List β
  | [] => [x]
  | y :: ys => if comp y x then y :: insertP comp x ys else x :: y :: ys

def isortP {β : Type} (comp : β → β → Bool) : List β → List β
  | [] => []
  | x :: xs => insertP comp x (isortP comp xs)

/-! ### a tighter model of libstdc++'s `std::stable_sort` (bits/stl_algo.h `__merge_sort_with_buffer`):
runs of `_S_chunk_size` = 7 elements sorted by insertion, then adjacent runs merged (left run first on ties),
the run length doubling until one run is left.  (The buffer juggling and the final `__merge_adaptive` of the
two halves are merges of adjacent runs as well.)  Props proves it equal to the contract `stableSort`. -/

def chunksOf {β : Type} (k : Nat) : Nat → List β → List (List β)
  | 0, _ => []
  | fuel + 1, l => if l.isEmpty then [] else l.take k :: chunksOf k fuel (l.drop k)

def mergePairs {β : Type} (le : β → β → Bool) : List (List β) → List (List β)
  | a :: b :: rest => List.merge a b le :: mergePairs le rest
  | l => l

def mergeRuns {β : Type} (le : β → β → Bool) : Nat → List (List β) → List β
  | _, [] => []
  | _, [r] => r
  | 0, runs => runs.flatten
  | fuel + 1, runs => mergeRuns le fuel (mergePairs le runs)

def libStableSort {β : Type} (comp : β → β → Bool) (l : List β) : List β :=
  mergeRuns (fun a b => !comp b a) l.length ((chunksOf 7 l.length l).map (isortP comp))


/-- `NodeSorter::sort` with the libstdc++-shaped algorithm -/
def sortNodesLib (env : Env α) (keys : List Key) (nodes : List α) : List α :=
  if keys.isEmpty == false then
    ((libStableSort (fun a b : Entry α => less env keys a.1 b.1) (scratch nodes)).map (·.1))
  else nodes

/-- adjacent elements: strictly ascending under `cmp`, or tied and in increasing original position -/
def adjOk (cmp : Nat → Nat → Int) (a b : Nat) : Bool :=
  decide (cmp a b < 0) || (decide (cmp a b = 0) && decide (a < b))

def adjacentAll (cmp : Nat → Nat → Int) : List Nat → Bool
  | [] => true
  | [_] => true
  | a :: b :: rest => adjOk cmp a b && adjacentAll cmp (b :: rest)

/-- `out` (original positions, in processing order) is the stable sorted permutation of `0 … n-1`
for the three-way comparison `cmp` on positions: a permutation of `0 … n-1` (sorting it by `<` gives
`range n`), adjacent elements in non-descending order, adjacent tied elements in increasing original
position. -/
def isStableSortedPerm (cmp : Nat → Nat → Int) (n : Nat) (out : List Nat) : Bool :=
  (isortP (fun a b => decide (a < b)) out == List.range n) && adjacentAll cmp out

/-- which clause fails (for the replay message) -/
def specVerdict (cmp : Nat → Nat → Int) (n : Nat) (out : List Nat) : String :=
  if !(isortP (fun a b => decide (a < b)) out == List.range n) then "bad not-a-permutation"
  else match (out.zip out.tail).find? (fun (a, b) => !adjOk cmp a b) with
    | some (a, b) => if cmp a b = 0 then s!"bad unstable {a} before {b}" else s!"bad order {a} before {b}"
    | none => if isStableSortedPerm cmp n out then "ok" else "bad"

end

/-! ### the language string of each key (ElemForEach.cpp sortChildren 377-392, NodeSortKey) -/

/-- as fixed (proposed/C16-sort-lang-per-key.diff): the scratch string is cleared for every xsl:sort, the lang AVT
(if any) is evaluated into it, and the `NodeSortKey` keeps a *copy* -/
def keyLangs (langs : List (Option String)) : List String := langs.map fun l => l.getD ""

/-- as written before the fix: the scratch string is only ever assigned, never cleared, and every `NodeSortKey`
keeps a *pointer* to it — so when the sort runs all keys read its final content -/
def keyLangsShared (langs : List (Option String)) : List String :=
  let final := langs.foldl (fun cur l => l.getD cur) ""
  langs.map fun _ => final

/-! ### the ICU collation functor and its collator cache
(src/xalanc/ICUBridge/ICUBridgeCollationCompareFunctorImpl.cpp: operator() 3- and 4-argument forms 378-405,
doDefaultCompare 186-201, doCompare(locale) 246-272, doCompareCached 276-317, doCompare(CollatorType&, …, caseOrder)
321-349, getCachedCollator 410-446, cacheCollator 450-476; reached from NodeSorter.cpp doCollationCompare 127-150
through StylesheetExecutionContextDefault::collationCompare).  What is modelled is *which collator settings* a
comparison is made with; the ICU comparison itself is external. -/

/-- `XalanCollationServices::eCaseOrder` -/
inductive CaseOrder where
  | dflt | upperFirst | lowerFirst
deriving DecidableEq, Repr

/-- value of the collator attribute UCOL_CASE_FIRST -/
inductive CaseFirst where
  | default_ | upperFirst | lowerFirst
deriving DecidableEq, Repr

/-- `caseOrderConvert` -/
def caseOrderConvert : CaseOrder → CaseFirst
  | .lowerFirst => .lowerFirst
  | .upperFirst => .upperFirst
  | .dflt => .default_

/-- an ICU collator object: the locale it was created for and its current UCOL_CASE_FIRST -/
structure Collator where
  locale : String
  caseFirst : CaseFirst
deriving DecidableEq, Repr

/-- `ICUBridgeCollationCompareFunctorImpl` (one per XalanTransformer; assumed valid: ICU could create the
default collator and creates every requested collator) -/
structure CollFunctor where
  /-- `m_defaultCollatorLocaleName` -/
  defaultLocaleName : String
  /-- `m_defaultCollator` -/
  defaultCollator : Collator
  /-- `m_cacheCollators` (true for XalanTransformer and the CLI) -/
  cacheCollators : Bool
  /-- `m_collatorCache`, front first; at most `eCacheMax` = 10 entries -/
  cache : List Collator
deriving Repr

def eCacheMax : Nat := 10

/-- `doCompareCached`: find the collator of the locale (moving it to the front) or create and cache one
(dropping the last entry of a full cache), then `doCompare(collator, …, caseOrder)`, which sets
UCOL_CASE_FIRST **on the cached object** before comparing.  Returns the collator state the comparison sees. -/
def doCompareCached (f : CollFunctor) (loc : String) (co : CaseOrder) : CollFunctor × Collator :=
  match f.cache.find? (fun c => c.locale == loc) with
  | some c =>
    -- getCachedCollator: splice the entry to the front
    let rest := f.cache.eraseP (fun c => c.locale == loc)
    let c' : Collator := { c with caseFirst := caseOrderConvert co }
    ({ f with cache := c' :: rest }, c')
  | none =>
    let c : Collator := ⟨loc, .default_⟩
    -- cacheCollator
    let cache1 := if f.cache.length == eCacheMax then f.cache.dropLast else f.cache
    let c' : Collator := { c with caseFirst := caseOrderConvert co }
    ({ f with cache := c' :: cache1 }, c')

/-- `doCompare(lhs, rhs, locale, caseOrder)`: a fresh collator for this one comparison -/
def doCompareFresh (f : CollFunctor) (loc : String) (co : CaseOrder) : CollFunctor × Collator :=
  (f, ⟨loc, caseOrderConvert co⟩)

/-- `operator()(lhs, rhs, caseOrder)` -/
def collate3 (f : CollFunctor) (co : CaseOrder) : CollFunctor × Collator :=
  if co == CaseOrder.dflt then (f, f.defaultCollator)          -- doDefaultCompare
  else doCompareFresh f f.defaultLocaleName co

/-- `operator()(lhs, rhs, locale, caseOrder)` -/
def collate4 (f : CollFunctor) (loc : String) (co : CaseOrder) : CollFunctor × Collator :=
  if co == CaseOrder.dflt && f.defaultLocaleName == loc then (f, f.defaultCollator)
  else if f.cacheCollators == true then doCompareCached f loc co
  else doCompareFresh f loc co

/-- NodeSorter.cpp `doCollationCompare`: the key's language string selects the form -/
def collate (f : CollFunctor) (lang : String) (co : CaseOrder) : CollFunctor × Collator :=
  if lang.isEmpty == true then collate3 f co else collate4 f lang co

/-- `ULOC_FULLNAME_CAPACITY`: `createCollator(theLocale, …)` refuses longer names with U_ILLEGAL_ARGUMENT_ERROR -/
def ulocFullnameCapacity : Nat := 157

/-- what a comparison is finally made with: an ICU collator in some state, or — when ICU cannot create the collator —
`s_defaultFunctor`, i.e. plain UTF-16 code-unit order (ICUBridgeCollationCompareFunctorImpl.cpp:262-271, 303-316) -/
inductive Comparer where
  | icu (c : Collator)
  | codeUnits
deriving DecidableEq, Repr

/-- `collate` including the failure path.  Only a caller-supplied language reaches `createCollator(theLocale, …)`;
a name that is too long is never equal to the default locale name and is never cached, so every comparison for it
falls back and the cache is left alone.  (Any shorter tag, known to ICU or not, yields a collator: ICU answers
unknown locales with the root collation and a *warning* status, which `U_SUCCESS` accepts.) -/
def collateF (f : CollFunctor) (lang : String) (co : CaseOrder) : CollFunctor × Comparer :=
  if lang.length ≥ ulocFullnameCapacity then (f, .codeUnits)
  else ((collate f lang co).1, .icu (collate f lang co).2)

/-- any sequence of comparisons (of any keys, of any number of sorts of one transformer) -/
def collateAll : CollFunctor → List (String × CaseOrder) → List Collator
  | _, [] => []
  | f, (lang, co) :: rest => (collate f lang co).2 :: collateAll (collate f lang co).1 rest

/-! ### collation given by a table (second correspondence stream: the strings are arbitrary Unicode, the
table is what the library's own ICU functor answered for every pair) -/

/-- string values are table indices: `[]` is index 0 (the empty string), `[i]` is index `i` -/
def tableIdx (s : Str) : Nat := s.headD 0

def tableCmp (m : Nat) (mat : List Int) (a b : Str) : Int := mat.getD (tableIdx a * m + tableIdx b) 0

/-- the answers form a three-way total preorder on the `m` sampled strings (the hypothesis `CollationOK`,
tested on the sample) -/
def tableOk (m : Nat) (f : Nat → Nat → Int) : Bool :=
  (List.range m).all fun i => (List.range m).all fun j =>
    (decide (f i j < 0) == decide (0 < f j i)) &&
    (List.range m).all fun k => !(decide (f i j ≤ 0) && decide (f j k ≤ 0)) || decide (f i k ≤ 0)

/-! ### concrete collation for the correspondence runs: code-unit lexicographic order -/

def strCompare : Str → Str → Int
  | [], [] => 0
  | [], _ :: _ => -1
  | _ :: _, [] => 1
  | a :: as, b :: bs => if a < b then -1 else if b < a then 1 else strCompare as bs

end XalanModel.C16
