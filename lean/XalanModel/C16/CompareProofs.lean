import XalanModel.C16.Sort
/-
C16 helper lemmas, part 1: three-way comparisons, the numeric comparison, the multi-key comparator.
-/
namespace XalanModel.C16

/-- A three-way comparison whose sign is a total preorder: `c a b < 0` "a before b", `= 0` tie.
This is what `std::stable_sort` needs from `compare(...) < 0` and what is assumed of collation. -/
structure ThreeWay {β : Type} (c : β → β → Int) : Prop where
  antisym : ∀ a b, c a b < 0 ↔ 0 < c b a
  trans : ∀ a b d, c a b ≤ 0 → c b d ≤ 0 → c a d ≤ 0

namespace ThreeWay
variable {β : Type} {c : β → β → Int}

theorem refl (h : ThreeWay c) (a : β) : c a a = 0 := by
  have := h.antisym a a; omega

theorem zero_symm (h : ThreeWay c) (a b : β) : c a b = 0 ↔ c b a = 0 := by
  have h1 := h.antisym a b; have h2 := h.antisym b a; omega

theorem le_total (h : ThreeWay c) (a b : β) : c a b ≤ 0 ∨ c b a ≤ 0 := by
  have h1 := h.antisym a b; have h2 := h.antisym b a; omega

theorem lt_trans (h : ThreeWay c) {a b d : β} (h1 : c a b < 0) (h2 : c b d < 0) : c a d < 0 := by
  have t1 := h.trans a b d (by omega) (by omega)
  have t2 := h.trans d a b
  have a1 := h.antisym a d; have a2 := h.antisym d a
  have a3 := h.antisym b d; have a4 := h.antisym d b
  omega

theorem eq_trans (h : ThreeWay c) {a b d : β} (h1 : c a b = 0) (h2 : c b d = 0) : c a d = 0 := by
  have t1 := h.trans a b d (by omega) (by omega)
  have s1 := (h.zero_symm a b).mp h1
  have s2 := (h.zero_symm b d).mp h2
  have t2 := h.trans d b a (by omega) (by omega)
  have a1 := h.antisym a d; have a2 := h.antisym d a
  omega

/-- pull back along a key function -/
theorem comap {γ : Type} (h : ThreeWay c) (f : γ → β) : ThreeWay (fun a b => c (f a) (f b)) :=
  ⟨fun a b => h.antisym (f a) (f b), fun a b d => h.trans (f a) (f b) (f d)⟩

/-- descending flip -/
theorem neg (h : ThreeWay c) : ThreeWay (fun a b => - c a b) := by
  refine ⟨fun a b => ?_, fun a b d h1 h2 => ?_⟩
  · have h1 := h.antisym a b; have h2 := h.antisym b a; omega
  · have a1 := h.antisym a b; have a2 := h.antisym b a
    have a3 := h.antisym b d; have a4 := h.antisym d b
    have a5 := h.antisym a d; have a6 := h.antisym d a
    have t := h.trans d b a
    omega

/-- lexicographic combination: the first comparison decides unless it ties -/
def lex (c1 c2 : β → β → Int) (a b : β) : Int := if c1 a b ≠ 0 then c1 a b else c2 a b

theorem lex_threeWay {c1 c2 : β → β → Int} (h1 : ThreeWay c1) (h2 : ThreeWay c2) : ThreeWay (lex c1 c2) := by
  refine ⟨fun a b => ?_, fun a b d hab hbd => ?_⟩
  · have x1 := h1.antisym a b; have x2 := h1.antisym b a; have y := h2.antisym a b
    simp only [lex]; split <;> split <;> omega
  · have x1 := h1.antisym a b; have x2 := h1.antisym b a
    have x3 := h1.antisym b d; have x4 := h1.antisym d b
    have x5 := h1.antisym a d; have x6 := h1.antisym d a
    have t1 := h1.trans a b d; have t2 := h1.trans d a b; have t3 := h1.trans b d a
    have u := h2.trans a b d
    simp only [lex] at hab hbd ⊢
    split at hab <;> split at hbd <;> split <;> omega

end ThreeWay

/-- The strict weak ordering requirements of `std::stable_sort` on a `comp` predicate. -/
structure StrictWeakOrder {β : Type} (lt : β → β → Bool) : Prop where
  irrefl : ∀ a, lt a a = false
  trans : ∀ a b d, lt a b = true → lt b d = true → lt a d = true
  /-- incomparability (`!lt a b && !lt b a`) is transitive -/
  incomp_trans : ∀ a b d, lt a b = false → lt b a = false → lt b d = false → lt d b = false →
    lt a d = false ∧ lt d a = false

theorem ThreeWay.strictWeak {β : Type} {c : β → β → Int} (h : ThreeWay c) :
    StrictWeakOrder (fun a b => decide (c a b < 0)) := by
  refine ⟨fun a => ?_, fun a b d h1 h2 => ?_, fun a b d h1 h2 h3 h4 => ?_⟩
  · simp [h.refl a]
  · simp only [decide_eq_true_eq] at h1 h2 ⊢; exact h.lt_trans h1 h2
  · simp only [decide_eq_false_iff_not] at h1 h2 h3 h4 ⊢
    have a1 := h.antisym a b; have a2 := h.antisym b a
    have a3 := h.antisym b d; have a4 := h.antisym d b
    have e := h.eq_trans (a := a) (b := b) (d := d) (by omega) (by omega)
    have e' := (h.zero_symm a d).mp e
    omega

/-! ### numbers -/

/-- specification: `x` sorts strictly before `y` as numbers — NaN is the least value -/
def numLT (x y : Dbl) : Prop :=
  (x.isNaN = true ∧ y.isNaN = false) ∨ (x.isNaN = false ∧ y.isNaN = false ∧ x.ord < y.ord)

/-- specification: tie as numbers — both NaN, or equal on the extended real line (so −0 = +0) -/
def numEQ (x y : Dbl) : Prop :=
  (x.isNaN = true ∧ y.isNaN = true) ∨ (x.isNaN = false ∧ y.isNaN = false ∧ x.ord = y.ord)

theorem numCompare_lt (x y : Dbl) : Generated.numCompare x y 0 < 0 ↔ numLT x y := by
  unfold Generated.numCompare numLT Dbl.lessThan Dbl.greaterThan
  cases hx : x.isNaN <;> cases hy : y.isNaN <;> simp <;> (try split) <;> (try split) <;> omega

theorem numCompare_eq (x y : Dbl) : Generated.numCompare x y 0 = 0 ↔ numEQ x y := by
  unfold Generated.numCompare numEQ Dbl.lessThan Dbl.greaterThan
  cases hx : x.isNaN <;> cases hy : y.isNaN <;> simp <;> (try split) <;> (try split) <;> omega

theorem numCompare_gt (x y : Dbl) : 0 < Generated.numCompare x y 0 ↔ numLT y x := by
  unfold Generated.numCompare numLT Dbl.lessThan Dbl.greaterThan
  cases hx : x.isNaN <;> cases hy : y.isNaN <;> simp <;> (try split) <;> (try split) <;> omega

theorem numCompare_threeWay' : ThreeWay (fun x y => Generated.numCompare x y 0) := by
  refine ⟨fun a b => ?_, fun a b d h1 h2 => ?_⟩
  · rw [numCompare_lt, numCompare_gt]
  · have n1 : ¬ numLT b a := by rw [← numCompare_gt]; omega
    have n2 : ¬ numLT d b := by rw [← numCompare_gt]; omega
    have n3 : ¬ numLT d a → Generated.numCompare a d 0 ≤ 0 := by rw [← numCompare_gt]; omega
    apply n3
    unfold numLT at *
    cases ha : a.isNaN <;> cases hb : b.isNaN <;> cases hd : d.isNaN <;> simp_all <;> omega

/-! ### strings: code-unit lexicographic order is a three-way total preorder -/

theorem strCompare_antisym : ∀ a b : Str, strCompare a b < 0 ↔ 0 < strCompare b a
  | [], [] => by simp [strCompare]
  | [], _ :: _ => by simp [strCompare]
  | _ :: _, [] => by simp [strCompare]
  | x :: xs, y :: ys => by
    have ih := strCompare_antisym xs ys
    simp only [strCompare]
    split <;> split <;> (try split) <;> (try split) <;> omega

theorem strCompare_trans : ∀ a b d : Str, strCompare a b ≤ 0 → strCompare b d ≤ 0 → strCompare a d ≤ 0
  | [], [], [] => by simp [strCompare]
  | [], [], _ :: _ => by simp [strCompare]
  | [], _ :: _, [] => by simp [strCompare]
  | [], _ :: _, _ :: _ => by simp [strCompare]
  | _ :: _, [], _ => by simp [strCompare]
  | _ :: _, _ :: _, [] => by simp [strCompare]
  | x :: xs, y :: ys, z :: zs => by
    have ih := strCompare_trans xs ys zs
    simp only [strCompare]
    intro h1 h2
    split at h1 <;> split at h2 <;> (try split at h1) <;> (try split at h2) <;> split <;> (try split) <;> omega

/-! ### the multi-key comparator -/

section
variable {α : Type}

/-- what key `k` alone says about `l` and `r` before the descending flip -/
def baseCmp (env : Env α) (key : Key) (k : Nat) (l r : α) : Int :=
  if key.number == false then env.scmp k (env.str k l) (env.str k r)
  else Generated.numCompare (env.num k l) (env.num k r) 0

/-- … and after it -/
def keyCmp (env : Env α) (key : Key) (k : Nat) (l r : α) : Int :=
  if key.descending == true then - baseCmp env key k l r else baseCmp env key k l r

theorem compareFrom_cons (env : Env α) (key : Key) (rest : List Key) (k : Nat) (l r : α) :
    compareFrom env (key :: rest) k l r =
      ThreeWay.lex (keyCmp env key k) (compareFrom env rest (k + 1)) l r := by
  simp only [compareFrom, finish, ThreeWay.lex, keyCmp, baseCmp]
  cases rest with
  | nil =>
    simp only [compareFrom, List.isEmpty_nil, Bool.not_true]
    split <;> split <;> simp_all <;> omega
  | cons k2 rest =>
    simp only [List.isEmpty_cons, Bool.not_false]
    split <;> split <;> simp_all <;> omega

/-- collation of every key is a three-way total preorder (hypothesis on ICU / the default functor) -/
def CollationOK (env : Env α) : Prop := ∀ k, ThreeWay (env.scmp k)

theorem keyCmp_threeWay (env : Env α) (hc : CollationOK env) (key : Key) (k : Nat) :
    ThreeWay (keyCmp env key k) := by
  have hb : ThreeWay (baseCmp env key k) := by
    unfold baseCmp
    cases key.number
    · simpa using (hc k).comap (env.str k)
    · simpa using numCompare_threeWay'.comap (env.num k)
  unfold keyCmp
  cases key.descending
  · simpa using hb
  · simpa using hb.neg

theorem compareFrom_threeWay (env : Env α) (hc : CollationOK env) :
    ∀ (keys : List Key) (k : Nat), ThreeWay (compareFrom env keys k)
  | [], _ => ⟨fun _ _ => by simp [compareFrom], fun _ _ _ _ _ => by simp [compareFrom]⟩
  | key :: rest, k => by
    have h := ThreeWay.lex_threeWay (keyCmp_threeWay env hc key k) (compareFrom_threeWay env hc rest (k + 1))
    have e : compareFrom env (key :: rest) k = ThreeWay.lex (keyCmp env key k) (compareFrom env rest (k + 1)) := by
      funext l r; exact compareFrom_cons env key rest k l r
    rw [e]; exact h

/-! specification of the order, written without reference to the code -/

/-- on key `k` alone, `a` goes strictly before `b` -/
def keyLT (env : Env α) (key : Key) (k : Nat) (a b : α) : Prop :=
  match key.number, key.descending with
  | false, false => env.scmp k (env.str k a) (env.str k b) < 0
  | false, true => 0 < env.scmp k (env.str k a) (env.str k b)
  | true, false => numLT (env.num k a) (env.num k b)
  | true, true => numLT (env.num k b) (env.num k a)

/-- on key `k` alone, `a` and `b` tie -/
def keyEQ (env : Env α) (key : Key) (k : Nat) (a b : α) : Prop :=
  match key.number with
  | false => env.scmp k (env.str k a) (env.str k b) = 0
  | true => numEQ (env.num k a) (env.num k b)

/-- lexicographic: the first key (most significant) on which they do not tie decides -/
def lexLT (env : Env α) : List Key → Nat → α → α → Prop
  | [], _, _, _ => False
  | key :: rest, k, a, b => keyLT env key k a b ∨ (keyEQ env key k a b ∧ lexLT env rest (k + 1) a b)

/-- tie on every key -/
def lexEQ (env : Env α) : List Key → Nat → α → α → Prop
  | [], _, _, _ => True
  | key :: rest, k, a, b => keyEQ env key k a b ∧ lexEQ env rest (k + 1) a b

theorem keyCmp_lt (env : Env α) (key : Key) (k : Nat) (a b : α) :
    keyCmp env key k a b < 0 ↔ keyLT env key k a b := by
  unfold keyCmp baseCmp keyLT
  cases key.number <;> cases key.descending <;> simp
  · rw [← numCompare_lt]
  · rw [← numCompare_gt]

theorem keyCmp_eq (env : Env α) (key : Key) (k : Nat) (a b : α) :
    keyCmp env key k a b = 0 ↔ keyEQ env key k a b := by
  unfold keyCmp baseCmp keyEQ
  cases key.number <;> cases key.descending <;> simp
  · rw [← numCompare_eq]
  · rw [← numCompare_eq]

theorem compareFrom_lt (env : Env α) : ∀ (keys : List Key) (k : Nat) (a b : α),
    compareFrom env keys k a b < 0 ↔ lexLT env keys k a b
  | [], _, _, _ => by simp [compareFrom, lexLT]
  | key :: rest, k, a, b => by
    rw [compareFrom_cons]
    have ih := compareFrom_lt env rest (k + 1) a b
    have h1 := keyCmp_lt env key k a b
    have h2 := keyCmp_eq env key k a b
    simp only [ThreeWay.lex, lexLT]
    split
    · rename_i hne
      constructor
      · intro h; exact Or.inl (h1.mp h)
      · rintro (h | ⟨h, _⟩)
        · exact h1.mpr h
        · exact absurd (h2.mpr h) hne
    · rename_i he
      have he : keyCmp env key k a b = 0 := by omega
      constructor
      · intro h; exact Or.inr ⟨h2.mp he, ih.mp h⟩
      · rintro (h | ⟨_, h⟩)
        · have := h1.mpr h; omega
        · exact ih.mpr h

theorem compareFrom_eq (env : Env α) : ∀ (keys : List Key) (k : Nat) (a b : α),
    compareFrom env keys k a b = 0 ↔ lexEQ env keys k a b
  | [], _, _, _ => by simp [compareFrom, lexEQ]
  | key :: rest, k, a, b => by
    rw [compareFrom_cons]
    have ih := compareFrom_eq env rest (k + 1) a b
    have h2 := keyCmp_eq env key k a b
    simp only [ThreeWay.lex, lexEQ]
    split
    · rename_i hne
      constructor
      · intro h; exact absurd h hne
      · rintro ⟨h, _⟩; exact absurd (h2.mpr h) hne
    · rename_i he
      have he : keyCmp env key k a b = 0 := by omega
      constructor
      · intro h; exact ⟨h2.mp he, ih.mp h⟩
      · rintro ⟨_, h⟩; exact ih.mpr h

/-! ### the code's comparison is the executable specification -/

theorem numCompare_eq_specNum (x y : Dbl) : Generated.numCompare x y 0 = specNum x y := by
  unfold Generated.numCompare specNum Dbl.lessThan Dbl.greaterThan
  cases hx : x.isNaN <;> cases hy : y.isNaN <;> simp <;> (try split) <;> (try split) <;> (try omega) <;> rfl

theorem compareFrom_eq_specCompare (env : Env α) : ∀ (keys : List Key) (k : Nat) (a b : α),
    compareFrom env keys k a b = specCompare env keys k a b
  | [], _, _, _ => rfl
  | key :: rest, k, a, b => by
    rw [compareFrom_cons, specCompare, ← compareFrom_eq_specCompare env rest (k + 1) a b]
    have : keyCmp env key k a b = specKey env key k a b := by
      unfold keyCmp baseCmp specKey
      cases key.number <;> cases key.descending <;> simp [numCompare_eq_specNum]
    simp only [ThreeWay.lex, this]

end

/-! ### keys after a deciding prefix are never consulted -/

section
variable {α : Type}
theorem compareFrom_prefix (env : Env α) : ∀ (pre rest : List Key) (k : Nat) (a b : α),
    compareFrom env pre k a b ≠ 0 → compareFrom env (pre ++ rest) k a b = compareFrom env pre k a b
  | [], _, _, _, _, h => absurd (by simp [compareFrom]) h
  | key :: pre, rest, k, a, b, h => by
    rw [List.cons_append, compareFrom_cons, compareFrom_cons]
    rw [compareFrom_cons] at h
    simp only [ThreeWay.lex] at h ⊢
    split
    · rfl
    · rename_i h0
      rw [if_neg h0] at h
      exact compareFrom_prefix env pre rest (k + 1) a b h
end

/-! ### a finite table that passes `tableOk` is a three-way total preorder on its indices -/

theorem tableOk_threeWay' (m : Nat) (f : Nat → Nat → Int) (h : tableOk m f = true) :
    ThreeWay (fun a b : Fin m => f a.1 b.1) := by
  simp only [tableOk, List.all_eq_true, List.mem_range, Bool.and_eq_true, Bool.or_eq_true,
    Bool.not_eq_true', Bool.and_eq_false_iff, decide_eq_true_eq, decide_eq_false_iff_not, beq_iff_eq, decide_eq_decide] at h
  refine ⟨fun a b => (h a.1 a.2 b.1 b.2).1, fun a b d h1 h2 => ?_⟩
  have := (h a.1 a.2 b.1 b.2).2 d.1 d.2
  omega

end XalanModel.C16
