import XalanModel.C16.CompareProofs
/-
C16 helper lemmas, part 2: the sort (List.mergeSort under the comparator), insertion sort = merge sort,
uniqueness of the stable sorted permutation, the executable predicate.
-/
namespace XalanModel.C16

section
variable {β : Type}

/-- `le a b := !comp b a` for `comp a b := c a b < 0` -/
theorem le_of_threeWay_trans {c : β → β → Int} (h : ThreeWay c) (a b d : β)
    (h1 : (!decide (c b a < 0)) = true) (h2 : (!decide (c d b < 0)) = true) : (!decide (c d a < 0)) = true := by
  simp only [Bool.not_eq_true', decide_eq_false_iff_not] at h1 h2 ⊢
  have a1 := h.antisym a b; have a2 := h.antisym b a
  have a3 := h.antisym b d; have a4 := h.antisym d b
  have a5 := h.antisym a d; have a6 := h.antisym d a
  have t := h.trans a b d
  omega

theorem le_of_threeWay_total {c : β → β → Int} (h : ThreeWay c) (a b : β) :
    ((!decide (c b a < 0)) || (!decide (c a b < 0))) = true := by
  have a1 := h.antisym a b
  by_cases h1 : c b a < 0 <;> by_cases h2 : c a b < 0 <;> simp [h1, h2]
  omega

/-! ### pure insertion sort and its equality with merge sort -/

theorem insertP_append (comp : β → β → Bool) (x : β) (l₁ l₂ : List β)
    (h1 : ∀ b ∈ l₁, comp b x = true) (h2 : ∀ b ∈ l₂.head?, comp b x = false) :
    insertP comp x (l₁ ++ l₂) = l₁ ++ x :: l₂ := by
  induction l₁ with
  | nil =>
    cases l₂ with
    | nil => rfl
    | cons b l₂ => simp [insertP, h2 b (by simp)]
  | cons a l₁ ih =>
    simp only [List.cons_append, insertP, h1 a (by simp), if_true]
    rw [ih (fun b hb => h1 b (by simp [hb]))]

theorem isortP_eq_mergeSort (comp : β → β → Bool)
    (trans : ∀ a b d : β, (!comp b a) = true → (!comp d b) = true → (!comp d a) = true)
    (total : ∀ a b : β, ((!comp b a) || (!comp a b)) = true) :
    ∀ l : List β, isortP comp l = l.mergeSort (fun a b => !comp b a)
  | [] => by simp [isortP]
  | x :: xs => by
    have ih := isortP_eq_mergeSort comp trans total xs
    obtain ⟨l₁, l₂, e1, e2, hlt⟩ := List.mergeSort_cons (le := fun a b => !comp b a) trans total x xs
    have hs := List.pairwise_mergeSort (le := fun a b => !comp b a) trans total (x :: xs)
    rw [e1] at hs
    simp only [isortP, ih, e2, e1]
    apply insertP_append
    · intro b hb; simpa using hlt b hb
    · intro b hb
      have hb' : b ∈ l₂ := by
        cases l₂ with
        | nil => simp at hb
        | cons c l₂ => simp at hb; simp [hb]
      have := (List.pairwise_append.mp hs).2.1
      have := List.rel_of_pairwise_cons this hb'
      simpa using this

end

/-! ### uniqueness of the stable sorted permutation -/

section
variable {α : Type}

/-- the order that a stable sort establishes between tagged entries: strictly before under `c`,
or tied and not later in the input -/
def StableLE (c : α → α → Int) (a b : α × Nat) : Prop :=
  c a.1 b.1 < 0 ∨ (c a.1 b.1 = 0 ∧ a.2 ≤ b.2)

theorem stableLE_iff_zipIdxLE {c : α → α → Int} (h : ThreeWay c) (a b : α × Nat) :
    StableLE c a b ↔ List.zipIdxLE (fun x y => !decide (c y x < 0)) a b = true := by
  have a1 := h.antisym a.1 b.1; have a2 := h.antisym b.1 a.1
  unfold StableLE List.zipIdxLE
  by_cases h1 : c b.1 a.1 < 0 <;> by_cases h2 : c a.1 b.1 < 0 <;> simp [h1, h2] <;> omega

/-- sorting the tagged list by the tie-breaking order and forgetting the tags is the plain stable sort -/
theorem mergeSort_eq_tagged (le : α → α → Bool) (l : List α) :
    l.mergeSort le = ((l.zipIdx).mergeSort (List.zipIdxLE le)).map (·.1) :=
  (List.mergeSort_zipIdx (le := le) (l := l)).symm

theorem stable_unique {c : α → α → Int} (h : ThreeWay c) (nodes : List α) (out : List (α × Nat))
    (hperm : out.Perm nodes.zipIdx) (hsorted : out.Pairwise (StableLE c)) :
    out.map (·.1) = nodes.mergeSort (fun x y => !decide (c y x < 0)) := by
  let le : α → α → Bool := fun x y => !decide (c y x < 0)
  have tr : ∀ a b d : α, le a b = true → le b d = true → le a d = true :=
    fun a b d h1 h2 => le_of_threeWay_trans h a b d h1 h2
  have tot : ∀ a b : α, (le a b || le b a) = true := fun a b => le_of_threeWay_total h a b
  rw [mergeSort_eq_tagged]
  congr 1
  have hT := List.pairwise_mergeSort (le := List.zipIdxLE le) (List.zipIdxLE_trans tr) (List.zipIdxLE_total tot) nodes.zipIdx
  have hTp := List.mergeSort_perm nodes.zipIdx (List.zipIdxLE le)
  apply List.Perm.eq_of_pairwise (le := fun a b => List.zipIdxLE le a b = true)
  · intro a b ha hb hab hba
    have ma : a ∈ nodes.zipIdx := hperm.subset ha
    have mb : b ∈ nodes.zipIdx := hTp.subset hb
    rw [List.mem_zipIdx_iff_getElem?] at ma mb
    have e1 := (stableLE_iff_zipIdxLE h a b).mpr hab
    have e2 := (stableLE_iff_zipIdxLE h b a).mpr hba
    have a1 := h.antisym a.1 b.1; have a2 := h.antisym b.1 a.1
    have z := h.zero_symm a.1 b.1
    have hidx : a.2 = b.2 := by
      unfold StableLE at e1 e2; omega
    rw [hidx] at ma
    have : a.1 = b.1 := by rw [ma] at mb; exact Option.some.inj mb
    exact Prod.ext this hidx
  · exact hsorted.imp (fun {a b} hab => (stableLE_iff_zipIdxLE h a b).mp hab)
  · exact hT
  · exact hperm.trans hTp.symm

end


/-! ### `sortNodes` is the merge sort of the node list under `le a b := !(compare b a < 0)` -/

section
variable {α : Type}

def leOf (env : Env α) (keys : List Key) (a b : α) : Bool := !decide (compare env keys b a < 0)

theorem sortNodes_eq_mergeSort (env : Env α) (keys : List Key) (nodes : List α) :
    sortNodes env keys nodes = nodes.mergeSort (leOf env keys) := by
  unfold sortNodes
  cases keys with
  | nil =>
    simp only [List.isEmpty_nil]
    symm
    apply List.mergeSort_of_pairwise
    simp only [leOf, compare, compareFrom]
    exact List.pairwise_of_forall (fun _ _ => by simp)
  | cons key rest =>
    simp only [List.isEmpty_cons, stableSort, scratch]
    rw [List.map_mergeSort (s := leOf env (key :: rest)) (f := fun e : α × Nat => e.1)]
    · have : List.map (fun e : α × Nat => e.1) nodes.zipIdx = nodes := List.zipIdx_map_fst 0 nodes
      rw [this]; simp
    · intro a _ b _; rfl

theorem leOf_trans (env : Env α) (hc : CollationOK env) (keys : List Key) (a b d : α) :
    leOf env keys a b = true → leOf env keys b d = true → leOf env keys a d = true :=
  le_of_threeWay_trans (compareFrom_threeWay env hc keys 0) a b d

theorem leOf_total (env : Env α) (hc : CollationOK env) (keys : List Key) (a b : α) :
    (leOf env keys a b || leOf env keys b a) = true :=
  le_of_threeWay_total (compareFrom_threeWay env hc keys 0) a b

theorem leOf_iff (env : Env α) (keys : List Key) (a b : α) :
    leOf env keys a b = true ↔ ¬ lexLT env keys 0 b a := by
  unfold leOf compare
  rw [← compareFrom_lt]
  simp

end

/-! ### the executable predicate on positions -/

theorem adjacentAll_pairwise {c : Nat → Nat → Int} (h : ThreeWay c) :
    ∀ out : List Nat, adjacentAll c out = true → out.Pairwise (fun a b => c a b < 0 ∨ (c a b = 0 ∧ a < b))
  | [] => by simp
  | [_] => by simp
  | a :: b :: rest => by
    intro hadj
    simp only [adjacentAll, Bool.and_eq_true] at hadj
    have ih := adjacentAll_pairwise h (b :: rest) hadj.2
    have hab : c a b < 0 ∨ (c a b = 0 ∧ a < b) := by
      have := hadj.1; simp only [adjOk, Bool.or_eq_true, Bool.and_eq_true, decide_eq_true_eq] at this; exact this
    refine List.Pairwise.cons ?_ ih
    intro x hx
    rcases List.mem_cons.mp hx with rfl | hx
    · exact hab
    · have hbx := List.rel_of_pairwise_cons ih hx
      have a1 := h.antisym a b; have a2 := h.antisym b x; have a3 := h.antisym a x
      have a4 := h.antisym x a; have a5 := h.antisym b a; have a6 := h.antisym x b
      have t1 := h.trans a b x; have t2 := h.trans x a b; have t3 := h.trans b x a
      omega

theorem zipIdx_range (n : Nat) : (List.range n).zipIdx = (List.range n).map (fun i => (i, i)) := by
  apply List.ext_getElem?
  intro i
  simp only [List.getElem?_zipIdx, List.getElem?_map]
  by_cases h : i < n <;> simp [h]

/-! ### completeness of the executable predicate -/

theorem adjacentAll_of_pairwise (c : Nat → Nat → Int) :
    ∀ out : List Nat, out.Pairwise (fun a b => c a b < 0 ∨ (c a b = 0 ∧ a < b)) → adjacentAll c out = true
  | [], _ => rfl
  | [_], _ => rfl
  | a :: b :: rest, h => by
    simp only [adjacentAll, Bool.and_eq_true]
    refine ⟨?_, adjacentAll_of_pairwise c (b :: rest) h.tail⟩
    have := List.rel_of_pairwise_cons h (List.mem_cons_self)
    simpa [adjOk] using this

/-- the stable sort of `0 … n-1` is sorted for the tie-breaking strict order -/
theorem mergeSort_range_pairwise {c : Nat → Nat → Int} (h : ThreeWay c) (n : Nat) :
    ((List.range n).mergeSort (fun x y => !decide (c y x < 0))).Pairwise
      (fun a b => c a b < 0 ∨ (c a b = 0 ∧ a < b)) := by
  let le : Nat → Nat → Bool := fun x y => !decide (c y x < 0)
  have tr : ∀ a b d : Nat, le a b = true → le b d = true → le a d = true :=
    fun a b d h1 h2 => le_of_threeWay_trans h a b d h1 h2
  have tot : ∀ a b : Nat, (le a b || le b a) = true := fun a b => le_of_threeWay_total h a b
  rw [mergeSort_eq_tagged]
  have hT := List.pairwise_mergeSort (le := List.zipIdxLE le) (List.zipIdxLE_trans tr) (List.zipIdxLE_total tot) (List.range n).zipIdx
  have hTp := List.mergeSort_perm (List.range n).zipIdx (List.zipIdxLE le)
  have hnd0 : (List.range n).zipIdx.Pairwise (fun a b => a.2 ≠ b.2) := by
    have : ((List.range n).zipIdx.map Prod.snd).Nodup := by
      rw [List.zipIdx_map_snd]; exact List.nodup_range'
    exact List.pairwise_map.mp this
  have hnd : ((List.range n).zipIdx.mergeSort (List.zipIdxLE le)).Pairwise (fun a b => a.2 ≠ b.2) :=
    hTp.symm.pairwise hnd0 (fun h e => h e.symm)
  rw [List.pairwise_map]
  have hboth := hT.and hnd
  refine hboth.imp_of_mem ?_
  intro a b ha hb hab
  have ma : a ∈ (List.range n).zipIdx := hTp.subset ha
  have mb : b ∈ (List.range n).zipIdx := hTp.subset hb
  rw [List.mem_zipIdx_iff_getElem?] at ma mb
  have ea : a.1 = a.2 := by
    obtain ⟨_, he⟩ := List.getElem?_eq_some_iff.mp ma
    simpa using he.symm
  have eb : b.1 = b.2 := by
    obtain ⟨_, he⟩ := List.getElem?_eq_some_iff.mp mb
    simpa using he.symm
  have hs := (stableLE_iff_zipIdxLE h a b).mpr hab.1
  have : a.2 ≠ b.2 := hab.2
  unfold StableLE at hs
  omega


theorem isortP_lt_of_perm_range (out : List Nat) (n : Nat) (h : out.Perm (List.range n)) :
    isortP (fun a b => decide (a < b)) out = List.range n := by
  have tr : ∀ a b d : Nat, (!decide (b < a)) = true → (!decide (d < b)) = true → (!decide (d < a)) = true := by
    intro a b d h1 h2; simp at h1 h2 ⊢; omega
  have tot : ∀ a b : Nat, ((!decide (b < a)) || (!decide (a < b))) = true := by
    intro a b; simp; omega
  rw [isortP_eq_mergeSort (fun a b : Nat => decide (a < b)) tr tot]
  apply List.Perm.eq_of_pairwise (le := fun a b : Nat => a ≤ b)
  · intro a b _ _ h1 h2; omega
  · exact (List.pairwise_mergeSort (le := fun a b : Nat => !decide (b < a)) tr tot out).imp
      (fun {a b} hab => by simp at hab; exact hab)
  · exact List.pairwise_lt_range.imp (fun {a b} hab => Nat.le_of_lt hab)
  · exact (List.mergeSort_perm _ _).trans h

end XalanModel.C16
