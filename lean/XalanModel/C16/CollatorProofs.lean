import XalanModel.C16.Sort
/-
C16 helper lemmas, part 5: the collator cache never lets a comparison see another key's settings.
-/
namespace XalanModel.C16

/-- the settings xsl:sort prescribes for a key with this `lang` / `case-order` -/
def ownSettings (f : CollFunctor) (lang : String) (co : CaseOrder) : Collator :=
  ⟨if lang.isEmpty then f.defaultLocaleName else lang, caseOrderConvert co⟩

/-- the default collator is never touched: it keeps the default locale and the default UCOL_CASE_FIRST -/
def FunctorOK (f : CollFunctor) : Prop := f.defaultCollator = ⟨f.defaultLocaleName, .default_⟩

theorem find?_locale {l : List Collator} {loc : String} {c : Collator}
    (h : l.find? (fun c => c.locale == loc) = some c) : c.locale = loc := by
  have := List.find?_some h
  simpa using this

theorem collate_own (f : CollFunctor) (h : FunctorOK f) (lang : String) (co : CaseOrder) :
    (collate f lang co).2 = ownSettings f lang co ∧
    FunctorOK (collate f lang co).1 ∧
    (collate f lang co).1.defaultLocaleName = f.defaultLocaleName := by
  unfold FunctorOK at h
  unfold collate ownSettings collate3 collate4 doCompareFresh doCompareCached FunctorOK
  cases hl : lang.isEmpty
  · -- a language is given: 4-argument form
    by_cases hco : co = CaseOrder.dflt <;> by_cases hloc : f.defaultLocaleName = lang <;>
      cases hc : f.cacheCollators <;>
      rcases hf : f.cache.find? (fun c => c.locale == lang) with _ | c <;>
      (try have hcl := find?_locale hf) <;> simp only [hf] <;> simp_all [caseOrderConvert]
  · -- no language: 3-argument form
    by_cases hco : co = CaseOrder.dflt <;> simp_all [caseOrderConvert]

theorem collateAll_own : ∀ (reqs : List (String × CaseOrder)) (f : CollFunctor), FunctorOK f →
    collateAll f reqs = reqs.map (fun r => ownSettings f r.1 r.2)
  | [], _, _ => rfl
  | (lang, co) :: rest, f, h => by
    obtain ⟨h1, h2, h3⟩ := collate_own f h lang co
    simp only [collateAll, List.map_cons, h1]
    rw [collateAll_own rest _ h2]
    congr 1
    apply List.map_congr_left
    intro r _
    simp only [ownSettings, h3]

/-- the cache never exceeds `eCacheMax` entries -/
theorem collate_cache_bound (f : CollFunctor) (h : f.cache.length ≤ eCacheMax) (lang : String) (co : CaseOrder) :
    (collate f lang co).1.cache.length ≤ eCacheMax := by
  unfold collate collate3 collate4 doCompareFresh doCompareCached
  split
  · split <;> exact h
  · split
    · exact h
    · split
      · split
        · rename_i c hf
          have hm : c ∈ f.cache := List.mem_of_find?_eq_some hf
          have hp : (c.locale == lang) = true := by simpa using List.find?_some hf
          simp only [List.length_cons]
          rw [List.length_eraseP_of_mem hm hp]
          have : 0 < f.cache.length := List.length_pos_of_mem hm
          omega
        · simp only [List.length_cons]
          split
          · rename_i he
            simp only [beq_iff_eq] at he
            simp [List.length_dropLast, he, eCacheMax]
          · rename_i he
            simp only [beq_iff_eq] at he
            omega
      · exact h

end XalanModel.C16
