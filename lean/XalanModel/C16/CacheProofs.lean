import XalanModel.C16.SortProofs
/-
C16 helper lemmas, part 3: the two result caches are transparent.

Both `getNumberResult` and `getStringResult` are instances of one shape (`getGeneric`): an outer vector
resized on first use, a row per key allocated on first use and filled with a "not evaluated" marker, a
slot that is (re)computed when it holds the marker.  The invariant is "every allocated slot holds the
marker or the key value of that position"; the only thing needed of the marker test is that it accepts
the marker itself (`notCached blank = true`) — for numbers that is `dummyValue` not being NaN.
-/
namespace XalanModel.C16

section generic
variable {β : Type}

theorem getD_set_self {l : List β} {i : Nat} {v d : β} (h : i < l.length) : (l.set i v).getD i d = v := by
  simp [List.getD_eq_getElem?_getD, h]

theorem getD_set_ne {l : List β} {i j : Nat} {v d : β} (h : i ≠ j) : (l.set i v).getD j d = l.getD j d := by
  simp [List.getD_eq_getElem?_getD, h]

theorem getD_replicate {n i : Nat} {v d : β} (h : i < n) : (List.replicate n v).getD i d = v := by
  simp [List.getD_eq_getElem?_getD, h]

theorem getD_replicate_nil {n i : Nat} : (List.replicate n ([] : List β)).getD i [] = [] := by
  by_cases h : i < n
  · exact getD_replicate h
  · simp [List.getD_eq_getElem?_getD, h]

/-- common shape of getNumberResult / getStringResult: returns (cache', result, evaluated?) -/
def getGeneric (notCached : β → Bool) (blank dflt v : β) (nkeys n : Nat)
    (cache0 : List (List β)) (k pos : Nat) : List (List β) × β × Bool :=
  let cache := if cache0.isEmpty then List.replicate nkeys [] else cache0
  let row := cache.getD k []
  if row.isEmpty == false then
    if notCached (row.getD pos dflt) == true then
      let row' := row.set pos v
      (cache.set k row', row'.getD pos dflt, true)
    else (cache, row.getD pos dflt, false)
  else
    let row' := (List.replicate n blank).set pos v
    (cache.set k row', row'.getD pos dflt, true)

def RowOk (blank dflt : β) (val : Nat → β) (n : Nat) (row : List β) : Prop :=
  row = [] ∨ (row.length = n ∧ ∀ p, p < n → row.getD p dflt = blank ∨ row.getD p dflt = val p)

def RowsOk (blank dflt : β) (val : Nat → Nat → β) (nkeys n : Nat) (cache : List (List β)) : Prop :=
  cache = [] ∨ (cache.length = nkeys ∧ ∀ k, k < nkeys → RowOk blank dflt (val k) n (cache.getD k []))

theorem getGeneric_ok (notCached : β → Bool) (blank dflt v : β) (val : Nat → Nat → β) (nkeys n : Nat)
    (cache0 : List (List β)) (k pos : Nat)
    (hb : notCached blank = true) (hinv : RowsOk blank dflt val nkeys n cache0)
    (hk : k < nkeys) (hp : pos < n) (hv : v = val k pos) :
    (getGeneric notCached blank dflt v nkeys n cache0 k pos).2.1 = v ∧
    RowsOk blank dflt val nkeys n (getGeneric notCached blank dflt v nkeys n cache0 k pos).1 := by
  -- the outer vector after the first-use resize
  have hc : ∃ cache, (if cache0.isEmpty then List.replicate nkeys [] else cache0) = cache ∧
      cache.length = nkeys ∧ ∀ k', k' < nkeys → RowOk blank dflt (val k') n (cache.getD k' []) := by
    rcases hinv with h0 | ⟨hl, hr⟩
    · subst h0
      refine ⟨List.replicate nkeys [], by simp, by simp, fun k' hk' => Or.inl ?_⟩
      exact getD_replicate hk'
    · by_cases he : cache0.isEmpty
      · have : cache0 = [] := List.isEmpty_iff.mp he
        subst this
        refine ⟨List.replicate nkeys [], by simp, by simp, fun k' hk' => Or.inl ?_⟩
        exact getD_replicate hk'
      · exact ⟨cache0, by simp [he], hl, hr⟩
  obtain ⟨cache, hce, hlen, hrows⟩ := hc
  have hset : ∀ row' : List β, RowOk blank dflt (val k) n row' →
      RowsOk blank dflt val nkeys n (cache.set k row') := by
    intro row' hr'
    refine Or.inr ⟨by simp [hlen], fun k' hk' => ?_⟩
    by_cases hkk : k = k'
    · subst hkk; rw [getD_set_self (by omega)]; exact hr'
    · rw [getD_set_ne hkk]; exact hrows k' hk'
  unfold getGeneric
  simp only [hce]
  rcases hrows k hk with hrow | ⟨hrl, hre⟩
  · -- row not allocated yet
    simp only [hrow, List.isEmpty_nil]
    have hl : pos < (List.replicate n blank).length := by simp [hp]
    refine ⟨getD_set_self hl, hset _ (Or.inr ⟨by simp, fun p hpn => ?_⟩)⟩
    by_cases hpp : pos = p
    · subst hpp; right; rw [getD_set_self hl, hv]
    · left; rw [getD_set_ne hpp]; exact getD_replicate hpn
  · have hne : (cache.getD k []).isEmpty = false := by
      cases hcr : cache.getD k [] with
      | nil => rw [hcr] at hrl; simp at hrl; omega
      | cons _ _ => rfl
    simp only [hne]
    have hl : pos < (cache.getD k []).length := by omega
    by_cases hn : notCached ((cache.getD k []).getD pos dflt) = true
    · simp only [hn]
      refine ⟨getD_set_self hl, hset _ (Or.inr ⟨by rw [List.length_set]; exact hrl, fun p hpn => ?_⟩)⟩
      by_cases hpp : pos = p
      · subst hpp; right; rw [getD_set_self hl, hv]
      · rw [getD_set_ne hpp]; exact hre p hpn
    · simp only [hn]
      refine ⟨?_, Or.inr ⟨hlen, hrows⟩⟩
      rcases hre pos hp with hbl | hvl
      · rw [hbl] at hn; exact absurd hb hn
      · exact hvl.trans hv.symm


/-- invariant of the ghost evaluation log: every logged slot is allocated and holds its key value, and a
slot whose value the marker test rejects (`notCached value = false`: it can be recognised as cached) has
been evaluated at most once -/
def LogOk (notCached : β → Bool) (dflt : β) (val : Nat → Nat → β) (cache : List (List β)) (ev : List (Nat × Nat)) : Prop :=
  (∀ q ∈ ev, cache.getD q.1 [] ≠ [] ∧ (cache.getD q.1 []).getD q.2 dflt = val q.1 q.2) ∧
  (∀ q : Nat × Nat, notCached (val q.1 q.2) = false → ev.count q ≤ 1)

theorem getGeneric_log (notCached : β → Bool) (blank dflt v : β) (val : Nat → Nat → β) (nkeys n : Nat)
    (cache0 : List (List β)) (k pos : Nat) (ev : List (Nat × Nat))
    (hinv : RowsOk blank dflt val nkeys n cache0) (hlog : LogOk notCached dflt val cache0 ev)
    (hk : k < nkeys) (hp : pos < n) (hv : v = val k pos) :
    LogOk notCached dflt val (getGeneric notCached blank dflt v nkeys n cache0 k pos).1
      (if (getGeneric notCached blank dflt v nkeys n cache0 k pos).2.2 then (k, pos) :: ev else ev) := by
  have hc : ∃ cache, (if cache0.isEmpty then List.replicate nkeys [] else cache0) = cache ∧
      cache.length = nkeys ∧ (∀ k', k' < nkeys → RowOk blank dflt (val k') n (cache.getD k' [])) ∧
      (∀ k', cache.getD k' [] = cache0.getD k' []) := by
    rcases hinv with h0 | ⟨hl, hr⟩
    · subst h0
      refine ⟨List.replicate nkeys [], by simp, by simp, fun k' hk' => Or.inl (getD_replicate hk'), fun k' => ?_⟩
      rw [getD_replicate_nil]; rfl
    · by_cases he : cache0.isEmpty
      · have : cache0 = [] := List.isEmpty_iff.mp he
        subst this
        refine ⟨List.replicate nkeys [], by simp, by simp, fun k' hk' => Or.inl (getD_replicate hk'), fun k' => ?_⟩
        rw [getD_replicate_nil]; rfl
      · exact ⟨cache0, by simp [he], hl, hr, fun _ => rfl⟩
  obtain ⟨cache, hce, hlen, hrows, hsame⟩ := hc
  have hlog' : LogOk notCached dflt val cache ev := by
    refine ⟨fun q hq => ?_, hlog.2⟩
    rw [hsame]; exact hlog.1 q hq
  unfold getGeneric
  simp only [hce]
  have hklen : k < cache.length := by omega
  rcases hrows k hk with hrow | ⟨hrl, hre⟩
  · -- row not allocated: allocated now, slot evaluated
    simp only [hrow, List.isEmpty_nil]
    have hl : pos < (List.replicate n blank).length := by simp [hp]
    have hnot : (k, pos) ∉ ev := fun hmem => (hlog'.1 (k, pos) hmem).1 hrow
    show LogOk notCached dflt val (cache.set k ((List.replicate n blank).set pos v)) ((k, pos) :: ev)
    refine ⟨fun q hq => ?_, fun q hq => ?_⟩
    · rcases List.mem_cons.mp hq with rfl | hq'
      · simp only
        rw [getD_set_self hklen]
        refine ⟨?_, by rw [getD_set_self hl, hv]⟩
        intro h0
        have h1 : ((List.replicate n blank).set pos v).length = 0 := by rw [h0]; rfl
        rw [List.length_set, List.length_replicate] at h1; omega
      · have hne : k ≠ q.1 := by
          intro e
          have := (hlog'.1 q hq').1
          rw [← e] at this
          exact this hrow
        rw [getD_set_ne hne]; exact hlog'.1 q hq'
    · have := hlog'.2 q hq
      by_cases hqe : q = (k, pos)
      · subst hqe
        rw [List.count_cons, List.count_eq_zero_of_not_mem hnot]; simp
      · rw [List.count_cons]
        have : ((k, pos) == q) = false := by simp [Ne.symm hqe]
        simp [this]; omega
  · have hne : (cache.getD k []).isEmpty = false := by
      cases hcr : cache.getD k [] with
      | nil => rw [hcr] at hrl; simp at hrl; omega
      | cons _ _ => rfl
    simp only [hne]
    have hl : pos < (cache.getD k []).length := by omega
    by_cases hn : notCached ((cache.getD k []).getD pos dflt) = true
    · simp only [hn]
      have hnotc : notCached (val k pos) = false → (k, pos) ∉ ev := by
        intro hc' hmem
        have := (hlog'.1 (k, pos) hmem).2
        simp only at this
        rw [this, hc'] at hn
        exact absurd hn (by simp)
      show LogOk notCached dflt val (cache.set k ((cache.getD k []).set pos v)) ((k, pos) :: ev)
      refine ⟨fun q hq => ?_, fun q hq => ?_⟩
      · have halloc : ∀ k', cache.getD k' [] ≠ [] → (cache.set k ((cache.getD k []).set pos v)).getD k' [] ≠ [] := by
          intro k' hk'
          by_cases hkk : k = k'
          · subst hkk; rw [getD_set_self hklen]
            intro h0
            have h1 : ((cache.getD k []).set pos v).length = 0 := by rw [h0]; rfl
            rw [List.length_set] at h1; omega
          · rw [getD_set_ne hkk]; exact hk'
        rcases List.mem_cons.mp hq with rfl | hq'
        · simp only
          refine ⟨halloc k (by intro h0; rw [h0] at hne; simp at hne), ?_⟩
          rw [getD_set_self hklen, getD_set_self hl, hv]
        · refine ⟨halloc q.1 (hlog'.1 q hq').1, ?_⟩
          by_cases hkk : k = q.1
          · rw [← hkk, getD_set_self hklen]
            by_cases hpp : pos = q.2
            · rw [← hpp, getD_set_self hl, hv, hkk, hpp]
            · rw [getD_set_ne hpp]; have := (hlog'.1 q hq').2; rw [← hkk] at this; exact this
          · rw [getD_set_ne hkk]; exact (hlog'.1 q hq').2
      · have := hlog'.2 q hq
        by_cases hqe : q = (k, pos)
        · subst hqe
          rw [List.count_cons, List.count_eq_zero_of_not_mem (hnotc hq)]; simp
        · rw [List.count_cons]
          have : ((k, pos) == q) = false := by simp [Ne.symm hqe]
          simp [this]; omega
    · simp only [hn]
      show LogOk notCached dflt val cache ev
      exact hlog'

end generic

section
variable {α : Type}

/-- the key value the cache slot (k, p) stands for -/
def numAt (env : Env α) (nodes : List α) (k p : Nat) : Dbl :=
  match nodes[p]? with
  | some x => env.num k x
  | none => Dbl.nan

def strAt (env : Env α) (nodes : List α) (k p : Nat) : Str :=
  match nodes[p]? with
  | some x => env.str k x
  | none => []

/-- invariant of the caches during one `sort`: every allocated slot holds the marker or the key value -/
structure CacheInv (env : Env α) (nodes : List α) (nkeys : Nat) (c : Caches) : Prop where
  num : RowsOk Generated.dummyValue Dbl.nan (numAt env nodes) nkeys nodes.length c.num
  str : RowsOk ([] : Str) [] (strAt env nodes) nkeys nodes.length c.str
  numLog : LogOk (fun s => Dbl.equal s Generated.dummyValue) Dbl.nan (numAt env nodes) c.num c.numEvals
  strLog : LogOk (fun s : Str => s.isEmpty) ([] : Str) (strAt env nodes) c.str c.strEvals

/-- an entry of the scratch vector: the node at its original position -/
def WF (nodes : List α) (e : Entry α) : Prop := nodes[e.2]? = some e.1

theorem WF.lt {nodes : List α} {e : Entry α} (h : WF nodes e) : e.2 < nodes.length := by
  unfold WF at h
  exact (List.getElem?_eq_some_iff.mp h).1

theorem cacheInv_empty (env : Env α) (nodes : List α) (nkeys : Nat) : CacheInv env nodes nkeys Caches.empty :=
  ⟨Or.inl rfl, Or.inl rfl, ⟨fun q hq => by simp [Caches.empty] at hq, fun q _ => by simp [Caches.empty]⟩,
    ⟨fun q hq => by simp [Caches.empty] at hq, fun q _ => by simp [Caches.empty]⟩⟩

theorem getNumberResult_eq (env : Env α) (nkeys n : Nat) (c : Caches) (k : Nat) (e : Entry α) :
    getNumberResult env nkeys n c k e =
      (let g := getGeneric (fun s => Dbl.equal s Generated.dummyValue) Generated.dummyValue Dbl.nan
                  (env.num k e.1) nkeys n c.num k e.2
       ({ c with num := g.1, numEvals := if g.2.2 then (k, e.2) :: c.numEvals else c.numEvals }, g.2.1)) := by
  unfold getNumberResult getGeneric
  simp only
  generalize (if c.num.isEmpty = true then List.replicate nkeys [] else c.num) = cache
  cases h1 : (cache.getD k []).isEmpty
  · cases h2 : Dbl.equal ((cache.getD k []).getD e.2 Dbl.nan) Generated.dummyValue <;> simp_all
  · simp_all

theorem getStringResult_eq (env : Env α) (nkeys n : Nat) (c : Caches) (k : Nat) (e : Entry α) :
    getStringResult env nkeys n c k e =
      (let g := getGeneric (fun s : Str => s.isEmpty) [] []
                  (env.str k e.1) nkeys n c.str k e.2
       ({ c with str := g.1, strEvals := if g.2.2 then (k, e.2) :: c.strEvals else c.strEvals }, g.2.1)) := by
  unfold getStringResult getGeneric
  simp only
  generalize (if c.str.isEmpty = true then List.replicate nkeys [] else c.str) = cache
  cases h1 : (cache.getD k []).isEmpty
  · cases h2 : ((cache.getD k []).getD e.2 []).isEmpty <;> simp_all
  · simp_all

theorem dummy_equal_self (hd : Generated.dummyValue.isNaN = false) :
    Dbl.equal Generated.dummyValue Generated.dummyValue = true := by
  simp [Dbl.equal, hd]

theorem getNumberResult_ok (env : Env α) (nodes : List α) (nkeys : Nat) (c : Caches) (k : Nat) (e : Entry α)
    (hd : Generated.dummyValue.isNaN = false) (hinv : CacheInv env nodes nkeys c) (hk : k < nkeys) (he : WF nodes e) :
    (getNumberResult env nkeys nodes.length c k e).2 = env.num k e.1 ∧
    CacheInv env nodes nkeys (getNumberResult env nkeys nodes.length c k e).1 := by
  rw [getNumberResult_eq]
  have hv : env.num k e.1 = numAt env nodes k e.2 := by unfold numAt; unfold WF at he; rw [he]
  have := getGeneric_ok (fun s => Dbl.equal s Generated.dummyValue) Generated.dummyValue Dbl.nan (env.num k e.1)
    (numAt env nodes) nkeys nodes.length c.num k e.2 (dummy_equal_self hd) hinv.num hk he.lt hv
  have hlog := getGeneric_log (fun s => Dbl.equal s Generated.dummyValue) Generated.dummyValue Dbl.nan (env.num k e.1)
    (numAt env nodes) nkeys nodes.length c.num k e.2 c.numEvals hinv.num hinv.numLog hk he.lt hv
  exact ⟨this.1, ⟨this.2, hinv.str, hlog, hinv.strLog⟩⟩

theorem getStringResult_ok (env : Env α) (nodes : List α) (nkeys : Nat) (c : Caches) (k : Nat) (e : Entry α)
    (hinv : CacheInv env nodes nkeys c) (hk : k < nkeys) (he : WF nodes e) :
    (getStringResult env nkeys nodes.length c k e).2 = env.str k e.1 ∧
    CacheInv env nodes nkeys (getStringResult env nkeys nodes.length c k e).1 := by
  rw [getStringResult_eq]
  have hv : env.str k e.1 = strAt env nodes k e.2 := by unfold strAt; unfold WF at he; rw [he]
  have := getGeneric_ok (fun s : Str => s.isEmpty) [] [] (env.str k e.1)
    (strAt env nodes) nkeys nodes.length c.str k e.2 rfl hinv.str hk he.lt hv
  have hlog := getGeneric_log (fun s : Str => s.isEmpty) [] [] (env.str k e.1)
    (strAt env nodes) nkeys nodes.length c.str k e.2 c.strEvals hinv.str hinv.strLog hk he.lt hv
  exact ⟨this.1, ⟨hinv.num, this.2, hinv.numLog, hlog⟩⟩

/-- the cache-threading comparator computes the cache-free comparison and keeps the invariant -/
theorem compareFromM_ok (env : Env α) (nodes : List α) (nkeys : Nat)
    (hd : Generated.dummyValue.isNaN = false) :
    ∀ (keys : List Key) (k : Nat) (c : Caches) (l r : Entry α),
      k + keys.length = nkeys → CacheInv env nodes nkeys c → WF nodes l → WF nodes r →
      (compareFromM env nkeys nodes.length keys k c l r).2 = compareFrom env keys k l.1 r.1 ∧
      CacheInv env nodes nkeys (compareFromM env nkeys nodes.length keys k c l r).1
  | [], _, c, _, _, _, hinv, _, _ => by simp [compareFromM, compareFrom, hinv]
  | key :: rest, k, c, l, r, hlen, hinv, hl, hr => by
    have hk : k < nkeys := by simp at hlen; omega
    have ih := fun c' hc' => compareFromM_ok env nodes nkeys hd rest (k + 1) c' l r (by simp at hlen; omega) hc' hl hr
    simp only [compareFromM, compareFrom, finish]
    cases hnum : key.number
    · -- text key
      obtain ⟨v1, i1⟩ := getStringResult_ok env nodes nkeys c k l hinv hk hl
      rcases h1 : getStringResult env nkeys nodes.length c k l with ⟨c1, s1⟩
      rw [h1] at v1 i1
      obtain ⟨v2, i2⟩ := getStringResult_ok env nodes nkeys c1 k r i1 hk hr
      rcases h2 : getStringResult env nkeys nodes.length c1 k r with ⟨c2, s2⟩
      rw [h2] at v2 i2
      simp only at v1 v2 i1 i2
      subst v1 v2
      simp only [if_true, beq_self_eq_true]
      split
      · exact ⟨rfl, i2⟩
      · split
        · exact ih c2 i2
        · exact ⟨rfl, i2⟩
    · -- number key
      obtain ⟨v1, i1⟩ := getNumberResult_ok env nodes nkeys c k l hd hinv hk hl
      rcases h1 : getNumberResult env nkeys nodes.length c k l with ⟨c1, s1⟩
      rw [h1] at v1 i1
      obtain ⟨v2, i2⟩ := getNumberResult_ok env nodes nkeys c1 k r hd i1 hk hr
      rcases h2 : getNumberResult env nkeys nodes.length c1 k r with ⟨c2, s2⟩
      rw [h2] at v2 i2
      simp only at v1 v2 i1 i2
      subst v1 v2
      simp only [Bool.true_eq_false, if_false, beq_iff_eq]
      split
      · exact ⟨rfl, i2⟩
      · split
        · exact ih c2 i2
        · exact ⟨rfl, i2⟩

theorem compareM_ok (env : Env α) (nodes : List α) (keys : List Key)
    (hd : Generated.dummyValue.isNaN = false) (c : Caches) (l r : Entry α)
    (hinv : CacheInv env nodes keys.length c) (hl : WF nodes l) (hr : WF nodes r) :
    (compareM env keys nodes.length c l r).2 = compare env keys l.1 r.1 ∧
    CacheInv env nodes keys.length (compareM env keys nodes.length c l r).1 :=
  compareFromM_ok env nodes keys.length hd keys 0 c l r (by simp) hinv hl hr

/-! ### insertion sort through the caches = pure insertion sort -/

theorem insertM_ok (env : Env α) (nodes : List α) (keys : List Key)
    (hd : Generated.dummyValue.isNaN = false) (x : Entry α) (hx : WF nodes x) :
    ∀ (l : List (Entry α)) (c : Caches), (∀ e ∈ l, WF nodes e) → CacheInv env nodes keys.length c →
      (insertM env keys nodes.length x l c).2 = insertP (fun a b : Entry α => less env keys a.1 b.1) x l ∧
      CacheInv env nodes keys.length (insertM env keys nodes.length x l c).1
  | [], c, _, hinv => by simp [insertM, insertP, hinv]
  | y :: ys, c, hwf, hinv => by
    obtain ⟨v, i⟩ := compareM_ok env nodes keys hd c y x hinv (hwf y (by simp)) hx
    simp only [insertM, insertP]
    rcases h : compareM env keys nodes.length c y x with ⟨c1, r1⟩
    rw [h] at v i
    simp only at v i
    subst v
    have ih := insertM_ok env nodes keys hd x hx ys c1 (fun e he => hwf e (by simp [he])) i
    have hless : less env keys y.1 x.1 = decide (compare env keys y.1 x.1 < 0) := rfl
    by_cases hlt : compare env keys y.1 x.1 < 0
    · simp only [hless, hlt, if_true, decide_true]
      exact ⟨by rw [ih.1], ih.2⟩
    · simp only [hless, hlt, if_false, decide_false, Bool.false_eq_true]
      exact ⟨trivial, i⟩

theorem mem_insertP {β : Type} (comp : β → β → Bool) (x : β) : ∀ (l : List β) (e : β), e ∈ insertP comp x l → e = x ∨ e ∈ l
  | [], e, h => by simp [insertP] at h; simp [h]
  | y :: ys, e, h => by
    simp only [insertP] at h
    split at h
    · rcases List.mem_cons.mp h with rfl | h
      · simp
      · rcases mem_insertP comp x ys e h with rfl | h
        · simp
        · simp [h]
    · simp at h; simp [h]

theorem mem_isortP {β : Type} (comp : β → β → Bool) : ∀ (l : List β) (e : β), e ∈ isortP comp l → e ∈ l
  | [], e, h => by simp [isortP] at h
  | x :: xs, e, h => by
    simp only [isortP] at h
    rcases mem_insertP comp x _ e h with rfl | h
    · simp
    · simp [mem_isortP comp xs e h]

theorem isortM_ok (env : Env α) (nodes : List α) (keys : List Key)
    (hd : Generated.dummyValue.isNaN = false) :
    ∀ (l : List (Entry α)) (c : Caches), (∀ e ∈ l, WF nodes e) → CacheInv env nodes keys.length c →
      (isortM env keys nodes.length l c).2 = isortP (fun a b : Entry α => less env keys a.1 b.1) l ∧
      CacheInv env nodes keys.length (isortM env keys nodes.length l c).1
  | [], c, _, hinv => by simp [isortM, isortP, hinv]
  | x :: xs, c, hwf, hinv => by
    have ih := isortM_ok env nodes keys hd xs c (fun e he => hwf e (by simp [he])) hinv
    simp only [isortM, isortP]
    rcases h : isortM env keys nodes.length xs c with ⟨c1, s1⟩
    rw [h] at ih
    simp only at ih
    obtain ⟨e1, i1⟩ := ih
    subst e1
    exact insertM_ok env nodes keys hd x (hwf x (by simp)) _ c1
      (fun e he => hwf e (by simp [mem_isortP _ _ _ he])) i1


/-! ### any history of comparator calls -/

/-- run the cache-threading comparator over a sequence of calls (what *any* sort algorithm does) -/
def runCalls (env : Env α) (keys : List Key) (n : Nat) : List (Entry α × Entry α) → Caches → List Int
  | [], _ => []
  | (l, r) :: rest, c =>
    let (c', v) := compareM env keys n c l r
    v :: runCalls env keys n rest c'

theorem runCalls_ok (env : Env α) (nodes : List α) (keys : List Key)
    (hd : Generated.dummyValue.isNaN = false) :
    ∀ (calls : List (Entry α × Entry α)) (c : Caches), (∀ p ∈ calls, WF nodes p.1 ∧ WF nodes p.2) →
      CacheInv env nodes keys.length c →
      runCalls env keys nodes.length calls c = calls.map (fun p => compare env keys p.1.1 p.2.1)
  | [], _, _, _ => rfl
  | (l, r) :: rest, c, hwf, hinv => by
    obtain ⟨v, i⟩ := compareM_ok env nodes keys hd c l r hinv (hwf (l, r) (by simp)).1 (hwf (l, r) (by simp)).2
    simp only [runCalls, List.map_cons]
    rcases h : compareM env keys nodes.length c l r with ⟨c1, r1⟩
    rw [h] at v i
    simp only at v i
    subst v
    rw [runCalls_ok env nodes keys hd rest c1 (fun p hp => hwf p (by simp [hp])) i]


/-- the cache state after a sequence of comparator calls -/
def runCallsC (env : Env α) (keys : List Key) (n : Nat) : List (Entry α × Entry α) → Caches → Caches
  | [], c => c
  | (l, r) :: rest, c => runCallsC env keys n rest (compareM env keys n c l r).1

theorem runCallsC_inv (env : Env α) (nodes : List α) (keys : List Key)
    (hd : Generated.dummyValue.isNaN = false) :
    ∀ (calls : List (Entry α × Entry α)) (c : Caches), (∀ p ∈ calls, WF nodes p.1 ∧ WF nodes p.2) →
      CacheInv env nodes keys.length c → CacheInv env nodes keys.length (runCallsC env keys nodes.length calls c)
  | [], _, _, hinv => hinv
  | (l, r) :: rest, c, hwf, hinv => by
    have i := (compareM_ok env nodes keys hd c l r hinv (hwf (l, r) (by simp)).1 (hwf (l, r) (by simp)).2).2
    exact runCallsC_inv env nodes keys hd rest _ (fun p hp => hwf p (by simp [hp])) i

theorem scratch_wf (nodes : List α) : ∀ e ∈ scratch nodes, WF nodes e := by
  intro e he
  exact List.mem_zipIdx_iff_getElem?.mp he

end
end XalanModel.C16
