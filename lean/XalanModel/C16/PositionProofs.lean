import XalanModel.C16.Position
/-
C16 helper lemmas, part 7: the position cache is transparent.
-/
namespace XalanModel.C16
variable {α : Type} [DecidableEq α]

/-- the cache is cleared, or holds the position of its node in the list on top of the stack -/
def PosInv (c : PosCtx α) : Prop :=
  ∀ n i, c.cache = some (n, i) → i = indexOf1 c.top n

theorem posStep_ok (c : PosCtx α) (h : PosInv c) (op : PosOp α) :
    PosInv (posStep c op).1 ∧ (posStep c op).1.stack = (match op with
      | .push l => l :: c.stack | .pop => c.stack.tail | _ => c.stack) ∧
    (posStep c op).2 = (match op with
      | .push _ => 0 | .pop => 0 | .position node => indexOf1 c.top node | .last => c.top.length) := by
  cases op with
  | push l => exact ⟨fun n i hc => by simp [posStep] at hc, rfl, rfl⟩
  | pop => exact ⟨fun n i hc => by simp [posStep] at hc, rfl, rfl⟩
  | last => exact ⟨h, rfl, rfl⟩
  | position node =>
    cases hc : c.cache with
    | none =>
      simp only [posStep, hc]
      refine ⟨fun n i hq => ?_, by first | rfl | trivial, by first | rfl | trivial⟩
      simp only [Option.some.injEq, Prod.mk.injEq] at hq
      obtain ⟨rfl, rfl⟩ := hq
      rfl
    | some p =>
      obtain ⟨n, i⟩ := p
      by_cases hn : n = node
      · simp only [posStep, hc, if_pos hn]
        refine ⟨h, by first | rfl | trivial, ?_⟩
        have := h n i hc
        rw [hn] at this
        exact this
      · simp only [posStep, hc, if_neg hn]
        refine ⟨fun n' i' hq => ?_, by first | rfl | trivial, by first | rfl | trivial⟩
        simp only [Option.some.injEq, Prod.mk.injEq] at hq
        obtain ⟨rfl, rfl⟩ := hq
        rfl

theorem posRun_eq_spec : ∀ (ops : List (PosOp α)) (c : PosCtx α), PosInv c →
    posRun posStep c ops = posSpec c.stack ops
  | [], _, _ => rfl
  | op :: rest, c, h => by
    obtain ⟨h1, h2, h3⟩ := posStep_ok c h op
    have ih := posRun_eq_spec rest (posStep c op).1 h1
    cases op <;> simp only [posRun, posSpec, ih, h2, h3, PosCtx.top]

theorem indexOf1_getElem : ∀ (l : List α) (i : Nat) (hi : i < l.length), l.Nodup → indexOf1 l (l[i]) = i + 1
  | y :: ys, 0, _, _ => by simp [indexOf1]
  | y :: ys, i + 1, hi, hnd => by
    have hnd' := List.nodup_cons.mp hnd
    have hi' : i < ys.length := by simpa using hi
    have ih := indexOf1_getElem ys i hi' hnd'.2
    have hne : y ≠ ys[i]'hi' := fun e => hnd'.1 (e ▸ List.getElem_mem hi')
    simp [indexOf1, hne, ih]


theorem posSpec_positions (st : List (List α)) (l : List α) (rest : List (PosOp α)) :
    posSpec st (l.map PosOp.position ++ rest) = l.map (indexOf1 (st.headD [])) ++ posSpec st rest := by
  induction l with
  | nil => rfl
  | cons x xs ih => simp [posSpec, ih]

theorem posSpec_body (st : List (List α)) (inner : List α) (x : α) :
    posSpec st (bodyOps inner x) =
      0 :: inner.map (indexOf1 inner) ++ [0, indexOf1 (st.headD []) x, (st.headD []).length] := by
  simp [bodyOps, posSpec, posSpec_positions]

end XalanModel.C16

namespace XalanModel.C16
variable {α : Type} [DecidableEq α]

theorem evalKeyAt_ok (st : XCtx α) (h : PosInv st.lists) (node : α) :
    (evalKeyAt st node).1 = ⟨node, node, indexOf1 st.lists.top node, st.lists.top.length⟩ ∧
    PosInv (evalKeyAt st node).2.lists ∧ (evalKeyAt st node).2.lists.stack = st.lists.stack ∧
    (evalKeyAt st node).2.currentStack = st.currentStack := by
  obtain ⟨h1, h2, h3⟩ := posStep_ok st.lists h (PosOp.position node)
  simp only at h2 h3
  refine ⟨?_, h1, h2, rfl⟩
  simp [evalKeyAt, h3]

theorem keyContexts_ok (outer : α) (selected : List α) : ∀ (order : List α) (st : XCtx α),
    PosInv st.lists → st.lists.top = selected →
    keyContexts evalKeyAt outer selected order st =
      order.map (fun x => ⟨x, x, indexOf1 selected x, selected.length⟩)
  | [], _, _, _ => rfl
  | x :: rest, st, h, ht => by
    obtain ⟨e1, e2, e3, _⟩ := evalKeyAt_ok st h x
    have ht' : (evalKeyAt st x).2.lists.top = selected := by
      unfold PosCtx.top at ht ⊢; rw [e3]; exact ht
    simp only [keyContexts, List.map_cons, e1, ht, keyContexts_ok outer selected rest _ e2 ht']

end XalanModel.C16
