import XalanModel.C16.SortProofs
/-
C16 helper lemmas, part 6: the libstdc++-shaped stable sort (insertion-sorted runs of 7, pairwise merges)
equals List.mergeSort.
-/
namespace XalanModel.C16
section
variable {β : Type}

theorem merge_insertP (comp : β → β → Bool)
    (trans : ∀ a b d : β, (!comp b a) = true → (!comp d b) = true → (!comp d a) = true)
    (total : ∀ a b : β, ((!comp b a) || (!comp a b)) = true) (a : β) :
    ∀ (s1 s2 : List β), List.merge (insertP comp a s1) s2 (fun x y => !comp y x)
      = insertP comp a (List.merge s1 s2 (fun x y => !comp y x))
  | [], [] => by simp [insertP]
  | [], y :: ys => by
    have ih := merge_insertP comp trans total a [] ys
    simp only [insertP, List.nil_merge] at ih ⊢
    rw [List.cons_merge_cons]
    cases h : comp y a <;> simp [ih]
  | x :: xs, [] => by simp
  | x :: xs, y :: ys => by
    have ih1 := merge_insertP comp trans total a xs (y :: ys)
    have ih2 := merge_insertP comp trans total a (x :: xs) ys
    simp only [insertP] at ih2 ⊢
    rw [List.cons_merge_cons (fun x y => !comp y x) x y xs ys]
    cases hxa : comp x a <;> cases hyx : comp y x <;> cases hya : comp y a
    all_goals simp only [hxa, hyx, hya, if_true, if_false, Bool.not_true, Bool.not_false, Bool.false_eq_true,
      List.cons_merge_cons, insertP] at ih2 ⊢
    all_goals first
      | (simp [ih1]; done)
      | (simp [ih2]; done)
      | (exfalso
         have t1 := trans a x y
         have t2 := trans a y x
         have t3 := trans x a y
         have t4 := trans y x a
         have t5 := trans x y a
         have t6 := trans y a x
         have u1 := total x y
         have u2 := total a x
         have u3 := total a y
         simp_all)
termination_by s1 s2 => s1.length + s2.length
end
end XalanModel.C16

namespace XalanModel.C16
section
variable {β : Type}

def joinPairs : List (List β) → List (List β)
  | a :: b :: rest => (a ++ b) :: joinPairs rest
  | l => l

theorem isortP_append (comp : β → β → Bool) (l1 l2 : List β) :
    isortP comp (l1 ++ l2) = l1.foldr (insertP comp) (isortP comp l2) := by
  induction l1 with
  | nil => rfl
  | cons a l ih => simp [isortP, ih]

theorem merge_isortP (comp : β → β → Bool)
    (trans : ∀ a b d : β, (!comp b a) = true → (!comp d b) = true → (!comp d a) = true)
    (total : ∀ a b : β, ((!comp b a) || (!comp a b)) = true) (l1 l2 : List β) :
    List.merge (isortP comp l1) (isortP comp l2) (fun x y => !comp y x) = isortP comp (l1 ++ l2) := by
  rw [isortP_append]
  generalize isortP comp l2 = s2
  induction l1 with
  | nil => simp [isortP]
  | cons a l ih =>
    simp only [isortP, List.foldr_cons]
    rw [merge_insertP comp trans total a, ih]

theorem joinPairs_flatten : ∀ segs : List (List β), (joinPairs segs).flatten = segs.flatten
  | [] => rfl
  | [_] => rfl
  | a :: b :: rest => by simp [joinPairs, joinPairs_flatten rest]

theorem joinPairs_length : ∀ segs : List (List β), (joinPairs segs).length = (segs.length + 1) / 2
  | [] => by simp [joinPairs]
  | [_] => by simp [joinPairs]
  | a :: b :: rest => by simp [joinPairs, joinPairs_length rest]; omega

theorem mergePairs_map (comp : β → β → Bool)
    (trans : ∀ a b d : β, (!comp b a) = true → (!comp d b) = true → (!comp d a) = true)
    (total : ∀ a b : β, ((!comp b a) || (!comp a b)) = true) :
    ∀ segs : List (List β), mergePairs (fun a b => !comp b a) (segs.map (isortP comp)) = (joinPairs segs).map (isortP comp)
  | [] => rfl
  | [_] => rfl
  | a :: b :: rest => by
    simp only [List.map_cons, mergePairs, joinPairs, merge_isortP comp trans total, mergePairs_map comp trans total rest]

theorem mergeRuns_map (comp : β → β → Bool)
    (trans : ∀ a b d : β, (!comp b a) = true → (!comp d b) = true → (!comp d a) = true)
    (total : ∀ a b : β, ((!comp b a) || (!comp a b)) = true) :
    ∀ (fuel : Nat) (segs : List (List β)), segs.length ≤ fuel + 1 →
      mergeRuns (fun a b => !comp b a) fuel (segs.map (isortP comp)) = isortP comp segs.flatten
  | _, [], _ => by simp [mergeRuns, isortP]
  | _, [r], _ => by simp [mergeRuns]
  | 0, a :: b :: rest, h => by simp at h
  | fuel + 1, a :: b :: rest, h => by
    have hm := mergePairs_map comp trans total (a :: b :: rest)
    simp only [List.map_cons] at hm
    simp only [List.map_cons, mergeRuns, hm]
    rw [mergeRuns_map comp trans total fuel (joinPairs (a :: b :: rest))
      (by rw [joinPairs_length]; simp at h ⊢; omega), joinPairs_flatten]

theorem chunksOf_flatten (k : Nat) (hk : 0 < k) : ∀ (fuel : Nat) (l : List β), l.length ≤ fuel →
    (chunksOf k fuel l).flatten = l ∧ (chunksOf k fuel l).length ≤ l.length
  | 0, l, h => by
    have : l = [] := List.length_eq_zero_iff.mp (by omega)
    subst this; simp [chunksOf]
  | fuel + 1, l, h => by
    unfold chunksOf
    cases hl : l with
    | nil => simp
    | cons x xs =>
      have ih := chunksOf_flatten k hk fuel ((x :: xs).drop k) (by simp at h ⊢; subst hl; simp at h; omega)
      simp only [List.isEmpty_cons, Bool.false_eq_true, if_false, List.flatten_cons, ih.1, List.take_append_drop,
        List.length_cons, true_and]
      have := ih.2
      simp at this ⊢
      omega

theorem libStableSort_eq_mergeSort (comp : β → β → Bool)
    (trans : ∀ a b d : β, (!comp b a) = true → (!comp d b) = true → (!comp d a) = true)
    (total : ∀ a b : β, ((!comp b a) || (!comp a b)) = true) (l : List β) :
    libStableSort comp l = l.mergeSort (fun a b => !comp b a) := by
  unfold libStableSort
  have hc := chunksOf_flatten 7 (by omega) l.length l (Nat.le_refl _)
  rw [mergeRuns_map comp trans total l.length _ (by omega), hc.1, isortP_eq_mergeSort comp trans total]

end
end XalanModel.C16
