/-!
# C05 (iii) — the funnel: every way of asking for a transformation ends in `doTransform`

Graph functions over the call-graph table regenerated from the source by
`translate/c05_funnel.py` (`XalanModel.Generated.C05_Funnel`).  Core Lean only.
-/
namespace XalanModel.C05

def callees (g : List (Nat × List Nat)) (n : Nat) : List Nat := (g.lookup n).getD []

/-- `funnels g target aux fuel n`: `n` is `target`, or `n` calls at least one function outside the
auxiliary set (`parseSource`, `compileStylesheet`: preparation steps that produce the arguments) and
*every* such callee funnels.  So no entry point has a path that does the work some other way. -/
def funnels (g : List (Nat × List Nat)) (target : Nat) (aux : List Nat) : Nat → Nat → Bool
  | 0, _ => false
  | fuel+1, n =>
    n == target ||
      (let cs := (callees g n).filter (fun c => !aux.contains c)
       !cs.isEmpty && cs.all (funnels g target aux fuel))

/-- the functions that call `f` directly -/
def callersOf (g : List (Nat × List Nat)) (f : Nat) : List Nat :=
  (g.filter (fun e => e.2.contains f)).map (·.1)

end XalanModel.C05
