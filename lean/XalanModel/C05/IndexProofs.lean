import XalanModel.C05.Index
import XalanModel.C05.SaxProofs
/-! creation order of nodes = document order of the built tree -/
namespace XalanModel.C05

def pl (b : Str) : List Desc := if b.isEmpty then [] else [.text b]

/-- creation log of the left-to-right accumulator (cf. `acc`) -/
def accLog : Forest → Str → List Desc
  | .nil, _ => []
  | .text s n, b => accLog n (b ++ s)
  | .iws s n, b => pl b ++ (.iws s :: accLog n [])
  | .comment s n, b => pl b ++ (.comment s :: accLog n [])
  | .pi t d n, b => pl b ++ (.pi t d :: accLog n [])
  | .elem nm a k n, b =>
    pl b ++ ((.elem nm :: attrsD (orderAttrs a)) ++ (accLog k [] ++ (pl (acc k (.nil, [])).2 ++ accLog n [])))

theorem acc_snd_indep (f : Forest) : ∀ (k k' : Forest) (b : Str), (acc f (k, b)).2 = (acc f (k', b)).2 := by
  induction f with
  | nil => intro k k' b; rfl
  | text s n ih => intro k k' b; simp only [acc]; exact ih _ _ _
  | iws s n ih => intro k k' b; simp only [acc]; exact ih _ _ _
  | comment s n ih => intro k k' b; simp only [acc]; exact ih _ _ _
  | pi t d n ih => intro k k' b; simp only [acc]; exact ih _ _ _
  | elem nm a kids n _ ih => intro k k' b; simp only [acc]; exact ih _ _ _

theorem pl_nil : pl [] = [] := rfl

/-- creation log of the accumulator ++ the node still pending in the buffer = document order of the normal form -/
theorem accLog_norm (f : Forest) : ∀ (k : Forest) (b : Str),
    accLog f b ++ pl (acc f (k, b)).2 = preorder (consText b (norm f)) := by
  induction f with
  | nil =>
    intro k b
    by_cases hb : b = []
    · subst hb; simp [accLog, acc, norm, consText, pl, preorder]
    · simp [accLog, acc, norm, consText, pl, preorder, hb]
  | text s n ih =>
    intro k b
    simp only [accLog, acc, norm]
    rw [consText_consText]
    exact ih k (b ++ s)
  | iws s n ih =>
    intro k b
    have h := ih ((flushK k b).append (.iws s .nil)) []
    simp only [consText_nil_left] at h
    simp only [accLog, acc, norm, List.append_assoc, List.cons_append]
    rw [h]
    by_cases hb : b = []
    · subst hb; simp [consText, pl, preorder]
    · simp [consText, pl, preorder, hb]
  | comment s n ih =>
    intro k b
    have h := ih ((flushK k b).append (.comment s .nil)) []
    simp only [consText_nil_left] at h
    simp only [accLog, acc, norm, List.append_assoc, List.cons_append]
    rw [h]
    by_cases hb : b = []
    · subst hb; simp [consText, pl, preorder]
    · simp [consText, pl, preorder, hb]
  | pi t d n ih =>
    intro k b
    have h := ih ((flushK k b).append (.pi t d .nil)) []
    simp only [consText_nil_left] at h
    simp only [accLog, acc, norm, List.append_assoc, List.cons_append]
    rw [h]
    by_cases hb : b = []
    · subst hb; simp [consText, pl, preorder]
    · simp [consText, pl, preorder, hb]
  | elem nm a kids n ihk ih =>
    intro k b
    have hk := ihk .nil []
    simp only [consText_nil_left] at hk
    have h := ih ((flushK k b).append (.elem nm (orderAttrs a) (flushK (acc kids (.nil, [])).1 (acc kids (.nil, [])).2) .nil)) []
    simp only [consText_nil_left] at h
    simp only [accLog, acc, norm, List.append_assoc, List.cons_append]
    rw [h, ← List.append_assoc (accLog kids []), hk]
    by_cases hb : b = []
    · subst hb; simp [consText, pl, preorder]
    · simp [consText, pl, preorder, hb]

theorem creationLog_append (xs ys : List Ev) : ∀ (st : St),
    creationLog (xs ++ ys) st = match run xs st with
      | .ok st' => creationLog xs st ++ creationLog ys st'
      | .error _ => creationLog xs st := by
  induction xs with
  | nil => intro st; simp [creationLog, run]
  | cons x xs ih =>
    intro st
    simp only [List.cons_append, creationLog, run]
    cases hs : step st x with
    | ok st' =>
      simp only []
      rw [ih st']
      cases run xs st' <;> simp
    | error e => simp

theorem run_events_inner' (f : Forest) (st : St) (fr : Frame) (frs : List Frame)
    (ha : st.accumulate = true) (hd : st.inDTD = false) (hs : st.stack = fr :: frs) :
    run (events f) st =
      .ok { st with stack := { fr with kids := (acc f (fr.kids, st.buf)).1 } :: frs,
                    buf := (acc f (fr.kids, st.buf)).2 } := by
  have := run_events_inner f st fr frs [] ha hd hs
  simpa [run] using this

theorem flushLog_inner (st : St) (fr : Frame) (frs : List Frame) (h : st.stack = fr :: frs) :
    st.flushLog = pl st.buf := by
  unfold St.flushLog pl
  rw [h]

/-- inside an element: the handler's creation log on the events of `f` is the accumulator's -/
theorem creationLog_inner (f : Forest) : ∀ (st : St) (fr : Frame) (frs : List Frame),
    st.accumulate = true → st.inDTD = false → st.stack = fr :: frs →
    creationLog (events f) st = accLog f st.buf := by
  induction f with
  | nil => intro st fr frs _ _ _; rfl
  | text s n ih =>
    intro st fr frs ha hd hs
    cases st with
    | mk acc' dk de stack buf dtd =>
      simp only at ha hd hs; subst ha hd hs
      simp only [events, creationLog, step, created, ↓reduceIte, List.nil_append, accLog]
      exact ih _ fr frs rfl rfl rfl
  | iws s n ih =>
    intro st fr frs ha hd hs
    cases st with
    | mk acc' dk de stack buf dtd =>
      simp only at ha hd hs; subst ha hd hs
      simp only [events, creationLog, step, created, accLog]
      rw [flushLog_inner _ fr frs rfl, flush_inner _ fr frs rfl]
      simp only [St.appendNode]
      rw [ih _ _ frs rfl rfl rfl]
      simp
  | comment s n ih =>
    intro st fr frs ha hd hs
    cases st with
    | mk acc' dk de stack buf dtd =>
      simp only at ha hd hs; subst ha hd hs
      simp only [events, creationLog, step, created, accLog, Bool.false_eq_true, ↓reduceIte]
      rw [flushLog_inner _ fr frs rfl, flush_inner _ fr frs rfl]
      simp only [St.appendNode]
      rw [ih _ _ frs rfl rfl rfl]
      simp
  | pi t d n ih =>
    intro st fr frs ha hd hs
    cases st with
    | mk acc' dk de stack buf dtd =>
      simp only at ha hd hs; subst ha hd hs
      simp only [events, creationLog, step, created, accLog]
      rw [flushLog_inner _ fr frs rfl, flush_inner _ fr frs rfl]
      simp only [St.appendNode]
      rw [ih _ _ frs rfl rfl rfl]
      simp
  | elem nm a kids n ihk ih =>
    intro st fr frs ha hd hs
    cases st with
    | mk acc' dk de stack buf dtd =>
      simp only at ha hd hs; subst ha hd hs
      simp only [events, creationLog, step, created, accLog]
      rw [flushLog_inner _ fr frs rfl, flush_inner _ fr frs rfl]
      simp only []
      rw [creationLog_append, run_events_inner' kids _ ⟨nm, orderAttrs a, .nil⟩ (_ :: frs) rfl rfl rfl]
      simp only []
      rw [ihk _ ⟨nm, orderAttrs a, .nil⟩ (_ :: frs) rfl rfl rfl]
      simp only [creationLog, step, created]
      rw [flushLog_inner _ ⟨nm, orderAttrs a, (acc kids (.nil, [])).1⟩ (_ :: frs) rfl,
          flush_inner _ ⟨nm, orderAttrs a, (acc kids (.nil, [])).1⟩ (_ :: frs) rfl]
      simp only [St.appendNode]
      rw [ih _ _ frs rfl rfl rfl]
      simp

/-- document level -/
theorem creationLog_doc (f : Forest) : ∀ (st : St) (seen : Bool),
    st.accumulate = true → st.inDTD = false → st.stack = [] → st.buf = [] → st.docElem = seen →
    TopOK f seen = true →
    creationLog (events f) st = preorder (normDoc f) := by
  induction f with
  | nil => intro st seen _ _ _ _ _ _; rfl
  | text s n ih =>
    intro st seen ha hd hs hb hde ht
    cases st with
    | mk acc' dk de stack buf dtd =>
      simp only at ha hd hs hb hde; subst ha hd hs hb hde
      simp only [TopOK, Bool.and_eq_true] at ht
      simp only [events, creationLog, step, created, ht.1, ↓reduceIte, List.nil_append, normDoc]
      exact ih _ de rfl rfl rfl rfl rfl ht.2
  | iws s n _ => intro st seen _ _ _ _ _ ht; simp [TopOK] at ht
  | comment s n ih =>
    intro st seen ha hd hs hb hde ht
    cases st with
    | mk acc' dk de stack buf dtd =>
      simp only at ha hd hs hb hde; subst ha hd hs hb hde
      simp only [TopOK] at ht
      simp only [events, creationLog, step, created, St.flush, St.flushLog, St.appendNode, List.isEmpty_nil, ↓reduceIte,
        Bool.false_eq_true, List.nil_append, normDoc, preorder]
      rw [ih _ de rfl rfl rfl rfl rfl ht]
      simp
  | pi t d n ih =>
    intro st seen ha hd hs hb hde ht
    cases st with
    | mk acc' dk de stack buf dtd =>
      simp only at ha hd hs hb hde; subst ha hd hs hb hde
      simp only [TopOK] at ht
      simp only [events, creationLog, step, created, St.flush, St.flushLog, St.appendNode, List.isEmpty_nil, ↓reduceIte,
        List.nil_append, normDoc, preorder]
      rw [ih _ de rfl rfl rfl rfl rfl ht]
      simp
  | elem nm a kids n _ ih =>
    intro st seen ha hd hs hb hde ht
    cases st with
    | mk acc' dk de stack buf dtd =>
      simp only at ha hd hs hb hde; subst ha hd hs hb hde
      simp only [TopOK, Bool.and_eq_true, Bool.not_eq_eq_eq_not, Bool.not_true] at ht
      obtain ⟨hde, ht⟩ := ht
      subst hde
      simp only [events, creationLog, step, created, St.flush, St.flushLog, List.isEmpty_nil, ↓reduceIte, Bool.false_eq_true,
        List.nil_append, normDoc, preorder]
      rw [creationLog_append, run_events_inner' kids _ ⟨nm, xmlNsAttr :: orderAttrs a, .nil⟩ [] rfl rfl rfl]
      simp only []
      rw [creationLog_inner kids _ ⟨nm, xmlNsAttr :: orderAttrs a, .nil⟩ [] rfl rfl rfl]
      simp only [creationLog, step, created]
      rw [flushLog_inner _ ⟨nm, xmlNsAttr :: orderAttrs a, (acc kids (.nil, [])).1⟩ [] rfl,
          flush_inner _ ⟨nm, xmlNsAttr :: orderAttrs a, (acc kids (.nil, [])).1⟩ [] rfl]
      simp only [St.appendNode]
      rw [ih _ true rfl rfl rfl rfl rfl ht]
      have hk := accLog_norm kids .nil []
      simp only [consText_nil_left] at hk
      simp only [List.cons_append]
      rw [← List.append_assoc (accLog kids []), hk]

end XalanModel.C05
