import XalanModel.C05.StreamProofs
/-!
A handler that refuses a chunk: the run with any budget is simulated by the run without one ("twin"); until the
refusal the two states differ in the budget only, afterwards the budgeted state is frozen while the twin's log
only grows.  Hence what was delivered is a prefix of what the unfailing run delivers.
-/
namespace XalanModel.C05

def WSt.unb (st : WSt) : WSt := { st with budget := none }
@[simp] theorem unb_buf (st : WSt) : st.unb.buf = st.buf := rfl
@[simp] theorem unb_failed (st : WSt) : st.unb.failed = st.failed := rfl
@[simp] theorem unb_utf16 (st : WSt) : st.unb.utf16 = st.utf16 := rfl
@[simp] theorem unb_bufSize (st : WSt) : st.unb.bufSize = st.bufSize := rfl
@[simp] theorem unb_flushWide (st : WSt) : st.unb.flushWide = st.flushWide := rfl
@[simp] theorem unb_hasFlushHandler (st : WSt) : st.unb.hasFlushHandler = st.hasFlushHandler := rfl
@[simp] theorem unb_log (st : WSt) : st.unb.log = st.log := rfl
@[simp] theorem unb_budget (st : WSt) : st.unb.budget = none := rfl
@[simp] theorem received_unb (st : WSt) : received st.unb = received st := rfl

/-- `a` (any budget) against `b` (no budget) -/
def Twin (a b : WSt) : Prop :=
  (a.failed = false ∧ a.unb = b) ∨ (a.failed = true ∧ b.failed = false ∧ received a <+: received b)

theorem Twin.prefix {a b : WSt} (h : Twin a b) : received a <+: received b := by
  rcases h with ⟨_, rfl⟩ | ⟨_, _, hp⟩
  · exact List.prefix_refl _
  · exact hp

structure Ok (p : WSt → WSt) : Prop where
  frozen : ∀ a, a.failed = true → (p a).failed = true ∧ received (p a) = received a
  mono : ∀ b, b.failed = false → b.budget = none →
    (p b).failed = false ∧ (p b).budget = none ∧ received b <+: received (p b)
  left : ∀ a, a.failed = false → Twin (p a) (p a.unb)

theorem Ok.pres {p} (h : Ok p) {a b : WSt} (t : Twin a b) (hb : b.budget = none) :
    Twin (p a) (p b) ∧ (p b).budget = none := by
  rcases t with ⟨hf, rfl⟩ | ⟨hf, hbf, hp⟩
  · exact ⟨h.left a hf, (h.mono a.unb hf rfl).2.1⟩
  · obtain ⟨f1, f2⟩ := h.frozen a hf
    obtain ⟨m1, m2, m3⟩ := h.mono b hbf hb
    exact ⟨.inr ⟨f1, m1, by rw [f2]; exact hp.trans m3⟩, m2⟩

theorem Ok.id : Ok (fun st => st) :=
  ⟨fun _ h => ⟨h, rfl⟩, fun _ h1 h2 => ⟨h1, h2, List.prefix_refl _⟩, fun _ h => .inl ⟨h, rfl⟩⟩

theorem Ok.comp {p q} (hp : Ok p) (hq : Ok q) : Ok (fun st => q (p st)) := by
  refine ⟨fun a h => ?_, fun b h1 h2 => ?_, fun a h => ?_⟩
  · obtain ⟨f1, f2⟩ := hp.frozen a h
    obtain ⟨g1, g2⟩ := hq.frozen (p a) f1
    exact ⟨g1, g2.trans f2⟩
  · obtain ⟨m1, m2, m3⟩ := hp.mono b h1 h2
    obtain ⟨n1, n2, n3⟩ := hq.mono (p b) m1 m2
    exact ⟨n1, n2, m3.trans n3⟩
  · exact (hq.pres (hp.left a h) (hp.mono a.unb h rfl).2.1).1

theorem Ok.ite {p q} (c : WSt → Prop) [DecidablePred c] (hc : ∀ x, c x.unb ↔ c x) (hp : Ok p) (hq : Ok q) :
    Ok (fun st => if c st then p st else q st) := by
  refine ⟨fun a h => ?_, fun b h1 h2 => ?_, fun a h => ?_⟩
  · show ((if c a then p a else q a).failed = true ∧ received (if c a then p a else q a) = received a)
    split
    · exact hp.frozen a h
    · exact hq.frozen a h
  · show ((if c b then p b else q b).failed = false ∧ (if c b then p b else q b).budget = none ∧
        received b <+: received (if c b then p b else q b))
    split
    · exact hp.mono b h1 h2
    · exact hq.mono b h1 h2
  · by_cases hca : c a
    · have : c a.unb := (hc a).mpr hca
      simp only [hca, this, ↓reduceIte]; exact hp.left a h
    · have : ¬ c a.unb := fun x => hca ((hc a).mp x)
      simp only [hca, this, ↓reduceIte]; exact hq.left a h

theorem ok_field (p : WSt → WSt) (hf : ∀ a, (p a).failed = a.failed) (hb : ∀ a, (p a).budget = a.budget)
    (hl : ∀ a, (p a).log = a.log ∨ (p a).log = a.log ++ [.flushed]) (hu : ∀ a, (p a).unb = p a.unb) : Ok p := by
  have hr : ∀ a, received (p a) = received a := by
    intro a
    rcases hl a with h | h <;> simp [received, h, chunksOf_append, chunksOf]
  refine ⟨fun a h => ⟨by rw [hf, h], hr a⟩, fun b h1 h2 => ⟨by rw [hf, h1], by rw [hb, h2], by rw [hr]; exact List.prefix_refl _⟩,
    fun a h => .inl ⟨by rw [hf, h], hu a⟩⟩

theorem ok_clearBuf : Ok WSt.clearBuf := ok_field _ (fun _ => rfl) (fun _ => rfl) (fun _ => .inl rfl) (fun _ => rfl)
theorem ok_pushBuf (s : List Nat) : Ok (fun st => st.pushBuf s) := ok_field _ (fun _ => rfl) (fun _ => rfl) (fun _ => .inl rfl) (fun _ => rfl)
theorem ok_setFlag (v : Bool) : Ok (fun st => st.setFlag v) := ok_field _ (fun _ => rfl) (fun _ => rfl) (fun _ => .inl rfl) (fun _ => rfl)
theorem ok_setUtf16 : Ok WSt.setUtf16 := ok_field _ (fun _ => rfl) (fun _ => rfl) (fun _ => .inl rfl) (fun _ => rfl)
theorem ok_addFlushed : Ok (fun st => st.addLog .flushed) := ok_field _ (fun _ => rfl) (fun _ => rfl) (fun _ => .inr rfl) (fun _ => rfl)

theorem ok_writeData (x : Bytes) : Ok (fun st => st.writeData x) := by
  refine ⟨fun a h => by simp [WSt.writeData, h], fun b h1 h2 => ?_, fun a h => ?_⟩
  · rw [writeData_eq b x h1 h2]
    exact ⟨by simp [h1], by simp [h2], by simp⟩
  · rw [writeData_eq a.unb x h rfl]
    unfold WSt.writeData
    simp only [h, Bool.false_eq_true, ↓reduceIte]
    cases hbud : a.budget with
    | none => left; exact ⟨by simp [h], rfl⟩
    | some k =>
      cases k with
      | zero =>
        right
        refine ⟨rfl, by simp [h], ?_⟩
        have : received (a.addLog (.chunk x)).fail = received (a.addLog (.chunk x)) := rfl
        rw [this]; simp
      | succ k => left; exact ⟨by simp [WSt.setBudget, h], rfl⟩

theorem ok_doWrite (tr : List Nat → Bytes) (s : List Nat) : Ok (fun st => st.doWrite tr s) := by
  have := Ok.ite (p := fun st => st.writeData (utf16Bytes s)) (q := fun st => st.writeData (tr s))
    (fun st => st.utf16 = true) (fun _ => Iff.rfl) (ok_writeData _) (ok_writeData _)
  exact this

theorem ok_flushBuffer (tr : List Nat → Bytes) : Ok (fun st => st.flushBuffer tr) := by
  -- the data written is the state's own buffer: state-dependent, so spelled out
  refine ⟨fun a h => ?_, fun b h1 h2 => ?_, fun a h => ?_⟩
  · unfold WSt.flushBuffer; split
    · exact ⟨h, rfl⟩
    · obtain ⟨f1, f2⟩ := (ok_doWrite tr a.buf).frozen a h
      exact ⟨f1, f2⟩
  · unfold WSt.flushBuffer; split
    · exact ⟨h1, h2, List.prefix_refl _⟩
    · obtain ⟨m1, m2, m3⟩ := (ok_doWrite tr b.buf).mono b h1 h2
      exact ⟨m1, m2, m3⟩
  · unfold WSt.flushBuffer
    simp only [unb_buf]
    by_cases hb : a.buf.isEmpty = true
    · simp only [hb, ↓reduceIte]; exact .inl ⟨h, rfl⟩
    · simp only [hb, Bool.false_eq_true, ↓reduceIte]
      exact (ok_clearBuf.pres ((ok_doWrite tr a.buf).left a h) ((ok_doWrite tr a.buf).mono a.unb h rfl).2.1).1

theorem ok_doFlush : Ok WSt.doFlush :=
  Ok.ite (fun st => st.hasFlushHandler = true) (fun _ => Iff.rfl) ok_addFlushed Ok.id

/-- `if st.failed then st else p st` -/
theorem Ok.guard {p} (hp : Ok p) : Ok (fun st => if st.failed then st else p st) :=
  Ok.ite (fun st => st.failed = true) (fun _ => Iff.rfl) Ok.id hp

theorem ok_writeWide (tr : List Nat → Bytes) (s : List Nat) : Ok (fun st => st.writeWide tr s) := by
  have h1 : Ok (fun st : WSt => if s.length + st.buf.length > st.bufSize then st.flushBuffer tr else st) :=
    Ok.ite (fun st => s.length + st.buf.length > st.bufSize) (fun _ => Iff.rfl) (ok_flushBuffer tr) Ok.id
  have h2 : Ok (fun st : WSt => if s.length > st.bufSize then st.doWrite tr s else st.pushBuf s) :=
    Ok.ite (fun st => s.length > st.bufSize) (fun _ => Iff.rfl) (ok_doWrite tr s) (ok_pushBuf s)
  exact h1.comp h2

theorem ok_writeWideChar (tr : List Nat → Bytes) (c : Nat) : Ok (fun st => st.writeWideChar tr c) := by
  have h1 : Ok (fun st : WSt => if (st.buf.length == st.bufSize) = true then st.flushBuffer tr else st) :=
    Ok.ite (fun st => (st.buf.length == st.bufSize) = true) (fun _ => Iff.rfl) (ok_flushBuffer tr) Ok.id
  exact h1.comp (ok_pushBuf [c])

theorem ok_flushWideChars (tr : List Nat → Bytes) : Ok (fun st => st.flushWideChars tr) :=
  Ok.ite (fun st => st.flushWide = true) (fun _ => Iff.rfl) ((ok_flushBuffer tr).comp (ok_setFlag false)) Ok.id

theorem ok_wstep (tr : List Nat → Bytes) (op : WOp) : Ok (fun st => wstep tr st op) := by
  cases op with
  | wide s => exact Ok.guard ((ok_writeWide tr s).comp (ok_setFlag true))
  | wideChar c => exact Ok.guard ((ok_writeWideChar tr c).comp (ok_setFlag true))
  | narrow b => exact Ok.guard ((ok_flushWideChars tr).comp (Ok.guard (ok_writeData b)))
  | flush => exact Ok.guard ((ok_flushBuffer tr).comp (Ok.guard ok_doFlush))
  | setUtf16 => exact Ok.guard ((ok_flushBuffer tr).comp (Ok.guard (ok_setUtf16.comp (ok_writeData [0xFF, 0xFE]))))

theorem ok_close (tr : List Nat → Bytes) : Ok (fun st => st.close tr) := (ok_flushBuffer tr).comp ok_doFlush

theorem twin_wrun (tr : List Nat → Bytes) (ops : List WOp) : ∀ (a b : WSt), Twin a b → b.budget = none →
    Twin (wrun tr ops a) (wrun tr ops b) ∧ (wrun tr ops b).budget = none := by
  induction ops with
  | nil => intro a b t hb; exact ⟨t, hb⟩
  | cons op ops ih =>
    intro a b t hb
    obtain ⟨t1, hb1⟩ := (ok_wstep tr op).pres t hb
    exact ih _ _ t1 hb1

end XalanModel.C05
