import XalanModel.C05.Target
/-!
# C05 — a Xerces DOM as result target: FormatterToXercesDOM (document mode)

Mirrors `src/xalanc/XercesParserLiaison/FormatterToXercesDOM.cpp` as written: `characters` always appends to
`m_textBuffer` (also outside the document element — the flush then appends a Text node to the DOM *document*, which
Xerces accepts for white space only and refuses with HIERARCHY_REQUEST_ERR otherwise);
`cdata` flushes and appends a CDATASection node; `charactersRaw` = flush + `cdata`; `ignorableWhitespace` flushes and
appends a Text node of its own (not accumulated); `startElement`/`endElement`/`comment`/`processingInstruction`
flush first; `endDocument` flushes.  The DOM built is shown as a `Forest` in which a CDATASection node appears as a
`text` node of its own (that is how the harness and XPath see it; adjacent text nodes are possible in a DOM).
Attributes are kept in the order given (the harness sends them in `NamedNodeMap` order).  Core Lean only.
-/
namespace XalanModel.C05

/-- `processAccumulatedText`: `append(m_doc->createTextNode(...))`; the Xerces document node accepts a white-space
Text child only -/
def xFlush (st : St) : Except Err St :=
  if st.buf.isEmpty then .ok st else
  match st.stack with
  | [] => if isWS st.buf then .ok { st.appendNode (.text st.buf .nil) with buf := [] } else .error .hierarchy
  | _ :: _ => .ok { st.doCharacters st.buf with buf := [] }

def xstep (st : St) : TEv → Except Err St
  | .characters s => .ok { st with buf := st.buf ++ s }
  | .cdata s => (xFlush st).map fun st => st.appendNode (.text s .nil)
  | .charactersRaw s => (xFlush st).map fun st => st.appendNode (.text s .nil)
  | .ignorableWhitespace s => (xFlush st).map fun st => st.appendNode (.text s .nil)
  | .comment s => (xFlush st).map fun st => st.appendNode (.comment s .nil)
  | .pi t d => (xFlush st).map fun st => st.appendNode (.pi t d .nil)
  | .endElement =>
    (xFlush st).map fun st =>
      match st.stack with
      | [] => st
      | f :: fs => { st with stack := fs }.appendNode (.elem f.name f.attrs f.kids .nil)
  | .startElement n a =>
    (xFlush st).bind fun st =>
      match st.stack with
      | [] => if st.docElem then .error .hierarchy else .ok { st with docElem := true, stack := [⟨n, a, .nil⟩] }
      | fs => .ok { st with stack := ⟨n, a, .nil⟩ :: fs }

def xrun : List TEv → St → Except Err St
  | [], st => .ok st
  | e :: es, st => match xstep st e with
    | .ok st' => xrun es st'
    | .error x => .error x

/-- `startDocument … endDocument` on an empty DOM document -/
def xbuild (evs : List TEv) : Except Err Forest :=
  match xrun evs { accumulate := true } with
  | .ok st => match xFlush st with
    | .ok st' => if st'.stack.isEmpty then .ok st'.docKids else .error .unbalanced
    | .error x => .error x
  | .error x => .error x

end XalanModel.C05
