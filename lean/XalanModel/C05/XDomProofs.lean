import XalanModel.C05.XDom
import XalanModel.C05.TargetProofs
namespace XalanModel.C05

theorem xFlush_inner (st : St) (fr : Frame) (frs : List Frame) (h : st.stack = fr :: frs) :
    xFlush st = .ok { st with stack := { fr with kids := flushK fr.kids st.buf } :: frs, buf := [] } := by
  cases st with
  | mk acc' dk de stack buf dtd =>
    simp only at h; subst h
    by_cases hb : buf = []
    · subst hb; simp [xFlush, flushK]
    · simp [xFlush, flushK, hb, St.doCharacters]

/-- `acc` with attributes kept as given (the DOM does not reorder what it is handed in map order) differs from the
native one only in `orderAttrs`; for attribute lists that are already in that order the two agree -/
def AttrsOrdered : Forest → Bool
  | .nil => true
  | .text _ n => AttrsOrdered n
  | .iws _ n => AttrsOrdered n
  | .comment _ n => AttrsOrdered n
  | .pi _ _ n => AttrsOrdered n
  | .elem _ a k n => (orderAttrs a == a) && AttrsOrdered k && AttrsOrdered n

/-- the DOM target's machine inside an element, on results delivered without ignorable-whitespace events -/
theorem xrun_events_inner (f : Forest) : ∀ (st : St) (fr : Frame) (frs : List Frame) (rest : List TEv),
    NoIws f = true → AttrsOrdered f = true → st.stack = fr :: frs →
    xrun (tevents f ++ rest) st =
      xrun rest { st with stack := { fr with kids := (acc f (fr.kids, st.buf)).1 } :: frs,
                          buf := (acc f (fr.kids, st.buf)).2 } := by
  induction f with
  | nil =>
    intro st fr frs rest _ _ hs
    cases st; simp only at hs; subst hs; simp [tevents, acc]
  | text s n ih =>
    intro st fr frs rest hn ho hs
    cases st with
    | mk acc' dk de stack buf dtd =>
      simp only at hs; subst hs
      simp only [tevents, List.cons_append, xrun, xstep]
      rw [ih _ fr frs rest (by simpa [NoIws] using hn) (by simpa [AttrsOrdered] using ho) rfl]
      simp [acc]
  | iws s n _ => intro st fr frs rest hn _ _; simp [NoIws] at hn
  | comment s n ih =>
    intro st fr frs rest hn ho hs
    cases st with
    | mk acc' dk de stack buf dtd =>
      simp only at hs; subst hs
      simp only [tevents, List.cons_append, xrun, xstep]
      rw [xFlush_inner _ fr frs rfl]
      simp only [Except.map, St.appendNode]
      rw [ih _ _ frs rest (by simpa [NoIws] using hn) (by simpa [AttrsOrdered] using ho) rfl]
      simp [acc]
  | pi t d n ih =>
    intro st fr frs rest hn ho hs
    cases st with
    | mk acc' dk de stack buf dtd =>
      simp only at hs; subst hs
      simp only [tevents, List.cons_append, xrun, xstep]
      rw [xFlush_inner _ fr frs rfl]
      simp only [Except.map, St.appendNode]
      rw [ih _ _ frs rest (by simpa [NoIws] using hn) (by simpa [AttrsOrdered] using ho) rfl]
      simp [acc]
  | elem nm a kids n ihk ih =>
    intro st fr frs rest hn ho hs
    simp only [NoIws, Bool.and_eq_true] at hn
    simp only [AttrsOrdered, Bool.and_eq_true, beq_iff_eq] at ho
    obtain ⟨⟨hoa, hok⟩, hon⟩ := ho
    cases st with
    | mk acc' dk de stack buf dtd =>
      simp only at hs; subst hs
      simp only [tevents, List.cons_append, List.append_assoc, xrun, xstep]
      rw [xFlush_inner _ fr frs rfl]
      simp only [Except.bind]
      rw [ihk _ ⟨nm, a, .nil⟩ (_ :: frs) _ hn.1 hok rfl]
      simp only [xrun, xstep]
      rw [xFlush_inner _ ⟨nm, a, (acc kids (.nil, [])).1⟩ (_ :: frs) rfl]
      simp only [Except.map, St.appendNode]
      rw [ih _ _ frs rest hn.2 hon rfl]
      simp [acc, hoa]

/-- a result with one document element, delivered as `characters` pieces: the DOM target builds the normal form -/
theorem xbuild_root (nm : Str) (a : List (Str × Str)) (kids : Forest) (hn : NoIws kids = true)
    (ho : AttrsOrdered (.elem nm a kids .nil) = true) :
    xbuild (.startElement nm a :: (tevents kids ++ [.endElement])) = .ok (.elem nm a (norm kids) .nil) := by
  simp only [AttrsOrdered, Bool.and_eq_true, beq_iff_eq] at ho
  unfold xbuild
  simp only [xrun, xstep, xFlush, List.isEmpty_nil, ↓reduceIte, Except.bind, Bool.false_eq_true]
  rw [xrun_events_inner kids _ ⟨nm, a, .nil⟩ [] _ hn ho.1.2 rfl]
  simp only [xrun, xstep]
  rw [xFlush_inner _ ⟨nm, a, (acc kids (.nil, [])).1⟩ [] rfl]
  simp [Except.map, St.appendNode, acc_nil_norm, Forest.append]

end XalanModel.C05
