import XalanModel.C05.XDom
import XalanModel.C05.TargetProofs
namespace XalanModel.C05

theorem xFlush_inner (st : St) (fr : Frame) (frs : List Frame) (h : st.stack = fr :: frs) :
    xFlush st = .ok { st with stack := { fr with kids := flushK fr.kids st.buf } :: frs, buf := [] } := by
  cases st with
  | mk acc' dk de stack buf dtd =>
    simp only at h; subst h
    by_cases hb : buf = []
    · subst hb; simp [xFlush, flushK]
    · simp [xFlush, flushK, hb, St.doCharacters]

/-- `acc` with attributes kept as given (the DOM does not reorder what it is handed in map order) differs from the
native one only in `orderAttrs`; for attribute lists that are already in that order the two agree -/
def AttrsOrdered : Forest → Bool
  | .nil => true
  | .text _ n => AttrsOrdered n
  | .iws _ n => AttrsOrdered n
  | .comment _ n => AttrsOrdered n
  | .pi _ _ n => AttrsOrdered n
  | .elem _ a k n => (orderAttrs a == a) && AttrsOrdered k && AttrsOrdered n

/-- the DOM target's machine inside an element, on results delivered without ignorable-whitespace events -/
theorem xrun_events_inner (f : Forest) : ∀ (st : St) (fr : Frame) (frs : List Frame) (rest : List TEv),
    NoIws f = true → AttrsOrdered f = true → st.stack = fr :: frs →
    xrun (tevents f ++ rest) st =
      xrun rest { st with stack := { fr with kids := (acc f (fr.kids, st.buf)).1 } :: frs,
                          buf := (acc f (fr.kids, st.buf)).2 } := by
  induction f with
  | nil =>
    intro st fr frs rest _ _ hs
    cases st; simp only at hs; subst hs; simp [tevents, acc]
  | text s n ih =>
    intro st fr frs rest hn ho hs
    cases st with
    | mk acc' dk de stack buf dtd =>
      simp only at hs; subst hs
      simp only [tevents, List.cons_append, xrun, xstep]
      rw [ih _ fr frs rest (by simpa [NoIws] using hn) (by simpa [AttrsOrdered] using ho) rfl]
      simp [acc]
  | iws s n _ => intro st fr frs rest hn _ _; simp [NoIws] at hn
  | comment s n ih =>
    intro st fr frs rest hn ho hs
    cases st with
    | mk acc' dk de stack buf dtd =>
      simp only at hs; subst hs
      simp only [tevents, List.cons_append, xrun, xstep]
      rw [xFlush_inner _ fr frs rfl]
      simp only [Except.map, St.appendNode]
      rw [ih _ _ frs rest (by simpa [NoIws] using hn) (by simpa [AttrsOrdered] using ho) rfl]
      simp [acc]
  | pi t d n ih =>
    intro st fr frs rest hn ho hs
    cases st with
    | mk acc' dk de stack buf dtd =>
      simp only at hs; subst hs
      simp only [tevents, List.cons_append, xrun, xstep]
      rw [xFlush_inner _ fr frs rfl]
      simp only [Except.map, St.appendNode]
      rw [ih _ _ frs rest (by simpa [NoIws] using hn) (by simpa [AttrsOrdered] using ho) rfl]
      simp [acc]
  | elem nm a kids n ihk ih =>
    intro st fr frs rest hn ho hs
    simp only [NoIws, Bool.and_eq_true] at hn
    simp only [AttrsOrdered, Bool.and_eq_true, beq_iff_eq] at ho
    obtain ⟨⟨hoa, hok⟩, hon⟩ := ho
    cases st with
    | mk acc' dk de stack buf dtd =>
      simp only at hs; subst hs
      simp only [tevents, List.cons_append, List.append_assoc, xrun, xstep]
      rw [xFlush_inner _ fr frs rfl]
      simp only [Except.bind]
      rw [ihk _ ⟨nm, a, .nil⟩ (_ :: frs) _ hn.1 hok rfl]
      simp only [xrun, xstep]
      rw [xFlush_inner _ ⟨nm, a, (acc kids (.nil, [])).1⟩ (_ :: frs) rfl]
      simp only [Except.map, St.appendNode]
      rw [ih _ _ frs rest hn.2 hon rfl]
      simp [acc, hoa]

/-- a result with one document element, delivered as `characters` pieces: the DOM target builds the normal form -/
theorem xbuild_root (nm : Str) (a : List (Str × Str)) (kids : Forest) (hn : NoIws kids = true)
    (ho : AttrsOrdered (.elem nm a kids .nil) = true) :
    xbuild (.startElement nm a :: (tevents kids ++ [.endElement])) = .ok (.elem nm a (norm kids) .nil) := by
  simp only [AttrsOrdered, Bool.and_eq_true, beq_iff_eq] at ho
  unfold xbuild
  simp only [xrun, xstep, xFlush, List.isEmpty_nil, ↓reduceIte, Except.bind, Bool.false_eq_true]
  rw [xrun_events_inner kids _ ⟨nm, a, .nil⟩ [] _ hn ho.1.2 rfl]
  simp only [xrun, xstep]
  rw [xFlush_inner _ ⟨nm, a, (acc kids (.nil, [])).1⟩ [] rfl]
  simp [Except.map, St.appendNode, acc_nil_norm, Forest.append]

/-! ### deliveries with CDATA sections / ignorable white space

In a *delivery forest* a `text s` node is a piece sent through `characters`, an `iws s` node a piece sent through
`cdata` (`devents false`) or through `ignorableWhitespace` (`devents true`).  `asText` forgets the difference (the XPath view). -/

def asText : Forest → Forest
  | .nil => .nil
  | .text s n => .text s (asText n)
  | .iws s n => .text s (asText n)
  | .comment s n => .comment s (asText n)
  | .pi t d n => .pi t d (asText n)
  | .elem nm a k n => .elem nm a (asText k) (asText n)

/-- result events of a delivery forest; `w` says how the marked pieces are sent: `ignorableWhitespace` or `cdata` -/
def devents (w : Bool) : Forest → List TEv
  | .nil => []
  | .text s n => .characters s :: devents w n
  | .iws s n => (if w then .ignorableWhitespace s else .cdata s) :: devents w n
  | .comment s n => .comment s :: devents w n
  | .pi t d n => .pi t d :: devents w n
  | .elem nm a k n => .startElement nm a :: (devents w k ++ .endElement :: devents w n)

/-- the DOM target's accumulator: a specially delivered piece becomes a Text/CDATASection node of its own -/
def accX : Forest → Forest × Str → Forest × Str
  | .nil, p => p
  | .text s n, p => accX n (p.1, p.2 ++ s)
  | .iws s n, p => accX n ((flushK p.1 p.2).append (.text s .nil), [])
  | .comment s n, p => accX n ((flushK p.1 p.2).append (.comment s .nil), [])
  | .pi t d n, p => accX n ((flushK p.1 p.2).append (.pi t d .nil), [])
  | .elem nm a k n, p =>
    accX n ((flushK p.1 p.2).append (.elem nm a (flushK (accX k (.nil, [])).1 (accX k (.nil, [])).2) .nil), [])

/-- put raw text in front, without merging -/
def consRaw (c : Str) (g : Forest) : Forest := if c.isEmpty then g else .text c g

theorem norm_consRaw (c : Str) (g : Forest) : norm (consRaw c g) = consText c (norm g) := by
  unfold consRaw
  by_cases h : c = []
  · subst h; simp
  · have : c.isEmpty = false := by cases c <;> simp_all
    simp [this, norm]

theorem flushK_consRaw (k : Forest) (b : Str) : flushK k b = k.append (consRaw b .nil) := by
  unfold flushK consRaw; split <;> simp

theorem consRaw_append (b : Str) (g h : Forest) : (consRaw b g).append h = consRaw b (g.append h) := by
  unfold consRaw; split <;> simp [Forest.append]

/-- `norm` of a chain depends on its tail only through the tail's `norm` -/
theorem norm_append_congr (k : Forest) : ∀ (g g' : Forest), norm g = norm g' → norm (k.append g) = norm (k.append g') := by
  induction k with
  | nil => intro g g' h; simpa using h
  | text s n ih => intro g g' h; simp [Forest.append, norm, ih g g' h]
  | iws s n ih => intro g g' h; simp [Forest.append, norm, ih g g' h]
  | comment s n ih => intro g g' h; simp [Forest.append, norm, ih g g' h]
  | pi t d n ih => intro g g' h; simp [Forest.append, norm, ih g g' h]
  | elem nm a kids n _ ih => intro g g' h; simp [Forest.append, norm, ih g g' h]

/-- the DOM target's accumulator, in the XPath view, is the normal form of the delivery read as text -/
theorem accX_norm (f : Forest) : ∀ (k : Forest) (b : Str),
    norm (flushK (accX f (k, b)).1 (accX f (k, b)).2) = norm (k.append (consRaw b (asText f))) := by
  induction f with
  | nil => intro k b; simp [accX, asText, flushK_consRaw]
  | text s n ih =>
    intro k b
    simp only [accX, asText]
    rw [ih]
    apply norm_append_congr
    rw [norm_consRaw, norm_consRaw, norm, consText_consText]
  | iws s n ih =>
    intro k b
    simp only [accX, asText]
    rw [ih, flushK_consRaw]
    congr 1
    simp [consRaw, Forest.append_assoc, consRaw_append, Forest.append]
    by_cases hb : b = [] <;> simp [hb, Forest.append]
  | comment s n ih =>
    intro k b
    simp only [accX, asText]
    rw [ih, flushK_consRaw]
    congr 1
    simp [consRaw, Forest.append_assoc, consRaw_append, Forest.append]
    by_cases hb : b = [] <;> simp [hb, Forest.append]
  | pi t d n ih =>
    intro k b
    simp only [accX, asText]
    rw [ih, flushK_consRaw]
    congr 1
    simp [consRaw, Forest.append_assoc, consRaw_append, Forest.append]
    by_cases hb : b = [] <;> simp [hb, Forest.append]
  | elem nm a kids n ihk ih =>
    intro k b
    simp only [accX, asText]
    rw [ih, flushK_consRaw]
    have hk := ihk .nil []
    simp only [consRaw, List.isEmpty_nil, ↓reduceIte, Forest.nil_append] at hk
    have e1 : ((k.append (consRaw b .nil)).append
          (.elem nm a (flushK (accX kids (.nil, [])).1 (accX kids (.nil, [])).2) .nil)).append (consRaw [] (asText n)) =
        k.append (consRaw b (.elem nm a (flushK (accX kids (.nil, [])).1 (accX kids (.nil, [])).2) (asText n))) := by
      simp [consRaw, Forest.append_assoc, consRaw_append, Forest.append]
      by_cases hb : b = [] <;> simp [hb, Forest.append]
    rw [e1]
    apply norm_append_congr
    rw [norm_consRaw, norm_consRaw]
    simp [norm, hk]

/-- the DOM target's machine inside an element on any delivery -/
theorem xrun_devents_inner (w : Bool) (f : Forest) : ∀ (st : St) (fr : Frame) (frs : List Frame) (rest : List TEv),
    st.stack = fr :: frs →
    xrun (devents w f ++ rest) st =
      xrun rest { st with stack := { fr with kids := (accX f (fr.kids, st.buf)).1 } :: frs,
                          buf := (accX f (fr.kids, st.buf)).2 } := by
  induction f with
  | nil =>
    intro st fr frs rest hs
    cases st; simp only at hs; subst hs; simp [devents, accX]
  | text s n ih =>
    intro st fr frs rest hs
    cases st with
    | mk acc' dk de stack buf dtd =>
      simp only at hs; subst hs
      simp only [devents, List.cons_append, xrun, xstep]
      rw [ih _ fr frs rest rfl]
      simp [accX]
  | iws s n ih =>
    intro st fr frs rest hs
    cases st with
    | mk acc' dk de stack buf dtd =>
      simp only at hs; subst hs
      cases w <;>
      · simp only [devents, List.cons_append, xrun, xstep, Bool.false_eq_true, ↓reduceIte]
        rw [xFlush_inner _ fr frs rfl]
        simp only [Except.map, St.appendNode]
        rw [ih _ _ frs rest rfl]
        simp [accX]
  | comment s n ih =>
    intro st fr frs rest hs
    cases st with
    | mk acc' dk de stack buf dtd =>
      simp only at hs; subst hs
      simp only [devents, List.cons_append, xrun, xstep]
      rw [xFlush_inner _ fr frs rfl]
      simp only [Except.map, St.appendNode]
      rw [ih _ _ frs rest rfl]
      simp [accX]
  | pi t d n ih =>
    intro st fr frs rest hs
    cases st with
    | mk acc' dk de stack buf dtd =>
      simp only at hs; subst hs
      simp only [devents, List.cons_append, xrun, xstep]
      rw [xFlush_inner _ fr frs rfl]
      simp only [Except.map, St.appendNode]
      rw [ih _ _ frs rest rfl]
      simp [accX]
  | elem nm a kids n ihk ih =>
    intro st fr frs rest hs
    cases st with
    | mk acc' dk de stack buf dtd =>
      simp only at hs; subst hs
      simp only [devents, List.cons_append, List.append_assoc, xrun, xstep]
      rw [xFlush_inner _ fr frs rfl]
      simp only [Except.bind]
      rw [ihk _ ⟨nm, a, .nil⟩ (_ :: frs) _ rfl]
      simp only [xrun, xstep]
      rw [xFlush_inner _ ⟨nm, a, (accX kids (.nil, [])).1⟩ (_ :: frs) rfl]
      simp only [Except.map, St.appendNode]
      rw [ih _ _ frs rest rfl]
      simp [accX]

/-- the DOM built for a result with one document element, any delivery -/
theorem xbuild_root_d (w : Bool) (nm : Str) (a : List (Str × Str)) (kids : Forest) :
    xbuild (.startElement nm a :: (devents w kids ++ [.endElement])) =
      .ok (.elem nm a (flushK (accX kids (.nil, [])).1 (accX kids (.nil, [])).2) .nil) := by
  unfold xbuild
  simp only [xrun, xstep, xFlush, List.isEmpty_nil, ↓reduceIte, Except.bind, Bool.false_eq_true]
  rw [xrun_devents_inner w kids _ ⟨nm, a, .nil⟩ [] _ rfl]
  simp only [xrun, xstep]
  rw [xFlush_inner _ ⟨nm, a, (accX kids (.nil, [])).1⟩ [] rfl]
  simp [Except.map, St.appendNode, Forest.append]

theorem accX_nil_norm (f : Forest) : norm (flushK (accX f (.nil, [])).1 (accX f (.nil, [])).2) = norm (asText f) := by
  have := accX_norm f .nil []
  simpa [consRaw] using this

theorem devents_false_asText (f : Forest) : (devents false f).map tAsText = tevents (asText f) := by
  induction f with
  | nil => rfl
  | text s n ih => simp [devents, tevents, asText, tAsText, ih]
  | iws s n ih => simp [devents, tevents, asText, tAsText, ih]
  | comment s n ih => simp [devents, tevents, asText, tAsText, ih]
  | pi t d n ih => simp [devents, tevents, asText, tAsText, ih]
  | elem nm a k n ihk ih => simp [devents, tevents, asText, tAsText, ihk, ih]

theorem devents_true_tevents (f : Forest) : devents true f = tevents f := by
  induction f with
  | nil => rfl
  | text s n ih => simp [devents, tevents, ih]
  | iws s n ih => simp [devents, tevents, ih]
  | comment s n ih => simp [devents, tevents, ih]
  | pi t d n ih => simp [devents, tevents, ih]
  | elem nm a k n ihk ih => simp [devents, tevents, ihk, ih]

theorem filter_const_false {α : Type} (l : List α) : l.filter (fun _ => false) = [] := by
  induction l <;> simp_all

theorem orderAttrs_idem (a : List (Str × Str)) : orderAttrs (orderAttrs a) = orderAttrs a := by
  simp [orderAttrs, List.filter_append, List.filter_filter, filter_const_false]

theorem norm_asText_consText (s : Str) (g : Forest) : norm (asText (consText s g)) = consText s (norm (asText g)) := by
  by_cases hs : s = []
  · subst hs; simp only [consText_nil_left]
  · have hse : s.isEmpty = false := by cases s <;> simp_all
    cases g with
    | text b n =>
      show norm (asText (.text (s ++ b) n)) = consText s (norm (asText (.text b n)))
      simp only [asText, norm, consText_consText]
    | iws b n =>
      have : consText s (.iws b n) = .text s (.iws b n) := by simp [consText, hse]
      rw [this]; simp only [asText, norm]
    | nil =>
      have : consText s .nil = .text s .nil := by simp [consText, hse]
      rw [this]; simp only [asText, norm]
    | comment c n =>
      have : consText s (.comment c n) = .text s (.comment c n) := by simp [consText, hse]
      rw [this]; simp only [asText, norm]
    | pi t d n =>
      have : consText s (.pi t d n) = .text s (.pi t d n) := by simp [consText, hse]
      rw [this]; simp only [asText, norm]
    | elem nm a k n =>
      have : consText s (.elem nm a k n) = .text s (.elem nm a k n) := by simp [consText, hse]
      rw [this]; simp only [asText, norm]

/-- normalising before or after forgetting the delivery marks gives the same XPath view -/
theorem norm_asText_norm (f : Forest) : norm (asText (norm f)) = norm (asText f) := by
  induction f with
  | nil => rfl
  | text s n ih => simp [norm, asText, norm_asText_consText, ih]
  | iws s n ih => simp [norm, asText, ih]
  | comment s n ih => simp [norm, asText, ih]
  | pi t d n ih => simp [norm, asText, ih]
  | elem nm a k n ihk ih => simp [norm, asText, ihk, ih, orderAttrs_idem]

end XalanModel.C05
