/-!
# C05 (i) — XalanSourceTreeContentHandler: building the source tree from SAX events

Mirrors `src/xalanc/XalanSourceTree/XalanSourceTreeContentHandler.cpp` as written
(`characters` 68, `endElement` 112, `ignorableWhitespace` 201, `processingInstruction` 225,
`startDocument` 253, `startElement` 288, `comment` 388, `startDTD`/`endDTD`,
`processAccumulatedText` 486, `doCharacters` 505) and the two facts of
`XalanSourceTreeDocument.cpp` the handler relies on (`appendChildNode(Element*)` throws
`HIERARCHY_REQUEST_ERR` for a second document element, 1321; `createTextNode` classifies a node
as whitespace by content, 916).

Representation.  The C++ links nodes by first-child / next-sibling pointers
(`XalanSourceTreeHelper::appendSibling`); the model uses the same shape as an immutable value:
`Forest` is a sibling chain, an element carries the chain of its children.  The pair
(`m_elementStack`, `m_lastChildStack`) becomes a list of `Frame`s, each holding the children
appended so far (appending at the end of the chain = what `m_lastChild` does in O(1)).
An element is linked into its parent when its frame is popped, the C++ links it when it is
created; the two agree on every complete (balanced) event sequence, which is all the driver and
the theorems look at.

Core Lean only (the driver imports this file).
-/
namespace XalanModel.C05

/-- UTF-16 code units -/
abbrev Str := List Nat

/-- `isXMLWhitespace(XalanDOMChar)` (DOMStringHelper.hpp:1312) -/
def isWSChar (c : Nat) : Bool := c == 0x20 || c == 0x09 || c == 0x0A || c == 0x0D

/-- `isXMLWhitespace(chars, 0, length)` -/
def isWS (s : Str) : Bool := s.all isWSChar

/-- sibling chain of nodes; `text` = node made by `doCharacters` (whitespace class derived from
content, as `createTextNode` does), `iws` = node made by `ignorableWhitespace`
(`createTextIWSNode`, trusted to be whitespace) -/
inductive Forest where
  | nil
  | text (s : Str) (next : Forest)
  | iws (s : Str) (next : Forest)
  | comment (s : Str) (next : Forest)
  | pi (target data : Str) (next : Forest)
  | elem (name : Str) (attrs : List (Str × Str)) (kids : Forest) (next : Forest)
deriving Repr, DecidableEq, Inhabited

namespace Forest

/-- `appendSibling` at the end of a chain -/
def append : Forest → Forest → Forest
  | nil, g => g
  | text s n, g => text s (append n g)
  | iws s n, g => iws s (append n g)
  | comment s n, g => comment s (append n g)
  | pi t d n, g => pi t d (append n g)
  | elem nm a k n, g => elem nm a k (append n g)

def isText : Forest → Bool
  | text _ _ => true
  | _ => false

end Forest

/-- SAX / lexical-handler events between `startDocument` and `endDocument` -/
inductive Ev where
  | startElement (name : Str) (attrs : List (Str × Str))
  | endElement
  | characters (s : Str)
  | ignorableWhitespace (s : Str)
  | comment (s : Str)
  | pi (target data : Str)
  | startDTD
  | endDTD
deriving Repr, DecidableEq

inductive Err where
  | hierarchy      -- XalanDOMException(HIERARCHY_REQUEST_ERR)
  | nullParent     -- (historic: ignorableWhitespace outside the document element before /repo b510409)
  | unbalanced     -- endElement with only the dummy on the stack / endDocument inside an element
deriving Repr, DecidableEq

structure Frame where
  name : Str
  attrs : List (Str × Str)
  kids : Forest                 -- children appended so far
deriving Repr, DecidableEq

structure St where
  accumulate : Bool             -- m_accumulateText (constructor default: true)
  docKids : Forest := .nil      -- children of the document node
  docElem : Bool := false       -- m_documentElement != 0
  stack : List Frame := []      -- m_elementStack without the dummy; head = m_currentElement
  buf : Str := []               -- m_textBuffer
  inDTD : Bool := false
deriving Repr, DecidableEq

/-- `doAppendChildNode(m_document, m_currentElement, m_lastChild, node)` for a non-element node -/
def St.appendNode (st : St) (node : Forest) : St :=
  match st.stack with
  | [] => { st with docKids := st.docKids.append node }
  | f :: fs => { st with stack := { f with kids := f.kids.append node } :: fs }

/-- `doCharacters`: needs a current element (asserted in the C++); with none the text is lost -/
def St.doCharacters (st : St) (s : Str) : St :=
  match st.stack with
  | [] => st
  | f :: fs => { st with stack := { f with kids := f.kids.append (.text s .nil) } :: fs }

/-- `processAccumulatedText` -/
def St.flush (st : St) : St :=
  if st.buf.isEmpty then st else { st.doCharacters st.buf with buf := [] }

/-- `createElement`: "If we're creating the document element, add the special xml namespace
attribute" (`fAddXMLNamespaceAttribute`): `xmlns:xml="http://www.w3.org/XML/1998/namespace"` comes
first in the attribute list of the document element -/
def xmlNsAttr : Str × Str :=
  ("xmlns:xml".toList.map Char.toNat, "http://www.w3.org/XML/1998/namespace".toList.map Char.toNat)

/-- `startsWith(name, "xmlns:") || name == "xmlns"` (`XalanSourceTreeDocument::createAttributes`) -/
def isNsAttr (n : Str) : Bool :=
  n == "xmlns".toList.map Char.toNat || n.take 6 == "xmlns:".toList.map Char.toNat

/-- `createAttributes` makes two passes over the SAX attributes: 'Create the namespace "nodes" first…', then
'the attribute "nodes"' — so the attribute vector holds the namespace declarations before the other attributes
(XPath leaves the relative order of attribute nodes to the implementation). -/
def orderAttrs (a : List (Str × Str)) : List (Str × Str) :=
  a.filter (fun x => isNsAttr x.1) ++ a.filter (fun x => !isNsAttr x.1)

def step (st : St) : Ev → Except Err St
  | .characters s =>
    match st.stack with
    | [] => if isWS s then .ok st else .error .hierarchy
    | _ :: _ => if st.accumulate then .ok { st with buf := st.buf ++ s } else .ok (st.doCharacters s)
  | .endElement =>
    let st := st.flush
    match st.stack with
    | [] => .error .unbalanced
    | f :: fs => .ok ({ st with stack := fs }.appendNode (.elem f.name f.attrs f.kids .nil))
  | .ignorableWhitespace s =>
    -- `if (m_currentElement != 0)` (since /repo b510409; before, the test was `m_elementStack.empty() == false`, always
    -- true because of the dummy entry, and the handler dereferenced the null current element)
    match st.stack with
    | [] => .ok st
    | _ :: _ => .ok (st.flush.appendNode (.iws s .nil))
  | .pi t d => .ok (st.flush.appendNode (.pi t d .nil))
  | .startElement n a =>
    let st := { st with inDTD := false }.flush
    match st.stack with
    | [] =>
      if st.docElem then .error .hierarchy
      else .ok { st with docElem := true, stack := [⟨n, xmlNsAttr :: orderAttrs a, .nil⟩] }
    | fs => .ok { st with stack := ⟨n, orderAttrs a, .nil⟩ :: fs }
  | .comment s => if st.inDTD then .ok st else .ok (st.flush.appendNode (.comment s .nil))
  | .startDTD => .ok { st with inDTD := true }
  | .endDTD => .ok { st with inDTD := false }

instance instDecEqExcept {ε α : Type} [DecidableEq ε] [DecidableEq α] : DecidableEq (Except ε α)
  | .ok a, .ok b => if h : a = b then isTrue (by rw [h]) else isFalse (fun h' => h (by cases h'; rfl))
  | .error a, .error b => if h : a = b then isTrue (by rw [h]) else isFalse (fun h' => h (by cases h'; rfl))
  | .ok _, .error _ => isFalse (fun h => by cases h)
  | .error _, .ok _ => isFalse (fun h => by cases h)

def run : List Ev → St → Except Err St
  | [], st => .ok st
  | e :: es, st => match step st e with
    | .ok st' => run es st'
    | .error x => .error x

/-- `startDocument … endDocument`: the children of the document node -/
def build (accumulate : Bool) (evs : List Ev) : Except Err Forest :=
  match run evs { accumulate := accumulate } with
  | .ok st => if st.stack.isEmpty then .ok st.docKids else .error .unbalanced
  | .error x => .error x

/-! ## Specification: the XPath data model of a document given with arbitrarily fragmented text -/

/-- the SAX events of a forest (a text node = one `characters` call) -/
def events : Forest → List Ev
  | .nil => []
  | .text s n => .characters s :: events n
  | .iws s n => .ignorableWhitespace s :: events n
  | .comment s n => .comment s :: events n
  | .pi t d n => .pi t d :: events n
  | .elem nm a k n => .startElement nm a :: (events k ++ .endElement :: events n)

/-- put text `a` in front of an already normalised chain -/
def consText (a : Str) : Forest → Forest
  | .text b n => .text (a ++ b) n
  | f => if a.isEmpty then f else .text a f

/-- XPath data model normal form: adjacent text merged, empty text dropped, at every level -/
def norm : Forest → Forest
  | .nil => .nil
  | .text s n => consText s (norm n)
  | .iws s n => .iws s (norm n)
  | .comment s n => .comment s (norm n)
  | .pi t d n => .pi t d (norm n)
  | .elem nm a k n => .elem nm (orderAttrs a) (norm k) (norm n)

/-- document level: character data outside the document element is not part of the tree -/
def normDoc : Forest → Forest
  | .nil => .nil
  | .text _ n => normDoc n
  | .iws s n => .iws s (normDoc n)
  | .comment s n => .comment s (normDoc n)
  | .pi t d n => .pi t d (normDoc n)
  | .elem nm a k n => .elem nm (xmlNsAttr :: orderAttrs a) (norm k) (normDoc n)

/-- no empty text node, no two adjacent `text` nodes, at every level -/
def Normal : Forest → Bool
  | .nil => true
  | .text s n => !s.isEmpty && !n.isText && Normal n
  | .iws _ n => Normal n
  | .comment _ n => Normal n
  | .pi _ _ n => Normal n
  | .elem _ _ k n => Normal k && Normal n

/-- no node produced by `ignorableWhitespace` anywhere -/
def NoIws : Forest → Bool
  | .nil => true
  | .text _ n => NoIws n
  | .iws _ _ => false
  | .comment _ n => NoIws n
  | .pi _ _ n => NoIws n
  | .elem _ _ k n => NoIws k && NoIws n

/-- is the node a text node in the XPath sense (either C++ class) -/
def Forest.isXText : Forest → Bool
  | .text _ _ => true
  | .iws _ _ => true
  | _ => false

/-- XPath data model: never two adjacent text nodes (of either class), none empty -/
def XPathNormal : Forest → Bool
  | .nil => true
  | .text s n => !s.isEmpty && !n.isXText && XPathNormal n
  | .iws s n => !s.isEmpty && !n.isXText && XPathNormal n
  | .comment _ n => XPathNormal n
  | .pi _ _ n => XPathNormal n
  | .elem _ _ k n => XPathNormal k && XPathNormal n

/-- what a well-formed document looks like at the top: whitespace-only text (which the parser does
not even report), comments, PIs and exactly at most one element, no `ignorableWhitespace` -/
def TopOK : Forest → Bool → Bool
  | .nil, _ => true
  | .text s n, seen => isWS s && TopOK n seen
  | .iws _ _, _ => false
  | .comment _ n, seen => TopOK n seen
  | .pi _ _ n, seen => TopOK n seen
  | .elem _ _ _ n, seen => !seen && TopOK n true

/-- a run of text nodes -/
def chunks : List Str → Forest → Forest
  | [], f => f
  | c :: cs, f => .text c (chunks cs f)

/-- `Refrag f g`: `g` is `f` with every run of character data cut into `characters()` calls in a
different way (any number of pieces, empty pieces allowed) -/
inductive Refrag : Forest → Forest → Prop
  | nil : Refrag .nil .nil
  | texts (cs ds : List Str) (f g : Forest) : cs.flatten = ds.flatten → Refrag f g →
      Refrag (chunks cs f) (chunks ds g)
  | iws (s : Str) (f g : Forest) : Refrag f g → Refrag (.iws s f) (.iws s g)
  | comment (s : Str) (f g : Forest) : Refrag f g → Refrag (.comment s f) (.comment s g)
  | pi (t d : Str) (f g : Forest) : Refrag f g → Refrag (.pi t d f) (.pi t d g)
  | elem (nm : Str) (a : List (Str × Str)) (k k' f g : Forest) : Refrag k k' → Refrag f g →
      Refrag (.elem nm a k f) (.elem nm a k' g)

end XalanModel.C05
