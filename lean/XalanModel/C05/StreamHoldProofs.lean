import XalanModel.C05.StreamHold
import XalanModel.C05.StreamProofs
/-!
With the hold-back in place the stream delivers `specR` for every transcoder that treats code points
independently (`PairAdditive`), for every history and buffer size.
-/
namespace XalanModel.C05

theorem isTrail_of_isLead {u : Nat} (h : isLead u = true) : isTrail u = false := by
  simp only [isLead, Bool.and_eq_true, decide_eq_true_eq] at h
  simp only [isTrail, Bool.and_eq_false_iff, decide_eq_false_iff_not]
  omega

/-- cutting between `p1` and `p2 ++ anything` never separates a pair -/
def SafeCut (p1 p2 : List Nat) : Prop := endsLead p1 = false ∨ ∃ h t, p2 = h :: t ∧ isTrail h = false

theorem safeCut_append {p1 p2 : List Nat} (h : SafeCut p1 p2) (x : List Nat) : SafeCut p1 (p2 ++ x) := by
  rcases h with h | ⟨a, t, rfl, ht⟩
  · exact .inl h
  · exact .inr ⟨a, t ++ x, rfl, ht⟩

theorem cutsPair_of_safe {p1 p2 : List Nat} (h : SafeCut p1 p2) : cutsPair p1 p2 = false := by
  rcases h with h | ⟨a, t, rfl, ht⟩
  · simp [cutsPair, h]
  · simp [cutsPair, ht]

theorem enc_split {tr} (hp : PairAdditive tr) (u : Bool) (p1 p2 : List Nat) (h : u = true ∨ SafeCut p1 p2) :
    enc tr u (p1 ++ p2) = enc tr u p1 ++ enc tr u p2 := by
  cases u with
  | true => simp [enc, utf16Bytes_append]
  | false =>
    have hs : SafeCut p1 p2 := by rcases h with h | h; · cases h
                                  · exact h
    simp only [enc, Bool.false_eq_true, ↓reduceIte]
    exact hp.2 p1 p2 (cutsPair_of_safe hs)

theorem specR_eq_enc (tr : List Nat → Bytes) (u : Bool) (p : List Nat) : specR tr u p [] = enc tr u p := by
  simp [specR, enc]

theorem specR_split {tr} (hp : PairAdditive tr) (r : List WOp) : ∀ (u : Bool) (p1 p2 : List Nat),
    (u = true ∨ SafeCut p1 p2) → specR tr u (p1 ++ p2) r = enc tr u p1 ++ specR tr u p2 r := by
  induction r with
  | nil => intro u p1 p2 h; rw [specR_eq_enc, specR_eq_enc]; exact enc_split hp u p1 p2 h
  | cons op r ih =>
    intro u p1 p2 h
    cases op with
    | wide s =>
      simp only [specR, List.append_assoc]
      exact ih u p1 (p2 ++ s) (h.imp id (fun hs => safeCut_append hs s))
    | wideChar c =>
      simp only [specR, List.append_assoc]
      exact ih u p1 (p2 ++ [c]) (h.imp id (fun hs => safeCut_append hs [c]))
    | narrow b =>
      have := enc_split hp u p1 p2 h
      simp only [enc] at this
      simp only [specR, enc, this, List.append_assoc]
    | flush =>
      have := enc_split hp u p1 p2 h
      simp only [enc] at this
      simp only [specR, enc, this, List.append_assoc]
    | setUtf16 =>
      have := enc_split hp u p1 p2 h
      simp only [enc] at this
      simp only [specR, enc, this, List.append_assoc]

/-- `st'` is a state that cannot fail, reached from `st` after the wide units `w` were written -/
structure Adv (tr : List Nat → Bytes) (st st' : WSt) (w : List Nat) : Prop where
  notFailed : st'.failed = false
  noBudget : st'.budget = none
  utf16 : st'.utf16 = st.utf16
  bufSize : st'.bufSize = st.bufSize
  eq : ∀ r, received st' ++ specR tr st.utf16 st'.buf r = received st ++ specR tr st.utf16 (st.buf ++ w) r

theorem Adv.refl {tr} (st : WSt) (h1 : st.failed = false) (h2 : st.budget = none) : Adv tr st st [] :=
  ⟨h1, h2, rfl, rfl, by simp⟩

theorem Adv.trans {tr} {a b c : WSt} {w1 w2 : List Nat} (h1 : Adv tr a b w1) (h2 : Adv tr b c w2) :
    Adv tr a c (w1 ++ w2) := by
  refine ⟨h2.notFailed, h2.noBudget, h2.utf16.trans h1.utf16, h2.bufSize.trans h1.bufSize, fun r => ?_⟩
  have e2 := h2.eq r
  rw [h1.utf16] at e2
  rw [e2]
  have e1 := h1.eq (.wide w2 :: r)
  simp only [specR] at e1
  rw [e1, List.append_assoc]

theorem adv_pushBuf {tr} (st : WSt) (s : List Nat) (h1 : st.failed = false) (h2 : st.budget = none) :
    Adv tr st (st.pushBuf s) s :=
  ⟨h1, h2, rfl, rfl, by simp⟩

theorem adv_doWrite_split {tr} (hp : PairAdditive tr) (st : WSt) (p1 p2 : List Nat) (h1 : st.failed = false)
    (h2 : st.budget = none) (hb : st.buf = p1 ++ p2) (hs : st.utf16 = true ∨ SafeCut p1 p2) :
    Adv tr st (((st.doWrite tr p1).clearBuf).pushBuf p2) [] := by
  rw [doWrite_eq tr st p1 h1 h2]
  refine ⟨by simp [h1], by simp [h2], by simp, by simp, fun r => ?_⟩
  simp only [pushBuf_buf, clearBuf_buf, List.nil_append, received_pushBuf, received_clearBuf, received_addLog_chunk,
    List.append_nil, hb]
  rw [specR_split hp r st.utf16 p1 p2 hs]
  simp

theorem pushBuf_nil (st : WSt) : st.pushBuf [] = st := by
  cases st; simp [WSt.pushBuf]

theorem adv_flushHold {tr} (hp : PairAdditive tr) (st : WSt) (h1 : st.failed = false) (h2 : st.budget = none) :
    Adv tr st (st.flushHold tr) [] := by
  unfold WSt.flushHold
  by_cases he : st.buf = []
  · simp only [he, List.isEmpty_nil, ↓reduceIte]; exact Adv.refl st h1 h2
  · have hne : st.buf.isEmpty = false := by cases hb : st.buf <;> simp_all
    simp only [hne, Bool.false_eq_true, ↓reduceIte]
    by_cases hh : (!st.utf16 && endsLead st.buf) = true
    · simp only [hh, ↓reduceIte]
      simp only [Bool.and_eq_true, Bool.not_eq_eq_eq_not, Bool.not_true] at hh
      obtain ⟨l, hl⟩ : ∃ l, st.buf.getLast? = some l := ⟨_, List.getLast?_eq_some_getLast he⟩
      have hbuf : st.buf = st.buf.dropLast ++ [l] := by
        obtain ⟨ys, hys⟩ := List.getLast?_eq_some_iff.mp hl
        rw [hys]; simp
      have hlead : isLead l = true := by simpa [endsLead, hl] using hh.2
      have hsafe : SafeCut st.buf.dropLast [l] := .inr ⟨l, [], rfl, isTrail_of_isLead hlead⟩
      simp only [hl, Option.getD_some]
      by_cases hd : st.buf.dropLast = []
      · simp only [hd, List.isEmpty_nil, ↓reduceIte, clearBuf_failed, h1, Bool.false_eq_true]
        refine ⟨by simp [h1], by simp [h2], by simp, by simp, fun r => ?_⟩
        have hb1 : st.buf = [l] := by rw [hbuf, hd]; rfl
        simp only [pushBuf_buf, clearBuf_buf, List.nil_append, received_pushBuf, received_clearBuf, List.append_nil, hb1]
      · have hdn : st.buf.dropLast.isEmpty = false := by
          cases hq : st.buf.dropLast with
          | nil => exact absurd hq hd
          | cons _ _ => rfl
        simp only [hdn, Bool.false_eq_true, ↓reduceIte]
        have hf : ((st.doWrite tr st.buf.dropLast).clearBuf).failed = false := by
          rw [doWrite_eq tr st _ h1 h2]; simp [h1]
        simp only [hf, Bool.false_eq_true, ↓reduceIte]
        exact adv_doWrite_split hp st _ _ h1 h2 hbuf (.inr hsafe)
    · simp only [hh, Bool.false_eq_true, ↓reduceIte]
      have hs : st.utf16 = true ∨ SafeCut st.buf [] := by
        cases hu : st.utf16 with
        | true => exact .inl rfl
        | false =>
          have : endsLead st.buf = false := by simpa [hu] using hh
          exact .inr (.inl this)
      have := adv_doWrite_split hp st st.buf [] h1 h2 (by simp) hs
      rw [pushBuf_nil] at this
      exact this

theorem adv_writeWideH {tr} (hp : PairAdditive tr) (st : WSt) (s : List Nat) (h1 : st.failed = false)
    (h2 : st.budget = none) : Adv tr st (st.writeWideH tr s) s := by
  unfold WSt.writeWideH
  -- first the capacity flush
  have hA : Adv tr st (if s.length + st.buf.length > st.bufSize then st.flushHold tr else st) [] := by
    split
    · exact adv_flushHold hp st h1 h2
    · exact Adv.refl st h1 h2
  generalize (if s.length + st.buf.length > st.bufSize then st.flushHold tr else st) = st1 at hA
  simp only []
  by_cases hd : (decide (s.length > st1.bufSize) && st1.buf.isEmpty && (st1.utf16 || !endsLead s)) = true
  · simp only [hd, ↓reduceIte]
    simp only [Bool.and_eq_true, decide_eq_true_eq, Bool.or_eq_true, Bool.not_eq_eq_eq_not, Bool.not_true] at hd
    have hbe : st1.buf = [] := by simpa using hd.1.2
    have hs : st1.utf16 = true ∨ SafeCut s [] := hd.2.imp id (fun h => .inl h)
    have hB : Adv tr st1 (st1.doWrite tr s) s := by
      have := adv_doWrite_split hp (st1.pushBuf s) s [] (by simp [hA.notFailed]) (by simp [hA.noBudget]) (by simp [hbe])
        (by simpa using hs)
      rw [pushBuf_nil] at this
      have hB' := (adv_pushBuf (tr := tr) st1 s hA.notFailed hA.noBudget).trans this
      -- (st1.pushBuf s).doWrite … clearBuf = st1.doWrite … clearBuf, and st1.buf = []
      rw [doWrite_eq tr _ s (by simp [hA.notFailed]) (by simp [hA.noBudget])] at hB'
      rw [doWrite_eq tr st1 s hA.notFailed hA.noBudget]
      refine ⟨by simp [hA.notFailed], by simp [hA.noBudget], by simp, by simp, fun r => ?_⟩
      have := hB'.eq r
      simpa [hbe] using this
    simpa using hA.trans hB
  · simp only [hd, Bool.false_eq_true, ↓reduceIte]
    have hB : Adv tr st1 (st1.pushBuf s) s := adv_pushBuf st1 s hA.notFailed hA.noBudget
    have hC : Adv tr (st1.pushBuf s) (if s.length > (st1.pushBuf s).bufSize then (st1.pushBuf s).flushHold tr else st1.pushBuf s) [] := by
      split
      · exact adv_flushHold hp _ hB.notFailed hB.noBudget
      · exact Adv.refl _ hB.notFailed hB.noBudget
    simpa using hA.trans (hB.trans hC)

theorem adv_writeWideCharH {tr} (hp : PairAdditive tr) (st : WSt) (c : Nat) (h1 : st.failed = false)
    (h2 : st.budget = none) : Adv tr st (st.writeWideCharH tr c) [c] := by
  unfold WSt.writeWideCharH
  have hA : Adv tr st (if st.buf.length ≥ st.bufSize then st.flushHold tr else st) [] := by
    split
    · exact adv_flushHold hp st h1 h2
    · exact Adv.refl st h1 h2
  generalize (if st.buf.length ≥ st.bufSize then st.flushHold tr else st) = st1 at hA
  simpa using hA.trans (adv_pushBuf st1 [c] hA.notFailed hA.noBudget)

/-- one print-writer operation of the fixed stream on a state that cannot fail -/
theorem wstepH_good {tr} (hp : PairAdditive tr) (st : WSt) (op : WOp) (h : Good st) :
    Good (wstepH tr st op) ∧ (wstepH tr st op).bufSize = st.bufSize ∧
    ∀ r, received (wstepH tr st op) ++ specR tr (wstepH tr st op).utf16 (wstepH tr st op).buf r =
      received st ++ specR tr st.utf16 st.buf (op :: r) := by
  obtain ⟨h1, h2, h3⟩ := h
  have hfb := flushBuffer_eq tr st h1 h2
  unfold wstepH
  simp only [h1, Bool.false_eq_true, ↓reduceIte]
  cases op with
  | wide s =>
    have a := adv_writeWideH hp st s h1 h2
    refine ⟨⟨by simp [a.notFailed], by simp [a.noBudget], by simp⟩, by simp [a.bufSize], fun r => ?_⟩
    have := a.eq r
    simpa [a.utf16, specR] using this
  | wideChar c =>
    have a := adv_writeWideCharH hp st c h1 h2
    refine ⟨⟨by simp [a.notFailed], by simp [a.noBudget], by simp⟩, by simp [a.bufSize], fun r => ?_⟩
    have := a.eq r
    simpa [a.utf16, specR] using this
  | narrow b =>
    simp only [WSt.flushWideChars]
    by_cases c1 : st.flushWide = true
    · simp only [c1, ↓reduceIte, hfb]
      by_cases hb : st.buf = []
      · simp only [hb, ↓reduceIte, setFlag_failed, h1, Bool.false_eq_true]
        rw [writeData_eq _ b (by simp [h1]) (by simp [h2])]
        refine ⟨⟨by simp [h1], by simp [h2], by simp [hb]⟩, by simp, fun r => ?_⟩
        cases hu : st.utf16 <;> simp [hb, specR, hp.1, hu]
      · simp only [hb, ↓reduceIte, setFlag_failed, clearBuf_failed, addLog_failed, h1, Bool.false_eq_true]
        rw [writeData_eq _ b (by simp [h1]) (by simp [h2])]
        refine ⟨⟨by simp [h1], by simp [h2], by simp⟩, by simp, fun r => ?_⟩
        simp [specR, enc]
    · have c1' : st.flushWide = false := by simpa using c1
      have hb := h3 c1'
      simp only [c1', Bool.false_eq_true, ↓reduceIte, h1]
      rw [writeData_eq _ b h1 h2]
      refine ⟨⟨by simp [h1], by simp [h2], by simp [hb]⟩, by simp, fun r => ?_⟩
      cases hu : st.utf16 <;> simp [hb, specR, hp.1, hu]
  | flush =>
    simp only [hfb]
    by_cases hb : st.buf = []
    · simp only [hb, ↓reduceIte, h1, Bool.false_eq_true, WSt.doFlush]
      split
      · refine ⟨⟨by simp [h1], by simp [h2], by simp [hb]⟩, by simp, fun r => ?_⟩
        cases hu : st.utf16 <;> simp [hb, specR, hp.1, hu]
      · refine ⟨⟨h1, h2, fun _ => hb⟩, rfl, fun r => ?_⟩
        cases hu : st.utf16 <;> simp [hb, specR, hp.1, hu]
    · simp only [hb, ↓reduceIte, clearBuf_failed, addLog_failed, h1, Bool.false_eq_true, WSt.doFlush]
      split
      · refine ⟨⟨by simp [h1], by simp [h2], by simp⟩, by simp, fun r => ?_⟩
        simp [specR, enc]
      · refine ⟨⟨by simp [h1], by simp [h2], by simp⟩, by simp, fun r => ?_⟩
        simp [specR, enc]
  | setUtf16 =>
    simp only [hfb]
    by_cases hb : st.buf = []
    · simp only [hb, ↓reduceIte, h1, Bool.false_eq_true]
      rw [writeData_eq _ _ (by simp [h1]) (by simp [h2])]
      refine ⟨⟨by simp [h1], by simp [h2], by simp [hb]⟩, by simp, fun r => ?_⟩
      cases hu : st.utf16 <;> simp [hb, specR, hp.1, hu]
    · simp only [hb, ↓reduceIte, clearBuf_failed, addLog_failed, h1, Bool.false_eq_true]
      rw [writeData_eq _ _ (by simp [h1]) (by simp [h2])]
      refine ⟨⟨by simp [h1], by simp [h2], by simp⟩, by simp, fun r => ?_⟩
      simp [specR, enc]

theorem wrunH_good {tr} (hp : PairAdditive tr) (ops : List WOp) : ∀ (st : WSt), Good st →
    Good (wrunH tr ops st) ∧ (wrunH tr ops st).bufSize = st.bufSize ∧
    received (wrunH tr ops st) ++ enc tr (wrunH tr ops st).utf16 (wrunH tr ops st).buf =
      received st ++ specR tr st.utf16 st.buf ops := by
  induction ops with
  | nil => intro st h; simp [wrunH, specR_eq_enc, h]
  | cons op ops ih =>
    intro st h
    obtain ⟨g, hs, he⟩ := wstepH_good hp st op h
    obtain ⟨g2, hs2, hb2⟩ := ih (wstepH tr st op) g
    have : wrunH tr (op :: ops) st = wrunH tr ops (wstepH tr st op) := rfl
    rw [this]
    exact ⟨g2, hs2.trans hs, by rw [hb2, he ops]⟩

theorem closeH_good {tr} (hp : PairAdditive tr) (st : WSt) (h : Good st) :
    received (st.close tr) = received st ++ enc tr st.utf16 st.buf := by
  unfold WSt.close WSt.doFlush
  rw [flushBuffer_eq tr st h.notFailed h.noBudget]
  by_cases hb : st.buf = []
  · simp only [hb, ↓reduceIte]
    split <;> (cases st.utf16 <;> simp [enc, hp.1])
  · simp only [hb, ↓reduceIte]
    split <;> simp

/-! ### the UTF-8 model is pair-additive -/

theorem cutsPair_tail2 (x y : Nat) (r b : List Nat) (h : cutsPair (x :: y :: r) b = false) : cutsPair r b = false := by
  cases r with
  | nil => simp [cutsPair, endsLead, isLead]
  | cons z zs => simpa [cutsPair, endsLead, List.getLast?_cons_cons] using h

theorem cutsPair_tail1 (x y : Nat) (r b : List Nat) (h : cutsPair (x :: y :: r) b = false) : cutsPair (y :: r) b = false := by
  simpa [cutsPair, endsLead, List.getLast?_cons_cons] using h

theorem trUtf8_append_aux : ∀ (n : Nat) (a b : List Nat), a.length = n → cutsPair a b = false →
    trUtf8 (a ++ b) = trUtf8 a ++ trUtf8 b := by
  intro n
  induction n using Nat.strongRecOn with
  | ind n ih =>
    intro a b hl hc
    match a, hl with
    | [], _ => simp [trUtf8]
    | [u], _ =>
      cases b with
      | nil => simp [trUtf8]
      | cons l r =>
        have hnp : (isLead u && isTrail l) = false := by
          simpa [cutsPair, endsLead] using hc
        simp [trUtf8, hnp]
    | h :: l :: r, hl =>
      have hlen : r.length < n ∧ (l :: r).length < n := by
        simp only [List.length_cons] at hl ⊢; omega
      by_cases hp : (isLead h && isTrail l) = true
      · have := ih r.length hlen.1 r b rfl (cutsPair_tail2 h l r b hc)
        simp [trUtf8, hp, this]
      · have hp' : (isLead h && isTrail l) = false := by simpa using hp
        have := ih (l :: r).length hlen.2 (l :: r) b rfl (cutsPair_tail1 h l r b hc)
        simp only [List.cons_append] at this
        simp [trUtf8, hp', this]

theorem trUtf8_pairAdditive : PairAdditive trUtf8 :=
  ⟨rfl, fun a b h => trUtf8_append_aux a.length a b rfl h⟩

end XalanModel.C05
