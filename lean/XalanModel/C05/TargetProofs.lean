import XalanModel.C05.Target
import XalanModel.C05.SaxProofs
/-!
The fixed FormatterToSourceTree (document mode) computes the XPath normal form of its result events:
same two-step argument as for the content handler (`trun` on `tevents f` = accumulator `acc`, then `acc_norm`).
-/
namespace XalanModel.C05

/-- result events of a forest: a text node = one `characters` call -/
def tevents : Forest → List TEv
  | .nil => []
  | .text s n => .characters s :: tevents n
  | .iws s n => .ignorableWhitespace s :: tevents n
  | .comment s n => .comment s :: tevents n
  | .pi t d n => .pi t d :: tevents n
  | .elem nm a k n => .startElement nm a :: (tevents k ++ .endElement :: tevents n)

theorem trun_append (fixed : Bool) (xs ys : List TEv) (st : St) :
    trun fixed (xs ++ ys) st = match trun fixed xs st with
      | .ok st' => trun fixed ys st'
      | .error e => .error e := by
  induction xs generalizing st with
  | nil => simp [trun]
  | cons x xs ih =>
    simp only [List.cons_append, trun]
    cases tstep fixed st x with
    | ok st' => simp [ih]
    | error e => simp

/-- the target's machine inside an element -/
theorem trun_events_inner (fixed : Bool) (f : Forest) : ∀ (st : St) (fr : Frame) (frs : List Frame) (rest : List TEv),
    st.stack = fr :: frs →
    trun fixed (tevents f ++ rest) st =
      trun fixed rest { st with stack := { fr with kids := (acc f (fr.kids, st.buf)).1 } :: frs,
                                buf := (acc f (fr.kids, st.buf)).2 } := by
  induction f with
  | nil =>
    intro st fr frs rest hs
    cases st; simp only at hs; subst hs; simp [tevents, acc]
  | text s n ih =>
    intro st fr frs rest hs
    cases st with
    | mk acc' dk de stack buf dtd =>
      simp only at hs; subst hs
      simp only [tevents, List.cons_append, trun, tstep, tCharacters]
      rw [ih _ fr frs rest rfl]
      simp [acc]
  | iws s n ih =>
    intro st fr frs rest hs
    cases st with
    | mk acc' dk de stack buf dtd =>
      simp only at hs; subst hs
      simp only [tevents, List.cons_append, trun, tstep]
      rw [flush_inner _ fr frs rfl]
      simp only [St.appendNode]
      rw [ih _ _ frs rest rfl]
      simp [acc]
  | comment s n ih =>
    intro st fr frs rest hs
    cases st with
    | mk acc' dk de stack buf dtd =>
      simp only at hs; subst hs
      simp only [tevents, List.cons_append, trun, tstep]
      rw [flush_inner _ fr frs rfl]
      simp only [St.appendNode]
      rw [ih _ _ frs rest rfl]
      simp [acc]
  | pi t d n ih =>
    intro st fr frs rest hs
    cases st with
    | mk acc' dk de stack buf dtd =>
      simp only at hs; subst hs
      simp only [tevents, List.cons_append, trun, tstep]
      rw [flush_inner _ fr frs rfl]
      simp only [St.appendNode]
      rw [ih _ _ frs rest rfl]
      simp [acc]
  | elem nm a kids n ihk ih =>
    intro st fr frs rest hs
    cases st with
    | mk acc' dk de stack buf dtd =>
      simp only at hs; subst hs
      simp only [tevents, List.cons_append, List.append_assoc, trun, tstep]
      rw [flush_inner _ fr frs rfl]
      simp only []
      rw [ihk _ ⟨nm, orderAttrs a, .nil⟩ (_ :: frs) _ rfl]
      simp only [trun, tstep]
      rw [flush_inner _ ⟨nm, orderAttrs a, (acc kids (.nil, [])).1⟩ (_ :: frs) rfl]
      simp only [St.appendNode]
      rw [ih _ _ frs rest rfl]
      simp [acc]

/-- a result with one document element: the target builds the normal form (no `xmlns:xml` attribute here) -/
theorem tbuild_root (fixed : Bool) (nm : Str) (a : List (Str × Str)) (kids : Forest) :
    tbuild fixed (.startElement nm a :: (tevents kids ++ [.endElement])) =
      .ok (.elem nm (orderAttrs a) (norm kids) .nil) := by
  unfold tbuild
  simp only [trun, tstep, St.flush, List.isEmpty_nil, ↓reduceIte, Bool.false_eq_true]
  rw [trun_events_inner fixed kids _ ⟨nm, orderAttrs a, .nil⟩ [] _ rfl]
  simp only [trun, tstep]
  rw [flush_inner _ ⟨nm, orderAttrs a, (acc kids (.nil, [])).1⟩ [] rfl]
  simp [St.appendNode, acc_nil_norm, Forest.append]

end XalanModel.C05
