/-!
# C05 — choosing the stylesheet from the xml-stylesheet processing instruction

Mirrors the loop in `XSLTEngineImpl::process` (XSLTEngineImpl.cpp:296-352) as written:
the children of the document are visited in order; for a PI named `xml-stylesheet` its data is cut by
`StringTokenizer` at the delimiter characters of `s_piTokenizerString` (consecutive delimiters give no empty
tokens; asking for a token when none is left leaves the token variable unchanged); a token `type` makes the next
token the type value (first and last character removed if longer than 2; accepted when it is one of text/xml,
text/xsl, application/xml, application/xml+xslt), a token `href` makes the next token the URI (same trimming); the
scan of one PI ends when both are known.  `fixed = false` is the code before `proposed/C05-pi-scan.diff`: delimiters
space, tab, `=`; the outer loop stops as soon as a type was accepted *or* some href was seen, and both variables
carry over from PI to PI.  `fixed = true`: line ends are delimiters too, every PI starts afresh, the search goes on
until one PI supplied both.  Core Lean only.
-/
namespace XalanModel.C05.PI

abbrev Str := List Nat

/-- the keywords and media types as code units (explicit lists: `String` functions do not reduce in the kernel) -/
def kType : Str := [116, 121, 112, 101]      -- "type"
def kHref : Str := [104, 114, 101, 102]      -- "href"

def isDelim (fixed : Bool) (c : Nat) : Bool :=
  c == 0x20 || c == 0x09 || c == 0x3D || (fixed && (c == 0x0A || c == 0x0D))

/-- `StringTokenizer` with `returnTokens = false`: maximal runs of non-delimiters -/
def tokensAux (fixed : Bool) : Str → Str → List Str
  | [], cur => if cur.isEmpty then [] else [cur]
  | c :: r, cur =>
    if isDelim fixed c then (if cur.isEmpty then tokensAux fixed r [] else cur :: tokensAux fixed r [])
    else tokensAux fixed r (cur ++ [c])

def tokens (fixed : Bool) (data : Str) : List Str := tokensAux fixed data []

/-- erase the last and the first character -/
def trim (v : Str) : Str := (v.drop 1).dropLast

def okTypes : List Str :=
  [[116, 101, 120, 116, 47, 120, 109, 108],      -- text/xml
   [116, 101, 120, 116, 47, 120, 115, 108],      -- text/xsl
   [97, 112, 112, 108, 105, 99, 97, 116, 105, 111, 110, 47, 120, 109, 108],      -- application/xml
   [97, 112, 112, 108, 105, 99, 97, 116, 105, 111, 110, 47, 120, 109, 108, 43, 120, 115, 108, 116]]      -- application/xml+xslt

structure Found where
  isOK : Bool := false
  uri : Str := []
deriving Repr, DecidableEq

/-- the inner `while(tokenizer.hasMoreTokens() && (isOK == false || theStylesheetURI.empty()))`; `cur` is
`theCurrentToken` (kept when `nextToken` has nothing left) -/
def scanTokens : List Str → Str → Found → Found
  | [], _, f => f
  | t :: r, _, f =>
    if f.isOK && !f.uri.isEmpty then f else
    if t == kType then
      match r with
      | [] => -- nextToken without a token left: theCurrentToken is still "type"
        let f' := if (okTypes.contains (trim t)) then { f with isOK := true } else f
        f'
      | v :: r' =>
        let f' := if v.length > 2 && okTypes.contains (trim v) then { f with isOK := true } else f
        scanTokens r' v f'
    else if t == kHref then
      match r with
      | [] => { f with uri := trim t }
      | v :: r' =>
        let f' := if v.length > 2 then { f with uri := trim v } else f
        scanTokens r' v f'
    else scanTokens r t f

/-- a child of the document: `some data` for a PI named xml-stylesheet, `none` for anything else -/
abbrev Child := Option Str

def scanChildren (fixed : Bool) : List Child → Found → Found
  | [], f => f
  | c :: r, f =>
    if fixed then
      if f.isOK && !f.uri.isEmpty then f else
      match c with
      | none => scanChildren fixed r f
      | some d => scanChildren fixed r (scanTokens (tokens fixed d) [] {})
    else
      if f.isOK || !f.uri.isEmpty then f else
      match c with
      | none => scanChildren fixed r f
      | some d => scanChildren fixed r (scanTokens (tokens fixed d) [] f)

/-- the href handed to `getStylesheetFromPIURL`, if any -/
def chosen (fixed : Bool) (children : List Child) : Option Str :=
  let f := scanChildren fixed children {}
  if f.isOK && !f.uri.isEmpty then some f.uri else none

/-! ## Specification (xml-stylesheet Recommendation §2 + XSLT 1.0 §2.7): pseudo-attributes -/

/-- a pseudo-attribute: name, quote character, value -/
structure PAttr where
  name : Str
  quote : Nat := 0x22
  value : Str
deriving Repr, DecidableEq

/-- one PI given by its pseudo-attributes, with the white space written between them (`seps`, cycled) -/
def render (sep : Str) : List PAttr → Str
  | [] => []
  | a :: r => a.name ++ [0x3D] ++ [a.quote] ++ a.value ++ [a.quote] ++ sep ++ render sep r

def lookup (n : Str) : List PAttr → Option Str
  | [] => none
  | a :: r => if a.name == n then some a.value else lookup n r

/-- the stylesheet a PI designates: an acceptable type and an href -/
def designates (attrs : List PAttr) : Option Str :=
  match lookup (kType) attrs, lookup (kHref) attrs with
  | some t, some h => if okTypes.contains t && !h.isEmpty then some h else none
  | _, _ => none

/-- first applicable PI wins -/
def specChosen : List (Option (List PAttr)) → Option Str
  | [] => none
  | none :: r => specChosen r
  | some attrs :: r => match designates attrs with
    | some h => some h
    | none => specChosen r

end XalanModel.C05.PI
