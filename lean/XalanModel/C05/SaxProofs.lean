import XalanModel.C05.Sax
/-!
Helper lemmas for C05 (i): the content-handler state machine (`run`) computes the XPath
normal form (`norm`) of the event stream's tree.  Two steps:
* `run_events_inner` / `run_events_doc`: the machine on `events f` equals the left-to-right
  accumulator `acc` (a statement about the *code path*: when the buffer is flushed and where the
  node is appended);
* `acc_norm`: the left-to-right accumulator equals the right-fold specification `norm`.
-/
namespace XalanModel.C05
open Forest

@[simp] theorem Forest.nil_append (g : Forest) : Forest.nil.append g = g := rfl

@[simp] theorem Forest.append_nil (f : Forest) : f.append .nil = f := by
  induction f <;> simp_all [Forest.append]

theorem Forest.append_assoc (f g h : Forest) : (f.append g).append h = f.append (g.append h) := by
  induction f <;> simp_all [Forest.append]

@[simp] theorem consText_nil_left (f : Forest) : consText [] f = f := by
  cases f <;> simp [consText]

theorem consText_consText (a b : Str) (f : Forest) :
    consText a (consText b f) = consText (a ++ b) f := by
  cases f with
  | text c n => simp [consText, List.append_assoc]
  | nil | iws _ _ | comment _ _ | pi _ _ _ | elem _ _ _ _ =>
    by_cases hb : b = []
    · subst hb; simp [consText]
    · simp [consText, hb]

/-- children chain as it would be if the buffer were flushed now -/
def flushK (k : Forest) (b : Str) : Forest := if b.isEmpty then k else k.append (.text b .nil)

/-- the left-to-right accumulator: (children so far, text buffer) -/
def acc : Forest → Forest × Str → Forest × Str
  | .nil, p => p
  | .text s n, p => acc n (p.1, p.2 ++ s)
  | .iws s n, p => acc n ((flushK p.1 p.2).append (.iws s .nil), [])
  | .comment s n, p => acc n ((flushK p.1 p.2).append (.comment s .nil), [])
  | .pi t d n, p => acc n ((flushK p.1 p.2).append (.pi t d .nil), [])
  | .elem nm a k n, p =>
    acc n ((flushK p.1 p.2).append (.elem nm (orderAttrs a) (flushK (acc k (.nil, [])).1 (acc k (.nil, [])).2) .nil), [])

theorem flushK_eq (k : Forest) (b : Str) : flushK k b = k.append (consText b .nil) := by
  by_cases hb : b = []
  · subst hb; simp [flushK, consText]
  · simp [flushK, consText, hb]

/-- left-to-right accumulation = right-fold normal form -/
theorem acc_norm (f : Forest) : ∀ (k : Forest) (b : Str),
    flushK (acc f (k, b)).1 (acc f (k, b)).2 = k.append (consText b (norm f)) := by
  induction f with
  | nil => intro k b; simp [acc, norm, flushK_eq]
  | text s n ih => intro k b; simp only [acc, norm]; rw [ih, consText_consText]
  | iws s n ih =>
    intro k b; simp only [acc, norm]; rw [ih, consText_nil_left, flushK_eq, Forest.append_assoc, Forest.append_assoc]
    congr 1
    by_cases hb : b = []
    · subst hb; simp [consText, Forest.append]
    · simp [consText, hb, Forest.append]
  | comment s n ih =>
    intro k b; simp only [acc, norm]; rw [ih, consText_nil_left, flushK_eq, Forest.append_assoc, Forest.append_assoc]
    congr 1
    by_cases hb : b = []
    · subst hb; simp [consText, Forest.append]
    · simp [consText, hb, Forest.append]
  | pi t d n ih =>
    intro k b; simp only [acc, norm]; rw [ih, consText_nil_left, flushK_eq, Forest.append_assoc, Forest.append_assoc]
    congr 1
    by_cases hb : b = []
    · subst hb; simp [consText, Forest.append]
    · simp [consText, hb, Forest.append]
  | elem nm a kids n ihk ih =>
    intro k b; simp only [acc, norm]
    rw [ih, consText_nil_left, ihk, consText_nil_left, flushK_eq, Forest.append_assoc, Forest.append_assoc]
    congr 1
    by_cases hb : b = []
    · subst hb; simp [consText, Forest.append]
    · simp [consText, hb, Forest.append]

theorem acc_nil_norm (f : Forest) : flushK (acc f (.nil, [])).1 (acc f (.nil, [])).2 = norm f := by
  rw [acc_norm]; simp

theorem run_append (xs ys : List Ev) (st : St) :
    run (xs ++ ys) st = match run xs st with
      | .ok st' => run ys st'
      | .error e => .error e := by
  induction xs generalizing st with
  | nil => simp [run]
  | cons x xs ih =>
    simp only [List.cons_append, run]
    cases step st x with
    | ok st' => simp [ih]
    | error e => simp

/-- flushing inside an element -/
theorem flush_inner (st : St) (fr : Frame) (frs : List Frame) (h : st.stack = fr :: frs) :
    st.flush = { st with stack := { fr with kids := flushK fr.kids st.buf } :: frs, buf := [] } := by
  cases st with
  | mk acc' dk de stack buf dtd =>
    simp only at h; subst h
    by_cases hb : buf = []
    · subst hb; simp [St.flush, flushK]
    · simp [St.flush, flushK, hb, St.doCharacters]

/-- the machine inside an element, accumulate mode, on the events of any forest -/
theorem run_events_inner (f : Forest) : ∀ (st : St) (fr : Frame) (frs : List Frame) (rest : List Ev),
    st.accumulate = true → st.inDTD = false → st.stack = fr :: frs →
    run (events f ++ rest) st =
      run rest { st with stack := { fr with kids := (acc f (fr.kids, st.buf)).1 } :: frs,
                         buf := (acc f (fr.kids, st.buf)).2 } := by
  induction f with
  | nil =>
    intro st fr frs rest _ _ hs
    cases st; simp only at hs; subst hs; simp [events, acc]
  | text s n ih =>
    intro st fr frs rest ha hd hs
    cases st with
    | mk acc' dk de stack buf dtd =>
      simp only at ha hd hs; subst ha hd hs
      simp only [events, List.cons_append, run, step, ↓reduceIte]
      rw [ih _ fr frs rest rfl rfl rfl]
      simp [acc]
  | iws s n ih =>
    intro st fr frs rest ha hd hs
    cases st with
    | mk acc' dk de stack buf dtd =>
      simp only at ha hd hs; subst ha hd hs
      simp only [events, List.cons_append, run, step]
      rw [flush_inner _ fr frs rfl]
      simp only [St.appendNode]
      rw [ih _ _ frs rest rfl rfl rfl]
      simp [acc]
  | comment s n ih =>
    intro st fr frs rest ha hd hs
    cases st with
    | mk acc' dk de stack buf dtd =>
      simp only at ha hd hs; subst ha hd hs
      simp only [events, List.cons_append, run, step]
      rw [flush_inner _ fr frs rfl]
      simp only [St.appendNode, Bool.false_eq_true, ↓reduceIte]
      rw [ih _ _ frs rest rfl rfl rfl]
      simp [acc]
  | pi t d n ih =>
    intro st fr frs rest ha hd hs
    cases st with
    | mk acc' dk de stack buf dtd =>
      simp only at ha hd hs; subst ha hd hs
      simp only [events, List.cons_append, run, step]
      rw [flush_inner _ fr frs rfl]
      simp only [St.appendNode]
      rw [ih _ _ frs rest rfl rfl rfl]
      simp [acc]
  | elem nm a kids n ihk ih =>
    intro st fr frs rest ha hd hs
    cases st with
    | mk acc' dk de stack buf dtd =>
      simp only at ha hd hs; subst ha hd hs
      simp only [events, List.cons_append, List.append_assoc, run, step]
      rw [flush_inner _ fr frs rfl]
      simp only []
      rw [ihk _ ⟨nm, orderAttrs a, .nil⟩ (_ :: frs) _ rfl rfl rfl]
      simp only [run, step]
      rw [flush_inner _ ⟨nm, orderAttrs a, (acc kids (.nil, [])).1⟩ (_ :: frs) rfl]
      simp only [St.appendNode]
      rw [ih _ _ frs rest rfl rfl rfl]
      simp [acc]

def hasElem : Forest → Bool
  | .nil => false
  | .text _ n => hasElem n
  | .iws _ n => hasElem n
  | .comment _ n => hasElem n
  | .pi _ _ n => hasElem n
  | .elem _ _ _ _ => true

/-- the machine at document level -/
theorem run_events_doc (f : Forest) : ∀ (st : St) (seen : Bool),
    st.accumulate = true → st.inDTD = false → st.stack = [] → st.buf = [] → st.docElem = seen →
    TopOK f seen = true →
    run (events f) st = .ok { st with docKids := st.docKids.append (normDoc f),
                                      docElem := seen || hasElem f } := by
  induction f with
  | nil =>
    intro st seen _ _ _ _ hde _
    cases st; simp only at hde; subst hde; simp [events, run, normDoc, hasElem]
  | text s n ih =>
    intro st seen ha hd hs hb hde ht
    cases st with
    | mk acc' dk de stack buf dtd =>
      simp only at ha hd hs hb hde; subst ha hd hs hb hde
      simp only [TopOK, Bool.and_eq_true] at ht
      simp only [events, run, step, ht.1, ↓reduceIte]
      rw [ih _ de rfl rfl rfl rfl rfl ht.2]
      simp [normDoc, hasElem]
  | iws s n _ => intro st seen _ _ _ _ _ ht; simp [TopOK] at ht
  | comment s n ih =>
    intro st seen ha hd hs hb hde ht
    cases st with
    | mk acc' dk de stack buf dtd =>
      simp only at ha hd hs hb hde; subst ha hd hs hb hde
      simp only [TopOK] at ht
      simp only [events, run, step, St.flush, St.appendNode, List.isEmpty_nil, ↓reduceIte, Bool.false_eq_true]
      rw [ih _ de rfl rfl rfl rfl rfl ht]
      simp [normDoc, hasElem, Forest.append_assoc, Forest.append]
  | pi t d n ih =>
    intro st seen ha hd hs hb hde ht
    cases st with
    | mk acc' dk de stack buf dtd =>
      simp only at ha hd hs hb hde; subst ha hd hs hb hde
      simp only [TopOK] at ht
      simp only [events, run, step, St.flush, St.appendNode, List.isEmpty_nil, ↓reduceIte]
      rw [ih _ de rfl rfl rfl rfl rfl ht]
      simp [normDoc, hasElem, Forest.append_assoc, Forest.append]
  | elem nm a kids n _ ih =>
    intro st seen ha hd hs hb hde ht
    cases st with
    | mk acc' dk de stack buf dtd =>
      simp only at ha hd hs hb hde; subst ha hd hs hb hde
      simp only [TopOK, Bool.and_eq_true, Bool.not_eq_eq_eq_not, Bool.not_true] at ht
      obtain ⟨hde, ht⟩ := ht
      subst hde
      simp only [events, run, step, St.flush, List.isEmpty_nil, ↓reduceIte, Bool.false_eq_true]
      rw [run_events_inner kids _ ⟨nm, xmlNsAttr :: orderAttrs a, .nil⟩ [] _ rfl rfl rfl]
      simp only [run, step]
      rw [flush_inner _ ⟨nm, xmlNsAttr :: orderAttrs a, (acc kids (.nil, [])).1⟩ [] rfl]
      simp only [St.appendNode]
      rw [ih _ true rfl rfl rfl rfl rfl ht]
      simp [normDoc, hasElem, Forest.append_assoc, Forest.append, acc_nil_norm]

theorem build_events (f : Forest) (h : TopOK f false = true) :
    build true (events f) = .ok (normDoc f) := by
  unfold build
  rw [run_events_doc f { accumulate := true } false rfl rfl rfl rfl rfl h]
  simp

/-! ### the normal form is normal -/

theorem normal_consText (a : Str) (g : Forest) (h : Normal g = true) : Normal (consText a g) = true := by
  cases g with
  | text b n =>
    simp only [Normal, Bool.and_eq_true, Bool.not_eq_eq_eq_not, Bool.not_true] at h
    simp only [consText, Normal, Bool.and_eq_true, Bool.not_eq_eq_eq_not, Bool.not_true]
    refine ⟨⟨?_, h.1.2⟩, h.2⟩
    have := h.1.1
    cases b <;> simp_all
  | nil | iws _ _ | comment _ _ | pi _ _ _ | elem _ _ _ _ =>
    by_cases ha : a = []
    · subst ha; simpa [consText] using h
    · have : a.isEmpty = false := by cases a <;> simp_all
      simp_all [consText, Normal, Forest.isText]

theorem normal_norm (f : Forest) : Normal (norm f) = true := by
  induction f with
  | nil => rfl
  | text s n ih => exact normal_consText s _ ih
  | iws s n ih => simpa [norm, Normal] using ih
  | comment s n ih => simpa [norm, Normal] using ih
  | pi t d n ih => simpa [norm, Normal] using ih
  | elem nm a k n ihk ih => simp [norm, Normal, ihk, ih]

theorem normal_normDoc (f : Forest) : Normal (normDoc f) = true := by
  induction f with
  | nil => rfl
  | text s n ih => simpa [normDoc] using ih
  | iws s n ih => simpa [normDoc, Normal] using ih
  | comment s n ih => simpa [normDoc, Normal] using ih
  | pi t d n ih => simpa [normDoc, Normal] using ih
  | elem nm a k n _ ih => simp [normDoc, Normal, normal_norm, ih]

theorem noIws_consText (a : Str) (g : Forest) (h : NoIws g = true) : NoIws (consText a g) = true := by
  cases g <;> simp_all [consText, NoIws] <;> split <;> simp_all [NoIws]

theorem noIws_norm (f : Forest) (h : NoIws f = true) : NoIws (norm f) = true := by
  induction f with
  | nil => rfl
  | text s n ih => exact noIws_consText s _ (ih (by simpa [NoIws] using h))
  | iws s n _ => simp [NoIws] at h
  | comment s n ih => simpa [norm, NoIws] using ih (by simpa [NoIws] using h)
  | pi t d n ih => simpa [norm, NoIws] using ih (by simpa [NoIws] using h)
  | elem nm a k n ihk ih =>
    simp only [NoIws, Bool.and_eq_true] at h
    simp [norm, NoIws, ihk h.1, ih h.2]

theorem noIws_normDoc (f : Forest) (h : NoIws f = true) : NoIws (normDoc f) = true := by
  induction f with
  | nil => rfl
  | text s n ih => simpa [normDoc] using ih (by simpa [NoIws] using h)
  | iws s n _ => simp [NoIws] at h
  | comment s n ih => simpa [normDoc, NoIws] using ih (by simpa [NoIws] using h)
  | pi t d n ih => simpa [normDoc, NoIws] using ih (by simpa [NoIws] using h)
  | elem nm a k n _ ih =>
    simp only [NoIws, Bool.and_eq_true] at h
    simp [normDoc, NoIws, noIws_norm k h.1, ih h.2]

theorem isXText_of_noIws (g : Forest) (h : NoIws g = true) : g.isXText = g.isText := by
  cases g <;> simp_all [Forest.isXText, Forest.isText, NoIws]

theorem xpathNormal_of (g : Forest) (h1 : Normal g = true) (h2 : NoIws g = true) : XPathNormal g = true := by
  induction g with
  | nil => rfl
  | text s n ih =>
    simp only [Normal, Bool.and_eq_true] at h1
    simp only [NoIws] at h2
    simp only [XPathNormal, Bool.and_eq_true]
    rw [isXText_of_noIws n h2]
    exact ⟨h1.1, ih h1.2 h2⟩
  | iws s n _ => simp [NoIws] at h2
  | comment s n ih => simp only [Normal] at h1; simp only [NoIws] at h2; simpa [XPathNormal] using ih h1 h2
  | pi t d n ih => simp only [Normal] at h1; simp only [NoIws] at h2; simpa [XPathNormal] using ih h1 h2
  | elem nm a k n ihk ih =>
    simp only [Normal, Bool.and_eq_true] at h1
    simp only [NoIws, Bool.and_eq_true] at h2
    simp [XPathNormal, ihk h1.1 h2.1, ih h1.2 h2.2]

/-! ### re-fragmentation does not change the normal form -/

theorem norm_chunks (cs : List Str) (f : Forest) : norm (chunks cs f) = consText cs.flatten (norm f) := by
  induction cs with
  | nil => simp [chunks]
  | cons c cs ih => simp [chunks, norm, ih, consText_consText]

theorem normDoc_chunks (cs : List Str) (f : Forest) : normDoc (chunks cs f) = normDoc f := by
  induction cs with
  | nil => rfl
  | cons c cs ih => simpa [chunks, normDoc] using ih

theorem topOK_chunks (cs : List Str) (f : Forest) (seen : Bool) :
    TopOK (chunks cs f) seen = (isWS cs.flatten && TopOK f seen) := by
  induction cs with
  | nil => simp [chunks, isWS]
  | cons c cs ih => simp [chunks, TopOK, ih, isWS, Bool.and_assoc]

theorem refrag_norm {f g : Forest} (h : Refrag f g) : norm f = norm g := by
  induction h with
  | nil => rfl
  | texts cs ds f g he _ ih => rw [norm_chunks, norm_chunks, he, ih]
  | iws s f g _ ih => simp [norm, ih]
  | comment s f g _ ih => simp [norm, ih]
  | pi t d f g _ ih => simp [norm, ih]
  | elem nm a k k' f g _ _ ihk ih => simp [norm, ihk, ih]

theorem refrag_normDoc {f g : Forest} (h : Refrag f g) : normDoc f = normDoc g := by
  induction h with
  | nil => rfl
  | texts cs ds f g _ _ ih => rw [normDoc_chunks, normDoc_chunks, ih]
  | iws s f g _ ih => simp [normDoc, ih]
  | comment s f g _ ih => simp [normDoc, ih]
  | pi t d f g _ ih => simp [normDoc, ih]
  | elem nm a k k' f g hk _ _ ih => simp [normDoc, refrag_norm hk, ih]

theorem refrag_topOK {f g : Forest} (h : Refrag f g) : ∀ seen, TopOK f seen = TopOK g seen := by
  induction h with
  | nil => intro; rfl
  | texts cs ds f g he _ ih => intro seen; rw [topOK_chunks, topOK_chunks, he, ih]
  | iws s f g _ _ => intro; rfl
  | comment s f g _ ih => intro seen; simp [TopOK, ih]
  | pi t d f g _ ih => intro seen; simp [TopOK, ih]
  | elem nm a k k' f g _ _ _ ih => intro seen; simp [TopOK, ih]

/-! ### invariant: nothing is buffered outside elements -/

def BufInv (st : St) : Prop := st.stack = [] → st.buf = []

theorem flush_buf (st : St) : st.flush.buf = [] := by
  unfold St.flush
  split
  · rename_i h; simpa using h
  · rfl

theorem step_bufInv (st st' : St) (e : Ev) (h : BufInv st) (hs : step st e = .ok st') : BufInv st' := by
  intro h0
  cases e with
  | characters s =>
    simp only [step] at hs
    split at hs
    · rename_i hst
      split at hs
      · cases hs; exact h hst
      · cases hs
    · rename_i f fs hst
      split at hs
      · cases hs; simp [hst] at h0
      · cases hs; simp [St.doCharacters, hst] at h0
  | endElement =>
    simp only [step] at hs
    split at hs
    · cases hs
    · rename_i f fs hst
      cases hs
      have hb := flush_buf st
      simp only [St.appendNode]
      split <;> simp_all
  | ignorableWhitespace s =>
    simp only [step] at hs
    split at hs
    · cases hs; exact h h0
    · cases hs
      have hb := flush_buf st
      simp only [St.appendNode]
      split <;> simp_all
  | pi t d =>
    simp only [step] at hs
    cases hs
    have hb := flush_buf st
    simp only [St.appendNode]
    split <;> simp_all
  | startElement n a =>
    simp only [step] at hs
    split at hs
    · split at hs
      · cases hs
      · cases hs; simp at h0
    · cases hs; simp_all
  | comment s =>
    simp only [step] at hs
    split at hs
    · cases hs; exact h h0
    · cases hs
      have hb := flush_buf st
      simp only [St.appendNode]
      split <;> simp_all
  | startDTD => simp only [step] at hs; cases hs; exact h h0
  | endDTD => simp only [step] at hs; cases hs; exact h h0

theorem run_bufInv (evs : List Ev) : ∀ (st st' : St), BufInv st → run evs st = .ok st' → BufInv st' := by
  induction evs with
  | nil => intro st st' h hr; simp only [run] at hr; cases hr; exact h
  | cons e es ih =>
    intro st st' h hr
    simp only [run] at hr
    cases hs : step st e with
    | ok st1 => rw [hs] at hr; exact ih st1 st' (step_bufInv st st1 e h hs) hr
    | error x => rw [hs] at hr; cases hr

end XalanModel.C05
