import XalanModel.C05.Stream
/-!
Helper lemmas for C05 (ii): bytes received by the callback ++ bytes still buffered
= bytes the serializer wrote, after every operation, for every buffer size.
-/
namespace XalanModel.C05

theorem chunksOf_append (a b : List Out) : chunksOf (a ++ b) = chunksOf a ++ chunksOf b := by
  induction a with
  | nil => rfl
  | cons x xs ih => cases x <;> simp [chunksOf, ih]

theorem utf16Bytes_append (a b : List Nat) : utf16Bytes (a ++ b) = utf16Bytes a ++ utf16Bytes b := by
  simp [utf16Bytes]

@[simp] theorem utf16Bytes_nil : utf16Bytes [] = [] := rfl

/-- the encoding in force -/
def enc (tr : List Nat → Bytes) (u : Bool) (s : List Nat) : Bytes := if u then utf16Bytes s else tr s

theorem enc_append {tr} (h : Additive tr) (u : Bool) (a b : List Nat) :
    enc tr u (a ++ b) = enc tr u a ++ enc tr u b := by
  cases u <;> simp [enc, utf16Bytes_append, h.2]

@[simp] theorem enc_nil {tr} (h : Additive tr) (u : Bool) : enc tr u [] = [] := by
  cases u <;> simp [enc, h.1]

/-! projections of the primitive updates -/
section proj
variable (st : WSt) (o : Out) (b : Bool) (s : List Nat) (k : Nat)
@[simp] theorem addLog_buf : (st.addLog o).buf = st.buf := rfl
@[simp] theorem addLog_utf16 : (st.addLog o).utf16 = st.utf16 := rfl
@[simp] theorem addLog_bufSize : (st.addLog o).bufSize = st.bufSize := rfl
@[simp] theorem addLog_failed : (st.addLog o).failed = st.failed := rfl
@[simp] theorem addLog_budget : (st.addLog o).budget = st.budget := rfl
@[simp] theorem addLog_flushWide : (st.addLog o).flushWide = st.flushWide := rfl
@[simp] theorem addLog_log : (st.addLog o).log = st.log ++ [o] := rfl
@[simp] theorem setFlag_buf : (st.setFlag b).buf = st.buf := rfl
@[simp] theorem setFlag_utf16 : (st.setFlag b).utf16 = st.utf16 := rfl
@[simp] theorem setFlag_bufSize : (st.setFlag b).bufSize = st.bufSize := rfl
@[simp] theorem setFlag_failed : (st.setFlag b).failed = st.failed := rfl
@[simp] theorem setFlag_budget : (st.setFlag b).budget = st.budget := rfl
@[simp] theorem setFlag_flushWide : (st.setFlag b).flushWide = b := rfl
@[simp] theorem setFlag_log : (st.setFlag b).log = st.log := rfl
@[simp] theorem setUtf16_buf : st.setUtf16.buf = st.buf := rfl
@[simp] theorem setUtf16_utf16 : st.setUtf16.utf16 = true := rfl
@[simp] theorem setUtf16_bufSize : st.setUtf16.bufSize = st.bufSize := rfl
@[simp] theorem setUtf16_failed : st.setUtf16.failed = st.failed := rfl
@[simp] theorem setUtf16_budget : st.setUtf16.budget = st.budget := rfl
@[simp] theorem setUtf16_flushWide : st.setUtf16.flushWide = st.flushWide := rfl
@[simp] theorem setUtf16_log : st.setUtf16.log = st.log := rfl
@[simp] theorem clearBuf_buf : st.clearBuf.buf = [] := rfl
@[simp] theorem clearBuf_utf16 : st.clearBuf.utf16 = st.utf16 := rfl
@[simp] theorem clearBuf_bufSize : st.clearBuf.bufSize = st.bufSize := rfl
@[simp] theorem clearBuf_failed : st.clearBuf.failed = st.failed := rfl
@[simp] theorem clearBuf_budget : st.clearBuf.budget = st.budget := rfl
@[simp] theorem clearBuf_flushWide : st.clearBuf.flushWide = st.flushWide := rfl
@[simp] theorem clearBuf_log : st.clearBuf.log = st.log := rfl
@[simp] theorem pushBuf_buf : (st.pushBuf s).buf = st.buf ++ s := rfl
@[simp] theorem pushBuf_utf16 : (st.pushBuf s).utf16 = st.utf16 := rfl
@[simp] theorem pushBuf_bufSize : (st.pushBuf s).bufSize = st.bufSize := rfl
@[simp] theorem pushBuf_failed : (st.pushBuf s).failed = st.failed := rfl
@[simp] theorem pushBuf_budget : (st.pushBuf s).budget = st.budget := rfl
@[simp] theorem pushBuf_flushWide : (st.pushBuf s).flushWide = st.flushWide := rfl
@[simp] theorem pushBuf_log : (st.pushBuf s).log = st.log := rfl
end proj

@[simp] theorem received_addLog_chunk (st : WSt) (b : Bytes) : received (st.addLog (.chunk b)) = received st ++ b := by
  simp [received, chunksOf_append, chunksOf]
@[simp] theorem received_addLog_flushed (st : WSt) : received (st.addLog .flushed) = received st := by
  simp [received, chunksOf_append, chunksOf]
@[simp] theorem received_setFlag (st : WSt) (b : Bool) : received (st.setFlag b) = received st := rfl
@[simp] theorem received_setUtf16 (st : WSt) : received st.setUtf16 = received st := rfl
@[simp] theorem received_clearBuf (st : WSt) : received st.clearBuf = received st := rfl
@[simp] theorem received_pushBuf (st : WSt) (s : List Nat) : received (st.pushBuf s) = received st := rfl

/-- no failure is possible and the print writer's flag covers the buffer -/
structure Good (st : WSt) : Prop where
  notFailed : st.failed = false
  noBudget : st.budget = none
  flag : st.flushWide = false → st.buf = []

theorem writeData_eq (st : WSt) (b : Bytes) (h1 : st.failed = false) (h2 : st.budget = none) :
    st.writeData b = st.addLog (.chunk b) := by
  simp [WSt.writeData, h1, h2]

theorem doWrite_eq (tr : List Nat → Bytes) (st : WSt) (s : List Nat) (h1 : st.failed = false) (h2 : st.budget = none) :
    st.doWrite tr s = st.addLog (.chunk (enc tr st.utf16 s)) := by
  unfold WSt.doWrite enc
  split <;> exact writeData_eq _ _ h1 h2

theorem flushBuffer_eq (tr : List Nat → Bytes) (st : WSt) (h1 : st.failed = false) (h2 : st.budget = none) :
    st.flushBuffer tr = if st.buf = [] then st else (st.addLog (.chunk (enc tr st.utf16 st.buf))).clearBuf := by
  unfold WSt.flushBuffer
  by_cases hb : st.buf = []
  · simp [hb]
  · simp [hb, doWrite_eq tr st st.buf h1 h2]

/-- facts about `flushBuffer` on a state that cannot fail -/
theorem flushBuffer_facts {tr} (ha : Additive tr) (st : WSt) (h1 : st.failed = false) (h2 : st.budget = none) :
    (st.flushBuffer tr).failed = false ∧ (st.flushBuffer tr).budget = none ∧ (st.flushBuffer tr).buf = [] ∧
    (st.flushBuffer tr).utf16 = st.utf16 ∧ (st.flushBuffer tr).bufSize = st.bufSize ∧
    (st.flushBuffer tr).flushWide = st.flushWide ∧
    received (st.flushBuffer tr) = received st ++ enc tr st.utf16 st.buf := by
  rw [flushBuffer_eq tr st h1 h2]
  by_cases hb : st.buf = []
  · simp [hb, h1, h2, ha]
  · simp [hb, h1, h2]

/-- the bytes one operation asks to be written -/
def opBytes (tr : List Nat → Bytes) (u : Bool) : WOp → Bytes
  | .wide s => enc tr u s
  | .wideChar c => enc tr u [c]
  | .narrow b => b
  | .flush => []
  | .setUtf16 => [0xFF, 0xFE]

def opUtf16 (u : Bool) : WOp → Bool
  | .setUtf16 => true
  | _ => u

theorem specBytes_cons (tr : List Nat → Bytes) (u : Bool) (op : WOp) (r : List WOp) :
    specBytes tr u (op :: r) = opBytes tr u op ++ specBytes tr (opUtf16 u op) r := by
  cases op <;> simp [specBytes, opBytes, opUtf16, enc]

/-- one print-writer operation on a good state -/
theorem wstep_good {tr} (ha : Additive tr) (st : WSt) (op : WOp) (h : Good st) :
    Good (wstep tr st op) ∧ (wstep tr st op).bufSize = st.bufSize ∧
    (wstep tr st op).utf16 = opUtf16 st.utf16 op ∧
    received (wstep tr st op) ++ enc tr (wstep tr st op).utf16 (wstep tr st op).buf =
      received st ++ enc tr st.utf16 st.buf ++ opBytes tr st.utf16 op := by
  obtain ⟨h1, h2, h3⟩ := h
  obtain ⟨f1, f2, f3, f4, f5, f6, f7⟩ := flushBuffer_facts ha st h1 h2
  unfold wstep
  simp only [h1, Bool.false_eq_true, ↓reduceIte]
  cases op with
  | wide s =>
    simp only [WSt.writeWide, opBytes, opUtf16]
    by_cases c1 : s.length + st.buf.length > st.bufSize
    · simp only [c1, ↓reduceIte, f5]
      by_cases c2 : s.length > st.bufSize
      · simp only [c2, ↓reduceIte]
        rw [doWrite_eq tr _ s f1 f2]
        refine ⟨⟨by simp [f1], by simp [f2], by simp⟩, by simp [f5], by simp [f4], ?_⟩
        simp [f3, f4, f7, ha]
      · simp only [c2, ↓reduceIte]
        refine ⟨⟨by simp [f1], by simp [f2], by simp⟩, by simp [f5], by simp [f4], ?_⟩
        simp [f3, f4, f7]
    · simp only [c1, ↓reduceIte]
      have c2 : ¬ s.length > st.bufSize := by omega
      simp only [c2, ↓reduceIte]
      refine ⟨⟨by simp [h1], by simp [h2], by simp⟩, by simp, by simp, ?_⟩
      simp [enc_append ha]
  | wideChar c =>
    simp only [WSt.writeWideChar, opBytes, opUtf16]
    by_cases c1 : (st.buf.length == st.bufSize) = true
    · simp only [c1, ↓reduceIte]
      refine ⟨⟨by simp [f1], by simp [f2], by simp⟩, by simp [f5], by simp [f4], ?_⟩
      simp [f3, f4, f7]
    · simp only [c1, Bool.false_eq_true, ↓reduceIte]
      refine ⟨⟨by simp [h1], by simp [h2], by simp⟩, by simp, by simp, ?_⟩
      simp [enc_append ha]
  | narrow b =>
    simp only [WSt.flushWideChars, opBytes, opUtf16]
    by_cases c1 : st.flushWide = true
    · simp only [c1, ↓reduceIte, setFlag_failed, f1, Bool.false_eq_true]
      rw [writeData_eq _ b (by simp [f1]) (by simp [f2])]
      refine ⟨⟨by simp [f1], by simp [f2], by simp [f3]⟩, by simp [f5], by simp [f4], ?_⟩
      simp [f3, f4, f7, ha]
    · have c1' : st.flushWide = false := by simpa using c1
      have hb := h3 c1'
      simp only [c1', Bool.false_eq_true, ↓reduceIte, h1]
      rw [writeData_eq _ b h1 h2]
      refine ⟨⟨by simp [h1], by simp [h2], by simp [hb]⟩, by simp, by simp, ?_⟩
      simp [hb, ha]
  | flush =>
    simp only [f1, Bool.false_eq_true, ↓reduceIte, WSt.doFlush, opBytes, opUtf16]
    split
    · refine ⟨⟨by simp [f1], by simp [f2], by simp [f3]⟩, by simp [f5], by simp [f4], ?_⟩
      simp [f3, f4, f7, ha]
    · refine ⟨⟨f1, f2, fun _ => f3⟩, f5, f4, ?_⟩
      simp [f3, f4, f7, ha]
  | setUtf16 =>
    simp only [f1, Bool.false_eq_true, ↓reduceIte, opBytes, opUtf16]
    rw [writeData_eq _ _ (by simp [f1]) (by simp [f2])]
    refine ⟨⟨by simp [f1], by simp [f2], by simp [f3]⟩, by simp [f5], by simp, ?_⟩
    simp [f3, f7, ha]

/-- every history on a good state -/
theorem wrun_good {tr} (ha : Additive tr) (ops : List WOp) : ∀ (st : WSt), Good st →
    Good (wrun tr ops st) ∧ (wrun tr ops st).bufSize = st.bufSize ∧
    received (wrun tr ops st) ++ enc tr (wrun tr ops st).utf16 (wrun tr ops st).buf =
      received st ++ enc tr st.utf16 st.buf ++ specBytes tr st.utf16 ops := by
  induction ops with
  | nil => intro st h; simp [wrun, specBytes, h]
  | cons op ops ih =>
    intro st h
    obtain ⟨g, hs, hu, hb⟩ := wstep_good ha st op h
    obtain ⟨g2, hs2, hb2⟩ := ih (wstep tr st op) g
    have : wrun tr (op :: ops) st = wrun tr ops (wstep tr st op) := rfl
    rw [this]
    refine ⟨g2, hs2.trans hs, ?_⟩
    rw [hb2, hb, specBytes_cons, hu]; simp

theorem close_good {tr} (ha : Additive tr) (st : WSt) (h : Good st) :
    received (st.close tr) = received st ++ enc tr st.utf16 st.buf := by
  obtain ⟨f1, f2, f3, f4, f5, f6, f7⟩ := flushBuffer_facts ha st h.notFailed h.noBudget
  unfold WSt.close WSt.doFlush
  split <;> simp [f7]

/-! ### C string -/

theorem cstr_capiData (out : Bytes) (h : ∀ b ∈ out, b ≠ 0) : cstr (capiData out) = out := by
  unfold cstr capiData
  induction out with
  | nil => simp
  | cons x xs ih =>
    have hx : x ≠ 0 := h x (by simp)
    simp only [List.cons_append, List.takeWhile_cons, bne_iff_ne, ne_eq, hx, not_false_eq_true, ↓reduceIte,
      List.cons.injEq, true_and]
    exact ih (fun b hb => h b (by simp [hb]))

end XalanModel.C05
