import XalanModel.C05.PIScan
/-!
The token-level scan of one xml-stylesheet PI: for pseudo-attributes with distinct names (value tokens are quoted,
so never the bare words `type` / `href`) the result is a function of the *set* of pseudo-attributes.
-/
namespace XalanModel.C05.PI

/-- the token sequence of a PI whose data is `name="value"` pairs: name token, quoted-value token -/
def toks : List (Str × Str) → List Str
  | [] => []
  | p :: r => p.1 :: p.2 :: toks r

def lookupP (n : Str) : List (Str × Str) → Option Str
  | [] => none
  | p :: r => if p.1 == n then some p.2 else lookupP n r

def typeOk (ps : List (Str × Str)) : Bool :=
  match lookupP (kType) ps with
  | some v => v.length > 2 && okTypes.contains (trim v)
  | none => false

def hrefOf (ps : List (Str × Str)) : Str :=
  match lookupP (kHref) ps with
  | some v => if v.length > 2 then trim v else []
  | none => []

def names (ps : List (Str × Str)) : List Str := ps.map (·.1)

/-- value tokens are not the bare keywords -/
def Plain (ps : List (Str × Str)) : Prop := ∀ p ∈ ps, p.2 ≠ kType ∧ p.2 ≠ kHref

theorem lookupP_none {n : Str} {ps : List (Str × Str)} (h : n ∉ names ps) : lookupP n ps = none := by
  induction ps with
  | nil => rfl
  | cons p r ih =>
    simp only [names, List.map_cons, List.mem_cons, not_or] at h
    have hne : (p.1 == n) = false := by simpa [beq_eq_false_iff_ne] using fun e => h.1 e.symm
    simp [lookupP, hne, ih (by simpa [names] using h.2)]

theorem scan_pairs : ∀ (ps : List (Str × Str)) (cur : Str) (f : Found),
    Plain ps → (names ps).Nodup →
    (f.isOK = true → kType ∉ names ps) → (f.uri ≠ [] → kHref ∉ names ps) →
    scanTokens (toks ps) cur f = ⟨f.isOK || typeOk ps, if f.uri.isEmpty then hrefOf ps else f.uri⟩ := by
  intro ps
  induction ps with
  | nil =>
    intro cur f _ _ _ _
    cases f with
    | mk ok uri => cases uri <;> simp [toks, scanTokens, typeOk, hrefOf, lookupP]
  | cons p r ih =>
    intro cur f hp hn ht hh
    obtain ⟨n, v⟩ := p
    have hpr : Plain r := fun q hq => hp q (List.mem_cons_of_mem _ hq)
    have hv := hp (n, v) (List.mem_cons_self)
    simp only [names, List.map_cons, List.nodup_cons] at hn
    have hnr : (names r).Nodup := hn.2
    by_cases hexit : (f.isOK && !f.uri.isEmpty) = true
    · -- both already known: the loop condition fails
      simp only [Bool.and_eq_true, Bool.not_eq_eq_eq_not, Bool.not_true] at hexit
      cases f with
      | mk ok uri =>
        simp only at hexit
        simp [toks, scanTokens, hexit.1, hexit.2]
    · have hexit' : (f.isOK && !f.uri.isEmpty) = false := by simpa using hexit
      by_cases hty : n = kType
      · subst hty
        have hfok : f.isOK = false := by
          cases h : f.isOK with
          | false => rfl
          | true => exact absurd (by simp [names]) (ht h)
        have hnotin : kType ∉ names r := hn.1
        have hhref : f.uri ≠ [] → kHref ∉ names r := fun h => by
          have := hh h; simp only [names, List.map_cons, List.mem_cons, not_or] at this; exact this.2
        have hl : lookupP (kType) r = none := lookupP_none hnotin
        have hne : (kType == kHref) = false := by decide
        simp only [toks, scanTokens, hexit', Bool.false_eq_true, ↓reduceIte, beq_self_eq_true]
        by_cases hokv : (decide (v.length > 2) && okTypes.contains (trim v)) = true
        · simp only [hokv, ↓reduceIte]
          rw [ih v { f with isOK := true } hpr hnr (fun _ => hnotin) hhref]
          simp [typeOk, lookupP, hl, hrefOf, hne]
          exact Or.inr (by simpa using hokv)
        · have hokv' : (decide (v.length > 2) && okTypes.contains (trim v)) = false := by simpa using hokv
          simp only [hokv', Bool.false_eq_true, ↓reduceIte]
          rw [ih v f hpr hnr (fun h => by rw [hfok] at h; cases h) hhref]
          simp [typeOk, lookupP, hl, hrefOf, hne, hfok]
          simpa using hokv'
      · by_cases hhr : n = kHref
        · subst hhr
          have hfu : f.uri = [] := by
            cases h : f.uri with
            | nil => rfl
            | cons a b => exact absurd (by simp [names]) (hh (by simp [h]))
          have hnotin : kHref ∉ names r := hn.1
          have hl : lookupP (kHref) r = none := lookupP_none hnotin
          have htype : f.isOK = true → kType ∉ names r := fun h => by
            have := ht h; simp only [names, List.map_cons, List.mem_cons, not_or] at this; exact this.2
          have hne : (kHref == kType) = false := by decide
          simp only [toks, scanTokens, hexit', Bool.false_eq_true, ↓reduceIte, hne, beq_self_eq_true]
          by_cases hlen : v.length > 2
          · have htn : trim v ≠ [] := by
              unfold trim
              intro h0
              have : ((v.drop 1).dropLast).length = 0 := by rw [h0]; rfl
              simp at this; omega
            simp only [hlen, ↓reduceIte]
            rw [ih v { f with uri := trim v } hpr hnr htype (fun _ => hnotin)]
            cases htv : trim v with
            | nil => exact absurd htv htn
            | cons a b => simp [hlen, htv, typeOk, hrefOf, lookupP, hl, hfu, hne]
          · simp only [hlen, ↓reduceIte]
            rw [ih v f hpr hnr htype (fun h => absurd hfu h)]
            simp [hlen, typeOk, hrefOf, lookupP, hl, hfu, hne]
        · -- any other pseudo-attribute: name and value tokens are skipped
          have h1 : (n == kType) = false := by simpa [beq_eq_false_iff_ne] using hty
          have h2 : (n == kHref) = false := by simpa [beq_eq_false_iff_ne] using hhr
          have h3 : (v == kType) = false := by simpa [beq_eq_false_iff_ne] using hv.1
          have h4 : (v == kHref) = false := by simpa [beq_eq_false_iff_ne] using hv.2
          simp only [toks, scanTokens, hexit', Bool.false_eq_true, ↓reduceIte, h1, h2]
          rw [scanTokens.eq_def]
          simp only [hexit', Bool.false_eq_true, ↓reduceIte, h3, h4]
          rw [ih v f hpr hnr (fun h => by
              have := ht h; simp only [names, List.map_cons, List.mem_cons, not_or] at this; exact this.2)
            (fun h => by
              have := hh h; simp only [names, List.map_cons, List.mem_cons, not_or] at this; exact this.2)]
          simp [typeOk, hrefOf, lookupP, h1, h2]

theorem lookupP_perm {n : Str} {ps qs : List (Str × Str)} (h : ps.Perm qs) (hn : (names ps).Nodup) :
    lookupP n ps = lookupP n qs := by
  induction h with
  | nil => rfl
  | cons p _ ih =>
    simp only [names, List.map_cons, List.nodup_cons] at hn
    simp [lookupP, ih hn.2]
  | swap p q r =>
    simp only [names, List.map_cons, List.nodup_cons, List.mem_cons, not_or] at hn
    simp only [lookupP]
    by_cases h1 : (q.1 == n) = true <;> by_cases h2 : (p.1 == n) = true
    · exfalso; exact hn.1.1 ((beq_iff_eq.mp h1).trans (beq_iff_eq.mp h2).symm)
    · simp [h1, h2]
    · simp [h1, h2]
    · simp [h1, h2]
  | trans h1 _ ih1 ih2 =>
    have : (names _).Nodup := (List.Perm.nodup_iff (h1.map (fun x : Str × Str => x.1))).mp hn
    rw [ih1 hn, ih2 this]

end XalanModel.C05.PI
