import XalanModel.C05.PIScan
/-!
The token-level scan of one xml-stylesheet PI: for pseudo-attributes with distinct names (value tokens are quoted,
so never the bare words `type` / `href`) the result is a function of the *set* of pseudo-attributes.
-/
namespace XalanModel.C05.PI

/-- the token sequence of a PI whose data is `name="value"` pairs: name token, quoted-value token -/
def toks : List (Str × Str) → List Str
  | [] => []
  | p :: r => p.1 :: p.2 :: toks r

def lookupP (n : Str) : List (Str × Str) → Option Str
  | [] => none
  | p :: r => if p.1 == n then some p.2 else lookupP n r

def typeOk (ps : List (Str × Str)) : Bool :=
  match lookupP (kType) ps with
  | some v => v.length > 2 && okTypes.contains (trim v)
  | none => false

def hrefOf (ps : List (Str × Str)) : Str :=
  match lookupP (kHref) ps with
  | some v => if v.length > 2 then trim v else []
  | none => []

def names (ps : List (Str × Str)) : List Str := ps.map (·.1)

/-- value tokens are not the bare keywords -/
def Plain (ps : List (Str × Str)) : Prop := ∀ p ∈ ps, p.2 ≠ kType ∧ p.2 ≠ kHref

theorem lookupP_none {n : Str} {ps : List (Str × Str)} (h : n ∉ names ps) : lookupP n ps = none := by
  induction ps with
  | nil => rfl
  | cons p r ih =>
    simp only [names, List.map_cons, List.mem_cons, not_or] at h
    have hne : (p.1 == n) = false := by simpa [beq_eq_false_iff_ne] using fun e => h.1 e.symm
    simp [lookupP, hne, ih (by simpa [names] using h.2)]

theorem scan_pairs : ∀ (ps : List (Str × Str)) (cur : Str) (f : Found),
    Plain ps → (names ps).Nodup →
    (f.isOK = true → kType ∉ names ps) → (f.uri ≠ [] → kHref ∉ names ps) →
    scanTokens (toks ps) cur f = ⟨f.isOK || typeOk ps, if f.uri.isEmpty then hrefOf ps else f.uri⟩ := by
  intro ps
  induction ps with
  | nil =>
    intro cur f _ _ _ _
    cases f with
    | mk ok uri => cases uri <;> simp [toks, scanTokens, typeOk, hrefOf, lookupP]
  | cons p r ih =>
    intro cur f hp hn ht hh
    obtain ⟨n, v⟩ := p
    have hpr : Plain r := fun q hq => hp q (List.mem_cons_of_mem _ hq)
    have hv := hp (n, v) (List.mem_cons_self)
    simp only [names, List.map_cons, List.nodup_cons] at hn
    have hnr : (names r).Nodup := hn.2
    by_cases hexit : (f.isOK && !f.uri.isEmpty) = true
    · -- both already known: the loop condition fails
      simp only [Bool.and_eq_true, Bool.not_eq_eq_eq_not, Bool.not_true] at hexit
      cases f with
      | mk ok uri =>
        simp only at hexit
        simp [toks, scanTokens, hexit.1, hexit.2]
    · have hexit' : (f.isOK && !f.uri.isEmpty) = false := by simpa using hexit
      by_cases hty : n = kType
      · subst hty
        have hfok : f.isOK = false := by
          cases h : f.isOK with
          | false => rfl
          | true => exact absurd (by simp [names]) (ht h)
        have hnotin : kType ∉ names r := hn.1
        have hhref : f.uri ≠ [] → kHref ∉ names r := fun h => by
          have := hh h; simp only [names, List.map_cons, List.mem_cons, not_or] at this; exact this.2
        have hl : lookupP (kType) r = none := lookupP_none hnotin
        have hne : (kType == kHref) = false := by decide
        simp only [toks, scanTokens, hexit', Bool.false_eq_true, ↓reduceIte, beq_self_eq_true]
        by_cases hokv : (decide (v.length > 2) && okTypes.contains (trim v)) = true
        · simp only [hokv, ↓reduceIte]
          rw [ih v { f with isOK := true } hpr hnr (fun _ => hnotin) hhref]
          simp [typeOk, lookupP, hl, hrefOf, hne]
          exact Or.inr (by simpa using hokv)
        · have hokv' : (decide (v.length > 2) && okTypes.contains (trim v)) = false := by simpa using hokv
          simp only [hokv', Bool.false_eq_true, ↓reduceIte]
          rw [ih v f hpr hnr (fun h => by rw [hfok] at h; cases h) hhref]
          simp [typeOk, lookupP, hl, hrefOf, hne, hfok]
          simpa using hokv'
      · by_cases hhr : n = kHref
        · subst hhr
          have hfu : f.uri = [] := by
            cases h : f.uri with
            | nil => rfl
            | cons a b => exact absurd (by simp [names]) (hh (by simp [h]))
          have hnotin : kHref ∉ names r := hn.1
          have hl : lookupP (kHref) r = none := lookupP_none hnotin
          have htype : f.isOK = true → kType ∉ names r := fun h => by
            have := ht h; simp only [names, List.map_cons, List.mem_cons, not_or] at this; exact this.2
          have hne : (kHref == kType) = false := by decide
          simp only [toks, scanTokens, hexit', Bool.false_eq_true, ↓reduceIte, hne, beq_self_eq_true]
          by_cases hlen : v.length > 2
          · have htn : trim v ≠ [] := by
              unfold trim
              intro h0
              have : ((v.drop 1).dropLast).length = 0 := by rw [h0]; rfl
              simp at this; omega
            simp only [hlen, ↓reduceIte]
            rw [ih v { f with uri := trim v } hpr hnr htype (fun _ => hnotin)]
            cases htv : trim v with
            | nil => exact absurd htv htn
            | cons a b => simp [hlen, htv, typeOk, hrefOf, lookupP, hl, hfu, hne]
          · simp only [hlen, ↓reduceIte]
            rw [ih v f hpr hnr htype (fun h => absurd hfu h)]
            simp [hlen, typeOk, hrefOf, lookupP, hl, hfu, hne]
        · -- any other pseudo-attribute: name and value tokens are skipped
          have h1 : (n == kType) = false := by simpa [beq_eq_false_iff_ne] using hty
          have h2 : (n == kHref) = false := by simpa [beq_eq_false_iff_ne] using hhr
          have h3 : (v == kType) = false := by simpa [beq_eq_false_iff_ne] using hv.1
          have h4 : (v == kHref) = false := by simpa [beq_eq_false_iff_ne] using hv.2
          simp only [toks, scanTokens, hexit', Bool.false_eq_true, ↓reduceIte, h1, h2]
          rw [scanTokens.eq_def]
          simp only [hexit', Bool.false_eq_true, ↓reduceIte, h3, h4]
          rw [ih v f hpr hnr (fun h => by
              have := ht h; simp only [names, List.map_cons, List.mem_cons, not_or] at this; exact this.2)
            (fun h => by
              have := hh h; simp only [names, List.map_cons, List.mem_cons, not_or] at this; exact this.2)]
          simp [typeOk, hrefOf, lookupP, h1, h2]

theorem lookupP_perm {n : Str} {ps qs : List (Str × Str)} (h : ps.Perm qs) (hn : (names ps).Nodup) :
    lookupP n ps = lookupP n qs := by
  induction h with
  | nil => rfl
  | cons p _ ih =>
    simp only [names, List.map_cons, List.nodup_cons] at hn
    simp [lookupP, ih hn.2]
  | swap p q r =>
    simp only [names, List.map_cons, List.nodup_cons, List.mem_cons, not_or] at hn
    simp only [lookupP]
    by_cases h1 : (q.1 == n) = true <;> by_cases h2 : (p.1 == n) = true
    · exfalso; exact hn.1.1 ((beq_iff_eq.mp h1).trans (beq_iff_eq.mp h2).symm)
    · simp [h1, h2]
    · simp [h1, h2]
    · simp [h1, h2]
  | trans h1 _ ih1 ih2 =>
    have : (names _).Nodup := (List.Perm.nodup_iff (h1.map (fun x : Str × Str => x.1))).mp hn
    rw [ih1 hn, ih2 this]

/-! ### characters ↔ tokens: the tokenizer on a PI written as pseudo-attributes -/

/-- one pseudo-attribute as written: name, the `=` with any blanks around it, the quoted value, the white space after it -/
structure Piece where
  name : Str
  eq : Str
  value : Str
  sep : Str
deriving Repr

def renderPieces : List Piece → Str
  | [] => []
  | p :: r => p.name ++ (p.eq ++ (p.value ++ (p.sep ++ renderPieces r)))

def pairsOf (ps : List Piece) : List (Str × Str) := ps.map fun p => (p.name, p.value)

/-- a non-empty run without delimiter characters -/
def Clean (fixed : Bool) (w : Str) : Prop := w ≠ [] ∧ ∀ c ∈ w, isDelim fixed c = false

def AllDelim (fixed : Bool) (d : Str) : Prop := ∀ c ∈ d, isDelim fixed c = true

/-- well-formed as far as the tokenizer is concerned: names and quoted values contain no delimiter, `eq` is a non-empty
run of delimiters (it contains the `=`), pseudo-attributes are separated by at least one delimiter -/
def WF (fixed : Bool) : List Piece → Prop
  | [] => True
  | p :: r => Clean fixed p.name ∧ Clean fixed p.value ∧ (p.eq ≠ [] ∧ AllDelim fixed p.eq) ∧ AllDelim fixed p.sep ∧
      (p.sep ≠ [] ∨ r = []) ∧ WF fixed r

theorem tokensAux_clean (fixed : Bool) (w : Str) : ∀ (cur rest : Str), (∀ c ∈ w, isDelim fixed c = false) →
    tokensAux fixed (w ++ rest) cur = tokensAux fixed rest (cur ++ w) := by
  induction w with
  | nil => intro cur rest _; simp
  | cons c w ih =>
    intro cur rest h
    have hc : isDelim fixed c = false := h c (by simp)
    simp only [List.cons_append, tokensAux, hc, Bool.false_eq_true, ↓reduceIte]
    rw [ih (cur ++ [c]) rest (fun x hx => h x (by simp [hx]))]
    simp

theorem tokensAux_delims_empty (fixed : Bool) (d : Str) : ∀ (rest : Str), AllDelim fixed d →
    tokensAux fixed (d ++ rest) [] = tokensAux fixed rest [] := by
  induction d with
  | nil => intro rest _; rfl
  | cons c d ih =>
    intro rest h
    have hc : isDelim fixed c = true := h c (by simp)
    simp only [List.cons_append, tokensAux, hc, ↓reduceIte, List.isEmpty_nil]
    exact ih rest (fun x hx => h x (by simp [hx]))

theorem tokensAux_delims (fixed : Bool) (d : Str) (cur rest : Str) (hd : d ≠ []) (h : AllDelim fixed d) (hc : cur ≠ []) :
    tokensAux fixed (d ++ rest) cur = cur :: tokensAux fixed rest [] := by
  cases d with
  | nil => exact absurd rfl hd
  | cons c d =>
    have hcd : isDelim fixed c = true := h c (by simp)
    have hne : cur.isEmpty = false := by cases cur <;> simp_all
    simp only [List.cons_append, tokensAux, hcd, ↓reduceIte, hne, Bool.false_eq_true]
    rw [tokensAux_delims_empty fixed d rest (fun x hx => h x (by simp [hx]))]

theorem tokensAux_end (fixed : Bool) (cur : Str) (hc : cur ≠ []) : tokensAux fixed [] cur = [cur] := by
  have hne : cur.isEmpty = false := by cases cur <;> simp_all
  simp [tokensAux, hne]

/-- **tokenizer on pseudo-attributes**: name token, quoted-value token, for each pseudo-attribute in turn -/
theorem tokens_render (fixed : Bool) (ps : List Piece) (h : WF fixed ps) :
    tokens fixed (renderPieces ps) = toks (pairsOf ps) := by
  unfold tokens
  induction ps with
  | nil => simp [renderPieces, tokensAux, toks, pairsOf]
  | cons p r ih =>
    obtain ⟨hn, hv, he, hs, hlast, hr⟩ := h
    simp only [renderPieces, pairsOf, List.map_cons, toks]
    rw [tokensAux_clean fixed p.name [] _ hn.2, List.nil_append,
        tokensAux_delims fixed p.eq p.name _ he.1 he.2 hn.1,
        tokensAux_clean fixed p.value [] _ hv.2, List.nil_append]
    rcases hlast with hne | hre
    · rw [tokensAux_delims fixed p.sep p.value _ hne hs hv.1]
      have := ih hr
      simp only [pairsOf] at this
      rw [this]
    · subst hre
      simp only [renderPieces, List.append_nil, List.map_nil, toks]
      by_cases hse : p.sep = []
      · rw [hse, tokensAux_end fixed p.value hv.1]
      · have := tokensAux_delims fixed p.sep p.value [] hse hs hv.1
        simp only [List.append_nil] at this
        rw [this]; simp [tokensAux]

end XalanModel.C05.PI
