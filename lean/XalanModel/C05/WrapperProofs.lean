import XalanModel.C05.Wrapper
namespace XalanModel.C05

theorem wrapAttrs_fst (a : List (Str × Str)) : ∀ i, (wrapAttrs a i).map (·.1) = attrsD a := by
  induction a with
  | nil => intro i; rfl
  | cons x xs ih =>
    intro i
    have := ih (i + 1)
    simp only [attrsD] at this
    simp [wrapAttrs, attrsD, this]

theorem wrapAttrs_snd (a : List (Str × Str)) : ∀ i, (wrapAttrs a i).map (·.2) = List.range' i a.length := by
  induction a with
  | nil => intro i; rfl
  | cons x xs ih => intro i; simp [wrapAttrs, List.range'_succ, ih (i + 1)]

/-- visit order = document order; the indices are consecutive -/
theorem wrapWalk_spec (f : Forest) : ∀ i,
    (wrapWalk f i).1.map (·.1) = preorder f ∧
    (wrapWalk f i).1.map (·.2) = List.range' i (preorder f).length ∧
    (wrapWalk f i).2 = i + (preorder f).length := by
  induction f with
  | nil => intro i; simp [wrapWalk, preorder]
  | text s n ih =>
    intro i; obtain ⟨h1, h2, h3⟩ := ih (i + 1)
    simp [wrapWalk, preorder, h1, h2, h3, List.range'_succ]; omega
  | iws s n ih =>
    intro i; obtain ⟨h1, h2, h3⟩ := ih (i + 1)
    simp [wrapWalk, preorder, h1, h2, h3, List.range'_succ]; omega
  | comment s n ih =>
    intro i; obtain ⟨h1, h2, h3⟩ := ih (i + 1)
    simp [wrapWalk, preorder, h1, h2, h3, List.range'_succ]; omega
  | pi t d n ih =>
    intro i; obtain ⟨h1, h2, h3⟩ := ih (i + 1)
    simp [wrapWalk, preorder, h1, h2, h3, List.range'_succ]; omega
  | elem nm a k n ihk ih =>
    intro i
    obtain ⟨k1, k2, k3⟩ := ihk (i + 1 + a.length)
    obtain ⟨n1, n2, n3⟩ := ih (wrapWalk k (i + 1 + a.length)).2
    rw [k3] at n2 n3
    have hlen : (preorder (.elem nm a k n)).length = 1 + a.length + ((preorder k).length + (preorder n).length) := by
      simp [preorder, attrsD]; omega
    refine ⟨?_, ?_, ?_⟩
    · simp [wrapWalk, preorder, wrapAttrs_fst, k1, n1]
    · rw [hlen]
      simp only [wrapWalk, List.map_cons, List.map_append, wrapAttrs_snd, k2, k3, n2]
      rw [List.range'_append_1, List.range'_append_1]
      rw [show 1 + a.length + ((preorder k).length + (preorder n).length) = (a.length + ((preorder k).length + (preorder n).length)) + 1 by omega]
      rw [List.range'_succ]
    · rw [hlen]; simp only [wrapWalk, k3, n3]; omega

end XalanModel.C05
