import XalanModel.C05.Index
/-!
# C05 — node numbering of the eagerly built Xerces-DOM wrapper

Mirrors `XercesDocumentWrapper::buildWrapperNodes` (the document navigator gets index 1, the walk starts at 2) and
`BuildWrapperTreeWalker::startNode` (XercesDocumentWrapper.cpp:1069): the DOM is walked in pre-order
(`XercesTreeWalker::traverse`: node, then its children, then its next sibling); `startNode` gives the node
`m_currentIndex` and increments it, and for an element then numbers each attribute of its `NamedNodeMap`, in map
order.  The DOM forest is a `Forest` as the parser/`FormatterToXercesDOM` left it (adjacent text nodes are possible;
`attrs` is the map order).  `DOMServices::isNodeAfter` compares these numbers for an indexed wrapper.
Core Lean only.
-/
namespace XalanModel.C05

/-- numbered attribute nodes of one element: `m_currentIndex` is incremented after each -/
def wrapAttrs : List (Str × Str) → Nat → List (Desc × Nat)
  | [], _ => []
  | x :: xs, i => (.attr x.1 x.2, i) :: wrapAttrs xs (i + 1)

/-- (nodes with the index they receive, in the order the walker visits them; next free index) -/
def wrapWalk : Forest → Nat → List (Desc × Nat) × Nat
  | .nil, i => ([], i)
  | .text s n, i => ((.text s, i) :: (wrapWalk n (i + 1)).1, (wrapWalk n (i + 1)).2)
  | .iws s n, i => ((.iws s, i) :: (wrapWalk n (i + 1)).1, (wrapWalk n (i + 1)).2)
  | .comment s n, i => ((.comment s, i) :: (wrapWalk n (i + 1)).1, (wrapWalk n (i + 1)).2)
  | .pi t d n, i => ((.pi t d, i) :: (wrapWalk n (i + 1)).1, (wrapWalk n (i + 1)).2)
  | .elem nm a k n, i =>
    let rk := wrapWalk k (i + 1 + a.length)
    let rn := wrapWalk n rk.2
    ((.elem nm, i) :: (wrapAttrs a (i + 1) ++ (rk.1 ++ rn.1)), rn.2)

/-- `buildWrapperNodes`: the children of the document are numbered from 2 -/
def wrapDocument (f : Forest) : List (Desc × Nat) := (wrapWalk f 2).1

end XalanModel.C05
