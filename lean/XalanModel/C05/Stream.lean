/-!
# C05 (ii) — the callback result target: XalanOutputStreamPrintWriter → XalanOutputStream →
XalanTransformerOutputStream::writeData / doFlush, and the C-API data buffer

Mirrors, as written:
* `PlatformSupport/XalanOutputStreamPrintWriter.cpp`: `write(const char*, …)` (calls
  `flushWideChars()` first, then the *unbuffered* narrow write), `write(const XalanDOMChar*, …)`,
  `write(XalanDOMChar)` (both set `m_flushWideChars`), `flush()`;
* `PlatformSupport/XalanOutputStream.{hpp,cpp}`: `write(const XalanDOMChar*, n)` (flush when
  `n + size > m_bufferSize`; direct `doWrite` when `n > m_bufferSize`), `write(XalanDOMChar)`
  (flush when `size == m_bufferSize`), `write(const char*, n)` (straight to `writeData`, buffer
  NOT flushed — the print writer is what keeps the order), `flushBuffer` (buffer cleared even when
  `doWrite` throws: `CollectionClearGuard`), `flush`, `doWrite` (`m_writeAsUTF16`: bytes of the
  code units; otherwise `transcode`), `setOutputEncoding` for UTF-16 (flush, byte-order mark
  through the narrow path);
* `XalanTransformer/XalanTransformerOutputStream.cpp`: `writeData` (one handler call per chunk;
  a handler that reports a different count → exception), `doFlush` (flush handler if any);
* `XalanTransformer/XalanCAPI.cpp` `XalanTransformToData`: `ostrstream`, `<< '\0'`, `str()`.

The transcoder is a parameter `tr`; the theorems need it to be additive
(`tr (a ++ b) = tr a ++ tr b`), which holds for the UTF-16 pass-through (`utf16Bytes`) and for
the identity on ASCII used by the driver, and is recorded as an assumption for ICU/Xerces
transcoders (false when a chunk boundary splits a surrogate pair).

Core Lean only.
-/
namespace XalanModel.C05

abbrev Bytes := List Nat

inductive WOp where
  | wide (s : List Nat)        -- PrintWriter::write(const XalanDOMChar*, off, len)
  | wideChar (c : Nat)         -- PrintWriter::write(XalanDOMChar)
  | narrow (b : Bytes)         -- PrintWriter::write(const char*, off, len)
  | flush                      -- PrintWriter::flush()
  | setUtf16                   -- XalanOutputStream::setOutputEncoding("UTF-16")
deriving Repr, DecidableEq

/-- what the user's callbacks see -/
inductive Out where
  | chunk (b : Bytes)          -- m_outputHandler(buffer, length, handle)
  | flushed                    -- m_flushHandler(handle)
deriving Repr, DecidableEq

structure WSt where
  bufSize : Nat                -- m_bufferSize (≥ 1; constructor turns 0 into 1)
  buf : List Nat := []         -- m_buffer (code units waiting to be transcoded)
  utf16 : Bool := false        -- m_writeAsUTF16
  flushWide : Bool := false    -- XalanOutputStreamPrintWriter::m_flushWideChars
  budget : Option Nat := none  -- handler accepts this many more chunks in full (none = all)
  hasFlushHandler : Bool := true
  failed : Bool := false       -- XalanOutputStreamException thrown
  log : List Out := []         -- callback calls so far
deriving Repr, DecidableEq

def utf16Bytes (s : List Nat) : Bytes := s.flatMap fun u => [u % 256, u / 256 % 256]

def WSt.addLog (st : WSt) (o : Out) : WSt := { st with log := st.log ++ [o] }

def WSt.fail (st : WSt) : WSt := { st with failed := true }

def WSt.setBudget (st : WSt) (k : Nat) : WSt := { st with budget := some k }

/-- `XalanTransformerOutputStream::writeData`: the handler is called with the chunk; a short
count makes the stream throw -/
def WSt.writeData (st : WSt) (b : Bytes) : WSt :=
  if st.failed then st else
  match st.budget with
  | none => st.addLog (.chunk b)
  | some 0 => (st.addLog (.chunk b)).fail
  | some (k+1) => (st.addLog (.chunk b)).setBudget k

/-- `XalanOutputStream::doWrite` -/
def WSt.doWrite (tr : List Nat → Bytes) (st : WSt) (s : List Nat) : WSt :=
  if st.utf16 then st.writeData (utf16Bytes s) else st.writeData (tr s)

/-- `XalanOutputStream::flushBuffer` -/
def WSt.clearBuf (st : WSt) : WSt := { st with buf := [] }

def WSt.flushBuffer (tr : List Nat → Bytes) (st : WSt) : WSt :=
  if st.buf.isEmpty then st else (WSt.doWrite tr st st.buf).clearBuf

def WSt.pushBuf (st : WSt) (s : List Nat) : WSt := { st with buf := st.buf ++ s }

/-- `XalanOutputStream::write(const XalanDOMChar*, size_type)` -/
def WSt.writeWide (tr : List Nat → Bytes) (st : WSt) (s : List Nat) : WSt :=
  let st := if s.length + st.buf.length > st.bufSize then st.flushBuffer tr else st
  if s.length > st.bufSize then st.doWrite tr s else st.pushBuf s

/-- `XalanOutputStream::write(XalanDOMChar)` -/
def WSt.writeWideChar (tr : List Nat → Bytes) (st : WSt) (c : Nat) : WSt :=
  let st := if st.buf.length == st.bufSize then st.flushBuffer tr else st
  st.pushBuf [c]

/-- `XalanTransformerOutputStream::doFlush` -/
def WSt.doFlush (st : WSt) : WSt :=
  if st.hasFlushHandler then st.addLog .flushed else st

def WSt.setFlag (st : WSt) (b : Bool) : WSt := { st with flushWide := b }

def WSt.setUtf16 (st : WSt) : WSt := { st with utf16 := true }

/-- `XalanOutputStreamPrintWriter::flushWideChars` -/
def WSt.flushWideChars (tr : List Nat → Bytes) (st : WSt) : WSt :=
  if st.flushWide then (st.flushBuffer tr).setFlag false else st

def wstep (tr : List Nat → Bytes) (st : WSt) (op : WOp) : WSt :=
  if st.failed then st else   -- the exception has left the transformation
  match op with
  | .wide s => (st.writeWide tr s).setFlag true
  | .wideChar c => (st.writeWideChar tr c).setFlag true
  | .narrow b =>
    let st := st.flushWideChars tr
    if st.failed then st else st.writeData b
  | .flush =>
    let st := st.flushBuffer tr
    if st.failed then st else st.doFlush
  | .setUtf16 =>
    let st := st.flushBuffer tr
    if st.failed then st else st.setUtf16.writeData [0xFF, 0xFE]

def wrun (tr : List Nat → Bytes) (ops : List WOp) (st : WSt) : WSt := ops.foldl (wstep tr) st

/-- `~XalanOutputStreamPrintWriter` calls `flush()` — also while the exception unwinds -/
def WSt.close (tr : List Nat → Bytes) (st : WSt) : WSt := (st.flushBuffer tr).doFlush

def chunksOf : List Out → List Bytes
  | [] => []
  | .chunk b :: r => b :: chunksOf r
  | .flushed :: r => chunksOf r

/-- bytes the callback has received, in order -/
def received (st : WSt) : Bytes := (chunksOf st.log).flatten

/-! ## Specification: the byte stream the serializer asked to be written -/

def specBytes (tr : List Nat → Bytes) : Bool → List WOp → Bytes
  | _, [] => []
  | u, .wide s :: r => (if u then utf16Bytes s else tr s) ++ specBytes tr u r
  | u, .wideChar c :: r => (if u then utf16Bytes [c] else tr [c]) ++ specBytes tr u r
  | u, .narrow b :: r => b ++ specBytes tr u r
  | u, .flush :: r => specBytes tr u r
  | _, .setUtf16 :: r => [0xFF, 0xFE] ++ specBytes tr true r

def Additive (tr : List Nat → Bytes) : Prop := tr [] = [] ∧ ∀ a b, tr (a ++ b) = tr a ++ tr b

/-! ## C API: XalanTransformToData -/

/-- the `char*` handed to the caller: everything written, then one NUL -/
def capiData (out : Bytes) : Bytes := out ++ [0]

/-- what a C caller can read back from a `char*` without a length -/
def cstr (d : Bytes) : Bytes := d.takeWhile (· != 0)

end XalanModel.C05
