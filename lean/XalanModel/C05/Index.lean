import XalanModel.C05.Sax
/-!
# C05 — node indices of the native source tree

`XalanSourceTreeDocument` hands out `m_nextIndexValue++` to every node it creates (element, then its attributes in
vector order, text, comment, PI), and `DOMServices::isNodeAfter` compares these numbers.  Text nodes are created
*late* (when `processAccumulatedText` runs), so "index order = document order" is a property of the content
handler's flushing discipline.  `created st e` lists the nodes created by one handler call, in creation order;
`preorder` is the document order of a built tree.  Core Lean only.
-/
namespace XalanModel.C05

inductive Desc where
  | elem (n : Str)
  | attr (n v : Str)
  | text (s : Str)
  | iws (s : Str)
  | comment (s : Str)
  | pi (t d : Str)
deriving Repr, DecidableEq

def attrsD (a : List (Str × Str)) : List Desc := a.map fun x => Desc.attr x.1 x.2

/-- document order: an element, its attribute nodes, its children, then its following siblings -/
def preorder : Forest → List Desc
  | .nil => []
  | .text s n => .text s :: preorder n
  | .iws s n => .iws s :: preorder n
  | .comment s n => .comment s :: preorder n
  | .pi t d n => .pi t d :: preorder n
  | .elem nm a k n => (.elem nm :: attrsD a) ++ (preorder k ++ preorder n)

/-- node created by `processAccumulatedText` -/
def St.flushLog (st : St) : List Desc :=
  if st.buf.isEmpty then [] else
  match st.stack with
  | [] => []
  | _ :: _ => [.text st.buf]

/-- nodes created (indices consumed) by one handler call, in order -/
def created (st : St) : Ev → List Desc
  | .characters s =>
    match st.stack with
    | [] => []
    | _ :: _ => if st.accumulate then [] else [.text s]
  | .endElement => st.flushLog
  | .ignorableWhitespace s =>
    match st.stack with
    | [] => []
    | _ :: _ => st.flushLog ++ [.iws s]
  | .pi t d => st.flushLog ++ [.pi t d]
  | .startElement n a =>
    match st.stack with
    | [] => st.flushLog ++ (.elem n :: attrsD (xmlNsAttr :: orderAttrs a))
    | _ :: _ => st.flushLog ++ (.elem n :: attrsD (orderAttrs a))
  | .comment s => if st.inDTD then [] else st.flushLog ++ [.comment s]
  | .startDTD => []
  | .endDTD => []

/-- the order in which node indices are handed out during a run -/
def creationLog : List Ev → St → List Desc
  | [], _ => []
  | e :: es, st =>
    match step st e with
    | .ok st' => created st e ++ creationLog es st'
    | .error _ => []

end XalanModel.C05
