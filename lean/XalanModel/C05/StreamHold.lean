import XalanModel.C05.Stream
/-!
# C05 (ii) — the output stream with `proposed/C05-text-surrogate-split.diff` applied

`XalanOutputStream::flushBuffer(bool fHoldBackSurrogate)`: when the buffer is full and ends with the first half of
a surrogate pair, that one unit stays in the buffer; `write(XalanDOMChar)` tests `size() >= m_bufferSize`;
`write(const XalanDOMChar*, n)` writes a long run directly only when the buffer is empty and the run does not end
with a leading surrogate, otherwise through the buffer.  The public `flushBuffer()` / `flush()` (print writer's
`flushWideChars`, `flush`, `setOutputEncoding`) still write everything.  Core Lean only.
-/
namespace XalanModel.C05

def isLead (u : Nat) : Bool := 0xD800 ≤ u && u ≤ 0xDBFF
def isTrail (u : Nat) : Bool := 0xDC00 ≤ u && u ≤ 0xDFFF

def endsLead (p : List Nat) : Bool := isLead (p.getLast?.getD 0)

/-- `flushBuffer(true)` -/
def WSt.flushHold (tr : List Nat → Bytes) (st : WSt) : WSt :=
  if st.buf.isEmpty then st else
  if !st.utf16 && endsLead st.buf then
    let st1 := if st.buf.dropLast.isEmpty then st.clearBuf else (st.doWrite tr st.buf.dropLast).clearBuf
    if st1.failed then st1 else st1.pushBuf [st.buf.getLast?.getD 0]
  else (st.doWrite tr st.buf).clearBuf

/-- `write(const XalanDOMChar*, size_type)` -/
def WSt.writeWideH (tr : List Nat → Bytes) (st : WSt) (s : List Nat) : WSt :=
  let st := if s.length + st.buf.length > st.bufSize then st.flushHold tr else st
  if s.length > st.bufSize && st.buf.isEmpty && (st.utf16 || !endsLead s) then st.doWrite tr s
  else
    let st := st.pushBuf s
    if s.length > st.bufSize then st.flushHold tr else st

/-- `write(XalanDOMChar)` -/
def WSt.writeWideCharH (tr : List Nat → Bytes) (st : WSt) (c : Nat) : WSt :=
  let st := if st.buf.length ≥ st.bufSize then st.flushHold tr else st
  st.pushBuf [c]

def wstepH (tr : List Nat → Bytes) (st : WSt) (op : WOp) : WSt :=
  if st.failed then st else
  match op with
  | .wide s => (st.writeWideH tr s).setFlag true
  | .wideChar c => (st.writeWideCharH tr c).setFlag true
  | .narrow b =>
    let st := st.flushWideChars tr
    if st.failed then st else st.writeData b
  | .flush =>
    let st := st.flushBuffer tr
    if st.failed then st else st.doFlush
  | .setUtf16 =>
    let st := st.flushBuffer tr
    if st.failed then st else st.setUtf16.writeData [0xFF, 0xFE]

def wrunH (tr : List Nat → Bytes) (ops : List WOp) (st : WSt) : WSt := ops.foldl (wstepH tr) st

/-! ## Specification for a transcoder that works on code points

The wide units written between two synchronisation points (narrow write, flush, encoding switch, end) form one
run; the bytes are the transcoding of the whole run, however the serializer cut it into writes. -/
def specR (tr : List Nat → Bytes) : Bool → List Nat → List WOp → Bytes
  | u, pend, [] => if u then utf16Bytes pend else tr pend
  | u, pend, .wide s :: r => specR tr u (pend ++ s) r
  | u, pend, .wideChar c :: r => specR tr u (pend ++ [c]) r
  | u, pend, .narrow b :: r => (if u then utf16Bytes pend else tr pend) ++ b ++ specR tr u [] r
  | u, pend, .flush :: r => (if u then utf16Bytes pend else tr pend) ++ specR tr u [] r
  | u, pend, .setUtf16 :: r => (if u then utf16Bytes pend else tr pend) ++ [0xFF, 0xFE] ++ specR tr true [] r

/-- a cut between `a` and `b` separates the two halves of a surrogate pair -/
def cutsPair (a b : List Nat) : Bool := endsLead a && isTrail (b.head?.getD 0)

/-- the transcoder treats code points independently: it is additive over every cut that does not separate a pair -/
def PairAdditive (tr : List Nat → Bytes) : Prop :=
  tr [] = [] ∧ ∀ a b, cutsPair a b = false → tr (a ++ b) = tr a ++ tr b

/-! ## a concrete pair-aware transcoder: UTF-16 code units → UTF-8 bytes -/

/-- one BMP unit (a lone surrogate is encoded like any other unit: CESU-style, never asked for by well-formed text) -/
def utf8Unit (u : Nat) : Bytes :=
  if u < 0x80 then [u] else if u < 0x800 then [0xC0 + u / 64, 0x80 + u % 64]
  else [0xE0 + u / 4096, 0x80 + u / 64 % 64, 0x80 + u % 64]

/-- a surrogate pair: one supplementary code point, four bytes -/
def utf8Pair (h l : Nat) : Bytes :=
  let c := 0x10000 + (h - 0xD800) * 1024 + (l - 0xDC00)
  [0xF0 + c / 262144, 0x80 + c / 4096 % 64, 0x80 + c / 64 % 64, 0x80 + c % 64]

def trUtf8 : List Nat → Bytes
  | [] => []
  | [u] => utf8Unit u
  | h :: l :: r =>
    if isLead h && isTrail l then utf8Pair h l ++ trUtf8 r
    else utf8Unit h ++ trUtf8 (l :: r)

end XalanModel.C05
