import XalanModel.C05.Sax
/-!
# C05 — the Xalan source tree as result target: FormatterToSourceTree (document mode)

Mirrors `src/xalanc/XalanSourceTree/FormatterToSourceTree.cpp` as written, for the constructor without a
document fragment: `startElement` (214), `endElement` (240), `characters` (268: always accumulates),
`charactersRaw` (285: flush, a `<?Xalan raw?>` PI, then `characters`), `ignorableWhitespace` (305: guarded
by `m_elementStack.size() > 1`, i.e. correctly ignored outside elements), `processingInstruction`, `comment`,
`cdata` (384: **an empty function**), `processAccumulatedText`, `doCharacters`.
The state is the content handler's (`St` with `accumulate = true`, never in a DTD); the document element gets
no `xmlns:xml` attribute here.  `fixed = true` is the code with `proposed/C05-stree-cdata.diff` applied
(`cdata` forwards to `characters`).  Core Lean only.
-/
namespace XalanModel.C05

inductive TEv where
  | startElement (name : Str) (attrs : List (Str × Str))
  | endElement
  | characters (s : Str)
  | cdata (s : Str)
  | charactersRaw (s : Str)
  | ignorableWhitespace (s : Str)
  | comment (s : Str)
  | pi (target data : Str)
deriving Repr, DecidableEq

def piRawTarget : Str := "Xalan".toList.map Char.toNat
def piRawData : Str := "raw".toList.map Char.toNat

/-- `FormatterToSourceTree::characters` -/
def tCharacters (st : St) (s : Str) : Except Err St :=
  match st.stack with
  | [] => if isWS s then .ok st else .error .hierarchy
  | _ :: _ => .ok { st with buf := st.buf ++ s }

def tstep (fixed : Bool) (st : St) : TEv → Except Err St
  | .characters s => tCharacters st s
  | .cdata s => if fixed then tCharacters st s else .ok st
  | .charactersRaw s => tCharacters (st.flush.appendNode (.pi piRawTarget piRawData .nil)) s
  | .endElement =>
    let st := st.flush
    match st.stack with
    | [] => .error .unbalanced
    | f :: fs => .ok ({ st with stack := fs }.appendNode (.elem f.name f.attrs f.kids .nil))
  | .ignorableWhitespace s =>
    match st.stack with
    | [] => .ok st
    | _ :: _ => .ok (st.flush.appendNode (.iws s .nil))
  | .pi t d => .ok (st.flush.appendNode (.pi t d .nil))
  | .comment s => .ok (st.flush.appendNode (.comment s .nil))
  | .startElement n a =>
    let st := st.flush
    match st.stack with
    | [] =>
      if st.docElem then .error .hierarchy
      else .ok { st with docElem := true, stack := [⟨n, orderAttrs a, .nil⟩] }
    | fs => .ok { st with stack := ⟨n, orderAttrs a, .nil⟩ :: fs }

def trun (fixed : Bool) : List TEv → St → Except Err St
  | [], st => .ok st
  | e :: es, st => match tstep fixed st e with
    | .ok st' => trun fixed es st'
    | .error x => .error x

/-- `startDocument … endDocument` on a fresh document -/
def tbuild (fixed : Bool) (evs : List TEv) : Except Err Forest :=
  match trun fixed evs { accumulate := true } with
  | .ok st => if st.stack.isEmpty then .ok st.docKids else .error .unbalanced
  | .error x => .error x

/-- the result events as the serializer + parser would deliver them to the content handler: a CDATA section is
character data, raw characters are character data (after the marker PI) -/
def tAsText : TEv → TEv
  | .cdata s => .characters s
  | e => e

end XalanModel.C05
