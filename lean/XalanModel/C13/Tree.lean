import XalanModel.C13.Strip
/-
C13 — source tree, locations (zipper), physical stripping.

`Node` is the XPath data model of a parsed source (document node = `elem` with `name = none`; no
attributes/namespace nodes: no axis of the modelled fragment reaches them).  Every node carries the
document-order index the source tree gives it (`XalanSourceTree*::getIndex()`, assigned by
`m_nextIndexValue++` while parsing) — node-sets are ordered and de-duplicated by it.

A *location* `Loc` is a node together with its position in the tree (the frames from the node up to the
root: left siblings nearest first, parent id/name, right siblings), i.e. exactly what the C++ reaches through
`getParentNode / getPreviousSibling / getNextSibling / getFirstChild`.

Whether a text node is stripped is a parameter `sp : Option Tag → String → Bool` (parent element name,
character data) — `stripOf` instantiates it with the stylesheet's testers, the theorems hold for any `sp`.
Core Lean only.
-/
namespace XalanModel.C13

inductive Node where
  | elem (id : Nat) (name : Option Tag) (kids : List Node)
  | text (id : Nat) (data : String)
  | comment (id : Nat) (data : String)
  | pi (id : Nat) (target : String) (data : String)
deriving Repr, Inhabited

def Node.id : Node → Nat
  | .elem i _ _ => i
  | .text i _ => i
  | .comment i _ => i
  | .pi i _ _ => i

/-- strip decision for text children of an element named `pn` -/
abbrev StripFn := Option Tag → String → Bool

def noStrip : StripFn := fun _ _ => false

/-- the decision `StylesheetRoot::shouldStripSourceNode` takes, as a `StripFn` -/
def stripOf (ws : List Tester) : StripFn := fun pn d => shouldStrip ws pn (isWsString d)

/-- is this child of an element named `pn` a stripped text node? -/
def Node.stripped (sp : StripFn) (pn : Option Tag) : Node → Bool
  | .text _ d => sp pn d
  | _ => false

mutual
/-- physically remove the stripped text nodes (ids are kept) -/
def Node.strip (sp : StripFn) : Node → Node
  | .elem i n kids => .elem i n (Node.stripKids sp n kids)
  | .text i d => .text i d
  | .comment i d => .comment i d
  | .pi i t d => .pi i t d
def Node.stripKids (sp : StripFn) (pn : Option Tag) : List Node → List Node
  | [] => []
  | k :: ks =>
    if k.stripped sp pn then Node.stripKids sp pn ks
    else Node.strip sp k :: Node.stripKids sp pn ks
end

structure Frame where
  left : List Node            -- preceding siblings, nearest first
  pid : Nat                   -- the parent element
  pname : Option Tag
  right : List Node           -- following siblings, nearest first
deriving Repr, Inhabited

structure Loc where
  focus : Node
  path : List Frame           -- innermost frame first; `[]` for the document node
deriving Repr, Inhabited

def Loc.id (l : Loc) : Nat := l.focus.id

/-- the location denotes a stripped text node -/
def Loc.stripped (sp : StripFn) (l : Loc) : Bool :=
  match l.path with
  | [] => false
  | f :: _ => l.focus.stripped sp f.pname

def Frame.strip (sp : StripFn) (f : Frame) : Frame :=
  { f with left := Node.stripKids sp f.pname f.left, right := Node.stripKids sp f.pname f.right }

/-- the same location in the physically stripped document -/
def Loc.strip (sp : StripFn) (l : Loc) : Loc :=
  { focus := l.focus.strip sp, path := l.path.map (Frame.strip sp) }

/-! ### axes (in axis order) -/

/-- locations of the nodes `rest`, whose already passed left siblings are `left` (nearest first), children
of element `(pid, pname)` located at `path` -/
def sibsRight (pid : Nat) (pname : Option Tag) (path : List Frame) : List Node → List Node → List Loc
  | _, [] => []
  | left, k :: ks => ⟨k, ⟨left, pid, pname, ks⟩ :: path⟩ :: sibsRight pid pname path (k :: left) ks

/-- locations of the nodes `rest` (nearest first) to the left, `right` being what lies to the right of them -/
def sibsLeft (pid : Nat) (pname : Option Tag) (path : List Frame) : List Node → List Node → List Loc
  | [], _ => []
  | k :: ks, right => ⟨k, ⟨ks, pid, pname, right⟩ :: path⟩ :: sibsLeft pid pname path ks (k :: right)

def Loc.children (l : Loc) : List Loc :=
  match l.focus with
  | .elem i n kids => sibsRight i n l.path [] kids
  | _ => []

def Loc.followingSiblings (l : Loc) : List Loc :=
  match l.path with
  | [] => []
  | f :: p => sibsRight f.pid f.pname p (l.focus :: f.left) f.right

def Loc.precedingSiblings (l : Loc) : List Loc :=
  match l.path with
  | [] => []
  | f :: p => sibsLeft f.pid f.pname p f.left (l.focus :: f.right)

/-- the parent element rebuilt from a frame and the node in focus -/
def Frame.parentNode (f : Frame) (focus : Node) : Node :=
  .elem f.pid f.pname (f.left.reverse ++ focus :: f.right)

def Loc.parent (l : Loc) : List Loc :=
  match l.path with
  | [] => []
  | f :: p => [⟨f.parentNode l.focus, p⟩]

/-- ancestors, nearest first -/
def ancestorsAux : Node → List Frame → List Loc
  | _, [] => []
  | focus, f :: p => ⟨f.parentNode focus, p⟩ :: ancestorsAux (f.parentNode focus) p

def Loc.ancestors (l : Loc) : List Loc := ancestorsAux l.focus l.path

mutual
/-- proper descendants of the node at `path`, document order -/
def descNode (path : List Frame) : Node → List Loc
  | .elem i n kids => descKids i n path [] kids
  | _ => []
def descKids (pid : Nat) (pname : Option Tag) (path : List Frame) : List Node → List Node → List Loc
  | _, [] => []
  | left, k :: ks =>
    (⟨k, ⟨left, pid, pname, ks⟩ :: path⟩ :: descNode (⟨left, pid, pname, ks⟩ :: path) k)
      ++ descKids pid pname path (k :: left) ks
end

def Loc.descendants (l : Loc) : List Loc := descNode l.path l.focus

/-- the node itself followed by its descendants, document order -/
def Loc.descOrSelf (l : Loc) : List Loc := l :: l.descendants

/-- `following::` — for the node and each ancestor (nearest first) the following siblings with their
subtrees; this is document order -/
def Loc.following (l : Loc) : List Loc :=
  (l :: l.ancestors).flatMap fun a => a.followingSiblings.flatMap Loc.descOrSelf

/-- `preceding::` — reverse document order -/
def Loc.preceding (l : Loc) : List Loc :=
  (l :: l.ancestors).flatMap fun a => a.precedingSiblings.flatMap fun s => s.descOrSelf.reverse

/-- the document node of the tree `l` lives in -/
def rootAux : Node → List Frame → Loc
  | focus, [] => ⟨focus, []⟩
  | focus, f :: p => rootAux (f.parentNode focus) p

def Loc.root (l : Loc) : Loc := rootAux l.focus l.path

/-! ### string-value (`DOMServices::getNodeData` / `doGetNodeData`) -/

mutual
/-- the character data a node contributes to the string-value of an ancestor; text children for which `sp` says
"stripped" contribute nothing (`doGetNodeData(const XalanText&, …)`:
`if (context.shouldStripSourceNode(text) == false) append`), comments and PIs never do -/
def Node.textOf (sp : StripFn) : Node → String
  | .elem _ n kids => Node.textOfKids sp n kids
  | .text _ d => d
  | .comment _ _ => ""
  | .pi _ _ _ => ""
def Node.textOfKids (sp : StripFn) (pn : Option Tag) : List Node → String
  | [] => ""
  | k :: ks => (if k.stripped sp pn then "" else k.textOf sp) ++ Node.textOfKids sp pn ks
end

/-- string-value of a node (`DOMServices::getNodeData`) -/
def Node.strVal (sp : StripFn) : Node → String
  | .comment _ d => d
  | .pi _ _ d => d
  | n => n.textOf sp

end XalanModel.C13
