import XalanModel.C13.Tree
/-
C13 — strip-aware evaluator for an XPath fragment.

The evaluator asks `sp` exactly where the C++ asks `shouldStripSourceNode`:
* node tests `text()` and `node()` (`XPath::NodeTester::testText / testNode`, XPath.cpp:5021, 5076) —
  name tests, `*`, `comment()`, `processing-instruction()` never accept a text node;
* string-values (`DOMServices::doGetNodeData`, DOMServices.hpp:813-825).
Axes enumerate *all* nodes (the C++ walks `getFirstChild/getNextSibling/...` over every node and lets the
node test reject stripped text).  `position()`/`last()` are taken in the list that survives the node test
and the earlier predicates, in axis order; a step's results over all context nodes are merged into document
order without duplicates by node index (`MutableNodeRefList::addNodeInDocOrder`).

Numbers are integers (the fragment has `count`, `position`, `last`, `string-length`, literals, `+`, `-`);
anything that would need string→number conversion evaluates to `none` (outside the fragment), never to
a default.  Core Lean only.
-/
namespace XalanModel.C13

inductive Axis where
  | child | descendant | descendantOrSelf | followingSibling | precedingSibling | self | parent
  | ancestor | ancestorOrSelf | following | preceding | attrAxis | nsAxis
deriving Repr, DecidableEq, Inhabited

inductive Test where
  | name (q : QName)     -- QName / NCName test (principal node type element)
  | nsWild (uri : String)
  | anyElem              -- `*`
  | text | node | comment | pi
deriving Repr, DecidableEq, Inhabited

inductive Expr where
  | self                                            -- `.`
  | root                                            -- `/`
  | step (base : Expr) (ax : Axis) (t : Test)       -- `(base)/ax::t`
  | stepP (base : Expr) (ax : Axis) (t : Test) (p : Expr)            -- `(base)/ax::t[p]`
  | stepPP (base : Expr) (ax : Axis) (t : Test) (p q : Expr)         -- `(base)/ax::t[p][q]`
  | union (a b : Expr)                                               -- `a | b`
  | filter (e p : Expr)                                              -- `(e)[p]`  (positions in document order)
  | position | last
  | count (e : Expr) | string (e : Expr) | stringLength (e : Expr) | localName (e : Expr)
  | boolean (e : Expr) | not (e : Expr)
  | num (n : Int) | lit (s : String)
  | eq (a b : Expr) | lt (a b : Expr) | plus (a b : Expr) | minus (a b : Expr)
  | and (a b : Expr) | or (a b : Expr)
  | concat (a b : Expr) | contains (a b : Expr) | startsWith (a b : Expr)
  | normalizeSpace (e : Expr)
  | var (i : Nat)                       -- `$x`: the i-th variable in scope, innermost first
  | letIn (bind body : Expr)            -- `<xsl:variable select="bind"/>` followed by `body`
deriving Repr, Inhabited

/-- a member of a node-set: a tree node (element, text, comment, PI, document) at its location, or an attribute
node of the element at `owner`, or (`isNs`) a namespace node — which the library represents by the declaring
`xmlns` attribute node, so `owner` is the element that *declares* the prefix (name = ⟨"", prefix⟩, value = URI) -/
inductive XNode where
  | node (l : Loc)
  | attr (owner : Loc) (isNs : Bool) (id : Nat) (name : QName) (value : String)
deriving Repr, Inhabited

inductive Value where
  | ns (l : List XNode)
  | num (n : Int)
  | str (s : String)
  | bool (b : Bool)
deriving Repr, Inhabited

structure Ctx where
  node : XNode
  pos : Nat
  size : Nat
  vars : List Value       -- values of the variables in scope, innermost first
deriving Repr, Inhabited

def Axis.locs : Axis → Loc → List Loc
  | .child, l => l.children
  | .descendant, l => l.descendants
  | .descendantOrSelf, l => l :: l.descendants
  | .followingSibling, l => l.followingSiblings
  | .precedingSibling, l => l.precedingSiblings
  | .self, l => [l]
  | .parent, l => l.parent
  | .ancestor, l => l.ancestors
  | .ancestorOrSelf, l => l :: l.ancestors
  | .following, l => l.following
  | .preceding, l => l.preceding
  | .attrAxis, _ => []      -- attribute nodes are not tree nodes: see `Axis.xlocs`
  | .nsAxis, _ => []

/-- node test on a location; `sp` is consulted for `text()` and `node()` only -/
def Test.accepts (sp : StripFn) (t : Test) (l : Loc) : Bool :=
  match t, l.focus with
  | .name q, .elem _ (some n) _ => n.name == q
  | .nsWild u, .elem _ (some n) _ => n.name.uri == u
  | .anyElem, .elem _ (some _) _ => true
  | .text, .text _ _ => !l.stripped sp
  | .node, _ => !l.stripped sp
  | .comment, .comment _ _ => true
  | .pi, .pi _ _ _ => true
  | _, _ => false

def XNode.id : XNode → Nat
  | .node l => l.id
  | .attr _ _ i _ _ => i

/-- only a text node can be stripped; an attribute stands or falls with its owner location -/
def XNode.stripped (sp : StripFn) : XNode → Bool
  | .node l => l.stripped sp
  | .attr o _ _ _ _ => o.stripped sp

/-- the same node in the physically stripped document -/
def XNode.strip (sp : StripFn) : XNode → XNode
  | .node l => .node (l.strip sp)
  | .attr o k i q v => .attr (o.strip sp) k i q v

/-- insert into a list ordered by node index unless a node with that index is present
(`addNodeInDocOrder` for one indexed document) -/
def insertDocOrder (x : XNode) : List XNode → List XNode
  | [] => [x]
  | y :: ys =>
    if x.id < y.id then x :: y :: ys
    else if x.id = y.id then y :: ys
    else y :: insertDocOrder x ys

/-- document order, no duplicates -/
def docOrder (l : List XNode) : List XNode := l.foldr insertDocOrder []

/-- in-scope namespace declarations, nearest declaring element first; a prefix declared nearer shadows the same
prefix further out -/
def nsCollect : List Loc → List String → List XNode
  | [], _ => []
  | a :: rest, seen =>
    match a.focus with
    | .elem _ (some t) _ =>
      let fresh := t.nss.filter fun d => !seen.contains d.2.1
      fresh.map (fun d => XNode.attr a true d.1 ⟨"", d.2.1⟩ d.2.2) ++ nsCollect rest (seen ++ fresh.map (·.2.1))
    | _ => nsCollect rest seen

/-- namespace nodes of the element at `l` (none for other kinds of node), document order -/
def Loc.nsNodes (l : Loc) : List XNode :=
  match l.focus with
  | .elem _ (some _) _ => docOrder (nsCollect (l :: l.ancestors) [])
  | _ => []

/-- attribute nodes of the element at `l`, document order -/
def Loc.attrNodes (l : Loc) : List XNode :=
  match l.focus with
  | .elem _ (some t) _ => t.attrs.map fun a => .attr l false a.1 a.2.1 a.2.2
  | _ => []

/-- the axes from any kind of context node (XPath §2.2): an attribute has its owner as parent, no children and no
siblings; what follows it are the owner's descendants and whatever follows the owner -/
def Axis.xlocs : Axis → XNode → List XNode
  | .attrAxis, .node l => l.attrNodes
  | .nsAxis, .node l => l.nsNodes
  | ax, .node l => (ax.locs l).map .node
  | .self, .attr o k i q v => [.attr o k i q v]
  | .descendantOrSelf, .attr o k i q v => [.attr o k i q v]
  | .parent, .attr o _ _ _ _ => [.node o]
  | .ancestor, .attr o _ _ _ _ => (o :: o.ancestors).map .node
  | .ancestorOrSelf, .attr o k i q v => .attr o k i q v :: (o :: o.ancestors).map .node
  | .following, .attr o _ _ _ _ => (o.descendants ++ o.following).map .node
  | .preceding, .attr o _ _ _ _ => o.preceding.map .node
  | _, .attr _ _ _ _ _ => []

/-- principal node type of an axis (XPath §2.3) -/
inductive Principal where
  | elem | attr | ns
deriving DecidableEq, Repr, Inhabited

def Axis.isAttr : Axis → Principal
  | .attrAxis => .attr
  | .nsAxis => .ns
  | _ => .elem

/-- node test; `pr` is the principal node type of the step's axis (name tests and `*` select nodes of that type
and nothing else) -/
def Test.xaccepts (sp : StripFn) (pr : Principal) (t : Test) : XNode → Bool
  | .node l => pr == .elem && t.accepts sp l
  | .attr _ k _ q _ =>
    match t with
    | .name n => pr == (if k then .ns else .attr) && q == n
    | .nsWild u => pr == .attr && !k && q.uri == u
    | .anyElem => pr == (if k then .ns else .attr)
    | .node => true
    | _ => false

/-- the document node of the tree the node lives in -/
def XNode.root : XNode → XNode
  | .node l => .node l.root
  | .attr o _ _ _ _ => .node o.root

def Loc.strVal (sp : StripFn) (l : Loc) : String := l.focus.strVal sp

def XNode.strVal (sp : StripFn) : XNode → String
  | .node l => l.strVal sp
  | .attr _ _ _ _ v => v

def natToString (n : Nat) : String := toString n
def intToString (n : Int) : String := toString n

def Value.toStr (sp : StripFn) : Value → String
  | .ns [] => ""
  | .ns (l :: _) => l.strVal sp
  | .num n => intToString n
  | .str s => s
  | .bool b => if b then "true" else "false"

def Value.toBool : Value → Bool
  | .ns l => !l.isEmpty
  | .num n => n != 0
  | .str s => s != ""
  | .bool b => b

/-- `=` (XPath §3.4) on the combinations that need no string→number conversion -/
def valEq (sp : StripFn) : Value → Value → Option Bool
  | .ns a, .ns b => some (a.any fun x => b.any fun y => x.strVal sp == y.strVal sp)
  | .ns a, .str s => some (a.any fun x => x.strVal sp == s)
  | .str s, .ns a => some (a.any fun x => s == x.strVal sp)
  | .ns a, .bool b => some ((!a.isEmpty) == b)
  | .bool b, .ns a => some (b == !a.isEmpty)
  | .ns _, .num _ => none
  | .num _, .ns _ => none
  | .bool a, v => some (a == v.toBool)
  | v, .bool b => some (v.toBool == b)
  | .num a, .num b => some (a == b)
  | .num _, .str _ => none
  | .str _, .num _ => none
  | .str a, .str b => some (a == b)

/-- a predicate's value at proximity position `i` -/
def predTruth (v : Value) (i : Nat) : Bool :=
  match v with
  | .num n => n == (i : Int)
  | v => v.toBool

/-- keep the candidates (axis order) for which the predicate holds; `pred c i n` gets position and size -/
def filterPred (pred : XNode → Nat → Nat → Option Bool) (cands : List XNode) : Option (List XNode) :=
  let n := cands.length
  let rec go : List XNode → Nat → Option (List XNode)
    | [], _ => some []
    | c :: cs, i =>
      match pred c i n, go cs (i + 1) with
      | some true, some r => some (c :: r)
      | some false, some r => some r
      | _, _ => none
  go cands 1

/-- merge the per-context results of a step -/
def mergeStep (f : XNode → Option (List XNode)) : List XNode → Option (List XNode)
  | [] => some []
  | c :: cs =>
    match f c, mergeStep f cs with
    | some a, some b => some (a ++ b)
    | _, _ => none

def strLen (s : String) : Int := (s.length : Int)

def isSub (a b : List Char) : Bool :=    -- does `b` occur in `a`
  match a with
  | [] => b.isEmpty
  | _ :: t => b.isPrefixOf a || isSub t b

/-! ### the operations, one per expression form (the proofs treat them one by one) -/

/-- a location step: `cands x` are the nodes selected from context node `x` (axis order, after the node test
and the predicates); results over all context nodes merged into document order -/
def stepV (cands : XNode → Option (List XNode)) : Option Value → Option Value
  | some (.ns l) => (mergeStep cands l).map fun r => .ns (docOrder r)
  | _ => none

def unionV : Option Value → Option Value → Option Value
  | some (.ns a), some (.ns b) => some (.ns (docOrder (a ++ b)))
  | _, _ => none

/-- `(e)[p]`: the node-set in document order, filtered with positions in that order -/
def filterV (pred : XNode → Nat → Nat → Option Bool) : Option Value → Option Value
  | some (.ns l) => (filterPred pred l).map .ns
  | _ => none

/-- `normalize-space`: trim, and collapse every run of XML whitespace to one space -/
def normSpaceAux : List Char → Bool → List Char → List Char
  | [], _, acc => acc.reverse
  | c :: cs, pendingSpace, acc =>
    if isWsChar c then normSpaceAux cs (!acc.isEmpty) acc
    else normSpaceAux cs false (c :: (if pendingSpace then ' ' :: acc else acc))

def normSpace (s : String) : String := String.ofList (normSpaceAux s.toList false [])

def normSpaceV (sp : StripFn) (v : Option Value) : Option Value := v.map fun v => .str (normSpace (v.toStr sp))

def countV : Option Value → Option Value
  | some (.ns l) => some (.num l.length)
  | _ => none

def stringV (sp : StripFn) (v : Option Value) : Option Value := v.map fun v => .str (v.toStr sp)
def strlenV (sp : StripFn) (v : Option Value) : Option Value := v.map fun v => .num (strLen (v.toStr sp))

def localNameOf : XNode → String
  | .node l =>
    (match l.focus with
     | .elem _ (some n) _ => n.name.loc
     | .pi _ t _ => t
     | _ => "")
  | .attr _ _ _ q _ => q.loc

def localNameV : Option Value → Option Value
  | some (.ns []) => some (.str "")
  | some (.ns (l :: _)) => some (.str (localNameOf l))
  | _ => none

def boolV (v : Option Value) : Option Value := v.map fun v => .bool v.toBool
def notV (v : Option Value) : Option Value := v.map fun v => .bool (!v.toBool)

def eqV (sp : StripFn) : Option Value → Option Value → Option Value
  | some x, some y => (valEq sp x y).map .bool
  | _, _ => none

def numOp (f : Int → Int → Value) : Option Value → Option Value → Option Value
  | some (.num x), some (.num y) => some (f x y)
  | _, _ => none

def boolOp (f : Bool → Bool → Bool) : Option Value → Option Value → Option Value
  | some x, some y => some (.bool (f x.toBool y.toBool))
  | _, _ => none

def strOp (sp : StripFn) (f : String → String → Value) : Option Value → Option Value → Option Value
  | some x, some y => some (f (x.toStr sp) (y.toStr sp))
  | _, _ => none

/-- predicate `p` evaluated for candidate `y` at position `i` of `n` -/
def predFn (vars : List Value) (ev : Ctx → Option Value) : XNode → Nat → Nat → Option Bool :=
  fun y i n => (ev ⟨y, i, n, vars⟩).map (predTruth · i)

def Expr.eval (sp : StripFn) : Expr → Ctx → Option Value
  | .self, c => some (.ns [c.node])
  | .root, c => some (.ns [c.node.root])
  | .step base ax t, c =>
    stepV (fun x => some ((ax.xlocs x).filter (t.xaccepts sp ax.isAttr))) (base.eval sp c)
  | .stepP base ax t p, c =>
    stepV (fun x => filterPred (predFn c.vars (p.eval sp)) ((ax.xlocs x).filter (t.xaccepts sp ax.isAttr))) (base.eval sp c)
  | .stepPP base ax t p q, c =>
    stepV (fun x => (filterPred (predFn c.vars (p.eval sp)) ((ax.xlocs x).filter (t.xaccepts sp ax.isAttr))).bind
      (filterPred (predFn c.vars (q.eval sp)))) (base.eval sp c)
  | .union a b, c => unionV (a.eval sp c) (b.eval sp c)
  | .filter e p, c => filterV (predFn c.vars (p.eval sp)) (e.eval sp c)
  | .position, c => some (.num c.pos)
  | .last, c => some (.num c.size)
  | .count e, c => countV (e.eval sp c)
  | .string e, c => stringV sp (e.eval sp c)
  | .stringLength e, c => strlenV sp (e.eval sp c)
  | .localName e, c => localNameV (e.eval sp c)
  | .boolean e, c => boolV (e.eval sp c)
  | .not e, c => notV (e.eval sp c)
  | .num n, _ => some (.num n)
  | .lit s, _ => some (.str s)
  | .eq a b, c => eqV sp (a.eval sp c) (b.eval sp c)
  | .lt a b, c => numOp (fun x y => .bool (x < y)) (a.eval sp c) (b.eval sp c)
  | .plus a b, c => numOp (fun x y => .num (x + y)) (a.eval sp c) (b.eval sp c)
  | .minus a b, c => numOp (fun x y => .num (x - y)) (a.eval sp c) (b.eval sp c)
  | .and a b, c => boolOp (· && ·) (a.eval sp c) (b.eval sp c)
  | .or a b, c => boolOp (· || ·) (a.eval sp c) (b.eval sp c)
  | .concat a b, c => strOp sp (fun x y => .str (x ++ y)) (a.eval sp c) (b.eval sp c)
  | .contains a b, c => strOp sp (fun x y => .bool (isSub x.toList y.toList)) (a.eval sp c) (b.eval sp c)
  | .startsWith a b, c => strOp sp (fun x y => .bool (y.toList.isPrefixOf x.toList)) (a.eval sp c) (b.eval sp c)
  | .normalizeSpace e, c => normSpaceV sp (e.eval sp c)
  | .var i, c => c.vars[i]?
  | .letIn b body, c =>
    match b.eval sp c with
    | some v => body.eval sp ⟨c.node, c.pos, c.size, v :: c.vars⟩
    | none => none

/-! ### the correspondence between `D` and the physically stripped `D'` -/

/-- node-sets are carried over by `Loc.strip`; strings, numbers, booleans are unchanged -/
def Value.strip (sp : StripFn) : Value → Value
  | .ns l => .ns (l.map (XNode.strip sp))
  | v => v

def Ctx.strip (sp : StripFn) (c : Ctx) : Ctx := ⟨c.node.strip sp, c.pos, c.size, c.vars.map (Value.strip sp)⟩

end XalanModel.C13
