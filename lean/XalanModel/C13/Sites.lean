/-
C13 — the places where the library asks `shouldStripSourceNode`, and the statements that fix the order of the
tester list, as the model accounts for them.  `translate/c13_sites.py` regenerates the same two lists from
/repo's working tree on every run (`XalanModel.Generated.C13_Sites`); `Props.C13.observation_sites_accounted`
and `Props.C13.ordering_code_as_modelled` prove them equal, so a removed, added or re-worded call or a changed
comparison makes a named theorem fail.  Core Lean only.
-/
namespace XalanModel.C13

/-- (file, enclosing function, statement) — and where the model asks at the corresponding place:
1. string-value sent to a FormatterListener (`xsl:value-of` straight to the output)   → `Node.textOfKids`
2. string-value appended to a string                                                    → `Node.textOfKids`
3. forwarding `NodeTester → XPathExecutionContext`                                       → (plumbing)
4. `node()` node test                                                                   → `Test.accepts … .node`
5. `text()` node test                                                                   → `Test.accepts … .text`
6. forwarding `StylesheetExecutionContextDefault → StylesheetRoot`                       → (plumbing) `stripOf`
7. `xsl:copy-of` / `xsl:copy` of a text node                                             → `copyKidsEvents` -/
def expectedSites : List (String × String × String) := [
  ("DOMSupport/DOMServices.hpp",
   "doGetNodeData( const XalanText& text, ExecutionContext& context, FormatterListener& formatterListener, MemberFunctionPtr function)",
   "if (context.shouldStripSourceNode(text) == false)"),
  ("DOMSupport/DOMServices.hpp",
   "doGetNodeData( const XalanText& text, ExecutionContext& context, XalanDOMString& data)",
   "if (context.shouldStripSourceNode(text) == false)"),
  ("XPath/XPath.cpp",
   "XPath::NodeTester::shouldStripSourceNode(const XalanText& context)",
   "return m_executionContext->shouldStripSourceNode(context);"),
  ("XPath/XPath.cpp",
   "XPath::NodeTester::testNode( const XalanNode& context, XalanNode::NodeType nodeType)",
   "if (nodeType != XalanNode::TEXT_NODE || shouldStripSourceNode(static_cast<const XalanText&>(context)) == false)"),
  ("XPath/XPath.cpp",
   "XPath::NodeTester::testText( const XalanNode& context, XalanNode::NodeType nodeType)",
   "if (XalanNode::TEXT_NODE == nodeType && shouldStripSourceNode(static_cast<const XalanText&>(context)) == false)"),
  ("XSLT/StylesheetExecutionContextDefault.cpp",
   "StylesheetExecutionContextDefault::shouldStripSourceNode(const XalanText& node)",
   "return m_stylesheetRoot->shouldStripSourceNode(node);"),
  ("XSLT/XSLTEngineImpl.cpp",
   "XSLTEngineImpl::cloneToResultTree( const XalanText& node, bool overrideStrip)",
   "if (overrideStrip == true || m_executionContext->shouldStripSourceNode(node) == false)")
]

/-- the ordering / decision statements `Strip.lean` transcribes:
`addWhitespaceElementBy` (`score t ≥ score x` → insert before `x`), `Sheet.postImports` (`addImport` at the front,
merge loop from `m_imports.begin()` appending at `end()`), `firstMatch`/`shouldStrip` (first matching tester
decides: `eStrip` and `xml:space="preserve"` not in force; non-element or absent parent → false; no match →
false; guard on the two flags), `spacePreservedWalk` (`isXMLSpacePreserved`: from the parent upwards, the nearest
element with an `xml:space` attribute decides by comparing with "preserve"; none → false).
`xmlSpace` = the five statements of the walk; `firstMatch` = the return statement of the first matching tester. -/
def factsWith (firstMatch : String) (xmlSpace : List (String × String)) : List (String × String) := [
  ("addWhitespaceElement.compare", "if (theMatchScore >= (*i).getMatchScore())"),
  ("addWhitespaceElement.insert", "m_whitespaceElements.insert(i, theTester);"),
  ("addImport.insert", "m_imports.insert(m_imports.begin(), theStylesheet);"),
  ("postConstruction.merge",
   "m_whitespaceElements.insert( m_whitespaceElements.end(), (*i)->m_whitespaceElements.begin(), (*i)->m_whitespaceElements.end());"),
  ("postConstruction.mergeLoopStart", "StylesheetVectorType::iterator i = m_imports.begin();"),
  ("internalShouldStrip.firstMatch", firstMatch),
  ("internalShouldStrip.parentKind", "if (parent->getNodeType() == XalanNode::ELEMENT_NODE)"),
  ("internalShouldStrip.noParent", "if (parent == 0) return false;"),
  ("internalShouldStrip.default", "return false;")] ++ xmlSpace ++ [
  ("shouldStrip.guard",
   "if (hasPreserveOrStripSpaceElements() == true && theNode.isWhitespace() == true) { return internalShouldStripSourceNode(theNode); } return false;")
]

/-- the code as the model transcribes it (the `xml:space` walk is /repo 9b9e6f3) -/
def expectedFacts : List (String × String) :=
  factsWith
    "if (theTester(*theElement) != XPath::eMatchScoreNone) { return theTester.getType() == XalanSpaceNodeTester::eStrip && isXMLSpacePreserved(theElement) == false; }"
    [("xmlSpace.loop", "while (theElement != 0 && theElement->getNodeType() == XalanNode::ELEMENT_NODE)"),
     ("xmlSpace.lookup", "theAttributes->getNamedItem(Constants::ATTRNAME_XMLSPACE);"),
     ("xmlSpace.decide",
      "if (theSpaceAttribute != 0) { return equals( theSpaceAttribute->getNodeValue(), Constants::ATTRVAL_PRESERVE); }"),
     ("xmlSpace.ascend", "theElement = theElement->getParentNode();"),
     ("xmlSpace.default", "return false;")]

end XalanModel.C13
