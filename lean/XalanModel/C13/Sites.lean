/-
C13 — the places where the library asks `shouldStripSourceNode`, and the statements that fix the order of the
tester list, as the model accounts for them.  `translate/c13_sites.py` regenerates the same two lists from
/repo's working tree on every run (`XalanModel.Generated.C13_Sites`); `Props.C13.observation_sites_accounted`
and `Props.C13.ordering_code_as_modelled` prove them equal, so a removed, added or re-worded call or a changed
comparison makes a named theorem fail.  Core Lean only.
-/
namespace XalanModel.C13

/-- (file, enclosing function, statement) — and where the model asks at the corresponding place:
1. string-value sent to a FormatterListener (`xsl:value-of` straight to the output)   → `Node.textOfKids`
2. string-value appended to a string                                                    → `Node.textOfKids`
3. forwarding `NodeTester → XPathExecutionContext`                                       → (plumbing)
4. `node()` node test                                                                   → `Test.accepts … .node`
5. `text()` node test                                                                   → `Test.accepts … .text`
6. forwarding `StylesheetExecutionContextDefault → StylesheetRoot`                       → (plumbing) `stripOf`
7. `xsl:copy-of` / `xsl:copy` of a text node                                             → `copyKidsEvents` -/
def expectedSites : List (String × String × String) := [
  ("DOMSupport/DOMServices.hpp",
   "doGetNodeData( const XalanText& text, ExecutionContext& context, FormatterListener& formatterListener, MemberFunctionPtr function)",
   "if (context.shouldStripSourceNode(text) == false)"),
  ("DOMSupport/DOMServices.hpp",
   "doGetNodeData( const XalanText& text, ExecutionContext& context, XalanDOMString& data)",
   "if (context.shouldStripSourceNode(text) == false)"),
  ("XPath/XPath.cpp",
   "XPath::NodeTester::shouldStripSourceNode(const XalanText& context)",
   "return m_executionContext->shouldStripSourceNode(context);"),
  ("XPath/XPath.cpp",
   "XPath::NodeTester::testNode( const XalanNode& context, XalanNode::NodeType nodeType)",
   "if (nodeType != XalanNode::TEXT_NODE || shouldStripSourceNode(static_cast<const XalanText&>(context)) == false)"),
  ("XPath/XPath.cpp",
   "XPath::NodeTester::testText( const XalanNode& context, XalanNode::NodeType nodeType)",
   "if (XalanNode::TEXT_NODE == nodeType && shouldStripSourceNode(static_cast<const XalanText&>(context)) == false)"),
  ("XSLT/StylesheetExecutionContextDefault.cpp",
   "StylesheetExecutionContextDefault::shouldStripSourceNode(const XalanText& node)",
   "return m_stylesheetRoot->shouldStripSourceNode(node);"),
  ("XSLT/XSLTEngineImpl.cpp",
   "XSLTEngineImpl::cloneToResultTree( const XalanText& node, bool overrideStrip)",
   "if (overrideStrip == true || m_executionContext->shouldStripSourceNode(node) == false)")
]

/-- the ordering / decision statements `Strip.lean` transcribes:
`addWhitespaceElementBy` (`score t ≥ score x` → insert before `x`), `Sheet.postImports` (`addImport` at the front,
merge loop from `m_imports.begin()` appending at `end()`), `firstMatch`/`shouldStrip` (first matching tester
decides: `eStrip` and `xml:space="preserve"` not in force; non-element or absent parent → false; no match →
false; guard on the two flags), `spacePreservedWalk` (`isXMLSpacePreserved`: from the parent upwards, the nearest
element with an `xml:space` attribute decides by comparing with "preserve"; none → false).
`xmlSpace` = the five statements of the walk; `firstMatch` = the return statement of the first matching tester. -/
def factsWith (firstMatch : String) (xmlSpace : List (String × String)) : List (String × String) := [
  ("addWhitespaceElement.compare", "if (theMatchScore >= (*i).getMatchScore())"),
  ("addWhitespaceElement.insert", "m_whitespaceElements.insert(i, theTester);"),
  ("addImport.insert", "m_imports.insert(m_imports.begin(), theStylesheet);"),
  ("postConstruction.merge",
   "m_whitespaceElements.insert( m_whitespaceElements.end(), (*i)->m_whitespaceElements.begin(), (*i)->m_whitespaceElements.end());"),
  ("postConstruction.mergeLoopStart", "StylesheetVectorType::iterator i = m_imports.begin();"),
  ("internalShouldStrip.firstMatch", firstMatch),
  ("internalShouldStrip.parentKind", "if (parent->getNodeType() == XalanNode::ELEMENT_NODE)"),
  ("internalShouldStrip.noParent", "if (parent == 0) return false;"),
  ("internalShouldStrip.default", "return false;")] ++ xmlSpace ++ [
  ("shouldStrip.guard",
   "if (hasPreserveOrStripSpaceElements() == true && theNode.isWhitespace() == true) { return internalShouldStripSourceNode(theNode); } return false;")
]

/-- the code as the model transcribes it (the `xml:space` walk is /repo 9b9e6f3) -/
def expectedFacts : List (String × String) :=
  factsWith
    "if (theTester(*theElement) != XPath::eMatchScoreNone) { return theTester.getType() == XalanSpaceNodeTester::eStrip && isXMLSpacePreserved(theElement) == false; }"
    [("xmlSpace.loop", "while (theElement != 0 && theElement->getNodeType() == XalanNode::ELEMENT_NODE)"),
     ("xmlSpace.lookup", "theAttributes->getNamedItem(Constants::ATTRNAME_XMLSPACE);"),
     ("xmlSpace.decide",
      "if (theSpaceAttribute != 0) { return equals( theSpaceAttribute->getNodeValue(), Constants::ATTRVAL_PRESERVE); }"),
     ("xmlSpace.ascend", "theElement = theElement->getParentNode();"),
     ("xmlSpace.default", "return false;")]

/-! ### where string values are computed

Every observation of a string value must go through the strip-aware overloads of `DOMServices::getNodeData`
(those taking the execution context): this is what `Node.textOf / XNode.strVal sp` model, for `string()`, `key()`
with a node-set argument (one lookup per member's string value), `id()`, `normalize-space()`, `string-length()`,
`sum()`, `xsl:value-of`, sort keys and the `use` values of key tables alike.  The two lists below are the reviewed
state of the source: **outside DOMServices every site hands on the context ("ctx")**, except the ten listed
"noctx" sites, which are the context-free `str()` API of `XObject`/`XNodeSetBase` (no execution context exists
there), the trace listener's fallback, and `XResultTreeFrag` (result tree fragments are not source trees); **inside
the funnel every recursive call hands the context on**, except the attribute / comment / PI leaves and the
fast-path wrappers that first test `hasPreserveOrStripSpaceConditions()`. -/

def expectedValueSitesOutside : List (String × String × String × String) := [
  ("XPath/FunctionID.cpp", "FunctionID::FunctionIDXObjectTypeCallback::NodeSet( const XObject& /* theXObject */, const NodeRefListBase& theValue)",
   "getNodeData(*theValue.item(i), m_executionContext, m_resultString)", "ctx"),
  ("XPath/FunctionNormalizeSpace.cpp", "FunctionNormalizeSpace::execute( XPathExecutionContext& executionContext, XalanNode* context, const Locator* locator)",
   "getNodeData(*context, executionContext, theString)", "ctx"),
  ("XPath/FunctionString.cpp", "FunctionString::execute( XPathExecutionContext& executionContext, XalanNode* context, const Locator* locator)",
   "getNodeData(*context, executionContext, theString)", "ctx"),
  ("XPath/XNodeSetBase.cpp", "XNodeSetBase::XNodeSetBase( const XNodeSetBase& source, MemoryManager& theMemoryManager)",
   "getNodeData( *theNode, executionContext, m_cachedStringValue)", "ctx"),
  ("XPath/XNodeSetBase.cpp", "XNodeSetBase::XNodeSetBase( const XNodeSetBase& source, MemoryManager& theMemoryManager)",
   "getNodeData( *theNode, m_cachedStringValue)", "noctx"),
  ("XPath/XNodeSetBase.cpp", "XNodeSetBase::str( FormatterListener& formatterListener, MemberFunctionPtr function)",
   "getNodeData( *theNode, formatterListener, function)", "noctx"),
  ("XPath/XNodeSetBase.cpp", "XNodeSetBase::str( XPathExecutionContext& executionContext, FormatterListener& formatterListener, MemberFunctionPtr function)",
   "getNodeData( *theNode, executionContext, formatterListener, function)", "ctx"),
  ("XPath/XNodeSetBase.cpp", "XNodeSetBase::str( XPathExecutionContext& executionContext, XalanDOMString& theBuffer)",
   "getNodeData( *theNode, executionContext, theBuffer)", "ctx"),
  ("XPath/XNodeSetBase.cpp", "XNodeSetBase::str( XPathExecutionContext& executionContext, XalanDOMString& theBuffer)",
   "getNodeData( *theNode, executionContext, theCounter, &FormatterListener::characters)", "ctx"),
  ("XPath/XNodeSetBase.cpp", "XNodeSetBase::str( XPathExecutionContext& executionContext, XalanDOMString& theBuffer)",
   "getNodeData( *theNode, theBuffer)", "noctx"),
  ("XPath/XObject.cpp", "getStringFromNode( const XalanNode& theNode, XPathExecutionContext& theContext, XalanDOMString& theString)",
   "getNodeData(theNode, theContext, theString)", "ctx"),
  ("XPath/XObject.hpp", "string( const NodeRefListBase& theNodeList, FormatterListener& formatterListener, MemberFunctionPtr function)",
   "getNodeData(*theNodeList.item(0), formatterListener, function)", "noctx"),
  ("XPath/XObject.hpp", "string( const NodeRefListBase& theNodeList, XPathExecutionContext& theExecutionContext, FormatterListener& formatterListener, MemberFunctionPtr function)",
   "getNodeData( *theNodeList.item(0), theExecutionContext, formatterListener, function)", "ctx"),
  ("XPath/XObject.hpp", "string( const XalanNode& theNode, FormatterListener& formatterListener, MemberFunctionPtr function)",
   "getNodeData(theNode, formatterListener, function)", "noctx"),
  ("XPath/XObject.hpp", "string( const XalanNode& theNode, XPathExecutionContext& theExecutionContext, FormatterListener& formatterListener, MemberFunctionPtr function)",
   "getNodeData( theNode, theExecutionContext, formatterListener, function)", "ctx"),
  ("XPath/XObject.hpp", "string( const XalanNode& theNode, XPathExecutionContext& theExecutionContext, XalanDOMString& theString)",
   "getNodeData(theNode, theExecutionContext, theString)", "ctx"),
  ("XPath/XObject.hpp", "string( const XalanNode& theNode, XalanDOMString& theString)",
   "getNodeData(theNode, theString)", "noctx"),
  ("XPath/XPath.cpp", "XPath::functionStringLength( XalanNode* context, XPathExecutionContext& executionContext)",
   "getNodeData(*context, executionContext, theCounter, &FormatterListener::characters)", "ctx"),
  ("XPath/XPath.cpp", "XPath::functionSum( XalanNode* context, OpCodeMapPositionType opPos, XPathExecutionContext& executionContext)",
   "getNodeData(*theNodeList->item(i), executionContext, theString)", "ctx"),
  ("XSLT/ElemValueOf.cpp", "cdata( const XMLCh* const /* ch */, const size_type /* length */)",
   "getNodeData(*sourceNode, executionContext, theString.get())", "ctx"),
  ("XSLT/ElemValueOf.cpp", "cdata( const XMLCh* const /* ch */, const size_type /* length */)",
   "getNodeData(*sourceNode, executionContext, theString.get())", "ctx"),
  ("XSLT/FunctionDocument.cpp", "FunctionDocument::doExecute( XPathExecutionContext& executionContext, XalanNode* context, const XObjectPtr& arg, XalanDOMString* base, int argCount, const Locator* locator, bool fNoRelativeURI)",
   "getNodeData(*resolver, executionContext, ref)", "ctx"),
  ("XSLT/FunctionKey.cpp", "FunctionKey::execute( XPathExecutionContext& executionContext, XalanNode* context, const XObjectPtr arg1, const XObjectPtr arg2, const Locator* locator)",
   "getNodeData(*theNodeSet.item(i), executionContext, ref)", "ctx"),
  ("XSLT/KeyTable.cpp", "KeyTable::processKeyDeclaration( KeysMapType& theKeys, const KeyDeclaration& kd, XalanNode* testNode, const PrefixResolver& resolver, StylesheetExecutionContext& executionContext)",
   "getNodeData(*nl.item(i), executionContext, nodeData)", "ctx"),
  ("XSLT/NodeSorter.cpp", "getResult( const XPath* theXPath, XalanNode* theNode, const PrefixResolver& thePrefixResolver, XPathExecutionContext& theExecutionContext)",
   "getNodeData(*theNode, theExecutionContext, temp.get())", "ctx"),
  ("XSLT/NodeSorter.cpp", "getResult( const XPath* theXPath, XalanNode* theNode, const PrefixResolver& thePrefixResolver, XPathExecutionContext& theExecutionContext, XalanDOMString& theResult)",
   "getNodeData( *theNode, theExecutionContext, theResult)", "ctx"),
  ("XSLT/TraceListenerDefault.cpp", "TraceListenerDefault::processNodeList(const NodeRefListBase& nl)",
   "getNodeData(*nl.item(i), *m_executionContext, msg)", "ctx"),
  ("XSLT/TraceListenerDefault.cpp", "TraceListenerDefault::processNodeList(const NodeRefListBase& nl)",
   "getNodeData(*nl.item(i), msg)", "noctx"),
  ("XSLT/XResultTreeFrag.cpp", "XResultTreeFrag::XResultTreeFrag( const XResultTreeFrag& source, MemoryManager& theManager)",
   "getNodeData( *m_value, m_cachedStringValue)", "noctx"),
  ("XSLT/XResultTreeFrag.cpp", "XResultTreeFrag::str( FormatterListener& formatterListener, MemberFunctionPtr function)",
   "getNodeData( *m_value, formatterListener, function)", "noctx"),
  ("XSLT/XResultTreeFrag.cpp", "XResultTreeFrag::str( XPathExecutionContext& /* executionContext */, XalanDOMString& theBuffer)",
   "getNodeData( *m_value, executionContext, theCounter, &FormatterListener::characters)", "ctx"),
  ("XSLT/XResultTreeFrag.cpp", "XResultTreeFrag::str( XPathExecutionContext& /* executionContext */, XalanDOMString& theBuffer)",
   "getNodeData( *m_value, theBuffer)", "noctx"),
  ("XSLT/XSLTEngineImpl.cpp", "XSLTEngineImpl::characters(const XalanNode& node)",
   "getNodeData( node, *m_executionContext, *getFormatterListenerImpl(), &FormatterListener::cdata)", "ctx"),
  ("XSLT/XSLTEngineImpl.cpp", "XSLTEngineImpl::characters(const XalanNode& node)",
   "getNodeData( node, *m_executionContext, *getFormatterListenerImpl(), &FormatterListener::characters)", "ctx"),
  ("XSLT/XSLTEngineImpl.cpp", "XSLTEngineImpl::charactersRaw(const XalanNode& node)",
   "getNodeData( node, *m_executionContext, *getFormatterListenerImpl(), &FormatterListener::charactersRaw)", "ctx"),
  ("XSLT/XSLTEngineImpl.cpp", "XSLTEngineImpl::fireCharacterGenerateEvent( const XalanNode& theNode, bool isCDATA)",
   "getNodeData(theNode, *m_executionContext, theBuffer)", "ctx")
]

def expectedValueSitesFunnel : List (String × String × String × String) := [
  ("DOMSupport/DOMServices.cpp", "DOMServices::doGetNodeData( const XalanDocument& document, ExecutionContext& executionContext, FormatterListener& formatterListener, MemberFunctionPtr function)",
   "getChildrenData( document.getDocumentElement(), executionContext, formatterListener, function)", "ctx"),
  ("DOMSupport/DOMServices.cpp", "DOMServices::doGetNodeData( const XalanDocument& document, ExecutionContext& executionContext, XalanDOMString& data)",
   "getChildrenData( document.getDocumentElement(), executionContext, data)", "ctx"),
  ("DOMSupport/DOMServices.cpp", "DOMServices::doGetNodeData( const XalanDocumentFragment& documentFragment, ExecutionContext& executionContext, FormatterListener& formatterListener, MemberFunctionPtr function)",
   "getChildData(child, executionContext, formatterListener, function)", "ctx"),
  ("DOMSupport/DOMServices.cpp", "DOMServices::doGetNodeData( const XalanDocumentFragment& documentFragment, ExecutionContext& executionContext, XalanDOMString& data)",
   "getChildData(child, executionContext, data)", "ctx"),
  ("DOMSupport/DOMServices.cpp", "DOMServices::doGetNodeData( const XalanElement& element, ExecutionContext& executionContext, FormatterListener& formatterListener, MemberFunctionPtr function)",
   "getChildrenData( element.getFirstChild(), executionContext, formatterListener, function)", "ctx"),
  ("DOMSupport/DOMServices.cpp", "DOMServices::doGetNodeData( const XalanElement& element, ExecutionContext& executionContext, XalanDOMString& data)",
   "getChildrenData(element.getFirstChild(), executionContext, data)", "ctx"),
  ("DOMSupport/DOMServices.cpp", "DOMServices::doGetNodeData( const XalanNode& node, ExecutionContext& executionContext, FormatterListener& formatterListener, MemberFunctionPtr function)",
   "doGetNodeData(theDocument, executionContext, formatterListener, function)", "ctx"),
  ("DOMSupport/DOMServices.cpp", "DOMServices::doGetNodeData( const XalanNode& node, ExecutionContext& executionContext, FormatterListener& formatterListener, MemberFunctionPtr function)",
   "doGetNodeData(theDocumentFragment, executionContext, formatterListener, function)", "ctx"),
  ("DOMSupport/DOMServices.cpp", "DOMServices::doGetNodeData( const XalanNode& node, ExecutionContext& executionContext, FormatterListener& formatterListener, MemberFunctionPtr function)",
   "doGetNodeData(theElement, executionContext, formatterListener, function)", "ctx"),
  ("DOMSupport/DOMServices.cpp", "DOMServices::doGetNodeData( const XalanNode& node, ExecutionContext& executionContext, FormatterListener& formatterListener, MemberFunctionPtr function)",
   "doGetNodeData(theTextNode, executionContext, formatterListener, function)", "ctx"),
  ("DOMSupport/DOMServices.cpp", "DOMServices::doGetNodeData( const XalanNode& node, ExecutionContext& executionContext, FormatterListener& formatterListener, MemberFunctionPtr function)",
   "getNodeData(theAttr, formatterListener, function)", "noctx"),
  ("DOMSupport/DOMServices.cpp", "DOMServices::doGetNodeData( const XalanNode& node, ExecutionContext& executionContext, FormatterListener& formatterListener, MemberFunctionPtr function)",
   "getNodeData(theComment, formatterListener, function)", "noctx"),
  ("DOMSupport/DOMServices.cpp", "DOMServices::doGetNodeData( const XalanNode& node, ExecutionContext& executionContext, FormatterListener& formatterListener, MemberFunctionPtr function)",
   "getNodeData(thePI, formatterListener, function)", "noctx"),
  ("DOMSupport/DOMServices.cpp", "DOMServices::doGetNodeData( const XalanNode& node, ExecutionContext& executionContext, XalanDOMString& data)",
   "doGetNodeData(theDocument, executionContext, data)", "ctx"),
  ("DOMSupport/DOMServices.cpp", "DOMServices::doGetNodeData( const XalanNode& node, ExecutionContext& executionContext, XalanDOMString& data)",
   "doGetNodeData(theDocumentFragment, executionContext, data)", "ctx"),
  ("DOMSupport/DOMServices.cpp", "DOMServices::doGetNodeData( const XalanNode& node, ExecutionContext& executionContext, XalanDOMString& data)",
   "doGetNodeData(theElement, executionContext, data)", "ctx"),
  ("DOMSupport/DOMServices.cpp", "DOMServices::doGetNodeData( const XalanNode& node, ExecutionContext& executionContext, XalanDOMString& data)",
   "doGetNodeData(theTextNode, executionContext, data)", "ctx"),
  ("DOMSupport/DOMServices.cpp", "DOMServices::doGetNodeData( const XalanNode& node, ExecutionContext& executionContext, XalanDOMString& data)",
   "getNodeData(theAttr, data)", "noctx"),
  ("DOMSupport/DOMServices.cpp", "DOMServices::doGetNodeData( const XalanNode& node, ExecutionContext& executionContext, XalanDOMString& data)",
   "getNodeData(theComment, data)", "noctx"),
  ("DOMSupport/DOMServices.cpp", "DOMServices::doGetNodeData( const XalanNode& node, ExecutionContext& executionContext, XalanDOMString& data)",
   "getNodeData(thePI, data)", "noctx"),
  ("DOMSupport/DOMServices.cpp", "getChildData( const XalanNode* child, ExecutionContext& executionContext, FormatterListener& formatterListener, DOMServices::MemberFunctionPtr function)",
   "getNodeData(*theElementNode, executionContext, formatterListener, function)", "ctx"),
  ("DOMSupport/DOMServices.cpp", "getChildData( const XalanNode* child, ExecutionContext& executionContext, FormatterListener& formatterListener, DOMServices::MemberFunctionPtr function)",
   "getNodeData(*theTextNode, executionContext, formatterListener, function)", "ctx"),
  ("DOMSupport/DOMServices.cpp", "getChildData( const XalanNode* child, ExecutionContext& executionContext, XalanDOMString& data)",
   "doGetNodeData(*theElementNode, executionContext, data)", "ctx"),
  ("DOMSupport/DOMServices.cpp", "getChildData( const XalanNode* child, ExecutionContext& executionContext, XalanDOMString& data)",
   "doGetNodeData(*theTextNode, executionContext, data)", "ctx"),
  ("DOMSupport/DOMServices.cpp", "getChildrenData( const XalanNode* firstChild, ExecutionContext& executionContext, FormatterListener& formatterListener, DOMServices::MemberFunctionPtr function)",
   "getChildData(firstChild, executionContext, formatterListener, function)", "ctx"),
  ("DOMSupport/DOMServices.cpp", "getChildrenData( const XalanNode* firstChild, ExecutionContext& executionContext, XalanDOMString& data)",
   "getChildData(firstChild, executionContext, data)", "ctx"),
  ("DOMSupport/DOMServices.hpp", "getNodeData( const XalanDocument& document, ExecutionContext& context, FormatterListener& formatterListener, MemberFunctionPtr function)",
   "else : doGetNodeData(document, context, formatterListener, function)", "ctx"),
  ("DOMSupport/DOMServices.hpp", "getNodeData( const XalanDocument& document, ExecutionContext& context, FormatterListener& formatterListener, MemberFunctionPtr function)",
   "if (!context.hasPreserveOrStripSpaceConditions()) : getNodeData(document, formatterListener, function)", "noctx"),
  ("DOMSupport/DOMServices.hpp", "getNodeData( const XalanDocument& document, ExecutionContext& context, XalanDOMString& data)",
   "else : doGetNodeData(document, context, data)", "ctx"),
  ("DOMSupport/DOMServices.hpp", "getNodeData( const XalanDocument& document, ExecutionContext& context, XalanDOMString& data)",
   "if (!context.hasPreserveOrStripSpaceConditions()) : getNodeData(document, data)", "noctx"),
  ("DOMSupport/DOMServices.hpp", "getNodeData( const XalanDocumentFragment& documentFragment, ExecutionContext& context, FormatterListener& formatterListener, MemberFunctionPtr function)",
   "else : doGetNodeData(documentFragment, context, formatterListener, function)", "ctx"),
  ("DOMSupport/DOMServices.hpp", "getNodeData( const XalanDocumentFragment& documentFragment, ExecutionContext& context, FormatterListener& formatterListener, MemberFunctionPtr function)",
   "if (!context.hasPreserveOrStripSpaceConditions()) : getNodeData(documentFragment, formatterListener, function)", "noctx"),
  ("DOMSupport/DOMServices.hpp", "getNodeData( const XalanDocumentFragment& documentFragment, ExecutionContext& context, XalanDOMString& data)",
   "else : doGetNodeData(documentFragment, context, data)", "ctx"),
  ("DOMSupport/DOMServices.hpp", "getNodeData( const XalanDocumentFragment& documentFragment, ExecutionContext& context, XalanDOMString& data)",
   "if (!context.hasPreserveOrStripSpaceConditions()) : getNodeData(documentFragment, data)", "noctx"),
  ("DOMSupport/DOMServices.hpp", "getNodeData( const XalanElement& element, ExecutionContext& context, FormatterListener& formatterListener, MemberFunctionPtr function)",
   "else : doGetNodeData(element, context, formatterListener, function)", "ctx"),
  ("DOMSupport/DOMServices.hpp", "getNodeData( const XalanElement& element, ExecutionContext& context, FormatterListener& formatterListener, MemberFunctionPtr function)",
   "if (!context.hasPreserveOrStripSpaceConditions()) : getNodeData(element, formatterListener, function)", "noctx"),
  ("DOMSupport/DOMServices.hpp", "getNodeData( const XalanElement& element, ExecutionContext& context, XalanDOMString& data)",
   "else : doGetNodeData(element, context, data)", "ctx"),
  ("DOMSupport/DOMServices.hpp", "getNodeData( const XalanElement& element, ExecutionContext& context, XalanDOMString& data)",
   "if (!context.hasPreserveOrStripSpaceConditions()) : getNodeData(element, data)", "noctx"),
  ("DOMSupport/DOMServices.hpp", "getNodeData( const XalanNode& node, ExecutionContext& context, FormatterListener& formatterListener, MemberFunctionPtr function)",
   "else : doGetNodeData(node, context, formatterListener, function)", "ctx"),
  ("DOMSupport/DOMServices.hpp", "getNodeData( const XalanNode& node, ExecutionContext& context, FormatterListener& formatterListener, MemberFunctionPtr function)",
   "if (!context.hasPreserveOrStripSpaceConditions()) : getNodeData(node, formatterListener, function)", "noctx"),
  ("DOMSupport/DOMServices.hpp", "getNodeData( const XalanNode& node, ExecutionContext& context, XalanDOMString& data)",
   "else : doGetNodeData(node, context, data)", "ctx"),
  ("DOMSupport/DOMServices.hpp", "getNodeData( const XalanNode& node, ExecutionContext& context, XalanDOMString& data)",
   "if (!context.hasPreserveOrStripSpaceConditions()) : getNodeData(node, data)", "noctx"),
  ("DOMSupport/DOMServices.hpp", "getNodeData( const XalanText& text, ExecutionContext& context, FormatterListener& formatterListener, MemberFunctionPtr function)",
   "else : doGetNodeData(text, context, formatterListener, function)", "ctx"),
  ("DOMSupport/DOMServices.hpp", "getNodeData( const XalanText& text, ExecutionContext& context, FormatterListener& formatterListener, MemberFunctionPtr function)",
   "if (!context.hasPreserveOrStripSpaceConditions()) : getNodeData(text, formatterListener, function)", "noctx"),
  ("DOMSupport/DOMServices.hpp", "getNodeData( const XalanText& text, ExecutionContext& context, XalanDOMString& data)",
   "else : doGetNodeData(text, context, data)", "ctx"),
  ("DOMSupport/DOMServices.hpp", "getNodeData( const XalanText& text, ExecutionContext& context, XalanDOMString& data)",
   "if (!context.hasPreserveOrStripSpaceConditions()) : getNodeData(text, data)", "noctx")
]

/-! ### which execution context observers get

`StylesheetExecutionContextDefault` contains an inner `XPathExecutionContextDefault` whose
`shouldStripSourceNode` answers `false` and which reports no strip conditions.  Code that can observe nodes or
string values — extension functions (`xalan:distinct`, `xalan:evaluate`, EXSLT sets/strings/math/dynamic), match
pattern creation, key lookup, variable evaluation — must therefore run with the stylesheet context (`*this`), never
with the inner one.  The list is every statement of `StylesheetExecutionContextDefault.cpp` that touches the inner
context, reviewed: they delegate *services* only (current-node and context-node-list stacks, `isNodeAfter`,
node-list and string caches, scratch QName, prefix resolver, namespace lookup, document registry, unparsed entities,
`parseXML`, `doFormatNumber`, element/function availability); `extFunction` fetches the environment support from the
inner context but calls it with `*this`. -/

def expectedContextForwarding : List (String × String) := [
  ("StylesheetExecutionContextDefault::formatNumber",
   "m_xpathExecutionContextDefault.doFormatNumber( number, pattern, theDFS, theResult, context, locator);"),
  ("StylesheetExecutionContextDefault::formatNumber",
   "XalanQNameByValue& theDFSQName = m_xpathExecutionContextDefault.getScratchQName();"),
  ("StylesheetExecutionContextDefault::formatNumber",
   "m_xpathExecutionContextDefault.doFormatNumber(number,pattern,theDFS,theResult,context,locator);"),
  ("StylesheetExecutionContextDefault::reset",
   "m_xpathExecutionContextDefault.reset();"),
  ("StylesheetExecutionContextDefault::getCurrentNode",
   "return m_xpathExecutionContextDefault.getCurrentNode();"),
  ("StylesheetExecutionContextDefault::pushCurrentNode",
   "m_xpathExecutionContextDefault.pushCurrentNode(theCurrentNode);"),
  ("StylesheetExecutionContextDefault::popCurrentNode",
   "m_xpathExecutionContextDefault.popCurrentNode();"),
  ("StylesheetExecutionContextDefault::isNodeAfter",
   "return m_xpathExecutionContextDefault.isNodeAfter(node1, node2);"),
  ("StylesheetExecutionContextDefault::pushContextNodeList",
   "m_xpathExecutionContextDefault.pushContextNodeList(theContextNodeList);"),
  ("StylesheetExecutionContextDefault::popContextNodeList",
   "m_xpathExecutionContextDefault.popContextNodeList();"),
  ("StylesheetExecutionContextDefault::getContextNodeList",
   "return m_xpathExecutionContextDefault.getContextNodeList();"),
  ("StylesheetExecutionContextDefault::getContextNodeListLength",
   "return m_xpathExecutionContextDefault.getContextNodeListLength();"),
  ("StylesheetExecutionContextDefault::getContextNodeListPosition",
   "return m_xpathExecutionContextDefault.getContextNodeListPosition(contextNode);"),
  ("StylesheetExecutionContextDefault::elementAvailable",
   "return m_xpathExecutionContextDefault.elementAvailable(theQName);"),
  ("StylesheetExecutionContextDefault::elementAvailable",
   "XalanQNameByValue& theQName = m_xpathExecutionContextDefault.getScratchQName();"),
  ("StylesheetExecutionContextDefault::functionAvailable",
   "return m_xpathExecutionContextDefault.functionAvailable(theQName);"),
  ("StylesheetExecutionContextDefault::functionAvailable",
   "return m_xpathExecutionContextDefault.functionAvailable(theName, theLocator);"),
  ("StylesheetExecutionContextDefault::extFunction",
   "assert(m_xpathExecutionContextDefault.getXPathEnvSupport() != 0);"),
  ("StylesheetExecutionContextDefault::extFunction",
   "return m_xpathExecutionContextDefault.getXPathEnvSupport()->extFunction(*this, theNamespace, functionName, context, argVec, locator);"),
  ("StylesheetExecutionContextDefault::parseXML",
   "return m_xpathExecutionContextDefault.parseXML( theManager, urlString, base, theErrorHandler);"),
  ("StylesheetExecutionContextDefault::borrowMutableNodeRefList",
   "return m_xpathExecutionContextDefault.borrowMutableNodeRefList();"),
  ("StylesheetExecutionContextDefault::returnMutableNodeRefList",
   "return m_xpathExecutionContextDefault.returnMutableNodeRefList(theList);"),
  ("StylesheetExecutionContextDefault::createMutableNodeRefList",
   "return m_xpathExecutionContextDefault.createMutableNodeRefList(theManager);"),
  ("StylesheetExecutionContextDefault::getCachedString",
   "return m_xpathExecutionContextDefault.getCachedString();"),
  ("StylesheetExecutionContextDefault::releaseCachedString",
   "return m_xpathExecutionContextDefault.releaseCachedString(theString);"),
  ("StylesheetExecutionContextDefault::getPrefixResolver",
   "return m_xpathExecutionContextDefault.getPrefixResolver();"),
  ("StylesheetExecutionContextDefault::setPrefixResolver",
   "m_xpathExecutionContextDefault.setPrefixResolver(thePrefixResolver);"),
  ("StylesheetExecutionContextDefault::getNamespaceForPrefix",
   "return m_xpathExecutionContextDefault.getNamespaceForPrefix(prefix);"),
  ("StylesheetExecutionContextDefault::findURIFromDoc",
   "return m_xpathExecutionContextDefault.findURIFromDoc(owner);"),
  ("StylesheetExecutionContextDefault::getUnparsedEntityURI",
   "return m_xpathExecutionContextDefault.getUnparsedEntityURI(theName, theDocument);"),
  ("StylesheetExecutionContextDefault::getSourceDocument",
   "return m_xpathExecutionContextDefault.getSourceDocument(theURI);"),
  ("StylesheetExecutionContextDefault::setSourceDocument",
   "m_xpathExecutionContextDefault.setSourceDocument(theURI, theDocument);"),
  ("XPathExecutionContextDefault::shouldStripSourceNode",
   "{ return false; }")
]

end XalanModel.C13
