/-
C13 — which whitespace-only text nodes are stripped.

Mirrors, as written:
* `XPath::NodeTester::initialize(uri, local)` (XPath.cpp:4947-4984): the four kinds of element name
  test of `xsl:strip-space/@elements` and their match score;
* `testElementNCName2 / testElementQName2 / testElementNamespaceOnly2 / testElementTotallyWild2`
  with `matchLocalName`, `matchLocalNameAndNamespaceURI`, `matchNamespaceURI` (XPath.cpp:5280-5430);
* `Stylesheet::addWhitespaceElement` (Stylesheet.cpp:509-530): ordered insert by match score;
* `Stylesheet::addImport` (Stylesheet.hpp:479-483: insert at the *front* of `m_imports`) and
  `Stylesheet::postConstruction` (Stylesheet.cpp:533-597): the imported sheets' lists are appended, in
  `m_imports` order, after the importing sheet's own list;
* `StylesheetRoot::shouldStripSourceNode / internalShouldStripSourceNode` (StylesheetRoot.hpp:432-442,
  StylesheetRoot.cpp:895-932): first matching tester decides; only whitespace text with an element parent.

Next to it the specification of XSLT 1.0 §3.4 + §2.6.2 (`specStrip`).
Core Lean only (the driver imports this file).
-/
namespace XalanModel.C13

/-- expanded name of an element; `uri = ""` means no namespace -/
structure QName where
  uri : String
  loc : String
deriving DecidableEq, Repr, Inhabited

/-- `XPath::eMatchScore` restricted to the values `NodeTester::initialize(uri, local)` can return, in the
order of the enum (`eMatchScoreNone < eMatchScoreNodeTest < eMatchScoreNSWild < eMatchScoreQName`). -/
abbrev Score := Nat
def scoreNone : Score := 0
def scoreNodeTest : Score := 1
def scoreNSWild : Score := 2
def scoreQName : Score := 3

/-- One entry of `m_whitespaceElements` (a `XalanSpaceNodeTester`): the pair handed to
`NodeTester::initialize(theNamespaceURI, theLocalName)` (empty string = absent) and `m_type`. -/
structure Tester where
  uri : String
  loc : String
  strip : Bool          -- eStrip (true) / ePreserve (false)
deriving DecidableEq, Repr, Inhabited

/-- `NodeTester::initialize(uri, local)`: the returned match score (which also selects the test function). -/
def Tester.score (t : Tester) : Score :=
  if t.uri ≠ "" then
    if t.loc = "" then scoreNSWild else scoreQName
  else if t.loc ≠ "" then scoreQName
  else scoreNodeTest

/-- `theTester(*theElement) != eMatchScoreNone` — the test function selected by `initialize`. -/
def Tester.matches (t : Tester) (e : QName) : Bool :=
  if t.uri ≠ "" then
    if t.loc = "" then e.uri == t.uri                       -- testElementNamespaceOnly2 / matchNamespaceURI
    else e.loc == t.loc && e.uri == t.uri                   -- testElementQName2 / matchLocalNameAndNamespaceURI
  else if t.loc ≠ "" then e.uri == "" && e.loc == t.loc      -- testElementNCName2 / matchLocalName
  else true                                                 -- testElementTotallyWild2

/-- `Stylesheet::addWhitespaceElement`: walk from the front while the new score is smaller than the
entry's; insert before the first entry whose score is `≤` the new one.  Generic in the payload so that the
proofs can run it on labelled entries. -/
def addWhitespaceElementBy {α : Type} (score : α → Score) : List α → α → List α
  | [], t => [t]
  | x :: xs, t => if score t ≥ score x then t :: x :: xs else x :: addWhitespaceElementBy score xs t

def addWhitespaceElement (l : List Tester) (t : Tester) : List Tester :=
  addWhitespaceElementBy Tester.score l t

/-- A stylesheet module as the handler sees it: the testers of its `xsl:strip-space`/`xsl:preserve-space`
elements (one per token of `@elements`, document order; `xsl:include`d modules are spliced in where they
occur because the handler parses them into the same `Stylesheet` object) and its `xsl:import`s in document
order. -/
inductive Sheet where
  | mk (decls : List Tester) (imports : List Sheet)
deriving Repr, Inhabited

/-- the sheet's own `m_whitespaceElements` after parsing: `addWhitespaceElement` per token -/
def ownList (decls : List Tester) : List Tester :=
  decls.foldl addWhitespaceElement []

mutual
/-- `m_whitespaceElements` of a sheet after `postConstruction`: own list, then every import's merged list
in `m_imports` order. -/
def Sheet.post : Sheet → List Tester
  | .mk decls imports => ownList decls ++ Sheet.postImports imports
/-- `imports` is in document order; `m_imports` is its reverse (`addImport` inserts at `begin()`), and the
merge loop walks `m_imports` front to back: the *last* `xsl:import` contributes first. -/
def Sheet.postImports : List Sheet → List Tester
  | [] => []
  | s :: rest => Sheet.postImports rest ++ Sheet.post s
end

/-- the decision a (possibly absent) deciding tester stands for: `eStrip` → strip; none → keep -/
def decides : Option Tester → Bool
  | some t => t.strip
  | none => false

/-- `StylesheetRoot::internalShouldStripSourceNode` for an element parent: first matching tester decides. -/
def firstMatch (ws : List Tester) (parent : QName) : Bool :=
  decides (ws.find? (fun t => t.matches parent))

/-! ### `xml:space` in the source (XSLT §3.4, third bullet) -/

/-- `isXMLSpacePreserved` (StylesheetRoot.cpp): walk from the parent element upwards; the nearest element that
carries an `xml:space` attribute decides (`"preserve"` → true, any other value → false); none → false.
The argument lists the attribute of the parent and of its ancestors, nearest first:
`some true` = `"preserve"`, `some false` = another value (`"default"`), `none` = no attribute. -/
def spacePreservedWalk : List (Option Bool) → Bool
  | [] => false
  | some b :: _ => b
  | none :: rest => spacePreservedWalk rest

/-- §3.4: "an ancestor element of the text node has an xml:space attribute with a value of preserve, and no
closer ancestor element has xml:space with a value of default" -/
def specSpacePreserved (chain : List (Option Bool)) : Bool :=
  (chain.takeWhile (· != some false)).contains (some true)

/-- the state a parser hands down while building the tree: an element's own attribute, else its parent's state -/
def inheritSpace (parentState : Bool) (own : Option Bool) : Bool :=
  match own with
  | some b => b
  | none => parentState

/-- What the decision needs to know about the parent element of a text node: its expanded name and whether
`xml:space="preserve"` is in force there (`spacePreservedWalk` of its ancestor-or-self chain). -/
structure Tag where
  name : QName
  preserve : Bool := false
  /-- the element's attribute nodes (document-order index, expanded name, value), namespace declarations excluded;
  stripping never touches them -/
  attrs : List (Nat × QName × String) := []
  /-- the namespace declarations written on this element (document-order index, prefix, URI); the document element
  also carries the implicit `xml` declaration.  Namespace nodes precede attribute nodes in document order. -/
  nss : List (Nat × String × String) := []
deriving DecidableEq, Repr, Inhabited

/-- `StylesheetRoot::shouldStripSourceNode(text)`: `parent = none` for a text node whose parent is not an
element (or absent); `isWs` is the precomputed `XalanText::isWhitespace()` flag.  A matching `eStrip` tester
strips unless `xml:space="preserve"` is in force (`… == eStrip && isXMLSpacePreserved(theElement) == false`). -/
def shouldStrip (ws : List Tester) (parent : Option Tag) (isWs : Bool) : Bool :=
  if !ws.isEmpty && isWs then            -- hasPreserveOrStripSpaceElements() && isWhitespace()
    match parent with
    | none => false
    | some p => firstMatch ws p.name && !p.preserve
  else false

/-! ## Specification (XSLT 1.0 §2.6.2 import precedence, §3.4 whitespace stripping) -/

mutual
/-- §2.6.2: "the import tree is traversed in post-order; a stylesheet visited earlier has lower import
precedence".  Lowest precedence first. -/
def Sheet.postorder : Sheet → List (List Tester)
  | .mk decls imports => Sheet.postorderList imports ++ [decls]
def Sheet.postorderList : List Sheet → List (List Tester)
  | [] => []
  | s :: rest => Sheet.postorder s ++ Sheet.postorderList rest
end

/-- §3.4 within one import precedence: among the matching name tests the one with the highest default
priority wins; of several with that priority the one that occurs last (the permitted recovery). -/
def bestIn (parent : QName) (decls : List Tester) : Option Tester :=
  decls.foldl (fun best t =>
    if t.matches parent then
      match best with
      | none => some t
      | some b => if t.score ≥ b.score then some t else some b
    else best) none

/-- §3.4: the matching declaration of highest import precedence decides; no match = preserved. -/
def specWinner (s : Sheet) (parent : QName) : Option Tester :=
  s.postorder.reverse.findSome? (bestIn parent)

def specStrip (s : Sheet) (parent : Option Tag) (isWs : Bool) : Bool :=
  match parent with
  | none => false
  | some p => isWs && decides (specWinner s p.name) && !p.preserve

/-- XML whitespace: `isXMLWhitespace` — space, tab, CR, LF only -/
def isWsChar (c : Char) : Bool := c == ' ' || c == '\t' || c == '\n' || c == '\r'
def isWsString (s : String) : Bool := s.toList.all isWsChar

end XalanModel.C13
