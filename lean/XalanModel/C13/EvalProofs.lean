import XalanModel.C13.TreeProofs
/-
Helper lemmas for `strip_simulation`: every operation of the evaluator commutes with `Value.strip`, and
node-set results never contain a stripped node; then the induction over expressions (`eval_sim`).
-/
namespace XalanModel.C13

/-! ### members of node-sets -/

theorem XNode.strip_id (sp : StripFn) (x : XNode) : (x.strip sp).id = x.id := by
  cases x with
  | node l => exact Loc.strip_id sp l
  | attr o k i q v => rfl

theorem XNode.strVal_strip (sp : StripFn) (x : XNode) : (x.strip sp).strVal noStrip = x.strVal sp := by
  cases x with
  | node l => exact Loc.strVal_strip sp l
  | attr o k i q v => rfl

/-! ### document order -/

theorem insertDocOrder_map (sp : StripFn) (x : XNode) (ys : List XNode) :
    insertDocOrder (x.strip sp) (ys.map (XNode.strip sp)) = (insertDocOrder x ys).map (XNode.strip sp) := by
  induction ys with
  | nil => rfl
  | cons y ys ih =>
    simp only [List.map_cons, insertDocOrder, XNode.strip_id]
    split
    · rfl
    · split
      · rfl
      · simp [ih]

theorem docOrder_map (sp : StripFn) (l : List XNode) :
    docOrder (l.map (XNode.strip sp)) = (docOrder l).map (XNode.strip sp) := by
  induction l with
  | nil => rfl
  | cons x xs ih =>
    simp only [docOrder, List.map_cons, List.foldr_cons] at ih ⊢
    rw [ih, insertDocOrder_map]

theorem mem_insertDocOrder (x a : XNode) (ys : List XNode) (h : a ∈ insertDocOrder x ys) : a = x ∨ a ∈ ys := by
  induction ys with
  | nil => simp [insertDocOrder] at h; exact Or.inl h
  | cons y ys ih =>
    simp only [insertDocOrder] at h
    split at h
    · rcases List.mem_cons.mp h with h | h
      · exact Or.inl h
      · exact Or.inr h
    · split at h
      · exact Or.inr h
      · rcases List.mem_cons.mp h with h | h
        · exact Or.inr (by simp [h])
        · rcases ih h with h | h
          · exact Or.inl h
          · exact Or.inr (List.mem_cons_of_mem _ h)

theorem mem_docOrder (a : XNode) (l : List XNode) (h : a ∈ docOrder l) : a ∈ l := by
  induction l with
  | nil => simp [docOrder] at h
  | cons x xs ih =>
    simp only [docOrder, List.foldr_cons] at h ih
    rcases mem_insertDocOrder x a _ h with h | h
    · simp [h]
    · exact List.mem_cons_of_mem _ (ih h)

theorem attrNodes_strip (sp : StripFn) (l : Loc) : (l.strip sp).attrNodes = l.attrNodes.map (XNode.strip sp) := by
  obtain ⟨focus, path⟩ := l
  cases focus with
  | elem i n kids =>
    cases n with
    | none => rfl
    | some t => simp [Loc.attrNodes, Loc.strip, Node.strip, XNode.strip]
  | text i d => rfl
  | comment i d => rfl
  | pi i t d => rfl

theorem attrNodes_keep (sp : StripFn) (l : Loc) (h : l.stripped sp = false) :
    ∀ x ∈ l.attrNodes, x.stripped sp = false := by
  obtain ⟨focus, path⟩ := l
  cases focus with
  | elem i n kids =>
    cases n with
    | none => simp [Loc.attrNodes]
    | some t =>
      intro x hx
      simp only [Loc.attrNodes, List.mem_map] at hx
      obtain ⟨a, _, rfl⟩ := hx
      exact h
  | text i d => simp [Loc.attrNodes]
  | comment i d => simp [Loc.attrNodes]
  | pi i t d => simp [Loc.attrNodes]

theorem nsCollect_strip (sp : StripFn) : ∀ (L : List Loc) (seen : List String),
    nsCollect (L.map (Loc.strip sp)) seen = (nsCollect L seen).map (XNode.strip sp)
  | [], _ => rfl
  | a :: rest, seen => by
    obtain ⟨focus, path⟩ := a
    cases focus with
    | elem i n kids =>
      cases n with
      | none => simp [nsCollect, Loc.strip, Node.strip, nsCollect_strip sp rest seen]
      | some t =>
        simp only [List.map_cons, nsCollect, Loc.strip, Node.strip, List.map_append, List.map_map]
        rw [nsCollect_strip sp rest]
        simp [Function.comp_def, XNode.strip, Loc.strip, Node.strip]
    | text i d => simp [nsCollect, Loc.strip, Node.strip, nsCollect_strip sp rest seen]
    | comment i d => simp [nsCollect, Loc.strip, Node.strip, nsCollect_strip sp rest seen]
    | pi i t d => simp [nsCollect, Loc.strip, Node.strip, nsCollect_strip sp rest seen]

theorem nsCollect_keep (sp : StripFn) : ∀ (L : List Loc) (seen : List String),
    (∀ a ∈ L, a.stripped sp = false) → ∀ x ∈ nsCollect L seen, x.stripped sp = false
  | [], _, _, x, hx => by simp [nsCollect] at hx
  | a :: rest, seen, h, x, hx => by
    have ha := h a (by simp)
    have hr : ∀ b ∈ rest, b.stripped sp = false := fun b hb => h b (List.mem_cons_of_mem _ hb)
    obtain ⟨focus, path⟩ := a
    cases focus with
    | elem i n kids =>
      cases n with
      | none => exact nsCollect_keep sp rest seen hr x (by simpa [nsCollect] using hx)
      | some t =>
        simp only [nsCollect, List.mem_append, List.mem_map] at hx
        rcases hx with ⟨d, _, rfl⟩ | hx
        · exact ha
        · exact nsCollect_keep sp rest _ hr x hx
    | text i d => exact nsCollect_keep sp rest seen hr x (by simpa [nsCollect] using hx)
    | comment i d => exact nsCollect_keep sp rest seen hr x (by simpa [nsCollect] using hx)
    | pi i t d => exact nsCollect_keep sp rest seen hr x (by simpa [nsCollect] using hx)

theorem nsNodes_strip (sp : StripFn) (l : Loc) (h : l.stripped sp = false) :
    (l.strip sp).nsNodes = l.nsNodes.map (XNode.strip sp) := by
  have hanc : (l :: l.ancestors).map (Loc.strip sp) = l.strip sp :: (l.strip sp).ancestors := by
    have := selfAndAncestors_strip sp l h
    rwa [List.filter_eq_self.mpr (fun x hx => selfAndAncestors_keep sp l h x hx)] at this
  obtain ⟨focus, path⟩ := l
  cases focus with
  | elem i n kids =>
    cases n with
    | none => rfl
    | some t =>
      simp only [Loc.nsNodes, Loc.strip, Node.strip]
      rw [← docOrder_map]
      congr 1
      rw [← nsCollect_strip]
      congr 1
      simpa [Loc.strip, Node.strip] using hanc.symm
  | text i d => rfl
  | comment i d => rfl
  | pi i t d => rfl

theorem nsNodes_keep (sp : StripFn) (l : Loc) (h : l.stripped sp = false) :
    ∀ x ∈ l.nsNodes, x.stripped sp = false := by
  intro x hx
  obtain ⟨focus, path⟩ := l
  cases focus with
  | elem i n kids =>
    cases n with
    | none => simp [Loc.nsNodes] at hx
    | some t =>
      simp only [Loc.nsNodes] at hx
      refine nsCollect_keep sp _ [] ?_ x (mem_docOrder x _ hx)
      intro a ha
      have := selfAndAncestors_keep sp ⟨.elem i (some t) kids, path⟩ h a ha
      simpa [keep] using this
  | text i d => simp [Loc.nsNodes] at hx
  | comment i d => simp [Loc.nsNodes] at hx
  | pi i t d => simp [Loc.nsNodes] at hx

def keepX (sp : StripFn) (x : XNode) : Bool := !x.stripped sp

theorem map_node_filter (sp : StripFn) (L : List Loc) :
    ((L.map XNode.node).filter (keepX sp)).map (XNode.strip sp)
      = (((L.filter (keep sp)).map (Loc.strip sp)).map XNode.node) := by
  induction L with
  | nil => rfl
  | cons a as ih =>
    by_cases h : a.stripped sp = true
    · simp [keepX, XNode.stripped, keep, h, ← ih]
    · have h' : a.stripped sp = false := (Bool.not_eq_true _).mp h
      simp only [List.map_cons, List.filter_cons, keepX, XNode.stripped, keep, h', Bool.not_false, if_true,
        XNode.strip, List.cons.injEq, true_and]
      simpa [keepX, keep] using ih

/-- every axis from every kind of context node commutes with stripping -/
theorem xaxis_strip (sp : StripFn) (ax : Axis) (x : XNode) (h : x.stripped sp = false) :
    ((ax.xlocs x).filter (keepX sp)).map (XNode.strip sp) = ax.xlocs (x.strip sp) := by
  cases x with
  | node l =>
    have hl : l.stripped sp = false := h
    cases ax with
    | attrAxis =>
      simp only [Axis.xlocs, XNode.strip]
      rw [attrNodes_strip]
      congr 1
      apply List.filter_eq_self.mpr
      intro y hy
      simp [keepX, attrNodes_keep sp l hl y hy]
    | nsAxis =>
      simp only [Axis.xlocs, XNode.strip]
      rw [nsNodes_strip sp l hl]
      congr 1
      apply List.filter_eq_self.mpr
      intro y hy
      simp [keepX, nsNodes_keep sp l hl y hy]
    | child => simp only [Axis.xlocs, XNode.strip]; rw [map_node_filter, axis_strip sp .child l hl]
    | descendant => simp only [Axis.xlocs, XNode.strip]; rw [map_node_filter, axis_strip sp .descendant l hl]
    | descendantOrSelf => simp only [Axis.xlocs, XNode.strip]; rw [map_node_filter, axis_strip sp .descendantOrSelf l hl]
    | followingSibling => simp only [Axis.xlocs, XNode.strip]; rw [map_node_filter, axis_strip sp .followingSibling l hl]
    | precedingSibling => simp only [Axis.xlocs, XNode.strip]; rw [map_node_filter, axis_strip sp .precedingSibling l hl]
    | self => simp only [Axis.xlocs, XNode.strip]; rw [map_node_filter, axis_strip sp .self l hl]
    | parent => simp only [Axis.xlocs, XNode.strip]; rw [map_node_filter, axis_strip sp .parent l hl]
    | ancestor => simp only [Axis.xlocs, XNode.strip]; rw [map_node_filter, axis_strip sp .ancestor l hl]
    | ancestorOrSelf => simp only [Axis.xlocs, XNode.strip]; rw [map_node_filter, axis_strip sp .ancestorOrSelf l hl]
    | following => simp only [Axis.xlocs, XNode.strip]; rw [map_node_filter, axis_strip sp .following l hl]
    | preceding => simp only [Axis.xlocs, XNode.strip]; rw [map_node_filter, axis_strip sp .preceding l hl]
  | attr o k i q v =>
    have ho : o.stripped sp = false := h
    have hk : keep sp o = true := by simp [keep, ho]
    cases ax with
    | attrAxis => rfl
    | nsAxis => rfl
    | child => rfl
    | descendant => rfl
    | followingSibling => rfl
    | precedingSibling => rfl
    | self => simp [Axis.xlocs, keepX, XNode.stripped, ho, XNode.strip]
    | descendantOrSelf => simp [Axis.xlocs, keepX, XNode.stripped, ho, XNode.strip]
    | parent =>
      simp [Axis.xlocs, keepX, XNode.stripped, ho, XNode.strip]
    | ancestor =>
      simp only [Axis.xlocs, XNode.strip]
      rw [map_node_filter, selfAndAncestors_strip sp o ho]
    | ancestorOrSelf =>
      have hkx : keepX sp (.attr o k i q v) = true := by simp [keepX, XNode.stripped, ho]
      have hm := map_node_filter sp (o :: o.ancestors)
      rw [selfAndAncestors_strip sp o ho] at hm
      show List.map (XNode.strip sp) (List.filter (keepX sp)
          (XNode.attr o k i q v :: List.map XNode.node (o :: o.ancestors))) = _
      rw [List.filter_cons, hkx, if_pos rfl, List.map_cons, hm]
      rfl
    | following =>
      simp only [Axis.xlocs, XNode.strip]
      rw [map_node_filter, List.filter_append, List.map_append, descendants_strip, following_strip sp o ho]
    | preceding =>
      simp only [Axis.xlocs, XNode.strip]
      rw [map_node_filter, preceding_strip sp o ho]

theorem node_ne_attr {L : List Loc} {o : Loc} {k : Bool} {i : Nat} {q : QName} {v : String}
    (h : XNode.attr o k i q v ∈ L.map XNode.node) : False := by
  simp only [List.mem_map] at h
  obtain ⟨_, _, hc⟩ := h
  cases hc

/-- attribute members of an axis from an unstripped context node have an unstripped owner -/
theorem xlocs_attr_keep (sp : StripFn) (ax : Axis) (x : XNode) (h : x.stripped sp = false) :
    ∀ y ∈ ax.xlocs x, (∃ o k i q v, y = XNode.attr o k i q v) → y.stripped sp = false := by
  intro y hy ⟨o, k, i, q, v, hyo⟩
  subst hyo
  cases x with
  | node l =>
    cases ax with
    | attrAxis => exact attrNodes_keep sp l h _ hy
    | nsAxis => exact nsNodes_keep sp l h _ hy
    | child => exact (node_ne_attr hy).elim
    | descendant => exact (node_ne_attr hy).elim
    | descendantOrSelf => exact (node_ne_attr hy).elim
    | followingSibling => exact (node_ne_attr hy).elim
    | precedingSibling => exact (node_ne_attr hy).elim
    | self => exact (node_ne_attr hy).elim
    | parent => exact (node_ne_attr hy).elim
    | ancestor => exact (node_ne_attr hy).elim
    | ancestorOrSelf => exact (node_ne_attr hy).elim
    | following => exact (node_ne_attr hy).elim
    | preceding => exact (node_ne_attr hy).elim
  | attr o' k' i' q' v' =>
    have ho : o'.stripped sp = false := h
    cases ax with
    | attrAxis => simp [Axis.xlocs] at hy
    | nsAxis => simp [Axis.xlocs] at hy
    | child => simp [Axis.xlocs] at hy
    | descendant => simp [Axis.xlocs] at hy
    | followingSibling => simp [Axis.xlocs] at hy
    | precedingSibling => simp [Axis.xlocs] at hy
    | self =>
      simp only [Axis.xlocs, List.mem_singleton] at hy
      cases hy; exact ho
    | descendantOrSelf =>
      simp only [Axis.xlocs, List.mem_singleton] at hy
      cases hy; exact ho
    | parent => simp [Axis.xlocs] at hy
    | ancestor => simp [Axis.xlocs] at hy
    | ancestorOrSelf =>
      simp only [Axis.xlocs, List.mem_cons] at hy
      rcases hy with hy | hy
      · cases hy; exact ho
      · simp at hy
    | following => simp [Axis.xlocs] at hy
    | preceding => simp [Axis.xlocs] at hy

/-- the document node -/
theorem xroot_strip (sp : StripFn) (x : XNode) (h : x.stripped sp = false) :
    x.root.strip sp = (x.strip sp).root ∧ x.root.stripped sp = false := by
  cases x with
  | node l =>
    have := root_strip sp l h
    exact ⟨by simp [XNode.root, XNode.strip, this.1], this.2⟩
  | attr o k i q v =>
    have := root_strip sp o h
    exact ⟨by simp [XNode.root, XNode.strip, this.1], this.2⟩

/-- the strip-aware node test on `D` = "not stripped" and the plain node test on `D'` -/
theorem xaccepts_strip (sp : StripFn) (pa : Principal) (t : Test) (x : XNode) :
    t.xaccepts sp pa x = (keepX sp x && t.xaccepts noStrip pa (x.strip sp)) ∨
    (x.stripped sp = true ∧ ∃ o k i q v, x = .attr o k i q v) := by
  cases x with
  | node l =>
    left
    simp only [Test.xaccepts, XNode.strip, keepX, XNode.stripped]
    rw [accepts_strip sp t l]
    cases pa <;> simp [keep, Bool.and_assoc, Bool.and_comm, Bool.and_left_comm]
  | attr o k i q v =>
    cases ho : o.stripped sp
    · left; simp [Test.xaccepts, XNode.strip, keepX, XNode.stripped, ho]
    · right; exact ⟨ho, o, k, i, q, v, rfl⟩

/-- candidates of a step (axis then node test) from an unstripped context node -/
theorem xcands_strip (sp : StripFn) (ax : Axis) (t : Test) (x : XNode) (h : x.stripped sp = false) :
    ((ax.xlocs x).filter (t.xaccepts sp ax.isAttr)).map (XNode.strip sp)
      = (ax.xlocs (x.strip sp)).filter (t.xaccepts noStrip ax.isAttr) ∧
    ∀ y ∈ (ax.xlocs x).filter (t.xaccepts sp ax.isAttr), y.stripped sp = false := by
  -- attribute members of an axis from an unstripped context have an unstripped owner
  have hall : ∀ y ∈ ax.xlocs x, (∃ o k i q v, y = XNode.attr o k i q v) → y.stripped sp = false :=
    xlocs_attr_keep sp ax x h
  have hacc : ∀ y ∈ ax.xlocs x, t.xaccepts sp ax.isAttr y
      = (keepX sp y && t.xaccepts noStrip ax.isAttr (y.strip sp)) := by
    intro y hy
    rcases xaccepts_strip sp ax.isAttr t y with h1 | ⟨hs, hex⟩
    · exact h1
    · rw [hall y hy hex] at hs; cases hs
  constructor
  · rw [← xaxis_strip sp ax x h]
    generalize ax.xlocs x = L at hacc
    induction L with
    | nil => rfl
    | cons a as ih =>
      have ha := hacc a (by simp)
      have ih' := ih (fun y hy => hacc y (List.mem_cons_of_mem _ hy))
      simp only [List.filter_cons, ha]
      by_cases h1 : keepX sp a = true
      · by_cases h2 : Test.xaccepts noStrip ax.isAttr t (XNode.strip sp a) = true
        · simp [h1, h2, ih']
        · simp [h1, h2, ih']
      · simp [h1, ih']
  · intro y hy
    have hm := List.mem_filter.mp hy
    have := hacc y hm.1
    rw [this] at hm
    have hk : keepX sp y = true := by
      have := hm.2; simp only [Bool.and_eq_true] at this; exact this.1
    simpa [keepX] using hk

/-- the invariant on values: a node-set contains no stripped text node -/
def Value.ok (sp : StripFn) : Value → Prop
  | .ns l => ∀ x ∈ l, x.stripped sp = false
  | _ => True

def OptOk (sp : StripFn) (v : Option Value) : Prop := ∀ w, v = some w → w.ok sp

/-! ### merging the per-context results -/

theorem mergeStep_map (sp : StripFn) (g g' : XNode → Option (List XNode)) (l : List XNode)
    (h : ∀ x ∈ l, (g x).map (List.map (XNode.strip sp)) = g' (x.strip sp)) :
    (mergeStep g l).map (List.map (XNode.strip sp)) = mergeStep g' (l.map (XNode.strip sp)) := by
  induction l with
  | nil => rfl
  | cons x xs ih =>
    have hx := h x (by simp)
    have hxs := ih (fun y hy => h y (List.mem_cons_of_mem _ hy))
    simp only [mergeStep, List.map_cons]
    rw [← hx, ← hxs]
    cases g x <;> cases mergeStep g xs <;> simp

theorem mergeStep_mem (g : XNode → Option (List XNode)) (l r : List XNode) (P : XNode → Prop)
    (h : ∀ x ∈ l, ∀ rx, g x = some rx → ∀ y ∈ rx, P y) (hr : mergeStep g l = some r) : ∀ y ∈ r, P y := by
  induction l generalizing r with
  | nil => simp [mergeStep] at hr; subst hr; simp
  | cons x xs ih =>
    simp only [mergeStep] at hr
    cases hg : g x with
    | none => simp [hg] at hr
    | some a =>
      cases hm : mergeStep g xs with
      | none => simp [hg, hm] at hr
      | some b =>
        simp only [hg, hm, Option.some.injEq] at hr
        subst hr
        intro y hy
        rcases List.mem_append.mp hy with hy | hy
        · exact h x (by simp) a hg y hy
        · exact ih b (fun z hz => h z (List.mem_cons_of_mem _ hz)) hm y hy

/-! ### predicates -/

theorem filterPred_go_map (sp : StripFn) (pred pred' : XNode → Nat → Nat → Option Bool) (n : Nat) :
    ∀ (cs : List XNode) (i : Nat), (∀ c ∈ cs, ∀ j, pred c j n = pred' (c.strip sp) j n) →
      (filterPred.go pred n cs i).map (List.map (XNode.strip sp))
        = filterPred.go pred' n (cs.map (XNode.strip sp)) i
  | [], _, _ => rfl
  | c :: cs, i, h => by
    have ih := filterPred_go_map sp pred pred' n cs (i + 1) (fun d hd => h d (List.mem_cons_of_mem _ hd))
    simp only [filterPred.go, List.map_cons]
    rw [← h c (by simp) i, ← ih]
    cases pred c i n with
    | none => rfl
    | some b => cases b <;> cases filterPred.go pred n cs (i + 1) <;> rfl

theorem filterPred_map (sp : StripFn) (pred pred' : XNode → Nat → Nat → Option Bool) (cs : List XNode)
    (h : ∀ c ∈ cs, ∀ j n, pred c j n = pred' (c.strip sp) j n) :
    (filterPred pred cs).map (List.map (XNode.strip sp)) = filterPred pred' (cs.map (XNode.strip sp)) := by
  simp only [filterPred, List.length_map]
  exact filterPred_go_map sp pred pred' cs.length cs 1 (fun c hc j => h c hc j _)

theorem filterPred_go_sub (pred : XNode → Nat → Nat → Option Bool) (n : Nat) :
    ∀ (cs : List XNode) (i : Nat) (r : List XNode), filterPred.go pred n cs i = some r → ∀ y ∈ r, y ∈ cs
  | [], _, r, h => by simp [filterPred.go] at h; subst h; simp
  | c :: cs, i, r, h => by
    simp only [filterPred.go] at h
    cases hp : pred c i n with
    | none => simp [hp] at h
    | some b =>
      cases hg : filterPred.go pred n cs (i + 1) with
      | none => cases b <;> simp [hp, hg] at h
      | some r' =>
        have ih := filterPred_go_sub pred n cs (i + 1) r' hg
        cases b
        · simp only [hp, hg, Option.some.injEq] at h
          subst h
          intro y hy; exact List.mem_cons_of_mem _ (ih y hy)
        · simp only [hp, hg, Option.some.injEq] at h
          subst h
          intro y hy
          rcases List.mem_cons.mp hy with hy | hy
          · simp [hy]
          · exact List.mem_cons_of_mem _ (ih y hy)

theorem filterPred_sub (pred : XNode → Nat → Nat → Option Bool) (cs r : List XNode)
    (h : filterPred pred cs = some r) : ∀ y ∈ r, y ∈ cs :=
  filterPred_go_sub pred cs.length cs 1 r h

/-! ### values -/

@[simp] theorem Value.strip_ns (sp : StripFn) (l : List XNode) : (Value.ns l).strip sp = .ns (l.map (XNode.strip sp)) := rfl
@[simp] theorem Value.strip_num (sp : StripFn) (n : Int) : (Value.num n).strip sp = .num n := rfl
@[simp] theorem Value.strip_str (sp : StripFn) (s : String) : (Value.str s).strip sp = .str s := rfl
@[simp] theorem Value.strip_bool (sp : StripFn) (b : Bool) : (Value.bool b).strip sp = .bool b := rfl

theorem Value.toStr_strip (sp : StripFn) (v : Value) : (v.strip sp).toStr noStrip = v.toStr sp := by
  cases v with
  | ns l =>
    cases l with
    | nil => rfl
    | cons x xs => simp [Value.strip, Value.toStr, XNode.strVal_strip]
  | num n => rfl
  | str s => rfl
  | bool b => rfl

theorem Value.toBool_strip (sp : StripFn) (v : Value) : (v.strip sp).toBool = v.toBool := by
  cases v <;> simp [Value.strip, Value.toBool]

theorem any_strVal_map (sp : StripFn) (a : List XNode) (p : String → Bool) :
    (a.map (XNode.strip sp)).any (fun x => p (x.strVal noStrip)) = a.any (fun x => p (x.strVal sp)) := by
  induction a with
  | nil => rfl
  | cons x xs ih => simp [List.any_cons, XNode.strVal_strip, ih]

theorem valEq_strip (sp : StripFn) (a b : Value) :
    valEq noStrip (a.strip sp) (b.strip sp) = valEq sp a b := by
  cases a <;> cases b <;> simp only [Value.strip, valEq, Value.toBool, List.isEmpty_map]
  · -- ns, ns
    rename_i x y
    congr 1
    rw [any_strVal_map sp x (fun s => (y.map (XNode.strip sp)).any fun z => s == z.strVal noStrip)]
    congr 1
    funext l
    exact any_strVal_map sp y (fun s => l.strVal sp == s)
  · rename_i x s
    congr 1
    exact any_strVal_map sp x (fun t => t == s)
  · rename_i s x
    congr 1
    exact any_strVal_map sp x (fun t => s == t)

/-! ### the operations -/

theorem stepV_sim (sp : StripFn) (g g' : XNode → Option (List XNode)) (v : Option Value)
    (hv : OptOk sp v)
    (h : ∀ x, x.stripped sp = false → (g x).map (List.map (XNode.strip sp)) = g' (x.strip sp))
    (hk : ∀ x, x.stripped sp = false → ∀ rx, g x = some rx → ∀ y ∈ rx, y.stripped sp = false) :
    (stepV g v).map (Value.strip sp) = stepV g' (v.map (Value.strip sp)) ∧ OptOk sp (stepV g v) := by
  cases v with
  | none => exact ⟨rfl, by intro w hw; simp [stepV] at hw⟩
  | some v =>
    cases v with
    | ns l =>
      have hl : ∀ x ∈ l, x.stripped sp = false := hv (.ns l) rfl
      constructor
      · simp only [stepV, Option.map_some, Value.strip, Option.map_map]
        rw [← mergeStep_map sp g g' l (fun x hx => h x (hl x hx))]
        cases mergeStep g l with
        | none => rfl
        | some r => simp [Value.strip, docOrder_map]
      · intro w hw
        simp only [stepV] at hw
        cases hm : mergeStep g l with
        | none => simp [hm] at hw
        | some r =>
          simp only [hm, Option.map_some, Option.some.injEq] at hw
          subst hw
          intro y hy
          exact mergeStep_mem g l r (fun y => y.stripped sp = false)
            (fun x hx rx hrx => hk x (hl x hx) rx hrx) hm y (mem_docOrder y r hy)
    | num n => exact ⟨rfl, by intro w hw; simp [stepV] at hw⟩
    | str s => exact ⟨rfl, by intro w hw; simp [stepV] at hw⟩
    | bool b => exact ⟨rfl, by intro w hw; simp [stepV] at hw⟩

theorem unionV_sim (sp : StripFn) (a b : Option Value) (ha : OptOk sp a) (hb : OptOk sp b) :
    (unionV a b).map (Value.strip sp) = unionV (a.map (Value.strip sp)) (b.map (Value.strip sp))
      ∧ OptOk sp (unionV a b) := by
  constructor
  · cases a with
    | none => cases b <;> rfl
    | some x =>
      cases b with
      | none => cases x <;> rfl
      | some y => cases x <;> cases y <;> simp [unionV, ← docOrder_map, List.map_append]
  · intro w hw
    cases a with
    | none => cases b <;> simp [unionV] at hw
    | some x =>
      cases b with
      | none => cases x <;> simp [unionV] at hw
      | some y =>
        cases x <;> cases y <;> simp [unionV] at hw
        rename_i la lb
        subst hw
        intro z hz
        rcases List.mem_append.mp (mem_docOrder z _ hz) with hz | hz
        · exact ha (.ns la) rfl z hz
        · exact hb (.ns lb) rfl z hz

theorem filterV_sim (sp : StripFn) (pred pred' : XNode → Nat → Nat → Option Bool) (v : Option Value)
    (hv : OptOk sp v)
    (h : ∀ y, y.stripped sp = false → ∀ j n, pred y j n = pred' (y.strip sp) j n) :
    (filterV pred v).map (Value.strip sp) = filterV pred' (v.map (Value.strip sp)) ∧ OptOk sp (filterV pred v) := by
  cases v with
  | none => exact ⟨rfl, by intro w hw; simp [filterV] at hw⟩
  | some v =>
    cases v with
    | ns l =>
      have hl : ∀ x ∈ l, x.stripped sp = false := hv (.ns l) rfl
      constructor
      · simp only [filterV, Option.map_some, Value.strip_ns, Option.map_map]
        rw [← filterPred_map sp pred pred' l (fun c hc j n => h c (hl c hc) j n)]
        cases filterPred pred l <;> rfl
      · intro w hw
        simp only [filterV] at hw
        cases hf : filterPred pred l with
        | none => simp [hf] at hw
        | some r =>
          simp only [hf, Option.map_some, Option.some.injEq] at hw
          subst hw
          intro y hy
          exact hl y (filterPred_sub pred l r hf y hy)
    | num n => exact ⟨rfl, by intro w hw; simp [filterV] at hw⟩
    | str s => exact ⟨rfl, by intro w hw; simp [filterV] at hw⟩
    | bool b => exact ⟨rfl, by intro w hw; simp [filterV] at hw⟩

theorem normSpaceV_sim (sp : StripFn) (v : Option Value) :
    (normSpaceV sp v).map (Value.strip sp) = normSpaceV noStrip (v.map (Value.strip sp))
      ∧ OptOk sp (normSpaceV sp v) := by
  constructor
  · cases v with
    | none => rfl
    | some v => simp [normSpaceV, Value.toStr_strip]
  · intro w hw
    cases v with
    | none => simp [normSpaceV] at hw
    | some v => simp [normSpaceV] at hw; subst hw; trivial

theorem countV_sim (sp : StripFn) (v : Option Value) :
    (countV v).map (Value.strip sp) = countV (v.map (Value.strip sp)) ∧ OptOk sp (countV v) := by
  constructor
  · cases v with
    | none => rfl
    | some v => cases v <;> simp [countV, Value.strip]
  · intro w hw
    cases v with
    | none => simp [countV] at hw
    | some v => cases v <;> simp [countV] at hw <;> subst hw <;> trivial

theorem stringV_sim (sp : StripFn) (v : Option Value) :
    (stringV sp v).map (Value.strip sp) = stringV noStrip (v.map (Value.strip sp)) ∧ OptOk sp (stringV sp v) := by
  constructor
  · cases v with
    | none => rfl
    | some v => simp [stringV, Value.toStr_strip]
  · intro w hw
    cases v with
    | none => simp [stringV] at hw
    | some v => simp [stringV] at hw; subst hw; trivial

theorem strlenV_sim (sp : StripFn) (v : Option Value) :
    (strlenV sp v).map (Value.strip sp) = strlenV noStrip (v.map (Value.strip sp)) ∧ OptOk sp (strlenV sp v) := by
  constructor
  · cases v with
    | none => rfl
    | some v => simp [strlenV, Value.toStr_strip]
  · intro w hw
    cases v with
    | none => simp [strlenV] at hw
    | some v => simp [strlenV] at hw; subst hw; trivial

theorem localNameOf_strip (sp : StripFn) (x : XNode) : localNameOf (x.strip sp) = localNameOf x := by
  cases x with
  | node l =>
    obtain ⟨focus, path⟩ := l
    cases focus with
    | elem i n kids => cases n <;> rfl
    | text i d => rfl
    | comment i d => rfl
    | pi i t d => rfl
  | attr o k i q v => rfl

theorem localNameV_sim (sp : StripFn) (v : Option Value) :
    (localNameV v).map (Value.strip sp) = localNameV (v.map (Value.strip sp)) ∧ OptOk sp (localNameV v) := by
  constructor
  · cases v with
    | none => rfl
    | some v =>
      cases v with
      | ns l => cases l <;> simp [localNameV, Value.strip, localNameOf_strip]
      | num n => rfl
      | str s => rfl
      | bool b => rfl
  · intro w hw
    cases v with
    | none => simp [localNameV] at hw
    | some v =>
      cases v with
      | ns l => cases l <;> simp [localNameV] at hw <;> subst hw <;> trivial
      | num n => simp [localNameV] at hw
      | str s => simp [localNameV] at hw
      | bool b => simp [localNameV] at hw

theorem boolV_sim (sp : StripFn) (v : Option Value) :
    (boolV v).map (Value.strip sp) = boolV (v.map (Value.strip sp)) ∧ OptOk sp (boolV v) := by
  constructor
  · cases v with
    | none => rfl
    | some v => simp [boolV, Value.toBool_strip]
  · intro w hw
    cases v with
    | none => simp [boolV] at hw
    | some v => simp [boolV] at hw; subst hw; trivial

theorem notV_sim (sp : StripFn) (v : Option Value) :
    (notV v).map (Value.strip sp) = notV (v.map (Value.strip sp)) ∧ OptOk sp (notV v) := by
  constructor
  · cases v with
    | none => rfl
    | some v => simp [notV, Value.toBool_strip]
  · intro w hw
    cases v with
    | none => simp [notV] at hw
    | some v => simp [notV] at hw; subst hw; trivial

theorem eqV_sim (sp : StripFn) (a b : Option Value) :
    (eqV sp a b).map (Value.strip sp) = eqV noStrip (a.map (Value.strip sp)) (b.map (Value.strip sp))
      ∧ OptOk sp (eqV sp a b) := by
  constructor
  · cases a with
    | none => cases b <;> rfl
    | some x =>
      cases b with
      | none => rfl
      | some y =>
        simp only [eqV, Option.map_some, valEq_strip]
        cases valEq sp x y <;> rfl
  · intro w hw
    cases a with
    | none => cases b <;> simp [eqV] at hw
    | some x =>
      cases b with
      | none => simp [eqV] at hw
      | some y =>
        simp only [eqV] at hw
        cases hv : valEq sp x y with
        | none => simp [hv] at hw
        | some r => simp [hv] at hw; subst hw; trivial

theorem numOp_sim (sp : StripFn) (f : Int → Int → Value) (hf : ∀ x y, (f x y).strip sp = f x y ∧ (f x y).ok sp)
    (a b : Option Value) :
    (numOp f a b).map (Value.strip sp) = numOp f (a.map (Value.strip sp)) (b.map (Value.strip sp))
      ∧ OptOk sp (numOp f a b) := by
  constructor
  · cases a with
    | none => cases b <;> rfl
    | some x =>
      cases b with
      | none => cases x <;> rfl
      | some y => cases x <;> cases y <;> simp [numOp, (hf _ _).1]
  · intro w hw
    cases a with
    | none => cases b <;> simp [numOp] at hw
    | some x =>
      cases b with
      | none => cases x <;> simp [numOp] at hw
      | some y =>
        cases x <;> cases y <;> simp [numOp] at hw
        subst hw; exact (hf _ _).2

theorem boolOp_sim (sp : StripFn) (f : Bool → Bool → Bool) (a b : Option Value) :
    (boolOp f a b).map (Value.strip sp) = boolOp f (a.map (Value.strip sp)) (b.map (Value.strip sp))
      ∧ OptOk sp (boolOp f a b) := by
  constructor
  · cases a with
    | none => cases b <;> rfl
    | some x =>
      cases b with
      | none => rfl
      | some y => simp [boolOp, Value.toBool_strip]
  · intro w hw
    cases a with
    | none => cases b <;> simp [boolOp] at hw
    | some x =>
      cases b with
      | none => simp [boolOp] at hw
      | some y => simp [boolOp] at hw; subst hw; trivial

theorem strOp_sim (sp : StripFn) (f : String → String → Value)
    (hf : ∀ x y, (f x y).strip sp = f x y ∧ (f x y).ok sp) (a b : Option Value) :
    (strOp sp f a b).map (Value.strip sp) = strOp noStrip f (a.map (Value.strip sp)) (b.map (Value.strip sp))
      ∧ OptOk sp (strOp sp f a b) := by
  constructor
  · cases a with
    | none => cases b <;> rfl
    | some x =>
      cases b with
      | none => rfl
      | some y => simp [strOp, Value.toStr_strip, (hf _ _).1]
  · intro w hw
    cases a with
    | none => cases b <;> simp [strOp] at hw
    | some x =>
      cases b with
      | none => simp [strOp] at hw
      | some y => simp [strOp] at hw; subst hw; exact (hf _ _).2

/-! ### the induction -/

/-- a context the simulation applies to: the context node is not a stripped node, and no variable in scope holds
a node-set with a stripped node (variables are bound to results of evaluations, so this is maintained) -/
def Ctx.ok (sp : StripFn) (c : Ctx) : Prop :=
  c.node.stripped sp = false ∧ ∀ v ∈ c.vars, Value.ok sp v

theorem predFn_sim (sp : StripFn) (p : Expr) (vars : List Value) (hv : ∀ v ∈ vars, Value.ok sp v)
    (ih : ∀ c : Ctx, c.ok sp →
      (p.eval sp c).map (Value.strip sp) = p.eval noStrip (c.strip sp))
    (y : XNode) (hy : y.stripped sp = false) (i n : Nat) :
    predFn vars (p.eval sp) y i n = predFn (vars.map (Value.strip sp)) (p.eval noStrip) (y.strip sp) i n := by
  have := ih ⟨y, i, n, vars⟩ ⟨hy, hv⟩
  simp only [predFn, Ctx.strip] at this ⊢
  rw [← this]
  cases p.eval sp ⟨y, i, n, vars⟩ with
  | none => rfl
  | some v =>
    cases v <;> simp [predTruth, Value.strip, Value.toBool]

theorem eval_sim (sp : StripFn) (e : Expr) : ∀ (c : Ctx), c.ok sp →
    (e.eval sp c).map (Value.strip sp) = e.eval noStrip (c.strip sp)
      ∧ ∀ l, e.eval sp c = some (.ns l) → ∀ x ∈ l, x.stripped sp = false := by
  -- second component restated through `OptOk`
  suffices h : ∀ (c : Ctx), c.ok sp →
      (e.eval sp c).map (Value.strip sp) = e.eval noStrip (c.strip sp) ∧ OptOk sp (e.eval sp c) by
    intro c hc
    exact ⟨(h c hc).1, fun l hl => (h c hc).2 (.ns l) hl⟩
  induction e with
  | self =>
    intro c hc
    refine ⟨rfl, ?_⟩
    intro w hw
    simp only [Expr.eval, Option.some.injEq] at hw
    subst hw
    intro x hx
    simp at hx; subst hx; exact hc.1
  | root =>
    intro c hc
    have hr := xroot_strip sp c.node hc.1
    refine ⟨?_, ?_⟩
    · simp [Expr.eval, Value.strip, Ctx.strip, hr.1]
    · intro w hw
      simp only [Expr.eval, Option.some.injEq] at hw
      subst hw
      intro x hx
      simp at hx; subst hx; exact hr.2
  | step base ax t ihb =>
    intro c hc
    have hb := ihb c hc
    simp only [Expr.eval]
    rw [← hb.1]
    exact stepV_sim sp _ _ _ hb.2
      (fun x hx => by simp [(xcands_strip sp ax t x hx).1])
      (fun x hx rx hrx y hy => by
        simp only [Option.some.injEq] at hrx; subst hrx
        exact (xcands_strip sp ax t x hx).2 y hy)
  | stepP base ax t p ihb ihp =>
    intro c hc
    have hb := ihb c hc
    simp only [Expr.eval]
    rw [← hb.1]
    exact stepV_sim sp _ _ _ hb.2
      (fun x hx => by
        rw [← (xcands_strip sp ax t x hx).1]
        exact filterPred_map sp _ _ _ (fun y hy j n =>
          predFn_sim sp p c.vars hc.2 (fun c hc => (ihp c hc).1) y ((xcands_strip sp ax t x hx).2 y hy) j n))
      (fun x hx rx hrx y hy =>
        (xcands_strip sp ax t x hx).2 y (filterPred_sub _ _ rx hrx y hy))
  | stepPP base ax t p q ihb ihp ihq =>
    intro c hc
    have hb := ihb c hc
    simp only [Expr.eval]
    rw [← hb.1]
    exact stepV_sim sp _ _ _ hb.2
      (fun x hx => by
        rw [← (xcands_strip sp ax t x hx).1]
        simp only [Ctx.strip]
        have h1 := filterPred_map sp (predFn c.vars (p.eval sp)) (predFn (c.vars.map (Value.strip sp)) (p.eval noStrip))
          ((ax.xlocs x).filter (t.xaccepts sp ax.isAttr)) (fun y hy j n =>
            predFn_sim sp p c.vars hc.2 (fun c hc => (ihp c hc).1) y ((xcands_strip sp ax t x hx).2 y hy) j n)
        rw [← h1]
        cases hf : filterPred (predFn c.vars (p.eval sp)) ((ax.xlocs x).filter (t.xaccepts sp ax.isAttr)) with
        | none => rfl
        | some r1 =>
          simp only [Option.bind_some, Option.map_some]
          exact filterPred_map sp _ _ _ (fun y hy j n =>
            predFn_sim sp q c.vars hc.2 (fun c hc => (ihq c hc).1) y
              ((xcands_strip sp ax t x hx).2 y (filterPred_sub _ _ r1 hf y hy)) j n))
      (fun x hx rx hrx y hy => by
        cases hf : filterPred (predFn c.vars (p.eval sp)) ((ax.xlocs x).filter (t.xaccepts sp ax.isAttr)) with
        | none => simp [hf] at hrx
        | some r1 =>
          simp only [hf, Option.bind_some] at hrx
          exact (xcands_strip sp ax t x hx).2 y (filterPred_sub _ _ r1 hf y (filterPred_sub _ _ rx hrx y hy)))
  | union a b iha ihb =>
    intro c hc; simp only [Expr.eval]; rw [← (iha c hc).1, ← (ihb c hc).1]
    exact unionV_sim sp _ _ (iha c hc).2 (ihb c hc).2
  | filter e p ihe ihp =>
    intro c hc; simp only [Expr.eval]; rw [← (ihe c hc).1]
    exact filterV_sim sp _ _ _ (ihe c hc).2
      (fun y hy j n => predFn_sim sp p c.vars hc.2 (fun c hc => (ihp c hc).1) y hy j n)
  | position => intro c _; exact ⟨rfl, by intro w hw; simp [Expr.eval] at hw; subst hw; trivial⟩
  | last => intro c _; exact ⟨rfl, by intro w hw; simp [Expr.eval] at hw; subst hw; trivial⟩
  | count e ih =>
    intro c hc; simp only [Expr.eval]; rw [← (ih c hc).1]; exact countV_sim sp _
  | string e ih =>
    intro c hc; simp only [Expr.eval]; rw [← (ih c hc).1]; exact stringV_sim sp _
  | stringLength e ih =>
    intro c hc; simp only [Expr.eval]; rw [← (ih c hc).1]; exact strlenV_sim sp _
  | localName e ih =>
    intro c hc; simp only [Expr.eval]; rw [← (ih c hc).1]; exact localNameV_sim sp _
  | boolean e ih =>
    intro c hc; simp only [Expr.eval]; rw [← (ih c hc).1]; exact boolV_sim sp _
  | not e ih =>
    intro c hc; simp only [Expr.eval]; rw [← (ih c hc).1]; exact notV_sim sp _
  | num n => intro c _; exact ⟨rfl, by intro w hw; simp [Expr.eval] at hw; subst hw; trivial⟩
  | lit s => intro c _; exact ⟨rfl, by intro w hw; simp [Expr.eval] at hw; subst hw; trivial⟩
  | eq a b iha ihb =>
    intro c hc; simp only [Expr.eval]; rw [← (iha c hc).1, ← (ihb c hc).1]; exact eqV_sim sp _ _
  | lt a b iha ihb =>
    intro c hc; simp only [Expr.eval]; rw [← (iha c hc).1, ← (ihb c hc).1]
    refine numOp_sim sp _ ?_ _ _
    intro x y; exact ⟨rfl, trivial⟩
  | plus a b iha ihb =>
    intro c hc; simp only [Expr.eval]; rw [← (iha c hc).1, ← (ihb c hc).1]
    refine numOp_sim sp _ ?_ _ _
    intro x y; exact ⟨rfl, trivial⟩
  | minus a b iha ihb =>
    intro c hc; simp only [Expr.eval]; rw [← (iha c hc).1, ← (ihb c hc).1]
    refine numOp_sim sp _ ?_ _ _
    intro x y; exact ⟨rfl, trivial⟩
  | and a b iha ihb =>
    intro c hc; simp only [Expr.eval]; rw [← (iha c hc).1, ← (ihb c hc).1]; exact boolOp_sim sp _ _ _
  | or a b iha ihb =>
    intro c hc; simp only [Expr.eval]; rw [← (iha c hc).1, ← (ihb c hc).1]; exact boolOp_sim sp _ _ _
  | concat a b iha ihb =>
    intro c hc; simp only [Expr.eval]; rw [← (iha c hc).1, ← (ihb c hc).1]
    refine strOp_sim sp _ ?_ _ _
    intro x y; exact ⟨rfl, trivial⟩
  | contains a b iha ihb =>
    intro c hc; simp only [Expr.eval]; rw [← (iha c hc).1, ← (ihb c hc).1]
    refine strOp_sim sp _ ?_ _ _
    intro x y; exact ⟨rfl, trivial⟩
  | startsWith a b iha ihb =>
    intro c hc; simp only [Expr.eval]; rw [← (iha c hc).1, ← (ihb c hc).1]
    refine strOp_sim sp _ ?_ _ _
    intro x y; exact ⟨rfl, trivial⟩
  | normalizeSpace e ih =>
    intro c hc; simp only [Expr.eval]; rw [← (ih c hc).1]; exact normSpaceV_sim sp _
  | var i =>
    intro c hc
    constructor
    · simp [Expr.eval, Ctx.strip, List.getElem?_map]
    · intro w hw
      simp only [Expr.eval] at hw
      exact hc.2 w (List.mem_of_getElem? hw)
  | letIn b body ihb ihbody =>
    intro c hc
    have hb := ihb c hc
    simp only [Expr.eval]
    rw [← hb.1]
    cases hv : b.eval sp c with
    | none => exact ⟨rfl, by intro w hw; simp at hw⟩
    | some v =>
      have hok : Ctx.ok sp ⟨c.node, c.pos, c.size, v :: c.vars⟩ := by
        refine ⟨hc.1, ?_⟩
        intro w hw
        rcases List.mem_cons.mp hw with rfl | hw
        · exact hb.2 w hv
        · exact hc.2 w hw
      have := ihbody _ hok
      simpa [Ctx.strip] using this

end XalanModel.C13
