import XalanModel.C13.TreeProofs
/-
Helper lemmas for `strip_simulation`: every operation of the evaluator commutes with `Value.strip`, and
node-set results never contain a stripped node; then the induction over expressions (`eval_sim`).
-/
namespace XalanModel.C13

/-- the invariant on values: a node-set contains no stripped text node -/
def Value.ok (sp : StripFn) : Value → Prop
  | .ns l => ∀ x ∈ l, x.stripped sp = false
  | _ => True

def OptOk (sp : StripFn) (v : Option Value) : Prop := ∀ w, v = some w → w.ok sp

/-! ### document order -/

theorem insertDocOrder_map (sp : StripFn) (x : Loc) (ys : List Loc) :
    insertDocOrder (x.strip sp) (ys.map (Loc.strip sp)) = (insertDocOrder x ys).map (Loc.strip sp) := by
  induction ys with
  | nil => rfl
  | cons y ys ih =>
    simp only [List.map_cons, insertDocOrder, Loc.strip_id]
    split
    · rfl
    · split
      · rfl
      · simp [ih]

theorem docOrder_map (sp : StripFn) (l : List Loc) :
    docOrder (l.map (Loc.strip sp)) = (docOrder l).map (Loc.strip sp) := by
  induction l with
  | nil => rfl
  | cons x xs ih =>
    simp only [docOrder, List.map_cons, List.foldr_cons] at ih ⊢
    rw [ih, insertDocOrder_map]

theorem mem_insertDocOrder (x a : Loc) (ys : List Loc) (h : a ∈ insertDocOrder x ys) : a = x ∨ a ∈ ys := by
  induction ys with
  | nil => simp [insertDocOrder] at h; exact Or.inl h
  | cons y ys ih =>
    simp only [insertDocOrder] at h
    split at h
    · rcases List.mem_cons.mp h with h | h
      · exact Or.inl h
      · exact Or.inr h
    · split at h
      · exact Or.inr h
      · rcases List.mem_cons.mp h with h | h
        · exact Or.inr (by simp [h])
        · rcases ih h with h | h
          · exact Or.inl h
          · exact Or.inr (List.mem_cons_of_mem _ h)

theorem mem_docOrder (a : Loc) (l : List Loc) (h : a ∈ docOrder l) : a ∈ l := by
  induction l with
  | nil => simp [docOrder] at h
  | cons x xs ih =>
    simp only [docOrder, List.foldr_cons] at h ih
    rcases mem_insertDocOrder x a _ h with h | h
    · simp [h]
    · exact List.mem_cons_of_mem _ (ih h)

/-! ### merging the per-context results -/

theorem mergeStep_map (sp : StripFn) (g g' : Loc → Option (List Loc)) (l : List Loc)
    (h : ∀ x ∈ l, (g x).map (List.map (Loc.strip sp)) = g' (x.strip sp)) :
    (mergeStep g l).map (List.map (Loc.strip sp)) = mergeStep g' (l.map (Loc.strip sp)) := by
  induction l with
  | nil => rfl
  | cons x xs ih =>
    have hx := h x (by simp)
    have hxs := ih (fun y hy => h y (List.mem_cons_of_mem _ hy))
    simp only [mergeStep, List.map_cons]
    rw [← hx, ← hxs]
    cases g x <;> cases mergeStep g xs <;> simp

theorem mergeStep_mem (g : Loc → Option (List Loc)) (l r : List Loc) (P : Loc → Prop)
    (h : ∀ x ∈ l, ∀ rx, g x = some rx → ∀ y ∈ rx, P y) (hr : mergeStep g l = some r) : ∀ y ∈ r, P y := by
  induction l generalizing r with
  | nil => simp [mergeStep] at hr; subst hr; simp
  | cons x xs ih =>
    simp only [mergeStep] at hr
    cases hg : g x with
    | none => simp [hg] at hr
    | some a =>
      cases hm : mergeStep g xs with
      | none => simp [hg, hm] at hr
      | some b =>
        simp only [hg, hm, Option.some.injEq] at hr
        subst hr
        intro y hy
        rcases List.mem_append.mp hy with hy | hy
        · exact h x (by simp) a hg y hy
        · exact ih b (fun z hz => h z (List.mem_cons_of_mem _ hz)) hm y hy

/-! ### predicates -/

theorem filterPred_go_map (sp : StripFn) (pred pred' : Loc → Nat → Nat → Option Bool) (n : Nat) :
    ∀ (cs : List Loc) (i : Nat), (∀ c ∈ cs, ∀ j, pred c j n = pred' (c.strip sp) j n) →
      (filterPred.go pred n cs i).map (List.map (Loc.strip sp))
        = filterPred.go pred' n (cs.map (Loc.strip sp)) i
  | [], _, _ => rfl
  | c :: cs, i, h => by
    have ih := filterPred_go_map sp pred pred' n cs (i + 1) (fun d hd => h d (List.mem_cons_of_mem _ hd))
    simp only [filterPred.go, List.map_cons]
    rw [← h c (by simp) i, ← ih]
    cases pred c i n with
    | none => rfl
    | some b => cases b <;> cases filterPred.go pred n cs (i + 1) <;> rfl

theorem filterPred_map (sp : StripFn) (pred pred' : Loc → Nat → Nat → Option Bool) (cs : List Loc)
    (h : ∀ c ∈ cs, ∀ j n, pred c j n = pred' (c.strip sp) j n) :
    (filterPred pred cs).map (List.map (Loc.strip sp)) = filterPred pred' (cs.map (Loc.strip sp)) := by
  simp only [filterPred, List.length_map]
  exact filterPred_go_map sp pred pred' cs.length cs 1 (fun c hc j => h c hc j _)

theorem filterPred_go_sub (pred : Loc → Nat → Nat → Option Bool) (n : Nat) :
    ∀ (cs : List Loc) (i : Nat) (r : List Loc), filterPred.go pred n cs i = some r → ∀ y ∈ r, y ∈ cs
  | [], _, r, h => by simp [filterPred.go] at h; subst h; simp
  | c :: cs, i, r, h => by
    simp only [filterPred.go] at h
    cases hp : pred c i n with
    | none => simp [hp] at h
    | some b =>
      cases hg : filterPred.go pred n cs (i + 1) with
      | none => cases b <;> simp [hp, hg] at h
      | some r' =>
        have ih := filterPred_go_sub pred n cs (i + 1) r' hg
        cases b
        · simp only [hp, hg, Option.some.injEq] at h
          subst h
          intro y hy; exact List.mem_cons_of_mem _ (ih y hy)
        · simp only [hp, hg, Option.some.injEq] at h
          subst h
          intro y hy
          rcases List.mem_cons.mp hy with hy | hy
          · simp [hy]
          · exact List.mem_cons_of_mem _ (ih y hy)

theorem filterPred_sub (pred : Loc → Nat → Nat → Option Bool) (cs r : List Loc)
    (h : filterPred pred cs = some r) : ∀ y ∈ r, y ∈ cs :=
  filterPred_go_sub pred cs.length cs 1 r h

/-! ### values -/

@[simp] theorem Value.strip_ns (sp : StripFn) (l : List Loc) : (Value.ns l).strip sp = .ns (l.map (Loc.strip sp)) := rfl
@[simp] theorem Value.strip_num (sp : StripFn) (n : Int) : (Value.num n).strip sp = .num n := rfl
@[simp] theorem Value.strip_str (sp : StripFn) (s : String) : (Value.str s).strip sp = .str s := rfl
@[simp] theorem Value.strip_bool (sp : StripFn) (b : Bool) : (Value.bool b).strip sp = .bool b := rfl

theorem Value.toStr_strip (sp : StripFn) (v : Value) : (v.strip sp).toStr noStrip = v.toStr sp := by
  cases v with
  | ns l =>
    cases l with
    | nil => rfl
    | cons x xs => simp [Value.strip, Value.toStr, Loc.strVal_strip]
  | num n => rfl
  | str s => rfl
  | bool b => rfl

theorem Value.toBool_strip (sp : StripFn) (v : Value) : (v.strip sp).toBool = v.toBool := by
  cases v <;> simp [Value.strip, Value.toBool]

theorem any_strVal_map (sp : StripFn) (a : List Loc) (p : String → Bool) :
    (a.map (Loc.strip sp)).any (fun x => p (x.strVal noStrip)) = a.any (fun x => p (x.strVal sp)) := by
  induction a with
  | nil => rfl
  | cons x xs ih => simp [List.any_cons, Loc.strVal_strip, ih]

theorem valEq_strip (sp : StripFn) (a b : Value) :
    valEq noStrip (a.strip sp) (b.strip sp) = valEq sp a b := by
  cases a <;> cases b <;> simp only [Value.strip, valEq, Value.toBool, List.isEmpty_map]
  · -- ns, ns
    rename_i x y
    congr 1
    rw [any_strVal_map sp x (fun s => (y.map (Loc.strip sp)).any fun z => s == z.strVal noStrip)]
    congr 1
    funext l
    exact any_strVal_map sp y (fun s => l.strVal sp == s)
  · rename_i x s
    congr 1
    exact any_strVal_map sp x (fun t => t == s)
  · rename_i s x
    congr 1
    exact any_strVal_map sp x (fun t => s == t)

/-! ### the operations -/

theorem stepV_sim (sp : StripFn) (g g' : Loc → Option (List Loc)) (v : Option Value)
    (hv : OptOk sp v)
    (h : ∀ x, x.stripped sp = false → (g x).map (List.map (Loc.strip sp)) = g' (x.strip sp))
    (hk : ∀ x, x.stripped sp = false → ∀ rx, g x = some rx → ∀ y ∈ rx, y.stripped sp = false) :
    (stepV g v).map (Value.strip sp) = stepV g' (v.map (Value.strip sp)) ∧ OptOk sp (stepV g v) := by
  cases v with
  | none => exact ⟨rfl, by intro w hw; simp [stepV] at hw⟩
  | some v =>
    cases v with
    | ns l =>
      have hl : ∀ x ∈ l, x.stripped sp = false := hv (.ns l) rfl
      constructor
      · simp only [stepV, Option.map_some, Value.strip, Option.map_map]
        rw [← mergeStep_map sp g g' l (fun x hx => h x (hl x hx))]
        cases mergeStep g l with
        | none => rfl
        | some r => simp [Value.strip, docOrder_map]
      · intro w hw
        simp only [stepV] at hw
        cases hm : mergeStep g l with
        | none => simp [hm] at hw
        | some r =>
          simp only [hm, Option.map_some, Option.some.injEq] at hw
          subst hw
          intro y hy
          exact mergeStep_mem g l r (fun y => y.stripped sp = false)
            (fun x hx rx hrx => hk x (hl x hx) rx hrx) hm y (mem_docOrder y r hy)
    | num n => exact ⟨rfl, by intro w hw; simp [stepV] at hw⟩
    | str s => exact ⟨rfl, by intro w hw; simp [stepV] at hw⟩
    | bool b => exact ⟨rfl, by intro w hw; simp [stepV] at hw⟩

theorem unionV_sim (sp : StripFn) (a b : Option Value) (ha : OptOk sp a) (hb : OptOk sp b) :
    (unionV a b).map (Value.strip sp) = unionV (a.map (Value.strip sp)) (b.map (Value.strip sp))
      ∧ OptOk sp (unionV a b) := by
  constructor
  · cases a with
    | none => cases b <;> rfl
    | some x =>
      cases b with
      | none => cases x <;> rfl
      | some y => cases x <;> cases y <;> simp [unionV, ← docOrder_map, List.map_append]
  · intro w hw
    cases a with
    | none => cases b <;> simp [unionV] at hw
    | some x =>
      cases b with
      | none => cases x <;> simp [unionV] at hw
      | some y =>
        cases x <;> cases y <;> simp [unionV] at hw
        rename_i la lb
        subst hw
        intro z hz
        rcases List.mem_append.mp (mem_docOrder z _ hz) with hz | hz
        · exact ha (.ns la) rfl z hz
        · exact hb (.ns lb) rfl z hz

theorem filterV_sim (sp : StripFn) (pred pred' : Loc → Nat → Nat → Option Bool) (v : Option Value)
    (hv : OptOk sp v)
    (h : ∀ y, y.stripped sp = false → ∀ j n, pred y j n = pred' (y.strip sp) j n) :
    (filterV pred v).map (Value.strip sp) = filterV pred' (v.map (Value.strip sp)) ∧ OptOk sp (filterV pred v) := by
  cases v with
  | none => exact ⟨rfl, by intro w hw; simp [filterV] at hw⟩
  | some v =>
    cases v with
    | ns l =>
      have hl : ∀ x ∈ l, x.stripped sp = false := hv (.ns l) rfl
      constructor
      · simp only [filterV, Option.map_some, Value.strip_ns, Option.map_map]
        rw [← filterPred_map sp pred pred' l (fun c hc j n => h c (hl c hc) j n)]
        cases filterPred pred l <;> rfl
      · intro w hw
        simp only [filterV] at hw
        cases hf : filterPred pred l with
        | none => simp [hf] at hw
        | some r =>
          simp only [hf, Option.map_some, Option.some.injEq] at hw
          subst hw
          intro y hy
          exact hl y (filterPred_sub pred l r hf y hy)
    | num n => exact ⟨rfl, by intro w hw; simp [filterV] at hw⟩
    | str s => exact ⟨rfl, by intro w hw; simp [filterV] at hw⟩
    | bool b => exact ⟨rfl, by intro w hw; simp [filterV] at hw⟩

theorem normSpaceV_sim (sp : StripFn) (v : Option Value) :
    (normSpaceV sp v).map (Value.strip sp) = normSpaceV noStrip (v.map (Value.strip sp))
      ∧ OptOk sp (normSpaceV sp v) := by
  constructor
  · cases v with
    | none => rfl
    | some v => simp [normSpaceV, Value.toStr_strip]
  · intro w hw
    cases v with
    | none => simp [normSpaceV] at hw
    | some v => simp [normSpaceV] at hw; subst hw; trivial

theorem Loc.attrs_strip (sp : StripFn) (l : Loc) : (l.strip sp).attrs = l.attrs := by
  obtain ⟨focus, path⟩ := l
  cases focus with
  | elem i n kids => cases n <;> rfl
  | text i d => rfl
  | comment i d => rfl
  | pi i t d => rfl

theorem firstAttr_strip (sp : StripFn) (q : QName) (l : List Loc) :
    firstAttr q (l.map (Loc.strip sp)) = firstAttr q l := by
  induction l with
  | nil => rfl
  | cons x xs ih => simp only [List.map_cons, firstAttr, Loc.attrs_strip, ih]

theorem attrOfV_sim (sp : StripFn) (q : QName) (v : Option Value) :
    (attrOfV q v).map (Value.strip sp) = attrOfV q (v.map (Value.strip sp)) ∧ OptOk sp (attrOfV q v) := by
  constructor
  · cases v with
    | none => rfl
    | some v => cases v <;> simp [attrOfV, firstAttr_strip]
  · intro w hw
    cases v with
    | none => simp [attrOfV] at hw
    | some v => cases v <;> simp [attrOfV] at hw <;> subst hw <;> trivial

theorem attrCountV_sim (sp : StripFn) (v : Option Value) :
    (attrCountV v).map (Value.strip sp) = attrCountV (v.map (Value.strip sp)) ∧ OptOk sp (attrCountV v) := by
  constructor
  · cases v with
    | none => rfl
    | some v => cases v <;> simp [attrCountV, Loc.attrs_strip, Function.comp_def]
  · intro w hw
    cases v with
    | none => simp [attrCountV] at hw
    | some v => cases v <;> simp [attrCountV] at hw <;> subst hw <;> trivial

theorem countV_sim (sp : StripFn) (v : Option Value) :
    (countV v).map (Value.strip sp) = countV (v.map (Value.strip sp)) ∧ OptOk sp (countV v) := by
  constructor
  · cases v with
    | none => rfl
    | some v => cases v <;> simp [countV, Value.strip]
  · intro w hw
    cases v with
    | none => simp [countV] at hw
    | some v => cases v <;> simp [countV] at hw <;> subst hw <;> trivial

theorem stringV_sim (sp : StripFn) (v : Option Value) :
    (stringV sp v).map (Value.strip sp) = stringV noStrip (v.map (Value.strip sp)) ∧ OptOk sp (stringV sp v) := by
  constructor
  · cases v with
    | none => rfl
    | some v => simp [stringV, Value.toStr_strip]
  · intro w hw
    cases v with
    | none => simp [stringV] at hw
    | some v => simp [stringV] at hw; subst hw; trivial

theorem strlenV_sim (sp : StripFn) (v : Option Value) :
    (strlenV sp v).map (Value.strip sp) = strlenV noStrip (v.map (Value.strip sp)) ∧ OptOk sp (strlenV sp v) := by
  constructor
  · cases v with
    | none => rfl
    | some v => simp [strlenV, Value.toStr_strip]
  · intro w hw
    cases v with
    | none => simp [strlenV] at hw
    | some v => simp [strlenV] at hw; subst hw; trivial

theorem localNameOf_strip (sp : StripFn) (l : Loc) : localNameOf (l.strip sp) = localNameOf l := by
  obtain ⟨focus, path⟩ := l
  cases focus with
  | elem i n kids => cases n <;> rfl
  | text i d => rfl
  | comment i d => rfl
  | pi i t d => rfl

theorem localNameV_sim (sp : StripFn) (v : Option Value) :
    (localNameV v).map (Value.strip sp) = localNameV (v.map (Value.strip sp)) ∧ OptOk sp (localNameV v) := by
  constructor
  · cases v with
    | none => rfl
    | some v =>
      cases v with
      | ns l => cases l <;> simp [localNameV, Value.strip, localNameOf_strip]
      | num n => rfl
      | str s => rfl
      | bool b => rfl
  · intro w hw
    cases v with
    | none => simp [localNameV] at hw
    | some v =>
      cases v with
      | ns l => cases l <;> simp [localNameV] at hw <;> subst hw <;> trivial
      | num n => simp [localNameV] at hw
      | str s => simp [localNameV] at hw
      | bool b => simp [localNameV] at hw

theorem boolV_sim (sp : StripFn) (v : Option Value) :
    (boolV v).map (Value.strip sp) = boolV (v.map (Value.strip sp)) ∧ OptOk sp (boolV v) := by
  constructor
  · cases v with
    | none => rfl
    | some v => simp [boolV, Value.toBool_strip]
  · intro w hw
    cases v with
    | none => simp [boolV] at hw
    | some v => simp [boolV] at hw; subst hw; trivial

theorem notV_sim (sp : StripFn) (v : Option Value) :
    (notV v).map (Value.strip sp) = notV (v.map (Value.strip sp)) ∧ OptOk sp (notV v) := by
  constructor
  · cases v with
    | none => rfl
    | some v => simp [notV, Value.toBool_strip]
  · intro w hw
    cases v with
    | none => simp [notV] at hw
    | some v => simp [notV] at hw; subst hw; trivial

theorem eqV_sim (sp : StripFn) (a b : Option Value) :
    (eqV sp a b).map (Value.strip sp) = eqV noStrip (a.map (Value.strip sp)) (b.map (Value.strip sp))
      ∧ OptOk sp (eqV sp a b) := by
  constructor
  · cases a with
    | none => cases b <;> rfl
    | some x =>
      cases b with
      | none => rfl
      | some y =>
        simp only [eqV, Option.map_some, valEq_strip]
        cases valEq sp x y <;> rfl
  · intro w hw
    cases a with
    | none => cases b <;> simp [eqV] at hw
    | some x =>
      cases b with
      | none => simp [eqV] at hw
      | some y =>
        simp only [eqV] at hw
        cases hv : valEq sp x y with
        | none => simp [hv] at hw
        | some r => simp [hv] at hw; subst hw; trivial

theorem numOp_sim (sp : StripFn) (f : Int → Int → Value) (hf : ∀ x y, (f x y).strip sp = f x y ∧ (f x y).ok sp)
    (a b : Option Value) :
    (numOp f a b).map (Value.strip sp) = numOp f (a.map (Value.strip sp)) (b.map (Value.strip sp))
      ∧ OptOk sp (numOp f a b) := by
  constructor
  · cases a with
    | none => cases b <;> rfl
    | some x =>
      cases b with
      | none => cases x <;> rfl
      | some y => cases x <;> cases y <;> simp [numOp, (hf _ _).1]
  · intro w hw
    cases a with
    | none => cases b <;> simp [numOp] at hw
    | some x =>
      cases b with
      | none => cases x <;> simp [numOp] at hw
      | some y =>
        cases x <;> cases y <;> simp [numOp] at hw
        subst hw; exact (hf _ _).2

theorem boolOp_sim (sp : StripFn) (f : Bool → Bool → Bool) (a b : Option Value) :
    (boolOp f a b).map (Value.strip sp) = boolOp f (a.map (Value.strip sp)) (b.map (Value.strip sp))
      ∧ OptOk sp (boolOp f a b) := by
  constructor
  · cases a with
    | none => cases b <;> rfl
    | some x =>
      cases b with
      | none => rfl
      | some y => simp [boolOp, Value.toBool_strip]
  · intro w hw
    cases a with
    | none => cases b <;> simp [boolOp] at hw
    | some x =>
      cases b with
      | none => simp [boolOp] at hw
      | some y => simp [boolOp] at hw; subst hw; trivial

theorem strOp_sim (sp : StripFn) (f : String → String → Value)
    (hf : ∀ x y, (f x y).strip sp = f x y ∧ (f x y).ok sp) (a b : Option Value) :
    (strOp sp f a b).map (Value.strip sp) = strOp noStrip f (a.map (Value.strip sp)) (b.map (Value.strip sp))
      ∧ OptOk sp (strOp sp f a b) := by
  constructor
  · cases a with
    | none => cases b <;> rfl
    | some x =>
      cases b with
      | none => rfl
      | some y => simp [strOp, Value.toStr_strip, (hf _ _).1]
  · intro w hw
    cases a with
    | none => cases b <;> simp [strOp] at hw
    | some x =>
      cases b with
      | none => simp [strOp] at hw
      | some y => simp [strOp] at hw; subst hw; exact (hf _ _).2

/-! ### the induction -/

/-- the predicate function built from a sub-expression that satisfies the simulation -/
theorem predFn_sim (sp : StripFn) (p : Expr)
    (ih : ∀ c : Ctx, c.node.stripped sp = false →
      (p.eval sp c).map (Value.strip sp) = p.eval noStrip (c.strip sp))
    (y : Loc) (hy : y.stripped sp = false) (i n : Nat) :
    predFn (p.eval sp) y i n = predFn (p.eval noStrip) (y.strip sp) i n := by
  have := ih ⟨y, i, n⟩ hy
  simp only [predFn, Ctx.strip] at this ⊢
  rw [← this]
  cases p.eval sp ⟨y, i, n⟩ with
  | none => rfl
  | some v =>
    cases v <;> simp [predTruth, Value.strip, Value.toBool]

theorem eval_sim (sp : StripFn) (e : Expr) : ∀ (c : Ctx), c.node.stripped sp = false →
    (e.eval sp c).map (Value.strip sp) = e.eval noStrip (c.strip sp)
      ∧ ∀ l, e.eval sp c = some (.ns l) → ∀ x ∈ l, x.stripped sp = false := by
  -- second component restated through `OptOk`
  suffices h : ∀ (c : Ctx), c.node.stripped sp = false →
      (e.eval sp c).map (Value.strip sp) = e.eval noStrip (c.strip sp) ∧ OptOk sp (e.eval sp c) by
    intro c hc
    exact ⟨(h c hc).1, fun l hl => (h c hc).2 (.ns l) hl⟩
  induction e with
  | self =>
    intro c hc
    refine ⟨rfl, ?_⟩
    intro w hw
    simp only [Expr.eval, Option.some.injEq] at hw
    subst hw
    intro x hx
    simp at hx; subst hx; exact hc
  | root =>
    intro c hc
    have hr := root_strip sp c.node hc
    refine ⟨?_, ?_⟩
    · simp [Expr.eval, Value.strip, Ctx.strip, hr.1]
    · intro w hw
      simp only [Expr.eval, Option.some.injEq] at hw
      subst hw
      intro x hx
      simp at hx; subst hx; exact hr.2
  | step base ax t ihb =>
    intro c hc
    have hb := ihb c hc
    simp only [Expr.eval]
    rw [← hb.1]
    exact stepV_sim sp _ _ _ hb.2
      (fun x hx => by simp [cands_strip sp ax t x hx])
      (fun x _ rx hrx y hy => by
        simp only [Option.some.injEq] at hrx; subst hrx
        exact cands_keep sp ax t x y hy)
  | stepP base ax t p ihb ihp =>
    intro c hc
    have hb := ihb c hc
    simp only [Expr.eval]
    rw [← hb.1]
    exact stepV_sim sp _ _ _ hb.2
      (fun x hx => by
        rw [← cands_strip sp ax t x hx]
        exact filterPred_map sp _ _ _ (fun y hy j n =>
          predFn_sim sp p (fun c hc => (ihp c hc).1) y (cands_keep sp ax t x y hy) j n))
      (fun x _ rx hrx y hy =>
        cands_keep sp ax t x y (filterPred_sub _ _ rx hrx y hy))
  | stepPP base ax t p q ihb ihp ihq =>
    intro c hc
    have hb := ihb c hc
    simp only [Expr.eval]
    rw [← hb.1]
    exact stepV_sim sp _ _ _ hb.2
      (fun x hx => by
        rw [← cands_strip sp ax t x hx]
        have h1 := filterPred_map sp (predFn (p.eval sp)) (predFn (p.eval noStrip))
          ((ax.locs x).filter (t.accepts sp)) (fun y hy j n =>
            predFn_sim sp p (fun c hc => (ihp c hc).1) y (cands_keep sp ax t x y hy) j n)
        rw [← h1]
        cases hf : filterPred (predFn (p.eval sp)) ((ax.locs x).filter (t.accepts sp)) with
        | none => rfl
        | some r1 =>
          simp only [Option.bind_some, Option.map_some]
          exact filterPred_map sp _ _ _ (fun y hy j n =>
            predFn_sim sp q (fun c hc => (ihq c hc).1) y
              (cands_keep sp ax t x y (filterPred_sub _ _ r1 hf y hy)) j n))
      (fun x _ rx hrx y hy => by
        cases hf : filterPred (predFn (p.eval sp)) ((ax.locs x).filter (t.accepts sp)) with
        | none => simp [hf] at hrx
        | some r1 =>
          simp only [hf, Option.bind_some] at hrx
          exact cands_keep sp ax t x y (filterPred_sub _ _ r1 hf y (filterPred_sub _ _ rx hrx y hy)))
  | union a b iha ihb =>
    intro c hc; simp only [Expr.eval]; rw [← (iha c hc).1, ← (ihb c hc).1]
    exact unionV_sim sp _ _ (iha c hc).2 (ihb c hc).2
  | filter e p ihe ihp =>
    intro c hc; simp only [Expr.eval]; rw [← (ihe c hc).1]
    exact filterV_sim sp _ _ _ (ihe c hc).2
      (fun y hy j n => predFn_sim sp p (fun c hc => (ihp c hc).1) y hy j n)
  | position => intro c _; exact ⟨rfl, by intro w hw; simp [Expr.eval] at hw; subst hw; trivial⟩
  | last => intro c _; exact ⟨rfl, by intro w hw; simp [Expr.eval] at hw; subst hw; trivial⟩
  | count e ih =>
    intro c hc; simp only [Expr.eval]; rw [← (ih c hc).1]; exact countV_sim sp _
  | string e ih =>
    intro c hc; simp only [Expr.eval]; rw [← (ih c hc).1]; exact stringV_sim sp _
  | stringLength e ih =>
    intro c hc; simp only [Expr.eval]; rw [← (ih c hc).1]; exact strlenV_sim sp _
  | localName e ih =>
    intro c hc; simp only [Expr.eval]; rw [← (ih c hc).1]; exact localNameV_sim sp _
  | boolean e ih =>
    intro c hc; simp only [Expr.eval]; rw [← (ih c hc).1]; exact boolV_sim sp _
  | not e ih =>
    intro c hc; simp only [Expr.eval]; rw [← (ih c hc).1]; exact notV_sim sp _
  | num n => intro c _; exact ⟨rfl, by intro w hw; simp [Expr.eval] at hw; subst hw; trivial⟩
  | lit s => intro c _; exact ⟨rfl, by intro w hw; simp [Expr.eval] at hw; subst hw; trivial⟩
  | eq a b iha ihb =>
    intro c hc; simp only [Expr.eval]; rw [← (iha c hc).1, ← (ihb c hc).1]; exact eqV_sim sp _ _
  | lt a b iha ihb =>
    intro c hc; simp only [Expr.eval]; rw [← (iha c hc).1, ← (ihb c hc).1]
    refine numOp_sim sp _ ?_ _ _
    intro x y; exact ⟨rfl, trivial⟩
  | plus a b iha ihb =>
    intro c hc; simp only [Expr.eval]; rw [← (iha c hc).1, ← (ihb c hc).1]
    refine numOp_sim sp _ ?_ _ _
    intro x y; exact ⟨rfl, trivial⟩
  | minus a b iha ihb =>
    intro c hc; simp only [Expr.eval]; rw [← (iha c hc).1, ← (ihb c hc).1]
    refine numOp_sim sp _ ?_ _ _
    intro x y; exact ⟨rfl, trivial⟩
  | and a b iha ihb =>
    intro c hc; simp only [Expr.eval]; rw [← (iha c hc).1, ← (ihb c hc).1]; exact boolOp_sim sp _ _ _
  | or a b iha ihb =>
    intro c hc; simp only [Expr.eval]; rw [← (iha c hc).1, ← (ihb c hc).1]; exact boolOp_sim sp _ _ _
  | concat a b iha ihb =>
    intro c hc; simp only [Expr.eval]; rw [← (iha c hc).1, ← (ihb c hc).1]
    refine strOp_sim sp _ ?_ _ _
    intro x y; exact ⟨rfl, trivial⟩
  | contains a b iha ihb =>
    intro c hc; simp only [Expr.eval]; rw [← (iha c hc).1, ← (ihb c hc).1]
    refine strOp_sim sp _ ?_ _ _
    intro x y; exact ⟨rfl, trivial⟩
  | startsWith a b iha ihb =>
    intro c hc; simp only [Expr.eval]; rw [← (iha c hc).1, ← (ihb c hc).1]
    refine strOp_sim sp _ ?_ _ _
    intro x y; exact ⟨rfl, trivial⟩
  | normalizeSpace e ih =>
    intro c hc; simp only [Expr.eval]; rw [← (ih c hc).1]; exact normSpaceV_sim sp _
  | attrOf e q ih =>
    intro c hc; simp only [Expr.eval]; rw [← (ih c hc).1]; exact attrOfV_sim sp q _
  | attrCount e ih =>
    intro c hc; simp only [Expr.eval]; rw [← (ih c hc).1]; exact attrCountV_sim sp _

end XalanModel.C13
