import XalanModel.C13.Strip
/-
Helper lemmas for the ordering part of C13: the list built by `addWhitespaceElement` and merged by
`postConstruction`, read by first match, selects the declaration XSLT §3.4 prescribes.
-/
namespace XalanModel.C13

/-! ### `addWhitespaceElement` keeps the list sorted by score (descending, non-strict) -/

theorem mem_addW {α : Type} (sc : α → Score) (l : List α) (t a : α) :
    a ∈ addWhitespaceElementBy sc l t ↔ a = t ∨ a ∈ l := by
  induction l with
  | nil => simp [addWhitespaceElementBy]
  | cons x xs ih =>
    unfold addWhitespaceElementBy
    split
    · simp
    · simp only [List.mem_cons, ih]
      constructor
      · rintro (h | h | h) <;> simp [h]
      · rintro (h | h | h) <;> simp [h]

def SortedDesc {α : Type} (sc : α → Score) (l : List α) : Prop := l.Pairwise (fun a b => sc a ≥ sc b)

theorem sorted_addW {α : Type} (sc : α → Score) (l : List α) (t : α) (h : SortedDesc sc l) :
    SortedDesc sc (addWhitespaceElementBy sc l t) := by
  induction l with
  | nil => simp [addWhitespaceElementBy, SortedDesc]
  | cons x xs ih =>
    unfold SortedDesc at h
    rw [List.pairwise_cons] at h
    unfold addWhitespaceElementBy
    split
    · rename_i hge
      unfold SortedDesc
      rw [List.pairwise_cons, List.pairwise_cons]
      refine ⟨?_, h.1, h.2⟩
      intro a ha
      rcases List.mem_cons.mp ha with rfl | ha
      · exact hge
      · have := h.1 a ha
        exact Nat.le_trans this hge
    · rename_i hlt
      unfold SortedDesc
      rw [List.pairwise_cons]
      refine ⟨?_, ih h.2⟩
      intro a ha
      rcases (mem_addW sc xs t a).mp ha with rfl | ha
      · exact Nat.le_of_lt (Nat.lt_of_not_ge hlt)
      · exact h.1 a ha

/-- one step of `bestIn` -/
def keepBest (parent : QName) (best : Option Tester) (t : Tester) : Option Tester :=
  if t.matches parent then
    match best with
    | none => some t
    | some b => if t.score ≥ b.score then some t else some b
  else best

theorem bestIn_eq_foldl (parent : QName) (d : List Tester) :
    bestIn parent d = d.foldl (keepBest parent) none := rfl

/-- inserting `t` changes the first match exactly as `keepBest` says -/
theorem find_addW (parent : QName) (l : List Tester) (t : Tester) (h : SortedDesc Tester.score l) :
    (addWhitespaceElement l t).find? (fun x => x.matches parent)
      = keepBest parent (l.find? (fun x => x.matches parent)) t := by
  induction l with
  | nil =>
    simp only [addWhitespaceElement, addWhitespaceElementBy, List.find?_cons, List.find?_nil, keepBest]
    cases t.matches parent <;> simp
  | cons x xs ih =>
    unfold SortedDesc at h
    rw [List.pairwise_cons] at h
    simp only [addWhitespaceElement] at ih ⊢
    unfold addWhitespaceElementBy
    split
    · rename_i hge
      -- t goes to the front
      simp only [List.find?_cons (a := t), keepBest]
      cases hm : t.matches parent
      · simp
      · simp only [if_true]
        cases hf : List.find? (fun x => x.matches parent) (x :: xs) with
        | none => rfl
        | some b =>
          have hb : b ∈ x :: xs := List.mem_of_find?_eq_some hf
          have : b.score ≤ t.score := by
            rcases List.mem_cons.mp hb with rfl | hb
            · exact hge
            · exact Nat.le_trans (h.1 b hb) hge
          simp [this]
    · rename_i hlt
      simp only [List.find?_cons (a := x)]
      cases hx : x.matches parent
      · simp only [ih h.2]
      · simp only [keepBest]
        cases t.matches parent
        · simp
        · have : ¬ t.score ≥ x.score := hlt
          simp [this]

theorem find_foldl_addW (parent : QName) (d l : List Tester) (h : SortedDesc Tester.score l) :
    (d.foldl addWhitespaceElement l).find? (fun x => x.matches parent)
      = d.foldl (keepBest parent) (l.find? (fun x => x.matches parent)) := by
  induction d generalizing l with
  | nil => rfl
  | cons t ts ih =>
    simp only [List.foldl_cons]
    have hs : SortedDesc Tester.score (addWhitespaceElement l t) := sorted_addW _ l t h
    rw [ih _ hs, find_addW parent l t h]

/-- first match in a sheet's own list = `bestIn` of its declarations -/
theorem find_ownList (parent : QName) (d : List Tester) :
    (ownList d).find? (fun x => x.matches parent) = bestIn parent d := by
  unfold ownList
  rw [find_foldl_addW parent d [] (by simp [SortedDesc])]
  rfl

/-! ### the import merge lists the modules in decreasing import precedence -/

mutual
theorem post_eq_flatMap : ∀ s : Sheet, s.post = s.postorder.reverse.flatMap ownList
  | .mk d imps => by
    simp only [Sheet.post, Sheet.postorder, List.reverse_append, List.reverse_cons, List.reverse_nil,
      List.nil_append, List.flatMap_cons, List.singleton_append]
    rw [postImports_eq_flatMap imps]
theorem postImports_eq_flatMap : ∀ l : List Sheet,
    Sheet.postImports l = (Sheet.postorderList l).reverse.flatMap ownList
  | [] => by simp [Sheet.postImports, Sheet.postorderList]
  | s :: rest => by
    simp only [Sheet.postImports, Sheet.postorderList, List.reverse_append, List.flatMap_append]
    rw [postImports_eq_flatMap rest, post_eq_flatMap s]
end

theorem find_flatMap {α β : Type} (f : α → List β) (p : β → Bool) (l : List α) :
    (l.flatMap f).find? p = l.findSome? (fun x => (f x).find? p) := by
  induction l with
  | nil => rfl
  | cons x xs ih =>
    simp only [List.flatMap_cons, List.find?_append, List.findSome?_cons, ih]
    cases (f x).find? p <;> rfl

theorem find_post (s : Sheet) (parent : QName) :
    s.post.find? (fun x => x.matches parent) = specWinner s parent := by
  rw [post_eq_flatMap, find_flatMap]
  unfold specWinner
  congr 1
  funext d
  exact find_ownList parent d

/-! ### declarative reading of `bestIn` -/

def BestInv (parent : QName) (d : List Tester) : Option Tester → Prop
  | none => ∀ t ∈ d, t.matches parent = false
  | some w => ∃ pre post, d = pre ++ w :: post ∧ w.matches parent = true ∧
      (∀ t ∈ pre, t.matches parent = true → t.score ≤ w.score) ∧
      (∀ t ∈ post, t.matches parent = true → t.score < w.score)

theorem bestInv_step (parent : QName) (d : List Tester) (best : Option Tester) (t : Tester)
    (h : BestInv parent d best) : BestInv parent (d ++ [t]) (keepBest parent best t) := by
  unfold keepBest
  cases hm : t.matches parent
  · simp only [Bool.false_eq_true, if_false]
    cases best with
    | none =>
      intro x hx
      rcases List.mem_append.mp hx with hx | hx
      · exact h x hx
      · simp at hx; subst hx; exact hm
    | some w =>
      obtain ⟨pre, post, hd, hw, hpre, hpost⟩ := h
      refine ⟨pre, post ++ [t], by simp [hd], hw, hpre, ?_⟩
      intro x hx hxm
      rcases List.mem_append.mp hx with hx | hx
      · exact hpost x hx hxm
      · simp at hx; subst hx; simp [hm] at hxm
  · simp only [if_true]
    cases best with
    | none =>
      refine ⟨d, [], rfl, hm, ?_, by simp⟩
      intro x hx hxm
      have := h x hx
      simp [this] at hxm
    | some w =>
      obtain ⟨pre, post, hd, hw, hpre, hpost⟩ := h
      by_cases hge : t.score ≥ w.score
      · simp only [hge, if_true]
        refine ⟨d, [], rfl, hm, ?_, by simp⟩
        intro x hx hxm
        rw [hd] at hx
        rcases List.mem_append.mp hx with hx | hx
        · exact Nat.le_trans (hpre x hx hxm) hge
        · rcases List.mem_cons.mp hx with rfl | hx
          · exact hge
          · exact Nat.le_trans (Nat.le_of_lt (hpost x hx hxm)) hge
      · simp only [hge, if_false]
        refine ⟨pre, post ++ [t], by simp [hd], hw, hpre, ?_⟩
        intro x hx hxm
        rcases List.mem_append.mp hx with hx | hx
        · exact hpost x hx hxm
        · simp at hx; subst hx; exact Nat.lt_of_not_ge hge

theorem bestInv_foldl (parent : QName) (d0 d : List Tester) (best : Option Tester)
    (h : BestInv parent d0 best) : BestInv parent (d0 ++ d) (d.foldl (keepBest parent) best) := by
  induction d generalizing d0 best with
  | nil => simpa using h
  | cons t ts ih =>
    have := ih (d0 ++ [t]) _ (bestInv_step parent d0 best t h)
    simpa using this

end XalanModel.C13
