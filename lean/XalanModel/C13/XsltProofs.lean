import XalanModel.C13.Xslt
import XalanModel.C13.EvalProofs
/-
Helper lemmas: copy-of and key tables commute with physical stripping.
-/
namespace XalanModel.C13

mutual
theorem copyEvents_strip (sp : StripFn) : ∀ n : Node, copyEvents sp n = copyEvents noStrip (n.strip sp)
  | .elem i n kids => by
    simp only [copyEvents, Node.strip]
    rw [copyKidsEvents_strip sp n kids]
  | .text _ _ => by simp [copyEvents, Node.strip]
  | .comment _ _ => by simp [copyEvents, Node.strip]
  | .pi _ _ _ => by simp [copyEvents, Node.strip]
theorem copyKidsEvents_strip (sp : StripFn) (pn : Option Tag) : ∀ ks : List Node,
    copyKidsEvents sp pn ks = copyKidsEvents noStrip pn (Node.stripKids sp pn ks)
  | [] => by simp [copyKidsEvents, Node.stripKids]
  | k :: ks => by
    rw [stripKids_cons]
    simp only [copyKidsEvents]
    by_cases h : k.stripped sp pn = true
    · simp only [h, if_true]
      rw [copyKidsEvents_strip sp pn ks]
      simp
    · have h' : k.stripped sp pn = false := (Bool.not_eq_true _).mp h
      have hn : (k.strip sp).stripped noStrip pn = false := by cases k <;> rfl
      simp only [h', Bool.false_eq_true, if_false, copyKidsEvents, hn]
      rw [copyKidsEvents_strip sp pn ks, copyEvents_strip sp k]
end

theorem copyOf_strip (sp : StripFn) (v : Option Value) :
    copyOf sp v = copyOf noStrip (v.map (Value.strip sp)) := by
  cases v with
  | none => rfl
  | some v =>
    cases v with
    | ns l =>
      simp only [copyOf, Option.map_some, Value.strip_ns, Option.some.injEq]
      induction l with
      | nil => rfl
      | cons x xs ih =>
        simp only [List.flatMap_cons, List.map_cons, ih]
        congr 1
        cases x with
        | node l => simp only [copyX, XNode.strip, Loc.strip_focus]; exact copyEvents_strip sp l.focus
        | attr o k i q v => cases k <;> rfl
    | num n => rfl
    | str s => rfl
    | bool b => rfl

/-! ### patterns as expressions -/

theorem memById_strip (sp : StripFn) (x : XNode) (l : List XNode) :
    memById (x.strip sp) (l.map (XNode.strip sp)) = memById x l := by
  induction l with
  | nil => rfl
  | cons y ys ih =>
    simp only [memById, List.map_cons, List.any_cons, XNode.strip_id] at ih ⊢
    rw [ih]

theorem patternSelects_strip (sp : StripFn) (sel : Expr) (root : Loc) (x : XNode) (hr : root.stripped sp = false) :
    patternSelects sp sel root x = patternSelects noStrip sel (root.strip sp) (x.strip sp) := by
  unfold patternSelects
  have h := (eval_sim sp sel ⟨.node root, 1, 1, []⟩ ⟨hr, by simp⟩).1
  simp only [Ctx.strip, XNode.strip, List.map_nil] at h
  rw [← h]
  cases sel.eval sp ⟨.node root, 1, 1, []⟩ with
  | none => rfl
  | some v => cases v <;> simp [memById_strip]

/-! ### select contexts and sort keys -/

theorem ctxList_strip (sp : StripFn) (n : Nat) (vars : List Value) : ∀ (l : List XNode) (i : Nat),
    (ctxList n vars l i).map (Ctx.strip sp) = ctxList n (vars.map (Value.strip sp)) (l.map (XNode.strip sp)) i
  | [], _ => rfl
  | x :: xs, i => by simp [ctxList, Ctx.strip, ctxList_strip sp n vars xs (i + 1)]

theorem contextsOf_strip (sp : StripFn) (vars : List Value) (v : Option Value) :
    (contextsOf vars v).map (List.map (Ctx.strip sp))
      = contextsOf (vars.map (Value.strip sp)) (v.map (Value.strip sp)) := by
  cases v with
  | none => rfl
  | some v => cases v <;> simp [contextsOf, ctxList_strip]

theorem ctxList_nodes (n : Nat) (vars : List Value) : ∀ (l : List XNode) (i : Nat),
    ∀ cx ∈ ctxList n vars l i, cx.node ∈ l ∧ cx.vars = vars
  | [], _, cx, h => by simp [ctxList] at h
  | x :: xs, i, cx, h => by
    simp only [ctxList, List.mem_cons] at h
    rcases h with rfl | h
    · simp
    · exact ⟨List.mem_cons_of_mem _ (ctxList_nodes n vars xs (i + 1) cx h).1, (ctxList_nodes n vars xs (i + 1) cx h).2⟩

theorem sortKeys_strip (sp : StripFn) (sel key : Expr) (c : Ctx) (hc : c.ok sp) :
    sortKeys sp sel key c = sortKeys noStrip sel key (c.strip sp) := by
  unfold sortKeys
  have hs := eval_sim sp sel c hc
  show _ = Option.map _ (contextsOf (Ctx.strip sp c).vars _)
  rw [← hs.1, show (Ctx.strip sp c).vars = c.vars.map (Value.strip sp) from rfl, ← contextsOf_strip]
  cases hv : sel.eval sp c with
  | none => rfl
  | some v =>
    cases v with
    | ns l =>
      simp only [contextsOf, Option.map_some, List.map_map, Option.some.injEq]
      apply List.map_congr_left
      intro cx hcx
      have hcl := ctxList_nodes l.length c.vars l 1 cx hcx
      have hx : cx.node.stripped sp = false := hs.2 l hv cx.node hcl.1
      have hk := (eval_sim sp key cx ⟨hx, by rw [hcl.2]; exact hc.2⟩).1
      simp only [Function.comp]
      rw [← hk]
      cases key.eval sp cx with
      | none => rfl
      | some w => simp [Value.toStr_strip]
    | num n => rfl
    | str s => rfl
    | bool b => rfl

/-! ### keys -/

theorem isDocument_strip (sp : StripFn) (l : Loc) : (l.strip sp).isDocument = l.isDocument := by
  simp [Loc.isDocument, Loc.strip]

theorem patMatches_strip (sp : StripFn) (t : Pat) (l : Loc) :
    patMatches sp t l = (keep sp l && patMatches noStrip t (l.strip sp)) := by
  unfold patMatches keep
  exact t.strip sp l

theorem testMatches_strip (sp : StripFn) (t : Test) (l : Loc) :
    testMatches sp t l = (keep sp l && testMatches noStrip t (l.strip sp)) := by
  unfold testMatches
  rw [accepts_strip sp t l, isDocument_strip]
  cases l.isDocument <;> cases keep sp l <;> simp

/-- a one-step pattern: a node test -/
def testPat (t : Test) : Pat where
  m := fun sp l => testMatches sp t l
  doc := by intro sp x hx; simp [testMatches, hx]
  strip := by intro sp x; exact testMatches_strip sp t x

/-- any expression of the fragment read as a pattern (`a/b[2]`, `*[not(text())]//c`, …): `x` matches iff it is not
stripped, not the document node, and selected by `sel` evaluated at the document node of its tree -/
def exprPatM (sel : Expr) (sp : StripFn) (x : Loc) : Bool :=
  !x.isDocument && !x.stripped sp && (patternSelects sp sel x.root (.node x) == some true)

def exprPat (sel : Expr) : Pat where
  m := exprPatM sel
  doc := by intro sp x hx; simp [exprPatM, hx]
  strip := by
    intro sp x
    unfold exprPatM
    rw [isDocument_strip, stripped_after_strip]
    cases hs : x.stripped sp
    · have hr := root_strip sp x hs
      rw [patternSelects_strip sp sel x.root (.node x) hr.2, hr.1]
      simp [XNode.strip]
    · simp

def stripEntry (sp : StripFn) (e : String × Loc) : String × Loc := (e.1, e.2.strip sp)

theorem mergeEntries_strip (sp : StripFn) (g g' : Loc → Option (List (String × Loc))) (L : List Loc)
    (hk : ∀ x ∈ L, keep sp x = true → (g x).map (List.map (stripEntry sp)) = g' (x.strip sp))
    (hn : ∀ x ∈ L, keep sp x = false → g x = some []) :
    (mergeEntries g L).map (List.map (stripEntry sp))
      = mergeEntries g' ((L.filter (keep sp)).map (Loc.strip sp)) := by
  induction L with
  | nil => rfl
  | cons x xs ih =>
    have ih' := ih (fun y hy => hk y (List.mem_cons_of_mem _ hy)) (fun y hy => hn y (List.mem_cons_of_mem _ hy))
    simp only [mergeEntries, List.filter_cons]
    by_cases hx : keep sp x = true
    · simp only [hx, if_true, List.map_cons, mergeEntries]
      rw [← hk x (by simp) hx, ← ih']
      cases g x <;> cases mergeEntries g xs <;> simp
    · have hx' : keep sp x = false := (Bool.not_eq_true _).mp hx
      simp only [hx', Bool.false_eq_true, if_false, hn x (by simp) hx']
      rw [← ih']
      cases mergeEntries g xs <;> simp

theorem keyEntriesAt_strip (sp : StripFn) (k : KeyDecl) (n : Loc) (hn : keep sp n = true) :
    (keyEntriesAt sp k n).map (List.map (stripEntry sp)) = keyEntriesAt noStrip k (n.strip sp) := by
  have hs : n.stripped sp = false := by simpa [keep] using hn
  have ha := patMatches_strip sp k.matchT n
  have he := (eval_sim sp k.use ⟨.node n, 1, 1, []⟩ ⟨hs, by simp⟩).1
  simp only [Ctx.strip, XNode.strip, List.map_nil] at he
  unfold keyEntriesAt
  rw [ha, hn, Bool.true_and, ← he]
  cases patMatches noStrip k.matchT (n.strip sp)
  · rfl
  · simp only [if_true]
    cases k.use.eval sp ⟨.node n, 1, 1, []⟩ with
    | none => rfl
    | some v =>
      cases v with
      | ns l =>
        simp only [Option.map_some, Value.strip_ns, List.map_map]
        congr 1
        apply List.map_congr_left
        intro x _
        simp [stripEntry, XNode.strVal_strip]
      | num m => rfl
      | str s => rfl
      | bool b => rfl

theorem keyEntriesAt_stripped (sp : StripFn) (k : KeyDecl) (n : Loc) (hn : keep sp n = false) :
    keyEntriesAt sp k n = some [] := by
  unfold keyEntriesAt
  rw [patMatches_strip, hn]
  simp

theorem keyTable_strip (sp : StripFn) (k : KeyDecl) (root : Loc) (h : root.stripped sp = false) :
    (keyTable sp k root).map (List.map (stripEntry sp)) = keyTable noStrip k (root.strip sp) := by
  unfold keyTable
  rw [mergeEntries_strip sp _ (keyEntriesAt noStrip k) _
    (fun x _ hx => keyEntriesAt_strip sp k x hx) (fun x _ hx => keyEntriesAt_stripped sp k x hx)]
  have hk : keep sp root = true := by simp [keep, h]
  simp only [List.filter_cons, hk, if_true, List.map_cons]
  rw [descendants_strip]

theorem keyLookup_strip (sp : StripFn) (k : KeyDecl) (root : Loc) (s : String) (h : root.stripped sp = false) :
    (keyLookup sp k root s).map (List.map (XNode.strip sp)) = keyLookup noStrip k (root.strip sp) s := by
  unfold keyLookup
  rw [← keyTable_strip sp k root h]
  cases keyTable sp k root with
  | none => rfl
  | some t =>
    simp only [Option.map_some, Option.some.injEq]
    rw [← docOrder_map]
    congr 1
    induction t with
    | nil => rfl
    | cons e es ih =>
      simp only [List.map_cons, List.filter_cons, stripEntry]
      cases e.1 == s <;> simp [ih, XNode.strip]

theorem keyLookupArg_strip (sp : StripFn) (k : KeyDecl) (root : Loc) (v : Option Value)
    (h : root.stripped sp = false) :
    (keyLookupArg sp k root v).map (List.map (XNode.strip sp))
      = keyLookupArg noStrip k (root.strip sp) (v.map (Value.strip sp)) := by
  cases v with
  | none => rfl
  | some v =>
    cases v with
    | ns l =>
      simp only [keyLookupArg, Option.map_some, Value.strip_ns, Option.map_map]
      rw [← mergeStep_map sp (fun x => keyLookup sp k root (x.strVal sp))
        (fun x => keyLookup noStrip k (root.strip sp) (x.strVal noStrip)) l
        (fun x _ => by rw [XNode.strVal_strip]; exact keyLookup_strip sp k root _ h)]
      cases mergeStep (fun x => keyLookup sp k root (x.strVal sp)) l with
      | none => rfl
      | some r => simp [docOrder_map]
    | num n => exact keyLookup_strip sp k root _ h
    | str s => exact keyLookup_strip sp k root _ h
    | bool b => exact keyLookup_strip sp k root _ h

/-! ### xsl:number level any, the specification -/

theorem fromMatches_strip (sp : StripFn) (f : Option Pat) (l : Loc) (h : keep sp l = true) :
    fromMatches sp f l = fromMatches noStrip f (l.strip sp) := by
  cases f with
  | none => rfl
  | some t => simp [fromMatches, patMatches_strip sp t l, h]


theorem precSibsDesc_strip (sp : StripFn) (a : Loc) (has : a.stripped sp = false) :
    (((a.precedingSiblings).flatMap fun s => s.descOrSelf.reverse).filter (keep sp)).map (Loc.strip sp)
      = ((a.strip sp).precedingSiblings).flatMap fun s => s.descOrSelf.reverse := by
  rw [flatMap_strip sp (fun s => s.descOrSelf.reverse) (fun s => s.descOrSelf.reverse) a.precedingSiblings
    (fun x _ hx => descOrSelfRev_strip sp x hx) (fun x _ hx => descOrSelfRev_stripped sp x hx)]
  rw [precedingSiblings_strip sp a has]

theorem beforeAux_strip (sp : StripFn) : ∀ (path : List Frame) (focus : Node),
    Loc.stripped sp ⟨focus, path⟩ = false →
    ((beforeAux focus path).filter (keep sp)).map (Loc.strip sp)
      = beforeAux (focus.strip sp) (path.map (Frame.strip sp))
  | [], _, _ => by simp [beforeAux]
  | f :: p, focus, h => by
    have hf : focus.stripped sp f.pname = false := h
    have ih := beforeAux_strip sp p (f.parentNode focus) (parentLoc_not_stripped sp f focus p)
    have hs := precSibsDesc_strip sp ⟨focus, f :: p⟩ h
    have hdoc : (Loc.mk ((f.strip sp).parentNode (focus.strip sp)) (p.map (Frame.strip sp))).isDocument
        = (Loc.mk (f.parentNode focus) p).isDocument := by
      rw [← parentNode_strip sp f focus hf]
      exact isDocument_strip sp ⟨f.parentNode focus, p⟩
    simp only [beforeAux, List.filter_append, List.map_append, List.map_cons]
    rw [hs, hdoc]
    congr 1
    cases (Loc.mk (f.parentNode focus) p).isDocument
    · simp only [Bool.false_eq_true, if_false, List.filter_cons, keep, parentLoc_not_stripped, Bool.not_false,
        if_true, List.map_cons]
      rw [ih]
      simp [Loc.strip, parentNode_strip sp f focus hf]
    · simp

theorem before_strip (sp : StripFn) (l : Loc) (h : l.stripped sp = false) :
    ((l.before).filter (keep sp)).map (Loc.strip sp) = (l.strip sp).before :=
  beforeAux_strip sp l.path l.focus h

theorem filter_patMatches_strip (sp : StripFn) (c : Pat) (L : List Loc) :
    (L.filter (patMatches sp c)).length
      = (((L.filter (keep sp)).map (Loc.strip sp)).filter (patMatches noStrip c)).length := by
  induction L with
  | nil => rfl
  | cons x xs ih =>
    simp only [List.filter_cons]
    rw [patMatches_strip sp c x]
    by_cases hk : keep sp x = true
    · by_cases hp : patMatches noStrip c (x.strip sp) = true
      · simp [hk, hp, ih]
      · simp [hk, hp, ih]
    · simp [hk, ih]

theorem takeWhile_from_strip (sp : StripFn) (f : Option Pat) :
    ∀ L : List Loc,
      (((L.takeWhile fun x => !fromMatches sp f x).filter (keep sp)).map (Loc.strip sp))
        = (((L.filter (keep sp)).map (Loc.strip sp)).takeWhile fun x => !fromMatches noStrip f x)
  | [] => rfl
  | x :: xs => by
    have ih := takeWhile_from_strip sp f xs
    by_cases hk : keep sp x = true
    · have hf := fromMatches_strip sp f x hk
      simp only [List.takeWhile_cons, List.filter_cons, hk, if_true, List.map_cons]
      rw [← hf]
      cases fromMatches sp f x
      · simp [hk, ih]
      · simp
    · have hk' : keep sp x = false := (Bool.not_eq_true _).mp hk
      -- a stripped node matches no pattern: the walk passes it, and it is not there on D'
      have hfx : fromMatches sp f x = false := by
        cases f with
        | none => rfl
        | some t => simp [fromMatches, patMatches_strip sp t x, hk']
      simp only [List.takeWhile_cons, hfx, Bool.not_false, if_true, List.filter_cons, hk', Bool.false_eq_true,
        if_false]
      exact ih

theorem numberAnySpec_strip (sp : StripFn) (c : Pat) (f : Option Pat) (l : Loc) (h : l.stripped sp = false) :
    numberAnySpec sp c f l = numberAnySpec noStrip c f (l.strip sp) := by
  unfold numberAnySpec
  rw [filter_patMatches_strip sp c (l :: _)]
  have hk : keep sp l = true := by simp [keep, h]
  simp only [List.filter_cons, hk, if_true, List.map_cons]
  rw [takeWhile_from_strip sp f l.before, before_strip sp l h]

/-! ### xsl:number single / multiple -/

theorem matchingAncestorsFrom_strip (sp : StripFn) (c : Pat) (f : Option Pat) (single : Bool) :
    ∀ (L : List Loc) (b : Bool), (∀ x ∈ L, keep sp x = true) →
      (matchingAncestorsFrom sp c f single b L).map (Loc.strip sp)
        = matchingAncestorsFrom noStrip c f single b (L.map (Loc.strip sp))
  | [], _, _ => rfl
  | n :: rest, b, h => by
    have hn := h n (by simp)
    have ih := matchingAncestorsFrom_strip sp c f single rest false
      (fun x hx => h x (List.mem_cons_of_mem _ hx))
    simp only [matchingAncestorsFrom, List.map_cons]
    rw [← fromMatches_strip sp f n hn]
    have hp : patMatches sp c n = patMatches noStrip c (n.strip sp) := by
      rw [patMatches_strip sp c n, hn, Bool.true_and]
    rw [← hp]
    cases b <;> cases fromMatches sp f n <;> cases single <;> cases patMatches sp c n <;> simp [ih]

theorem matchingAncestors_strip (sp : StripFn) (c : Pat) (f : Option Pat) (single : Bool)
    (L : List Loc) (h : ∀ x ∈ L, keep sp x = true) :
    (matchingAncestors sp c f single L).map (Loc.strip sp)
      = matchingAncestors noStrip c f single (L.map (Loc.strip sp)) :=
  matchingAncestorsFrom_strip sp c f single L true h

theorem siblingChain_strip (sp : StripFn) (c : Pat) :
    ∀ L : List Loc, siblingChain sp c L = siblingChain noStrip c ((L.filter (keep sp)).map (Loc.strip sp))
  | [] => rfl
  | x :: xs => by
    have ih := siblingChain_strip sp c xs
    simp only [siblingChain, List.filter_cons]
    rw [patMatches_strip sp c x]
    by_cases hk : keep sp x = true
    · simp only [hk, Bool.true_and, if_true, List.map_cons, siblingChain, ih]
    · have hk' : keep sp x = false := (Bool.not_eq_true _).mp hk
      simp only [hk', Bool.false_and, Bool.false_eq_true, if_false, ih]

theorem numberOfTarget_strip (sp : StripFn) (c : Pat) (t : Loc) (h : t.stripped sp = false) :
    numberOfTarget sp c t = numberOfTarget noStrip c (t.strip sp) := by
  unfold numberOfTarget
  rw [siblingChain_strip sp c t.precedingSiblings, precedingSiblings_strip sp t h]

theorem matchingAncestorsFrom_sub (sp : StripFn) (c : Pat) (f : Option Pat) (single : Bool) :
    ∀ (L : List Loc) (b : Bool), ∀ x ∈ matchingAncestorsFrom sp c f single b L, x ∈ L
  | [], _, x, hx => by simp [matchingAncestorsFrom] at hx
  | n :: rest, b, x, hx => by
    simp only [matchingAncestorsFrom] at hx
    split at hx
    · simp at hx
    · split at hx
      · split at hx
        · simp at hx; simp [hx]
        · rcases List.mem_cons.mp hx with hx | hx
          · simp [hx]
          · exact List.mem_cons_of_mem _ (matchingAncestorsFrom_sub sp c f single rest false x hx)
      · exact List.mem_cons_of_mem _ (matchingAncestorsFrom_sub sp c f single rest false x hx)

theorem matchingAncestors_sub (sp : StripFn) (c : Pat) (f : Option Pat) (single : Bool)
    (L : List Loc) : ∀ x ∈ matchingAncestors sp c f single L, x ∈ L :=
  matchingAncestorsFrom_sub sp c f single L true

theorem numberList_strip (sp : StripFn) (c : Pat) (f : Option Pat) (single : Bool) (l : Loc)
    (h : l.stripped sp = false) :
    numberList sp c f single l = numberList noStrip c f single (l.strip sp) := by
  unfold numberList
  have hk := selfAndAncestors_keep sp l h
  have hmap : (l :: l.ancestors).map (Loc.strip sp) = l.strip sp :: (l.strip sp).ancestors := by
    have := selfAndAncestors_strip sp l h
    rwa [List.filter_eq_self.mpr (fun x hx => hk x hx)] at this
  rw [← hmap, ← matchingAncestors_strip sp c f single _ hk, ← List.map_reverse, List.map_map]
  apply List.map_congr_left
  intro t ht
  have htm : t ∈ l :: l.ancestors :=
    matchingAncestors_sub sp c f single _ t (List.mem_reverse.mp ht)
  have hts : t.stripped sp = false := by simpa [keep] using hk t htm
  simp [numberOfTarget_strip sp c t hts]

end XalanModel.C13
