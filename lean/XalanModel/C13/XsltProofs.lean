import XalanModel.C13.Xslt
import XalanModel.C13.EvalProofs
/-
Helper lemmas: copy-of and key tables commute with physical stripping.
-/
namespace XalanModel.C13

mutual
theorem copyEvents_strip (sp : StripFn) : ∀ n : Node, copyEvents sp n = copyEvents noStrip (n.strip sp)
  | .elem i n kids => by
    simp only [copyEvents, Node.strip]
    rw [copyKidsEvents_strip sp n kids]
  | .text _ _ => by simp [copyEvents, Node.strip]
  | .comment _ _ => by simp [copyEvents, Node.strip]
  | .pi _ _ _ => by simp [copyEvents, Node.strip]
theorem copyKidsEvents_strip (sp : StripFn) (pn : Option QName) : ∀ ks : List Node,
    copyKidsEvents sp pn ks = copyKidsEvents noStrip pn (Node.stripKids sp pn ks)
  | [] => by simp [copyKidsEvents, Node.stripKids]
  | k :: ks => by
    rw [stripKids_cons]
    simp only [copyKidsEvents]
    by_cases h : k.stripped sp pn = true
    · simp only [h, if_true]
      rw [copyKidsEvents_strip sp pn ks]
      simp
    · have h' : k.stripped sp pn = false := (Bool.not_eq_true _).mp h
      have hn : (k.strip sp).stripped noStrip pn = false := by cases k <;> rfl
      simp only [h', Bool.false_eq_true, if_false, copyKidsEvents, hn]
      rw [copyKidsEvents_strip sp pn ks, copyEvents_strip sp k]
end

theorem copyOf_strip (sp : StripFn) (v : Option Value) :
    copyOf sp v = copyOf noStrip (v.map (Value.strip sp)) := by
  cases v with
  | none => rfl
  | some v =>
    cases v with
    | ns l =>
      simp only [copyOf, Option.map_some, Value.strip_ns, Option.some.injEq]
      induction l with
      | nil => rfl
      | cons x xs ih =>
        simp only [List.flatMap_cons, List.map_cons, ih, Loc.strip_focus]
        rw [copyEvents_strip sp x.focus]
    | num n => rfl
    | str s => rfl
    | bool b => rfl

/-! ### keys -/

theorem isDocument_strip (sp : StripFn) (l : Loc) : (l.strip sp).isDocument = l.isDocument := by
  obtain ⟨focus, path⟩ := l
  cases focus with
  | elem i n kids => cases n <;> rfl
  | text i d => rfl
  | comment i d => rfl
  | pi i t d => rfl

theorem patMatches_strip (sp : StripFn) (t : Test) (l : Loc) :
    patMatches sp t l = (keep sp l && patMatches noStrip t (l.strip sp)) := by
  unfold patMatches
  rw [accepts_strip sp t l, isDocument_strip]
  cases l.isDocument <;> cases keep sp l <;> simp

def stripEntry (sp : StripFn) (e : String × Loc) : String × Loc := (e.1, e.2.strip sp)

theorem mergeEntries_strip (sp : StripFn) (g g' : Loc → Option (List (String × Loc))) (L : List Loc)
    (hk : ∀ x ∈ L, keep sp x = true → (g x).map (List.map (stripEntry sp)) = g' (x.strip sp))
    (hn : ∀ x ∈ L, keep sp x = false → g x = some []) :
    (mergeEntries g L).map (List.map (stripEntry sp))
      = mergeEntries g' ((L.filter (keep sp)).map (Loc.strip sp)) := by
  induction L with
  | nil => rfl
  | cons x xs ih =>
    have ih' := ih (fun y hy => hk y (List.mem_cons_of_mem _ hy)) (fun y hy => hn y (List.mem_cons_of_mem _ hy))
    simp only [mergeEntries, List.filter_cons]
    by_cases hx : keep sp x = true
    · simp only [hx, if_true, List.map_cons, mergeEntries]
      rw [← hk x (by simp) hx, ← ih']
      cases g x <;> cases mergeEntries g xs <;> simp
    · have hx' : keep sp x = false := (Bool.not_eq_true _).mp hx
      simp only [hx', Bool.false_eq_true, if_false, hn x (by simp) hx']
      rw [← ih']
      cases mergeEntries g xs <;> simp

theorem keyEntriesAt_strip (sp : StripFn) (k : KeyDecl) (n : Loc) (hn : keep sp n = true) :
    (keyEntriesAt sp k n).map (List.map (stripEntry sp)) = keyEntriesAt noStrip k (n.strip sp) := by
  have hs : n.stripped sp = false := by simpa [keep] using hn
  have ha := patMatches_strip sp k.matchT n
  have he := (eval_sim sp k.use ⟨n, 1, 1⟩ hs).1
  simp only [Ctx.strip] at he
  unfold keyEntriesAt
  rw [ha, hn, Bool.true_and, ← he]
  cases patMatches noStrip k.matchT (n.strip sp)
  · rfl
  · simp only [if_true]
    cases k.use.eval sp ⟨n, 1, 1⟩ with
    | none => rfl
    | some v =>
      cases v with
      | ns l =>
        simp only [Option.map_some, Value.strip_ns, List.map_map]
        congr 1
        apply List.map_congr_left
        intro x _
        simp [stripEntry, Loc.strVal_strip]
      | num m => rfl
      | str s => rfl
      | bool b => rfl

theorem keyEntriesAt_stripped (sp : StripFn) (k : KeyDecl) (n : Loc) (hn : keep sp n = false) :
    keyEntriesAt sp k n = some [] := by
  unfold keyEntriesAt
  rw [patMatches_strip, hn]
  simp

theorem keyTable_strip (sp : StripFn) (k : KeyDecl) (root : Loc) (h : root.stripped sp = false) :
    (keyTable sp k root).map (List.map (stripEntry sp)) = keyTable noStrip k (root.strip sp) := by
  unfold keyTable
  rw [mergeEntries_strip sp _ (keyEntriesAt noStrip k) _
    (fun x _ hx => keyEntriesAt_strip sp k x hx) (fun x _ hx => keyEntriesAt_stripped sp k x hx)]
  have hk : keep sp root = true := by simp [keep, h]
  simp only [List.filter_cons, hk, if_true, List.map_cons]
  rw [descendants_strip]

theorem keyLookup_strip (sp : StripFn) (k : KeyDecl) (root : Loc) (s : String) (h : root.stripped sp = false) :
    (keyLookup sp k root s).map (List.map (Loc.strip sp)) = keyLookup noStrip k (root.strip sp) s := by
  unfold keyLookup
  rw [← keyTable_strip sp k root h]
  cases keyTable sp k root with
  | none => rfl
  | some t =>
    simp only [Option.map_some, Option.some.injEq]
    rw [← docOrder_map]
    congr 1
    induction t with
    | nil => rfl
    | cons e es ih =>
      simp only [List.map_cons, List.filter_cons, stripEntry]
      cases e.1 == s <;> simp [ih]

end XalanModel.C13
