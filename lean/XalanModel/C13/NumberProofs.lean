import XalanModel.C13.XsltProofs
/-
Helper lemmas: the backwards walk of `xsl:number level="any"` without `from`
(`findTargetAny` / `getPreviousNodeAny` / `chainLength`) computes the Recommendation's count `numberAnySpec`
(matching nodes among the current node and all nodes before it in document order).

Plan: `Loc.before l` is either empty or `m :: m.before` where `m` is the physically previous node (last
descendant of the previous sibling, else the parent unless that is the document) — `before_step`/`dive`;
hence every suffix of `l.before` is the `before` of its predecessor (`before_suffix`); the walk's
`find`-like loops are `List.find?` on that list.
-/
namespace XalanModel.C13

/-! ### descendants as the flattening of the children's subtrees -/

theorem descKids_eq_flatMap (pid : Nat) (pn : Option Tag) (path : List Frame) :
    ∀ (ks left : List Node),
      descKids pid pn path left ks = (sibsRight pid pn path left ks).flatMap Loc.descOrSelf
  | [], _ => by simp [descKids, sibsRight]
  | k :: ks, left => by
    simp only [descKids, sibsRight, List.flatMap_cons, Loc.descOrSelf, Loc.descendants]
    rw [descKids_eq_flatMap pid pn path ks (k :: left)]

theorem descendants_eq_flatMap (l : Loc) : l.descendants = l.children.flatMap Loc.descOrSelf := by
  obtain ⟨focus, path⟩ := l
  cases focus with
  | elem i n kids => simp [Loc.descendants, descNode, Loc.children, descKids_eq_flatMap]
  | text i d => simp [Loc.descendants, descNode, Loc.children]
  | comment i d => simp [Loc.descendants, descNode, Loc.children]
  | pi i t d => simp [Loc.descendants, descNode, Loc.children]

/-! ### `before` of neighbouring siblings and of a first child -/

theorem before_next_sibling (pid : Nat) (pn : Option Tag) (path : List Frame) (left ks : List Node) (k k' : Node) :
    Loc.before ⟨k', ⟨k :: left, pid, pn, ks⟩ :: path⟩
      = (Loc.descOrSelf ⟨k, ⟨left, pid, pn, k' :: ks⟩ :: path⟩).reverse
          ++ Loc.before ⟨k, ⟨left, pid, pn, k' :: ks⟩ :: path⟩ := by
  simp only [Loc.before, beforeAux, Loc.precedingSiblings, sibsLeft, List.flatMap_cons, Frame.parentNode,
    List.reverse_cons, List.append_assoc, List.singleton_append]
  rfl

theorem before_first_child (i : Nat) (n : Option Tag) (k : Node) (ks : List Node) (path : List Frame) :
    Loc.before ⟨k, ⟨[], i, n, ks⟩ :: path⟩
      = if (Loc.mk (.elem i n (k :: ks)) path).isDocument then []
        else ⟨.elem i n (k :: ks), path⟩ :: Loc.before ⟨.elem i n (k :: ks), path⟩ := by
  simp only [Loc.before, beforeAux, Loc.precedingSiblings, sibsLeft, Frame.parentNode, List.flatMap_nil,
    List.nil_append, List.reverse_nil]
  rfl

/-- over a run of siblings `x0 … xm`: the reversed subtrees followed by `before x0` is the reversed subtree of
`xm` followed by `before xm` -/
theorem chain_children (pid : Nat) (pn : Option Tag) (path : List Frame) :
    ∀ (ks left : List Node) (x0 : Loc) (rest : List Loc), sibsRight pid pn path left ks = x0 :: rest →
      ∀ xm, (x0 :: rest).getLast? = some xm →
        ((x0 :: rest).flatMap Loc.descOrSelf).reverse ++ x0.before = xm.descOrSelf.reverse ++ xm.before
  | [], _, _, _, h => by simp [sibsRight] at h
  | [k], left, x0, rest, h => by
    simp only [sibsRight, List.cons.injEq] at h
    obtain ⟨rfl, rfl⟩ := h
    intro xm hm
    simp only [List.getLast?_singleton, Option.some.injEq] at hm
    subst hm
    simp
  | k :: k' :: ks, left, x0, rest, h => by
    simp only [sibsRight, List.cons.injEq] at h
    obtain ⟨rfl, rfl⟩ := h
    intro xm hm
    have hm' : (sibsRight pid pn path (k :: left) (k' :: ks)).getLast? = some xm := by
      simpa [sibsRight] using hm
    have ih := chain_children pid pn path (k' :: ks) (k :: left)
      ⟨k', ⟨k :: left, pid, pn, ks⟩ :: path⟩ (sibsRight pid pn path (k' :: k :: left) ks) rfl xm
      (by simpa [sibsRight] using hm')
    simp only [List.flatMap_cons, List.reverse_append, List.append_assoc] at ih ⊢
    rw [← before_next_sibling pid pn path left ks k k']
    simpa [sibsRight, List.flatMap_cons, List.reverse_append, List.append_assoc] using ih

/-! ### diving to the last descendant -/

theorem descOrSelf_nonDoc_children (l x : Loc) (hx : x ∈ l.children) : x.isDocument = false := by
  obtain ⟨focus, path⟩ := l
  cases focus with
  | elem i n kids =>
    simp only [Loc.children] at hx
    have : ∀ (ks left : List Node), ∀ y ∈ sibsRight i n path left ks, y.isDocument = false := by
      intro ks
      induction ks with
      | nil => intro left y hy; simp [sibsRight] at hy
      | cons k ks ih =>
        intro left y hy
        simp only [sibsRight, List.mem_cons] at hy
        rcases hy with rfl | hy
        · rfl
        · exact ih _ y hy
    exact this kids [] x hx
  | text i d => simp [Loc.children] at hx
  | comment i d => simp [Loc.children] at hx
  | pi i t d => simp [Loc.children] at hx

/-- `s.descOrSelf.reverse ++ s.before` starts with the deepest last descendant of `s`, followed by its `before` -/
theorem dive (n : Nat) : ∀ (s : Loc), s.descendants.length ≤ n → s.isDocument = false →
    s.descOrSelf.reverse ++ s.before = deepestLast n s :: (deepestLast n s).before := by
  induction n using Nat.strongRecOn with
  | _ n dive =>
    intro s hn hdoc
    obtain ⟨focus, path⟩ := s
    cases hc : (Loc.children ⟨focus, path⟩) with
    | nil =>
      have hd : (Loc.mk focus path).descendants = [] := by rw [descendants_eq_flatMap, hc]; rfl
      have hdl : deepestLast n ⟨focus, path⟩ = ⟨focus, path⟩ := by
        cases n with
        | zero => rfl
        | succ m => simp [deepestLast, Loc.lastChild, hc]
      simp [Loc.descOrSelf, hd, hdl]
    | cons x0 rest =>
      -- the focus is an element with kids
      cases focus with
      | elem i nm kids =>
        cases kids with
        | nil => simp [Loc.children, sibsRight] at hc
        | cons k ks =>
          obtain ⟨xm, hxm⟩ : ∃ xm, (x0 :: rest).getLast? = some xm := by
            cases h : (x0 :: rest).getLast? with
            | none => simp at h
            | some y => exact ⟨y, rfl⟩
          have hx0 : x0 = ⟨k, ⟨[], i, nm, ks⟩ :: path⟩ := by
            simp only [Loc.children, sibsRight, List.cons.injEq] at hc
            exact hc.1.symm
          have hdesc : (Loc.mk (.elem i nm (k :: ks)) path).descendants = (x0 :: rest).flatMap Loc.descOrSelf := by
            rw [descendants_eq_flatMap, hc]
          have hmem : xm ∈ x0 :: rest := List.mem_of_getLast? hxm
          -- fuel: one node (xm) is consumed
          have hlen : xm.descendants.length + 1 ≤ (Loc.mk (.elem i nm (k :: ks)) path).descendants.length := by
            rw [hdesc]
            have : xm.descOrSelf.length ≤ ((x0 :: rest).flatMap Loc.descOrSelf).length := by
              obtain ⟨a, b, hab⟩ := List.append_of_mem hmem
              rw [hab]
              simp only [List.flatMap_append, List.flatMap_cons, List.length_append]
              omega
            simpa [Loc.descOrSelf] using this
          cases n with
          | zero => omega
          | succ m =>
            have hdl : deepestLast (m + 1) ⟨.elem i nm (k :: ks), path⟩ = deepestLast m xm := by
              simp [deepestLast, Loc.lastChild, hc, hxm]
            rw [hdl]
            have hch := chain_children i nm path (k :: ks) [] x0 rest (by simpa [Loc.children] using hc) xm hxm
            have hb0 : x0.before = ⟨.elem i nm (k :: ks), path⟩ :: Loc.before ⟨.elem i nm (k :: ks), path⟩ := by
              rw [hx0, before_first_child, hdoc]; simp
            have ih := dive m (by omega) xm (by omega) (descOrSelf_nonDoc_children _ xm (by rw [hc]; exact hmem))
            rw [← ih, ← hch, hb0]
            simp [Loc.descOrSelf, hdesc]
      | text i d => simp [Loc.children] at hc
      | comment i d => simp [Loc.children] at hc
      | pi i t d => simp [Loc.children] at hc

/-! ### one step back -/

theorem before_of_prevSibling (l sib : Loc) (h : l.prevSibling = some sib) :
    l.before = sib.descOrSelf.reverse ++ sib.before ∧ sib.isDocument = false := by
  obtain ⟨focus, path⟩ := l
  cases path with
  | nil => simp [Loc.prevSibling, Loc.precedingSiblings] at h
  | cons f p =>
    obtain ⟨left, pid, pn, right⟩ := f
    cases left with
    | nil => simp [Loc.prevSibling, Loc.precedingSiblings, sibsLeft] at h
    | cons k ks =>
      simp only [Loc.prevSibling, Loc.precedingSiblings, sibsLeft, List.head?_cons, Option.some.injEq] at h
      subst h
      exact ⟨before_next_sibling pid pn p ks right k focus, rfl⟩

theorem before_of_noPrev (l : Loc) (h : l.prevSibling = none) :
    l.before = match l.parent? with
      | none => []
      | some par => if par.isDocument then [] else par :: par.before := by
  obtain ⟨focus, path⟩ := l
  cases path with
  | nil => simp [Loc.before, beforeAux, Loc.parent?, Loc.parent]
  | cons f p =>
    obtain ⟨left, pid, pn, right⟩ := f
    cases left with
    | nil =>
      simp only [Loc.before, beforeAux, Loc.precedingSiblings, sibsLeft, List.flatMap_nil, List.nil_append,
        Loc.parent?, Loc.parent, List.head?_cons]
    | cons k ks => simp [Loc.prevSibling, Loc.precedingSiblings, sibsLeft] at h

theorem before_step (l : Loc) : l.before = [] ∨ ∃ m, l.before = m :: m.before := by
  cases hp : l.prevSibling with
  | none =>
    rw [before_of_noPrev l hp]
    cases l.parent? with
    | none => exact Or.inl rfl
    | some par =>
      cases hd : par.isDocument
      · exact Or.inr ⟨par, by simp [hd]⟩
      · exact Or.inl (by simp [hd])
  | some sib =>
    obtain ⟨hb, hd⟩ := before_of_prevSibling l sib hp
    rw [hb, dive sib.descendants.length sib (Nat.le_refl _) hd]
    exact Or.inr ⟨_, rfl⟩

/-- every suffix of `l.before` is the `before` of the node in front of it -/
theorem before_suffix : ∀ (pre : List Loc) (l p : Loc) (post : List Loc),
    l.before = pre ++ p :: post → p.before = post
  | [], l, p, post, h => by
    rcases before_step l with h0 | ⟨m, hm⟩
    · rw [h0] at h; simp at h
    · rw [hm] at h
      simp only [List.nil_append, List.cons.injEq] at h
      rw [← h.1, h.2]
  | a :: pre, l, p, post, h => by
    rcases before_step l with h0 | ⟨m, hm⟩
    · rw [h0] at h; simp at h
    · rw [hm] at h
      simp only [List.cons_append, List.cons.injEq] at h
      exact before_suffix pre m p post h.2

/-! ### the loops are a stopping search on `before` -/

/-- first element satisfying `mt` before any element satisfying `stop` -/
def findStop (stop mt : Loc → Bool) : List Loc → Option Loc
  | [] => none
  | x :: xs => if stop x then none else if mt x then some x else findStop stop mt xs

/-- the step leads to the head of `before` -/
theorem step_shape (fuel : Nat) (l m : Loc) (rest : List Loc) (hb : l.before = m :: rest)
    (h : l.before.length < fuel + 1) : stepBack fuel l = some m := by
  unfold stepBack
  cases hp : l.prevSibling with
  | none =>
    have hb' := before_of_noPrev l hp
    rw [hb] at hb'
    cases hpar : l.parent? with
    | none => simp [hpar] at hb'
    | some par =>
      simp only [hpar] at hb'
      cases hd : par.isDocument
      · simp only [hd, Bool.false_eq_true, if_false, List.cons.injEq] at hb'
        simp [hb'.1]
      · simp [hd] at hb'
  | some sib =>
    obtain ⟨hb', hd⟩ := before_of_prevSibling l sib hp
    have hlen : sib.descendants.length ≤ fuel := by
      rw [hb'] at h; simp [Loc.descOrSelf] at h; omega
    rw [dive fuel sib hlen hd, hb] at hb'
    simp only [List.cons.injEq] at hb'
    simp [hb'.1]

/-- when nothing lies before `l` (its parent is the document, or it is the document), the step leads nowhere or
to the document node -/
theorem step_empty (fuel : Nat) (l : Loc) (hb : l.before = []) :
    stepBack fuel l = none ∨ ∃ d, stepBack fuel l = some d ∧ d.isDocument = true := by
  unfold stepBack
  cases hp : l.prevSibling with
  | none =>
    have hb' := before_of_noPrev l hp
    rw [hb] at hb'
    cases hpar : l.parent? with
    | none => exact Or.inl rfl
    | some par =>
      simp only [hpar] at hb'
      cases hd : par.isDocument
      · simp [hd] at hb'
      · exact Or.inr ⟨par, rfl, hd⟩
  | some sib =>
    obtain ⟨hb', _⟩ := before_of_prevSibling l sib hp
    rw [hb] at hb'
    simp [Loc.descOrSelf] at hb'

theorem doc_no_step (fuel : Nat) (d : Loc) (hd : d.isDocument = true) : stepBack fuel d = none := by
  have hpath : d.path = [] := by simpa [Loc.isDocument] using hd
  simp [stepBack, Loc.prevSibling, Loc.precedingSiblings, Loc.parent?, Loc.parent, hpath]

theorem doc_no_match (sp : StripFn) (f : Option Pat) (c : Pat) (d : Loc) (hd : d.isDocument = true) :
    fromMatches sp f d = false ∧ patMatches sp c d = false := by
  constructor
  · cases f with
    | none => rfl
    | some t => simp [fromMatches, patMatches, t.doc sp d hd]
  · simp [patMatches, c.doc sp d hd]

theorem getPrev_doc (sp : StripFn) (c : Pat) (f : Option Pat) (fuel : Nat) (d : Loc) (hd : d.isDocument = true) :
    getPreviousNodeAny sp c f fuel d = none := by
  cases fuel with
  | zero => rfl
  | succ n =>
    unfold getPreviousNodeAny
    simp [doc_no_step n d hd]

theorem getPrev_eq_findStop (sp : StripFn) (c : Pat) (f : Option Pat) : ∀ (fuel : Nat) (l : Loc),
    l.before.length < fuel →
    getPreviousNodeAny sp c f fuel l = findStop (fromMatches sp f) (patMatches sp c) l.before
  | 0, _, h => by omega
  | fuel + 1, l, h => by
    unfold getPreviousNodeAny
    cases hb : l.before with
    | nil =>
      rcases step_empty fuel l hb with h0 | ⟨d, h1, hd⟩
      · rw [h0]; rfl
      · rw [h1]
        simp only [(doc_no_match sp f c d hd).1, (doc_no_match sp f c d hd).2, Bool.false_eq_true, if_false,
          findStop]
        exact getPrev_doc sp c f fuel d hd
    | cons m rest =>
      rw [step_shape fuel l m rest hb h]
      have hm : m.before = rest := before_suffix [] l m rest (by simpa using hb)
      simp only [findStop]
      cases fromMatches sp f m
      · simp only [Bool.false_eq_true, if_false]
        cases patMatches sp c m
        · simp only [Bool.false_eq_true, if_false]
          rw [← hm]
          exact getPrev_eq_findStop sp c f fuel m (by rw [hm]; rw [hb] at h; simp at h; omega)
        · rfl
      · rfl

theorem findTarget_doc (sp : StripFn) (c : Pat) (f : Option Pat) (fuel : Nat) (b : Bool) (d : Loc)
    (hd : d.isDocument = true) : findTargetAny sp c f fuel b d = none := by
  cases fuel with
  | zero => rfl
  | succ n =>
    unfold findTargetAny
    simp [(doc_no_match sp f c d hd).1, (doc_no_match sp f c d hd).2, doc_no_step n d hd]

theorem findTarget_eq (sp : StripFn) (c : Pat) (f : Option Pat) : ∀ (fuel : Nat) (l : Loc) (b : Bool),
    l.before.length < fuel →
    findTargetAny sp c f fuel b l =
      if !b && fromMatches sp f l then none
      else if patMatches sp c l then some l
      else findStop (fromMatches sp f) (patMatches sp c) l.before
  | 0, _, _, h => by omega
  | fuel + 1, l, b, h => by
    unfold findTargetAny
    cases hfb : (!b && fromMatches sp f l)
    · simp only [Bool.false_eq_true, if_false]
      cases hml : patMatches sp c l
      · simp only [Bool.false_eq_true, if_false]
        cases hb : l.before with
        | nil =>
          rcases step_empty fuel l hb with h0 | ⟨d, h1, hd⟩
          · rw [h0]; rfl
          · rw [h1]; simp only [findStop]; exact findTarget_doc sp c f _ _ d hd
        | cons m rest =>
          rw [step_shape fuel l m rest hb h]
          have hm : m.before = rest := before_suffix [] l m rest (by simpa using hb)
          have hlen : m.before.length < fuel := by rw [hm]; rw [hb] at h; simp at h; omega
          simp only []
          rw [findTarget_eq sp c f fuel m false hlen, hm]
          simp [findStop]
      · simp
    · simp

theorem findStop_none (stop mt : Loc → Bool) : ∀ L : List Loc, findStop stop mt L = none →
    ((L.takeWhile fun x => !stop x).filter mt) = []
  | [], _ => rfl
  | x :: xs, h => by
    simp only [findStop] at h
    cases hs : stop x
    · simp only [hs, Bool.false_eq_true, if_false] at h
      cases hm : mt x
      · simp only [hm, Bool.false_eq_true, if_false] at h
        simp [List.takeWhile_cons, hs, List.filter_cons, hm, findStop_none stop mt xs h]
      · simp [hm] at h
    · simp [List.takeWhile_cons, hs]

theorem findStop_some (stop mt : Loc → Bool) : ∀ (L : List Loc) (p : Loc), findStop stop mt L = some p →
    ∃ pre post, L = pre ++ p :: post ∧ mt p = true ∧
      ((L.takeWhile fun x => !stop x).filter mt) = p :: ((post.takeWhile fun x => !stop x).filter mt)
  | [], _, h => by simp [findStop] at h
  | x :: xs, p, h => by
    simp only [findStop] at h
    cases hs : stop x
    · simp only [hs, Bool.false_eq_true, if_false] at h
      cases hm : mt x
      · simp only [hm, Bool.false_eq_true, if_false] at h
        obtain ⟨pre, post, h1, h2, h3⟩ := findStop_some stop mt xs p h
        exact ⟨x :: pre, post, by simp [h1], h2, by simp [List.takeWhile_cons, hs, List.filter_cons, hm, h3]⟩
      · simp only [hm, if_true, Option.some.injEq] at h
        subst h
        exact ⟨[], xs, rfl, hm, by simp [List.takeWhile_cons, hs, List.filter_cons, hm]⟩
    · simp [hs] at h

theorem chainLength_eq (sp : StripFn) (c : Pat) (f : Option Pat) : ∀ (fuel : Nat) (t : Loc),
    t.before.length + 1 < fuel →
    chainLength sp c f fuel t
      = 1 + ((t.before.takeWhile fun x => !fromMatches sp f x).filter (patMatches sp c)).length
  | 0, _, h => by omega
  | fuel + 1, t, h => by
    unfold chainLength
    rw [getPrev_eq_findStop sp c f fuel t (by omega)]
    cases hf : findStop (fromMatches sp f) (patMatches sp c) t.before with
    | none => simp [findStop_none _ _ _ hf]
    | some p =>
      obtain ⟨pre, post, h1, h2, h3⟩ := findStop_some _ _ _ p hf
      have hpost : p.before = post := before_suffix pre t p post h1
      have hlen : p.before.length + 1 < fuel := by
        rw [hpost]; have := congrArg List.length h1; simp at this; omega
      simp only []
      rw [chainLength_eq sp c f fuel p hlen, hpost, h3]
      simp only [List.length_cons]
      omega

/-- the walk computes the Recommendation's count, with or without `from` -/
theorem numberAny_eq_spec (sp : StripFn) (c : Pat) (f : Option Pat) (fuel : Nat) (l : Loc)
    (h : l.before.length + 1 < fuel) :
    numberAny sp c f fuel l = numberAnySpec sp c f l := by
  unfold numberAny numberAnySpec
  cases fuel with
  | zero => omega
  | succ n =>
    rw [findTarget_eq sp c f (n + 1) l true (by omega)]
    simp only [Bool.not_true, Bool.false_and, Bool.false_eq_true, if_false, List.filter_cons]
    cases hm : patMatches sp c l
    · simp only [Bool.false_eq_true, if_false]
      cases hf : findStop (fromMatches sp f) (patMatches sp c) l.before with
      | none => simp [findStop_none _ _ _ hf]
      | some t =>
        obtain ⟨pre, post, h1, h2, h3⟩ := findStop_some _ _ _ t hf
        have hpost : t.before = post := before_suffix pre l t post h1
        have hlen : t.before.length + 1 < n + 1 := by
          rw [hpost]; have := congrArg List.length h1; simp at this; omega
        simp only []
        rw [chainLength_eq sp c f (n + 1) t hlen, hpost, h3]
        simp only [List.length_cons]
        omega
    · simp only [if_true, List.length_cons]
      rw [chainLength_eq sp c f (n + 1) l (by omega)]
      omega

end XalanModel.C13
