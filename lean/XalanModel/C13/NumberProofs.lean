import XalanModel.C13.XsltProofs
/-
Helper lemmas: the backwards walk of `xsl:number level="any"` without `from`
(`findTargetAny` / `getPreviousNodeAny` / `chainLength`) computes the Recommendation's count `numberAnySpec`
(matching nodes among the current node and all nodes before it in document order).

Plan: `Loc.before l` is either empty or `m :: m.before` where `m` is the physically previous node (last
descendant of the previous sibling, else the parent unless that is the document) — `before_step`/`dive`;
hence every suffix of `l.before` is the `before` of its predecessor (`before_suffix`); the walk's
`find`-like loops are `List.find?` on that list.
-/
namespace XalanModel.C13

/-! ### descendants as the flattening of the children's subtrees -/

theorem descKids_eq_flatMap (pid : Nat) (pn : Option Tag) (path : List Frame) :
    ∀ (ks left : List Node),
      descKids pid pn path left ks = (sibsRight pid pn path left ks).flatMap Loc.descOrSelf
  | [], _ => by simp [descKids, sibsRight]
  | k :: ks, left => by
    simp only [descKids, sibsRight, List.flatMap_cons, Loc.descOrSelf, Loc.descendants]
    rw [descKids_eq_flatMap pid pn path ks (k :: left)]

theorem descendants_eq_flatMap (l : Loc) : l.descendants = l.children.flatMap Loc.descOrSelf := by
  obtain ⟨focus, path⟩ := l
  cases focus with
  | elem i n kids => simp [Loc.descendants, descNode, Loc.children, descKids_eq_flatMap]
  | text i d => simp [Loc.descendants, descNode, Loc.children]
  | comment i d => simp [Loc.descendants, descNode, Loc.children]
  | pi i t d => simp [Loc.descendants, descNode, Loc.children]

/-! ### `before` of neighbouring siblings and of a first child -/

theorem before_next_sibling (pid : Nat) (pn : Option Tag) (path : List Frame) (left ks : List Node) (k k' : Node) :
    Loc.before ⟨k', ⟨k :: left, pid, pn, ks⟩ :: path⟩
      = (Loc.descOrSelf ⟨k, ⟨left, pid, pn, k' :: ks⟩ :: path⟩).reverse
          ++ Loc.before ⟨k, ⟨left, pid, pn, k' :: ks⟩ :: path⟩ := by
  simp only [Loc.before, beforeAux, Loc.precedingSiblings, sibsLeft, List.flatMap_cons, Frame.parentNode,
    List.reverse_cons, List.append_assoc, List.singleton_append]
  rfl

theorem before_first_child (i : Nat) (n : Option Tag) (k : Node) (ks : List Node) (path : List Frame) :
    Loc.before ⟨k, ⟨[], i, n, ks⟩ :: path⟩
      = if (Loc.mk (.elem i n (k :: ks)) path).isDocument then []
        else ⟨.elem i n (k :: ks), path⟩ :: Loc.before ⟨.elem i n (k :: ks), path⟩ := by
  simp only [Loc.before, beforeAux, Loc.precedingSiblings, sibsLeft, Frame.parentNode, List.flatMap_nil,
    List.nil_append, List.reverse_nil]
  rfl

/-- over a run of siblings `x0 … xm`: the reversed subtrees followed by `before x0` is the reversed subtree of
`xm` followed by `before xm` -/
theorem chain_children (pid : Nat) (pn : Option Tag) (path : List Frame) :
    ∀ (ks left : List Node) (x0 : Loc) (rest : List Loc), sibsRight pid pn path left ks = x0 :: rest →
      ∀ xm, (x0 :: rest).getLast? = some xm →
        ((x0 :: rest).flatMap Loc.descOrSelf).reverse ++ x0.before = xm.descOrSelf.reverse ++ xm.before
  | [], _, _, _, h => by simp [sibsRight] at h
  | [k], left, x0, rest, h => by
    simp only [sibsRight, List.cons.injEq] at h
    obtain ⟨rfl, rfl⟩ := h
    intro xm hm
    simp only [List.getLast?_singleton, Option.some.injEq] at hm
    subst hm
    simp
  | k :: k' :: ks, left, x0, rest, h => by
    simp only [sibsRight, List.cons.injEq] at h
    obtain ⟨rfl, rfl⟩ := h
    intro xm hm
    have hm' : (sibsRight pid pn path (k :: left) (k' :: ks)).getLast? = some xm := by
      simpa [sibsRight] using hm
    have ih := chain_children pid pn path (k' :: ks) (k :: left)
      ⟨k', ⟨k :: left, pid, pn, ks⟩ :: path⟩ (sibsRight pid pn path (k' :: k :: left) ks) rfl xm
      (by simpa [sibsRight] using hm')
    simp only [List.flatMap_cons, List.reverse_append, List.append_assoc] at ih ⊢
    rw [← before_next_sibling pid pn path left ks k k']
    simpa [sibsRight, List.flatMap_cons, List.reverse_append, List.append_assoc] using ih

/-! ### diving to the last descendant -/

theorem descOrSelf_nonDoc_children (l x : Loc) (hx : x ∈ l.children) : x.isDocument = false := by
  obtain ⟨focus, path⟩ := l
  cases focus with
  | elem i n kids =>
    simp only [Loc.children] at hx
    have : ∀ (ks left : List Node), ∀ y ∈ sibsRight i n path left ks, y.isDocument = false := by
      intro ks
      induction ks with
      | nil => intro left y hy; simp [sibsRight] at hy
      | cons k ks ih =>
        intro left y hy
        simp only [sibsRight, List.mem_cons] at hy
        rcases hy with rfl | hy
        · rfl
        · exact ih _ y hy
    exact this kids [] x hx
  | text i d => simp [Loc.children] at hx
  | comment i d => simp [Loc.children] at hx
  | pi i t d => simp [Loc.children] at hx

/-- `s.descOrSelf.reverse ++ s.before` starts with the deepest last descendant of `s`, followed by its `before` -/
theorem dive (n : Nat) : ∀ (s : Loc), s.descendants.length ≤ n → s.isDocument = false →
    s.descOrSelf.reverse ++ s.before = deepestLast n s :: (deepestLast n s).before := by
  induction n using Nat.strongRecOn with
  | _ n dive =>
    intro s hn hdoc
    obtain ⟨focus, path⟩ := s
    cases hc : (Loc.children ⟨focus, path⟩) with
    | nil =>
      have hd : (Loc.mk focus path).descendants = [] := by rw [descendants_eq_flatMap, hc]; rfl
      have hdl : deepestLast n ⟨focus, path⟩ = ⟨focus, path⟩ := by
        cases n with
        | zero => rfl
        | succ m => simp [deepestLast, Loc.lastChild, hc]
      simp [Loc.descOrSelf, hd, hdl]
    | cons x0 rest =>
      -- the focus is an element with kids
      cases focus with
      | elem i nm kids =>
        cases kids with
        | nil => simp [Loc.children, sibsRight] at hc
        | cons k ks =>
          obtain ⟨xm, hxm⟩ : ∃ xm, (x0 :: rest).getLast? = some xm := by
            cases h : (x0 :: rest).getLast? with
            | none => simp at h
            | some y => exact ⟨y, rfl⟩
          have hx0 : x0 = ⟨k, ⟨[], i, nm, ks⟩ :: path⟩ := by
            simp only [Loc.children, sibsRight, List.cons.injEq] at hc
            exact hc.1.symm
          have hdesc : (Loc.mk (.elem i nm (k :: ks)) path).descendants = (x0 :: rest).flatMap Loc.descOrSelf := by
            rw [descendants_eq_flatMap, hc]
          have hmem : xm ∈ x0 :: rest := List.mem_of_getLast? hxm
          -- fuel: one node (xm) is consumed
          have hlen : xm.descendants.length + 1 ≤ (Loc.mk (.elem i nm (k :: ks)) path).descendants.length := by
            rw [hdesc]
            have : xm.descOrSelf.length ≤ ((x0 :: rest).flatMap Loc.descOrSelf).length := by
              obtain ⟨a, b, hab⟩ := List.append_of_mem hmem
              rw [hab]
              simp only [List.flatMap_append, List.flatMap_cons, List.length_append]
              omega
            simpa [Loc.descOrSelf] using this
          cases n with
          | zero => omega
          | succ m =>
            have hdl : deepestLast (m + 1) ⟨.elem i nm (k :: ks), path⟩ = deepestLast m xm := by
              simp [deepestLast, Loc.lastChild, hc, hxm]
            rw [hdl]
            have hch := chain_children i nm path (k :: ks) [] x0 rest (by simpa [Loc.children] using hc) xm hxm
            have hb0 : x0.before = ⟨.elem i nm (k :: ks), path⟩ :: Loc.before ⟨.elem i nm (k :: ks), path⟩ := by
              rw [hx0, before_first_child, hdoc]; simp
            have ih := dive m (by omega) xm (by omega) (descOrSelf_nonDoc_children _ xm (by rw [hc]; exact hmem))
            rw [← ih, ← hch, hb0]
            simp [Loc.descOrSelf, hdesc]
      | text i d => simp [Loc.children] at hc
      | comment i d => simp [Loc.children] at hc
      | pi i t d => simp [Loc.children] at hc

/-! ### one step back -/

theorem before_of_prevSibling (l sib : Loc) (h : l.prevSibling = some sib) :
    l.before = sib.descOrSelf.reverse ++ sib.before ∧ sib.isDocument = false := by
  obtain ⟨focus, path⟩ := l
  cases path with
  | nil => simp [Loc.prevSibling, Loc.precedingSiblings] at h
  | cons f p =>
    obtain ⟨left, pid, pn, right⟩ := f
    cases left with
    | nil => simp [Loc.prevSibling, Loc.precedingSiblings, sibsLeft] at h
    | cons k ks =>
      simp only [Loc.prevSibling, Loc.precedingSiblings, sibsLeft, List.head?_cons, Option.some.injEq] at h
      subst h
      exact ⟨before_next_sibling pid pn p ks right k focus, rfl⟩

theorem before_of_noPrev (l : Loc) (h : l.prevSibling = none) :
    l.before = match l.parent? with
      | none => []
      | some par => if par.isDocument then [] else par :: par.before := by
  obtain ⟨focus, path⟩ := l
  cases path with
  | nil => simp [Loc.before, beforeAux, Loc.parent?, Loc.parent]
  | cons f p =>
    obtain ⟨left, pid, pn, right⟩ := f
    cases left with
    | nil =>
      simp only [Loc.before, beforeAux, Loc.precedingSiblings, sibsLeft, List.flatMap_nil, List.nil_append,
        Loc.parent?, Loc.parent, List.head?_cons]
    | cons k ks => simp [Loc.prevSibling, Loc.precedingSiblings, sibsLeft] at h

theorem before_step (l : Loc) : l.before = [] ∨ ∃ m, l.before = m :: m.before := by
  cases hp : l.prevSibling with
  | none =>
    rw [before_of_noPrev l hp]
    cases l.parent? with
    | none => exact Or.inl rfl
    | some par =>
      cases hd : par.isDocument
      · exact Or.inr ⟨par, by simp [hd]⟩
      · exact Or.inl (by simp [hd])
  | some sib =>
    obtain ⟨hb, hd⟩ := before_of_prevSibling l sib hp
    rw [hb, dive sib.descendants.length sib (Nat.le_refl _) hd]
    exact Or.inr ⟨_, rfl⟩

/-- every suffix of `l.before` is the `before` of the node in front of it -/
theorem before_suffix : ∀ (pre : List Loc) (l p : Loc) (post : List Loc),
    l.before = pre ++ p :: post → p.before = post
  | [], l, p, post, h => by
    rcases before_step l with h0 | ⟨m, hm⟩
    · rw [h0] at h; simp at h
    · rw [hm] at h
      simp only [List.nil_append, List.cons.injEq] at h
      rw [← h.1, h.2]
  | a :: pre, l, p, post, h => by
    rcases before_step l with h0 | ⟨m, hm⟩
    · rw [h0] at h; simp at h
    · rw [hm] at h
      simp only [List.cons_append, List.cons.injEq] at h
      exact before_suffix pre m p post h.2

/-! ### the loops are `find?` on `before` -/

theorem getPrev_eq_find (sp : StripFn) (c : Test) : ∀ (fuel : Nat) (l : Loc), l.before.length < fuel →
    getPreviousNodeAny sp c none fuel l = l.before.find? (patMatches sp c)
  | 0, _, h => by omega
  | fuel + 1, l, h => by
    unfold getPreviousNodeAny
    cases hp : l.prevSibling with
    | none =>
      have hb := before_of_noPrev l hp
      cases hpar : l.parent? with
      | none => simp [hpar] at hb; simp [hb]
      | some par =>
        simp only [hpar] at hb
        have hfm : fromMatches sp none par = false := rfl
        cases hd : par.isDocument
        · simp only [hd, Bool.false_eq_true, if_false] at hb
          simp only [hd, hfm, Bool.or_false, Bool.false_eq_true, if_false, hb, List.find?_cons]
          cases hm : patMatches sp c par
          · simp only [Bool.false_eq_true, if_false]
            exact getPrev_eq_find sp c fuel par (by rw [hb] at h; simp at h; omega)
          · simp
        · simp only [hd, if_true] at hb
          simp [hd, hb]
    | some sib =>
      obtain ⟨hb, hd⟩ := before_of_prevSibling l sib hp
      have hlen : sib.descendants.length ≤ fuel := by
        rw [hb] at h
        simp [Loc.descOrSelf] at h
        omega
      have hdive := dive fuel sib hlen hd
      rw [hdive] at hb
      simp only [hb, List.find?_cons]
      cases hm : patMatches sp c (deepestLast fuel sib)
      · simp only [Bool.false_eq_true, if_false]
        exact getPrev_eq_find sp c fuel _ (by rw [hb] at h; simp at h; omega)
      · simp

theorem findTarget_eq_find (sp : StripFn) (c : Test) : ∀ (fuel : Nat) (l : Loc), l.before.length < fuel →
    findTargetAny sp c none fuel l = (l :: l.before).find? (patMatches sp c)
  | 0, _, h => by omega
  | fuel + 1, l, h => by
    unfold findTargetAny
    simp only [fromMatches, Bool.false_eq_true, if_false, List.find?_cons]
    cases hm : patMatches sp c l
    · simp only [Bool.false_eq_true, if_false]
      cases hp : l.prevSibling with
      | none =>
        have hb := before_of_noPrev l hp
        cases hpar : l.parent? with
        | none => simp [hpar] at hb; simp [hb]
        | some par =>
          simp only [hpar] at hb
          cases hd : par.isDocument
          · simp only [hd, Bool.false_eq_true, if_false] at hb
            rw [hb]
            exact findTarget_eq_find sp c fuel par (by rw [hb] at h; simp at h; omega)
          · -- the parent is the document node: nothing matches there and nothing lies before it
            simp only [hd, if_true] at hb
            rw [hb]
            have hpath : par.path = [] := by simpa [Loc.isDocument] using hd
            cases fuel with
            | zero => rfl
            | succ f =>
              unfold findTargetAny
              simp [fromMatches, patMatches, hd, Loc.prevSibling, Loc.precedingSiblings, Loc.parent?, Loc.parent, hpath]
      | some sib =>
        obtain ⟨hb, hd⟩ := before_of_prevSibling l sib hp
        have hlen : sib.descendants.length ≤ fuel := by
          rw [hb] at h
          simp [Loc.descOrSelf] at h
          omega
        have hdive := dive fuel sib hlen hd
        rw [hdive] at hb
        rw [hb]
        exact findTarget_eq_find sp c fuel _ (by rw [hb] at h; simp at h; omega)
    · simp

theorem filter_length_of_find_none {α : Type} (p : α → Bool) (L : List α) (h : L.find? p = none) :
    (L.filter p).length = 0 := by
  have : L.filter p = [] := by
    rw [List.filter_eq_nil_iff]
    intro a ha
    have := List.find?_eq_none.mp h a ha
    simpa using this
  simp [this]

theorem find_split {α : Type} (p : α → Bool) : ∀ (L : List α) (x : α), L.find? p = some x →
    ∃ pre post, L = pre ++ x :: post ∧ p x = true ∧ (pre.filter p) = []
  | [], x, h => by simp at h
  | a :: as, x, h => by
    simp only [List.find?_cons] at h
    cases ha : p a
    · simp only [ha] at h
      obtain ⟨pre, post, h1, h2, h3⟩ := find_split p as x h
      exact ⟨a :: pre, post, by simp [h1], h2, by simp [List.filter_cons, ha, h3]⟩
    · simp only [ha, Option.some.injEq] at h
      subst h
      exact ⟨[], as, rfl, ha, rfl⟩

theorem chainLength_eq (sp : StripFn) (c : Test) : ∀ (fuel : Nat) (t : Loc), t.before.length + 1 < fuel →
    chainLength sp c none fuel t = 1 + (t.before.filter (patMatches sp c)).length
  | 0, _, h => by omega
  | fuel + 1, t, h => by
    unfold chainLength
    rw [getPrev_eq_find sp c fuel t (by omega)]
    cases hf : t.before.find? (patMatches sp c) with
    | none => simp [filter_length_of_find_none _ _ hf]
    | some p =>
      obtain ⟨pre, post, h1, h2, h3⟩ := find_split _ _ _ hf
      have hpost : p.before = post := before_suffix pre t p post h1
      have hlen : p.before.length + 1 < fuel := by
        rw [hpost]; have := congrArg List.length h1; simp at this; omega
      simp only []
      rw [chainLength_eq sp c fuel p hlen, hpost, h1]
      simp only [List.filter_append, List.filter_cons, h2, h3, if_true, List.nil_append, List.length_cons]
      omega

/-- the walk without `from` computes the Recommendation's count -/
theorem numberAny_eq_spec (sp : StripFn) (c : Test) (fuel : Nat) (l : Loc) (h : l.before.length + 1 < fuel) :
    numberAny sp c none fuel l = numberAnySpec sp c l := by
  unfold numberAny numberAnySpec
  rw [findTarget_eq_find sp c fuel l (by omega)]
  cases hf : (l :: l.before).find? (patMatches sp c) with
  | none => simp [filter_length_of_find_none _ _ hf]
  | some t =>
    obtain ⟨pre, post, h1, h2, h3⟩ := find_split _ _ _ hf
    simp only []
    cases pre with
    | nil =>
      simp only [List.nil_append, List.cons.injEq] at h1
      obtain ⟨rfl, hpost⟩ := h1
      rw [chainLength_eq sp c fuel l (by omega)]
      simp only [List.filter_cons, h2, if_true, List.length_cons]
      omega
    | cons a pre' =>
      simp only [List.cons_append, List.cons.injEq] at h1
      obtain ⟨rfl, hb⟩ := h1
      have hpost : t.before = post := before_suffix pre' l t post hb
      have hlen : t.before.length + 1 < fuel := by
        rw [hpost]; have := congrArg List.length hb; simp at this; omega
      rw [chainLength_eq sp c fuel t hlen, hpost, hb]
      have ha : patMatches sp c l = false := by
        cases hpa : patMatches sp c l
        · rfl
        · simp [List.filter_cons, hpa] at h3
      have hpre : pre'.filter (patMatches sp c) = [] := by
        simpa [List.filter_cons, ha] using h3
      simp only [List.filter_cons, List.filter_append, ha, h2, hpre, if_true, Bool.false_eq_true, if_false,
        List.nil_append, List.length_cons]
      omega

end XalanModel.C13
