import XalanModel.C13.Eval
/-
C13 — the XSLT-level observation paths that ask `shouldStripSourceNode` themselves or walk the physical tree:

* `xsl:copy-of` / `xsl:copy`: `XSLTEngineImpl::outputToResultTree` walks the selected subtree and sends every
  node through `cloneToResultTree(node, type, overrideStrip = false, …)`; the text case
  (`cloneToResultTree(const XalanText&, bool)`, XSLTEngineImpl.cpp:1965-1983) emits `characters` only when
  `shouldStripSourceNode(node) == false`.  → `copyEvents`
* `xsl:key`: `KeyTable` visits every node of the document, tests the match pattern, evaluates `use`
  (a node-set contributes the string-value of each member).  → `keyLookup`
* `xsl:number level="any"`: `ElemNumber::findPrecedingOrAncestorOrSelf` / `getPreviousNode`
  (ElemNumber.cpp:312-372, 638-735) walk backwards over the *physical* tree (previous sibling, dive to the
  last descendant, else parent) and test the count pattern on every node and the `from` pattern only on
  the way up.  → `numberAny`  (this one is *not* insensitive to stripped nodes: see the counterexample)
Core Lean only.
-/
namespace XalanModel.C13

/-! ### copy-of -/

inductive Event where
  | startElement (name : Option Tag)
  | endElement
  | characters (data : String)
  | comment (data : String)
  | pi (target data : String)
  | attribute (name : QName) (value : String)
  | namespace (pfx uri : String)
deriving DecidableEq, Repr, Inhabited

mutual
/-- events of the deep copy of one selected node (the node itself is never a stripped text node: a node-set
never contains one) -/
def copyEvents (sp : StripFn) : Node → List Event
  | .elem _ n kids => .startElement n :: (copyKidsEvents sp n kids ++ [.endElement])
  | .text _ d => [.characters d]
  | .comment _ d => [.comment d]
  | .pi _ t d => [.pi t d]
def copyKidsEvents (sp : StripFn) (pn : Option Tag) : List Node → List Event
  | [] => []
  | k :: ks =>       -- a text child goes through cloneToResultTree(text, overrideStrip = false)
    (if k.stripped sp pn then [] else copyEvents sp k) ++ copyKidsEvents sp pn ks
end

/-- one member of the copied node-set: a subtree, or an attribute (added to the pending element) -/
def copyX (sp : StripFn) : XNode → List Event
  | .node l => copyEvents sp l.focus
  | .attr _ false _ q v => [.attribute q v]
  | .attr _ true _ q v => [.namespace q.loc v]

/-- `xsl:copy-of select="e"` for a node-set value: the members in document order -/
def copyOf (sp : StripFn) : Option Value → Option (List Event)
  | some (.ns l) => some (l.flatMap (copyX sp))
  | some v => some [.characters (v.toStr sp)]
  | none => none

/-! ### one-step patterns -/

/-- the node is the document node: the one node without a parent (`getNodeType() == DOCUMENT_NODE`; in the tree
of a parsed source it is the location with no frame above it) -/
def Loc.isDocument (l : Loc) : Bool := l.path.isEmpty

/-- `getMatchScore != eMatchScoreNone` for a one-step pattern (`a`, `text()`, `node()` …): the strip-aware node
test; the document node matches no such pattern.  (`patMatches` below is the same for any `Pat`.) -/
def testMatches (sp : StripFn) (t : Test) (l : Loc) : Bool := !l.isDocument && t.accepts sp l

/-- A match pattern as far as `xsl:key` and `xsl:number` need it: which nodes it matches under a strip function.
The two laws are what every XSLT pattern satisfies in the library — the document node matches no pattern that is
not `/` (not used for count/from/key here), and a pattern's last step is a node test, so it never matches a stripped
text node and otherwise sees the tree as if stripped (for patterns with predicates or several steps this is
`pattern_simulation`).  `testPat` (one node test) and `exprPat` (any expression of the fragment read as a pattern)
are the instances, built in `XsltProofs.lean`. -/
structure Pat where
  m : StripFn → Loc → Bool
  doc : ∀ sp x, Loc.isDocument x = true → m sp x = false
  strip : ∀ sp x, m sp x = (!Loc.stripped sp x && m noStrip (Loc.strip sp x))

def patMatches (sp : StripFn) (p : Pat) (l : Loc) : Bool := p.m sp l

/-! ### xsl:for-each / xsl:apply-templates select=…, xsl:sort -/

def ctxList (n : Nat) (vars : List Value) : List XNode → Nat → List Ctx
  | [], _ => []
  | x :: xs, i => ⟨x, i, n, vars⟩ :: ctxList n vars xs (i + 1)

/-- the contexts (node, `position()`, `last()`) in which `xsl:for-each select="e"` instantiates its body and
`xsl:apply-templates select="e"` the chosen templates (before any `xsl:sort`) -/
def contextsOf (vars : List Value) : Option Value → Option (List Ctx)
  | some (.ns l) => some (ctxList l.length vars l 1)
  | _ => none

/-- the `xsl:sort select="key"` keys (data-type text) of the selected nodes, in selection order; a stable sort
by these keys is what `NodeSorter` applies -/
def sortKeys (sp : StripFn) (sel key : Expr) (c : Ctx) : Option (List (Option String)) :=
  (contextsOf c.vars (sel.eval sp c)).map fun cs => cs.map fun cx => (key.eval sp cx).map (Value.toStr sp)

/-! ### match patterns with predicates (and multi-step patterns) as expressions -/

/-- membership by node identity (the document-order index) -/
def memById (x : XNode) (l : List XNode) : Bool := l.any fun y => y.id == x.id

/-- A pattern matches `x` iff `x` is selected by the pattern read as an expression from some ancestor-or-self
(XSLT §5.2; that the library's right-to-left matcher computes this is property C09).  `sel` is that expression
evaluated at the document node — e.g. `//a/node()[2]`, `//text()[last()]`, `//*[not(text())]` — so positional
predicates see `position()`/`last()` among the siblings the step selects. -/
def patternSelects (sp : StripFn) (sel : Expr) (root : Loc) (x : XNode) : Option Bool :=
  match sel.eval sp ⟨.node root, 1, 1, []⟩ with
  | some (.ns l) => some (memById x l)
  | _ => none

/-! ### keys -/

structure KeyDecl where
  matchT : Pat
  use : Expr

/-- the entries one node contributes -/
def keyEntriesAt (sp : StripFn) (k : KeyDecl) (n : Loc) : Option (List (String × Loc)) :=
  if patMatches sp k.matchT n then
    match k.use.eval sp ⟨.node n, 1, 1, []⟩ with
    | some (.ns l) => some (l.map fun x => (x.strVal sp, n))
    | some v => some [(v.toStr sp, n)]
    | none => none
  else some []

def mergeEntries (g : Loc → Option (List (String × Loc))) : List Loc → Option (List (String × Loc))
  | [] => some []
  | x :: xs =>
    match g x, mergeEntries g xs with
    | some a, some b => some (a ++ b)
    | _, _ => none

/-- the table: all nodes of the document (document node first, then document order) -/
def keyTable (sp : StripFn) (k : KeyDecl) (root : Loc) : Option (List (String × Loc)) :=
  mergeEntries (keyEntriesAt sp k) (root :: root.descendants)

/-- `key(name, s)` -/
def keyLookup (sp : StripFn) (k : KeyDecl) (root : Loc) (s : String) : Option (List XNode) :=
  (keyTable sp k root).map fun t => docOrder ((t.filter fun e => e.1 == s).map fun e => .node e.2)

/-- `key(name, arg)`: a node-set argument is looked up once per member, with that member's string value
(`FunctionKey::execute`: `DOMServices::getNodeData(*theNodeSet.item(i), executionContext, ref)` in the loop, `str()`
for one node), the results united in document order; any other argument through its string conversion -/
def keyLookupArg (sp : StripFn) (k : KeyDecl) (root : Loc) : Option Value → Option (List XNode)
  | some (.ns l) => (mergeStep (fun x => keyLookup sp k root (x.strVal sp)) l).map docOrder
  | some v => keyLookup sp k root (v.toStr sp)
  | none => none

/-! ### xsl:number level="any" -/

def Loc.prevSibling (l : Loc) : Option Loc := l.precedingSiblings.head?
def Loc.lastChild (l : Loc) : Option Loc := l.children.getLast?
def Loc.parent? (l : Loc) : Option Loc := l.parent.head?

/-- "dive down to the lowest right-hand (last) child" -/
def deepestLast : Nat → Loc → Loc
  | 0, l => l
  | f + 1, l =>
    match l.lastChild with
    | some c => deepestLast f c
    | none => l

def fromMatches (sp : StripFn) (fromT : Option Pat) (l : Loc) : Bool :=
  match fromT with
  | some f => patMatches sp f l
  | none => false

/-- one step back in document order, as both walks take it: the last descendant of the previous sibling
("dive down to the lowest right-hand child"), else the parent -/
def stepBack (fuel : Nat) (pos : Loc) : Option Loc :=
  match pos.prevSibling with
  | some sib => some (deepestLast fuel sib)
  | none => pos.parent?

/-- `ElemNumber::findPrecedingOrAncestorOrSelf`: the `from` pattern is not tested on the context node itself
(`thePos != context`), on every other node visited it ends the search -/
def findTargetAny (sp : StripFn) (countT : Pat) (fromT : Option Pat) : Nat → Bool → Loc → Option Loc
  | 0, _, _ => none
  | fuel + 1, isContext, pos =>
    if !isContext && fromMatches sp fromT pos then none
    else if patMatches sp countT pos then some pos
    else
      match stepBack fuel pos with
      | none => none
      | some p => findTargetAny sp countT fromT fuel false p

/-- `ElemNumber::getPreviousNode`, `eAny == m_level` branch: one step back in document order (last descendant
of the previous sibling, else the parent); every node walked over is tested against `from` ("return 0 from
function"), then against `count` -/
def getPreviousNodeAny (sp : StripFn) (countT : Pat) (fromT : Option Pat) : Nat → Loc → Option Loc
  | 0, _ => none
  | fuel + 1, pos =>
    match stepBack fuel pos with
    | none => none
    | some next =>
      if fromMatches sp fromT next then none
      else if patMatches sp countT next then some next
      else getPreviousNodeAny sp countT fromT fuel next

/-- `CountersTable::countNode` without its cache: the length of the chain target, previous, previous, … -/
def chainLength (sp : StripFn) (countT : Pat) (fromT : Option Pat) : Nat → Loc → Nat
  | 0, _ => 0
  | fuel + 1, t =>
    match getPreviousNodeAny sp countT fromT fuel t with
    | none => 1
    | some p => 1 + chainLength sp countT fromT fuel p

def numberAny (sp : StripFn) (countT : Pat) (fromT : Option Pat) (fuel : Nat) (l : Loc) : Nat :=
  match findTargetAny sp countT fromT fuel true l with
  | none => 0
  | some t => chainLength sp countT fromT fuel t

/-! ### xsl:number level="any": the Recommendation's reading -/

/-- every node before the one at `⟨focus, path⟩` in document order — preceding nodes and ancestors — nearest
first (reverse document order), up to but excluding the document node -/
def beforeAux : Node → List Frame → List Loc
  | _, [] => []
  | focus, f :: p =>
    (Loc.precedingSiblings ⟨focus, f :: p⟩).flatMap (fun s => s.descOrSelf.reverse)
      ++ (if (Loc.mk (f.parentNode focus) p).isDocument then []
          else ⟨f.parentNode focus, p⟩ :: beforeAux (f.parentNode focus) p)

def Loc.before (l : Loc) : List Loc := beforeAux l.focus l.path

/-- XSLT §7.7 level="any": the nodes that match the count pattern among the current node and the nodes before it
in document order — "starting after the first node before the current node that matches the from pattern" when
there is one. -/
def numberAnySpec (sp : StripFn) (countT : Pat) (fromT : Option Pat) (l : Loc) : Nat :=
  ((l :: l.before.takeWhile fun x => !fromMatches sp fromT x).filter (patMatches sp countT)).length

/-! ### xsl:number level="single" / level="multiple" -/

/-- `ElemNumber::getMatchingAncestors(node, stopAtFirstFound)` over the node and its ancestors (nearest first):
an ancestor matching `from` ends the walk (the context node itself is not tested, `node != theContextNode`); a
node matching `count` is collected, and with `stopAtFirstFound` (level single) the walk ends there. -/
def matchingAncestorsFrom (sp : StripFn) (countT : Pat) (fromT : Option Pat) (single : Bool) :
    Bool → List Loc → List Loc
  | _, [] => []
  | isContext, n :: rest =>
    if !isContext && fromMatches sp fromT n then []
    else if patMatches sp countT n then
      (if single then [n] else n :: matchingAncestorsFrom sp countT fromT single false rest)
    else matchingAncestorsFrom sp countT fromT single false rest

def matchingAncestors (sp : StripFn) (countT : Pat) (fromT : Option Pat) (single : Bool) (L : List Loc) : List Loc :=
  matchingAncestorsFrom sp countT fromT single true L

/-- `ElemNumber::getPreviousNode`, single/multiple branch, iterated by `CountersTable::countNode`: from the
target walk `getPreviousSibling()`; every sibling matching `count` is one more member of the chain.  The
argument is the list of preceding siblings, nearest first. -/
def siblingChain (sp : StripFn) (countT : Pat) : List Loc → Nat
  | [] => 0
  | x :: xs => if patMatches sp countT x then 1 + siblingChain sp countT xs else siblingChain sp countT xs

/-- the number of one collected ancestor: itself plus the matching preceding siblings -/
def numberOfTarget (sp : StripFn) (countT : Pat) (t : Loc) : Nat :=
  1 + siblingChain sp countT t.precedingSiblings

/-- the number list `getCountString` formats (outermost first) for level single (`single = true`) or multiple -/
def numberList (sp : StripFn) (countT : Pat) (fromT : Option Pat) (single : Bool) (l : Loc) : List Nat :=
  ((matchingAncestors sp countT fromT single (l :: l.ancestors)).reverse).map (numberOfTarget sp countT)

end XalanModel.C13
